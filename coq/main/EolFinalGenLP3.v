From Coq Require Import List ZArith Lia Bool.
Import ListNotations.
Require Import Base Tree Rdr Link Collect Html Recog LP Rules Starts Driver Rec16 Rec17 Rec18 RecBounds Cursor CursorX L2Kind L2CC SpanSmall NoPanic12
  ShEnv GramTree GramLP GramLP2 EolInv EolCRBytes EolHtmlInv EolCRLFSimTree Props LADef EolFinalDefs EolFinalSimBytes EolFinalSimTree EolFinalGenOcp EolFinalGenTree EolFinalGenClose EolFinalGenInv
  EolFinalGenLP EolFinalGenLP2.
Open Scope Z_scope.

Section GenLP3.
Context {HO : OcpFinC}.

(* C14 (i), final newline: CollectInline in the two runs. *)

Lemma paraK_no K : K <> ParagraphKind -> K <> SetextHeadingKind -> isParaK K = false.
Proof. intros A B. unfold isParaK. apply orb_false_iff. split; apply Z.eqb_neq; assumption. Qed.
(* the single-run facts about the tree, with the kind of the container *)
Definition Tp (L K : Z) (p : lp) : Prop := ccP p /\ QP L p /\ ckind p K.
Lemma Tp_same L K p p' : same_tree p p' -> envOf p' = envOf p -> 0 <= li p' -> Tp L K p -> Tp L K p'.
Proof. intros Hs He Hl (A & B & C). split; [eapply ccP_same; eassumption|split; [eapply QP_same; eassumption|eapply ckind_same; eassumption]]. Qed.
Lemma Tp_opened L K p : Tp L K p -> Tp L K (if state p =? stOpening then withState p stOpenMatched else p).
Proof. intros H. destruct (_ =? _); exact H. Qed.
Lemma Tp_advance L K p n : Tp L K p -> Tp L K (advance p n). Proof. intros H. apply (Tp_same L K p); [apply same_advance|apply env_advance|apply li_advance_ge, (QP_li L p), H|exact H]. Qed.
Lemma Tp_add_ik L K p u : Tp L K p -> isParaK K = false -> ikind u <> SoftLineBreakKind -> Tp L K (updCont p (fun b => set_bik b (bik b ++ [u]))).
Proof.
  intros (A & B & C) HK Hu. split; [apply (ccP_updCont_ik p (fun b => bik b ++ [u])), A|split].
  - apply QP_updCont_at; [exact B|]. intros SS x Hx Hq. apply qB2_add_ik; [exact Hq|exact Hu|rewrite (C x Hx); exact HK].
  - apply ckind_updCont; [intros b; apply bkind_set_bik|exact C].
Qed.

Lemma li_advance_ok p n : 0 <= n -> li p + n <= len (line p) -> li (advance p n) = li p + n.
Proof.
  intros Hn Hl. unfold advance. destruct (Z.ltb_spec n 0); [lia|]. destruct (Z.eqb_spec n 0) as [->|N]; [lia|]. cbv zeta.
  set (p0 := if state p =? stOpening then withState p stOpenMatched else p).
  assert (E : li p0 = li p /\ line p0 = line p) by (unfold p0; destruct (state p =? stOpening); split; reflexivity).
  destruct E as (E1 & E2). clearbody p0. rewrite <- E1. rewrite <- E1, <- E2 in Hl.
  destruct (Z.ltb_spec (len (line p0)) (li p0 + n)); [lia|]. destruct p0. reflexivity.
Qed.
Lemma env_fields p p' : envOf p' = envOf p -> source p' = source p /\ lineStart p' = lineStart p /\ line p' = line p.
Proof. unfold envOf. intros E. injection E as A B C. tauto. Qed.

Lemma advance_end_shape p : 0 <= li p <= len (line p) -> state p <> stOpening -> exists cl tr, advance p (len (line p) - li p) =
  {| source := source p; root := root p; container := container p; lineStart := lineStart p; line := line p; li := len (line p); col := cl; tabRem := tr;
     state := state p; panicked := panicked p |}.
Proof.
  intros Hi Hs. unfold advance. destruct (Z.ltb_spec (len (line p) - li p) 0); [lia|].
  destruct (Z.eqb_spec (len (line p) - li p) 0) as [E0|E0].
  - exists (col p), (tabRem p). destruct p as [S rt cont ls ln i cl tr st pn]. cbn [li line] in *. assert (i = len ln) by lia. subst i. reflexivity.
  - cbv zeta. replace (state p =? stOpening) with false by (symmetry; apply Z.eqb_neq; exact Hs).
    destruct p as [S rt cont ls ln i cl tr st pn]. cbn [li line state] in *. replace (i + (len ln - i)) with (len ln) by lia. rewrite Z.ltb_irrefl.
    unfold withCursor. flds. eexists; eexists; reflexivity.
Qed.

Lemma state_advance_no p n : state p <> stOpening -> state (advance p n) = state p.
Proof.
  intros Hst. unfold advance. destruct (n <? 0); [reflexivity|]. destruct (n =? 0); [reflexivity|]. cbv zeta.
  replace (state p =? stOpening) with false by (symmetry; apply Z.eqb_neq; exact Hst). destruct (len (line p) <? li p + n); reflexivity.
Qed.

(* the optional Indent entry at the head of CollectInline; K is any container kind but ListMarker *)
Lemma bumpI_indent L s e n r ks : bumpI L (Inl IndentKind s e n r ks) = Inl IndentKind s e n r ks. Proof. reflexivity. Qed.
Lemma appOK_same L K u : K <> ParagraphKind -> K <> HTMLBlockKind -> ikind u <> SoftLineBreakKind -> appOK L K u u.
Proof.
  intros A B C. unfold appOK. replace (K =? ParagraphKind) with false by (symmetry; apply Z.eqb_neq; exact A).
  replace (K =? HTMLBlockKind) with false by (symmetry; apply Z.eqb_neq; exact B). cbn [orb]. destruct (isCode K); [split; [reflexivity|exact C]|reflexivity].
Qed.
Lemma appOK_indent L K s e n : appOK L K (Inl IndentKind s e n [] []) (Inl IndentKind s e n [] []).
Proof. unfold appOK. destruct (_ || _); [reflexivity|]. destruct (isCode K); [split; [reflexivity|discriminate]|reflexivity]. Qed.

Lemma FQ_same_pos L p q : FQ L p q -> li q = li p -> lineStart q + li q = lineStart p + li p.
Proof. intros H E. rewrite (FQ_ls L p q H), E. reflexivity. Qed.

Lemma FQ_collect_head L K p q : FQ L p q -> li q = li p -> Tp L K p -> K <> ListMarkerKind -> K <> ParagraphKind -> K <> SetextHeadingKind -> state p <> stOpening ->
  let p1 := if 0 <? indent p then
              updCont (advance p (indentLength (rest p)))
                (fun b => set_bik b (bik b ++ [Inl IndentKind (lineStart p + li p) (lineStart (advance p (indentLength (rest p))) + li (advance p (indentLength (rest p)))) (indent p) [] []]))
            else p in
  let q1 := if 0 <? indent p then
              updCont (advance q (indentLength (rest q)))
                (fun b => set_bik b (bik b ++ [Inl IndentKind (lineStart q + li q) (lineStart (advance q (indentLength (rest q))) + li (advance q (indentLength (rest q)))) (indent p) [] []]))
            else q in
  FQ L p1 q1 /\ li q1 = li p1 /\ Tp L K p1 /\ envOf p1 = envOf p /\ state p1 = state p /\
  (((0 <? indent p) = true /\ li p1 = li p + indentLength (rest p)) \/ ((0 <? indent p) = false /\ li p1 = li p)).
Proof.
  intros H Es HT NK NP NS Hst. cbv zeta. destruct (0 <? indent p) eqn:Ei; [|split; [exact H|split; [exact Es|split; [exact HT|split; [reflexivity|split; [reflexivity|right; split; reflexivity]]]]]].
  pose proof (FQ_li L p q H) as Hli.
  assert (Hil : li p + indentLength (rest p) <= len (line p)).
  { pose proof (indentLength_le (rest p)) as A. rewrite (len_rest p Hli) in A. lia. }
  rewrite (ext_indentLength _ _ (FQ_rest L p q H)).
  destruct (FQ_advance' L p q (indentLength (rest p)) H Hil) as [Ha Hs]. specialize (Hs Es).
  pose proof (Tp_advance L K p (indentLength (rest p)) HT) as Ta.
  pose proof (env_advance p (indentLength (rest p))) as Ea. pose proof (li_advance_ok p _ (indentLength_nonneg _) Hil) as La.
  assert (Sa : state (advance p (indentLength (rest p))) = state p) by (apply state_advance_no; exact Hst).
  rewrite (FQ_same_pos L p q H Es), (FQ_same_pos L _ _ Ha Hs).
  set (pa := advance p (indentLength (rest p))) in *. set (qa := advance q (indentLength (rest p))) in *. clearbody pa qa.
  destruct Ta as (Tc & Tq & Tk).
  split; [apply (FQ_append L pa qa K); [exact Ha|exact Tc|apply (QP_qB L pa Tq)|exact Tk|exact NK|apply appOK_indent]|].
  split; [exact Hs|]. split; [apply Tp_add_ik; [split; [exact Tc|split; [exact Tq|exact Tk]]|exact (paraK_no K NP NS)|discriminate]|].
  split; [exact Ea|]. split; [exact Sa|]. left. split; [reflexivity|exact La].
Qed.

(* mode 1: a stretch inside the line; the entry is the same in both runs *)
Lemma FQ_collect_bounded L K p q kind n : FQ L p q -> li q = li p -> Tp L K p ->
  K <> ListMarkerKind -> K <> ParagraphKind -> K <> SetextHeadingKind -> K <> HTMLBlockKind -> kind <> SoftLineBreakKind ->
  0 <= n -> li p + indentLength (rest p) + n <= len (line p) ->
  FQ L (collectInline p kind n) (collectInline q kind n) /\ li (collectInline q kind n) = li (collectInline p kind n).
Proof.
  intros H Es HT NK NP NS NH Hk Hn Hb. unfold collectInline. pose proof (FQ_opened L p q H) as H0. rewrite (FQ_state L p q H) in H0 |- *.
  destruct (_ =? stDescendTerminated); [split; [apply FQ_panic, H|exact Es]|]. cbv zeta.
  pose proof (Tp_opened L K p HT) as T0.
  assert (E0 : li (if state p =? stOpening then withState p stOpenMatched else p) = li p /\
               line (if state p =? stOpening then withState p stOpenMatched else p) = line p /\
               rest (if state p =? stOpening then withState p stOpenMatched else p) = rest p /\
               li (if state p =? stOpening then withState q stOpenMatched else q) = li q /\
               state (if state p =? stOpening then withState p stOpenMatched else p) <> stOpening).
  { destruct (state p =? stOpening) eqn:E; repeat split; try discriminate. apply Z.eqb_neq, E. }
  set (p0 := if state p =? stOpening then withState p stOpenMatched else p) in *.
  set (q0 := if state p =? stOpening then withState q stOpenMatched else q) in *. clearbody p0 q0.
  destruct E0 as (E1 & E2 & E3 & E4 & E5). rewrite <- E1, <- E2, <- E3 in Hb. rewrite <- E1, <- E4 in Es. clear E1 E2 E3 E4 H HT.
  rewrite (FQ_indent L p0 q0 H0).
  destruct (FQ_collect_head L K p0 q0 H0 Es T0 NK NP NS E5) as (H1 & Es1 & T1 & Ee1 & Est1 & Hl1). cbv zeta in H1, Es1, T1, Ee1, Est1, Hl1.
  set (p1 := if 0 <? indent p0 then _ else p0) in *. set (q1 := if 0 <? indent p0 then _ else q0) in *. clearbody p1 q1.
  destruct (env_fields _ _ Ee1) as (Src1 & Ls1 & Ln1).
  assert (Hb1 : li p1 + n <= len (line p1)).
  { rewrite Ln1. destruct Hl1 as [[_ ->]|[_ ->]]; [lia|]. pose proof (indentLength_nonneg (rest p0)). lia. }
  destruct (FQ_advance' L p1 q1 n H1 Hb1) as [H2 Hs2]. specialize (Hs2 Es1).
  pose proof (Tp_advance L K p1 n T1) as T2. pose proof (env_advance p1 n) as Ee2. pose proof (li_advance_ok p1 n Hn Hb1) as L2.
  destruct (env_fields _ _ Ee2) as (Src2 & Ls2 & Ln2).
  assert (Src2' : source (advance q1 n) = source (advance p1 n) ++ [10]) by apply H2.
  rewrite (FQ_same_pos L p1 q1 H1 Es1), (FQ_same_pos L _ _ H2 Hs2).
  pose proof (FQ_li L p1 q1 H1) as Hli1. pose proof (FQ_ls0 L p1 q1 H1) as Hls1. pose proof (FQ_end L p1 q1 H1) as Hend1.
  assert (HL : len (source (advance p1 n)) = L) by apply H2.
  set (p2 := advance p1 n) in *. set (q2 := advance q1 n) in *. clearbody p2 q2.
  destruct T2 as (Tc & Tq & Tk). split; [|exact Hs2].
  apply (FQ_append L p2 q2 K); [exact H2|exact Tc|apply (QP_qB L p2 Tq)|exact Tk|exact NK|].
  destruct (Z.eqb_spec kind InfoStringKind) as [Ek|Nk].
  - rewrite Src2', parseInfoString_app10 by (rewrite ?HL, ?Ls2; lia). apply appOK_same; [exact NP|exact NH|rewrite ikind_info; discriminate].
  - apply appOK_same; [exact NP|exact NH|exact Hk].
Qed.

(* mode 2: the rest of the line as a RawHTML entry of an HTML block *)
Lemma FQ_collect_rest L p q : FQ L p q -> li q = li p -> Tp L HTMLBlockKind p -> G p ->
  FQ L (collectInline p RawHTMLKind (len (bytesAfterIndent p))) (collectInline q RawHTMLKind (len (bytesAfterIndent q))) /\
  (state p <> stDescendTerminated -> li (collectInline p RawHTMLKind (len (bytesAfterIndent p))) = len (line p)).
Proof.
  intros H Es HT HG. unfold collectInline. pose proof (FQ_opened L p q H) as H0. rewrite (FQ_state L p q H) in H0 |- *.
  destruct (Z.eqb_spec (state p) stDescendTerminated) as [ED|ND]; [split; [apply FQ_panic, H|intros X; contradiction]|]. cbv zeta.
  pose proof (Tp_opened L HTMLBlockKind p HT) as T0. pose proof (G_opened p HG) as G0.
  assert (E0 : li (if state p =? stOpening then withState p stOpenMatched else p) = li p /\
               line (if state p =? stOpening then withState p stOpenMatched else p) = line p /\
               rest (if state p =? stOpening then withState p stOpenMatched else p) = rest p /\
               li (if state p =? stOpening then withState q stOpenMatched else q) = li q /\
               rest (if state p =? stOpening then withState q stOpenMatched else q) = rest q /\
               state (if state p =? stOpening then withState p stOpenMatched else p) <> stOpening).
  { destruct (state p =? stOpening) eqn:E; repeat split; try discriminate. apply Z.eqb_neq, E. }
  set (p0 := if state p =? stOpening then withState p stOpenMatched else p) in *.
  set (q0 := if state p =? stOpening then withState q stOpenMatched else q) in *. clearbody p0 q0.
  destruct E0 as (E1 & E2 & E3 & E4 & E5 & E6). unfold bytesAfterIndent. rewrite <- E3, <- E5, <- E2. rewrite <- E1, <- E4 in Es. clear E1 E2 E3 E4 E5 H HT HG.
  rewrite (FQ_indent L p0 q0 H0).
  destruct (FQ_collect_head L HTMLBlockKind p0 q0 H0 Es T0 ltac:(discriminate) ltac:(discriminate) ltac:(discriminate) E6) as (H1 & Es1 & T1 & Ee1 & Est1 & Hl1).
  cbv zeta in H1, Es1, T1, Ee1, Est1, Hl1.
  set (p1 := if 0 <? indent p0 then _ else p0) in *. set (q1 := if 0 <? indent p0 then _ else q0) in *. clearbody p1 q1.
  destruct (env_fields _ _ Ee1) as (Src1 & Ls1 & Ln1).
  pose proof (FQ_li L p0 q0 H0) as Hli0. pose proof (FQ_li L p1 q1 H1) as Hli1.
  (* p1 stands at the first byte after the indent *)
  assert (Ep1 : li p1 = li p0 + indentLength (rest p0)).
  { destruct Hl1 as [[_ ->]|[Ei ->]]; [reflexivity|]. apply Z.ltb_ge in Ei. rewrite (indent_zero p0 (proj1 G0) Ei). lia. }
  assert (En : len (trimLeftSpTab (rest p0)) = len (line p1) - li p1).
  { pose proof (trim_len (rest p0)) as T. rewrite (len_rest p0 Hli0) in T. rewrite Ln1, Ep1. lia. }
  assert (En' : len (trimLeftSpTab (rest q0)) = len (line q1) - li q1).
  { pose proof (FQ_rest L p0 q0 H0) as Hr. assert (Eq1 : line q1 = line p1 ++ [10]) by apply H1. rewrite Eq1, fs_len_app, fs_len1, Es1.
    destruct Hr as [->|[Ea Eb]].
    - rewrite trimLeft_app10, fs_len_app, fs_len1. lia.
    - exfalso. (* rest q0 = [] with li q0 = li p0: impossible, q's line has one byte more *)
      assert (Eq0 : line q0 = line p0 ++ [10]) by apply H0. unfold rest in Eb. rewrite Eq0, Es in Eb.
      rewrite from_app10 in Eb by lia. destruct (from_ (line p0) (li p0)); discriminate. }
  rewrite En, En'.
  assert (Hs1 : state p1 <> stOpening) by (rewrite Est1; exact E6).
  assert (Hs1' : state q1 <> stOpening) by (rewrite (FQ_state L p1 q1 H1); exact Hs1).
  assert (Hli1' : 0 <= li q1 <= len (line q1)).
  { assert (Eq1 : line q1 = line p1 ++ [10]) by apply H1. rewrite Eq1, fs_len_app, fs_len1, Es1. lia. }
  destruct (advance_end_shape p1 Hli1 Hs1) as (c1 & t1 & ->). destruct (advance_end_shape q1 Hli1' Hs1') as (c2 & t2 & ->).
  split; [|intros _; cbn [li updCont withRoot setLP]; exact (f_equal len Ln1)].
  destruct T1 as (Tc & Tq & Tk). cbn [lineStart li source]. change (RawHTMLKind =? InfoStringKind) with false. cbv iota.
  assert (H2 : FQ L {| source := source p1; root := root p1; container := container p1; lineStart := lineStart p1; line := line p1; li := len (line p1); col := c1; tabRem := t1; state := state p1; panicked := panicked p1 |}
                    {| source := source q1; root := root q1; container := container q1; lineStart := lineStart q1; line := line q1; li := len (line q1); col := c2; tabRem := t2; state := state q1; panicked := panicked q1 |}).
  { clear - H1. fqsplit H1. flds. rewrite fs_len_app, fs_len1. apply FQ_mk; try assumption; [pose proof (len_nonneg ln); lia|right; split; reflexivity]. }
  apply (FQ_append L _ _ HTMLBlockKind); [exact H2|exact Tc|apply (QP_qB L p1 Tq)|exact Tk|discriminate|].
  unfold appOK. cbn [Z.eqb Pos.eqb orb HTMLBlockKind ParagraphKind]. unfold mkI, bumpI. cbn [Z.eqb Pos.eqb RawHTMLKind IndentKind].
  assert (Eq1 : line q1 = line p1 ++ [10]) by apply H1. rewrite (FQ_ls L p1 q1 H1), Es1, Eq1, fs_len_app, fs_len1.
  pose proof (FQ_end L p1 q1 H1) as Hend. unfold bump. replace (lineStart p1 + len (line p1) =? L) with true by (symmetry; apply Z.eqb_eq; exact Hend).
  f_equal. lia.
Qed.
End GenLP3.
