From Coq Require Import List ZArith Lia Bool.
Import ListNotations.
Require Import Base Tables Utf8 Tree Rdr Link Collect Html Recog Inl3a Inl3b Inl3c Inl3d LP ShapesBase ShapesR IFBase EolFinalDefs LADef EolGenRdrBase
  EolFinalFullRdrE EolFinalFullLinkE.
Open Scope Z_scope.

(* C14 (i), final newline, inline pass, extension mode: the code-span and HTML-tag scanners. *)
Section SE.
Variable src : bytes.
Local Notation L := (len src).
Local Notation src2 := (src ++ [10]).
Hypothesis HL : 0 < L.
Hypothesis Hlast : isEOLz (at_ src (L - 1)) = false.
Local Notation ws := (ws src).
Local Notation WF := (WF src).

Ltac ecur r H Hp :=
  let Ec := fresh "Ec" in let Wc := fresh "Wc" in let Pc := fresh "Pc" in
  destruct (current_ws src HL Hlast r H Hp) as (Ec & Wc & Pc); rewrite Ec; destruct (current r) as [?c ?rc]; cbn [fst snd] in *.
Ltac enext r H :=
  let En := fresh "En" in let Wn := fresh "Wn" in let An := fresh "An" in
  destruct (next_ws src HL Hlast r H) as (En & Wn & An); rewrite En; destruct (next r) as [?ok ?rn]; cbn [fst snd] in *.
(* cur r / snd (current r) on a live reader *)
Lemma cur_pair r : WF r -> r_pos r < L -> cur (ws r) = cur r /\ snd (current (ws r)) = ws (snd (current r)) /\ WF (snd (current r)) /\ r_pos (snd (current r)) = r_pos r.
Proof. intros H Hp. destruct (current_ws src HL Hlast r H Hp) as (Ec & Wc & Pc). unfold cur. rewrite Ec. cbn [fst snd]. tauto. Qed.
Ltac ecp r H Hp :=
  let C1 := fresh "C1" in let C2 := fresh "C2" in let C3 := fresh "C3" in let C4 := fresh "C4" in
  destruct (cur_pair r H Hp) as (C1 & C2 & C3 & C4); rewrite ?C1, ?C2.

(* ---- code spans ---- *)
Definition mapCO (x : option (reader * Z * Z) * Z) : option (reader * Z * Z) * Z :=
  match x with (Some (r, n, c), d) => (Some (ws r, n, c), d) | (None, d) => (None, d) end.
Lemma e_cs_open : forall f r n c, WF r -> r_pos r < L -> cs_open f (ws r) n c = mapCO (cs_open f r n c) /\
  (forall r1 n1 c1 d, cs_open f r n c = (Some (r1, n1, c1), d) -> WF r1 /\ r_pos r1 < L).
Proof.
  induction f as [|f IH]; intros r n c H Hp; [cbn; split; [reflexivity|intros; discriminate]|]. cbn [cs_open]. ecp r H Hp.
  destruct (cur r =? 96).
  - enext (snd (current r)) C3. destruct ok; cbn [negb].
    + change (r_pos (ws rn)) with (r_pos rn). apply IH; [exact Wn|apply An; reflexivity].
    + change (r_pos (ws rn)) with (r_pos rn). cbn. split; [reflexivity|intros; discriminate].
  - cbn. split; [reflexivity|]. intros r1 n1 c1 d E. inversion E; subst. tauto.
Qed.
Lemma e_cs_run : forall f r k, WF r -> cs_run f (ws r) k = (ws (fst (fst (cs_run f r k))), snd (fst (cs_run f r k)), snd (cs_run f r k)) /\ WF (fst (fst (cs_run f r k))).
Proof.
  induction f as [|f IH]; intros r k H; [cbn; tauto|]. cbn [cs_run]. enext r H. destruct ok; cbn [negb]; [|cbn; tauto].
  specialize (An eq_refl). ecp rn Wn An. destruct (cur rn =? 96); [apply IH, C3|cbn; tauto].
Qed.
Lemma e_cs_close : forall f r blen, WF r -> r_pos r < L -> cs_close f (ws r) blen = cs_close f r blen.
Proof.
  induction f as [|f IH]; intros r blen H Hp; [reflexivity|]. cbn [cs_close]. ecp r H Hp. destruct (negb (cur r =? 96)).
  - enext (snd (current r)) C3. destruct ok; cbn [negb]; [apply IH; [exact Wn|apply An; reflexivity]|reflexivity].
  - change (r_pos (ws r)) with (r_pos r). destruct (e_cs_run (S f) (snd (current r)) 1 C3) as [E1 W1]. rewrite E1.
    destruct (cs_run (S f) (snd (current r)) 1) as [[r1 k] alive]. cbn [fst snd] in *. change (r_prev (ws r1)) with (r_prev r1).
    destruct (k =? blen); [reflexivity|]. enext r1 W1. destruct ok; cbn [negb]; [apply IH; [exact Wn|apply An; reflexivity]|reflexivity].
Qed.

(* ---- HTML tags: the scanners of Html.v ---- *)
Lemma e_tagName_loop : forall f r, WF r -> r_pos r < L -> tagName_loop f (ws r) = ws (tagName_loop f r) /\ WF (tagName_loop f r).
Proof.
  induction f as [|f IH]; intros r H Hp; [cbn; tauto|]. cbn [tagName_loop]. ecur r H Hp.
  destruct (_ || _ || _); [|tauto]. enext rc Wc. destruct ok; [apply IH; [exact Wn|apply An; reflexivity]|tauto].
Qed.
Lemma e_parseHTMLTagName f r : WF r -> r_pos r < L ->
  parseHTMLTagName f (ws r) = (fst (parseHTMLTagName f r), ws (snd (parseHTMLTagName f r))) /\ WF (snd (parseHTMLTagName f r)).
Proof.
  intros H Hp. unfold parseHTMLTagName. ecur r H Hp. destruct (negb _); [cbn [fst snd]; tauto|]. enext rc Wc.
  destruct ok; cbn [negb]; [|cbn [fst snd]; tauto]. destruct (e_tagName_loop f rn Wn (An eq_refl)) as [E1 W1]. rewrite E1. cbn [fst snd]. tauto.
Qed.
Lemma e_attrName_loop : forall f r, WF r -> r_pos r < L ->
  attrName_loop f (ws r) = (fst (attrName_loop f r), ws (snd (attrName_loop f r))) /\ WF (snd (attrName_loop f r)) /\
  (fst (attrName_loop f r) = true -> r_pos (snd (attrName_loop f r)) < L).
Proof.
  induction f as [|f IH]; intros r H Hp; [cbn; tauto|]. cbn [attrName_loop]. ecur r H Hp.
  destruct (isAttrNameChar c); [|cbn [fst snd]; split; [reflexivity|split; [exact Wc|intros _; lia]]].
  enext rc Wc. destruct ok; [apply IH; [exact Wn|apply An; reflexivity]|cbn [fst snd]; split; [reflexivity|split; [exact Wn|discriminate]]].
Qed.
Lemma e_untilQuote : forall f r q, WF r -> r_pos r < L -> untilQuote f (ws r) q = (fst (untilQuote f r q), ws (snd (untilQuote f r q))) /\ WF (snd (untilQuote f r q)).
Proof.
  induction f as [|f IH]; intros r q H Hp; [cbn; tauto|]. cbn [untilQuote]. ecur r H Hp.
  destruct (c =? q).
  - rewrite (next_ws1 src HL Hlast rc Wc). cbn [fst snd]. split; [reflexivity|apply (WF_next src HL Hlast rc Wc)].
  - enext rc Wc. destruct ok; [apply IH; [exact Wn|apply An; reflexivity]|cbn [fst snd]; tauto].
Qed.
Lemma e_unquoted_loop : forall f r, WF r -> unquoted_loop f (ws r) = ws (unquoted_loop f r) /\ WF (unquoted_loop f r).
Proof.
  induction f as [|f IH]; intros r H; [cbn; tauto|]. cbn [unquoted_loop]. enext r H. destruct ok; cbn [negb]; [|tauto].
  specialize (An eq_refl). ecur rn Wn An. destruct (isUnquotedAttributeValueChar c); [apply IH, Wc|tauto].
Qed.
Lemma e_parseHTMLAttribute f r : WF r -> r_pos r < L -> (1 <= f)%nat ->
  parseHTMLAttribute f (ws r) = (fst (parseHTMLAttribute f r), ws (snd (parseHTMLAttribute f r))) /\ WF (snd (parseHTMLAttribute f r)).
Proof.
  intros H Hp Hf. unfold parseHTMLAttribute. ecur r H Hp. destruct (_ && _ && _); [cbn [fst snd]; tauto|].
  enext rc Wc. destruct ok; cbn [negb]; [|cbn [fst snd]; tauto]. specialize (An eq_refl).
  destruct (e_attrName_loop f rn Wn An) as (E1 & W1 & A1). rewrite E1. destruct (attrName_loop f rn) as [cont r3]. cbn [fst snd] in *.
  destruct cont; cbn [negb]; [|cbn [fst snd]; tauto]. specialize (A1 eq_refl).
  destruct (e_skipLinkSpace src HL Hlast f r3 W1 Hf) as (E2 & W2 & A2). rewrite E2. destruct (skipLinkSpace f r3) as [ok2 r4]. cbn [fst snd] in *.
  destruct ok2; cbn [negb]; [|cbn [fst snd]; tauto]. specialize (A2 eq_refl). ecur r4 W2 A2.
  destruct (negb (c0 =? 61)); [cbn [fst snd]; tauto|]. enext rc0 Wc0. destruct ok; cbn [negb]; [|cbn [fst snd]; tauto].
  destruct (e_skipLinkSpace src HL Hlast f rn0 Wn0 Hf) as (E3 & W3 & A3). rewrite E3. destruct (skipLinkSpace f rn0) as [ok4 r7]. cbn [fst snd] in *.
  destruct ok4; cbn [negb]; [|cbn [fst snd]; tauto]. specialize (A3 eq_refl). ecur r7 W3 A3.
  destruct (_ || _).
  - enext rc1 Wc1. destruct ok; cbn [negb]; [apply e_untilQuote; [exact Wn1|apply An1; reflexivity]|cbn [fst snd]; tauto].
  - destruct (isUnquotedAttributeValueChar c1); [|cbn [fst snd]; tauto]. destruct (e_unquoted_loop f rc1 Wc1) as [E4 W4]. rewrite E4. cbn [fst snd]. tauto.
Qed.
Lemma e_openTag_loop : forall f r, WF r -> openTag_loop f (ws r) = (fst (openTag_loop f r), ws (snd (openTag_loop f r))) /\ WF (snd (openTag_loop f r)).
Proof.
  induction f as [|f IH]; intros r H; [cbn; tauto|]. cbn [openTag_loop]. change (r_pos (ws r)) with (r_pos r).
  destruct (e_skipLinkSpace src HL Hlast (S f) r H ltac:(lia)) as (E1 & W1 & A1). rewrite E1. destruct (skipLinkSpace (S f) r) as [ok r1]. cbn [fst snd] in *.
  destruct ok; cbn [negb]; [|cbn [fst snd]; tauto]. specialize (A1 eq_refl). ecur r1 W1 A1.
  destruct (c =? 47).
  - enext rc Wc. rewrite jumped_ws. destruct ok; cbn [negb orb]; [|cbn [fst snd]; tauto]. destruct (jumped rn); [cbn [fst snd]; tauto|].
    specialize (An eq_refl). ecur rn Wn An. destruct (negb (c0 =? 62)); [cbn [fst snd]; tauto|]. change (r_pos (ws rc0)) with (r_pos rc0).
    rewrite (next_ws1 src HL Hlast rc0 Wc0). cbn [fst snd]. split; [reflexivity|apply (WF_next src HL Hlast rc0 Wc0)].
  - change (r_pos (ws rc)) with (r_pos rc). destruct (c =? 62).
    + rewrite (next_ws1 src HL Hlast rc Wc). cbn [fst snd]. split; [reflexivity|apply (WF_next src HL Hlast rc Wc)].
    + destruct (r_pos rc =? r_pos r); [cbn [fst snd]; tauto|].
      destruct (e_parseHTMLAttribute (S f) rc Wc ltac:(lia) ltac:(lia)) as [E3 W3]. rewrite E3. destruct (parseHTMLAttribute (S f) rc) as [ok3 r3]. cbn [fst snd] in *.
      destruct ok3; cbn [negb]; [apply IH, W3|cbn [fst snd]; tauto].
Qed.
Lemma e_parseHTMLOpenTag f r : WF r -> r_pos r < L -> fst (parseHTMLOpenTag f (ws r)) = fst (parseHTMLOpenTag f r).
Proof.
  intros H Hp. unfold parseHTMLOpenTag. destruct (e_parseHTMLTagName f r H Hp) as [E1 W1]. rewrite E1. destruct (parseHTMLTagName f r) as [ok r1]. cbn [fst snd] in *.
  destruct ok; cbn [negb]; [|reflexivity]. rewrite (proj1 (e_openTag_loop f r1 W1)). reflexivity.
Qed.
Lemma e_parseHTMLClosingTag f r : WF r -> r_pos r < L -> (1 <= f)%nat -> fst (parseHTMLClosingTag f (ws r)) = fst (parseHTMLClosingTag f r).
Proof.
  intros H Hp Hf. unfold parseHTMLClosingTag. ecur r H Hp. destruct (negb (c =? 47)); [reflexivity|].
  enext rc Wc. rewrite jumped_ws. destruct ok; cbn [negb orb]; [|reflexivity]. destruct (jumped rn); [reflexivity|]. specialize (An eq_refl).
  destruct (e_parseHTMLTagName f rn Wn An) as [E1 W1]. rewrite E1. destruct (parseHTMLTagName f rn) as [ok2 r3]. cbn [fst snd] in *.
  destruct ok2; cbn [negb]; [|reflexivity].
  destruct (e_skipLinkSpace src HL Hlast f r3 W1 Hf) as (E2 & W2 & A2). rewrite E2. destruct (skipLinkSpace f r3) as [ok3 r4]. cbn [fst snd] in *.
  destruct ok3; cbn [negb]; [|reflexivity]. specialize (A2 eq_refl). ecur r4 W2 A2. destruct (negb (c0 =? 62)); reflexivity.
Qed.

(* ---- parseHTMLTag (Inl3d) ---- *)
Lemma e_ht_pi : forall f r start, WF r -> r_pos r < L -> ht_pi f (ws r) start = ht_pi f r start.
Proof.
  induction f as [|f IH]; intros r start H Hp; [reflexivity|]. cbn [ht_pi]. ecp r H Hp. destruct (negb (cur r =? 63)).
  - enext (snd (current r)) C3. destruct ok; cbn [negb]; [apply IH; [exact Wn|apply An; reflexivity]|reflexivity].
  - enext (snd (current r)) C3. rewrite jumped_ws. destruct ok; cbn [negb orb]; [|reflexivity]. destruct (jumped rn); [reflexivity|]. specialize (An eq_refl).
    rewrite (proj1 (cur_pair rn Wn An)). change (r_pos (ws rn)) with (r_pos rn). destruct (cur rn =? 62); [reflexivity|apply IH; assumption].
Qed.
Definition mapOR (o : option reader) : option reader := option_map ws o.
Lemma e_ht_until : forall f r c, WF r -> r_pos r < L -> ht_until f (ws r) c = mapOR (ht_until f r c).
Proof.
  induction f as [|f IH]; intros r c H Hp; [reflexivity|]. cbn [ht_until]. ecp r H Hp. destruct (cur r =? c); [reflexivity|].
  enext (snd (current r)) C3. destruct ok; cbn [negb]; [apply IH; [exact Wn|apply An; reflexivity]|reflexivity].
Qed.
Lemma e_ht_comment : forall f r start, WF r -> ht_comment f (ws r) start = ht_comment f r start.
Proof.
  induction f as [|f IH]; intros r start H; [reflexivity|]. cbn [ht_comment]. destruct (remaining_ws src r H) as [Er Wr]. rewrite Er.
  destruct (remainingNodeBytes r) as [rem r0]. cbn [fst snd] in *. destruct (hasBytePrefix rem [45; 45; 62]).
  - rewrite (next_ws1 src HL Hlast r0 Wr). cbn [snd]. rewrite (next_ws1 src HL Hlast _ (WF_next src HL Hlast r0 Wr)). reflexivity.
  - destruct (hasBytePrefix rem [45; 45]); [reflexivity|]. enext r0 Wr. destruct ok; cbn [negb]; [apply IH, Wn|reflexivity].
Qed.
Lemma e_ht_cdata : forall f r start, WF r -> ht_cdata f (ws r) start = ht_cdata f r start.
Proof.
  induction f as [|f IH]; intros r start H; [reflexivity|]. cbn [ht_cdata]. destruct (remaining_ws src r H) as [Er Wr]. rewrite Er.
  destruct (remainingNodeBytes r) as [rem r0]. cbn [fst snd] in *. destruct (hasBytePrefix rem [93; 93; 62]).
  - rewrite (next_ws1 src HL Hlast r0 Wr). cbn [snd]. rewrite (next_ws1 src HL Hlast _ (WF_next src HL Hlast r0 Wr)). reflexivity.
  - enext r0 Wr. destruct ok; cbn [negb]; [apply IH, Wn|reflexivity].
Qed.
Lemma e_nextNok : forall n r, WF r -> nextNok n (ws r) = mapOR (nextNok n r) /\ (forall x, nextNok n r = Some x -> WF x).
Proof.
  induction n as [|n IH]; intros r H; [cbn; split; [reflexivity|intros x E; inversion E; subst; exact H]|]. cbn [nextNok]. enext r H.
  destruct ok; [apply IH, Wn|split; [reflexivity|intros; discriminate]].
Qed.
Lemma e_parseHTMLTag f r : WF r -> r_pos r < L -> (1 <= f)%nat -> parseHTMLTag f (ws r) = parseHTMLTag f r.
Proof.
  intros H Hp Hf. unfold parseHTMLTag. ecp r H Hp. destruct (negb (cur r =? 60)); [reflexivity|]. change (r_pos (ws r)) with (r_pos r).
  enext (snd (current r)) C3. rewrite jumped_ws. destruct ok; cbn [negb orb]; [|reflexivity]. destruct (jumped rn); [reflexivity|]. specialize (An eq_refl).
  destruct (cur_pair rn Wn An) as (D1 & D2 & D3 & D4). rewrite D1, D2.
  destruct (cur rn =? 63).
  { enext (snd (current rn)) D3. destruct ok; cbn [negb]; [apply e_ht_pi; [exact Wn0|apply An0; reflexivity]|reflexivity]. }
  destruct (cur rn =? 33).
  { enext (snd (current rn)) D3. rewrite jumped_ws. destruct ok; cbn [negb orb]; [|reflexivity]. destruct (jumped rn0); [reflexivity|].
    destruct (remaining_ws src rn0 Wn0) as [Er Wr]. rewrite Er. destruct (remainingNodeBytes rn0) as [rem r3]. cbn [fst snd] in *.
    destruct (_ && _).
    { rewrite (next_ws1 src HL Hlast r3 Wr). cbn [snd].
      destruct (pos_cases src _ (WF_next src HL Hlast r3 Wr)) as [Pl|Pd].
      - rewrite (e_ht_until f _ 62 (WF_next src HL Hlast r3 Wr) Pl). destruct (ht_until f (snd (next r3)) 62); reflexivity.
      - (* the reader is exhausted: nothing is found in either run *)
        destruct f as [|f']; [reflexivity|]. cbn [ht_until]. unfold cur.
        destruct (current_dead src HL Hlast _ (WF_next src HL Hlast r3 Wr) Pd) as [Q1 Q2]. rewrite Q1, Q2. cbn [fst snd].
        change (0 =? 62) with false. change (10 =? 62) with false. cbv iota.
        destruct (next_dead_ws src HL Hlast _ (WF_next src HL Hlast r3 Wr) Pd) as [N1 N2]. rewrite N1, N2. reflexivity. }
    destruct (hasBytePrefix rem [45; 45]).
    { rewrite (next_ws1 src HL Hlast r3 Wr). cbn [snd]. enext (snd (next r3)) (WF_next src HL Hlast r3 Wr). rewrite jumped_ws.
      destruct ok; cbn [negb orb]; [|reflexivity]. destruct (jumped rn1); [reflexivity|].
      destruct (remaining_ws src rn1 Wn1) as [Er2 Wr2]. rewrite Er2. destruct (remainingNodeBytes rn1) as [ts r6]. cbn [fst snd] in *.
      destruct (_ || _); [reflexivity|apply e_ht_comment, Wr2]. }
    destruct (hasBytePrefix rem _); [|reflexivity].
    destruct (e_nextNok 7 r3 Wr) as [E7 W7]. rewrite E7. destruct (nextNok 7 r3) as [r4|]; cbn [mapOR option_map]; [apply e_ht_cdata, (W7 r4 eq_refl)|reflexivity]. }
  destruct (cur rn =? 47).
  { pose proof (e_parseHTMLClosingTag f (snd (current rn)) D3 ltac:(lia) Hf) as E.
    destruct (parseHTMLClosingTag f (snd (current rn))) as [e x]. destruct (parseHTMLClosingTag f (ws (snd (current rn)))) as [e' x']. cbn [fst] in E. subst e'. reflexivity. }
  pose proof (e_parseHTMLOpenTag f (snd (current rn)) D3 ltac:(lia)) as E.
  destruct (parseHTMLOpenTag f (snd (current rn))) as [e x]. destruct (parseHTMLOpenTag f (ws (snd (current rn)))) as [e' x']. cbn [fst] in E. subst e'. reflexivity.
Qed.

(* ---- parseInlineLink (Inl3d), on the reader ---- *)
Definition pilBody (f : nat) (r : reader) (start : Z) : (Z * Z) * ((Z * Z) * (Z * Z)) * ((Z * Z) * (Z * Z)) :=
  let none := (nullSpan, (nullSpan, nullSpan), (nullSpan, nullSpan)) in
  let '(ok, r1) := skipLinkSpace f r in
  if negb ok then none else
  let '(dspan, dtext, r2) := parseLinkDestination f r1 in
  let '(ok2, r3) := if spanValid dspan then skipLinkSpace f r2 else (true, r2) in
  if negb ok2 then none else
  let '(tspan, ttext, r4) := parseLinkTitle f r3 in
  let '(ok3, r5) := if spanValid tspan then skipLinkSpace f r4 else (true, r4) in
  if negb ok3 then none else
  if negb (cur r5 =? 41) then none else
  ((start, r_pos r5 + 1), (dspan, dtext), (tspan, ttext)).
Lemma pil_eq f st start : parseInlineLink f st start = pilBody f (newReader (isrc st) (unpFrom st) (start + 1)) start.
Proof. reflexivity. Qed.
Lemma e_parseLinkTitle_any f r : WF r ->
  parseLinkTitle f (ws r) = (fst (parseLinkTitle f r), ws (snd (parseLinkTitle f r))) /\ WF (snd (parseLinkTitle f r)).
Proof.
  intros H. destruct (pos_cases src r H) as [Hp|Hp]; [apply (e_parseLinkTitle src HL Hlast f r H Hp)|].
  unfold parseLinkTitle. destruct (current_dead src HL Hlast r H Hp) as [D1 D2]. rewrite D1, D2. cbn [fst snd]. tauto.
Qed.
Lemma cur41 r : WF r -> (cur (ws r) =? 41) = (cur r =? 41).
Proof.
  intros H. destruct (pos_cases src r H) as [Hp|Hp]; [rewrite (cur_ws src HL Hlast r H Hp); reflexivity|].
  unfold cur. destruct (current_dead src HL Hlast r H Hp) as [D1 D2]. rewrite D1, D2. reflexivity.
Qed.
Lemma e_pilBody f r start : WF r -> (1 <= f)%nat -> pilBody f (ws r) start = pilBody f r start.
Proof.
  intros H Hf. unfold pilBody. cbv zeta.
  destruct (e_skipLinkSpace src HL Hlast f r H Hf) as (E1 & W1 & A1). rewrite E1. destruct (skipLinkSpace f r) as [ok r1]. cbn [fst snd] in *.
  destruct ok; cbn [negb]; [|reflexivity]. specialize (A1 eq_refl).
  destruct (e_parseLinkDestination src HL Hlast f r1 W1 A1) as [E2 W2]. rewrite E2. destruct (parseLinkDestination f r1) as [[dspan dtext] r2]. cbn [fst snd] in *.
  assert (H3 : (if spanValid dspan then skipLinkSpace f (ws r2) else (true, ws r2)) =
               (fst (if spanValid dspan then skipLinkSpace f r2 else (true, r2)), ws (snd (if spanValid dspan then skipLinkSpace f r2 else (true, r2)))) /\
               WF (snd (if spanValid dspan then skipLinkSpace f r2 else (true, r2)))).
  { destruct (spanValid dspan); [destruct (e_skipLinkSpace src HL Hlast f r2 W2 Hf) as (A & B & _); tauto|cbn [fst snd]; tauto]. }
  destruct H3 as [E3 W3]. rewrite E3. destruct (if spanValid dspan then skipLinkSpace f r2 else (true, r2)) as [ok2 r3]. cbn [fst snd] in *.
  destruct ok2; cbn [negb]; [|reflexivity].
  destruct (e_parseLinkTitle_any f r3 W3) as [E4 W4]. rewrite E4. destruct (parseLinkTitle f r3) as [[tspan ttext] r4]. cbn [fst snd] in *.
  assert (H5 : (if spanValid tspan then skipLinkSpace f (ws r4) else (true, ws r4)) =
               (fst (if spanValid tspan then skipLinkSpace f r4 else (true, r4)), ws (snd (if spanValid tspan then skipLinkSpace f r4 else (true, r4)))) /\
               WF (snd (if spanValid tspan then skipLinkSpace f r4 else (true, r4)))).
  { destruct (spanValid tspan); [destruct (e_skipLinkSpace src HL Hlast f r4 W4 Hf) as (A & B & _); tauto|cbn [fst snd]; tauto]. }
  destruct H5 as [E5 W5]. rewrite E5. destruct (if spanValid tspan then skipLinkSpace f r4 else (true, r4)) as [ok3 r5]. cbn [fst snd] in *.
  destruct ok3; cbn [negb]; [|reflexivity]. rewrite (cur41 r5 W5). reflexivity.
Qed.
End SE.
