From Coq Require Import List ZArith Lia Bool.
Import ListNotations.
Require Import Props Base Tree Rdr Link Collect LP Rules Driver Rec16 Rec17 Rec18 L2Kind L2CC BSDef BSRdr BSTree BSShift LADef LA1 LA2.
Open Scope Z_scope.

(* ===== la depends on the source only below M; la under offsetTree ===== *)

Definition agree (src src' : bytes) (M : Z) : Prop := forall q, 0 <= q < M -> at_ src' q = at_ src q.
Lemma NT_agree src src' M a b : agree src src' M -> 0 <= a -> b <= M -> NT src a b -> NT src' a b.
Proof. intros Ha H0 Hb H q Hq. rewrite Ha by lia. apply H, Hq. Qed.
Definition growOK (src src' : bytes) (M : Z) : Prop :=
  forall e, 0 < e <= M -> e = len src -> e = len src' \/ isEOLz (at_ src' (e - 1)) = true.
Lemma lineOK_agree src src' M s e : agree src src' M -> growOK src src' M -> 0 <= s -> e <= M -> lineOK src s e -> lineOK src' s e.
Proof.
  intros Ha Hg H0 He (A & B & C & D). split; [exact A|]. split; [rewrite Ha by lia; exact B|]. split.
  - intros q Hq Eq. rewrite Ha in Eq by lia. destruct (C q Hq Eq) as [E|(E1 & E2 & E3)]; [left; exact E|right].
    split; [exact E1|]. rewrite !Ha by lia. tauto.
  - destruct D as [D|D]; [apply Hg; [lia|exact D]|right; rewrite Ha by lia; exact D].
Qed.
Lemma eok_agree src src' M K u : agree src src' M -> growOK src src' M -> 0 <= istart u -> iend u <= M -> eok src K u -> eok src' K u.
Proof.
  intros Ha Hg H0 He (A & B & Clv). split; [|split; [|exact Clv]].
  - intros Ei. eapply NT_agree; [exact Ha|exact H0|exact He|apply A, Ei].
  - intros Ep. destruct (B Ep) as [E|[E1 E2]]; [left; exact E|right; split; [exact E1|eapply lineOK_agree; eassumption]].
Qed.
Lemma tileS_agree src src' M : agree src src' M -> forall l lo hi, 0 <= lo -> hi <= M -> tileS src lo hi l -> tileS src' lo hi l.
Proof.
  intros Ha. induction l as [|se r IH]; intros lo hi H0 Hh H; cbn [tileS] in *.
  - destruct H as [A B]. split; [exact A|eapply NT_agree; eassumption].
  - destruct H as (A & B & C & D). pose proof (tileS_le _ _ _ _ D). split; [exact A|]. split; [eapply NT_agree; [exact Ha|exact H0|lia|exact B]|].
    split; [exact C|]. apply IH; [lia|exact Hh|exact D].
Qed.
Lemma tchain_agree src src' M op : agree src src' M -> forall l lo hi, 0 <= lo -> hi <= M -> (forall c, In c l -> bend c <= M /\ bstart c <= M) ->
  tchain src op lo hi l -> tchain src' op lo hi l.
Proof.
  intros Ha. induction l as [|c r IH]; intros lo hi H0 Hh Hb H; cbn [tchain] in *.
  - destruct H as [A B]. split; [exact A|eapply NT_agree; eassumption].
  - destruct H as (A & B & C). destruct (Hb c (or_introl eq_refl)) as [Bc Sc].
    split; [exact A|]. split; [eapply NT_agree; [exact Ha|exact H0|lia|exact B]|].
    destruct (bend c <? 0); [exact C|]. destruct C as [C1 C2]. split; [exact C1|]. apply IH; [lia|exact Hh|intros x Hx; apply Hb; right; exact Hx|exact C2].
Qed.

Lemma la_agree src src' M : agree src src' M -> (forall e, 0 <= e <= M -> bnd0 src e -> bnd0 src' e) -> growOK src src' M -> forall b, la src M b -> la src' M b.
Proof.
  intros Ha Hlb Hg. fix IH 1. intros [K s e bk ik a n c l lb]. cbn [la]. intros (A & B & S4 & C & D).
  split; [exact A|]. split; [destruct B as [B|[B Bd]]; [left; exact B|right; split; [exact B|apply Hlb; [lia|exact Bd]]]|]. split; [exact S4|].
  assert (Hhi : (if e <? 0 then M else e) <= M) by (destruct (Z.ltb_spec e 0); lia).
  assert (Hkids : forall x, In x bk -> bend x <= M /\ bstart x <= M).
  { intros x Hx. pose proof (la_bounds _ _ _ (allQ_In _ _ _ D Hx)). lia. }
  split.
  - destruct (isLeafK K).
    + destruct C as (C1 & C2 & C3). split; [eapply tileS_agree; [exact Ha|lia|exact Hhi|exact C1]|]. split; [|exact C3].
      rewrite Forall_forall in *. intros u Hu. pose proof (tileS_In _ _ _ _ (ispan u) C1 ltac:(apply in_map; exact Hu)) as (P1 & P2 & P3). cbn [ispan fst snd] in *.
      eapply eok_agree; [exact Ha|exact Hg|lia|lia|apply C2, Hu].
    + destruct (K =? ListMarkerKind); [destruct C as [C Cik]; split; [intros He; eapply NT_agree; [exact Ha|lia|exact Hhi|apply C, He]|exact Cik]|].
      destruct (K =? LinkReferenceDefinitionKind); [destruct C as [C Co]; split; [eapply tileS_agree; [exact Ha|lia|exact Hhi|exact C]|exact Co]|].
      destruct C as [C Cik]. split; [eapply tchain_agree; [exact Ha|lia|exact Hhi|exact Hkids|exact C]|exact Cik].
  - clear C Hkids. induction bk as [|x r IHr]; [exact I|]. destruct D as [D1 D2]. split; [apply IH, D1|apply IHr, D2].
Qed.

(* ---- offsetTree by -n on blocks that start at or after n ---- *)
Lemma at_from' (src : bytes) n q : 0 <= n <= q -> at_ (from_ src n) (q - n) = at_ src q.
Proof. intros H. rewrite at_from by lia. f_equal. lia. Qed.
Lemma NT_shift src n a b : 0 <= n <= a -> NT src a b -> NT (from_ src n) (a - n) (b - n).
Proof. intros Hn H q Hq. replace q with ((q + n) - n) by lia. rewrite at_from' by lia. apply H. lia. Qed.
Lemma lineOK_shift src n s e : 0 <= n <= s -> n <= len src -> lineOK src s e -> lineOK (from_ src n) (s - n) (e - n).
Proof.
  intros Hn Hnl (A & B & C & D). split; [lia|]. split; [rewrite at_from' by lia; exact B|]. split.
  2:{ destruct D as [D|D]; [left; rewrite len_from by lia; lia|right; replace (e - n - 1) with ((e - 1) - n) by lia; rewrite at_from' by lia; exact D]. }
  intros q Hq Eq. replace q with ((q + n) - n) in Eq by lia. rewrite at_from' in Eq by lia.
  destruct (C (q + n) ltac:(lia) Eq) as [E|(E1 & E2 & E3)]; [left; lia|right]. split; [lia|].
  replace q with ((q + n) - n) by lia. rewrite at_from' by lia. replace (e - n - 1) with ((e - 1) - n) by lia. rewrite at_from' by lia. tauto.
Qed.
Lemma ispan_shiftI n u : 0 <= iend u -> ispan (shiftI (- n) u) = (istart u - n, iend u - n).
Proof. destruct u as [k s e ind rf ks]. cbn [shiftI]. unfold ispan. cbn [istart iend]. intros He. destruct (Z.leb_spec 0 e); [apply f_equal2; lia|lia]. Qed.
Lemma ikind_shiftI n u : ikind (shiftI n u) = ikind u. Proof. destruct u; reflexivity. Qed.
Lemma iindent_shiftI n u : iindent (shiftI n u) = iindent u. Proof. destruct u; reflexivity. Qed.
Lemma ikids_shiftI n u : ikids (shiftI n u) = map (shiftI n) (ikids u). Proof. destruct u; reflexivity. Qed.

Definition shs (n : Z) (se : Z * Z) : Z * Z := (fst se - n, snd se - n).
Lemma tileS_shift src n : 0 <= n -> forall l lo hi, n <= lo -> tileS src lo hi l -> tileS (from_ src n) (lo - n) (hi - n) (map (shs n) l).
Proof.
  intros Hn. induction l as [|se r IH]; intros lo hi Hlo H; cbn [map tileS shs fst snd] in *.
  - destruct H as [A B]. split; [lia|apply NT_shift; [lia|exact B]].
  - destruct H as (A & B & C & D). split; [lia|]. split; [apply NT_shift; [lia|exact B]|]. split; [lia|]. apply IH; [lia|exact D].
Qed.
Lemma map_ispan_shift n ik lo hi src : 0 <= lo -> tileS src lo hi (map ispan ik) -> map ispan (map (shiftI (- n)) ik) = map (shs n) (map ispan ik).
Proof.
  intros H0 H. rewrite !map_map. apply map_ext_in. intros u Hu.
  pose proof (tileS_In _ _ _ _ (ispan u) H ltac:(apply in_map; exact Hu)) as (P1 & P2 & P3). cbn [ispan fst snd] in *.
  rewrite ispan_shiftI by lia. reflexivity.
Qed.
Lemma defSpans_shift n ik lo hi src : 0 <= lo -> tileS src lo hi (defSpans ik) -> defSpans (map (shiftI (- n)) ik) = map (shs n) (defSpans ik).
Proof.
  intros H0 H. unfold defSpans in *.
  assert (G : forall u c, In u ik -> In c (ikids u) -> 0 <= iend c).
  { intros u c Hu Hc. pose proof (tileS_In _ _ _ _ (ispan c) H) as P. cbn [ispan fst snd] in P.
    destruct P as (P1 & P2 & P3); [|lia]. apply in_flat_map. exists u. split; [exact Hu|apply in_map; exact Hc]. }
  clear H. induction ik as [|u r IH]; [reflexivity|]. cbn [map flat_map]. rewrite map_app. f_equal.
  - rewrite ikids_shiftI, !map_map. apply map_ext_in. intros c Hc. rewrite ispan_shiftI by (apply (G u c); [left; reflexivity|exact Hc]). reflexivity.
  - apply IH. intros u' c Hu' Hc. apply (G u' c); [right; exact Hu'|exact Hc].
Qed.

Lemma tchain_shift src n op : 0 <= n -> forall l lo hi, n <= lo ->
  tchain src op lo hi l -> tchain (from_ src n) op (lo - n) (hi - n) (map (shiftB (- n)) l).
Proof.
  intros Hn. induction l as [|c r IH]; intros lo hi Hlo H; cbn [map tchain] in *.
  - destruct H as [A B]. split; [lia|apply NT_shift; [lia|exact B]].
  - destruct H as (A & B & C). rewrite bstart_shiftB, bend_shiftB.
    split; [lia|]. split; [replace (bstart c + - n) with (bstart c - n) by lia; apply NT_shift; [lia|exact B]|].
    destruct (Z.ltb_spec (bend c) 0) as [L|L].
    + destruct (Z.leb_spec 0 (bend c)); [lia|]. destruct (Z.ltb_spec (bend c) 0); [|lia]. destruct C as [C1 C2]. split; [exact C1|]. rewrite C2. reflexivity.
    + destruct (Z.leb_spec 0 (bend c)); [|lia]. destruct C as [C1 C2]. destruct (Z.ltb_spec (bend c + - n) 0); [lia|].
      split; [lia|]. replace (bend c + - n) with (bend c - n) by lia. apply IH; [lia|exact C2].
Qed.
Lemma tchain_starts src op lo hi l c : tchain src op lo hi l -> In c l -> lo <= bstart c.
Proof.
  revert lo. induction l as [|x r IH]; intros lo H Hin; [destruct Hin|]. destruct H as (A & _ & C).
  destruct Hin as [->|Hin]; [exact A|]. destruct (bend x <? 0); [destruct C as [_ ->]; destruct Hin|]. destruct C as [C1 C2]. specialize (IH _ C2 Hin). lia.
Qed.

Lemma bnd0_shift src n e : 0 <= n <= e -> n <= len src -> bnd0 src e -> bnd0 (from_ src n) (e - n).
Proof.
  intros Hn Hl [E|[E|E]].
  - left. lia.
  - right; left. rewrite len_from by lia. lia.
  - destruct (Z.eq_dec e n) as [->|N]; [left; lia|]. right; right. replace (e - n - 1) with ((e - 1) - n) by lia. rewrite at_from' by lia. exact E.
Qed.
(* ---- leaves under a shift ---- *)
Definition shn (n : Z) (se : Z * Z) : Z * Z := (fst se + n, snd se + n).
Lemma leavesI_shift n : forall u, (forall se, In se (leavesI u) -> 0 <= snd se) -> leavesI (shiftI n u) = map (shn n) (leavesI u).
Proof.
  fix IH 1. intros [k s e ind rf ks] H. cbn [shiftI leavesI]. destruct ks as [|k0 kr].
  - cbn [map leavesI] in *. specialize (H (s, e) (or_introl eq_refl)). cbn [snd] in H. destruct (Z.leb_spec 0 e); [reflexivity|lia].
  - cbn [leavesI] in H. cbn [map]. change (flat_map leavesI (map (shiftI n) (k0 :: kr)) = map (shn n) (flat_map leavesI (k0 :: kr))).
    revert H. generalize (k0 :: kr). intros l H.
    induction l as [|x r IHr]; [reflexivity|]. cbn [map flat_map]. rewrite map_app. f_equal.
    + apply IH. intros se Hse. apply H. cbn [flat_map]. apply in_or_app. left. exact Hse.
    + apply IHr. intros se Hse. apply H. cbn [flat_map]. apply in_or_app. right. exact Hse.
Qed.
Lemma ordIn_In : forall l lo hi se, ordIn lo hi l -> In se l -> lo <= fst se /\ fst se <= snd se /\ snd se <= hi.
Proof.
  induction l as [|x r IH]; intros lo hi se H Hin; [destruct Hin|]. destruct H as (A & B & C). pose proof (ordIn_le _ _ _ C) as Hle.
  destruct Hin as [->|Hin]; [lia|]. destruct (IH _ _ _ C Hin) as (P1 & P2 & P3). lia.
Qed.
Lemma ordIn_shn n : forall l lo hi, ordIn lo hi l -> ordIn (lo + n) (hi + n) (map (shn n) l).
Proof. induction l as [|x r IH]; intros lo hi H; cbn [map ordIn shn fst snd] in *; [lia|]. destruct H as (A & B & C). split; [lia|]. split; [lia|]. apply IH, C. Qed.
Lemma flat_leaves_shift n : forall l, (forall se, In se (flat_map leavesI l) -> 0 <= snd se) -> flat_map leavesI (map (shiftI n) l) = map (shn n) (flat_map leavesI l).
Proof.
  induction l as [|x r IH]; intros H; [reflexivity|]. cbn [map flat_map]. rewrite map_app. f_equal.
  - apply leavesI_shift. intros se Hse. apply H. cbn [flat_map]. apply in_or_app. left. exact Hse.
  - apply IH. intros se Hse. apply H. cbn [flat_map]. apply in_or_app. right. exact Hse.
Qed.
Lemma lvOK_shift n u : 0 <= istart u -> 0 <= iend u -> lvOK u -> lvOK (shiftI n u).
Proof.
  intros H0 H1 H. unfold lvOK in *. rewrite leavesI_shift.
  - destruct u as [k s e ind rf ks]. cbn [shiftI istart iend] in *. destruct (Z.leb_spec 0 e); [|lia]. apply ordIn_shn. exact H.
  - intros se Hse. destruct (ordIn_In _ _ _ _ H Hse) as (P1 & P2 & P3). lia.
Qed.

Lemma la_shift src n : 0 <= n <= len src -> forall M b, cc b = true -> la src M b -> n <= bstart b -> la (from_ src n) (M - n) (shiftB (- n) b).
Proof.
  intros [Hn Hnl] M. fix IH 1. intros [K s e bk ik a nn c l lb] Hcc H Hs. cbn [bstart] in Hs. cbn [shiftB la] in *.
  destruct H as (A & B & S4 & C & D).
  assert (Ee : (if 0 <=? e then e + - n else e) = she n e) by reflexivity. rewrite Ee.
  assert (Eop : (she n e <? 0) = (e <? 0)).
  { unfold she. destruct (Z.leb_spec 0 e) as [L|L]; [|reflexivity].
    replace (e <? 0) with false by (symmetry; apply Z.ltb_ge; lia). apply Z.ltb_ge. lia. }
  assert (Ehi : (if she n e <? 0 then M - n else she n e) = (if e <? 0 then M else e) - n).
  { rewrite Eop. unfold she. destruct (Z.ltb_spec e 0); [reflexivity|]. destruct (Z.leb_spec 0 e); lia. }
  split; [lia|]. split; [unfold she; destruct (Z.leb_spec 0 e); [destruct B as [B|[B Bd]]; [lia|right; split; [lia|replace (e + - n) with (e - n) by lia; apply bnd0_shift; [lia|exact Hnl|exact Bd]]]|left; lia]|]. split; [intros He; apply S4; unfold she in He; destruct (Z.leb_spec 0 e); lia|].
  rewrite Ehi, Eop. replace (s + - n) with (s - n) by lia.
  split.
  - destruct (isLeafK K) eqn:EK.
    + destruct C as (C1 & C2 & C3). split; [|split].
      3:{ intros Ep. specialize (C3 Ep). clear - C3. induction ik as [|x r IHr]; [exact I|]. cbn [map indOK] in *. destruct C3 as [X1 X2]. split; [|apply IHr, X2].
          rewrite ikind_shiftI. intros Ex. specialize (X1 Ex). destruct r as [|y r']; [destruct X1|]. cbn [map]. rewrite ikind_shiftI. exact X1. }
      * rewrite (map_ispan_shift n ik s _ src ltac:(lia) C1). apply tileS_shift; [exact Hn|exact Hs|exact C1].
      * rewrite Forall_forall in *. intros u' Hu'. apply in_map_iff in Hu'. destruct Hu' as (u & <- & Hu).
        pose proof (tileS_In _ _ _ _ (ispan u) C1 ltac:(apply in_map; exact Hu)) as (P1 & P2 & P3). cbn [ispan fst snd] in *.
        destruct (C2 u Hu) as (Q1 & Q2 & Q3). pose proof (ispan_shiftI n u ltac:(lia)) as Esp. unfold ispan in Esp. inversion Esp as [[E1 E2]].
        split; [|split; [|apply lvOK_shift; [lia|lia|exact Q3]]]; rewrite ikind_shiftI, E1, E2.
        -- intros Ei. apply NT_shift; [lia|apply Q1, Ei].
        -- intros Ep. destruct (Q2 Ep) as [(E & E' & E'')|[E3 E4]]; [left; split; [exact E|split; [lia|rewrite iindent_shiftI; exact E'']]|right; split; [exact E3|apply lineOK_shift; [lia|exact Hnl|exact E4]]].
    + destruct (K =? ListMarkerKind); [destruct C as [C Cik]; split; [intros He; apply NT_shift; [lia|apply C; unfold she in He; destruct (Z.leb_spec 0 e); lia]|rewrite Cik; reflexivity]|].
      destruct (K =? LinkReferenceDefinitionKind).
      * destruct C as [C Co]. split; [rewrite (defSpans_shift n ik s _ src ltac:(lia) C); apply tileS_shift; [exact Hn|exact Hs|exact C]|].
        rewrite flat_leaves_shift by (intros se Hse; destruct (ordIn_In _ _ _ _ Co Hse) as (P1 & P2 & P3); lia).
        replace (s - n) with (s + - n) by lia. replace ((if e <? 0 then M else e) - n) with ((if e <? 0 then M else e) + - n) by lia. apply ordIn_shn. exact Co.
      * destruct C as [C Cik]. split; [apply tchain_shift; [exact Hn|exact Hs|exact C]|rewrite Cik; reflexivity].
  - assert (Hst : forall x, In x bk -> n <= bstart x).
    { intros x Hx. destruct (isContK K) eqn:Ek.
      - assert (C' : tchain src (e <? 0) s (if e <? 0 then M else e) bk).
        { unfold isContK in Ek. destruct (isLeafK K); [discriminate|]. destruct (K =? ListMarkerKind); [discriminate|].
          destruct (K =? LinkReferenceDefinitionKind); [discriminate|apply C]. }
        pose proof (tchain_starts _ _ _ _ _ x C' Hx). lia.
      - pose proof (leaf_no_kids _ Hcc Ek) as En. cbn [bkids] in En. subst bk. destruct Hx. }
    apply cc_parts in Hcc. destruct Hcc as [_ Hcc]. cbn [bkids] in Hcc. unfold ccL in Hcc.
    clear C. induction bk as [|x r IHr]; [exact I|]. destruct D as [D1 D2]. cbn [forallb] in Hcc. apply andb_true_iff in Hcc. destruct Hcc as [Hx Hr].
    cbn [map allQ]. split.
    + apply IH; [exact Hx|exact D1|apply Hst; left; reflexivity].
    + apply IHr; [exact Hr|exact D2|intros y Hy; apply Hst; right; exact Hy].
Qed.
