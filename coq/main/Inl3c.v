From Coq Require Import List ZArith Lia Bool.
Import ListNotations.
Require Import Base Tables Utf8 Tree Rdr Link Collect Html Recog Inl3a Inl3b.
Open Scope Z_scope.

(* collectCodeSpan (inlines.go:1475) *)
Definition cs_addSpan (src : bytes) (acc : list pn) (s e : Z) : list pn :=
  let t := sub src s e in
  let n := len t in
  let trim := if (2 <=? n) && (at_ t (n - 2) =? 13) && (at_ t (n - 1) =? 10) then 2
              else if (1 <=? n) && ((at_ t (n - 1) =? 10) || (at_ t (n - 1) =? 13)) then 1 else 0 in
  let e' := e - trim in
  let acc := if 0 <? spanLen s e' then acc ++ [PN 0 TextKind s e' 0 [] []] else acc in
  if 0 <? trim then acc ++ [PN 0 IndentKind e' (e' + trim) 1 [] []] else acc.

Definition isOnlySpaces (l : bytes) : bool := forallb (fun c => c =? 32) l.

Definition stripCodeSpanSpace (src : bytes) (sl : list pn) : list pn :=
  if negb (existsb (fun n => negb (pkind n =? IndentKind) && negb (isOnlySpaces (sub src (ps n) (pe n)))) sl) then sl else
  match sl, rev sl with
  | first :: _, last :: _ =>
    if negb ((pkind first =? IndentKind) || (at_ src (ps first) =? 32)) ||
       negb ((pkind last =? IndentKind) || (at_ src (pe last - 1) =? 32)) then sl else
    (* Go mutates the first node, then the last node (the same node when there is only one) *)
    let sl1 :=
      match sl with
      | f :: r =>
        if pkind f =? IndentKind then
          let f' := setInd f (pind f - 1) in if pind f' =? 0 then r else f' :: r
        else
          let f' := setSpan f (ps f + 1) (pe f) in if plen f' =? 0 then r else f' :: r
      | [] => []
      end in
    match rev sl1 with
    | [] => sl1
    | l :: rr =>
      if pkind l =? IndentKind then
        let l' := setInd l (pind l - 1) in if pind l' =? 0 then rev rr else rev (l' :: rr)
      else
        let l' := setSpan l (ps l) (pe l - 1) in if plen l' =? 0 then rev rr else rev (l' :: rr)
    end
  | _, _ => sl
  end.

Definition collectCodeSpan (st : ist) (spanS spanE cS cE : Z) : ist :=
  let src := isrc st in
  let nodeCount := nodeIndexForPosition (unpFrom st) cE in
  let unpAt (i : Z) := nth (Z.to_nat i) (unp st) (mkI 0 0 0) in
  let '(kids, st) :=
    if nodeCount =? 0 then (cs_addSpan src [] cS cE, st)
    else
      let acc := cs_addSpan src [] cS (iend (unpAt (upos st))) in
      let '(acc, up) :=
        (fix mid (k : nat) (acc : list pn) (up : Z) : list pn * Z :=
           match k with
           | O => (acc, up)
           | S k' =>
             let up := up + 1 in
             let u := unpAt up in
             mid k' (if ikind u =? UnparsedKind then cs_addSpan src acc (istart u) (iend u) else acc) up
           end) (Z.to_nat (nodeCount - 1)) acc (upos st) in
      let up := up + 1 in
      (cs_addSpan src acc (istart (unpAt up)) cE, setUpos st up) in
  let kids := stripCodeSpanSpace src kids in
  fst (addNode st CodeSpanKind spanS spanE kids).
