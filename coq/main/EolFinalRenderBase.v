From Coq Require Import List ZArith Lia Bool.
Import ListNotations.
Require Import Base Tables Utf8 Tree Recog Inl3b Driver Inl3e Render Props ComposeC02 EolFinalDefs EolFinalFullDefs.
Open Scope Z_scope.

(* ====================================================================================================
   C14, final-newline clause, renderer: definitions and byte-level lemmas.
   sbr c      : what the renderer writes for a SoftLineBreak node with an empty span (the synthetic line break the block
                layer puts at the end of a code block that is cut by the end of input).
   LFI sb a b : b is a with LF bytes inserted, and with occurrences of sb replaced by one LF.
   AP t t'    : t' = t or t' = t ++ [10].
   ==================================================================================================== *)
Definition sbr (c : cfg) : bytes :=
  if softBreak c =? 2 then openTag c s_brname ++ [10] else if softBreak c =? 1 then [32] else [10].

Inductive LFI (sb : bytes) : bytes -> bytes -> Prop :=
| LFI_nil : LFI sb [] []
| LFI_same x a b : LFI sb a b -> LFI sb (x :: a) (x :: b)
| LFI_ins a b : LFI sb a b -> LFI sb a (10 :: b)
| LFI_sb a b : LFI sb a b -> LFI sb (sb ++ a) (10 :: b).

Definition AP (t t' : bytes) : Prop := t' = t \/ t' = t ++ [10].

Definition delLF (l : bytes) : bytes := filter (fun x => negb (x =? 10)) l.
Definition delWs (l : bytes) : bytes := filter (fun x => negb ((x =? 10) || (x =? 32))) l.

Lemma LFI_refl sb a : LFI sb a a.
Proof. induction a as [|x a IH]; [constructor|apply LFI_same, IH]. Qed.
Lemma LFI_app sb a b c d : LFI sb a b -> LFI sb c d -> LFI sb (a ++ c) (b ++ d).
Proof.
  intros H1 H2. induction H1 as [|x a b H IH|a b H IH|a b H IH]; cbn [app].
  - exact H2.
  - apply LFI_same, IH.
  - apply LFI_ins, IH.
  - rewrite <- app_assoc. apply LFI_sb, IH.
Qed.
Lemma LFI_flat_map {A} sb (f g : A -> bytes) l : (forall x, In x l -> LFI sb (f x) (g x)) -> LFI sb (flat_map f l) (flat_map g l).
Proof.
  induction l as [|x l IH]; intros H; [constructor|]. cbn [flat_map]. apply LFI_app; [apply H; left; reflexivity|].
  apply IH. intros y Hy. apply H. right. exact Hy.
Qed.
Lemma LFI_eq sb a b : b = a -> LFI sb a b. Proof. intros ->. apply LFI_refl. Qed.
Lemma AP_LFI sb t t' : AP t t' -> LFI sb t t'.
Proof.
  intros [->| ->]; [apply LFI_refl|]. induction t as [|x t IH]; [apply LFI_ins, LFI_nil|]. cbn [app]. apply LFI_same, IH.
Qed.
Lemma AP_refl t : AP t t. Proof. left. reflexivity. Qed.

Lemma delLF_app a b : delLF (a ++ b) = delLF a ++ delLF b. Proof. apply filter_app. Qed.
Lemma delWs_app a b : delWs (a ++ b) = delWs a ++ delWs b. Proof. apply filter_app. Qed.
Lemma LFI_delLF a b : LFI [10] a b -> delLF b = delLF a.
Proof.
  induction 1 as [|x a b H IH|a b H IH|a b H IH]; [reflexivity| | |].
  - cbn [delLF filter]. fold (delLF a). fold (delLF b). rewrite IH. reflexivity.
  - cbn [delLF filter]. change (negb (10 =? 10)) with false. cbv iota. exact IH.
  - cbn [app delLF filter]. change (negb (10 =? 10)) with false. cbv iota. exact IH.
Qed.
Lemma LFI_delWs a b : LFI [32] a b -> delWs b = delWs a.
Proof.
  induction 1 as [|x a b H IH|a b H IH|a b H IH]; [reflexivity| | |].
  - cbn [delWs filter]. fold (delWs a). fold (delWs b). rewrite IH. reflexivity.
  - cbn [delWs filter]. change (negb ((10 =? 10) || (10 =? 32))) with false. cbv iota. exact IH.
  - cbn [app delWs filter]. change (negb ((10 =? 10) || (10 =? 32))) with false. change (negb ((32 =? 10) || (32 =? 32))) with false. cbv iota. exact IH.
Qed.

(* ---- sub on a source that gained bytes at the end ---- *)
Lemma len_app {A} (a b : list A) : len (a ++ b) = len a + len b.
Proof. unfold len. rewrite app_length. lia. Qed.
Lemma sub_app_l (a b : bytes) s e : 0 <= s -> e <= len a -> sub (a ++ b) s e = sub a s e.
Proof.
  intros Hs He. unfold sub, from_, upto, len in *. rewrite skipn_app, firstn_app.
  replace (Z.to_nat (e - s) - length (skipn (Z.to_nat s) a))%nat with O; [cbn [firstn]; apply app_nil_r|].
  rewrite skipn_length. lia.
Qed.
Lemma sub_app_end (a : bytes) s : 0 <= s <= len a -> sub (a ++ [10]) s (len a + 1) = sub a s (len a) ++ [10].
Proof.
  intros Hs. unfold sub, from_, upto, len in *. rewrite skipn_app.
  replace (Z.to_nat s - length a)%nat with O by lia. cbn [skipn].
  rewrite (firstn_all2 (n := Z.to_nat (Z.of_nat (length a) - s)) (skipn (Z.to_nat s) a)) by (rewrite skipn_length; lia).
  apply firstn_all2. rewrite app_length, skipn_length. cbn [length]. lia.
Qed.
Lemma span_valid_elim n s e : span_valid n s e = true -> 0 <= s /\ s <= e /\ e <= n.
Proof.
  unfold span_valid. intros H. apply andb_true_iff in H. destruct H as [H C]. apply andb_true_iff in H. destruct H as [A B].
  apply Z.leb_le in A, B, C. lia.
Qed.

(* ---- the per-byte escapers and the tag filter on a text that gained a final LF ---- *)
Lemma escapeHTML_snoc t : escapeHTML (t ++ [10]) = escapeHTML t ++ [10].
Proof. unfold escapeHTML. rewrite flat_map_app. reflexivity. Qed.
Lemma escapeHTML_AP t t' : AP t t' -> AP (escapeHTML t) (escapeHTML t').
Proof. intros [->| ->]; [left; reflexivity|right; apply escapeHTML_snoc]. Qed.
Lemma takeName_snoc r : takeName (r ++ [10]) = takeName r.
Proof.
  induction r as [|x r IH]; [reflexivity|]. cbn [app takeName]. rewrite IH. reflexivity.
Qed.
Lemma cmName_snoc r : cmName (r ++ [10]) = cmName r.
Proof. destruct r as [|x r]; [reflexivity|]. unfold cmName. cbn [app]. rewrite <- (takeName_snoc (x :: r)). reflexivity. Qed.
Lemma filterRaw_snoc c t : filterRaw c (t ++ [10]) = filterRaw c t ++ [10].
Proof.
  induction t as [|x t IH]; [reflexivity|]. cbn [app filterRaw]. rewrite IH, cmName_snoc.
  destruct (x =? 60); [rewrite <- app_assoc; reflexivity|reflexivity].
Qed.
Lemma filterRaw_AP c t t' : AP t t' -> AP (filterRaw c t) (filterRaw c t').
Proof. intros [->| ->]; [left; reflexivity|right; apply filterRaw_snoc]. Qed.
