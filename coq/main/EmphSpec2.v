(* EmphSpec2.v -- property C11, widened slice: the SPECIFICATION side (extends EmphSpec.v; nothing of the model's inline parser,
   of Utf8.v or of Tables.v is used).
   The line is now a list of CHARACTERS (Unicode code points) serialised as UTF-8 (utf8, written here from the UTF-8 definition):
     ASCII: letters, digits, the single space, the delimiters '*' '_', and every ASCII punctuation byte that does not start another
            inline construct:  double-quote # $ % ' ( ) + , - . / : ; = ? @ ^ { | } ~      (kept out: ` [ ] < > & \ !)
     non-ASCII whitespace: all of the Unicode Zs category beyond the space (the code points that the spec's definition of
            ''Unicode whitespace character'' covers): U+00A0 U+1680 U+2000..U+200A U+202F U+205F U+3000
     non-ASCII punctuation: an explicit family of 46 code points of the categories Pc Pd Pe Pf Pi Po Ps (uniPunctL)
     non-ASCII letters: U+00C0..U+024F except the two signs U+00D7 U+00F7, and a few others (Greek, Cyrillic, kana, CJK: uniLetterL).
   The neighbours of a delimiter run are the CHARACTERS before and after it (lastRune / firstRune decode them from the bytes);
   flanking uses specWs2 / specPunct2 on code points.  Tokens, the process-emphasis procedure (Emph.run false), the events and
   their denotation (applyEv, toI) are those of EmphSpec.v; spans are byte offsets. *)
From Coq Require Import List ZArith Lia Bool.
Import ListNotations.
Require Import Base Tree EmphSpec.
Require Emph.
Open Scope Z_scope.

(* ---------------------------------------------------------------------------------------------- *)
(* 1. characters                                                                                   *)
(* ---------------------------------------------------------------------------------------------- *)
Definition memZ2 (c : Z) (l : list Z) : bool := existsb (Z.eqb c) l.
Definition isDigitB (c : Z) : bool := (48 <=? c) && (c <=? 57).
(* double-quote # $ % ' ( ) + , - . / : ; = ? @ ^ { | } ~ *)
Definition asciiPunct2 : list Z := [34;35;36;37;39;40;41;43;44;45;46;47;58;59;61;63;64;94;123;124;125;126].
Definition textAscii2 (c : Z) : bool := isLetterB c || isDigitB c || (c =? 32) || memZ2 c asciiPunct2.
(* Zs beyond U+0020 *)
Definition uniWsL : list Z := [160; 5760; 8192; 8193; 8194; 8195; 8196; 8197; 8198; 8199; 8200; 8201; 8202; 8239; 8287; 12288].
(* inverted exclamation, section, left guillemet, pilcrow, middle dot, right guillemet, inverted question, Greek question mark, Greek ano teleia,
   hyphen, non-breaking hyphen, figure dash, en dash, em dash, horizontal bar, four single / double quotation marks and low-9 marks, dagger,
   double dagger, bullet, ellipsis, per mille, prime, double prime, single guillemets, double exclamation, double question,
   ideographic comma / full stop, angle and corner brackets, fullwidth ! ( ) , . : ; ? *)
Definition uniPunctL : list Z :=
  [161; 167; 171; 182; 183; 187; 191; 894; 903; 8208; 8209; 8210; 8211; 8212; 8213; 8216; 8217; 8218; 8220; 8221; 8222; 8224; 8225;
   8226; 8230; 8240; 8242; 8243; 8249; 8250; 8252; 8263; 12289; 12290; 12296; 12297; 12300; 12301; 65281; 65288; 65289; 65292; 65294;
   65306; 65307; 65311].
(* alpha beta omega, Cyrillic Zhe zhe ya, hiragana a, katakana a, CJK: day, origin, word, middle *)
Definition uniLetterL : list Z := [945; 946; 969; 1046; 1078; 1103; 12354; 12450; 26085; 26412; 35486; 20013].
Definition uniLetter (c : Z) : bool := ((192 <=? c) && (c <=? 591) && negb (c =? 215) && negb (c =? 247)) || memZ2 c uniLetterL.
Definition uniChar (c : Z) : bool := memZ2 c uniWsL || memZ2 c uniPunctL || uniLetter c.
(* a character of a text stretch / of the line *)
Definition textChar (c : Z) : bool := textAscii2 c || uniChar c.
Definition okChar (c : Z) : bool := isDelimB c || textChar c.

(* UTF-8 (code points below U+10000, which covers the alphabet) *)
Definition enc (c : Z) : bytes :=
  if c <? 128 then [c]
  else if c <? 2048 then [192 + c / 64; 128 + c mod 64]
  else [224 + c / 4096; 128 + (c / 64) mod 64; 128 + c mod 64].
Definition utf8 (cs : list Z) : bytes := flat_map enc cs.

(* a paragraph line of the widened slice: starts with an ASCII letter, characters from the alphabet, no doubled space *)
Definition okLine2 (cs : list Z) : bool :=
  match cs with
  | [] => false
  | c :: _ => isLetterB c && forallb okChar cs && noDbl (utf8 cs)
  end.

(* ---------------------------------------------------------------------------------------------- *)
(* 2. the characters next to a run                                                                 *)
(* ---------------------------------------------------------------------------------------------- *)
(* the first character of a byte string (UTF-8, 1 to 3 bytes) *)
Definition firstRune (l : bytes) : option Z :=
  match l with
  | [] => None
  | b0 :: r =>
    if b0 <? 128 then Some b0
    else if b0 <? 224 then match r with b1 :: _ => Some ((b0 - 192) * 64 + (b1 - 128)) | [] => None end
    else match r with b1 :: b2 :: _ => Some ((b0 - 224) * 4096 + (b1 - 128) * 64 + (b2 - 128)) | _ => None end
  end.
(* the last character: a final byte below 128 is the character; otherwise the byte before it is either the first byte of a
   two-byte sequence (>= 192) or the middle byte of a three-byte sequence *)
Definition lastRune (l : bytes) : option Z :=
  match rev l with
  | [] => None
  | b :: r =>
    if b <? 128 then Some b
    else match r with
         | [] => None
         | a :: r' => if 192 <=? a then Some ((a - 192) * 64 + (b - 128))
                      else match r' with z :: _ => Some ((z - 224) * 4096 + (a - 128) * 64 + (b - 128)) | [] => None end
         end
  end.

(* A Unicode whitespace character is any code point in the Unicode Zs general category, or a tab, line feed, form feed, or carriage return. *)
Definition specWs2 (c : Z) : bool := specWs c || memZ2 c uniWsL.
(* A Unicode punctuation character is an ASCII punctuation character or anything in the general Unicode categories Pc, Pd, Pe, Pf, Pi, Po,
    or Ps: on the alphabet of the slice, the ASCII ones and the family uniPunctL *)
Definition specPunct2 (c : Z) : bool := specPunct c || memZ2 c uniPunctL.
Definition wsO2 (o : option Z) : bool := match o with None => true | Some c => specWs2 c end.
Definition puO2 (o : option Z) : bool := match o with None => false | Some c => specPunct2 c end.
Definition leftFlanking2 (prev next : option Z) : bool :=
  negb (wsO2 next) && (negb (puO2 next) || (puO2 next && (wsO2 prev || puO2 prev))).
Definition rightFlanking2 (prev next : option Z) : bool :=
  negb (wsO2 prev) && (negb (puO2 prev) || (puO2 prev && (wsO2 next || puO2 next))).
Definition canOpen2 (ch : Z) (prev next : option Z) : bool :=
  if ch =? 42 then leftFlanking2 prev next
  else leftFlanking2 prev next && (negb (rightFlanking2 prev next) || puO2 prev).
Definition canClose2 (ch : Z) (prev next : option Z) : bool :=
  if ch =? 42 then rightFlanking2 prev next
  else rightFlanking2 prev next && (negb (leftFlanking2 prev next) || puO2 next).

(* ---------------------------------------------------------------------------------------------- *)
(* 3. the delimiter stack and the specification                                                    *)
(* ---------------------------------------------------------------------------------------------- *)
Definition firstChar (g : list seg) : option Z := match g with [] => None | x :: _ => firstRune (segBytes x) end.
Fixpoint delimsOf2 (g : list seg) (idx : nat) (prev : option Z) : list Emph.delim :=
  match g with
  | [] => []
  | ST txt :: r => delimsOf2 r (S idx) (lastRune txt)
  | SD ch n :: r =>
    {| Emph.did := idx; Emph.dstar := ch =? 42; Emph.dn := n; Emph.dcur := n;
       Emph.dopen := canOpen2 ch prev (firstChar r); Emph.dclos := canClose2 ch prev (firstChar r) |}
    :: delimsOf2 r (S idx) (Some ch)
  end.

Definition specInit2 (t : bytes) : Emph.state :=
  {| Emph.st := delimsOf2 (segment t) 0 None; Emph.bt := fun _ => 0%nat; Emph.cp := 0%nat; Emph.evs := [] |}.
Definition specRun2 (t : bytes) : option (list Emph.delim * list (nat * nat * bool)) := Emph.run false 0 (specFuel t) (specInit2 t).
Definition specEvents2 (t : bytes) : list (nat * nat * bool) := match specRun2 t with Some (_, e) => e | None => [] end.
Definition specNodes2 (t : bytes) : list enode := fold_left applyEv (specEvents2 t) (leavesOf (segment t) 0 0).
Definition specForest2 (t : bytes) : list inline := map toI (specNodes2 t).
