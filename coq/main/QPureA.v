From Coq Require Import List ZArith Lia Bool.
Import ListNotations.
Require Import Base Tree Rdr Link Collect Html Recog LP Rules Starts Driver L2Kind2 QPureA1 QPureA2.
Open Scope Z_scope.

(* T64-pure, second goal: in every tree of parseBlocks D, for EVERY input D (tabs, CR, NUL included), an ATX heading
   block has at most one inline entry (and no block children).

   Route: tree invariant QPureA1.atT (an ATX heading block has no block children and at most one entry) and
   line-parser invariant QPureA1.J (atT of the root, and no block on the right spine down to the container is an
   ATX heading), one lemma per model function (QPureA1.v, QPureA2.v).  The only function that makes an ATX heading the
   container is startATX: openBlock (fresh block, no entries), collectInline at a position with Indent () = 0 (atx_start;
   cursor invariant NoPanic12.G) adds exactly one entry, endBlock moves the container back to the parent. *)

Lemma atT_shiftB n : forall b, atT (shiftB n b) = atT b.
Proof.
  fix IH 1. intros [k s e bk ik a nn c l lb]. cbn [shiftB atT]. f_equal.
  - unfold atl, len. rewrite map_length. destruct bk; reflexivity.
  - induction bk as [|x r IHr]; [reflexivity|]. cbn [map forallb]. rewrite (IH x), IHr. reflexivity.
Qed.
Lemma atL_shift n l : atL (map (shiftB n) l) = atL l.
Proof. unfold atL. induction l as [|x r IH]; [reflexivity|]. cbn [map forallb]. rewrite atT_shiftB, IH. reflexivity. Qed.

Lemma at_makeRoot children s r s' : atL children = true -> makeRoot children s = Some (r, s') ->
  atT (rb_blk r) = true /\ atL (pending s') = true.
Proof.
  intros H Hm. unfold makeRoot in Hm. destruct children as [|b rest]; [discriminate|].
  destruct (isOpen b); [discriminate|]. inversion Hm; subst. cbn [rb_blk pending].
  cbn [atL forallb] in H. apply andb_true_iff in H. destruct H as [Hb Hr]. split; [assumption|].
  rewrite atL_shift. assumption.
Qed.
Definition nb_oka (x : nb) : Prop :=
  match x with NBBlock r s' => atT (rb_blk r) = true /\ atL (pending s') = true | _ => True end.
Lemma at_lineLoop : forall fuel st children ls s, atL children = true -> atL (pending s) = true ->
  nb_oka (lineLoop fuel st children ls s).
Proof.
  induction fuel as [|f IH]; intros st children ls s Hc Hp; [exact I|]. cbn [lineLoop].
  pose proof (at_processLine st children ls (upto (buf s) (bi s)) Hc) as H1.
  destruct (processLine st children ls (upto (buf s) (bi s))) as [[children' st'] pn]. cbn [fst] in H1.
  destruct (negb (pn =? 0)); [exact I|].
  destruct (makeRoot children' s) as [[r s']|] eqn:Em.
  - cbn [nb_oka]. eapply at_makeRoot; eassumption.
  - apply IH; assumption.
Qed.
Lemma at_skipLoop : forall fuel s, atL (pending s) = true -> nb_oka (skipLoop fuel s).
Proof.
  induction fuel as [|f IH]; intros s Hp; [exact I|]. cbn [skipLoop]. cbv zeta.
  destruct (negb _); [exact I|]. destruct (isBlankLine _); [apply IH; assumption|].
  apply at_lineLoop; [reflexivity|assumption].
Qed.
Lemma at_nextBlock fuel s : atL (pending s) = true -> nb_oka (nextBlock fuel s).
Proof.
  intros Hp. unfold nextBlock. destruct (makeRoot (pending s) s) as [[r s']|] eqn:Em.
  - cbn [nb_oka]. eapply at_makeRoot; eassumption.
  - destruct (pending s) eqn:Ep; [apply at_skipLoop; reflexivity|].
    rewrite <- Ep in Hp |- *. apply at_lineLoop; [exact Hp|cbn [pending]; exact Hp].
Qed.
Lemma at_allBlocks : forall fuel s acc, atL (pending s) = true -> Forall (fun r => atT (rb_blk r) = true) acc ->
  Forall (fun r => atT (rb_blk r) = true) (fst (allBlocks fuel s acc)).
Proof.
  induction fuel as [|f IH]; intros s acc Hp Ha; [exact Ha|]. cbn [allBlocks].
  pose proof (at_nextBlock (3 + length (buf s)) s Hp) as Hn.
  destruct (nextBlock _ s) as [r s'| | |]; try exact Ha.
  destruct Hn as [Hr Hp']. apply IH; [assumption|]. apply Forall_app. split; [assumption|]. constructor; [assumption|constructor].
Qed.
Theorem parseBlocks_atT input : Forall (fun r => atT (rb_blk r) = true) (fst (parseBlocks input)).
Proof. unfold parseBlocks. apply at_allBlocks; [reflexivity|constructor]. Qed.
Print Assumptions parseBlocks_atT.

(* ---- the statement asked for ---- *)
Fixpoint atxOneB (b : block) : bool :=
  (negb (bkind b =? ATXHeadingKind) || (len (bik b) <=? 1)) && forallb atxOneB (bkids b).
Lemma atxOneB_eq b : atxOneB b = (negb (bkind b =? ATXHeadingKind) || (len (bik b) <=? 1)) && forallb atxOneB (bkids b).
Proof. destruct b; reflexivity. Qed.
Lemma atT_atxOne : forall b, atT b = true -> atxOneB b = true.
Proof.
  fix IH 1. intros [K s e bk ik a n c l lb] H. rewrite atxOneB_eq. cbn [atT] in H. apply andb_true_iff in H. destruct H as [Hi Hk].
  cbn [bkind bik bkids]. apply andb_true_iff. split.
  - unfold atl in Hi. destruct (negb (K =? ATXHeadingKind)); [reflexivity|]. cbn [orb] in *. apply andb_true_iff in Hi. tauto.
  - clear Hi. induction bk as [|x r IHr]; [reflexivity|]. cbn [forallb] in Hk |- *. apply andb_true_iff in Hk. destruct Hk as [Hx Hr].
    rewrite (IH x Hx), (IHr Hr). reflexivity.
Qed.

(* MAIN THEOREM (second goal), for every input *)
Theorem parseBlocks_atxOne : forall D, Forall (fun r => atxOneB (rb_blk r) = true) (fst (parseBlocks D)).
Proof. intros D. eapply Forall_impl; [|apply parseBlocks_atT]. intros r. apply atT_atxOne. Qed.
Print Assumptions parseBlocks_atxOne.

(* the same for every block of the trees, with "no block children" *)
Inductive inBk (x : block) : block -> Prop :=
| inBk_here : inBk x x
| inBk_kid b c : In c (bkids b) -> inBk x c -> inBk x b.
Lemma atT_inBk x : forall b, inBk x b -> atT b = true -> atT x = true.
Proof.
  intros b Hin. induction Hin as [|b c Hc Hin IH]; intros H; [exact H|]. apply IH.
  apply atT_parts in H. destruct H as [_ H]. unfold atL in H. rewrite forallb_forall in H. apply H, Hc.
Qed.
Theorem parseBlocks_atx_entries : forall D r x, In r (fst (parseBlocks D)) -> inBk x (rb_blk r) -> bkind x = ATXHeadingKind ->
  bkids x = [] /\ len (bik x) <= 1.
Proof.
  intros D r x Hr Hx Hk. pose proof (parseBlocks_atT D) as H. rewrite Forall_forall in H.
  pose proof (atT_inBk x _ Hx (H r Hr)) as Hp. apply atT_parts in Hp. destruct Hp as [Hp _].
  unfold atl in Hp. rewrite Hk in Hp. change (ATXHeadingKind =? ATXHeadingKind) with true in Hp. cbn [negb orb] in Hp.
  apply andb_true_iff in Hp. destruct Hp as [A B]. split; [destruct (bkids x); [reflexivity|discriminate]|apply Z.leb_le, B].
Qed.
Print Assumptions parseBlocks_atx_entries.
