From Coq Require Import List ZArith Lia Bool.
Import ListNotations.
Require Import Base Tree Rdr Link Collect Html Recog LP Rules Starts Driver.
Open Scope Z_scope.

(* the panic code reported by the line machine is always one of 0 (none) or the sites 1..8 *)
Definition PR (p : lp) : Prop := 0 <= panicked p <= 8.

Lemma PR_panic p site : 1 <= site <= 8 -> PR p -> PR (panic p site).
Proof.
  intros Hs H. unfold PR in *. unfold panic, setLP. cbn [panicked].
  destruct (panicked p =? 0); lia.
Qed.
Lemma PR_opening p : PR p -> PR (if state p =? stOpening then withState p stOpenMatched else p).
Proof. intros H. destruct (_ =? _); exact H. Qed.
Lemma PR_advance p n : PR p -> PR (advance p n).
Proof.
  intros H. unfold advance. destruct (n <? 0); [apply PR_panic; [lia|exact H]|].
  destruct (n =? 0); [exact H|]. cbv zeta.
  pose proof (PR_opening p H) as H1.
  destruct (_ <? _); [apply PR_panic; [lia|exact H1]|exact H1].
Qed.
Lemma PR_consumeLine p : PR p -> PR (consumeLine p).
Proof.
  intros H. unfold consumeLine. cbv zeta. pose proof (PR_advance p (len (line p) - li p) H) as H1.
  destruct (_ || _); [exact H1|]. destruct (_ =? stDescending); exact H1.
Qed.
Lemma PR_consumeIndent_loop : forall fuel p n, PR p -> PR (consumeIndent_loop fuel p n).
Proof.
  induction fuel as [|f IH]; intros p n H; [exact H|]. cbn [consumeIndent_loop].
  destruct (n <=? 0); [exact H|]. cbv zeta.
  pose proof (PR_opening p H) as H1.
  destruct (_ && (_ =? 32)); [apply IH; exact H1|].
  destruct (_ && (_ =? 9)); [|apply PR_panic; [lia|exact H1]].
  destruct (n <? _); [exact H1|]. apply IH. exact H1.
Qed.
Lemma PR_consumeIndent p n : PR p -> PR (consumeIndent p n). Proof. apply PR_consumeIndent_loop. Qed.
Lemma PR_openBlock_up : forall fuel p kind, PR p -> PR (openBlock_up fuel p kind).
Proof.
  induction fuel as [|f IH]; intros p kind H; [exact H|]. cbn [openBlock_up].
  destruct (canContain _ _); [exact H|]. destruct (cdepth p); [apply PR_panic; [lia|exact H]|]. apply IH. exact H.
Qed.
Lemma PR_openBlock p kind : PR p -> PR (openBlock p kind).
Proof.
  intros H. unfold openBlock. destruct (_ || _); [apply PR_panic; [lia|exact H]|]. cbv zeta.
  apply (PR_openBlock_up _ (if state p =? stOpening then withState p stOpenMatched else p) kind). apply PR_opening, H.
Qed.
Lemma PR_endBlock p : PR p -> PR (endBlock p).
Proof.
  intros H. unfold endBlock. destruct (_ || _); [apply PR_panic; [lia|exact H]|]. cbv zeta.
  pose proof (PR_opening p H) as H1.
  destruct (cdepth _); [apply PR_panic; [lia|exact H1]|exact H1].
Qed.
Lemma PR_collectInline p kind n : PR p -> PR (collectInline p kind n).
Proof.
  intros H. unfold collectInline. destruct (_ =? stDescendTerminated); [apply PR_panic; [lia|exact H]|]. cbv zeta.
  pose proof (PR_opening p H) as H1.
  match goal with |- PR (updCont ?q _) => change (PR q) end. apply PR_advance.
  destruct (0 <? _); [|exact H1]. match goal with |- PR (updCont ?q _) => change (PR q) end. apply PR_advance. exact H1.
Qed.
Lemma PR_updCont p f : PR p -> PR (updCont p f). Proof. exact (fun H => H). Qed.

Ltac chainP Hh :=
  repeat match goal with
  | |- PR (consumeLine _) => apply PR_consumeLine
  | |- PR (endBlock _) => apply PR_endBlock
  | |- PR (advance _ _) => apply PR_advance
  | |- PR (consumeIndent _ _) => apply PR_consumeIndent
  | |- PR (openBlock _ _) => apply PR_openBlock
  | |- PR (collectInline _ _ _) => apply PR_collectInline
  | |- PR (updCont _ _) => apply PR_updCont
  | |- PR (if ?c then _ else _) => destruct c
  end;
  try exact Hh.

Definition startOKP (f : lp -> lp) : Prop := forall p, PR p -> PR (f p).
Lemma blockStarts_okP : Forall startOKP blockStarts.
Proof.
  unfold blockStarts.
  apply Forall_cons. { intros p H. unfold startBlockQuote. cbv zeta. chainP H. }
  apply Forall_cons. { intros p H. unfold startATX. cbv zeta. destruct (_ <=? _); [exact H|].
                       destruct (parseATXHeading _) as [[level cs] ce]. chainP H. }
  apply Forall_cons. { intros p H. unfold startFenced. cbv zeta. destruct (_ <=? _); [exact H|].
                       destruct (parseCodeFence _) as [[[fc fnn] is_] ie]. chainP H. }
  apply Forall_cons. { intros p H. unfold startHTML. cbv zeta. chainP H. }
  apply Forall_cons. { intros p H. unfold startSetext. cbv zeta. chainP H. }
  apply Forall_cons. { intros p H. unfold startThematic. cbv zeta. chainP H. }
  apply Forall_cons.
  { intros p H. unfold startListItem. cbv zeta. destruct (_ <=? _); [exact H|].
    destruct (parseListMarker _) as [[delim n] mend]. destruct (_ || _); [exact H|]. destruct (_ && _); [exact H|].
    match goal with |- context [endBlock ?X] => assert (H1 : PR (endBlock X)) by chainP H end.
    match goal with |- context [endBlock ?X] => set (q := endBlock X) in * end.
    destruct (isRestBlank q); [chainP H1|].
    destruct (indent q <? 1); [chainP H1|]. destruct (4 <? indent q); chainP H1. }
  apply Forall_cons. { intros p H. unfold startIndented. chainP H. }
  apply Forall_nil.
Qed.
Lemma PR_tryStarts : forall fs p, Forall startOKP fs -> PR p -> PR (snd (tryStarts fs p)).
Proof.
  induction fs as [|f r IH]; intros p Hfs H; [exact H|]. cbn [tryStarts]. cbv zeta. inversion Hfs as [|? ? Hf Hr]; subst.
  assert (H1 : PR (f (withState p stOpening))) by (apply Hf; exact H).
  destruct (_ || _); [apply H1|]. apply IH; [assumption|apply H1].
Qed.
Lemma PR_opening_loop : forall fuel p, PR p -> PR (snd (opening_loop fuel p)).
Proof.
  induction fuel as [|f IH]; intros p H; [exact H|]. cbn [opening_loop].
  destruct (_ || _); [|exact H].
  pose proof (PR_tryStarts blockStarts p blockStarts_okP H) as H1. destruct (tryStarts blockStarts p) as [[|] p1]; cbn [snd] in H1.
  - destruct (_ =? stLineConsumed); [exact H1|apply IH; exact H1].
  - exact H1.
Qed.
Lemma PR_openNewBlocks p am : PR p -> PR (snd (openNewBlocks p am)).
Proof.
  intros H. unfold openNewBlocks. destruct (_ =? 0); [exact H|].
  pose proof (PR_opening_loop (S (length (line p))) p H) as H1. destruct (opening_loop _ p) as [ht p1]. cbn [snd] in H1.
  destruct am; cbn [snd]; [exact H1|]. unfold deferredClose. cbv zeta. destruct (_ && _); exact H1.
Qed.

Lemma PR_matchRule p : PR p -> PR (snd (matchRule p)).
Proof.
  intros H. unfold matchRule. cbv zeta.
  destruct (_ || _); [exact H|].
  destruct (_ =? ListItemKind).
  { unfold matchListItem. destruct (isRestBlank p); [destruct (negb _); [exact H|apply PR_consumeIndent, H]|].
    destruct (_ <=? _); [apply PR_consumeIndent, H|exact H]. }
  destruct (_ =? BlockQuoteKind).
  { unfold matchBlockQuote. cbv zeta. destruct (_ <=? _); [exact H|]. destruct (negb _); [exact H|]. cbn [snd].
    unfold eatQuoteMarker. cbv zeta. chainP H. }
  destruct (_ =? FencedCodeBlockKind).
  { unfold matchFenced. cbv zeta. destruct (if _ <? _ then _ else false); cbn [snd]; [apply PR_consumeLine|apply PR_consumeIndent]; exact H. }
  destruct (_ =? IndentedCodeBlockKind).
  { unfold matchIndented. cbv zeta. destruct (_ <? _); [destruct (negb _)|]; cbn [snd]; try apply PR_consumeIndent; exact H. }
  destruct (_ =? HTMLBlockKind).
  { unfold matchHTML. destruct (htmlEnd _ _); [|exact H]. destruct (isRestBlank _); [exact H|]. cbn [snd]. apply PR_consumeLine.
    apply PR_collectInline; assumption. }
  exact H.
Qed.
Lemma PR_descend_loop : forall fuel p d, PR p -> PR (snd (descend_loop fuel p d)).
Proof.
  induction fuel as [|f IH]; intros p d H; [exact H|]. cbn [descend_loop]. cbv zeta.
  destruct (getAt (S d) (root p)) as [c|]; [|exact H].
  destruct (negb (isOpen c)); [exact H|]. destruct (negb (hasMatch _)); [exact H|].
  pose proof (PR_matchRule (withState (withCont p (Some (S d))) stDescending) H) as H2.
  destruct (matchRule _) as [ok p2]. cbn [snd] in H2.
  destruct (state p2 =? stDescendTerminated); [exact H2|]. destruct (negb ok); [exact H2|]. apply IH. exact H2.
Qed.

Lemma PR_addLineText p : PR p -> PR (addLineText p).
Proof.
  intros H. unfold addLineText. cbv zeta.
  set (p1 := if isRestBlank p then _ else p).
  assert (H1 : PR p1) by (unfold p1; destruct (isRestBlank p); exact H).
  set (p2 := withRoot p1 _). assert (H2 : PR p2) by exact H1.
  assert (Hgo : forall q, PR q ->
    PR (let k := containerKind q in
       let inlineKind := if isCode k then TextKind else if k =? HTMLBlockKind then RawHTMLKind else UnparsedKind in
       let q' := updCont q (fun b => set_bik b (bik b ++ [mkI inlineKind (lineStart q + li q) (lineStart q + len (line q))])) in
       if isCode k && negb (hasByteSuffixEOL (line q')) then
         updCont q' (fun b => set_bik b (bik b ++ [mkI SoftLineBreakKind (lineStart q' + len (line q')) (lineStart q' + len (line q'))]))
       else q')).
  { intros q Hq. cbv zeta. match goal with |- PR (if ?c then _ else _) => destruct c end; exact Hq. }
  destruct (acceptsLines _).
  - apply Hgo. match goal with |- PR (if ?c then _ else _) => destruct c end; [|exact H2]. apply PR_consumeIndent. exact H2.
  - match goal with |- PR (if ?c then _ else _) => destruct c end; [|exact H2]. apply Hgo. apply PR_consumeIndent.
    apply PR_openBlock. exact H2.
Qed.

Theorem processLine_panic_range st children ls src : 0 <= snd (processLine st children ls src) <= 8.
Proof.
  unfold processLine. cbv zeta.
  assert (H0 : PR (resetLP st children ls src)) by (unfold PR; cbn [resetLP panicked]; lia).
  pose proof (PR_descend_loop (bheight (root (resetLP st children ls src))) _ O H0) as H1.
  fold (descendOpenBlocks (resetLP st children ls src)) in H1.
  destruct (descendOpenBlocks _) as [am p1]. cbn [snd] in H1.
  assert (H2 : PR (snd (if negb (state p1 =? stDescendTerminated) then openNewBlocks p1 am else (false, p1)))).
  { destruct (negb _); [apply PR_openNewBlocks; exact H1|exact H1]. }
  destruct (if negb (state p1 =? stDescendTerminated) then openNewBlocks p1 am else (false, p1)) as [ht p2]. cbn [snd] in H2.
  assert (H3 : PR (if ht then addLineText p2 else p2)) by (destruct ht; [apply PR_addLineText; exact H2|exact H2]).
  cbn [snd]. exact H3.
Qed.
Print Assumptions processLine_panic_range.
