(* QRootEnd.v -- t64-rootend: every root block ends at the end of a line, for EVERY input (NUL, CR, tab included).

   parseBlocks_root_ends      rb_end r = len D, or the byte of D before rb_end r is LF or CR
   parseBlocks_root_src_ends  the same for the source of the root: it is empty, or the root ends at the end of the input, or
                              its last byte is LF or CR
   parseBlocks_root_src_ends' (stronger) the source is never empty
   parseBlocks_root_starts    every root block starts at a line start: rb_start r = 0, or the byte of D before rb_start r is LF or CR
   parseBlocks_root_span      0 <= rb_start r < rb_end r <= len D

   Files, in compile order:
     QRootEnd1  LB (line boundary); readEOL over the entries of a paragraph reports line boundaries (reader theory of LAR1/LAR2/LAR4);
                onCloseParagraph / closeBlock produce blocks that end at line boundaries; without the setext orphan every
                paragraph-like block they produce is closed
     QRootEnd2  the invariant RIl on the children of the root, one lemma per primitive of the line parser (on top of the
                root-children calculus ksRel / shEq of TDefs/TInv/TDesc); descendOpenBlocks
     QRootEnd3  the block starts (all but setext)
     QRootEnd4  the setext start, tryStarts, the opening loop, deferredClose, end of input, addLineText; RA_processLine
     QRootEnd5  the stream layer (a copy of the walk of LA13 with the ends added; NUL padding: padCut, BKq_cut); parseBlocks_rootRE
     QRootEnd6  every root block is non-empty (a copy of the walk of Total.v); parseBlocks_roots_nonempty
     QRootEnd   the theorems asked for *)
From Coq Require Import List ZArith Lia Bool.
Import ListNotations.
Require Import Base Tree Driver LADef LA13 LAOcp LAPad QRootEnd1 QRootEnd5 QRootEnd6.
Open Scope Z_scope.

Lemma isEOLz_cases c : isEOLz c = true -> c = 10 \/ c = 13.
Proof. unfold isEOLz. intros H. apply orb_true_iff in H. destruct H as [H|H]; apply Z.eqb_eq in H; tauto. Qed.

Theorem parseBlocks_root_ends : forall D,
  Forall (fun r => rb_end r = len D \/ at_ D (rb_end r - 1) = 10 \/ at_ D (rb_end r - 1) = 13) (fst (parseBlocks D)).
Proof.
  intros D. pose proof (parseBlocks_rootRE D) as H1. pose proof (parseBlocks_roots_nonempty D) as H2.
  rewrite Forall_forall in *. intros r Hr. destruct (H1 r Hr) as [[A|[A|A]] _]; [specialize (H2 r Hr); lia|left; exact A|right; apply isEOLz_cases, A].
Qed.
Print Assumptions parseBlocks_root_ends.

Theorem parseBlocks_root_src_ends : forall D,
  Forall (fun r => len (rb_src r) = 0 \/ rb_end r = len D \/
                   at_ (rb_src r) (len (rb_src r) - 1) = 10 \/ at_ (rb_src r) (len (rb_src r) - 1) = 13) (fst (parseBlocks D)).
Proof.
  intros D. pose proof (parseBlocks_rootRE D) as H1.
  rewrite Forall_forall in *. intros r Hr. destruct (H1 r Hr) as (_ & [A|[A|A]] & _); [left; exact A|right; left; exact A|right; right; apply isEOLz_cases, A].
Qed.
Print Assumptions parseBlocks_root_src_ends.

(* the source of a root block is never empty *)
Theorem parseBlocks_root_src_nonempty : forall D, Forall (fun r => 0 < len (rb_src r)) (fst (parseBlocks D)).
Proof.
  intros D. pose proof (parseBlocks_rootLA G G_ocp G_upto G_from D I) as H1. pose proof (parseBlocks_roots_nonempty D) as H2.
  rewrite Forall_forall in *. intros r Hr. destruct (H1 r Hr) as (raw & _ & (t & Et) & Es & Eb & _). specialize (H2 r Hr).
  rewrite Es, Et, len_fill_pad, <- Et, <- Eb. exact H2.
Qed.
Print Assumptions parseBlocks_root_src_nonempty.

Theorem parseBlocks_root_src_ends' : forall D,
  Forall (fun r => 0 < len (rb_src r) /\
                   (rb_end r = len D \/ at_ (rb_src r) (len (rb_src r) - 1) = 10 \/ at_ (rb_src r) (len (rb_src r) - 1) = 13)) (fst (parseBlocks D)).
Proof.
  intros D. pose proof (parseBlocks_root_src_ends D) as H1. pose proof (parseBlocks_root_src_nonempty D) as H2.
  rewrite Forall_forall in *. intros r Hr. specialize (H1 r Hr). specialize (H2 r Hr). split; [exact H2|]. destruct H1 as [A|A]; [lia|exact A].
Qed.
Print Assumptions parseBlocks_root_src_ends'.

(* every root block starts at the start of a line *)
Theorem parseBlocks_root_span : forall D, Forall (fun r => 0 <= rb_start r < rb_end r /\ rb_end r <= len D) (fst (parseBlocks D)).
Proof.
  intros D. pose proof (parseBlocks_rootRE D) as H1. pose proof (parseBlocks_roots_nonempty D) as H2.
  rewrite Forall_forall in *. intros r Hr. destruct (H1 r Hr) as (_ & _ & _ & A & B & C). specialize (B (H2 r Hr)). lia.
Qed.
Print Assumptions parseBlocks_root_span.

Theorem parseBlocks_root_starts : forall D,
  Forall (fun r => rb_start r = 0 \/ at_ D (rb_start r - 1) = 10 \/ at_ D (rb_start r - 1) = 13) (fst (parseBlocks D)).
Proof.
  intros D. pose proof (parseBlocks_rootRE D) as H1. pose proof (parseBlocks_root_span D) as H2.
  rewrite Forall_forall in *. intros r Hr. specialize (H2 r Hr). cbv beta in H2. destruct (H1 r Hr) as (_ & _ & [A|[A|A]] & _).
  - left. lia.
  - lia.
  - right. apply isEOLz_cases, A.
Qed.
Print Assumptions parseBlocks_root_starts.
