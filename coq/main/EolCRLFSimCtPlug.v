From Coq Require Import List ZArith.
Require Import Base Driver EolCRLFSimStream EolCRLFSimCtStream EolCRLFSimCt EolCRLFSimAll.
(* sanity check only: the six interface lemmas of EolCRLFSimCt.v instantiate Section All of EolCRLFSimAll.v *)
Check (crlf_nobracket_main SJx LEy LEy_basic X_step X_make X_nil X_next X_init).
