(* QRdrOcp.v -- T58: the loop of onCloseParagraph (LP.ocp_loop) on a paragraph of sD and on its image in sQ.
   The image of a block is M = rB sg eB lpMap; the entries of the paragraph (all Unparsed) are moved each by its own shift, the
   label / destination / title entries of the definitions that are split off are mapped by lpMap: start by sg, end by epsG, the
   children by QRdrCollect.qK (Text nodes cut at the line ends). *)
From Coq Require Import List ZArith Lia Bool.
Import ListNotations.
Require Import Base Tree Rdr Link Collect LP ShapesBase ShapesR IFBase IFLink IFCollect LAR2 EolCRRdr BSOrph QuoteSimMap QCutsDef QCuts QRdrBase QRdrLink QRdrCollect QRdrFuel.
Open Scope Z_scope.

Lemma ibudget_unp : forall l, Forall (fun u => ikind u = UnparsedKind) l -> ibudget l = 0.
Proof. induction l as [|u l IH]; intros H; [reflexivity|]. inversion H as [|? ? Hu Hl]; subst. cbn [ibudget]. rewrite Hu, (IH Hl). reflexivity. Qed.

Section QO.
  Variables (sD sQ : bytes) (sg eB : Z -> Z) (lpMap : inline -> inline).
  Hypothesis HS : SGood sD sQ sg.
  Hypothesis eB_neg1 : eB (-1) = -1.
  Hypothesis eB_end : forall q, 0 <= q < len sD -> eB (q + 1) = sg q + 1.
  Notation qK := (QRdrCollect.qK sD sg).
  Notation sgE := (QRdrBase.sgE sD sQ sg).
  Definition epsG (s e : Z) : Z := if e <? 0 then e else if s <? e then sg (e - 1) + 1 else sg s.
  Notation inR := (QRdrCollect.inR sD).
  Hypothesis lp_spec : forall k s e rf kids, isLinkPart k = true -> Forall inR kids -> lpMap (Inl k s e 0 rf kids) = Inl k (sg s) (epsG s e) 0 rf (flat_map qK kids).
  Notation M := (rB sg eB lpMap).
  Variable F : nat.
  Hypothesis F_big : len sD < Z.of_nat F.

  Definition GoodIk (ik : list inline) : Prop := Forall (gsp sD sg) ik /\ spW sD ik = true.
  Lemma GoodIk_unp ik : GoodIk ik -> Forall (fun u => ikind u = UnparsedKind) ik.
  Proof. intros [G _]. eapply Forall_impl; [|exact G]. intros u (_ & _ & _ & _ & K & _). exact K. Qed.
  Lemma GoodIk_from ik i : GoodIk ik -> GoodIk (from_ ik i).
  Proof.
    intros [G W]. split; [|apply spW_from, W]. unfold from_. rewrite <- (firstn_skipn (Z.to_nat i) ik) in G. apply Forall_app in G. apply G.
  Qed.

  Lemma rI_unp u : ikind u = UnparsedKind -> rI sg lpMap u = mvS sg u.
  Proof. intros K. unfold rI, mvS. rewrite K. reflexivity. Qed.
  Lemma bik_M orig : GoodIk (bik orig) -> bik (M orig) = map (mvS sg) (bik orig).
  Proof.
    intros G. rewrite (bik_rB sg eB lpMap). apply map_ext_in. intros u Hu. apply rI_unp. pose proof (GoodIk_unp _ G) as U. rewrite Forall_forall in U. apply U, Hu.
  Qed.

  Lemma F_pos : F <> O. Proof. pose proof (SG_pos _ _ _ HS). intros ->. cbn in F_big. lia. Qed.
  Lemma nu_fresh ik p : GoodIk ik -> nu sD (newReader sD ik p) < Z.of_nat F.
  Proof. intros G. pose proof (nu_new sD ik p (proj2 G)) as H. rewrite (ibudget_unp ik (GoodIk_unp ik G)) in H. lia. Qed.

  (* ---------------------------------------------------------------- the three entries of a definition *)
  Lemma tlr_neg f r acc e : e < 0 -> 0 <= r_pos r -> tlr_loop f r e acc = acc.
  Proof. intros He Hp. destruct f as [|f]; [reflexivity|]. rewrite tlr_loop_S. destruct (Z.leb_spec e (r_pos r)); [reflexivity|lia]. Qed.

  (* the range [p, e) of the entry list ik: transformLinkReferenceSpan gives the same bytes, collectTextNodes the image of the nodes *)
  Lemma q_range ik p e esc : GoodIk ik -> 0 <= p <= len sD -> InIK ik p -> 0 <= e <= len sD -> EOKe sD ik e ->
    transformLinkReferenceSpan F sQ (map (mvS sg) ik) (sgE p) (sgE e) = transformLinkReferenceSpan F sD ik p e /\
    collectTextNodes F (newReader sQ (map (mvS sg) ik) (sgE p)) (sgE e) TextKind esc = flat_map qK (collectTextNodes F (newReader sD ik p) e TextKind esc) /\
    Forall inR (collectTextNodes F (newReader sD ik p) e TextKind esc).
  Proof.
    intros G Hp Hi He Hok. destruct G as [Gg Gw].
    assert (Hl : forall pre l, ik = pre ++ [l] -> e < iend l \/ iend l = len sD) by (apply (elast_of sD sg ik Gw Gg e); exact Hok).
    assert (Hin : InE sD ik p) by (right; exact Hi).
    split.
    - apply (q_transformLinkReferenceSpan sD sQ sg HS ik Gw Gg e He Hl F p Gg Gw Hp Hin).
    - apply (q_collectTextNodes sD sQ sg HS ik Gw Gg e He Hl F p esc Gg Gw Hp Hin). apply nu_fresh. split; assumption.
  Qed.

  Lemma collect_neg ik p esc e : e < 0 -> 0 <= p -> forall src, collectTextNodes F (newReader src ik p) e TextKind esc = [].
  Proof.
    intros He Hp src. unfold collectTextNodes. rewrite cexit by (cbn; lia). cbn [newReader r_pos]. destruct (Z.ltb_spec p e); [lia|reflexivity].
  Qed.

  Lemma q_label ik is0 ie is0' ie' : GoodIk ik -> 0 <= is0 < len sD -> is0' = sg is0 -> InIK ik is0 -> IER sD sg ik is0 ie ie' ->
    Inl LinkLabelKind is0' ie' 0 (transformLinkReferenceSpan F sQ (map (mvS sg) ik) is0' ie')
        (collectTextNodes F (newReader sQ (map (mvS sg) ik) is0') ie' TextKind false) =
    lpMap (Inl LinkLabelKind is0 ie 0 (transformLinkReferenceSpan F sD ik is0 ie) (collectTextNodes F (newReader sD ik is0) ie TextKind false)).
  Proof.
    intros G Hs -> Hi HI. pose proof (SG_nn _ _ _ HS is0 ltac:(lia)) as Hnn.
    destruct HI as [[-> ->]|(q & Hq & N & -> & -> & Hiq)].
    - rewrite !collect_neg by lia. rewrite lp_spec by (first [reflexivity|constructor]). unfold transformLinkReferenceSpan. rewrite !tlr_neg by (cbn; lia). reflexivity.
    - assert (E1 : sg is0 = sgE is0) by (symmetry; apply (bsgE_in sD sQ sg HS); lia).
      assert (E2 : sg q + 1 = sgE (q + 1)) by (symmetry; apply (bsgE_succ sD sQ sg HS); [lia|left; exact N]).
      rewrite E1, E2. destruct (q_range ik is0 (q + 1) false G ltac:(lia) Hi ltac:(lia)) as (T1 & T2 & T3).
      { right. replace (q + 1 - 1) with q by lia. split; assumption. }
      rewrite lp_spec by (first [reflexivity|exact T3]). rewrite T1, T2. unfold epsG. destruct (Z.ltb_spec (q + 1) 0); [lia|]. destruct (Z.ltb_spec is0 (q + 1)); [|lia].
      replace (q + 1 - 1) with q by lia. rewrite <- E1, <- E2. reflexivity.
  Qed.

  Lemma q_sptx k ik sp tx sp' tx' : isLinkPart k = true -> GoodIk ik ->
    0 <= fst sp < len sD -> fst sp' = sg (fst sp) -> fst sp < snd sp -> EndR sD sg (snd sp) (snd sp') ->
    0 <= fst tx -> fst tx <= snd tx -> snd tx <= len sD -> fst tx' = sgE (fst tx) -> snd tx' = sgE (snd tx) -> InIK ik (fst tx) -> EOKe sD ik (snd tx) ->
    Inl k (fst sp') (snd sp') 0 [] (collectTextNodes F (newReader sQ (map (mvS sg) ik) (fst tx')) (snd tx') TextKind true) =
    lpMap (Inl k (fst sp) (snd sp) 0 [] (collectTextNodes F (newReader sD ik (fst tx)) (snd tx) TextKind true)).
  Proof.
    intros Hk G H1 H2 H3 (q & Hq & E3 & E4) H5 H6 H7 H8 H9 H10 H11.
    destruct (q_range ik (fst tx) (snd tx) true G ltac:(lia) H10 ltac:(lia) H11) as (_ & T2 & T3). rewrite lp_spec by (first [exact Hk|exact T3]).
    rewrite H2, H8, H9, T2, E4. unfold epsG. rewrite E3. destruct (Z.ltb_spec (q + 1) 0); [lia|]. destruct (Z.ltb_spec (fst sp) (q + 1)); [|lia].
    replace (q + 1 - 1) with q by lia. reflexivity.
  Qed.

  (* ---------------------------------------------------------------- exhausted readers *)
  Definition Dead (r : reader) : Prop := r_spans r = [].
  Lemma dead_curNode r : Dead r -> curNode r = (None, r).
  Proof. intros H. apply curNode_nil, H. Qed.
  Lemma dead_current r : Dead r -> Dead (snd (current r)).
  Proof. intros H. destruct (current_snd r) as [E|E]; rewrite E; [exact H|]. rewrite (dead_curNode r H). exact H. Qed.
  Lemma dead_next r : Dead r -> next r = (false, r).
  Proof. intros H. unfold next. rewrite (dead_curNode r H). reflexivity. Qed.
  Lemma dead_sls : forall f r, Dead r -> Dead (snd (skipLinkSpace_loop f r)).
  Proof.
    induction f as [|f IH]; intros r H; [exact H|]. cbn [skipLinkSpace_loop]. pose proof (dead_current r H) as H1.
    destruct (current r) as [c r1]. cbn [snd] in H1. destruct (isSpaceTabOrLineEnding c); [|exact H1]. rewrite (dead_next r1 H1). exact H1.
  Qed.
  Lemma dead_skipLinkSpace f r : Dead r -> Dead (snd (skipLinkSpace f r)).
  Proof.
    intros H. unfold skipLinkSpace. pose proof (dead_current r H) as H1. destruct (current r) as [c r1]. cbn [snd] in H1.
    destruct (c =? 0); [exact H1|apply dead_sls, H1].
  Qed.
  Lemma dead_title f r : Dead r -> fst (fst (parseLinkTitle f r)) = nullSpan.
  Proof.
    intros H. unfold parseLinkTitle. pose proof (dead_current r H) as H1. destruct (current r) as [c r1]. cbn [snd] in H1.
    destruct (negb _); [reflexivity|]. destruct f as [|f]; [reflexivity|]. cbn [lt_loop]. rewrite (dead_next r1 H1). reflexivity.
  Qed.

  (* ---------------------------------------------------------------- cutting the paragraph at the reader *)
  Lemma ocp_loop_cur fuel rf src orig orph r res : ocp_loop fuel rf src orig orph (snd (current r)) res = ocp_loop fuel rf src orig orph r res.
  Proof. destruct fuel as [|f]; [reflexivity|]. cbn [ocp_loop]. rewrite parseLinkLabel_cur. reflexivity. Qed.

  Lemma nodeIdx_prefix : forall pre node rest pos k, spW sD (pre ++ node :: rest) = true -> Forall (gsp sD sg) (pre ++ node :: rest) ->
    istart node <= pos < iend node -> nodeIdx (pre ++ node :: rest) pos k = k + Z.of_nat (length pre).
  Proof.
    induction pre as [|x pre IH]; intros node rest pos k W G Hin.
    - cbn [app nodeIdx length]. inversion G as [|? ? (Ga & _) _]; subst. destruct (Z.ltb_spec pos (istart node)); [lia|].
      rewrite spanHas_intro by lia. lia.
    - cbn [app nodeIdx length] in *. inversion G as [|? ? (Xa & Xb & _) Gr]; subst. pose proof (spW_cons _ _ _ W) as (_ & _ & _ & D & Wr).
      specialize (D node ltac:(apply in_or_app; right; left; reflexivity)).
      destruct (Z.ltb_spec pos (istart x)); [lia|]. destruct (spanHas x pos) eqn:Eh; [pose proof (spanHas_range _ _ Eh); lia|].
      rewrite (IH node rest pos (k + 1) Wr Gr Hin). lia.
  Qed.

  (* the reader x stands in the entry list ik; fc is the index of its span *)
  Lemma cut_reader ik x x' : GoodIk ik -> QRdrBase.RR sD sQ sg ik true x x' -> 0 <= nodeIndexForPosition ik (r_pos x) ->
    let fc := nodeIndexForPosition ik (r_pos x) in
    r_pos x < len sD /\ r_pos x' = sg (r_pos x) /\ nodeIndexForPosition (map (mvS sg) ik) (r_pos x') = fc /\
    QRdrBase.RR sD sQ sg (from_ ik fc) true (snd (current x)) (snd (current x')) /\ nu sD (snd (current x)) = nu sD x.
  Proof.
    intros [Gg Gw] H Hfc. cbv zeta. unfold nodeIndexForPosition in *.
    destruct (nodeIdx_split ik (r_pos x) 0 ltac:(lia)) as [Hn|(_ & pre0 & n0 & rest0 & E1 & _ & E3)]; [lia|].
    assert (Hlt : r_pos x < len sD).
    { pose proof (spanHas_range _ _ E3) as (_ & _ & R3). rewrite Forall_forall in Gg. destruct (Gg n0 ltac:(rewrite E1; apply in_or_app; right; left; reflexivity)) as (_ & _ & Gc & _). lia. }
    pose proof H as (_ & _ & _ & _ & _ & _ & P & P' & _).
    split; [exact Hlt|]. split; [rewrite P'; apply (bsgE_in sD sQ sg HS), Hlt|].
    split; [rewrite P'; apply (bnodeIdx_mvS sD sQ sg HS); [exact Gg|lia]|].
    split; [|apply nu_current].
    pose proof (bRR_current sD sQ sg ik true HS x x' H) as [_ Hc].
    apply (bRR_reik sD sQ sg ik true (from_ ik (nodeIdx ik (r_pos x) 0)) _ _ Hc). exists [].
    (* the spans of the normalised reader begin with the span of the position *)
    destruct (bRR_inside sD sQ sg ik true HS x x' eq_refl H Hlt) as (node & En).
    assert (Esn : snd (current x) = snd (curNode x)).
    { unfold current. pose proof H as (A & _). rewrite A. destruct (Z.leb_spec (len sD) (r_pos x)); [lia|]. destruct (curNode x) as [n r1]. cbn [snd]. destruct (okind n =? IndentKind); [reflexivity|]. destruct (_ =? 0); reflexivity. }
    rewrite Esn. destruct (curNode_cases x) as [E0|(p1 & m & rest & Ex & E0 & Eh)]; rewrite E0 in En |- *; cbn [fst snd withSpans r_spans] in *; [discriminate En|].
    pose proof H as (_ & _ & _ & _ & _ & _ & _ & _ & _ & _ & (pre & SX)). rewrite Ex, app_assoc in SX.
    pose proof (spanHas_range _ _ Eh) as (_ & R2 & R3).
    rewrite SX, (nodeIdx_prefix (pre ++ p1) m rest (r_pos x) 0) by (first [rewrite <- SX; assumption|lia]).
    unfold from_. replace (Z.to_nat (0 + Z.of_nat (length (pre ++ p1)))) with (length (pre ++ p1)) by lia.
    rewrite skipn_app, skipn_all, Nat.sub_diag. reflexivity.
  Qed.

  (* ---------------------------------------------------------------- the loop *)
  Lemma M_refDef s e kids : M (refDefBlock s e kids) = refDefBlock (sg s) (eB e) (map (rI sg lpMap) kids).
  Proof. reflexivity. Qed.
  Lemma rI_lp u : isLinkPart (ikind u) = true -> rI sg lpMap u = lpMap u.
  Proof. intros H. unfold rI. rewrite H. reflexivity. Qed.
  Lemma M_cut orig pos ik2 : M (set_bik (set_bstart orig pos) ik2) = set_bik (set_bstart (M orig) (sg pos)) (map (rI sg lpMap) ik2).
  Proof. destruct orig; reflexivity. Qed.
  Lemma map_snoc {A B} (f : A -> B) l x : map f (l ++ [x]) = map f l ++ [f x].
  Proof. rewrite map_app. reflexivity. Qed.
  Lemma eB_EndR e e' : EndR sD sg e e' -> eB e = e' /\ 0 <= e.
  Proof. intros (q & Hq & -> & ->). split; [apply eB_end, Hq|lia]. Qed.
  Lemma spanValid_rel a b a' b' : 0 <= a < len sD -> a < b -> a' = sg a -> EndR sD sg b b' -> spanValid (a, b) = true /\ spanValid (a', b') = true.
  Proof.
    intros Ha Hb -> (q & Hq & -> & ->). unfold spanValid. cbn [fst snd]. pose proof (SG_nn _ _ _ HS a ltac:(lia)). pose proof (SG_nn _ _ _ HS q ltac:(lia)).
    assert (sg a <= sg q) by (destruct (Z.eq_dec a q) as [->|N]; [lia|pose proof (SG_mono _ _ _ HS a q ltac:(lia) ltac:(lia)); lia]).
    split; repeat (apply andb_true_iff; split); apply Z.leb_le; lia.
  Qed.

  Lemma nodeIdx_none : forall l pos k, (forall u, In u l -> iend u <= pos) -> nodeIdx l pos k < 0.
  Proof.
    induction l as [|i r IH]; intros pos k H; [cbn; lia|]. cbn [nodeIdx]. destruct (pos <? istart i); [lia|].
    destruct (spanHas i pos) eqn:Eh; [pose proof (spanHas_range _ _ Eh); specialize (H i (or_introl eq_refl)); lia|]. apply IH. intros u Hu. apply H. right. exact Hu.
  Qed.
  Lemma RX_fc ik x x' : GoodIk ik -> RX sD sQ sg ik x x' ->
    nodeIndexForPosition ik (r_pos x) < 0 /\ nodeIndexForPosition (map (mvS sg) ik) (r_pos x') < 0 /\ Dead x /\ Dead x'.
  Proof.
    intros [Gg Gw] (_ & _ & Sx & Sx' & _ & Hp0 & Hp1 & _ & Hpv & Ep & Ep' & Hall). split; [apply nodeIdx_none; exact Hall|]. split; [|split; assumption].
    apply nodeIdx_none. intros u' Hu'. apply in_map_iff in Hu'. destruct Hu' as (u & <- & Hu). rewrite Forall_forall in Gg. pose proof (Gg u Hu) as Gu.
    rewrite (iend_mvS' sD sg (SG_pos _ _ _ HS) u Gu), Ep', Hpv. destruct Gu as (Ga & Gb & _). specialize (Hall u Hu).
    assert (sg (iend u - 1) <= sg (r_prev x)); [|lia]. destruct (Z.eq_dec (iend u - 1) (r_prev x)) as [->|N]; [lia|]. pose proof (SG_mono _ _ _ HS (iend u - 1) (r_prev x) ltac:(lia) ltac:(lia)). lia.
  Qed.
  Notation RRi ik := (QRdrBase.RR sD sQ sg ik true).

  Lemma q_ocp_loop : forall fuel orig r r' res, GoodIk (bik orig) -> RRi (bik orig) r r' -> nu sD r < Z.of_nat F ->
    ocp_loop fuel F sQ (M orig) None r' (map M res) = map M (ocp_loop fuel F sD orig None r res).
  Proof.
    induction fuel as [|f IH]; intros orig r r' res G H Hnu; [cbn [ocp_loop]; rewrite map_snoc; reflexivity|].
    pose proof G as [Gg Gw]. set (ik := bik orig) in *.
    assert (Hexit : map M res ++ [M orig] = map M (res ++ [orig])) by (rewrite map_snoc; reflexivity).
    cbn [ocp_loop]. cbv zeta. rewrite (bik_M orig G). fold ik.
    (* the label *)
    pose proof (q_parseLinkLabel sD sQ sg ik HS Gw F r r' H) as L.
    pose proof (parseLinkLabel_prog sD F r (RR_PL _ _ _ _ _ _ _ H)) as (PL1 & _ & Hn1 & _).
    destruct (parseLinkLabel F r) as [[ls li] r1]. destruct (parseLinkLabel F r') as [[ls' li'] r1']. cbn [fst snd] in L, PL1, Hn1.
    destruct L as [[-> ->]|(H1 & L1 & L2 & L3 & L4 & L5 & L6 & L7 & L8)]; [exact Hexit|].
    destruct ls as [lsa lsb]. destruct ls' as [lsa' lsb']. destruct li as [lia0 lib]. destruct li' as [lia' lib']. cbn [fst snd] in *.
    destruct (spanValid_rel lsa lsb lsa' lsb' L1 L7 L2 L3) as [V1 V1']. rewrite V1, V1'. cbn [negb].
    (* the colon *)
    pose proof (bRR_current sD sQ sg ik true HS r1 r1' H1) as [Ec H2]. pose proof (cur_facts sD r1 PL1) as (PL2 & Hn2 & Hp2).
    destruct (current r1) as [c r2] eqn:Ec1. destruct (current r1') as [c' r2'] eqn:Ec1'. cbn [fst snd] in Ec, H2, PL2, Hn2, Hp2. subst c'.
    destruct (Z.eqb_spec c 58) as [E58|N58]; cbn [negb]; [|exact Hexit].
    destruct (cur_byte sD sQ sg ik HS r1 r1' c r2 H1 Ec1 ltac:(lia)) as [Lt1 At1].
    pose proof (bRR_next sD sQ sg ik true HS Gw r2 r2' H2) as (_ & _ & N3 & _). pose proof (next_W sD r2 PL2) as (PL3 & _ & Hn3 & _).
    destruct (next r2) as [ok3 r3]. destruct (next r2') as [ok3' r3']. cbn [fst snd] in N3, PL3, Hn3.
    assert (H3 : RRi ik r3 r3') by (apply N3; rewrite Hp2, At1, E58; discriminate).
    (* white space *)
    destruct (q_skipLinkSpace sD sQ sg ik HS Gw F r3 r3' H3) as [Eo4 T4]. pose proof (skipLinkSpace_prog sD F r3 PL3) as (PL4 & _ & Hn4 & _).
    destruct (skipLinkSpace F r3) as [ok4 r4]. destruct (skipLinkSpace F r3') as [ok4' r4']. cbn [fst snd] in Eo4, T4, PL4, Hn4. subst ok4'.
    destruct ok4; cbn [negb]; [|exact Hexit]. specialize (T4 eq_refl).
    (* the destination *)
    pose proof (q_parseLinkDestination sD sQ sg ik HS Gw Gg F r4 r4' T4 F_pos) as Dd. pose proof (parseLinkDestination_prog sD F r4 PL4) as (PL5 & _ & Hn5 & _).
    destruct (parseLinkDestination F r4) as [[ds dt] r5]. destruct (parseLinkDestination F r4') as [[ds' dt'] r5']. cbn [fst snd] in Dd, PL5, Hn5.
    destruct Dd as [[-> ->]|(H5 & D1 & D2 & D3 & D4 & D5 & D6 & D7 & D8 & D9 & D10 & D11)]; [exact Hexit|].
    destruct ds as [dsa dsb]. destruct ds' as [dsa' dsb']. destruct dt as [dta dtb]. destruct dt' as [dta' dtb']. cbn [fst snd] in *.
    destruct (spanValid_rel dsa dsb dsa' dsb' D1 D3 D2 D4) as [V5 V5']. rewrite V5, V5'. cbn [negb].
    (* the end of the line *)
    pose proof (q_readEOL sD sQ sg ik HS Gw F r5 r5' H5 ltac:(lia)) as HE. pose proof (readEOL_prog sD F r5 PL5) as (PL6 & _ & Hn6 & _).
    destruct (readEOL F r5) as [destEOL r6]. destruct (readEOL F r5') as [destEOL' r6']. cbn [fst snd] in HE, PL6, Hn6.
    (* the two entries *)
    assert (Hlab : Inl LinkLabelKind lia' lib' 0 (transformLinkReferenceSpan F sQ (map (mvS sg) ik) lia' lib') (collectTextNodes F (newReader sQ (map (mvS sg) ik) lia') lib' TextKind false) =
                   rI sg lpMap (Inl LinkLabelKind lia0 lib 0 (transformLinkReferenceSpan F sD ik lia0 lib) (collectTextNodes F (newReader sD ik lia0) lib TextKind false))).
    { rewrite rI_lp by reflexivity. apply q_label; try assumption; lia. }
    assert (Hdst : Inl LinkDestinationKind dsa' dsb' 0 [] (collectTextNodes F (newReader sQ (map (mvS sg) ik) dta') dtb' TextKind true) =
                   rI sg lpMap (Inl LinkDestinationKind dsa dsb 0 [] (collectTextNodes F (newReader sD ik dta) dtb TextKind true))).
    { rewrite rI_lp by reflexivity. apply (q_sptx LinkDestinationKind ik (dsa, dsb) (dta, dtb) (dsa', dsb') (dta', dtb')); cbn [fst snd]; try assumption; try reflexivity; lia. }
    rewrite Hlab, Hdst.
    set (labD := Inl LinkLabelKind lia0 lib 0 _ _) in *. set (dstD := Inl LinkDestinationKind dsa dsb 0 [] _) in *.
    (* the result when the definition ends here *)
    assert (Hdef : forall e e', eB e = e' -> map M res ++ [refDefBlock lsa' e' [rI sg lpMap labD; rI sg lpMap dstD]] = map M (res ++ [refDefBlock lsa e [labD; dstD]])).
    { intros e e' Ee. rewrite map_snoc, M_refDef, Ee, L2. reflexivity. }
    (* cutting the paragraph at a reader x that is related to x' *)
    assert (Hbikcut : forall pos ik2, bik (set_bik (set_bstart orig pos) ik2) = ik2) by (intros; destruct orig; reflexivity).
    assert (Hcut : forall (x x' : reader) (KD KQ : block -> list block) (base : list block) (base' : list block), RRi ik x x' -> base' = map M base ->
              (0 <= nodeIndexForPosition ik (r_pos x) ->
               let cutb := set_bik (set_bstart orig (r_pos x)) (from_ ik (nodeIndexForPosition ik (r_pos x))) in
               RRi (bik cutb) (snd (current x)) (snd (current x')) -> nu sD (snd (current x)) = nu sD x -> GoodIk (bik cutb) -> KQ (M cutb) = map M (KD cutb)) ->
              (if nodeIndexForPosition (map (mvS sg) ik) (r_pos x') <? 0 then base'
               else KQ (set_bik (set_bstart (M orig) (r_pos x')) (from_ (map (mvS sg) ik) (nodeIndexForPosition (map (mvS sg) ik) (r_pos x'))))) =
              map M (if nodeIndexForPosition ik (r_pos x) <? 0 then base else KD (set_bik (set_bstart orig (r_pos x)) (from_ ik (nodeIndexForPosition ik (r_pos x)))))).
    { intros x x' KD KQ base base' Hx Hb HK.
      assert (Efc : nodeIndexForPosition (map (mvS sg) ik) (r_pos x') = nodeIndexForPosition ik (r_pos x)).
      { pose proof Hx as (_ & _ & _ & _ & _ & _ & P & P' & _). unfold nodeIndexForPosition. rewrite P'. apply (bnodeIdx_mvS sD sQ sg HS); [exact Gg|exact P]. }
      rewrite Efc. destruct (Z.ltb_spec (nodeIndexForPosition ik (r_pos x)) 0) as [Lf|Lf]; [exact Hb|].
      destruct (cut_reader ik x x' G Hx Lf) as (C1 & C2 & _ & C4 & C5). cbv zeta in HK.
      rewrite <- (HK Lf); [|rewrite Hbikcut; exact C4|exact C5|rewrite Hbikcut; apply GoodIk_from, G].
      f_equal. rewrite M_cut, C2, from_map. f_equal. apply map_ext_in. intros u Hu. symmetry. apply rI_unp.
      pose proof (GoodIk_unp _ (GoodIk_from ik (nodeIndexForPosition ik (r_pos x)) G)) as U. rewrite Forall_forall in U. apply U, Hu. }
    (* the recursive call after a cut *)
    assert (Hrec : forall (x x' : reader) res2 cutb, RRi (bik cutb) (snd (current x)) (snd (current x')) -> nu sD (snd (current x)) = nu sD x -> nu sD x < Z.of_nat F -> GoodIk (bik cutb) ->
              ocp_loop f F sQ (M cutb) None x' (map M res2) = map M (ocp_loop f F sD cutb None x res2)).
    { intros x x' res2 cutb Hx Hn Hlt Hg. rewrite <- (ocp_loop_cur f F sQ (M cutb) None x'), <- (ocp_loop_cur f F sD cutb None x). apply IH; [exact Hg|exact Hx|lia]. }
    (* the relation of the two ends of the destination line *)
    assert (HeB : eB destEOL = destEOL' /\ (destEOL' <? 0) = (destEOL <? 0) /\ (RRi ik r6 r6' \/ (0 <= destEOL /\ RX sD sQ sg ik r6 r6'))).
    { destruct HE as [(-> & -> & H6)|[HEnd H6]]; [split; [exact eB_neg1|split; [reflexivity|left; exact H6]]|].
      destruct (eB_EndR _ _ HEnd) as [E1 E2]. destruct HEnd as (q & Hq & -> & Eq'). split; [exact E1|]. pose proof (SG_nn _ _ _ HS q ltac:(lia)).
      split; [rewrite Eq'; destruct (Z.ltb_spec (sg q + 1) 0); destruct (Z.ltb_spec (q + 1) 0); lia || reflexivity|]. destruct H6 as [H6|H6]; [left; exact H6|right; split; [lia|exact H6]]. }
    destruct HeB as (HeB & Hlt0 & [H6|[Hd0 H6]]).
    - (* the reader behind the destination line is related *)
      pose proof (bRR_current sD sQ sg ik true HS r6 r6' H6) as [Ec6 H7]. pose proof (cur_facts sD r6 PL6) as (PL7 & Hn7 & Hp7).
      destruct (current r6) as [c6 r7]. destruct (current r6') as [c6' r7']. cbn [fst snd] in Ec6, H7, PL7, Hn7, Hp7. subst c6'.
      assert (Epos : (r_pos r6' =? r_pos r5') = (r_pos r6 =? r_pos r5)).
      { pose proof H6 as (_ & _ & _ & _ & _ & _ & P6 & P6' & _). pose proof H5 as (_ & _ & _ & _ & _ & _ & P5 & P5' & _). rewrite P6', P5'. apply (bsgE_eqb sD sQ sg HS); lia. }
      rewrite Epos, Hlt0. destruct ((destEOL <? 0) && (r_pos r6 =? r_pos r5) && negb (c6 =? 0)); [exact Hexit|].
      destruct (q_skipLinkSpace sD sQ sg ik HS Gw F r7 r7' H7) as [Eo8 T8]. pose proof (skipLinkSpace_prog sD F r7 PL7) as (PL8 & _ & Hn8 & _).
      destruct (skipLinkSpace F r7) as [ok8 r8]. destruct (skipLinkSpace F r7') as [ok8' r8']. cbn [fst snd] in Eo8, T8, PL8, Hn8. subst ok8'.
      destruct ok8; cbn [negb]; [|apply Hdef, HeB]. specialize (T8 eq_refl).
      pose proof (q_parseLinkTitle sD sQ sg ik HS Gw Gg F r8 r8' T8) as Tt. pose proof (parseLinkTitle_prog sD F r8 PL8) as (PL9 & _ & Hn9 & _).
      destruct (parseLinkTitle F r8) as [[ts tt] r9]. destruct (parseLinkTitle F r8') as [[ts' tt'] r9']. cbn [fst snd] in Tt, PL9, Hn9.
      (* going on behind the destination line *)
      assert (Hgo : (if destEOL <? 0 then map M res ++ [M orig]
                     else (if nodeIndexForPosition (map (mvS sg) ik) (r_pos r6') <? 0 then map M res ++ [refDefBlock lsa' destEOL' [rI sg lpMap labD; rI sg lpMap dstD]]
                           else ocp_loop f F sQ (set_bik (set_bstart (M orig) (r_pos r6')) (from_ (map (mvS sg) ik) (nodeIndexForPosition (map (mvS sg) ik) (r_pos r6')))) None r6'
                                         (map M res ++ [refDefBlock lsa' destEOL' [rI sg lpMap labD; rI sg lpMap dstD]]))) =
                    map M (if destEOL <? 0 then res ++ [orig]
                           else (if nodeIndexForPosition ik (r_pos r6) <? 0 then res ++ [refDefBlock lsa destEOL [labD; dstD]]
                                 else ocp_loop f F sD (set_bik (set_bstart orig (r_pos r6)) (from_ ik (nodeIndexForPosition ik (r_pos r6)))) None r6 (res ++ [refDefBlock lsa destEOL [labD; dstD]])))).
      { destruct (destEOL <? 0); [exact Hexit|].
        apply (Hcut r6 r6' (fun b => ocp_loop f F sD b None r6 (res ++ [refDefBlock lsa destEOL [labD; dstD]]))
                           (fun b => ocp_loop f F sQ b None r6' (map M res ++ [refDefBlock lsa' destEOL' [rI sg lpMap labD; rI sg lpMap dstD]])) _ _ H6 (Hdef _ _ HeB)).
        intros Lf. cbv zeta. intros Hx Hn Hg. rewrite (Hdef _ _ HeB). apply Hrec; [exact Hx|exact Hn|lia|exact Hg]. }
      destruct Tt as [[-> ->]|(H9 & T1 & T2 & T3 & T4' & T5 & T6 & T7 & T8' & T9 & T10 & T11)]; [change (spanValid nullSpan) with false; cbn [negb]; exact Hgo|].
      destruct ts as [tsa tsb]. destruct ts' as [tsa' tsb']. destruct tt as [tta ttb]. destruct tt' as [tta' ttb']. cbn [fst snd] in *.
      destruct (spanValid_rel tsa tsb tsa' tsb' T1 T3 T2 T4') as [V9 V9']. rewrite V9, V9'. cbn [negb].
      pose proof (q_readEOL sD sQ sg ik HS Gw F r9 r9' H9 ltac:(lia)) as HE2. pose proof (readEOL_prog sD F r9 PL9) as (PL10 & _ & Hn10 & _).
      destruct (readEOL F r9) as [titleEOL r10]. destruct (readEOL F r9') as [titleEOL' r10']. cbn [fst snd] in HE2, PL10, Hn10.
      assert (Htit : Inl LinkTitleKind tsa' tsb' 0 [] (collectTextNodes F (newReader sQ (map (mvS sg) ik) tta') ttb' TextKind true) =
                     rI sg lpMap (Inl LinkTitleKind tsa tsb 0 [] (collectTextNodes F (newReader sD ik tta) ttb TextKind true))).
      { rewrite rI_lp by reflexivity. apply (q_sptx LinkTitleKind ik (tsa, tsb) (tta, ttb) (tsa', tsb') (tta', ttb')); cbn [fst snd]; try assumption; try reflexivity; lia. }
      rewrite Htit. set (titD := Inl LinkTitleKind tsa tsb 0 [] _) in *.
      destruct HE2 as [(-> & -> & H10)|[HEnd2 H10]].
      + (* no line ending behind the title *)
        change (-1 <? 0) with true. cbv iota. destruct (destEOL <? 0); [exact Hexit|].
        apply (Hcut r6 r6' (fun b => res ++ [refDefBlock lsa destEOL [labD; dstD]] ++ [b]) (fun b => map M res ++ [refDefBlock lsa' destEOL' [rI sg lpMap labD; rI sg lpMap dstD]] ++ [b]) _ _ H6 (Hdef _ _ HeB)).
        intros Lf. cbv zeta. intros Hx Hn Hg. rewrite !map_app. cbn [map]. rewrite M_refDef, HeB, L2. reflexivity.
      + destruct (eB_EndR _ _ HEnd2) as [E1 E2].
        replace (titleEOL' <? 0) with false by (destruct HEnd2 as (q & Hq & _ & ->); pose proof (SG_nn _ _ _ HS q ltac:(lia)); symmetry; apply Z.ltb_ge; lia).
        replace (titleEOL <? 0) with false by (symmetry; apply Z.ltb_ge; lia).
        assert (Hnb : map M res ++ [refDefBlock lsa' titleEOL' [rI sg lpMap labD; rI sg lpMap dstD; rI sg lpMap titD]] = map M (res ++ [refDefBlock lsa titleEOL [labD; dstD; titD]])).
        { rewrite map_snoc, M_refDef, E1, L2. reflexivity. }
        destruct H10 as [H10|H10].
        * apply (Hcut r10 r10' (fun b => ocp_loop f F sD b None r10 (res ++ [refDefBlock lsa titleEOL [labD; dstD; titD]]))
                              (fun b => ocp_loop f F sQ b None r10' (map M res ++ [refDefBlock lsa' titleEOL' [rI sg lpMap labD; rI sg lpMap dstD; rI sg lpMap titD]])) _ _ H10 Hnb).
          intros Lf. cbv zeta. intros Hx Hn Hg. rewrite Hnb. apply Hrec; [exact Hx|exact Hn|lia|exact Hg].
        * destruct (RX_fc ik r10 r10' G H10) as (F1 & F2 & _). destruct (Z.ltb_spec (nodeIndexForPosition ik (r_pos r10)) 0); [|lia].
          destruct (Z.ltb_spec (nodeIndexForPosition (map (mvS sg) ik) (r_pos r10')) 0); [|lia]. exact Hnb.
    - (* the reader is exhausted behind the line feed of the destination line: the definition ends the paragraph *)
      destruct (RX_fc ik r6 r6' G H6) as (F1 & F2 & Dd6 & Dd6').
      replace (destEOL <? 0) with false in * by (symmetry; apply Z.ltb_ge; lia). rewrite Hlt0. cbn [andb].
      pose proof (dead_current r6 Dd6) as Dd7. pose proof (dead_current r6' Dd6') as Dd7'.
      destruct (current r6) as [c6 r7]. destruct (current r6') as [c6' r7']. cbn [snd] in Dd7, Dd7'.
      pose proof (dead_skipLinkSpace F r7 Dd7) as Dd8. pose proof (dead_skipLinkSpace F r7' Dd7') as Dd8'.
      destruct (skipLinkSpace F r7) as [ok8 r8]. destruct (skipLinkSpace F r7') as [ok8' r8']. cbn [snd] in Dd8, Dd8'.
      pose proof (dead_title F r8 Dd8) as Tn. pose proof (dead_title F r8' Dd8') as Tn'.
      destruct (parseLinkTitle F r8) as [[ts tt] r9]. destruct (parseLinkTitle F r8') as [[ts' tt'] r9']. cbn [fst] in Tn, Tn'. subst ts ts'.
      change (spanValid nullSpan) with false. cbn [negb].
      destruct (Z.ltb_spec (nodeIndexForPosition ik (r_pos r6)) 0); [|lia]. destruct (Z.ltb_spec (nodeIndexForPosition (map (mvS sg) ik) (r_pos r6')) 0); [|lia].
      destruct ok8, ok8'; cbn [negb]; apply Hdef, HeB.
  Qed.
End QO.

Print Assumptions q_ocp_loop.


(* ---------------------------------------------------------------- onCloseParagraph *)
Section QP.
  Variables (sD sQ : bytes) (sg eB : Z -> Z) (lpMap : inline -> inline).
  Hypothesis HS : SGood sD sQ sg.
  Hypothesis eB_neg1 : eB (-1) = -1.
  Hypothesis eB_end : forall q, 0 <= q < len sD -> eB (q + 1) = sg q + 1.
  Hypothesis lp_spec : forall k s e rf kids, isLinkPart k = true -> Forall (QRdrCollect.inR sD) kids ->
    lpMap (Inl k s e 0 rf kids) = Inl k (sg s) (epsG sg s e) 0 rf (flat_map (QRdrCollect.qK sD sg) kids).
  Notation M := (rB sg eB lpMap).
  Notation GoodIk := (GoodIk sD sg).

  Lemma sg_ge : forall n x, x = Z.of_nat n -> x <= sg x.
  Proof.
    induction n as [|n IH]; intros x E.
    - subst x. apply (SG_nn _ _ _ HS). lia.
    - specialize (IH (x - 1) ltac:(lia)). pose proof (SG_mono _ _ _ HS (x - 1) x ltac:(lia) ltac:(lia)). lia.
  Qed.
  Lemma len_sD_le : len sD <= len sQ.
  Proof. pose proof (SG_pos _ _ _ HS) as P. pose proof (sg_ge (Z.to_nat (len sD - 1)) (len sD - 1) ltac:(lia)). pose proof (SG_last _ _ _ HS P). lia. Qed.

  Definition rfuelOf (src : bytes) : nat := (2 * length src + 10)%nat.

  (* the loop with the fuels of the model, orphan None *)
  Lemma q_ocp_model n orig first rest : GoodIk (bik orig) -> bik orig = first :: rest ->
    ocp_loop n (rfuelOf sQ) sQ (M orig) None (newReader sQ (map (mvS sg) (bik orig)) (sg (istart first))) [] =
    map M (ocp_loop n (rfuelOf sD) sD orig None (newReader sD (bik orig) (istart first)) []).
  Proof.
    intros G E. pose proof G as [Gg Gw]. pose proof len_sD_le as Hle. pose proof (len_nonneg sD) as Hn0.
    assert (HF : len sD < Z.of_nat (rfuelOf sQ)) by (unfold rfuelOf, len in *; lia).
    assert (Gf : gsp sD sg first) by (rewrite E in Gg; inversion Gg; assumption). destruct Gf as (Fa & Fb & Fc & _).
    assert (Hunp : ibudget (bik orig) = 0) by (apply ibudget_unp, (GoodIk_unp sD sg), G).
    assert (Hnu : nu sD (newReader sD (bik orig) (istart first)) <= len sD) by (pose proof (nu_new sD (bik orig) (istart first) Gw); lia).
    rewrite (ocp_rfuel sD (rfuelOf sD) (rfuelOf sQ) n orig None _ []); [|apply PL_new, Gw|exact Gw| | | |]; try (unfold rfuelOf, len in *; lia).
    assert (HR : QRdrBase.RR sD sQ sg (bik orig) true (newReader sD (bik orig) (istart first)) (newReader sQ (map (mvS sg) (bik orig)) (sg (istart first)))).
    { rewrite <- (bsgE_in sD sQ sg HS (istart first)) by lia. apply (bRR_new sD sQ sg (bik orig) true HS); [exact Gg|exact Gw|lia| |exists []; reflexivity].
      intros _. right. exists first. split; [rewrite E; left; reflexivity|lia]. }
    apply (q_ocp_loop sD sQ sg eB lpMap HS eB_neg1 eB_end lp_spec (rfuelOf sQ) HF n orig _ _ [] G HR). lia.
  Qed.

  Lemma bik_M' orig : GoodIk (bik orig) -> bik (M orig) = map (mvS sg) (bik orig).
  Proof. apply (bik_M sD sg eB lpMap). Qed.

  Theorem q_onCloseParagraph orig : GoodIk (bik orig) -> bkind orig <> SetextHeadingKind ->
    onCloseParagraph sQ (M orig) = map M (onCloseParagraph sD orig).
  Proof.
    intros G Hk. unfold onCloseParagraph. rewrite (bik_M' orig G). destruct (bik orig) as [|first rest] eqn:E; [reflexivity|]. cbn [map].
    rewrite (bkind_rB sg eB lpMap). destruct (Z.eqb_spec (bkind orig) SetextHeadingKind) as [Es|_]; [contradiction|].
    rewrite (istart_mvS sg first). change (mvS sg first :: map (mvS sg) rest) with (map (mvS sg) (first :: rest)). rewrite map_length, <- E.
    apply (q_ocp_model (S (length (bik orig))) orig first rest); [rewrite E; exact G|exact E].
  Qed.

  (* a setext heading made from a paragraph that keeps paragraph content: the orphan block is not used *)
  Definition orphanOf (src : bytes) (b : block) : option block :=
    if bkind b =? SetextHeadingKind then
      let blockStart := match rev (bik b) with l :: _ => iend l | [] => 0 end in
      let ls := skipSpTabIdx (length src) src blockStart in
      Some (Blk ParagraphKind blockStart (-1) [] [mkI UnparsedKind ls (bend b)] 0 0 0 false false)
    else None.
  Lemma ocp_unfold src b first rest : bik b = first :: rest ->
    onCloseParagraph src b = ocp_loop (S (length (bik b))) (rfuelOf src) src b (orphanOf src b) (newReader src (bik b) (istart first)) [].
  Proof. intros E. unfold onCloseParagraph, orphanOf. rewrite E. reflexivity. Qed.
  Lemma ocp_unfold_nil src b : bik b = [] -> onCloseParagraph src b = [b].
  Proof. intros E. unfold onCloseParagraph. rewrite E. reflexivity. Qed.
  Lemma orphanOf_para src b : bkind b <> SetextHeadingKind -> orphanOf src b = None.
  Proof. intros H. unfold orphanOf. destruct (Z.eqb_spec (bkind b) SetextHeadingKind); [contradiction|reflexivity]. Qed.

  Theorem q_onCloseParagraph_setext orig o1 : GoodIk (bik orig) -> bik o1 = bik orig -> bkind o1 <> SetextHeadingKind ->
    lastIsPara (onCloseParagraph sD o1) = true ->
    onCloseParagraph sQ (M orig) = map M (onCloseParagraph sD orig).
  Proof.
    intros G E1 K1 HL. assert (G1 : GoodIk (bik o1)) by (rewrite E1; exact G).
    pose proof (q_onCloseParagraph o1 G1 K1) as P1.
    assert (HLq : lastIsPara (onCloseParagraph sQ (M o1)) = true).
    { rewrite P1. unfold lastIsPara in *. rewrite <- map_rev. destruct (rev (onCloseParagraph sD o1)) as [|x r]; [discriminate HL|]. cbn [map]. rewrite (bkind_rB sg eB lpMap). exact HL. }
    destruct (bik orig) as [|first rest] eqn:E.
    - rewrite (ocp_unfold_nil sD orig E), (ocp_unfold_nil sQ (M orig)) by (rewrite (bik_rB sg eB lpMap), E; reflexivity). reflexivity.
    - assert (EQ : bik (M orig) = mvS sg first :: map (mvS sg) rest) by (rewrite (bik_M' orig) by (rewrite E; exact G); rewrite E; reflexivity).
      assert (EQ1 : bik (M o1) = mvS sg first :: map (mvS sg) rest) by (rewrite (bik_M' o1 G1), E1; reflexivity).
      rewrite (ocp_unfold sD o1 first rest E1), (orphanOf_para sD o1 K1) in HL.
      rewrite (ocp_unfold sQ (M o1) _ _ EQ1), (orphanOf_para sQ (M o1)) in HLq by (rewrite (bkind_rB sg eB lpMap); exact K1).
      rewrite (ocp_unfold sD orig first rest E), (ocp_unfold sQ (M orig) _ _ EQ).
      assert (L1 : length (bik o1) = length (bik orig)) by (rewrite E1, E; reflexivity).
      assert (L2 : length (bik (M o1)) = length (bik (M orig))) by (rewrite EQ, EQ1; reflexivity).
      rewrite L1, E1, E in HL. rewrite L2, EQ1, EQ in HLq. rewrite E, EQ.
      rewrite (ocp_orphan_irrel _ _ sD o1 orig _ _ [] [] ltac:(rewrite E1, E; reflexivity) HL).
      rewrite (ocp_orphan_irrel _ _ sQ (M o1) (M orig) _ _ [] [] ltac:(rewrite EQ, EQ1; reflexivity) HLq).
      rewrite (istart_mvS sg first). change (mvS sg first :: map (mvS sg) rest) with (map (mvS sg) (first :: rest)). rewrite map_length, <- E.
      apply (q_ocp_model _ orig first rest); [rewrite E; exact G|exact E].
  Qed.
End QP.
Print Assumptions q_onCloseParagraph.
Print Assumptions q_onCloseParagraph_setext.
