(* LabelNormSpansTest.v -- instances of label_norm_spans on entries produced by the block layer (labels broken over 2-3
   lines inside block quotes and list items, with tabs), end-to-end renderings by vm_compute, and closed counterexamples
   for the side conditions (T60). *)
From Coq Require Import List ZArith Lia Bool.
Import ListNotations.
Require Import Base Tables Utf8 Tree Rdr Link Collect Driver Inl3e Render SliceBase ShapesR IFBase InlineSpans LabelNorm RefSliceFold
               LabelNormSpans LabelNormEntries.
Open Scope Z_scope.

(* the paragraph entries of the first root: root -> (container children)* -> paragraph *)
Fixpoint lastPara (fuel : nat) (b : block) : list inline :=
  match fuel with O => [] | S f => match rev (bkids b) with c :: _ => lastPara f c | [] => bik b end end.
Definition entries (d : bytes) : list inline := match fst (parseBlocks d) with r :: _ => lastPara 5 (rb_blk r) | [] => [] end.

(* ---- 1. "> [t][Foo\n>\tBAR]\n" : block quote, second line with a tab after the marker ---- *)
Definition d1 : bytes := [62;32;91;116;93;91;70;111;111;10;62;9;66;65;82;93;10].
Definition U1 := [Inl 18 2 10 0 [] []; Inl 4 11 12 2 [] []; Inl 18 12 17 0 [] []].
Example d1_entries : entries d1 = U1. Proof. vm_compute. reflexivity. Qed.
Example d1_ok : entriesWF d1 U1 && labelRangeOK d1 U1 6 15 = true. Proof. vm_compute. reflexivity. Qed.
(* label bytes: "Foo\n" , three blanks for the Indent entry of 2 columns, "BAR" ; normal form "foo bar" *)
Example d1_bytes : labelBytes d1 U1 6 15 = [70;111;111;10; 32;32;32; 66;65;82]. Proof. vm_compute. reflexivity. Qed.
Example d1_norm : transformLinkReferenceSpan 100 d1 U1 6 15 = [102;111;111;32;98;97;114].
Proof. rewrite label_norm_entries_b by (vm_compute; reflexivity). vm_compute. reflexivity. Qed.
(* end to end: the definition "[foo bar]: /u" resolves the reference in the quote *)
Example d1_render : renderDoc c0 ([91;102;111;111;32;98;97;114;93;58;32;47;117;10;10] ++ d1) =
  [10;10] ++ [60;98;108;111;99;107;113;117;111;116;101;62] ++ [60;112;62] ++
  [60;97;32;104;114;101;102;61;34;47;117;34;62;116;60;47;97;62] ++ [60;47;112;62] ++ [60;47;98;108;111;99;107;113;117;111;116;101;62].
Proof. vm_compute. reflexivity. Qed.

(* ---- 2. "- [t][Foo\n\tBAR  x\n  y]\n" : list item, label over three lines ---- *)
Definition d2 : bytes := [45;32;91;116;93;91;70;111;111;10;9;66;65;82;32;32;120;10;32;32;121;93;10].
Definition U2 := [Inl 18 2 10 0 [] []; Inl 4 10 11 2 [] []; Inl 18 11 18 0 [] []; Inl 18 20 23 0 [] []].
Example d2_entries : entries d2 = U2. Proof. vm_compute. reflexivity. Qed.
Example d2_ok : entriesWF d2 U2 && labelRangeOK d2 U2 6 21 = true. Proof. vm_compute. reflexivity. Qed.
Example d2_bytes : labelBytes d2 U2 6 21 = [70;111;111;10; 32;32;32; 66;65;82;32;32;120;10; 121]. Proof. vm_compute. reflexivity. Qed.
Example d2_norm : transformLinkReferenceSpan 100 d2 U2 6 21 = [102;111;111;32;98;97;114;32;120;32;121].
Proof. rewrite label_norm_entries_b by (vm_compute; reflexivity). vm_compute. reflexivity. Qed.
Example d2_render : renderDoc c0 ([91;70;79;79;32;98;97;114;32;88;32;121;93;58;32;47;117;10;10] ++ d2) =
  [10;10] ++ [60;117;108;62] ++ [60;108;105;62] ++
  [60;97;32;104;114;101;102;61;34;47;117;34;62;116;60;47;97;62] ++ [60;47;108;105;62] ++ [60;47;117;108;62].
Proof. vm_compute. reflexivity. Qed.

(* ---- 3. "> > [a\n> > b\n>> c]\n" : nested quotes, shortcut reference over three lines ---- *)
Definition d3 : bytes := [62;32;62;32;91;97;10;62;32;62;32;98;10;62;62;32;99;93;10].
Definition U3 := entries d3.
Example d3_entries : U3 = [Inl 18 4 7 0 [] []; Inl 18 11 13 0 [] []; Inl 18 16 19 0 [] []]. Proof. vm_compute. reflexivity. Qed.
Example d3_ok : entriesWF d3 U3 && labelRangeOK d3 U3 5 17 = true. Proof. vm_compute. reflexivity. Qed.
Example d3_norm : transformLinkReferenceSpan 100 d3 U3 5 17 = [97;32;98;32;99].
Proof. rewrite label_norm_entries_b by (vm_compute; reflexivity). vm_compute. reflexivity. Qed.

(* the gap bytes really are skipped: the normal form of the raw source range is different *)
Example d1_gap_differs : norm_label (sub d1 6 15) <> norm_label (labelBytes d1 U1 6 15).
Proof. intros H. vm_compute in H. discriminate H. Qed.

(* ---- 4. the side conditions cannot be dropped (all other conditions hold in each example) ---- *)
(* the label starts in a gap (position 10 of d1 is the '>' of the second line) *)
Example start_in_span_needed : transformLinkReferenceSpan 100 d1 U1 10 15 <> norm_label (labelBytes d1 U1 10 15).
Proof. intros H. vm_compute in H. discriminate H. Qed.
(* the label ends beyond the last entry: the exhausted reader goes on reading raw source bytes *)
Example end_in_spans_needed :
  transformLinkReferenceSpan 100 d2 [Inl 18 2 10 0 [] []; Inl 18 11 16 0 [] []] 6 18 <>
  norm_label (labelBytes d2 [Inl 18 2 10 0 [] []; Inl 18 11 16 0 [] []] 6 18).
Proof. intros H. vm_compute in H. discriminate H. Qed.
(* an Indent entry wider than one byte at the end *)
Example indent_width_needed :
  transformLinkReferenceSpan 100 d2 [Inl 18 2 10 0 [] []; Inl 4 20 22 1 [] []] 6 22 <>
  norm_label (labelBytes d2 [Inl 18 2 10 0 [] []; Inl 4 20 22 1 [] []] 6 22).
Proof. intros H. vm_compute in H. discriminate H. Qed.
(* an empty entry in the middle: the reader stops there *)
Example nonempty_needed :
  transformLinkReferenceSpan 100 d2 [Inl 18 2 10 0 [] []; Inl 18 10 10 0 [] []; Inl 18 11 18 0 [] []] 6 15 <>
  norm_label (labelBytes d2 [Inl 18 2 10 0 [] []; Inl 18 10 10 0 [] []; Inl 18 11 18 0 [] []] 6 15).
Proof. intros H. vm_compute in H. discriminate H. Qed.
(* a NUL byte inside the label *)
Example nul_needed :
  transformLinkReferenceSpan 100 [91;70;0;111;93] [Inl 18 0 5 0 [] []] 1 4 <> norm_label (labelBytes [91;70;0;111;93] [Inl 18 0 5 0 [] []] 1 4).
Proof. intros H. vm_compute in H. discriminate H. Qed.
