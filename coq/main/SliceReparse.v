(* SliceReparse.v -- property C16 (a root block re-parsed alone gives the same root) on text lines (T40 part B).

   Documents: parasDoc [t1; ...; tn] = the text lines  esc ti ++ [10]  separated by ONE blank line ([10]); n >= 1, any lengths.

     parseBlocks_paras / parseFull_paras : the n roots, explicitly (blockRoots / fullRoots): root i is the paragraph of line i,
         rb_src = the line, rb_start / rb_line = its offset / line number, block tree relative to rb_src, inline children =
         the text nodes tokSpec; every root but the last has lastLineBlank = true.
     C16_reparse_paras  : Forall wfText ts -> ts <> [] -> status 0, n roots, and for every root r of parseFull (parasDoc ts):
                            parseFull (rb_src r) = ([aloneOf r], 0)
         where aloneOf r = r with rb_line := 1, rb_start := 0, rb_end := len (rb_src r) and the root's lastLineBlank flag cleared.
     C16_reparse_last   : for the last root the block is literally unchanged.
     C16_two_paragraphs : the two-paragraph form asked in the task, D = esc t1 ++ [10;10] ++ esc t2 ++ [10].
   Side condition found by computation: the statement with "rb_blk unchanged" for every root is FALSE (ex_reparse_flag): the
   lastLineBlank flag of a root records the blank line that follows it in the original document.  C16_literal_statement keeps
   that form; aloneOf is the exact correction.  No other side condition is needed on this slice.
   Route: processLine_blank_para (a blank line closes the open paragraph), skipLoop_para_more / skipLoop_para_last (one root),
   allBlocks_paras (induction over the lines), SliceTok.parseInlines_gen, SliceFormat.parseFull_esc. *)
From Coq Require Import List ZArith Lia Bool.
Import ListNotations.
Require Import Base Tables Utf8 Tree Rdr Link Collect Html Recog LP Rules Starts Driver Inl3a Inl3b Inl3c Inl3d Inl3e Render Fmt Entry
  SliceBase SlicePara SliceText SliceTok SliceLine SliceFormat.
Open Scope Z_scope.

(* ---------------------------------------------------------------------------------------------- *)
(* 1. a blank line after an open paragraph closes it (and marks it lastLineBlank)                   *)
(* ---------------------------------------------------------------------------------------------- *)
Lemma processLine_blank_para st src s ue ls : from_ src ls = [10] ->
  0 <= s -> s < ue -> s < len src -> at_ src s <> 0 -> at_ src s <> 91 ->
  processLine st [paraOpen s ue] ls src = ([set_blast (paraClosed s ls ue) true], stOpening, 0).
Proof.
  intros Hl H0 Hse Hlen Hnz H91. unfold processLine, resetLP. rewrite Hl.
  change (computeTabRem [10] 0 0) with 0.
  set (p0 := {| source := src; root := Blk documentKind 0 (-1) [paraOpen s ue] [] 0 0 0 false false; container := Some 0%nat;
               lineStart := ls; line := [10]; li := 0; col := 0; tabRem := 0; state := st; panicked := 0 |}).
  assert (Hd : descendOpenBlocks p0 = (false, setLP p0 (root p0) (Some 0%nat) 0 0 0 stDescending 0)) by reflexivity.
  rewrite Hd. set (q := setLP p0 (root p0) (Some 0%nat) 0 0 0 stDescending 0).
  change (negb (state q =? stDescendTerminated)) with true. cbv iota.
  assert (Hop : opening_loop 2 q = (true, withState q stOpening)) by reflexivity.
  unfold openNewBlocks. change (len (line q) =? 0) with false. cbv iota. change (S (length (line q))) with 2%nat. rewrite Hop.
  unfold deferredClose. change (negb (isRestBlank (withState q stOpening))) with false. cbn [andb]. cbv iota.
  unfold closeLastChildAt. change (cdepth (withState q stOpening)) with O. cbn [updAt].
  change (root (withState q stOpening)) with (rootDoc [paraOpen s ue]).
  change (lastBlock (rootDoc [paraOpen s ue])) with (Some (paraOpen s ue)). cbv iota.
  change (bheight (rootDoc [paraOpen s ue])) with 2%nat.
  change (source (withState q stOpening)) with src. change (lineStart (withState q stOpening)) with ls.
  rewrite (closeBlock_para 1 src (paraOpen s ue) ls eq_refl eq_refl).
  change (set_bend (paraOpen s ue) ls) with (paraClosed s ls ue).
  assert (Ho : onCloseParagraph src (paraClosed s ls ue) = [paraClosed s ls ue]).
  { apply (onCloseParagraph_nolabel src _ (mkI UnparsedKind s ue) []); [reflexivity|].
    cbn [paraClosed bik mkI istart]. change (Inl UnparsedKind s ue 0 [] []) with (mkI UnparsedKind s ue).
    rewrite (current_unparsed src s ue H0 Hse Hlen Hnz). apply Z.eqb_neq. exact H91. }
  rewrite Ho. reflexivity.
Qed.

(* ---------------------------------------------------------------------------------------------- *)
(* 2. one paragraph of a multi-paragraph document                                                  *)
(* ---------------------------------------------------------------------------------------------- *)
(* everything the block layer needs to know about a text line *)
Definition lineFacts (L : bytes) : Prop := exists c r,
  L = c :: r ++ [10] /\ noEolB (c :: r) /\ noNul (c :: r) /\ paraStart2 c = true /\ c <> 91 /\ snd (parseListMarker L) < 0.

Lemma tline_facts t : okText true t = true -> lineFacts (tline t).
Proof.
  intros Hok. destruct (esc_head t Hok) as (c & r & He & Hc & H91 & Hm).
  pose proof (esc_bytes t (okText_bytes t true Hok)) as Hb. rewrite He in Hb.
  exists c, r. repeat split.
  - unfold tline. rewrite He. reflexivity.
  - apply textBytes_noEol. exact Hb.
  - apply textBytes_noNul. exact Hb.
  - apply paraStartByte_2. exact Hc.
  - exact H91.
  - exact Hm.
Qed.

Lemma lineCount_noEolB : forall a x, noEolB a -> lineCount (a ++ x) = lineCount x.
Proof.
  induction a as [|b a IH]; intros x Ha; [reflexivity|]. inversion Ha as [|? ? [H10 H13] Ha']; subst.
  cbn [app lineCount]. destruct (Z.eqb_spec b 10); [contradiction|]. destruct (Z.eqb_spec b 13); [contradiction|]. rewrite (IH x Ha'). lia.
Qed.

Section OnePara.
Variable L : bytes.
Hypothesis F : lineFacts L.

Lemma lf_len : 1 < len L.
Proof. destruct F as (c & r & He & _ & _ & _ & _ & _). rewrite He. lensimp. pose proof (sl_len_nonneg r). lia. Qed.
Lemma lf_noNul : noNul L.
Proof. destruct F as (c & r & He & _ & Hn & _ & _ & _). rewrite He. change (c :: r ++ [10]) with ((c :: r) ++ [10]). apply noNul_app; [exact Hn|constructor; [lia|constructor]]. Qed.
Lemma lf_lineEnd rest : lineEnd (L ++ rest) 0 = len L.
Proof.
  destruct F as (c & r & He & Heol & _ & _ & _ & _). rewrite He.
  replace ((c :: r ++ [10]) ++ rest) with ([] ++ (c :: r) ++ 10 :: rest) by (cbn [app]; rewrite <- app_assoc; reflexivity).
  change 0 with (len (@nil Z)) at 1. rewrite (lineEnd_lf [] (c :: r) rest Heol). lensimp. lia.
Qed.
Lemma lf_notblank : isBlankLine L = false.
Proof. destruct F as (c & r & He & _ & _ & Hps & _ & _). rewrite He. apply noEolB_blank_hd. apply ps2_ws. exact Hps. Qed.
Lemma lf_lineCount : lineCount L = 1.
Proof. destruct F as (c & r & He & Heol & _ & _ & _ & _). rewrite He. change (c :: r ++ [10]) with ((c :: r) ++ [10]). rewrite (lineCount_noEolB _ _ Heol). reflexivity. Qed.
Lemma lf_first ls src : from_ src ls = L -> processLine 0 [] ls src = ([paraOpen ls (ls + len L)], stOpenMatched, 0).
Proof.
  destruct F as (c & r & He & _ & _ & Hps & _ & Hm). intros Hfr. rewrite He in *. apply processLine_first_para2; assumption.
Qed.
Lemma lf_at0 rest : at_ (L ++ rest) 0 <> 0 /\ at_ (L ++ rest) 0 <> 91.
Proof. destruct F as (c & r & He & _ & Hn & _ & H91 & _). rewrite He. cbn [app]. change (at_ (c :: (r ++ [10]) ++ rest) 0) with c. inversion Hn; subst. split; assumption. Qed.

(* the paragraph is followed by a blank line and more input *)
Lemma skipLoop_para_more rest f bo bl :
  skipLoop (S (S (S f))) {| buf := L ++ 10 :: rest; bi := 0; boff := bo; bline := bl; pending := [] |} =
  NBBlock {| rb_line := bl; rb_start := bo; rb_end := bo + len L; rb_src := L; rb_blk := set_blast (paraClosed 0 (len L) (len L)) true |}
          {| buf := 10 :: rest; bi := 1; boff := bo + len L; bline := bl + 1; pending := [] |}.
Proof.
  pose proof lf_len as Hlen. pose proof lf_noNul as Hnul.
  rewrite sl_skipLoop_S. cbv zeta. cbn [buf bi boff bline pending]. rewrite lf_lineEnd.
  destruct (Z.ltb_spec 0 (len L)); [|lia]. cbn [negb]. rewrite sl_upto_app_len. rewrite lf_notblank.
  rewrite sl_lineLoop_S. cbn [buf bi boff bline pending]. rewrite sl_upto_app_len.
  rewrite (lf_first 0 L eq_refl).
  change (negb (0 =? 0)) with false. cbv iota. cbn [makeRoot paraOpen isOpen bend Z.ltb Z.compare].
  rewrite sl_lineLoop_S. cbn [buf bi boff bline pending].
  assert (Hle : lineEnd (L ++ 10 :: rest) (len L) = len L + 1).
  { replace (L ++ 10 :: rest) with (L ++ [] ++ 10 :: rest) by reflexivity. rewrite (lineEnd_lf L [] rest); [lensimp; lia|constructor]. }
  rewrite Hle.
  assert (Hup : upto (L ++ 10 :: rest) (len L + 1) = L ++ [10]).
  { replace (L ++ 10 :: rest) with ((L ++ [10]) ++ rest) by (rewrite <- app_assoc; reflexivity).
    replace (len L + 1) with (len (L ++ [10])) by (lensimp; lia). apply sl_upto_app_len. }
  rewrite Hup. rewrite Z.add_0_l.
  destruct (lf_at0 [10]) as [Hz H91].
  assert (Hpl : processLine stOpenMatched [paraOpen 0 (len L)] (len L) (L ++ [10]) = ([set_blast (paraClosed 0 (len L) (len L)) true], stOpening, 0)).
  { apply processLine_blank_para.
    - apply sl_from_app_len.
    - lia.
    - lia.
    - rewrite sl_len_app. change (len [10]) with 1. lia.
    - exact Hz.
    - exact H91. }
  rewrite Hpl.
  change (negb (0 =? 0)) with false. cbv iota. unfold makeRoot, paraClosed, set_blast, isOpen. cbn [bend buf bi boff bline pending].
  destruct (Z.ltb_spec (len L) 0); [lia|]. rewrite sl_upto_app_len, sl_from_app_len.
  rewrite (unpadded_noNul L Hnul), (fillNulls_noNul L Hnul), lf_lineCount.
  replace (len L + 1 - len L) with 1 by lia. reflexivity.
Qed.

(* the paragraph ends the input *)
Lemma skipLoop_para_last f bo bl :
  skipLoop (S (S (S f))) {| buf := L; bi := 0; boff := bo; bline := bl; pending := [] |} =
  NBBlock {| rb_line := bl; rb_start := bo; rb_end := bo + len L; rb_src := L; rb_blk := paraClosed 0 (len L) (len L) |}
          {| buf := []; bi := 0; boff := bo + len L; bline := bl + 1; pending := [] |}.
Proof.
  pose proof lf_len as Hlen. pose proof lf_noNul as Hnul.
  rewrite sl_skipLoop_S. cbv zeta. cbn [buf bi boff bline pending].
  pose proof (lf_lineEnd []) as Hle. rewrite app_nil_r in Hle. rewrite Hle.
  destruct (Z.ltb_spec 0 (len L)); [|lia]. cbn [negb]. rewrite sl_upto_all. rewrite lf_notblank.
  rewrite sl_lineLoop_S. cbn [buf bi boff bline pending]. rewrite sl_upto_all.
  rewrite (lf_first 0 L eq_refl).
  change (negb (0 =? 0)) with false. cbv iota. cbn [makeRoot paraOpen isOpen bend Z.ltb Z.compare].
  rewrite sl_lineLoop_S. cbn [buf bi boff bline pending]. rewrite lineEnd_end, sl_upto_all, Z.add_0_l.
  destruct (lf_at0 []) as [Hz H91]. rewrite app_nil_r in Hz, H91.
  rewrite (processLine_eof_para stOpenMatched L 0 (len L)); [|lia|lia|lia|exact Hz|exact H91].
  change (negb (0 =? 0)) with false. cbv iota. unfold makeRoot, paraClosed, isOpen. cbn [bend buf bi boff bline pending].
  destruct (Z.ltb_spec (len L) 0); [lia|]. rewrite sl_upto_all, sl_from_all, Z.sub_diag.
  rewrite (unpadded_noNul L Hnul), (fillNulls_noNul L Hnul), lf_lineCount. reflexivity.
Qed.
End OnePara.

(* ---------------------------------------------------------------------------------------------- *)
(* 3. any number of one-line paragraphs separated by one blank line                                *)
(* ---------------------------------------------------------------------------------------------- *)
Fixpoint parasDoc (ts : list bytes) : bytes :=
  match ts with
  | [] => []
  | t :: r => match r with [] => tline t | _ => tline t ++ 10 :: parasDoc r end
  end.
Definition paraBlk (e : Z) (lastBlank : bool) (iks : list inline) : block := Blk ParagraphKind 0 e [] iks 0 0 0 false lastBlank.
Fixpoint blockRoots (ts : list bytes) (bo bl : Z) : list rootB :=
  match ts with
  | [] => []
  | t :: r => let L := tline t in
      {| rb_line := bl; rb_start := bo; rb_end := bo + len L; rb_src := L;
         rb_blk := paraBlk (len L) (match r with [] => false | _ => true end) [mkI UnparsedKind 0 (len L)] |}
      :: blockRoots r (bo + len L + 1) (bl + 1 + 1)
  end.
Definition st0of (X : bytes) (bo bl : Z) : bpst := {| buf := X; bi := 0; boff := bo; bline := bl; pending := [] |}.

Lemma allBlocks_paras : forall ts, Forall (fun t => okText true t = true) ts -> ts <> [] ->
  forall f s bo bl acc,
  nextBlock (3 + length (buf s)) s = skipLoop (3 + length (buf s)) (st0of (parasDoc ts) bo bl) ->
  (length ts < f)%nat -> allBlocks f s acc = (acc ++ blockRoots ts bo bl, 0).
Proof.
  induction ts as [|t r IH]; intros Hok Hne f s bo bl acc Hnb Hf; [contradiction|].
  apply Forall_cons_iff in Hok. destruct Hok as [Ht Hr].
  pose proof (tline_facts t Ht) as F.
  destruct f as [|f]; [cbn [length] in Hf; lia|]. rewrite sl_allBlocks_S. rewrite Hnb.
  change (3 + length (buf s))%nat with (S (S (S (length (buf s))))).
  destruct r as [|t2 r'].
  - cbn [parasDoc]. unfold st0of. rewrite (skipLoop_para_last (tline t) F).
    destruct f as [|f]; [cbn [length] in Hf; lia|]. rewrite sl_allBlocks_S. cbn [buf length Nat.add]. rewrite nextBlock_eof.
    cbn [blockRoots]. reflexivity.
  - change (parasDoc (t :: t2 :: r')) with (tline t ++ 10 :: parasDoc (t2 :: r')). unfold st0of.
    rewrite (skipLoop_para_more (tline t) F).
    rewrite (IH Hr ltac:(discriminate) f _ (bo + len (tline t) + 1) (bl + 1 + 1)).
    + cbn [blockRoots]. rewrite <- app_assoc. reflexivity.
    + reflexivity.
    + cbn [length] in *. lia.
Qed.

Theorem parseBlocks_paras ts : Forall (fun t => okText true t = true) ts -> ts <> [] ->
  parseBlocks (parasDoc ts) = (blockRoots ts 0 1, 0).
Proof.
  intros Hok Hne.
  assert (Hnul : noNul (parasDoc ts)).
  { clear Hne. induction Hok as [|t r Ht Hr IH]; [constructor|]. pose proof (lf_noNul _ (tline_facts t Ht)) as Hn.
    destruct r as [|t2 r']; [exact Hn|]. change (parasDoc (t :: t2 :: r')) with (tline t ++ 10 :: parasDoc (t2 :: r')).
    apply noNul_app; [exact Hn|]. constructor; [lia|exact IH]. }
  assert (Hlen : (length ts <= length (parasDoc ts))%nat).
  { clear Hne Hnul. induction Hok as [|t r Ht Hr IH]; [cbn; lia|].
    pose proof (lf_len _ (tline_facts t Ht)) as Hl. unfold len in Hl.
    destruct r as [|t2 r']; [cbn [parasDoc length]; lia|]. change (parasDoc (t :: t2 :: r')) with (tline t ++ 10 :: parasDoc (t2 :: r')).
    rewrite app_length. cbn [length] in *. lia. }
  unfold parseBlocks. rewrite (pad_noNul _ Hnul).
  rewrite (allBlocks_paras ts Hok Hne (S (length (parasDoc ts))) _ 0 1 []); [reflexivity| |lia].
  cbn [buf]. reflexivity.
Qed.

(* ---------------------------------------------------------------------------------------------- *)
(* 4. parseFull, and C16: every root re-parses, alone, to itself                                   *)
(* ---------------------------------------------------------------------------------------------- *)
Definition textNodes (t : bytes) : list inline := tokSpec isASCIIPunctuation 0 0 t.
Fixpoint fullRoots (ts : list bytes) (bo bl : Z) : list rootB :=
  match ts with
  | [] => []
  | t :: r => let L := tline t in
      {| rb_line := bl; rb_start := bo; rb_end := bo + len L; rb_src := L;
         rb_blk := paraBlk (len L) (match r with [] => false | _ => true end) (textNodes t) |}
      :: fullRoots r (bo + len L + 1) (bl + 1 + 1)
  end.

Lemma refs_paras : forall ts bo bl acc,
  fold_left (fun a r => extractB (bheight (rb_blk r)) (rb_blk r) a) (blockRoots ts bo bl) acc = acc.
Proof. induction ts as [|t r IH]; intros bo bl acc; [reflexivity|]. cbn [blockRoots fold_left]. apply IH. Qed.

Lemma rewrite_paras : forall ts, Forall (fun t => okText true t = true) ts -> forall bo bl,
  map (fun r => {| rb_line := rb_line r; rb_start := rb_start r; rb_end := rb_end r; rb_src := rb_src r;
                   rb_blk := rewriteB (bheight (rb_blk r)) (rb_src r) [] (rb_blk r) |}) (blockRoots ts bo bl) = fullRoots ts bo bl.
Proof.
  induction 1 as [|t r Ht Hr IH]; intros bo bl; [reflexivity|].
  cbn [blockRoots fullRoots map rb_line rb_start rb_end rb_src rb_blk]. f_equal; [|apply IH].
  f_equal. set (b := paraBlk (len (tline t)) _ _). change (bheight b) with 1%nat. cbn [rewriteB].
  change ((0 <? len (bik b)) && hasUnparsed b) with true. cbv iota.
  rewrite (parseInlines_gen isASCIIPunctuation eq_refl t [] (tline t) [] b (okText_punct t true Ht) eq_refl eq_refl).
  reflexivity.
Qed.

Theorem parseFull_paras ts : Forall (fun t => okText true t = true) ts -> ts <> [] ->
  parseFull (parasDoc ts) = (fullRoots ts 0 1, 0).
Proof.
  intros Hok Hne. unfold parseFull. rewrite (parseBlocks_paras ts Hok Hne). rewrite refs_paras.
  rewrite (rewrite_paras ts Hok). reflexivity.
Qed.

Lemma fullRoots_in : forall ts bo bl r, In r (fullRoots ts bo bl) ->
  exists t fl, In t ts /\ rb_src r = tline t /\ rb_blk r = paraBlk (len (tline t)) fl (textNodes t).
Proof.
  induction ts as [|t ts' IH]; intros bo bl r Hin; [contradiction|]. cbn [fullRoots] in Hin. destruct Hin as [<-|Hin].
  - eexists t, _. split; [left; reflexivity|]. split; reflexivity.
  - destruct (IH _ _ _ Hin) as (t' & fl & Ht' & H1 & H2). exists t', fl. split; [right; exact Ht'|]. split; assumption.
Qed.

(* C16 on the slice: a root block, parsed alone from its own source, gives the same root, renumbered to line 1 / offset 0.
   The block tree is identical except for the lastLineBlank flag of the root, which records the blank line FOLLOWING the
   block in the original document and is therefore false when the block is parsed alone (checked by computation: ex_reparse_flag). *)
Definition aloneOf (r : rootB) : rootB :=
  {| rb_line := 1; rb_start := 0; rb_end := len (rb_src r); rb_src := rb_src r; rb_blk := set_blast (rb_blk r) false |}.

Theorem C16_reparse_paras ts : Forall (fun t => wfText t) ts -> ts <> [] ->
  snd (parseFull (parasDoc ts)) = 0 /\ length (fst (parseFull (parasDoc ts))) = length ts /\
  forall r, In r (fst (parseFull (parasDoc ts))) -> parseFull (rb_src r) = ([aloneOf r], 0).
Proof.
  intros Hw Hne.
  assert (Hok : Forall (fun t => okText true t = true) ts).
  { eapply Forall_impl; [|exact Hw]. intros t Ht. apply okText_iff_wfText. exact Ht. }
  rewrite (parseFull_paras ts Hok Hne). cbn [fst snd]. split; [reflexivity|]. split.
  { generalize 0, 1. clear. induction ts as [|t r IH]; intros a b; [reflexivity|]. cbn [fullRoots length]. f_equal. apply IH. }
  intros r Hin. destruct (fullRoots_in ts 0 1 r Hin) as (t & fl & Ht & Hs & Hb).
  rewrite Forall_forall in Hok. specialize (Hok t Ht).
  unfold aloneOf. rewrite Hs, Hb. pose proof (parseFull_esc t Hok) as Hp. cbv zeta in Hp. fold (tline t) in Hp. rewrite Hp. reflexivity.
Qed.
Print Assumptions C16_reparse_paras.

(* the last root has no blank line after it: it re-parses to exactly itself (renumbered) *)
Theorem C16_reparse_last ts r : Forall (fun t => wfText t) ts -> ts <> [] -> last (fst (parseFull (parasDoc ts))) r = r ->
  In r (fst (parseFull (parasDoc ts))) ->
  parseFull (rb_src r) = ([{| rb_line := 1; rb_start := 0; rb_end := len (rb_src r); rb_src := rb_src r; rb_blk := rb_blk r |}], 0).
Proof.
  intros Hw Hne Hlast Hin. destruct (C16_reparse_paras ts Hw Hne) as (_ & _ & Hall). rewrite (Hall r Hin). unfold aloneOf.
  assert (Hok : Forall (fun t => okText true t = true) ts).
  { eapply Forall_impl; [|exact Hw]. intros t Ht. apply okText_iff_wfText. exact Ht. }
  rewrite (parseFull_paras ts Hok Hne) in Hlast. cbn [fst] in Hlast.
  assert (G : forall ts bo bl d, ts <> [] -> blastBlank (rb_blk (last (fullRoots ts bo bl) d)) = false).
  { clear. induction ts as [|t r IH]; intros bo bl d Hne; [contradiction|]. destruct r as [|t2 r'].
    - reflexivity.
    - change (last (fullRoots (t :: t2 :: r') bo bl) d) with (last (fullRoots (t2 :: r') (bo + len (tline t) + 1) (bl + 1 + 1)) d).
      apply IH. discriminate. }
  specialize (G ts 0 1 r Hne). rewrite Hlast in G.
  destruct (rb_blk r) as [k s e bk ik a n c l lb]. cbn [blastBlank] in G. subst lb. reflexivity.
Qed.
Print Assumptions C16_reparse_last.

(* ---- the two-paragraph form of the task ---- *)
Theorem C16_two_paragraphs t1 t2 : wfText t1 -> wfText t2 ->
  let D := esc t1 ++ [10; 10] ++ esc t2 ++ [10] in
  exists r1 r2, parseFull D = ([r1; r2], 0) /\
    parseFull (rb_src r1) = ([aloneOf r1], 0) /\
    parseFull (rb_src r2) = ([{| rb_line := 1; rb_start := 0; rb_end := len (rb_src r2); rb_src := rb_src r2; rb_blk := rb_blk r2 |}], 0).
Proof.
  intros H1 H2 D.
  assert (HD : D = parasDoc [t1; t2]) by (unfold D, parasDoc, tline; rewrite <- !app_assoc; reflexivity).
  assert (Hw : Forall (fun t => wfText t) [t1; t2]) by (constructor; [exact H1|constructor; [exact H2|constructor]]).
  assert (Hok : Forall (fun t => okText true t = true) [t1; t2]).
  { eapply Forall_impl; [|exact Hw]. intros t Ht. apply okText_iff_wfText. exact Ht. }
  destruct (C16_reparse_paras [t1; t2] Hw ltac:(discriminate)) as (_ & _ & Hall).
  rewrite HD. rewrite (parseFull_paras _ Hok ltac:(discriminate)) in *. cbn [fst fullRoots] in *.
  eexists. eexists. split; [reflexivity|]. split.
  - apply Hall. left. reflexivity.
  - rewrite (Hall _ (or_intror (or_introl eq_refl))). reflexivity.
Qed.
Print Assumptions C16_two_paragraphs.

(* The statement with "rb_blk := rb_blk r" for EVERY root is false on this slice: the first root carries lastLineBlank = true. *)
Definition C16_literal_statement : Prop := forall t1 t2, wfText t1 -> wfText t2 ->
  forall r, In r (fst (parseFull (esc t1 ++ [10; 10] ++ esc t2 ++ [10]))) ->
  parseFull (rb_src r) = ([{| rb_line := 1; rb_start := 0; rb_end := len (rb_src r); rb_src := rb_src r; rb_blk := rb_blk r |}], 0).
Example ex_reparse_flag : ~ C16_literal_statement.
Proof.
  intros H. specialize (H [97] [98]).
  assert (W1 : wfText [97]) by (apply okText_iff_wfText; reflexivity).
  assert (W2 : wfText [98]) by (apply okText_iff_wfText; reflexivity).
  specialize (H W1 W2).
  remember (fst (parseFull (esc [97] ++ [10; 10] ++ esc [98] ++ [10]))) as roots eqn:Er.
  vm_compute in Er. subst roots.
  specialize (H _ (or_introl eq_refl)). vm_compute in H. discriminate H.
Qed.

(* a concrete document: three paragraphs  "a\.b c" / "1\. x\!" / "\*q\*" *)
Example ex_reparse :
  let ts := [[97;46;98;32;99]; [49;46;32;120;33]; [42;113;42]] in
  let roots := fst (parseFull (parasDoc ts)) in
  length roots = 3%nat /\ forallb (fun r => match parseFull (rb_src r) with
                                         | ([r'], 0) => Utf8.bytes_eqb (rb_src r') (rb_src r) && (rb_line r' =? 1) && (rb_start r' =? 0) && (rb_end r' =? len (rb_src r))
                                         | _ => false end) roots = true.
Proof. vm_compute. split; reflexivity. Qed.
