(* QRender1.v -- T64 (renderer): byte-level facts about quote D / sigma D used by the renderer comparison.
   A span of D that lies in one line is copied verbatim to quote D; the pieces of a span cut at line ends concatenate to the span. *)
From Coq Require Import List ZArith Lia Bool.
Import ListNotations.
Require Import Base Tree LP Driver QuoteSimDefs QuoteSimLines QuoteSimSpec QCutsDef QCuts QIRdrBase QS2Drv1.
Open Scope Z_scope.

Lemma len_nn {A} (l : list A) : 0 <= len l. Proof. unfold len. lia. Qed.

Lemma skipn_add {A} : forall n a (l : list A), skipn (n + a) l = skipn n (skipn a l).
Proof.
  intros n a. revert n. induction a as [|a IH]; intros n l; [rewrite Nat.add_0_r; reflexivity|].
  rewrite Nat.add_succ_r. destruct l as [|x l]; [cbn; rewrite skipn_nil; reflexivity|]. cbn [skipn]. apply IH.
Qed.
Lemma firstn_add {A} : forall n k (l : list A), firstn (n + k) l = firstn n l ++ firstn k (skipn n l).
Proof.
  induction n as [|n IH]; intros k l; [reflexivity|]. destruct l as [|x l]; [cbn; rewrite firstn_nil; reflexivity|].
  cbn [Nat.add firstn skipn app]. rewrite IH. reflexivity.
Qed.
Lemma sub_split {A} (l : list A) a m e : 0 <= a -> a <= m -> m <= e -> sub l a e = sub l a m ++ sub l m e.
Proof.
  intros Ha Hm He. unfold sub, upto, from_.
  replace (Z.to_nat (e - a)) with (Z.to_nat (m - a) + Z.to_nat (e - m))%nat by lia.
  replace (Z.to_nat m) with (Z.to_nat (m - a) + Z.to_nat a)%nat by lia.
  rewrite skipn_add. apply firstn_add.
Qed.

Lemma sub_ext2 (X Y : bytes) a b n : 0 <= a -> 0 <= b -> 0 <= n -> a + n <= len X -> b + n <= len Y ->
  (forall i, 0 <= i < n -> at_ X (a + i) = at_ Y (b + i)) -> sub X a (a + n) = sub Y b (b + n).
Proof.
  intros Ha Hb Hn HX HY H. unfold sub, upto, from_. replace (a + n - a) with n by lia. replace (b + n - b) with n by lia.
  apply (nth_ext _ _ 0 0).
  - rewrite !firstn_length, !skipn_length. unfold len in *. lia.
  - intros k Hk. rewrite firstn_length, skipn_length in Hk. unfold len in *.
    rewrite !nth_firstn_lt' by lia. rewrite !nth_skipn'. specialize (H (Z.of_nat k) ltac:(lia)). unfold at_ in H.
    destruct (Z.ltb_spec (a + Z.of_nat k) 0); [lia|]. destruct (Z.ltb_spec (b + Z.of_nat k) 0); [lia|].
    replace (Z.to_nat (a + Z.of_nat k)) with (Z.to_nat a + k)%nat in H by lia. replace (Z.to_nat (b + Z.of_nat k)) with (Z.to_nat b + k)%nat in H by lia. exact H.
Qed.

Section Doc.
  Variable D : bytes.
  Notation Q := (quote D).
  Notation sg := (sigma D).

  Lemma sigma_line a b : 0 <= a -> b <= len D -> noLFin D a (b - 1) -> forall x, a <= x < b -> sg x = sg a + (x - a).
  Proof.
    intros Ha Hb Hno x Hx. assert (G : forall n : nat, a + Z.of_nat n < b -> sg (a + Z.of_nat n) = sg a + Z.of_nat n).
    { induction n as [|n IH]; intros Hn; [rewrite Z.add_0_r; lia|].
      replace (a + Z.of_nat (S n)) with (a + Z.of_nat n + 1) by lia. rewrite sigma_succ by lia. rewrite IH by lia.
      destruct (Z.eqb_spec (at_ D (a + Z.of_nat n)) 10) as [E|_]; [exfalso; apply (Hno (a + Z.of_nat n)); [lia|exact E]|lia]. }
    specialize (G (Z.to_nat (x - a))). replace (a + Z.of_nat (Z.to_nat (x - a))) with x in G by lia. rewrite G by lia. lia.
  Qed.

  Lemma sigma_lt_len x : 0 <= x < len D -> sg x < len Q.
  Proof.
    intros Hx. assert (Hne : D <> []) by (intros ->; unfold len in Hx; cbn in Hx; lia).
    rewrite (len_quote_epsB D Hne). unfold epsB. destruct (Z.leb_spec (len D) 0); [lia|].
    destruct (Z.eq_dec x (len D - 1)) as [->|N]; [lia|]. pose proof (sigma_mono D x (len D - 1) ltac:(lia) ltac:(lia)). lia.
  Qed.

  (* a span inside one line (a line feed only as its last byte) *)
  Lemma sub_sigma a b : 0 <= a -> a < b -> b <= len D -> noLFin D a (b - 1) -> sub Q (sg a) (sg (b - 1) + 1) = sub D a b.
  Proof.
    intros Ha Hab Hb Hno. pose proof (sigma_line a b Ha Hb Hno) as T.
    rewrite (T (b - 1)) by lia. replace (sg a + (b - 1 - a) + 1) with (sg a + (b - a)) by lia.
    replace (sub D a b) with (sub D a (a + (b - a))) by (f_equal; lia).
    apply sub_ext2; try lia.
    - apply sigma_nn, Ha.
    - pose proof (sigma_lt_len (b - 1) ltac:(lia)) as L. rewrite (T (b - 1)) in L by lia. lia.
    - intros i Hi. replace (sigma D a + i) with (sigma D (a + i)) by (rewrite (T (a + i)) by lia; lia). apply sigma_at. lia.
  Qed.

  (* the pieces of a span *)
  Definition pieceD (p : Z * Z) : bytes := sub D (fst p) (snd p).
  Definition pieceQ (p : Z * Z) : bytes := sub Q (sg (fst p)) (sg (snd p - 1) + 1).

  Lemma cutsF_concat : forall n a x e, 0 <= a -> a <= x -> x < e -> Z.of_nat n >= e - x ->
    concat (map pieceD (cutsF D n a x e)) = sub D a e.
  Proof.
    induction n as [|n IH]; intros a x e Ha Hx He Hn; [lia|]. cbn [cutsF].
    destruct (Z.leb_spec e (x + 1)); [cbn; unfold pieceD; cbn [fst snd]; apply app_nil_r|].
    destruct (at_ D x =? 10).
    - cbn [map concat]. rewrite IH by lia. unfold pieceD. cbn [fst snd]. symmetry. apply sub_split; lia.
    - apply IH; lia.
  Qed.
  Lemma cuts_concat a e : 0 <= a -> a < e -> concat (map pieceD (cuts D a e)) = sub D a e.
  Proof. intros Ha He. unfold cuts. apply cutsF_concat; lia. Qed.

  Lemma pieceQ_D a e p : 0 <= a -> a < e -> e <= len D -> In p (cuts D a e) -> pieceQ p = pieceD p.
  Proof.
    intros Ha Hae He Hp. destruct (cuts_inv D a e p Hae Hp) as (B1 & B2 & B3 & B4). unfold pieceQ, pieceD. apply sub_sigma; try lia. exact B4.
  Qed.
  Lemma cuts_concatQ a e : 0 <= a -> a < e -> e <= len D -> concat (map pieceQ (cuts D a e)) = sub D a e.
  Proof.
    intros Ha Hae He. rewrite <- (cuts_concat a e Ha Hae). f_equal. apply map_ext_in. intros p Hp. apply (pieceQ_D a e); assumption.
  Qed.
  Lemma cutsF_nonempty : forall n a x e, cutsF D n a x e <> [].
  Proof.
    induction n as [|n IH]; intros a x e; [discriminate|]. cbn [cutsF].
    destruct (e <=? x + 1); [discriminate|]. destruct (at_ D x =? 10); [discriminate|apply IH].
  Qed.
  Lemma cuts_nonempty a e : cuts D a e <> [].
  Proof. unfold cuts. apply cutsF_nonempty. Qed.
End Doc.
