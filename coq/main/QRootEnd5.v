(* QRootEnd5.v -- t64-rootend, part 5: the stream layer.  The invariant la (LA13, for every source) supplies what RA_processLine
   needs about the entries of an open top-level paragraph; every cut of makeRoot is a line boundary of the buffer, and the
   offset bookkeeping (NUL padding included) turns it into a line boundary of the input. *)
From Coq Require Import List ZArith Lia Bool.
Import ListNotations.
Require Import Base Tree Rdr Link Collect Html Recog LP Rules Starts Driver Rec16 Rec17 Rec18 L2Kind L2CC L2BndS BSDef BSRdr BSTree BSShift
  LADef LA1 LA2 LARec LAR1 LA6 LA11 LA12 LA13 LAOcp LAPad C01b TDefs TilBase QRootEnd1 QRootEnd2 QRootEnd4.
Open Scope Z_scope.

(* ---- line boundaries of a buffer and of its pieces ---- *)
Lemma isEOLz_nz c : isEOLz c = true -> c <> 0.
Proof. intros H E. rewrite E in H. discriminate. Qed.
Lemma LB_le src e : LB src e -> e <= len src.
Proof.
  intros [H|[H|H]]; [pose proof (len_nonneg src); lia|lia|].
  destruct (Z.le_gt_cases e (len src)) as [L|L]; [exact L|]. rewrite at_nonneg_oob in H by lia. discriminate.
Qed.
Lemma lbd_LB buf e : lbd buf e -> LB buf e.
Proof. intros [H|[H|H]]; [left; lia|right; left; exact H|right; right; exact H]. Qed.
Lemma LB_bnd0 buf e : 0 <= e -> LB buf e -> bnd0 buf e.
Proof. intros H0 [H|[H|H]]; [left; lia|right; left; exact H|right; right; apply isEOLz_nz, H]. Qed.

Lemma LB_of_upto buf b e : 0 <= b <= len buf -> LB buf b -> LB (upto buf b) e -> LB buf e.
Proof.
  intros Hb Hl [H|[H|H]]; [left; exact H|rewrite len_upto in H by lia; subst e; exact Hl|].
  destruct (Z.le_gt_cases e 0) as [L0|L0]; [left; exact L0|].
  destruct (Z.le_gt_cases b (e - 1)) as [L|L]; [rewrite at_nonneg_oob in H by (rewrite len_upto by lia; lia); discriminate|].
  right; right. rewrite at_upto' in H by lia. exact H.
Qed.
Lemma LB_to_upto buf b e : 0 <= b <= len buf -> e <= b -> LB buf e -> LB (upto buf b) e.
Proof.
  intros Hb He [H|[H|H]]; [left; exact H|right; left; rewrite len_upto by lia; lia|].
  destruct (Z.le_gt_cases e 0) as [L0|L0]; [left; exact L0|]. right; right. rewrite at_upto' by lia. exact H.
Qed.
Lemma LB_from buf n e : 0 <= n <= len buf -> LB buf e -> LB (from_ buf n) (e - n).
Proof.
  intros Hn H. destruct (Z.le_gt_cases (e - n) 0) as [L0|L0]; [left; exact L0|].
  destruct H as [H|[H|H]]; [lia|right; left; rewrite len_from by lia; lia|].
  right; right. replace (e - n - 1) with ((e - 1) - n) by lia. rewrite at_from' by lia. exact H.
Qed.
Lemma RA_shift buf n l : 0 <= n <= len buf -> RA buf l -> RA (from_ buf n) (map (shiftB (- n)) l).
Proof.
  intros Hn H. unfold RA in *. rewrite Forall_forall in *. intros x Hx. apply in_map_iff in Hx. destruct Hx as (c & <- & Hc).
  rewrite bend_shiftB. destruct (Z.leb_spec 0 (bend c)); [replace (bend c + - n) with (bend c - n) by lia; apply LB_from; [exact Hn|apply H, Hc]|left; lia].
Qed.

(* ---- what la says about an open paragraph at the top level ---- *)
Lemma la_RPl src M l : M <= len src -> allQ (la src M) l -> RPl src l.
Proof.
  intros HM Ha pre c E Ho.
  assert (Hc : la src M c) by (apply (allQ_In _ _ _ Ha); rewrite E; apply in_or_app; right; left; reflexivity).
  rewrite la_eq in Hc. destruct Hc as (A & B & S & Bd & _).
  assert (Hneg : bend c < 0) by (unfold isOpen in Ho; apply Z.ltb_lt in Ho; exact Ho).
  split; [apply S, Hneg|]. intros Kp.
  rewrite body_leaf in Bd by (rewrite Kp; reflexivity). destruct Bd as (T & F & I).
  assert (Eh : hiOf M c = M) by (unfold hiOf; destruct (Z.ltb_spec (bend c) 0); [reflexivity|lia]). rewrite Eh, Kp in *.
  split; [apply (ENT_of_tile src (bstart c) M (bik c)); [lia|exact HM|exact T|exact F]|].
  split; [apply I; reflexivity|]. exists (bstart c), M. split; [exact HM|exact T].
Qed.

(* ---- cutting the padded buffer: the pieces are the padded pieces of the input ---- *)
Lemma padCut : forall t n, 0 <= n <= len (pad t) -> bnd0 (pad t) n ->
  exists t1 t2, t = t1 ++ t2 /\ upto (pad t) n = pad t1 /\ from_ (pad t) n = pad t2.
Proof.
  induction t as [|b t IH]; intros n Hn Hb.
  - cbn in Hn. replace n with 0 by (unfold len in Hn; cbn in Hn; lia). exists [], []. repeat split.
  - destruct (Z.eq_dec n 0) as [->|N0]; [exists [], (b :: t); repeat split|].
    rewrite LAPad.pad_cons in *. set (ch := if b =? 0 then [0;0;0] else [b]) in *.
    assert (Hch : 1 <= len ch /\ (len ch = 3 -> ch = [0;0;0]) /\ (len ch = 1 \/ len ch = 3)).
    { unfold ch. destruct (b =? 0).
      - change (len [0;0;0]) with 3. split; [lia|split; [reflexivity|right; reflexivity]].
      - change (len [b]) with 1. split; [lia|split; [intros H; lia|left; reflexivity]]. }
    destruct Hch as (C1 & C2 & C3). rewrite len_app in Hn. pose proof (len_nonneg (pad t)) as Hlp.
    destruct (Z.lt_ge_cases n (len ch)) as [L|L].
    + exfalso. destruct C3 as [C3|C3]; [lia|]. pose proof (C2 C3) as Ech. destruct Hb as [E|[E|E]]; [lia|rewrite len_app in E; lia|].
      apply E. rewrite Ech. change ([0;0;0] ++ pad t) with (0 :: 0 :: 0 :: pad t). assert (Hn' : n = 1 \/ n = 2) by lia. destruct Hn' as [-> | ->]; reflexivity.
    + rewrite upto_app_ge, from_app_ge by exact L.
      assert (Hb' : bnd0 (pad t) (n - len ch)).
      { destruct Hb as [E|[E|E]]; [lia|right; left; rewrite len_app in E; lia|].
        destruct (Z.eq_dec n (len ch)) as [En|Nn]; [left; lia|]. right; right. rewrite at_app_r in E by lia. replace (n - len ch - 1) with (n - 1 - len ch) by lia. exact E. }
      destruct (IH (n - len ch) ltac:(lia) Hb') as (t1 & t2 & E0 & E1 & E2). exists (b :: t1), t2.
      split; [rewrite E0; reflexivity|]. split; [rewrite LAPad.pad_cons; fold ch; rewrite E1; reflexivity|exact E2].
Qed.

Lemma pad_nil_inv' l : len (pad l) = 0 -> l = [].
Proof.
  destruct l as [|c r]; [reflexivity|]. rewrite LAPad.pad_cons, len_app. pose proof (len_nonneg (pad r)).
  destruct (c =? 0); [change (len [0;0;0]) with 3|change (len [c]) with 1]; lia.
Qed.
Lemma replaceNul_app a b : replaceNul (a ++ b) = replaceNul a ++ replaceNul b.
Proof. unfold replaceNul. apply flat_map_app. Qed.

(* the last byte, when it is not NUL, survives padding and the replacement of NUL *)
Lemma last_pad t c : at_ (pad t) (len (pad t) - 1) = c -> c <> 0 ->
  t <> [] /\ at_ t (len t - 1) = c /\ at_ (replaceNul t) (len (replaceNul t) - 1) = c.
Proof.
  intros H N. destruct (list_snoc_cases t) as [->|(q & x & ->)]; [cbn in H; congruence|].
  rewrite pad_app in H. change (pad [x]) with ((if x =? 0 then [0;0;0] else [x]) ++ []) in H. rewrite app_nil_r in H.
  destruct (Z.eqb_spec x 0) as [E0|N0].
  - exfalso. change [0;0;0] with ([0;0] ++ [0]) in H. rewrite app_assoc, at_last_snoc in H. congruence.
  - rewrite at_last_snoc in H. subst x. split; [intros E; destruct q; discriminate|]. split; [apply at_last_snoc|].
    rewrite replaceNul_app. change (replaceNul [c]) with ((if c =? 0 then [239;191;189] else [c]) ++ []). rewrite app_nil_r.
    replace (c =? 0) with false by (symmetry; apply Z.eqb_neq; exact N0). apply at_last_snoc.
Qed.

(* ---- the stream layer ---- *)
Definition G (_ : bytes) : Prop := True.
Lemma G_ocp src : G src -> OcpLoopSpec src. Proof. intros _. apply OcpLoopSpec_all. Qed.
Lemma G_upto src n : G src -> G (upto src n). Proof. exact (fun x => x). Qed.
Lemma G_from src n : G src -> G (from_ src n). Proof. exact (fun x => x). Qed.

Section Stream.
  Variable D : bytes.

  (* the buffer is the padded rest of the input; the offset is the length of the consumed prefix, a line boundary *)
  Definition BKq (b : bytes) (o : Z) : Prop := exists pre rest, D = pre ++ rest /\ b = pad rest /\ o = len pre /\ LB D (len pre).

  Definition endOK (e : Z) : Prop := e = len D \/ isEOLz (at_ D (e - 1)) = true.
  Definition srcOK (e : Z) (t : bytes) : Prop := len t = 0 \/ e = len D \/ isEOLz (at_ t (len t - 1)) = true.

  Lemma BKq_cut b o n : BKq b o -> 0 <= n <= len b -> LB b n ->
    BKq (from_ b n) (o + unpadded (upto b n)) /\ (n <= 0 \/ endOK (o + unpadded (upto b n))) /\
    srcOK (o + unpadded (upto b n)) (fillNulls (upto b n)) /\
    (0 < n -> 0 < unpadded (upto b n)) /\ o + unpadded (upto b n) <= len D.
  Proof.
    intros (pre & rest & E1 & E2 & E3 & E4) Hn Hl. subst b o.
    destruct (padCut rest n Hn (LB_bnd0 (pad rest) n ltac:(lia) Hl)) as (r1 & r2 & Er & Eu & Ef).
    rewrite Eu, Ef, unpadded_pad, fill_pad.
    assert (Hlen : len (pad r1) = n) by (rewrite <- Eu; apply len_upto; exact Hn).
    assert (ED : D = (pre ++ r1) ++ r2) by (rewrite E1, Er, app_assoc; reflexivity).
    assert (Elp : len pre + len r1 = len (pre ++ r1)) by (rewrite len_app; reflexivity).
    assert (Hpos : 0 < n -> 0 < len r1).
    { intros Hp. destruct r1 as [|x r1']; [change (len (pad [])) with 0 in Hlen; lia|rewrite len_cons; pose proof (len_nonneg r1'); lia]. }
    assert (Hle : len pre + len r1 <= len D) by (rewrite ED, !len_app; pose proof (len_nonneg r2); lia).
    enough (Hmain : BKq (pad r2) (len pre + len r1) /\ (n <= 0 \/ endOK (len pre + len r1)) /\ srcOK (len pre + len r1) (replaceNul r1))
      by (destruct Hmain as (M1 & M2 & M3); repeat split; assumption).
    destruct (Z.le_gt_cases n 0) as [L0|L0].
    { assert (r1 = []) by (apply pad_nil_inv'; lia). subst r1. cbn [replaceNul flat_map]. change (len (@nil Z)) with 0.
      split; [exists (pre ++ []), r2; split; [exact ED|split; [reflexivity|split; [exact Elp|rewrite app_nil_r; exact E4]]]|].
      split; [left; exact L0|left; reflexivity]. }
    destruct Hl as [H|[H|H]]; [lia| |].
    - assert (r2 = []).
      { apply pad_nil_inv'. rewrite Er, pad_app, len_app in H. pose proof (len_nonneg (pad r2)). lia. }
      subst r2. rewrite app_nil_r in ED.
      assert (Ee : len pre + len r1 = len D) by (rewrite ED; exact Elp).
      split; [exists (pre ++ r1), []; split; [rewrite app_nil_r; exact ED|split; [reflexivity|split; [exact Elp|rewrite <- Elp, Ee; apply LB_end]]]|].
      split; [right; left; exact Ee|right; left; exact Ee].
    - set (c := at_ (pad rest) (n - 1)) in *.
      assert (Hc : at_ (pad r1) (len (pad r1) - 1) = c).
      { rewrite Hlen, <- Eu. unfold c. apply at_upto'; lia. }
      destruct (last_pad r1 c Hc (isEOLz_nz _ H)) as (Hne & Hr1 & Hrn).
      assert (Hl1 : 0 < len r1) by (destruct r1; [congruence|rewrite len_cons; pose proof (len_nonneg r1); lia]).
      assert (HatD : at_ D (len pre + len r1 - 1) = c).
      { rewrite E1, Er, at_app_r by lia. replace (len pre + len r1 - 1 - len pre) with (len r1 - 1) by lia.
        rewrite at_app_l by lia. exact Hr1. }
      split; [exists (pre ++ r1), r2; split; [exact ED|split; [reflexivity|split; [exact Elp|]]]|].
      + rewrite <- Elp. right; right. rewrite HatD. exact H.
      + split; [right; right; rewrite HatD; exact H|right; right; rewrite Hrn; exact H].
  Qed.

  Lemma BKq_LB b o : BKq b o -> LB D o /\ 0 <= o.
  Proof. intros (pre & rest & _ & _ & E & H). subst o. split; [exact H|apply len_nonneg]. Qed.

  Definition rootRE (r : rootB) : Prop :=
    (bend (rb_blk r) <= 0 \/ endOK (rb_end r)) /\ srcOK (rb_end r) (rb_src r) /\
    LB D (rb_start r) /\ 0 <= rb_start r /\ (0 < bend (rb_blk r) -> rb_start r < rb_end r) /\ rb_end r <= len D.
  Definition SR (s : bpst) : Prop := SL G s /\ RA (buf s) (pending s) /\ BKq (buf s) (boff s).
  Definition okR (x : nb) : Prop := match x with NBBlock r s' => rootRE r /\ SR s' | _ => True end.

  Lemma RE_makeRoot s children r s' : 0 <= bi s <= len (buf s) -> la (upto (buf s) (bi s)) (bi s) (docRoot children) ->
    RA (buf s) children -> BKq (buf s) (boff s) -> makeRoot children s = Some (r, s') ->
    rootRE r /\ RA (buf s') (pending s') /\ BKq (buf s') (boff s').
  Proof.
    intros Hbi Hla HRA HBK Hm. unfold makeRoot in Hm. destruct children as [|b rest]; [discriminate|].
    destruct (isOpen b) eqn:Eo; [discriminate|]. inversion Hm; subst. clear Hm. unfold rootRE. cbn [rb_blk rb_src rb_end rb_start pending buf boff].
    unfold isOpen in Eo. apply Z.ltb_ge in Eo.
    apply docRoot_parts in Hla. destruct Hla as (_ & _ & Ha). cbn [allQ] in Ha. destruct Ha as [Lb _].
    pose proof (la_bounds _ _ _ Lb) as Bb.
    unfold RA in HRA. inversion HRA as [|? ? Hb Hr]; subst.
    destruct (BKq_cut (buf s) (boff s) (bend b) HBK ltac:(lia) Hb) as (K1 & K2 & K3 & K4 & K5).
    destruct (BKq_LB _ _ HBK) as [K6 K7].
    split; [split; [destruct K2 as [K2|K2]; [left; exact K2|right; exact K2]|split; [exact K3|split; [exact K6|split; [exact K7|split; [intros Hp; specialize (K4 Hp); lia|exact K5]]]]]|].
    split; [apply RA_shift; [lia|exact Hr]|exact K1].
  Qed.

  Lemma SR_lineLoop : forall fuel st children ls s, 0 <= ls <= len (buf s) -> bi s = lineEnd (buf s) ls -> ccF children = true ->
    la (upto (buf s) (bi s)) ls (docRoot children) -> bnd0 (buf s) ls -> PadF (buf s) ->
    (st = stDescendTerminated -> exists c1, getAt 1 (docRoot children) = Some c1 /\ bend c1 < 0 /\ hasMatch (bkind c1) = true) ->
    LB (buf s) ls -> RA (buf s) children -> BKq (buf s) (boff s) ->
    okR (lineLoop fuel st children ls s).
  Proof.
    induction fuel as [|f IH]; intros st children ls s Hls Hbi Hcc Hla Hb0 Hpf Hst Hlls HRA HBK; [exact I|]. cbn [lineLoop].
    destruct (lineEnd_spec (buf s) ls Hls) as [A B]. rewrite <- Hbi in A, B.
    set (src := upto (buf s) (bi s)) in *.
    assert (Hlen : len src = bi s) by (apply len_upto; lia).
    assert (Hlbi : lbd (buf s) (bi s)).
    { destruct (Z.eq_dec (bi s) (len (buf s))) as [E|N]; [right; left; exact E|]. destruct (B ltac:(lia)) as [B1 B2]. right; right. exact B2. }
    pose proof (lbd_bnd0 _ _ Hlbi) as Hbbi.
    pose proof (la_processLine st children ls src ltac:(lia) (G_ocp _ I)
                  ltac:(unfold src; apply bnd0_upto; [lia|lia|exact Hb0|intros El; lia])
                  ltac:(unfold src; rewrite Hbi; apply eolEnd_line, Hls) Hcc Hla Hst) as HP.
    pose proof (cc_processLine st children ls src Hcc) as H3. cbv zeta in HP.
    (* the ends *)
    assert (HRI : RIl src children).
    { pose proof Hla as Hla'. apply docRoot_parts in Hla'. destruct Hla' as (_ & _ & Ha). split.
      - unfold RA in *. rewrite Forall_forall in *. intros c Hc. apply LB_to_upto; [lia| |apply HRA, Hc].
        destruct (allQ_la_bounds _ _ _ Ha c Hc). lia.
      - apply (la_RPl src ls); [lia|exact Ha]. }
    pose proof (RA_processLine st children ls src ltac:(lia) ltac:(apply LB_to_upto; [lia|lia|exact Hlls]) Hcc HRI) as HQ.
    assert (Hll : ls + len (from_ src ls) = bi s) by (rewrite len_from by lia; lia). rewrite Hll in HP.
    destruct (processLine st children ls src) as [[children' st'] pn]. cbn [fst snd] in HP, H3, HQ. destruct HP as [HP1 HP2].
    destruct (negb (pn =? 0)); [exact I|].
    assert (HRA' : RA (buf s) children').
    { unfold RA in *. rewrite Forall_forall in *. intros c Hc. apply (LB_of_upto (buf s) (bi s)); [lia|apply lbd_LB, Hlbi|apply HQ, Hc]. }
    destruct (makeRoot children' s) as [[r s']|] eqn:Em.
    - cbn [okR]. destruct (SL_makeRoot G G_upto G_from s children' r s' ltac:(lia) I H3 HP1 Hbbi Hpf Hlbi Em) as [_ HS'].
      destruct (RE_makeRoot s children' r s' ltac:(lia) HP1 HRA' HBK Em) as (R1 & R2 & R3).
      split; [exact R1|]. split; [exact HS'|split; [exact R2|exact R3]].
    - assert (Hls' : 0 <= bi s <= len (buf s)) by lia. destruct (lineEnd_spec (buf s) (bi s) Hls') as [A' _].
      apply (IH st' children' (bi s) _); cbn [buf bi boff]; try assumption; try reflexivity.
      + apply (la_agree src); [apply agree_upto; lia| | |exact HP1]; [intros e0 He0 Hbe0; unfold src in Hbe0; apply (bnd0_grow (buf s) (bi s)); try lia; assumption|].
        apply growOK_upto; [lia|lia|exact Hlbi|]. intros El. destruct (lineEnd_spec (buf s) (bi s) Hls') as [A2 _]. lia.
      + intros Est. destruct (HP2 Est) as (c1 & E1 & E2). exists c1. split; [exact E1|].
        unfold makeRoot in Em. destruct children' as [|b rest]; [cbn in E1; discriminate|].
        destruct (isOpen b) eqn:Eo; [|discriminate]. unfold isOpen in Eo. apply Z.ltb_lt in Eo.
        apply docRoot_parts in HP1. destruct HP1 as (_ & Hch & _). cbn [tchain] in Hch. destruct Hch as (_ & _ & Hch).
        destruct (Z.ltb_spec (bend b) 0); [|lia]. destruct Hch as [_ ->]. cbn in E1. inversion E1; subst c1. split; [exact Eo|apply E2, Eo].
      + apply lbd_LB, Hlbi.
  Qed.

  Lemma SR_skipLoop : forall fuel s, bi s = 0 -> PadF (buf s) -> BKq (buf s) (boff s) -> okR (skipLoop fuel s).
  Proof.
    induction fuel as [|f IH]; intros s Hb Hpf HBK; [exact I|]. cbn [skipLoop]. cbv zeta.
    pose proof (len_nonneg (buf s)) as Hl.
    destruct (negb _); [exact I|].
    destruct (lineEnd_spec (buf s) (bi s) ltac:(lia)) as [A B].
    assert (Hlb : lbd (buf s) (lineEnd (buf s) (bi s))).
    { destruct (Z.eq_dec (lineEnd (buf s) (bi s)) (len (buf s))) as [E|N]; [right; left; exact E|]. destruct (B ltac:(lia)) as [B1 B2]. right; right. exact B2. }
    destruct (isBlankLine _).
    { apply IH; [reflexivity| |].
      - cbn [buf]. apply (PadF_cut (buf s) _ Hpf); [lia|apply lbd_bnd0, Hlb].
      - cbn [buf boff]. apply (BKq_cut (buf s) (boff s) _ HBK); [lia|apply lbd_LB, Hlb]. }
    apply (SR_lineLoop f 0 [] 0 _); cbn [buf bi boff]; [lia|rewrite Hb; reflexivity|reflexivity| |left; reflexivity|exact Hpf|discriminate|left; lia|constructor|exact HBK].
    apply docRoot_parts. split; [lia|]. split; [cbn [tchain]; split; [lia|apply NT_empty; lia]|exact I].
  Qed.

  Lemma SR_nextBlock fuel s : SR s -> okR (nextBlock fuel s).
  Proof.
    intros ((Hb & Hg & Hcc & Hla & Hbb & Hpf & Hlb) & HRA & HBK). unfold nextBlock. destruct (makeRoot (pending s) s) as [[r s']|] eqn:Em.
    - cbn [okR]. destruct (SL_makeRoot G G_upto G_from s (pending s) r s' Hb I Hcc Hla Hbb Hpf Hlb Em) as [_ HS'].
      destruct (RE_makeRoot s (pending s) r s' Hb Hla HRA HBK Em) as (R1 & R2 & R3).
      split; [exact R1|]. split; [exact HS'|split; [exact R2|exact R3]].
    - destruct (pending s) as [|b0 rest] eqn:Ep.
      + apply SR_skipLoop; [reflexivity|apply (PadF_cut (buf s) (bi s) Hpf Hb Hbb)|].
        cbn [buf boff]. apply (BKq_cut (buf s) (boff s) _ HBK); [lia|apply lbd_LB, Hlb].
      + destruct (lineEnd_spec (buf s) (bi s) Hb) as [A' _].
        apply (SR_lineLoop fuel 0 (b0 :: rest) (bi s) _); cbn [buf bi boff]; try assumption; try reflexivity; [|discriminate|apply lbd_LB, Hlb].
        apply (la_agree (upto (buf s) (bi s))); [apply agree_upto; lia| | |exact Hla]; [intros e0 He0 Hbe0; apply (bnd0_grow (buf s) (bi s)); try lia; assumption|].
        apply growOK_upto; [lia|lia|exact Hlb|]. intros El. lia.
  Qed.

  Lemma SR_allBlocks : forall fuel s acc, SR s -> Forall rootRE acc -> Forall rootRE (fst (allBlocks fuel s acc)).
  Proof.
    induction fuel as [|f IH]; intros s acc HS Ha; [exact Ha|]. cbn [allBlocks].
    pose proof (SR_nextBlock (3 + length (buf s)) s HS) as Hn.
    destruct (nextBlock _ s) as [r s'| | |]; try exact Ha.
    destruct Hn as [Hr Hs']. apply IH; [exact Hs'|]. apply Forall_app. split; [exact Ha|]. constructor; [exact Hr|constructor].
  Qed.
End Stream.

Theorem parseBlocks_rootRE D : Forall (rootRE D) (fst (parseBlocks D)).
Proof.
  unfold parseBlocks. apply SR_allBlocks; [|constructor].
  split; [|split; [constructor|]].
  - split; [cbn [buf bi]; pose proof (len_nonneg (pad D)); lia|]. split; [exact I|]. split; [reflexivity|].
    split; [|split; [left; reflexivity|split; [exists D; reflexivity|left; reflexivity]]]. cbn [buf bi pending]. apply docRoot_parts. split; [lia|]. split; [cbn [tchain]; split; [lia|apply NT_empty; lia]|exact I].
  - cbn [buf boff]. exists [], D. split; [reflexivity|]. split; [reflexivity|]. split; [reflexivity|left; cbn; lia].
Qed.
Print Assumptions parseBlocks_rootRE.
