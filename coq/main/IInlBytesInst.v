(* IInlBytesInst.v -- T71 (T71-bytes): the list-item analogue of QInlBytesInst.v.
   For item mk N D (marker mk and N spaces before the first line, K = len mk + N spaces before every other line), a region
   [o, o + bi) of D that starts at a line start and ends with a line or with D, sD := upto (from_ D o) bi, sQ := item mk N D (whole),
   sg := sgI K D o:
     (1) SGood_item_region      : QIRdrBase.SGood sD sQ sg
     (2) GapSp_item_region      : QInlBytesEmph.GapSp sD sQ sg     (the byte before the image of a line start is a space)
     (3) GapNoParen_item_region : QInlGapParen.GapNoParen sD sQ sg (the byte behind the image of a line feed is a space or lies
                                  behind the end of item mk N D; never ')')
   The ItemSim lemmas used (sigmaK_at, sigmaK_mono, sigmaK_nn, sigmaK_succ, len_item_epsBK) do not need `mk without LF`;
   it is not a hypothesis here. *)
From Coq Require Import List ZArith Lia Bool.
Import ListNotations.
Require Import Base Tree ShapesBase SliceBase QuoteSimDefs QuoteSimLines QuoteSimSpec ItemSimDefs ItemSimLines ItemSimDrv1
  QIRdrBase QInlBytesEmph QInlGapParen.
Open Scope Z_scope.

Lemma nth_repeat32 : forall n i, (i < n)%nat -> nth i (repeat 32 n) 0 = 32.
Proof. induction n as [|n IH]; intros i H; [lia|]. destruct i as [|i]; [reflexivity|]. cbn [repeat nth]. apply IH. lia. Qed.
Lemma at_spaces k i : 0 <= i < k -> at_ (spaces k) i = 32.
Proof. intros H. unfold at_, spaces. destruct (Z.ltb_spec i 0); [lia|]. apply nth_repeat32. lia. Qed.

(* a line feed at q is counted in every longer prefix *)
Lemma nlc_after_lf (l : bytes) q : 0 <= q < len l -> at_ l q = 10 -> 1 <= nlc (upto l (q + 1)).
Proof.
  intros Hq Ha. pose proof (nl_succ l q Hq) as E. unfold nl in E. rewrite E, Ha. change (10 =? 10) with true. cbv iota.
  pose proof (nlc_nonneg (upto l q)). lia.
Qed.

(* the K bytes before the image of a line start are spaces *)
Lemma indentAux_gap K : 1 <= K -> forall l b p j, 1 <= j <= K -> 0 <= p < len l -> ((p = 0 /\ b = true) \/ (0 < p /\ at_ l (p - 1) = 10)) ->
  at_ (indentAux K b l) (p + K * (nlc (upto l p) + (if b then 1 else 0)) - j) = 32.
Proof.
  intros HK. induction l as [|c r IH]; intros b p j Hj Hp Hs; [change (len (@nil Z)) with 0 in Hp; lia|]. rewrite len_cons in Hp. cbn [indentAux].
  destruct (Z.eq_dec p 0) as [->|Np].
  - destruct Hs as [[_ ->]|[Hs _]]; [|lia]. change (upto (c :: r) 0) with (@nil Z). cbn [nlc].
    replace (0 + K * (0 + 1) - j) with (K - j) by lia. rewrite at_app_l by (rewrite len_spaces' by lia; lia). apply at_spaces. lia.
  - destruct Hs as [[Hs _]|[_ Hs]]; [lia|]. rewrite upto_cons' by lia. cbn [nlc].
    pose proof (nlc_nonneg (upto r (p - 1))) as Hn0.
    assert (Hs' : (p - 1 = 0 /\ (c =? 10) = true) \/ (0 < p - 1 /\ at_ r (p - 1 - 1) = 10)).
    { destruct (Z.eq_dec p 1) as [->|N1].
      - left. split; [reflexivity|]. change (1 - 1) with 0 in Hs. rewrite at_0 in Hs. subst c. reflexivity.
      - right. split; [lia|]. rewrite (at_S' c r (p - 1)) in Hs by lia. exact Hs. }
    assert (Hpos : 0 <= p - 1 + K * (nlc (upto r (p - 1)) + (if c =? 10 then 1 else 0)) - j).
    { destruct Hs' as [[E1 E2]|[E1 E2]]; [rewrite E2; nia|].
      pose proof (nlc_after_lf r (p - 1 - 1) ltac:(lia) E2) as L. replace (p - 1 - 1 + 1) with (p - 1) in L by lia. destruct (c =? 10); nia. }
    specialize (IH (c =? 10) (p - 1) j Hj ltac:(lia) Hs'). rewrite <- IH.
    set (P := if b then spaces K else []).
    assert (LP : len P = K * (if b then 1 else 0)) by (unfold P; destruct b; [rewrite len_spaces' by lia; lia|cbn; lia]).
    replace (p + K * ((if c =? 10 then 1 else 0) + nlc (upto r (p - 1)) + (if b then 1 else 0)) - j)
      with (len P + ((p - 1 + K * (nlc (upto r (p - 1)) + (if c =? 10 then 1 else 0)) - j) + 1)) by (rewrite LP; destruct (c =? 10), b; lia).
    rewrite at_app_shift by lia. rewrite at_S by lia. reflexivity.
Qed.

Section ItemInst.
  Variables (mk : bytes) (N : Z) (D : bytes).
  Hypothesis N_pos : 1 <= N.
  Hypothesis mk_pos : 0 < len mk.
  Hypothesis D_nul : Forall (fun c => c <> 0) D.
  Hypothesis D_ne : D <> [].
  Hypothesis D_first : exists c r, D = c :: r /\ c <> 10.
  Let K := len mk + N.
  Let I := item mk N D.
  Lemma K_eq : K + 0 = len mk + N. Proof. unfold K. lia. Qed.
  Lemma K_ge : 2 <= K. Proof. unfold K. lia. Qed.

  Lemma len_I : len I = sigmaK K D (len D - 1) + 1.
  Proof.
    unfold I. rewrite (len_item_epsBK mk N K K_eq ltac:(lia) D D_ne D_first). unfold epsBK.
    assert (0 < len D) by (destruct D_first as (c0 & r0 & E0 & _); rewrite E0, len_cons; pose proof (len_nonneg r0); lia).
    destruct (Z.leb_spec (len D) 0); [lia|reflexivity].
  Qed.
  Lemma sigmaK_lt_len p : 0 <= p < len D -> sigmaK K D p < len I.
  Proof.
    intros Hp. rewrite len_I. pose proof K_ge.
    destruct (Z.eq_dec p (len D - 1)) as [->|Ne]; [lia|]. pose proof (sigmaK_mono K D ltac:(lia) p (len D - 1) ltac:(lia) ltac:(lia)). lia.
  Qed.
  Lemma I_split : I = (mk ++ spaces N) ++ indentAux K false D.
  Proof. unfold I, item. rewrite <- app_assoc. reflexivity. Qed.
  Lemma len_fp : len (mk ++ spaces N) = K.
  Proof. rewrite len_app, len_spaces' by lia. reflexivity. Qed.

  (* the K bytes before the image of a line start p > 0 of D are spaces; before the image of 0 the last N *)
  Theorem sigmaK_gap p j : 0 < p < len D -> at_ D (p - 1) = 10 -> 1 <= j <= K -> at_ I (sigmaK K D p - j) = 32.
  Proof.
    intros Hp Ha Hj. pose proof K_ge as HK.
    pose proof (nlc_after_lf D (p - 1) ltac:(lia) Ha) as L. replace (p - 1 + 1) with p in L by lia.
    rewrite I_split. unfold sigmaK, nl.
    replace (p + K * (nlc (upto D p) + 1) - j) with (len (mk ++ spaces N) + (p + K * (nlc (upto D p) + 0) - j)) by (rewrite len_fp; lia).
    rewrite at_app_shift by nia. apply (indentAux_gap K ltac:(lia) D false p j Hj ltac:(lia)). right. split; [lia|exact Ha].
  Qed.
  Theorem sigmaK_gap0 j : 1 <= j <= N -> at_ I (sigmaK K D 0 - j) = 32.
  Proof.
    intros Hj. unfold sigmaK, nl. change (upto D 0) with (@nil Z). cbn [nlc]. unfold I, item.
    replace (0 + K * (0 + 1) - j) with (len mk + (N - j)) by (unfold K; lia).
    rewrite at_app_shift by lia. rewrite at_app_l by (rewrite len_spaces' by lia; lia). apply at_spaces. lia.
  Qed.
  (* behind the image of a line feed: a space of the next indentation, or the end of the item document *)
  Theorem sigmaK_after_lf p : 0 <= p < len D -> at_ D p = 10 -> at_ I (sigmaK K D p + 1) = 32 \/ len I <= sigmaK K D p + 1.
  Proof.
    intros Hp Ha. destruct (Z.eq_dec (p + 1) (len D)) as [E|Ne].
    - right. rewrite len_I. replace (len D - 1) with p by lia. lia.
    - left. pose proof (sigmaK_succ K D p Hp) as S1. rewrite Ha in S1. change (10 =? 10) with true in S1. cbv iota in S1.
      replace (sigmaK K D p + 1) with (sigmaK K D (p + 1) - K) by lia. pose proof K_ge.
      apply sigmaK_gap; [lia|replace (p + 1 - 1) with p by lia; exact Ha|lia].
  Qed.

  Section Region.
    Variables (o bi : Z).
    Hypothesis Ho : 0 <= o.
    Hypothesis Hbi : 0 < bi.
    Hypothesis Hend : o + bi <= len D.
    Hypothesis Hls : o = 0 \/ at_ D (o - 1) = 10.
    Hypothesis Hlast : at_ D (o + bi - 1) = 10 \/ o + bi = len D.
    Let sD := upto (from_ D o) bi.
    Let sQ := I.
    Let sg := sgI K D o.

    Lemma len_sD : len sD = bi.
    Proof. unfold sD. apply len_upto'. rewrite len_from by lia. lia. Qed.
    Lemma sD_at' x : 0 <= x < bi -> at_ sD x = at_ D (o + x).
    Proof. intros H. unfold sD. rewrite at_upto by lia. apply at_from; lia. Qed.
    Lemma sg_abs x : 0 <= x -> sg x = sigmaK K D (o + x).
    Proof. intros H. unfold sg, sgI. cbv zeta. destruct (Z.ltb_spec (o + x) 0); [lia|reflexivity]. Qed.

    Theorem SGood_item_region : SGood sD sQ sg.
    Proof.
      pose proof len_sD as LsD. pose proof K_ge as HK. assert (HK1 : 1 <= K) by lia.
      assert (Hlt : forall x, 0 <= x < len sD -> sg x < len sQ) by (intros x Hx; rewrite sg_abs by lia; apply sigmaK_lt_len; lia).
      constructor.
      - intros x y Hx Hxy. rewrite !sg_abs by lia. apply sigmaK_mono; lia.
      - intros x Hx. rewrite sg_abs by lia. apply sigmaK_nn; lia.
      - intros x Hx. rewrite sD_at' by lia. rewrite sg_abs by lia. apply (sigmaK_at mk N K D K_eq ltac:(lia) HK1). lia.
      - exact Hlt.
      - intros x Hx Nx. rewrite sD_at' in Nx by lia. rewrite !sg_abs by lia. replace (o + (x + 1)) with (o + x + 1) by lia.
        rewrite sigmaK_succ by lia. destruct (Z.eqb_spec (at_ D (o + x)) 10); [contradiction|lia].
      - intros x Hx Nx. rewrite sD_at' in Nx by lia. rewrite !sg_abs by lia. replace (o + (x + 1)) with (o + x + 1) by lia.
        rewrite sigmaK_succ by lia. rewrite Nx. change (10 =? 10) with true. cbv iota. lia.
      - intros _ Nx. rewrite LsD in *. rewrite sD_at' in Nx by lia. replace (o + (bi - 1)) with (o + bi - 1) in Nx by lia.
        destruct Hlast as [E|E]; [contradiction|]. rewrite sg_abs by lia. unfold sQ. rewrite len_I. f_equal. f_equal. lia.
      - pose proof (Hlt (len sD - 1) ltac:(lia)). lia.
      - intros x Hx. rewrite LsD in Hx. rewrite sD_at' by lia. apply (Forall_at (fun c => c <> 0)); [exact D_nul|lia].
      - rewrite LsD. lia.
    Qed.

    Theorem GapSp_item_region : GapSp sD sQ sg.
    Proof.
      intros x Hx Hl. rewrite len_sD in Hx. rewrite sg_abs by lia. pose proof K_ge as HK.
      assert (Hl' : o + x = 0 \/ (0 < o + x /\ at_ D (o + x - 1) = 10)).
      { destruct (Z.eq_dec (o + x) 0) as [E|Ne]; [left; exact E|right; split; [lia|]].
        destruct Hl as [->|Hl].
        - destruct Hls as [E|E]; [lia|]. replace (o + 0 - 1) with (o - 1) by lia. exact E.
        - destruct (Z.eq_dec x 0) as [->|Nx]; [rewrite at_neg in Hl by lia; discriminate Hl|].
          rewrite sD_at' in Hl by lia. replace (o + x - 1) with (o + (x - 1)) by lia. exact Hl. }
      destruct Hl' as [E|[E1 E2]].
      - rewrite E. split; [unfold sigmaK, nl; change (upto D 0) with (@nil Z); cbn [nlc]; lia|]. apply sigmaK_gap0. lia.
      - split; [|apply sigmaK_gap; [lia|exact E2|lia]].
        pose proof (sigmaK_mono K D ltac:(lia) 0 (o + x) ltac:(lia) ltac:(lia)). pose proof (sigmaK_nn K D ltac:(lia) 0 ltac:(lia)). lia.
    Qed.

    Theorem GapNoParen_item_region : GapNoParen sD sQ sg.
    Proof.
      intros x Hx Ha. rewrite len_sD in Hx. rewrite sD_at' in Ha by lia. rewrite sg_abs by lia.
      destruct (sigmaK_after_lf (o + x) ltac:(lia) Ha) as [E|E]; [unfold sQ; rewrite E; discriminate|].
      unfold sQ. rewrite at_beyond by exact E. discriminate.
    Qed.
  End Region.
End ItemInst.

Print Assumptions SGood_item_region.
Print Assumptions GapSp_item_region.
Print Assumptions GapNoParen_item_region.

(* ---- vm_compute checks of the byte facts on examples ---- *)
Definition chkGapI (mk : bytes) (N : Z) (D : bytes) : bool := let K := len mk + N in
  forallb (fun p => let p := Z.of_nat p in if (p =? 0) || (at_ D (p - 1) =? 10) then at_ (item mk N D) (sigmaK K D p - 1) =? 32 else true) (seq 0 (length D)).
Definition chkAfterI (mk : bytes) (N : Z) (D : bytes) : bool := let K := len mk + N in
  forallb (fun p => let p := Z.of_nat p in if (at_ D p =? 10) then negb (at_ (item mk N D) (sigmaK K D p + 1) =? 41) && ((at_ (item mk N D) (sigmaK K D p + 1) =? 32) || (len (item mk N D) <=? sigmaK K D p + 1)) else true) (seq 0 (length D)).
Definition chkAtI (mk : bytes) (N : Z) (D : bytes) : bool := let K := len mk + N in
  forallb (fun p => let p := Z.of_nat p in at_ (item mk N D) (sigmaK K D p) =? at_ D p) (seq 0 (length D)).
Definition Da : bytes := [97;10;98;99;10;10;41;10].
Definition Db : bytes := [97;98;10;41].
Goal chkGapI [45] 1 Da && chkAfterI [45] 1 Da && chkAtI [45] 1 Da && chkGapI [49;41] 3 Db && chkAfterI [49;41] 3 Db && chkAtI [49;41] 3 Db && chkGapI [45] 1 Db && chkAfterI [45] 1 Db = true.
Proof. vm_compute. reflexivity. Qed.
