(* SliceParas.v -- helper of SliceFormat2.v: the inline children of a paragraph / heading under the formatter and the renderer
   (kids_fmt, kids_html), paragraphs as members of a sequence of blocks (para_ok), and part (a) of T67:
     C20_paras_format / C20_paras_preserves_render / C20_paras_idempotent  for SliceReparse.parasDoc ts (any number of one-line
     text paragraphs separated by one blank line): formatDoc (parasDoc ts) = parasDocF ts = the lines fesc t ++ [10] separated by
     one blank line. *)
From Coq Require Import List ZArith Lia Bool.
Import ListNotations.
Require Import Base Tables Utf8 Tree Rdr Link Collect Html Recog LP Rules Starts Driver Inl3a Inl3b Inl3c Inl3d Inl3e Render Fmt Entry
  SliceBase SlicePara SliceText SliceCode SliceTok SliceLine SliceFormat SliceReparse SliceDocs.
Open Scope Z_scope.

(* ---------------------------------------------------------------------------------------------- *)
(* 1. the inline children of a paragraph / heading: text nodes of a marked text                    *)
(* ---------------------------------------------------------------------------------------------- *)
Lemma fold_fmt_k X k : isCode k = false -> (k =? SetextHeadingKind) = false ->
  forall nodes prevs st hw out, Forall isTextI nodes -> Forall isTextI prevs ->
  (forall i, In i nodes -> asciiText (spanOf X i)) ->
  fst (fold_left (fun (wp : fw * list inline) i => let '(w, prevs) := wp in
                    (fmtI (isize i) X k (leadingDigits X prevs 0) w i, i :: prevs)) nodes (wIn st hw out, prevs)) =
  match fmtChunks (leadingDigits X prevs 0) (map (spanOf X) nodes) with
  | [] => wIn st hw out
  | _ => wIn true true (out ++ fmtChunks (leadingDigits X prevs 0) (map (spanOf X) nodes))
  end.
Proof.
  intros Hk1 Hk2. induction nodes as [|i r IH]; intros prevs st hw out HT HP Ha; [reflexivity|].
  apply Forall_cons_iff in HT. destruct HT as [(s & e & ->) HTr]. cbn [fold_left map fmtChunks].
  set (nd := mkI TextKind s e). set (d := leadingDigits X prevs 0).
  assert (Hasc : asciiText (spanOf X nd)) by (apply Ha; left; reflexivity).
  assert (Hf : fmtI (isize nd) X k d (wIn st hw out) nd = ws (wIn st hw out) (snd (chunkFmt d (spanOf X nd)))).
  { unfold nd. cbn [mkI isize fold_right fmtI ikind]. change (TextKind =? LinkKind) with false. change (TextKind =? TextKind) with true. cbv iota.
    rewrite Hk1, Hk2. fold nd. rewrite (fmtText_chunk X d nd Hasc). reflexivity. }
  rewrite Hf.
  assert (Hd' : leadingDigits X (nd :: prevs) 0 = fst (chunkFmt d (spanOf X nd))).
  { rewrite chunkFmt_fst. apply leadingDigits_step. exact HP. }
  assert (HP' : Forall isTextI (nd :: prevs)) by (constructor; [eexists; eexists; reflexivity|exact HP]).
  assert (Ha' : forall j, In j r -> asciiText (spanOf X j)) by (intros j Hj; apply Ha; right; exact Hj).
  destruct (snd (chunkFmt d (spanOf X nd))) as [|x xs] eqn:Ex.
  - rewrite ws_nil. rewrite (IH (nd :: prevs) st hw out HTr HP' Ha'). rewrite Hd'. cbn [app]. reflexivity.
  - rewrite ws_nolf; [| |discriminate].
    + rewrite (IH (nd :: prevs) true true _ HTr HP' Ha'). rewrite Hd'. cbn [app].
      destruct (fmtChunks (fst (chunkFmt d (spanOf X nd))) (map (spanOf X) r)); [rewrite app_nil_r; reflexivity|]. rewrite <- app_assoc. reflexivity.
    + rewrite <- Ex. intros H10. apply chunkFmt_in in H10. destruct H10 as [H10|H10]; [lia|].
      unfold asciiText in Hasc. rewrite Forall_forall in Hasc. specialize (Hasc 10 H10). lia.
Qed.

(* the children written inside a paragraph / heading whose text nodes are those of the marked text mt at offset len pre0 *)
Lemma kids_fmt X k pre0 mt rest st hw out : isCode k = false -> (k =? SetextHeadingKind) = false ->
  X = pre0 ++ genEscM mt ++ rest -> cover 0 mt = true -> plainOf mt <> [] -> asciiText (plainOf mt) ->
  fst (fold_left (fun (wp : fw * list inline) i => let '(w, prevs) := wp in
                    (fmtI (isize i) X k (leadingDigits X prevs 0) w i, i :: prevs)) (tokSpecM (len pre0) (len pre0) mt) (wIn st hw out, [])) =
  wIn true true (out ++ fesc (plainOf mt)).
Proof.
  intros Hk1 Hk2 HX Hcov Hne Ha. set (nodes := tokSpecM (len pre0) (len pre0) mt).
  assert (Hch : map (spanOf X) nodes = chunksM [] mt).
  { pose proof (tokSpecM_chunks mt pre0 [] rest X HX) as H. rewrite sl_len_nil, Z.add_0_r in H. exact H. }
  assert (Hasc : forall i, In i nodes -> asciiText (spanOf X i)).
  { intros i Hi. apply Forall_forall. intros c Hc.
    assert (Hin : In c (concat (map (spanOf X) nodes))) by (apply in_concat; exists (spanOf X i); split; [apply in_map; exact Hi|exact Hc]).
    rewrite Hch, concat_chunksM in Hin. cbn [app] in Hin. unfold asciiText in Ha. rewrite Forall_forall in Ha. apply Ha. exact Hin. }
  rewrite (fold_fmt_k X k Hk1 Hk2 nodes [] st hw out (tokSpecM_isText mt _ _) ltac:(constructor) Hasc).
  change (leadingDigits X [] 0) with 0. rewrite Hch. rewrite (fmtChunks_spec mt [] 0 eq_refl Hcov). cbn [app]. fold (fesc (plainOf mt)).
  destruct (fesc (plainOf mt)) as [|x xs] eqn:Ef; [|reflexivity].
  exfalso. destruct (plainOf mt) as [|c r]; [contradiction|]. unfold fesc in Ef. cbn [fescD] in Ef. destruct (needsEscape c || isMarkerAt 0 c); discriminate Ef.
Qed.

Lemma kids_html c X pre0 mt rest : X = pre0 ++ genEscM mt ++ rest ->
  flat_map (fun i => renderI (isize i) c [] X i) (tokSpecM (len pre0) (len pre0) mt) = escapeHTML (plainOf mt).
Proof.
  intros HX. rewrite (kidsI_texts c [] X _ (tokSpecM_isText mt _ _)). rewrite spansOf_concat.
  pose proof (tokSpecM_chunks mt pre0 [] rest X HX) as H. rewrite sl_len_nil, Z.add_0_r in H. rewrite H, concat_chunksM. reflexivity.
Qed.

(* writing one LF after a line / as a blank line *)
Lemma ws_lf_started ind hw out : ws {| indents := ind; started := true; hasWritten := hw; fout := out |} [10] =
  {| indents := ind; started := false; hasWritten := true; fout := out ++ [10] |}.
Proof. reflexivity. Qed.
Lemma ws_lf_blank hw out : ws (wS hw out) [10] = wS true (out ++ [10]).
Proof. unfold wS. cbv -[app]. rewrite app_nil_r. reflexivity. Qed.

(* ---------------------------------------------------------------------------------------------- *)
(* 2. paragraphs                                                                                   *)
(* ---------------------------------------------------------------------------------------------- *)
(* X spells the one-line paragraph with text t (in any escaping style whose flags cover the marker positions) *)
Definition paraLine (X t : bytes) : Prop := exists mt,
  X = genEscM mt ++ [10] /\ plainOf mt = t /\ okTextM true mt = true /\ cover 0 mt = true /\ lineFacts X /\ t <> [] /\ asciiText t.

Definition unp1 (X : bytes) : list inline := [mkI UnparsedKind 0 (len X)].
Definition paraB (X : bytes) (k : nat) : bsrc := {| bx := X; bb := fun fl => paraBlk (len X) fl (unp1 X); bp := true; bk := k |}.
Definition pTag (h : bytes) : bytes := [60; 112; 62] ++ h ++ [60; 47; 112; 62].
Definition paraFull (X t : bytes) (k : nat) : bfull :=
  {| bf_b := paraB X k;
     bf_final := fun fl => paraBlk (len X) fl (parseInlines X [] (paraBlk (len X) fl (unp1 X)));
     bf_piece := fun hw => (if hw then [10] else []) ++ fesc t ++ [10];
     bf_html := pTag (escapeHTML t) |}.

Lemma para_ok c X t k : filterOn c = false -> paraLine X t -> fullOK c (paraFull X t k).
Proof.
  intros Hc (mt & HX & Ht & Hok & Hcov & HF & Hne & Ha).
  assert (Hpi : forall fl, parseInlines X [] (paraBlk (len X) fl (unp1 X)) = tokSpecM 0 0 mt).
  { intros fl. apply (parseInlines_genM mt [] X [] _ Hok HX). reflexivity. }
  assert (HX' : X = [] ++ genEscM mt ++ [10]) by exact HX.
  pose proof (lf_len X HF) as HlX. unfold len in HlX.
  constructor.
  - constructor; unfold paraFull, paraB; cbn [bf_b bx bb bp].
    + intros f bo bl Hf. destruct f as [|[|[|f]]]; try lia.
      rewrite (skipLoop_para_last X HF). rewrite (lf_lineCount X HF). reflexivity.
    + intros R f bo bl Hf. destruct f as [|[|[|f]]]; try lia.
      rewrite (skipLoop_para_more X HF). rewrite (lf_lineCount X HF). reflexivity.
  - cbn [paraFull bf_b paraB bx]. pose proof (lf_len X HF) as Hl. unfold len in Hl. lia.
  - intros fl acc. reflexivity.
  - intros fl. reflexivity.
  - intros fl hw out idx Hhw Hidx. cbn [paraFull bf_final bf_b paraB bx bf_piece]. rewrite (Hpi fl).
    set (nodes := tokSpecM 0 0 mt). change (bheight (paraBlk (len X) fl nodes)) with 1%nat.
    cbn [fmtB]. change (bkind (paraBlk (len X) fl nodes)) with ParagraphKind. change (ParagraphKind =? ParagraphKind) with true. cbv iota.
    change (bkids (paraBlk (len X) fl nodes)) with (@nil block). change (bik (paraBlk (len X) fl nodes)) with nodes.
    rewrite andb_false_r, orb_false_r.
    assert (Hw1 : (if idx <=? 0 then wS hw out else ws (wS hw out) [10]) = wS true (out ++ (if hw then [10] else [])) \/
                  ((if idx <=? 0 then wS hw out else ws (wS hw out) [10]) = wS false out /\ hw = false)).
    { destruct (Z.leb_spec idx 0).
      - right. assert (hw = false) by (destruct hw; [destruct Hhw as [H1 _]; specialize (H1 eq_refl); lia|reflexivity]). split; [|assumption]. subst hw. reflexivity.
      - left. assert (hw = true) by (apply Hhw; lia). subst hw. apply ws_lf_blank. }
    assert (Hgo : forall hw' out', fold_left (fun (wp : fw * list inline) i => let '(w, prevs) := wp in
                      (fmtI (isize i) X ParagraphKind (leadingDigits X prevs 0) w i, i :: prevs)) nodes (push (wS hw' out') [], []) =
                    fold_left (fun (wp : fw * list inline) i => let '(w, prevs) := wp in
                      (fmtI (isize i) X ParagraphKind (leadingDigits X prevs 0) w i, i :: prevs)) nodes (wIn false hw' out', [])) by reflexivity.
    destruct Hw1 as [Hw1|[Hw1 ->]]; rewrite Hw1, Hgo.
    + unfold nodes. change 0 with (len (@nil Z)) at 1 2.
      rewrite (kids_fmt X ParagraphKind [] mt [10] false true _ eq_refl eq_refl HX' Hcov ltac:(rewrite Ht; exact Hne) ltac:(rewrite Ht; exact Ha)).
      rewrite Ht. unfold pop, wIn. cbn [indents started hasWritten fout removelast]. rewrite ws_lf_started. unfold wS. rewrite <- !app_assoc. reflexivity.
    + unfold nodes. change 0 with (len (@nil Z)) at 1 2.
      rewrite (kids_fmt X ParagraphKind [] mt [10] false false _ eq_refl eq_refl HX' Hcov ltac:(rewrite Ht; exact Hne) ltac:(rewrite Ht; exact Ha)).
      rewrite Ht. unfold pop, wIn. cbn [indents started hasWritten fout removelast]. rewrite ws_lf_started. unfold wS. cbn [app]. rewrite <- !app_assoc. reflexivity.
  - intros fl acc. reflexivity.
  - intros fl. cbn [paraFull bf_final bf_b paraB bx bf_html]. rewrite (Hpi fl).
    set (nodes := tokSpecM 0 0 mt). change (bheight (paraBlk (len X) fl nodes)) with 1%nat.
    cbn [renderB]. change (bkind (paraBlk (len X) fl nodes)) with ParagraphKind. change (bkids (paraBlk (len X) fl nodes)) with (@nil block).
    change (bik (paraBlk (len X) fl nodes)) with nodes. change (ParagraphKind =? ParagraphKind) with true. cbv iota.
    unfold nodes. change 0 with (len (@nil Z)) at 1 2. rewrite (kids_html c X [] mt [10] HX'), Ht.
    rewrite (openTag_nf c _ Hc), (closeTag_nf c _ Hc). reflexivity.
Qed.

(* the two spellings of a text line *)
Lemma okTextE_markE E : E 32 = false -> forall t p, okTextE E p t = true -> okTextM p (markE E t) = true.
Proof.
  intros E32. induction t as [|c r IH]; intros p H; [exact H|]. cbn [okTextE markE map okTextM] in *. fold (markE E r).
  destruct (Z.eqb_spec c 32) as [->|N].
  - rewrite E32. cbn [negb andb]. apply andb_true_iff in H. destruct H as [H1 H2]. rewrite H1, (IH true H2). reflexivity.
  - apply andb_true_iff in H. destruct H as [H1 H2]. rewrite H1, (IH false H2). reflexivity.
Qed.

Lemma paraLine_esc t : wfText t -> paraLine (tline t) t.
Proof.
  intros Hw. apply okText_iff_wfText in Hw. exists (markE isASCIIPunctuation t).
  split; [unfold tline; rewrite esc_genEsc, genEsc_markE; reflexivity|]. split; [apply plainOf_markE|].
  split; [apply (okTextE_markE isASCIIPunctuation eq_refl); apply okText_punct; exact Hw|]. split; [apply cover_punct|].
  split; [apply tline_facts; exact Hw|]. split; [apply okText_ne; exact Hw|apply (okText_ascii t true Hw)].
Qed.
Lemma paraLine_fesc t : wfText t -> paraLine (fesc t ++ [10]) t.
Proof.
  intros Hw. apply okText_iff_wfText in Hw. exists (markF 0 t).
  split; [unfold fesc; rewrite genEscM_markF; reflexivity|]. split; [apply plainOf_markF|].
  split; [apply okText_markF; exact Hw|]. split; [apply cover_markF|].
  split; [|split; [apply okText_ne; exact Hw|apply (okText_ascii t true Hw)]].
  destruct (fesc_head t Hw) as (c & r & He & Hc & H91 & Hm).
  pose proof (fescD_bytes t 0 (okText_bytes t true Hw)) as Hb. fold (fesc t) in Hb. rewrite He in Hb.
  exists c, r. rewrite He. repeat split; try assumption.
  - apply textBytes_noEol. exact Hb.
  - apply textBytes_noNul. exact Hb.
  - rewrite <- He. exact Hm.
Qed.

(* ---------------------------------------------------------------------------------------------- *)
(* 3. (a) any number of one-line text paragraphs                                                   *)
(* ---------------------------------------------------------------------------------------------- *)
(* blocks separated by exactly one blank line, none after the last *)
Fixpoint parasL (sp : bytes -> bytes) (ts : list bytes) : list bfull :=
  match ts with
  | [] => []
  | t :: r => paraFull (sp t) t (match r with [] => 0 | _ => 1 end) :: parasL sp r
  end.
Fixpoint linesSep (sp : bytes -> bytes) (ts : list bytes) : bytes :=
  match ts with [] => [] | t :: r => match r with [] => sp t | _ => sp t ++ 10 :: linesSep sp r end end.

Lemma docOf_parasL sp ts : docOf (map bf_b (parasL sp ts)) = linesSep sp ts.
Proof.
  induction ts as [|t r IH]; [reflexivity|]. cbn [parasL map docOf linesSep]. rewrite IH. destruct r as [|t2 r'].
  - cbn [repeat app linesSep]. rewrite app_nil_r. reflexivity.
  - cbn [paraFull bf_b paraB bx bk repeat app]. reflexivity.
Qed.
Lemma wellSep_parasL sp ts : wellSep (map bf_b (parasL sp ts)).
Proof.
  induction ts as [|t r IH]; [exact I|]. cbn [parasL map wellSep]. split; [|exact IH].
  destruct r; [intros H; contradiction|intros _; cbn; lia].
Qed.
Lemma pieces_parasL sp ts : forall hw, piecesOf (parasL sp ts) hw = (match ts with [] => [] | _ => if hw then [10] else [] end) ++ linesSep (fun t => fesc t ++ [10]) ts.
Proof.
  induction ts as [|t r IH]; intros hw; [reflexivity|]. cbn [parasL piecesOf paraFull bf_piece linesSep]. rewrite IH.
  destruct r as [|t2 r']; [cbn [linesSep app]; rewrite app_nil_r; reflexivity|]. rewrite <- !app_assoc. reflexivity.
Qed.
Lemma linesSep_tline ts : linesSep tline ts = parasDoc ts.
Proof. induction ts as [|t r IH]; [reflexivity|]. cbn [linesSep parasDoc]. rewrite IH. reflexivity. Qed.

Lemma noNul_linesSep sp ts : Forall (fun t => noNul (sp t)) ts -> noNul (linesSep sp ts).
Proof.
  induction 1 as [|t r Ht Hr IH]; [constructor|]. cbn [linesSep]. destruct r; [exact Ht|]. apply noNul_app; [exact Ht|]. constructor; [lia|exact IH].
Qed.

Section ParasDocs.
Variable c : cfg.
Hypothesis Hc : filterOn c = false.
Variable sp : bytes -> bytes.
Hypothesis Hsp : forall t, wfText t -> paraLine (sp t) t.
Variable ts : list bytes.
Hypothesis Hts : Forall wfText ts.

Lemma parasL_ok : Forall (fullOK c) (parasL sp ts).
Proof. clear -Hc Hsp Hts. induction ts as [|t r IH]; [constructor|]. apply Forall_cons_iff in Hts. destruct Hts as [Ht Hr]. cbn [parasL]. constructor; [apply (para_ok c _ t _ Hc (Hsp t Ht))|apply IH; exact Hr]. Qed.
Lemma parasL_noNul : noNul (docOf (map bf_b (parasL sp ts))).
Proof.
  rewrite docOf_parasL. apply noNul_linesSep. eapply Forall_impl; [|exact Hts]. intros t Ht.
  destruct (Hsp t Ht) as (mt & _ & _ & _ & _ & HF & _). apply (lf_noNul _ HF).
Qed.
Theorem formatDoc_paras : formatDoc (linesSep sp ts) = linesSep (fun t => fesc t ++ [10]) ts.
Proof.
  rewrite <- docOf_parasL. rewrite (formatDoc_docs c (parasL sp ts) parasL_ok (wellSep_parasL sp ts) parasL_noNul).
  rewrite pieces_parasL. destruct ts; reflexivity.
Qed.
Theorem renderDoc_paras : renderDoc c (linesSep sp ts) = joinBlocks (map (fun t => pTag (escapeHTML t)) ts).
Proof.
  rewrite <- docOf_parasL. rewrite (renderDoc_docs c (parasL sp ts) parasL_ok (wellSep_parasL sp ts) parasL_noNul). f_equal.
  clear. induction ts as [|t r IH]; [reflexivity|]. cbn [parasL map paraFull bf_html]. rewrite IH. reflexivity.
Qed.
End ParasDocs.

(* (a) C20, clause 2, for parasDoc ts = the text lines  esc t ++ [10]  separated by one blank line (any number, any lengths) *)
Definition parasDocF (ts : list bytes) : bytes := linesSep (fun t => fesc t ++ [10]) ts.
Theorem C20_paras_format ts : Forall wfText ts -> formatDoc (parasDoc ts) = parasDocF ts.
Proof. intros H. rewrite <- linesSep_tline. apply (formatDoc_paras c0 eq_refl tline paraLine_esc ts H). Qed.
Theorem C20_paras_preserves_render c ts : filterOn c = false -> Forall wfText ts ->
  renderDoc c (formatDoc (parasDoc ts)) = renderDoc c (parasDoc ts).
Proof.
  intros Hc H. rewrite (C20_paras_format ts H). unfold parasDocF. rewrite <- linesSep_tline.
  rewrite (renderDoc_paras c Hc (fun t => fesc t ++ [10]) paraLine_fesc ts H), (renderDoc_paras c Hc tline paraLine_esc ts H). reflexivity.
Qed.
Theorem C20_paras_idempotent ts : Forall wfText ts -> formatDoc (formatDoc (parasDoc ts)) = formatDoc (parasDoc ts).
Proof.
  intros H. rewrite (C20_paras_format ts H). unfold parasDocF. apply (formatDoc_paras c0 eq_refl (fun t => fesc t ++ [10]) paraLine_fesc ts H).
Qed.
Print Assumptions C20_paras_format.
Print Assumptions C20_paras_preserves_render.
Print Assumptions C20_paras_idempotent.
