From Coq Require Import List ZArith Lia Bool String Ascii.
Import ListNotations.
Require Import Base Tree LP Driver Inl3e SliceBase QuoteSimDefs QuoteSimTest QS2Test.
Open Scope Z_scope.
Definition Lst : bytes := [32;9;10;13;35].
Definition okU (src : bytes) (u : inline) : bool :=
  negb ((istart u <? iend u) && (iend u <? len src) && (0 <=? iend u)) || existsb (fun c => c =? at_ src (iend u)) Lst.
Fixpoint chkT (f : nat) (src : bytes) (b : block) : bool :=
  match f with O => true | S f' =>
    (negb (bkind b =? ATXHeadingKind) || forallb (okU src) (bik b)) && forallb (chkT f' src) (bkids b) end.
Definition chkB (D : bytes) : bool := forallb (fun r => chkT (bheight (rb_blk r)) (rb_src r) (rb_blk r)) (fst (parseBlocks D)).
Definition nl := String (ascii_of_nat 10) EmptyString.
Definition bsl := String (ascii_of_nat 92) EmptyString.
Definition tdocs : list string := [ "# a" ++ bsl ++ " #"; "# a" ++ bsl ++ " ###"; "# a >"; "#  b  ## "; "# c" ++ bsl; "# a" ++ bsl ++ " #" ++ nl ++ "> x";
  "- # a" ++ bsl ++ " ##" ++ nl ++ "> # q #" ++ nl ++ "> > # z" ++ bsl ++ " " ++ nl; "p" ++ nl ++ "# h" ++ nl ++ ">"; "# a#" ++ nl ++ ">"; "# a #>"; "# a"; "x" ++ nl ++ "# a" ]%string.
Compute (filter (fun s => negb (chkB (s2b s))) (tdocs ++ docs ++ docs2)).
Definition A9 : bytes := [97; 32; 10; 35; 62; 92; 13].
Time Compute (filter (fun D => negb (chkB D)) (allStr A9 5)).
Definition A10 : bytes := [97; 32; 10; 35; 0; 92; 45].
Time Compute (filter (fun D => negb (chkB D)) (allStr A10 5)).
Time Compute (filter (fun D => negb (chkB (35 :: 32 :: D))) (allStr A9 5)).
