From Coq Require Import List ZArith Lia Bool.
Import ListNotations.
Require Import Base Tables Utf8 Tree Rdr Link Collect Html Recog Inl3a Inl3b Inl3c Inl3d Inl3e LP Rules Starts Driver Props.
Require L2Kind2.
Require Import BSDef BSTree BlockSpans BShDef BlockShapes BlockShapesNul.
Require Import ShapesBase ShapesR ShapesCS ShapesComp3 Shapes GI6 IS2 IS6b InlineShapes SpanHypDef ShapeHypDef ShapeHyp.
Require Import EntBase EntRdr1 EntOcpDefs En2Tree En2Drv EntDefs En2OK ComposeBase EntTest.
Open Scope Z_scope.

(* ================================================================================================
   T45 (3): ShapeHypDef.shapeHypRoots (fst (parseBlocks input)) = true for every input, hence property C13 at the inline level
   (ShapeHyp.rewrite_roots_inline_shapes) without hypothesis.
   ================================================================================================ *)

(* the wanted statement, evaluated on the sample documents of EntTest.v *)
Example shapeHyp_samples :
  forallb (fun d => shapeHypRoots (fst (parseBlocks d)))
    [q_quote; q_list; q_nested; q_lazy; q_tab; q_tabq; q_tick; q_tickq; q_cs; q_cr; q_nul; q_def; q_setext; q_atx; q_atx0; q_atx1] = true.
Proof. vm_compute. reflexivity. Qed.

(* ---- trimEOLr on a text whose line ending bytes form a suffix ---- *)
Lemma dropEOL_prefix_noeol : forall r,
  (forall i j, 0 <= i -> i <= j -> j < len r -> isEol (at_ r j) = true -> isEol (at_ r i) = true) ->
  forallb (fun c => negb (isEol c)) (dropWhileEOL r) = true.
Proof.
  induction r as [|c r IH]; intros H; [reflexivity|]. cbn [dropWhileEOL]. change ((c =? 10) || (c =? 13)) with (isEol c).
  rewrite ShapesBase.len_cons in H. pose proof (ShapesBase.len_nonneg r) as Hl.
  destruct (isEol c) eqn:Ec.
  - apply IH. intros i j Hi Hij Hj Hz. specialize (H (i + 1) (j + 1) ltac:(lia) ltac:(lia) ltac:(lia)).
    rewrite !ShapesBase.at_S in H by lia. apply H, Hz.
  - cbn [forallb]. rewrite Ec. cbn [negb andb]. apply ShapesBase.forallb_at. intros i Hi.
    destruct (isEol (at_ r i)) eqn:Ei; [|reflexivity]. exfalso.
    specialize (H 0 (i + 1) ltac:(lia) ltac:(lia) ltac:(lia)). rewrite ShapesBase.at_S in H by lia. rewrite ShapesBase.at_0 in H. rewrite (H Ei) in Ec. discriminate.
Qed.
Lemma forallb_rev' {A} (p : A -> bool) l : forallb p (rev l) = forallb p l.
Proof.
  induction l as [|x l IH]; [reflexivity|]. cbn [rev forallb]. rewrite forallb_app, IH. cbn [forallb]. rewrite andb_true_r. apply andb_comm.
Qed.
Lemma trimEOLr_suffix_noeol t :
  (forall i j, 0 <= i -> i <= j -> j < len t -> isEol (at_ t i) = true -> isEol (at_ t j) = true) ->
  forallb (fun c => negb (isEol c)) (trimEOLr t) = true.
Proof.
  intros H. unfold trimEOLr. rewrite forallb_rev'. apply dropEOL_prefix_noeol. rewrite ShapesBase.len_rev. intros i j Hi Hij Hj Hz.
  rewrite at_rev in Hz by lia. rewrite at_rev by lia. apply (H (len t - 1 - j) (len t - 1 - i)); try lia. exact Hz.
Qed.

Lemma eolzb c : isEOLz c <-> ((c =? 10) || (c =? 13)) = true.
Proof. unfold isEOLz. rewrite orb_true_iff, !Z.eqb_eq. tauto. Qed.

Section Root.
  Variables (B pre src pre' : bytes) (M n : Z).
  Hypothesis Hn : 0 <= n <= len B.
  Hypothesis Epre : pre = upto B n.
  Hypothesis Esrc : src = fillNulls pre.
  Hypothesis Htri : tri pre.
  Hypothesis Lp' : len pre' = n.
  Notation facts := (facts B pre' M).

  Lemma Ls : len src = n. Proof. apply (src_len B pre src n Hn Epre Esrc). Qed.
  Lemma Seol i : 0 <= i < n -> isEol (at_ src i) = ((at_ B i =? 10) || (at_ B i =? 13)).
  Proof. intros Hi. unfold isEol. apply (src_eol B pre src n Epre Esrc Htri i Hi). Qed.

  Lemma lines_eok E : forall ik, lines B E ik -> forallb eok ik = true.
  Proof.
    intros ik H. apply forallb_forall. intros u Hu. destruct (lines_entry B E ik u H Hu) as (_ & _ & _ & Hk & Hkind).
    unfold eok. rewrite Hk. destruct Hkind as [-> | ->]; reflexivity.
  Qed.

  Lemma lines_linesOK E : E <= n -> forall ik, lines B E ik -> linesOK src ik = true.
  Proof.
    intros HE. pose proof Ls as Hls. induction ik as [|u r IH]; intros Hl; [reflexivity|]. cbn [linesOK]. rewrite (IH (lines_tail _ _ _ _ Hl)), andb_true_r.
    destruct (Z.eqb_spec (ikind u) IndentKind) as [Ek|Nk]; [reflexivity|]. cbv zeta.
    assert (HU : unpOK B E u).
    { destruct (lines_head_cases _ _ _ _ Hl) as [X|[(X & _) _]]; [exact X|contradiction]. }
    destruct (unp_split B pre src n Hn Epre Esrc Htri E u HU HE) as (m & Hm & Hb & He & Hlast).
    pose proof HU as (_ & _ & U1 & U2 & U3 & _).
    assert (Hlen : len (sub src (istart u) (iend u)) = iend u - istart u) by (apply sub_len; lia).
    assert (Ht : trimEOLr (sub src (istart u) (iend u)) = upto (sub src (istart u) (iend u)) (m - istart u)).
    { apply trimEOLr_at; [rewrite Hlen; lia| |].
      - intros i Hi. rewrite sub_at by lia. apply Hb. lia.
      - intros i Hi. rewrite Hlen in Hi. rewrite sub_at by lia. apply He. lia. }
    rewrite Ht. apply andb_true_iff. split.
    - apply ShapesBase.forallb_at. intros i Hi. rewrite ShapesBase.len_upto, Hlen in Hi. rewrite ShapesBase.at_upto by lia. rewrite sub_at by lia.
      change (negb (isEol (at_ src (istart u + i))) = true). unfold isEol. rewrite Hb by lia. reflexivity.
    - destruct r as [|w r']; [reflexivity|]. rewrite ShapesBase.len_upto, Hlen. apply Z.ltb_lt.
      assert (Hlt : iend u < len B) by (eapply lines_notlast_lt; [exact Hl|lia]).
      specialize (Hlast (lines_unp_last B E u HU Hlt)). lia.
  Qed.

  Lemma leaf_shapeHyp b : facts b -> hasUnparsed b = true -> bikOKX' src b || emptyOneX (bik b) = true.
  Proof.
    intros Hf Hu. pose proof (leaf_bikOKw B pre src pre' M n Hn Epre Esrc Htri Lp' b Hf Hu) as Hw. unfold bikOKw in Hw.
    apply orb_true_iff in Hw. apply orb_true_iff. destruct Hw as [Hw|Hw].
    2:{ right. unfold emptyATX in Hw. apply andb_true_iff in Hw. exact (proj2 Hw). }
    left. rewrite bikOKX'_eq. unfold bikOK'. rewrite Hw. cbn [andb].
    destruct (leaf_cases B pre' M n Lp' b Hf Hu) as (S1 & S2 & S3 & [(HK & HL & _)|(HK & a & t & E & D1 & D2 & D3 & D4 & D5 & D6)]).
    - rewrite (lines_eok _ _ HL), (lines_linesOK (bend b) S3 _ HL). reflexivity.
    - rewrite E. unfold mkI. cbn [forallb linesOK ikind ikids istart iend]. change (eok (Inl UnparsedKind a t 0 [] [])) with true. cbn [andb].
      change (UnparsedKind =? IndentKind) with false. cbv iota zeta. rewrite !andb_true_r.
      (* the span is not empty: bikOK holds *)
      assert (Hat : a < t).
      { unfold bikOK in Hw. rewrite E in Hw. apply andb_true_iff in Hw. destruct Hw as [Hw _]. apply andb_true_iff in Hw. destruct Hw as [Hw _].
        apply spOK_cons in Hw. unfold mkI in Hw. cbn [istart iend] in Hw. lia. }
      pose proof Ls as Hls. assert (Hlen : len (sub src a t) = t - a) by (apply sub_len; lia).
      apply trimEOLr_suffix_noeol. rewrite Hlen. intros i j Hi Hij Hj Hz. rewrite sub_at in Hz by lia. rewrite sub_at by lia.
      rewrite Seol in Hz by lia. rewrite Seol by lia. apply (eolzb (at_ B (a + j))). apply (D5 (a + i) ltac:(lia)); [apply eolzb, Hz|lia].
  Qed.

  Lemma root_shapeHyp : forall fuel b, facts b -> shapeHypB fuel src b = true.
  Proof.
    induction fuel as [|f IH]; intros b Hf; [reflexivity|]. cbn [shapeHypB]. destruct (isLeafU b) eqn:El.
    - unfold isLeafU in El. apply andb_true_iff in El. apply leaf_shapeHyp; [exact Hf|exact (proj2 El)].
    - apply forallb_forall. intros c Hc. apply IH. eapply facts_kids; eassumption.
  Qed.
End Root.

Theorem parseBlocks_shapeHyp : forall input, shapeHypRoots (fst (parseBlocks input)) = true.
Proof.
  intros input. unfold shapeHypRoots. apply forallb_forall. intros r Hr.
  destruct (root_facts input r Hr) as (B & pre' & M & Hn & Es & Ht & Lp & Hf).
  apply (root_shapeHyp B (upto B (bend (rb_blk r))) (rb_src r) pre' M (bend (rb_blk r)) Hn eq_refl Es Ht Lp). exact Hf.
Qed.
Print Assumptions parseBlocks_shapeHyp.

(* C13 at the inline level, every input: after Rewrite, every inline node of every rewritten leaf of every root block has a
   valid span and the shape of its construct (Props.shapesI) *)
Theorem parseBlocks_inline_shapes : forall input matcher,
  forallb (fun r => shapesAfter (bheight (rb_blk r)) (rb_src r) matcher (rb_blk r)) (fst (parseBlocks input)) = true.
Proof. intros input matcher. apply rewrite_roots_inline_shapes, parseBlocks_shapeHyp. Qed.
Print Assumptions parseBlocks_inline_shapes.
