From Coq Require Import List ZArith Lia Bool.
Import ListNotations.
Require Import Base Tables Utf8 Tree Rdr Link Collect Html Recog Inl3a Inl3b Inl3c Inl3d PE.
Open Scope Z_scope.

(* ---------- Z-indexed list facts ---------- *)
Lemma len_nonneg {A} (l : list A) : 0 <= len l. Proof. unfold len. lia. Qed.
Lemma len_app {A} (a b : list A) : len (a ++ b) = len a + len b. Proof. unfold len. rewrite app_length. lia. Qed.
Lemma len_upto {A} (l : list A) i : 0 <= i <= len l -> len (upto l i) = i.
Proof. intros. unfold upto, len in *. rewrite firstn_length. lia. Qed.
Lemma len_from {A} (l : list A) i : 0 <= i <= len l -> len (from_ l i) = len l - i.
Proof. intros. unfold from_, len in *. rewrite skipn_length. lia. Qed.
Lemma len_delStack {A} (l : list A) i j : 0 <= i -> i <= j -> j <= len l -> len (delStack l i j) = len l - (j - i).
Proof. intros. unfold delStack. rewrite len_app, len_upto, len_from by lia. lia. Qed.

Lemma nthD_del l i j k : 0 <= i -> i <= j -> j <= len l -> 0 <= k ->
  nthD (delStack l i j) k = if k <? i then nthD l k else nthD l (k + (j - i)).
Proof.
  intros Hi Hij Hj Hk. unfold nthD, delStack, upto, from_, len in *.
  assert (Hl : length (firstn (Z.to_nat i) l) = Z.to_nat i) by (rewrite firstn_length; lia).
  destruct (Z.ltb_spec k i).
  - rewrite app_nth1 by lia.
    rewrite <- (firstn_skipn (Z.to_nat i) l) at 2. rewrite app_nth1 by lia. reflexivity.
  - rewrite app_nth2 by lia. rewrite Hl.
    rewrite <- (firstn_skipn (Z.to_nat j) l) at 2.
    rewrite app_nth2 by (rewrite firstn_length; lia). rewrite firstn_length.
    f_equal. lia.
Qed.

Definition OBN := 14.
Lemma nth_replace {A} (l : list A) v d : forall i j, (i < length l)%nat ->
  nth j (firstn i l ++ v :: skipn (S i) l) d = if Nat.eqb j i then v else nth j l d.
Proof.
  induction l as [|x l IH]; intros i j Hi; [simpl in Hi; lia|].
  destruct i as [|i]; destruct j as [|j]; cbn; try reflexivity.
  simpl in Hi. apply IH. lia.
Qed.
Lemma getOB_set ob i v j : 0 <= i < len ob -> 0 <= j ->
  getOB (setOB ob i v) j = if j =? i then v else getOB ob j.
Proof.
  intros Hi Hj. unfold getOB, setOB, upto, from_, len in *.
  replace (Z.to_nat (i + 1)) with (S (Z.to_nat i)) by lia. cbn [app].
  rewrite nth_replace by lia.
  destruct (Z.eqb_spec j i) as [->|Hne]; [rewrite Nat.eqb_refl; reflexivity|].
  destruct (Nat.eqb_spec (Z.to_nat j) (Z.to_nat i)); [lia|reflexivity].
Qed.
Lemma len_setOB ob i v : 0 <= i < len ob -> len (setOB ob i v) = len ob.
Proof.
  intros H. unfold setOB. rewrite !len_app. rewrite len_upto by lia. rewrite len_from by lia.
  change (len [v]) with 1. lia.
Qed.
Lemma getOB_map g ob j : 0 <= j < len ob -> getOB (map g ob) j = g (getOB ob j).
Proof.
  intros Hj. unfold getOB, len in *.
  rewrite (nth_indep (map g ob) 0 (g 0)) by (rewrite map_length; lia). apply map_nth.
Qed.
Lemma len_map {A B} (g : A -> B) l : len (map g l) = len l. Proof. unfold len. rewrite map_length. reflexivity. Qed.

(* ---------- delimiters ---------- *)
Definition closerLike (c : delim) : bool := ((d_typ c =? tStar) || (d_typ c =? tUnder)) && hasFlag c fCloser.

Lemma obIndex_range c : closerLike c = true -> 0 <= obIndex c < 12.
Proof.
  unfold closerLike, obIndex. intros H. apply andb_true_iff in H. destruct H as [H _]. rewrite H.
  pose proof (Z.mod_pos_bound (d_n c) 3 ltac:(lia)). destruct (hasFlag c fOpener), (d_typ c =? tUnder); lia.
Qed.

Lemma match_bucket o c1 c2 : closerLike c1 = true -> closerLike c2 = true -> obIndex c1 = obIndex c2 ->
  isEmphMatch o c1 = isEmphMatch o c2.
Proof.
  unfold closerLike, obIndex. intros H1 H2 Hb.
  apply andb_true_iff in H1, H2. destruct H1 as [T1 C1], H2 as [T2 C2]. rewrite T1, T2 in Hb.
  pose proof (Z.mod_pos_bound (d_n c1) 3 ltac:(lia)) as M1. pose proof (Z.mod_pos_bound (d_n c2) 3 ltac:(lia)) as M2.
  apply orb_true_iff in T1, T2. unfold tStar, tUnder in *.
  assert (Hall : d_typ c1 = d_typ c2 /\ hasFlag c1 fOpener = hasFlag c2 fOpener /\ d_n c1 mod 3 = d_n c2 mod 3).
  { destruct T1 as [E1|E1], T2 as [E2|E2]; apply Z.eqb_eq in E1, E2; rewrite E1, E2 in *; cbn in Hb;
      destruct (hasFlag c1 fOpener), (hasFlag c2 fOpener); repeat split; try reflexivity; lia. }
  destruct Hall as (Hty & Hop & Hn).
  unfold isEmphMatch. rewrite Hty, Hop, C1, C2.
  rewrite (Z.add_mod (d_n o) (d_n c1)), (Z.add_mod (d_n o) (d_n c2)) by lia. rewrite Hn. reflexivity.
Qed.

(* ---------- the searches ---------- *)
Lemma findCloser_spec : forall fuel stack cp r, pe_findCloser fuel stack cp = r -> 0 <= r ->
  cp <= r < len stack /\ closerLike (nthD stack r) = true.
Proof.
  induction fuel as [|f IH]; intros stack cp r H Hr; cbn [pe_findCloser] in H; [lia|].
  destruct (Z.leb_spec (len stack) cp); [lia|].
  destruct (((d_typ (nthD stack cp) =? tStar) || (d_typ (nthD stack cp) =? tUnder)) && hasFlag (nthD stack cp) fCloser) eqn:E.
  - subst r. split; [lia|exact E].
  - apply IH in H; [|assumption]. destruct H. split; [lia|assumption].
Qed.

(* result of the opener search: r < lo means "none"; otherwise the highest matching index in [lo, start] *)
Lemma findOpener_spec stack c lo : forall fuel start, (Z.to_nat (start - lo + 1) < fuel)%nat ->
  let r := pe_findOpener fuel stack start lo c in
  (r < lo /\ (start < lo -> r = start) /\ forall j, lo <= j <= start -> isEmphMatch (nthD stack j) c = false) \/
  (lo <= r <= start /\ isEmphMatch (nthD stack r) c = true /\ forall j, r < j <= start -> isEmphMatch (nthD stack j) c = false).
Proof.
  induction fuel as [|f IH]; intros start Hf; [lia|]. cbn [pe_findOpener].
  destruct (Z.leb_spec lo start) as [Hle|Hgt]; cbn [andb].
  - destruct (isEmphMatch (nthD stack start) c) eqn:Em; cbn [negb].
    + right. split; [lia|]. split; [assumption|]. intros; lia.
    + specialize (IH (start - 1) ltac:(lia)). cbn zeta in IH.
      destruct IH as [(H1 & H2 & H3)|(H1 & H2 & H3)].
      * left. split; [assumption|]. split; [lia|]. intros j Hj. destruct (Z.eq_dec j start) as [->|]; [assumption|apply H3; lia].
      * right. split; [lia|]. split; [assumption|]. intros j Hj. destruct (Z.eq_dec j start) as [->|]; [assumption|apply H3; lia].
  - left. split; [lia|]. split; [reflexivity|]. intros; lia.
Qed.

(* ---------- invariant ---------- *)
Definition Inv (sb : Z) (stack : list delim) (ob : list Z) (cp : Z) : Prop :=
  0 <= sb /\ len ob = OBN /\ sb <= cp /\
  (forall b, 0 <= b < OBN -> sb <= getOB ob b <= cp) /\
  (forall c, closerLike c = true -> forall j, sb <= j -> j < getOB ob (obIndex c) -> isEmphMatch (nthD stack j) c = false).

Lemma search_agree sb stack ob cp0 cp : Inv sb stack ob cp0 -> cp0 <= cp -> closerLike (nthD stack cp) = true ->
  let c := nthD stack cp in
  let fuel := S (length stack) in
  cp < len stack ->
  let lo := getOB ob (obIndex c) in
  let oi1 := pe_findOpener fuel stack (cp - 1) lo c in
  let oi2 := pe_findOpener fuel stack (cp - 1) sb c in
  (lo <=? oi1) = (sb <=? oi2) /\ ((sb <=? oi2) = true -> oi1 = oi2).
Proof.
  intros (Hsb & Hlen & Hsc & Hob & Hno) Hcp Hcl c fuel HcpL lo oi1 oi2.
  pose proof (obIndex_range c Hcl) as Hr.
  assert (Hlo : sb <= lo <= cp0) by (apply Hob; unfold OBN; lia).
  assert (Hf1 : (Z.to_nat (cp - 1 - lo + 1) < fuel)%nat) by (unfold fuel, len in *; lia).
  assert (Hf2 : (Z.to_nat (cp - 1 - sb + 1) < fuel)%nat) by (unfold fuel, len in *; lia).
  pose proof (findOpener_spec stack c lo fuel (cp - 1) Hf1) as S1.
  pose proof (findOpener_spec stack c sb fuel (cp - 1) Hf2) as S2.
  cbn zeta in S1, S2. fold oi1 in S1. fold oi2 in S2.
  destruct S2 as [(A1 & A2 & A3)|(A1 & A2 & A3)].
  - (* reference search fails: so does the bounded one *)
    destruct S1 as [(B1 & _)|(B1 & B2 & _)].
    + split; [|intros H; apply Z.leb_le in H; lia].
      destruct (Z.leb_spec lo oi1), (Z.leb_spec sb oi2); try lia; reflexivity.
    + rewrite A3 in B2 by lia. discriminate.
  - (* reference search finds oi2 >= sb; it cannot lie below the bound *)
    assert (lo <= oi2).
    { destruct (Z.le_gt_cases lo oi2); [assumption|]. rewrite (Hno c Hcl oi2) in A2 by lia. discriminate. }
    destruct S1 as [(B1 & _ & B3)|(B1 & B2 & B3)].
    + rewrite B3 in A2 by lia. discriminate.
    + assert (oi1 = oi2).
      { destruct (Z.lt_trichotomy oi1 oi2) as [H1|[H1|H1]]; [|assumption|].
        - rewrite B3 in A2 by lia. discriminate.
        - rewrite A3 in B2 by lia. discriminate. }
      split; [|intros _; assumption].
      destruct (Z.leb_spec lo oi1), (Z.leb_spec sb oi2); try lia; reflexivity.
Qed.

(* ---------- preservation ---------- *)
Lemma Inv_transfer sb stack ob cp stack' ob' cp' B :
  Inv sb stack ob cp -> len ob' = OBN -> sb <= cp' ->
  (forall b, 0 <= b < OBN -> sb <= getOB ob' b <= cp' /\ getOB ob' b <= getOB ob b /\ getOB ob' b <= B) ->
  (forall j, 0 <= j < B -> nthD stack' j = nthD stack j) ->
  Inv sb stack' ob' cp'.
Proof.
  intros (Hsb & Hlen & Hsc & Hob & Hno) Hlen' Hsc' Hob' Hst.
  unfold Inv. repeat split; try assumption.
  - apply Hob'. assumption.
  - apply Hob'. assumption.
  - intros c Hc j Hj1 Hj2. pose proof (obIndex_range c Hc) as Hr.
    destruct (Hob' (obIndex c) ltac:(unfold OBN; lia)) as (_ & H2 & H3).
    rewrite Hst by lia. apply Hno; [assumption|assumption|lia].
Qed.

Lemma stk_updN st id g : stk (updN st id g) = stk st. Proof. reflexivity. Qed.
Lemma stk_wrap st k a b : stk (fst (wrap st k a b)) = stk st. Proof. reflexivity. Qed.
Lemma stk_removeNode st id : stk (removeNode st id) = stk st. Proof. reflexivity. Qed.
Lemma stk_setStk st v : stk (setStk st v) = v. Proof. reflexivity. Qed.

Theorem pe_same sb : forall fuel st ob cp, Inv sb (stk st) ob cp ->
  pe_loopX true sb fuel st ob cp = pe_loopX false sb fuel st ob cp.
Proof.
  induction fuel as [|f IH]; intros st ob cp HI; [reflexivity|].
  cbn [pe_loopX].
  set (stack := stk st) in *.
  set (cp' := pe_findCloser (S (length stack)) stack cp).
  destruct (Z.ltb_spec cp' 0) as [|Hcp0]; [reflexivity|].
  destruct (findCloser_spec _ _ _ _ eq_refl Hcp0) as (Hcpr & Hcl). fold cp' in Hcpr, Hcl.
  set (c := nthD stack cp') in *.
  pose proof HI as (Hsb & Hlen & Hsc & Hob & Hno).
  destruct (search_agree sb stack ob cp cp' HI ltac:(lia) Hcl ltac:(lia)) as (Hag1 & Hag2).
  fold c in Hag1, Hag2. cbn zeta in Hag1, Hag2.
  set (oi1 := pe_findOpener (S (length stack)) stack (cp' - 1) (getOB ob (obIndex c)) c) in *.
  set (oi2 := pe_findOpener (S (length stack)) stack (cp' - 1) sb c) in *.
  rewrite Hag1.
  pose proof (obIndex_range c Hcl) as Hr.
  destruct (Z.leb_spec sb oi2) as [Hfound|Hnot].
  - (* matched: both searches return the same opener *)
    rewrite (Hag2 eq_refl). set (oi := oi2) in *.
    assert (Hoi : sb <= oi <= cp' - 1).
    { pose proof (findOpener_spec stack c sb (S (length stack)) (cp' - 1) ltac:(unfold len in *; lia)) as S2.
      cbn zeta in S2. fold oi2 in S2. fold oi in S2. destruct S2 as [(A & _)|(A & _)]; lia. }
    (* the state transformers are common to both sides; name the pieces *)
    set (k := if (2 <=? plen (nodeOf st (d_node (nthD stack oi)))) && (2 <=? plen (nodeOf st (d_node c))) then 2 else 1).
    set (stA := updN (updN st (d_node (nthD stack oi)) (fun n => setSpan n (ps n) (pe n - k))) (d_node c) (fun n => setSpan n (ps n + k) (pe n))).
    set (kd := if (2 <=? plen (nodeOf st (d_node (nthD stack oi)))) && (2 <=? plen (nodeOf st (d_node c))) then StrongKind else EmphasisKind).
    destruct (wrap stA kd (d_node (nthD stack oi)) (Some (d_node c))) as [stB wid] eqn:Ew.
    assert (HstkB : stk stB = stack) by (change stB with (fst (stB, wid)); rewrite <- Ew; reflexivity).
    rewrite !stk_setStk, HstkB.
    set (stack2 := delStack stack (oi + 1) cp').
    set (ob2 := map (fun b => if oi + 1 <? b then oi + 1 else b) ob).
    assert (L2 : len stack2 = len stack - (cp' - (oi + 1))) by (unfold stack2; apply len_delStack; lia).
    assert (HI2 : Inv sb stack2 ob2 (oi + 1)).
    { apply (Inv_transfer sb stack ob cp stack2 ob2 (oi + 1) (oi + 1) HI); [unfold ob2; rewrite len_map; assumption|lia| |].
      - intros b Hb. unfold ob2. rewrite getOB_map by lia. specialize (Hob b Hb).
        destruct (Z.ltb_spec (oi + 1) (getOB ob b)); lia.
      - intros j Hj. unfold stack2. rewrite nthD_del by lia. destruct (Z.ltb_spec j (oi + 1)); [reflexivity|lia]. }
    destruct (plen (nodeOf (setStk stB stack2) (d_node (nthD stack oi))) =? 0).
    + (* opener exhausted *)
      rewrite !stk_setStk, ?stk_removeNode.
      set (stack3 := delStack stack2 oi (oi + 1)).
      set (ob3 := map (fun b => if oi <? b then b - 1 else b) ob2).
      assert (L3 : len stack3 = len stack2 - 1) by (unfold stack3; rewrite len_delStack by lia; lia).
      assert (HI3 : Inv sb stack3 ob3 (oi + 1 - 1)).
      { apply (Inv_transfer sb stack2 ob2 (oi + 1) stack3 ob3 (oi + 1 - 1) oi HI2); [unfold ob3; rewrite len_map; apply HI2|lia| |].
        - intros b Hb. unfold ob3. rewrite getOB_map by (destruct HI2 as (_ & H & _); lia).
          destruct HI2 as (_ & _ & _ & Hob2 & _). specialize (Hob2 b Hb).
          destruct (Z.ltb_spec oi (getOB ob2 b)); lia.
        - intros j Hj. unfold stack3. rewrite nthD_del by lia. destruct (Z.ltb_spec j oi); [reflexivity|lia]. }
      destruct (plen _ =? 0).
      * apply IH. rewrite stk_setStk.
        apply (Inv_transfer sb stack3 ob3 (oi + 1 - 1) _ ob3 (oi + 1 - 1) (oi + 1 - 1) HI3); [apply HI3|lia| |].
        -- intros b Hb. destruct HI3 as (_ & _ & _ & Hob3 & _). specialize (Hob3 b Hb). lia.
        -- intros j Hj. rewrite ?stk_removeNode, ?stk_setStk. rewrite nthD_del by lia.
           destruct (Z.ltb_spec j (oi + 1 - 1)); [reflexivity|lia].
      * apply IH. rewrite stk_setStk. exact HI3.
    + (* opener survives *)
      destruct (plen _ =? 0).
      * apply IH. rewrite stk_setStk.
        apply (Inv_transfer sb stack2 ob2 (oi + 1) _ ob2 (oi + 1) (oi + 1) HI2); [apply HI2|lia| |].
        -- intros b Hb. destruct HI2 as (_ & _ & _ & Hob2 & _). specialize (Hob2 b Hb). lia.
        -- intros j Hj. rewrite ?stk_setStk. rewrite nthD_del by lia. destruct (Z.ltb_spec j (oi + 1)); [reflexivity|lia].
      * apply IH. rewrite stk_setStk. exact HI2.
  - (* no opener for this closer down to stack_bottom *)
    assert (Hnone : forall j, sb <= j <= cp' - 1 -> isEmphMatch (nthD stack j) c = false).
    { pose proof (findOpener_spec stack c sb (S (length stack)) (cp' - 1) ltac:(unfold len in *; lia)) as S2.
      cbn zeta in S2. fold oi2 in S2. destruct S2 as [(_ & _ & A)|(A & _)]; [exact A|lia]. }
    set (ob' := setOB ob (obIndex c) cp').
    assert (Hlen' : len ob' = OBN) by (unfold ob'; rewrite len_setOB by (unfold OBN in *; lia); assumption).
    assert (HIn : forall cpN stackN, cp' <= cpN -> (forall j, 0 <= j < cp' -> nthD stackN j = nthD stack j) -> Inv sb stackN ob' cpN).
    { intros cpN stackN HcpN Hst. unfold Inv. repeat split; try assumption; try lia.
      - unfold ob'. rewrite getOB_set by (unfold OBN in *; lia). destruct (b =? obIndex c); [lia|]. apply Hob; assumption.
      - unfold ob'. rewrite getOB_set by (unfold OBN in *; lia). destruct (b =? obIndex c); [lia|].
        specialize (Hob b H). lia.
      - intros c2 Hc2 j Hj1 Hj2. pose proof (obIndex_range c2 Hc2) as Hr2.
        unfold ob' in Hj2. rewrite getOB_set in Hj2 by (unfold OBN in *; lia).
        destruct (Z.eqb_spec (obIndex c2) (obIndex c)) as [Eb|Eb].
        + rewrite Hst by lia. rewrite (match_bucket _ c2 c Hc2 Hcl Eb). apply Hnone. lia.
        + assert (j < cp') by (specialize (Hob (obIndex c2) ltac:(unfold OBN; lia)); lia).
          rewrite Hst by lia. apply Hno; assumption. }
    destruct (negb (hasFlag c fOpener)).
    + apply IH. rewrite stk_setStk. apply HIn; [lia|].
      intros j Hj. rewrite nthD_del by lia. destruct (Z.ltb_spec j cp'); [reflexivity|lia].
    + apply IH. apply HIn; [lia|]. intros; reflexivity.
Qed.

(* C11 on the validated transcription: with the bounds initialised to stack_bottom, processEmphasis computes exactly
   what the spec procedure (no bounds) computes, tree surgery included. *)
Theorem processEmphasis_opt_sound st sb fuel : 0 <= sb ->
  pe_loop fuel st (repeat sb 14) sb = pe_loopX false sb fuel st (repeat sb 14) sb.
Proof.
  intros Hsb. rewrite <- (pe_loopX_true sb). apply pe_same.
  unfold Inv. repeat split; try lia; try reflexivity.
  - assert (H' : getOB (repeat sb 14) b = sb).
    { unfold getOB. destruct H as [H0 H1]. unfold OBN in H1.
      assert (Hn : (Z.to_nat b < 14)%nat) by lia. revert Hn. generalize (Z.to_nat b). intros n Hn.
      do 14 (destruct n as [|n]; [reflexivity|]). lia. }
    rewrite H'. lia.
  - assert (H' : getOB (repeat sb 14) b = sb).
    { unfold getOB. destruct H as [H0 H1]. unfold OBN in H1.
      assert (Hn : (Z.to_nat b < 14)%nat) by lia. revert Hn. generalize (Z.to_nat b). intros n Hn.
      do 14 (destruct n as [|n]; [reflexivity|]). lia. }
    rewrite H'. lia.
  - intros c Hc j Hj1 Hj2. pose proof (obIndex_range c Hc) as Hr.
    assert (H' : getOB (repeat sb 14) (obIndex c) = sb).
    { unfold getOB. assert (Hn : (Z.to_nat (obIndex c) < 14)%nat) by lia. revert Hn. generalize (Z.to_nat (obIndex c)). intros n Hn.
      do 14 (destruct n as [|n]; [reflexivity|]). lia. }
    lia.
Qed.
Print Assumptions processEmphasis_opt_sound.
