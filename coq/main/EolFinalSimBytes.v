From Coq Require Import List ZArith Lia Bool.
Import ListNotations.
Require Import Base Tree Rdr Link Collect Html Recog LP Rules Starts Driver Rec16 Rec17 Rec18 RecBounds Cursor CursorX EolInv EolCRBytes EolCRRdr EolHtmlInv EolFinalDefs.
Open Scope Z_scope.

(* C14 (i), final newline: byte-level facts.  A piece of the last line seen by run p (input without final LF) and
   by run q (input with it): either q's piece is p's plus the LF, or both are empty (cursor behind the line). *)
Definition ext (a b : bytes) : Prop := b = a ++ [10] \/ (a = [] /\ b = []).

Lemma fs_eolRun_lf : eolRun [10]. Proof. apply Forall_cons; [left; reflexivity|apply Forall_nil]. Qed.
Lemma fs_len_app {A} (a b : list A) : len (a ++ b) = len a + len b. Proof. unfold len. rewrite app_length. lia. Qed.
Lemma fs_len1 (c : Z) : len [c] = 1. Proof. reflexivity. Qed.

Lemma ext_blank a b : ext a b -> isBlankLine b = isBlankLine a.
Proof. intros [->|[-> ->]]; [|reflexivity]. rewrite isBlankLine_app'. change (isBlankLine [10]) with true. apply andb_true_r. Qed.
Lemma indentLength_app10 a : indentLength (a ++ [10]) = indentLength a.
Proof. induction a as [|c a IH]; [reflexivity|]. cbn [app indentLength]. rewrite IH. reflexivity. Qed.
Lemma ext_indentLength a b : ext a b -> indentLength b = indentLength a.
Proof. intros [->|[-> ->]]; [apply indentLength_app10|reflexivity]. Qed.
Lemma trimLeft_app10 a : trimLeftSpTab (a ++ [10]) = trimLeftSpTab a ++ [10].
Proof. induction a as [|c a IH]; [reflexivity|]. cbn [app trimLeftSpTab]. destruct (isSpTab c); [exact IH|reflexivity]. Qed.
Lemma ext_trim a b : ext a b -> ext (trimLeftSpTab a) (trimLeftSpTab b).
Proof. intros [->|[-> ->]]; [left; apply trimLeft_app10|right; split; reflexivity]. Qed.
Lemma ext_len a b : ext a b -> (b = [] /\ a = []) \/ len b = len a + 1.
Proof. intros [->|[-> ->]]; [right; rewrite fs_len_app; reflexivity|left; split; reflexivity]. Qed.

Lemma hbp1_app10 a c : c <> 10 -> hasBytePrefix (a ++ [10]) [c] = hasBytePrefix a [c].
Proof.
  intros Hc. destruct a as [|x a]; cbn [app hasBytePrefix].
  - replace (c =? 10) with false by (symmetry; apply Z.eqb_neq; exact Hc). reflexivity.
  - destruct (a ++ [10]); destruct a; reflexivity.
Qed.
Lemma ext_hbp1 a b c : c <> 10 -> ext a b -> hasBytePrefix b [c] = hasBytePrefix a [c].
Proof. intros Hc [->|[-> ->]]; [apply hbp1_app10, Hc|reflexivity]. Qed.

(* the five line recognizers *)
Lemma ext_recog a b : ext a b ->
  parseThematicBreak b = parseThematicBreak a /\ parseATXHeading b = parseATXHeading a /\
  parseSetextHeadingUnderline b = parseSetextHeadingUnderline a /\ parseCodeFence b = parseCodeFence a /\
  parseListMarker b = parseListMarker a.
Proof.
  intros [->|[-> ->]]; [|repeat split].
  pose proof fs_eolRun_lf as E.
  split; [apply thematicBreak_eol, E|]. split; [apply atx_eol, E|]. split; [apply setext_eol, E|].
  split; [apply codeFence_eol, E|apply listMarker_eol, E].
Qed.
Lemma ext_htmlStart a b i : ext a b -> htmlStart i b = htmlStart i a.
Proof. intros [->|[-> ->]]; [apply htmlStart_eolRun, fs_eolRun_lf|reflexivity]. Qed.
Lemma ext_firstHtmlCond a b : ext a b -> forall k i, firstHtmlCond i k b = firstHtmlCond i k a.
Proof. intros H. induction k as [|k IH]; intros i; [reflexivity|]. cbn [firstHtmlCond]. rewrite (ext_htmlStart a b i H), IH. reflexivity. Qed.

(* ---- the HTML end conditions: the one place where the missing final newline matters ---- *)
Definition endOK (a : bytes) : Prop := forall w c, a = w ++ [c] -> c <> 62.

Section CF2.
Variables (pre : bytes -> bytes -> bool) (s : bytes).
Hypothesis pre_app : forall e w, eolRun e -> pre (w ++ e) s = pre w s.
Hypothesis pre_short : forall w, (length w < length s)%nat -> pre w s = false.
Hypothesis s_ne : (0 < length s)%nat.
Hypothesis pre_last : forall w, pre w s = true -> length w = length s -> last w 0 = 62.

Lemma cf_snoc : forall k b, contains_from pre b s (S k) = contains_from pre b s k || pre (skipn k b) s.
Proof.
  induction k as [|k IH]; intros b.
  - rewrite (cf_S pre s), (cf_0 pre s). destruct b as [|x r]; [cbn [skipn]; rewrite orb_false_r; reflexivity|].
    rewrite (cf_0 pre s). cbn [skipn]. rewrite orb_false_r. reflexivity.
  - rewrite (cf_S pre s b (S k)), (cf_S pre s b k). destruct b as [|x r].
    + cbn [skipn]. destruct (pre [] s); reflexivity.
    + rewrite IH. cbn [skipn]. rewrite orb_assoc. reflexivity.
Qed.
Lemma last_skipn : forall k (w : bytes), (k < length w)%nat -> last (skipn k w) 0 = last w 0.
Proof.
  induction k as [|k IH]; intros w Hk; [reflexivity|]. destruct w as [|x r]; [cbn in Hk; lia|]. cbn [skipn].
  cbn [length] in Hk. rewrite IH by lia. destruct r as [|y r']; [cbn in Hk; lia|reflexivity].
Qed.
Lemma cfrom_final w : (forall v c, w = v ++ [c] -> c <> 62) ->
  contains_from pre (w ++ [10]) s (Z.to_nat (len (w ++ [10]) - len s)) = contains_from pre w s (Z.to_nat (len w - len s)).
Proof.
  intros Hw. rewrite (cfrom_eolRun pre s pre_app pre_short s_ne w [10] fs_eolRun_lf) by discriminate.
  replace (Z.to_nat (len w - len s)) with (length w - length s)%nat by (unfold len; lia).
  destruct (Nat.lt_ge_cases (length w) (length s)) as [Lt|Ge].
  - replace (length w + 1 - length s)%nat with 0%nat by lia. replace (length w - length s)%nat with 0%nat by lia. reflexivity.
  - replace (length w + 1 - length s)%nat with (S (length w - length s)) by lia. rewrite cf_snoc.
    destruct (pre (skipn (length w - length s) w) s) eqn:Ep; [|apply orb_false_r]. exfalso.
    assert (Hl : length (skipn (length w - length s) w) = length s) by (rewrite skipn_length; lia).
    pose proof (pre_last _ Ep Hl) as Hlast. rewrite last_skipn in Hlast by lia.
    destruct (@exists_last _ w) as (v & c & Ev); [intros ->; cbn in Ge; lia|].
    apply (Hw v c Ev). rewrite Ev, last_last in Hlast. exact Hlast.
Qed.
End CF2.

Lemma hbp_eq_len : forall s w, hasBytePrefix w s = true -> length w = length s -> w = s.
Proof.
  induction s as [|p s IH]; intros w H Hl; [destruct w; [reflexivity|discriminate]|].
  destruct w as [|x w]; [discriminate|]. cbn [hasBytePrefix] in H. apply andb_true_iff in H. destruct H as [A B].
  apply Z.eqb_eq in A. subst x. f_equal. apply IH; [exact B|cbn [length] in Hl; lia].
Qed.
Lemma toLower_62 x : toLowerASCII 62 = toLowerASCII x -> x = 62.
Proof. unfold toLowerASCII. change ((65 <=? 62) && (62 <=? 90)) with false. cbv iota. destruct ((65 <=? x) && (x <=? 90)) eqn:E; [|congruence].
  apply andb_true_iff in E. destruct E as [A B]. apply Z.leb_le in A, B. lia. Qed.
Lemma hcp_last62 : forall s0 w, hasCIPrefix w (s0 ++ [62]) = true -> length w = length (s0 ++ [62]) -> last w 0 = 62.
Proof.
  induction s0 as [|p s0 IH]; intros w H Hl.
  - destruct w as [|x [|y w]]; [discriminate| |cbn in Hl; lia]. cbn [app hasCIPrefix] in H. rewrite andb_true_r in H.
    apply Z.eqb_eq in H. cbn [last]. apply toLower_62, H.
  - destruct w as [|x w]; [discriminate|]. cbn [app hasCIPrefix] in H. apply andb_true_iff in H. destruct H as [_ B].
    cbn [app length] in Hl. specialize (IH w B ltac:(lia)). destruct w as [|y w']; [cbn in Hl; rewrite app_length in Hl; cbn in Hl; lia|exact IH].
Qed.

Lemma contains_final w s0 : noEolB (s0 ++ [62]) -> endOK w -> contains (w ++ [10]) (s0 ++ [62]) = contains w (s0 ++ [62]).
Proof.
  intros Hs Hw. unfold contains. apply cfrom_final; [intros e v He; apply hbp_app_eol; assumption|apply hbp_short|rewrite app_length; cbn; lia| |exact Hw].
  intros v Hv Hl. rewrite (hbp_eq_len _ _ Hv Hl). apply last_last.
Qed.
Lemma containsCI_final w s0 : noEolB (s0 ++ [62]) -> endOK w -> containsCI (w ++ [10]) (s0 ++ [62]) = containsCI w (s0 ++ [62]).
Proof.
  intros Hs Hw. unfold containsCI. apply cfrom_final; [intros e v He; apply hcp_app_eol; assumption|apply hcp_short|rewrite app_length; cbn; lia| |exact Hw].
  intros v Hv Hl. apply (hcp_last62 s0 v Hv Hl).
Qed.

Theorem htmlEnd_final i w : endOK w -> htmlEnd i (w ++ [10]) = htmlEnd i w.
Proof.
  intros Hw. unfold htmlEnd, commentSuffix, piSuffix, cdataSuffix.
  rewrite isBlankLine_app'. change (isBlankLine [10]) with true. rewrite andb_true_r.
  assert (N : forall l, noEolb l = true -> noEolB l) by (intros l; apply noEolb_spec).
  rewrite (contains_final w [45; 45] (N [45;45;62] eq_refl) Hw : contains (w ++ [10]) [45; 45; 62] = contains w [45; 45; 62]).
  rewrite (contains_final w [63] (N [63;62] eq_refl) Hw : contains (w ++ [10]) [63; 62] = contains w [63; 62]).
  rewrite (contains_final w [] (N [62] eq_refl) Hw : contains (w ++ [10]) [62] = contains w [62]).
  rewrite (contains_final w [93; 93] (N [93;93;62] eq_refl) Hw : contains (w ++ [10]) [93; 93; 62] = contains w [93; 93; 62]).
  replace (existsb (containsCI (w ++ [10])) enders1) with (existsb (containsCI w) enders1); [reflexivity|].
  apply existsb_eq_in. intros st Hst. symmetry. cbn [enders1 In] in Hst.
  destruct Hst as [<-|[<-|[<-|[<-|[]]]]].
  - apply (containsCI_final w [60;47;112;114;101]); [apply noEolb_spec; reflexivity|exact Hw].
  - apply (containsCI_final w [60;47;115;99;114;105;112;116]); [apply noEolb_spec; reflexivity|exact Hw].
  - apply (containsCI_final w [60;47;115;116;121;108;101]); [apply noEolb_spec; reflexivity|exact Hw].
  - apply (containsCI_final w [60;47;116;101;120;116;97;114;101;97]); [apply noEolb_spec; reflexivity|exact Hw].
Qed.
Lemma endOK_nil : endOK []. Proof. intros w c E. destruct w; discriminate. Qed.
Lemma ext_htmlEnd a b i : ext a b -> endOK a -> htmlEnd i b = htmlEnd i a.
Proof. intros [->|[-> ->]] Ha; [apply htmlEnd_final, Ha|reflexivity]. Qed.

(* suffixes of a line keep the property *)
Lemma endOK_skipn : forall k a, endOK a -> endOK (skipn k a).
Proof.
  induction k as [|k IH]; intros a Ha; [exact Ha|]. destruct a as [|x a]; [exact Ha|]. cbn [skipn]. apply IH.
  intros w c E. apply (Ha (x :: w) c). rewrite E. reflexivity.
Qed.
Lemma endOK_from a k : endOK a -> endOK (from_ a k). Proof. apply endOK_skipn. Qed.
Lemma endOK_trim a : endOK a -> endOK (trimLeftSpTab a).
Proof. intros H. rewrite trimLeft_from. apply endOK_from, H. Qed.

(* ---- the last line: body (no final LF) against body ++ [10] ---- *)
Definition lastOK (ln : bytes) : Prop := exists w c, ln = w ++ [c] /\ c <> 10 /\ c <> 13 /\ c <> 62.
Lemma lastOK_endOK ln : lastOK ln -> endOK ln.
Proof. intros (w & c & -> & _ & _ & Hc) w' c' E. apply app_inj_tail in E. destruct E as [_ <-]. exact Hc. Qed.
Lemma lastOK_pos ln : lastOK ln -> 0 < len ln.
Proof. intros (w & c & -> & _). rewrite fs_len_app, fs_len1. pose proof (len_nonneg w). lia. Qed.
Lemma hasSuffix_snoc : forall w c, hasByteSuffixEOL (w ++ [c]) = (c =? 10) || (c =? 13).
Proof.
  induction w as [|x w IH]; intros c; [reflexivity|]. cbn [app]. destruct (w ++ [c]) as [|y r] eqn:E; [destruct w; discriminate|].
  change (hasByteSuffixEOL (x :: y :: r)) with (hasByteSuffixEOL (y :: r)). rewrite <- E. apply IH.
Qed.
Lemma lastOK_noSuffix ln : lastOK ln -> hasByteSuffixEOL ln = false.
Proof.
  intros (w & c & -> & A & B & _). rewrite hasSuffix_snoc.
  replace (c =? 10) with false by (symmetry; apply Z.eqb_neq; exact A). replace (c =? 13) with false by (symmetry; apply Z.eqb_neq; exact B). reflexivity.
Qed.
Lemma suffix_app10 ln : hasByteSuffixEOL (ln ++ [10]) = true. Proof. rewrite hasSuffix_snoc. reflexivity. Qed.

Lemma from_app10 (ln : bytes) i : i <= len ln -> from_ (ln ++ [10]) i = from_ ln i ++ [10].
Proof. intros H. apply from_app_le, H. Qed.
Lemma from_app10_end (ln : bytes) : from_ (ln ++ [10]) (len ln + 1) = [].
Proof. apply Rec16.from_nil. rewrite fs_len_app, fs_len1. lia. Qed.
Lemma at_app10_lt (ln : bytes) i : 0 <= i < len ln -> at_ (ln ++ [10]) i = at_ ln i.
Proof. intros H. apply at_app_l, H. Qed.
Lemma at_app10_end (ln : bytes) : at_ (ln ++ [10]) (len ln) = 10.
Proof. rewrite at_app_r by lia. replace (len ln - len ln) with 0 by lia. reflexivity. Qed.
Lemma at_beyond (ln : bytes) i : len ln <= i -> at_ ln i = 0.
Proof. intros H. unfold at_. pose proof (len_nonneg ln). destruct (Z.ltb_spec i 0); [lia|]. apply nth_overflow. unfold len in H. lia. Qed.
Lemma sub_app10 (ln : bytes) a b : 0 <= a <= len ln -> b <= len ln -> sub (ln ++ [10]) a b = sub ln a b.
Proof. intros A B. apply sub_app_le; assumption. Qed.
Lemma computeTabRem_app10 ln i cl : 0 <= i <= len ln -> computeTabRem (ln ++ [10]) i cl = computeTabRem ln i cl.
Proof.
  intros Hi. unfold computeTabRem. rewrite fs_len_app, fs_len1.
  destruct (Z.eq_dec i (len ln)) as [->|N].
  - rewrite at_app10_end. rewrite Z.ltb_irrefl. rewrite andb_false_r. reflexivity.
  - rewrite at_app10_lt by lia. replace (i <? len ln + 1) with true by (symmetry; apply Z.ltb_lt; lia).
    replace (i <? len ln) with true by (symmetry; apply Z.ltb_lt; lia). reflexivity.
Qed.

(* sub of the source with the newline appended: at most the newline more; blankness is the same *)
Lemma firstn_app10 (x : bytes) n : firstn n (x ++ [10]) = firstn n x \/ firstn n (x ++ [10]) = x ++ [10] /\ firstn n x = x.
Proof.
  destruct (Nat.le_gt_cases n (length x)) as [L|L].
  - left. rewrite firstn_app. replace (n - length x)%nat with 0%nat by lia. cbn [firstn]. apply app_nil_r.
  - right. split; [apply firstn_all2; rewrite app_length; cbn; lia|apply firstn_all2; lia].
Qed.
Lemma skipn_app10 (x : bytes) m : skipn m (x ++ [10]) = skipn m x ++ [10] \/ skipn m (x ++ [10]) = [] /\ skipn m x = [].
Proof.
  destruct (Nat.le_gt_cases m (length x)) as [L|L].
  - left. rewrite skipn_app. replace (m - length x)%nat with 0%nat by lia. reflexivity.
  - right. split; [apply skipn_all2; rewrite app_length; cbn; lia|apply skipn_all2; lia].
Qed.
Lemma sub_app10_any (src : bytes) s e : sub (src ++ [10]) s e = sub src s e \/ sub (src ++ [10]) s e = sub src s e ++ [10].
Proof.
  unfold sub, upto, from_. destruct (skipn_app10 src (Z.to_nat s)) as [->|[-> ->]]; [|left; reflexivity].
  destruct (firstn_app10 (skipn (Z.to_nat s) src) (Z.to_nat (e - s))) as [->|[-> ->]]; [left|right]; reflexivity.
Qed.
Lemma blank_sub_app10 (src : bytes) s e : isBlankLine (sub (src ++ [10]) s e) = isBlankLine (sub src s e).
Proof. destruct (sub_app10_any src s e) as [->| ->]; [reflexivity|]. rewrite isBlankLine_app'. apply andb_true_r. Qed.
Lemma sub_to_end (src : bytes) s : sub (src ++ [10]) s (len src + 1) = sub src s (len src) \/ sub (src ++ [10]) s (len src + 1) = sub src s (len src) ++ [10].
Proof.
  unfold sub, upto, from_.
  destruct (Nat.le_gt_cases (Z.to_nat s) (length src)) as [L|L].
  - right. rewrite skipn_app. replace (Z.to_nat s - length src)%nat with 0%nat by lia. cbn [skipn].
    rewrite firstn_all2 by (rewrite app_length, skipn_length; cbn [length]; unfold len; lia).
    rewrite (firstn_all2 (skipn _ src)) by (rewrite skipn_length; unfold len; lia). reflexivity.
  - left. rewrite (skipn_all2 (src ++ [10])) by (rewrite app_length; cbn [length]; lia). rewrite (skipn_all2 src) by lia.
    rewrite !firstn_nil. reflexivity.
Qed.
Lemma blank_sub_to_end (src : bytes) s : isBlankLine (sub (src ++ [10]) s (len src + 1)) = isBlankLine (sub src s (len src)).
Proof. destruct (sub_to_end src s) as [->| ->]; [reflexivity|]. rewrite isBlankLine_app'. apply andb_true_r. Qed.

Lemma pad_app a b : pad (a ++ b) = pad a ++ pad b. Proof. unfold pad. apply flat_map_app. Qed.
Lemma pad_app10 s : pad (s ++ [10]) = pad s ++ [10]. Proof. rewrite pad_app. reflexivity. Qed.
