From Coq Require Import List ZArith Lia Bool.
Import ListNotations.
Require Import Base Tree Rdr Link Collect Html Recog LP Rules Starts Driver Leaf3e RdrBound L2Kind L2Kind2 L2CC TRdr TDefs TOcp TInv.
Open Scope Z_scope.

(* ---- cursor ---- *)
Lemma CU_env p p' : envS p p' -> li p' = li p -> CU p -> CU p'.
Proof. intros (A & B & _) E. unfold CU. rewrite A, B, E. tauto. Qed.
Lemma CU_opened p : CU p -> CU (if state p =? stOpening then withState p stOpenMatched else p).
Proof. destruct (_ =? _); exact (fun x => x). Qed.
Lemma CU_advance p n : CU p -> CU (advance p n).
Proof.
  intros H. unfold advance. destruct (Z.ltb_spec n 0); [exact H|]. destruct (Z.eqb_spec n 0); [exact H|]. cbv zeta.
  pose proof (CU_opened p H) as H1. set (q := if state p =? stOpening then withState p stOpenMatched else p) in *.
  destruct (Z.ltb_spec (len (line q)) (li q + n)); [exact H1|]. unfold CU in *. cbn [lineStart li line withCursor setLP]. lia.
Qed.
Lemma CU_consumeLine p : CU p -> CU (consumeLine p).
Proof.
  intros H. unfold consumeLine. cbv zeta. pose proof (CU_advance p (len (line p) - li p) H) as H1.
  destruct (_ || _); [exact H1|]. destruct (_ =? stDescending); exact H1.
Qed.
Lemma CU_consumeIndent_loop : forall fuel p n, CU p -> CU (consumeIndent_loop fuel p n).
Proof.
  induction fuel as [|f IH]; intros p n H; [exact H|]. cbn [consumeIndent_loop]. destruct (n <=? 0); [exact H|]. cbv zeta.
  pose proof (CU_opened p H) as H1. set (q := if state p =? stOpening then withState p stOpenMatched else p) in *.
  destruct (Z.ltb_spec (li q) (len (line q))) as [L|L]; cbn [andb].
  - destruct (_ =? 32); [apply IH; unfold CU in *; cbn [lineStart li line withCursor setLP]; lia|].
    destruct (_ =? 9); [|exact H1]. destruct (n <? _); [unfold CU in *; cbn [lineStart li line withCursor setLP]; lia|].
    apply IH. unfold CU in *. cbn [lineStart li line withCursor setLP]. lia.
  - exact H1.
Qed.
Lemma CU_consumeIndent p n : CU p -> CU (consumeIndent p n). Proof. apply CU_consumeIndent_loop. Qed.
Lemma CU_updCont p f : CU p -> CU (updCont p f). Proof. exact (fun x => x). Qed.
Lemma CU_collectInline p k n : CU p -> CU (collectInline p k n).
Proof.
  intros H. unfold collectInline. destruct (_ =? stDescendTerminated); [exact H|]. cbv zeta.
  pose proof (CU_opened p H) as H0. set (p0 := if state p =? stOpening then withState p stOpenMatched else p) in *.
  apply CU_updCont, CU_advance. destruct (0 <? indent p0); [|exact H0]. apply CU_updCont, CU_advance, H0.
Qed.

(* ---- the match rules seen from the root ---- *)
Lemma ksRel_updCont_ik p g :
  (cdepth p = 1%nat -> forall c, lastBlock (root p) = Some c -> isOpen c = true -> bkind c <> ParagraphKind) ->
  ksRel (ks p) (ks (updCont p (fun b => set_bik b (g b)))).
Proof.
  intros Hk. unfold ks, updCont. cbn [root withRoot setLP]. destruct (cdepth p) as [|[|d]] eqn:Ed.
  - cbn [updAt]. replace (bkids (set_bik (root p) (g (root p)))) with (bkids (root p)) by (destruct (root p); reflexivity). apply ksRel_refl.
  - apply ksRel_updAt_sh; [lia|]. intros c El. cbn [Nat.sub updAt].
    split; [destruct c; reflexivity|]. split; [destruct c; reflexivity|]. intros Ho Hp. exfalso. exact (Hk eq_refl c El Ho Hp).
  - apply ksRel_updAt_deep. lia.
Qed.
Lemma ksRel_sameT p p' : sameT p p' -> ksRel (ks p) (ks p').
Proof. intros (A & _). unfold ks. rewrite A. apply ksRel_refl. Qed.
Lemma ksRel_collectInline p kind n K : ckind p K -> K <> ParagraphKind -> ksRel (ks p) (ks (collectInline p kind n)).
Proof.
  intros Hc HK. unfold collectInline. destruct (_ =? stDescendTerminated); [apply ksRel_refl|]. cbv zeta.
  pose proof (sameT_opened p) as HT. set (p0 := if state p =? stOpening then withState p stOpenMatched else p) in *.
  assert (Hc0 : ckind p0 K) by (eapply ckind_same; [apply sameT_same, HT|exact Hc]).
  set (p1 := if 0 <? indent p0 then _ else p0).
  assert (H1 : ksRel (ks p) (ks p1) /\ ckind p1 K).
  { unfold p1. destruct (0 <? indent p0); [|split; [apply ksRel_sameT, HT|exact Hc0]].
    set (q := advance p0 (indentLength (rest p0))).
    assert (Hq2 : ckind q K) by (eapply ckind_same; [apply sameT_same, sameT_advance|exact Hc0]).
    split.
    - eapply ksRel_trans; [apply ksRel_sameT, HT|]. eapply ksRel_trans; [apply ksRel_sameT, (sameT_advance p0)|]. fold q.
      apply (ksRel_updCont_ik q (fun b => bik b ++ [Inl IndentKind (lineStart p0 + li p0) (lineStart q + li q) (indent p0) [] []])).
      apply (ckind_cond q K Hq2 HK).
    - apply ckind_updCont; [intros b; apply bkind_set_bik'|exact Hq2]. }
  destruct H1 as [H1 H1c]. clearbody p1.
  set (q := advance p1 n).
  assert (Hq2 : ckind q K) by (eapply ckind_same; [apply sameT_same, sameT_advance|exact H1c]).
  eapply ksRel_trans; [exact H1|]. eapply ksRel_trans; [apply ksRel_sameT, (sameT_advance p1 n)|]. fold q.
  match goal with |- ksRel _ (ks (updCont q (fun b => set_bik b (bik b ++ [?node])))) => apply (ksRel_updCont_ik q (fun b => bik b ++ [node])) end.
  apply (ckind_cond q K Hq2 HK).
Qed.

Lemma skipn_nil' {A} n : skipn n (@nil A) = []. Proof. destruct n; reflexivity. Qed.
Lemma line_nil_rest p : line p = [] -> rest p = [].
Proof. intros E. unfold rest, from_. rewrite E. apply skipn_nil'. Qed.
Lemma len_pos_of_ne {A} (l : list A) : l <> [] -> 0 < len l.
Proof. destruct l; [congruence|]. intros _. unfold len. cbn [length]. lia. Qed.

Definition MSpec (p p2 : lp) : Prop :=
  ksRel (ks p) (ks p2) /\ envS p p2 /\ CU p2 /\
  (state p2 = stDescending \/ (state p2 = stDescendTerminated /\ li p2 = len (line p) /\ 0 < len (line p))).

Lemma MSpec_same p q : sameT p q -> CU q -> state q = stDescending -> MSpec p q.
Proof. intros HT HC Hs. split; [apply ksRel_sameT, HT|]. split; [apply envS_sameT, HT|]. split; [exact HC|left; exact Hs]. Qed.

Lemma matchRule_spec p : state p = stDescending -> CU p -> MSpec p (snd (matchRule p)).
Proof.
  intros Hs HC. assert (Hn0 : state p <> stOpening) by (rewrite Hs; discriminate).
  assert (Hid : MSpec p p) by (apply MSpec_same; [apply sameT_refl|exact HC|exact Hs]).
  assert (Hci : forall n, MSpec p (consumeIndent p n)).
  { intros n. apply MSpec_same; [apply sameT_consumeIndent|apply CU_consumeIndent, HC|rewrite state_consumeIndent_ne0; assumption]. }
  unfold matchRule. cbv zeta.
  destruct (_ || _); [exact Hid|].
  destruct (_ =? ListItemKind).
  { unfold matchListItem. destruct (isRestBlank p); [destruct (negb _); [exact Hid|apply Hci]|]. destruct (_ <=? _); [apply Hci|exact Hid]. }
  destruct (_ =? BlockQuoteKind).
  { unfold matchBlockQuote. cbv zeta. destruct (_ <=? _); [exact Hid|]. destruct (negb _); [exact Hid|]. cbn [snd].
    unfold eatQuoteMarker. cbv zeta.
    set (q1 := consumeIndent p (indent p)). set (q2 := advance q1 1).
    assert (T2 : sameT p q2) by (eapply sameT_trans; [apply sameT_consumeIndent|apply sameT_advance]).
    assert (C2 : CU q2) by (apply CU_advance, CU_consumeIndent, HC).
    assert (S2 : state q2 = stDescending).
    { unfold q2. rewrite state_advance_ne0; unfold q1; rewrite state_consumeIndent_ne0; assumption. }
    destruct (0 <? indent q2); [|apply MSpec_same; assumption].
    apply MSpec_same; [eapply sameT_trans; [exact T2|apply sameT_consumeIndent]|apply CU_consumeIndent, C2|].
    rewrite state_consumeIndent_ne0; [exact S2|rewrite S2; discriminate]. }
  destruct (_ =? FencedCodeBlockKind).
  { unfold matchFenced. cbv zeta.
    match goal with |- MSpec p (snd (if ?c then _ else _)) => destruct c eqn:Ecl end; cbn [snd]; [|apply Hci].
    assert (Hlen : 0 < len (line p)).
    { apply len_pos_of_ne. intros El. unfold bytesAfterIndent in Ecl. rewrite (line_nil_rest p El) in Ecl.
      destruct (indent p <? codeBlockIndentLimit); [|discriminate]. vm_compute in Ecl. discriminate. }
    split; [apply ksRel_sameT, sameT_consumeLine|]. split; [apply envS_sameT, sameT_consumeLine|]. split; [apply CU_consumeLine, HC|].
    right. split; [apply state_consumeLine_3, Hs|]. split; [apply li_consumeLine, HC|exact Hlen]. }
  destruct (_ =? IndentedCodeBlockKind).
  { unfold matchIndented. cbv zeta. destruct (_ <? _); [destruct (negb _)|]; cbn [snd]; first [exact Hid|apply Hci]. }
  destruct (containerKind p =? HTMLBlockKind) eqn:Ek.
  { unfold matchHTML. destruct (htmlEnd _ _); [|exact Hid]. destruct (isRestBlank p) eqn:Eb; [exact Hid|]. cbn [snd].
    apply Z.eqb_eq in Ek.
    set (q := collectInline p RawHTMLKind (len (bytesAfterIndent p))).
    assert (Hq : ksRel (ks p) (ks q)).
    { apply (ksRel_collectInline p _ _ HTMLBlockKind); [rewrite <- Ek; apply ckind_self|discriminate]. }
    assert (Eq : envS p q) by apply envS_collectInline.
    assert (Cq : CU q) by (apply CU_collectInline, HC).
    assert (Sq : state q = stDescending) by (unfold q; rewrite state_collectInline_ne0; assumption).
    split; [eapply ksRel_trans; [exact Hq|apply ksRel_sameT, sameT_consumeLine]|].
    split; [eapply envS_trans; [exact Eq|apply envS_sameT, sameT_consumeLine]|]. split; [apply CU_consumeLine, Cq|].
    right. split; [apply state_consumeLine_3, Sq|]. destruct Eq as (_ & El & _).
    split; [rewrite <- El; apply li_consumeLine, Cq|].
    apply len_pos_of_ne. intros E0. unfold isRestBlank in Eb. rewrite (line_nil_rest p E0) in Eb. discriminate. }
  exact Hid.
Qed.

(* ---- descendOpenBlocks ---- *)
Definition HM (l : list block) : Prop := exists pre c, l = pre ++ [c] /\ isOpen c = true /\ hasMatch (bkind c) = true.
Lemma HM_ksRel l l' : ksRel l l' -> HM l -> HM l'.
Proof.
  intros [[-> ->]|(pre & c & c' & -> & -> & Hs)] (pre2 & c2 & E & Ho & Hh); [destruct pre2; discriminate|].
  apply app_inj_tail in E. destruct E as [-> ->]. exists pre2, c'. split; [reflexivity|].
  rewrite (shEq_isOpen _ _ Hs). destruct Hs as (_ & Hk & _). rewrite Hk. tauto.
Qed.

Definition DSpec (d : nat) (p p' : lp) : Prop :=
  envS p p' /\ CU p' /\ (state p' = stDescendTerminated -> 0 < len (line p)) /\
  ((ksRel (ks p) (ks p') /\ (state p' = stDescendTerminated -> d = O -> HM (ks p'))) \/
   (d = O /\ state p' = stDescendTerminated /\
    exists p2, ksRel (ks p) (ks p2) /\ envS p p2 /\ 0 < li p2 /\ root p' = root (closeLastChildAt p2 0 (lineStart p2 + li p2)))).

Lemma descend_spec : forall fuel p d, CU p -> (state p = stDescendTerminated -> d = O /\ HM (ks p) /\ fuel <> O) ->
  DSpec d p (snd (descend_loop fuel p d)).
Proof.
  induction fuel as [|f IH]; intros p d HC Hst.
  { cbn [descend_loop snd]. split; [repeat split|]. split; [exact HC|]. split; [intros E; destruct (Hst E) as (_ & _ & N); congruence|].
    left. split; [apply ksRel_refl|]. intros E. destruct (Hst E) as (_ & _ & N). congruence. }
  assert (Hexit : state p <> stDescendTerminated -> DSpec d p (withCont p (Some d))).
  { intros N. split; [repeat split|]. split; [exact HC|]. split; [intros E; exact (False_ind _ (N E))|].
    left. split; [apply ksRel_refl|]. intros E. exact (False_ind _ (N E)). }
  assert (Hstale : state p = stDescendTerminated -> exists c, getAt (S d) (root p) = Some c /\ isOpen c = true /\ hasMatch (bkind c) = true).
  { intros E. destruct (Hst E) as (-> & (pre & c & Ek & Ho & Hh) & _). exists c. split; [|tauto].
    cbn [getAt]. unfold ks in Ek. rewrite (lastBlock_snoc _ _ _ Ek). reflexivity. }
  cbn [descend_loop]. cbv zeta.
  destruct (getAt (S d) (root p)) as [c|] eqn:Eg.
  2:{ apply Hexit. intros E. destruct (Hstale E) as (c & A & _). discriminate. }
  destruct (isOpen c) eqn:Eo; cbn [negb].
  2:{ apply Hexit. intros E. destruct (Hstale E) as (c' & A & B & _). congruence. }
  destruct (hasMatch (bkind c)) eqn:Eh; cbn [negb].
  2:{ apply Hexit. intros E. destruct (Hstale E) as (c' & A & _ & B). congruence. }
  set (p1 := withState (withCont p (Some (S d))) stDescending).
  assert (HC1 : CU p1) by exact HC.
  pose proof (matchRule_spec p1 eq_refl HC1) as (M1 & M2 & M3 & M4).
  assert (HMp : d = O -> HM (ks p)).
  { intros ->. cbn [getAt] in Eg. destruct (lastBlock (root p)) as [c0|] eqn:El; [|discriminate]. inversion Eg; subst c0.
    apply lastBlock_some in El. destruct El as (pre & El). exists pre, c. tauto. }
  destruct (matchRule p1) as [ok p2]. cbn [snd] in M1, M2, M3, M4. change (ks p1) with (ks p) in M1.
  assert (E12 : envS p p2) by exact M2.
  destruct M4 as [S3|(S4 & L4 & Ln)].
  - replace (state p2 =? stDescendTerminated) with false by (rewrite S3; reflexivity).
    destruct ok; cbn [negb].
    + destruct (IH p2 (S d) M3) as (A & B & T & C); [intros E; rewrite S3 in E; discriminate|].
      split; [eapply envS_trans; eassumption|]. split; [exact B|].
      split; [intros E; destruct E12 as (_ & El & _); rewrite <- El; apply T, E|]. left.
      destruct C as [[C1 C2]|(C1 & _)]; [|discriminate]. split; [eapply ksRel_trans; eassumption|].
      intros _ Hd. eapply HM_ksRel; [exact (ksRel_trans _ _ _ M1 C1)|apply HMp, Hd].
    + cbn [snd]. split; [exact E12|]. split; [exact M3|]. split; [cbn; rewrite S3; discriminate|].
      left. split; [exact M1|]. cbn. rewrite S3. discriminate.
  - replace (state p2 =? stDescendTerminated) with true by (rewrite S4; reflexivity). cbn [snd].
    split; [exact E12|]. split; [exact M3|]. split; [intros _; exact Ln|]. destruct d as [|d].
    + right. split; [reflexivity|]. split; [exact S4|]. exists p2. split; [exact M1|]. split; [exact E12|].
      split; [rewrite L4; exact Ln|reflexivity].
    + left. split; [|intros _; discriminate]. eapply ksRel_trans; [exact M1|]. apply (ksRel_close_deep p2 (S d)). lia.
Qed.

(* the root block itself stays open *)
Lemma bend_updAt f : forall d b, (d = O -> bend (f b) = bend b) -> bend (updAt d f b) = bend b.
Proof.
  destruct d as [|d]; intros b H; [apply H; reflexivity|]. cbn [updAt]. destruct (lastBlock b); [apply bend_set_lastBlocks|reflexivity].
Qed.
Lemma bendroot_sameT p p' : sameT p p' -> bend (root p') = bend (root p).
Proof. intros (A & _). rewrite A. reflexivity. Qed.
Lemma bendroot_collectInline p k n : bend (root (collectInline p k n)) = bend (root p).
Proof.
  unfold collectInline. destruct (_ =? stDescendTerminated); [reflexivity|]. cbv zeta.
  set (p0 := if state p =? stOpening then withState p stOpenMatched else p).
  assert (E0 : bend (root p0) = bend (root p)) by (unfold p0; destruct (_ =? _); reflexivity).
  unfold updCont at 1. cbn [root withRoot setLP]. rewrite bend_updAt by (intros _; apply bend_set_bik).
  rewrite (bendroot_sameT _ _ (sameT_advance _ _)). destruct (0 <? indent p0); [|exact E0].
  unfold updCont. cbn [root withRoot setLP]. rewrite bend_updAt by (intros _; apply bend_set_bik).
  rewrite (bendroot_sameT _ _ (sameT_advance _ _)). exact E0.
Qed.
Lemma bendroot_matchRule p : bend (root (snd (matchRule p))) = bend (root p).
Proof.
  unfold matchRule. cbv zeta. destruct (_ || _); [reflexivity|].
  destruct (_ =? ListItemKind).
  { unfold matchListItem. destruct (isRestBlank p); [destruct (negb _); [reflexivity|apply bendroot_sameT, sameT_consumeIndent]|].
    destruct (_ <=? _); [apply bendroot_sameT, sameT_consumeIndent|reflexivity]. }
  destruct (_ =? BlockQuoteKind).
  { unfold matchBlockQuote. cbv zeta. destruct (_ <=? _); [reflexivity|]. destruct (negb _); [reflexivity|]. cbn [snd].
    unfold eatQuoteMarker. cbv zeta.
    assert (E : bend (root (advance (consumeIndent p (indent p)) 1)) = bend (root p)).
    { rewrite (bendroot_sameT _ _ (sameT_advance _ _)). apply bendroot_sameT, sameT_consumeIndent. }
    destruct (0 <? _); [rewrite (bendroot_sameT _ _ (sameT_consumeIndent _ _)); exact E|exact E]. }
  destruct (_ =? FencedCodeBlockKind).
  { unfold matchFenced. cbv zeta. match goal with |- context [if ?c then (false, _) else _] => destruct c end; cbn [snd];
      [apply bendroot_sameT, sameT_consumeLine|apply bendroot_sameT, sameT_consumeIndent]. }
  destruct (_ =? IndentedCodeBlockKind).
  { unfold matchIndented. cbv zeta. destruct (_ <? _); [destruct (negb _)|]; cbn [snd]; first [reflexivity|apply bendroot_sameT, sameT_consumeIndent]. }
  destruct (_ =? HTMLBlockKind); [|reflexivity].
  unfold matchHTML. destruct (htmlEnd _ _); [|reflexivity]. destruct (isRestBlank p); [reflexivity|]. cbn [snd].
  rewrite (bendroot_sameT _ _ (sameT_consumeLine _)). apply bendroot_collectInline.
Qed.
Lemma bendroot_close p d e : bend (root (closeLastChildAt p d e)) = bend (root p).
Proof.
  rewrite closeLastChildAt_eq. cbn [root withRoot setLP]. apply bend_updAt. intros _. unfold closeF.
  destruct (lastBlock (root p)); [apply bend_set_lastBlocks|reflexivity].
Qed.
Lemma bendroot_descend_loop : forall fuel p d, bend (root (snd (descend_loop fuel p d))) = bend (root p).
Proof.
  induction fuel as [|f IH]; intros p d; [reflexivity|]. cbn [descend_loop]. cbv zeta.
  destruct (getAt (S d) (root p)) as [c|]; [|reflexivity]. destruct (negb (isOpen c)); [reflexivity|].
  destruct (negb (hasMatch _)); [reflexivity|].
  pose proof (bendroot_matchRule (withState (withCont p (Some (S d))) stDescending)) as H.
  destruct (matchRule _) as [ok p2]. cbn [snd] in H. change (root (withState (withCont p (Some (S d))) stDescending)) with (root p) in H.
  destruct (state p2 =? stDescendTerminated); [cbn [snd]; change (root (withCont ?x _)) with (root x); rewrite bendroot_close; exact H|].
  destruct (negb ok); [exact H|]. rewrite IH. exact H.
Qed.
