From Coq Require Import List ZArith Lia Bool.
Import ListNotations.
Require Import Base Tables Utf8 Tree Rdr Link Collect Html Recog Inl3a Inl3b Inl3c Inl3d Inl3e Render Safe Leaf3a Leaf3b Leaf3c Leaf3d Leaf3e Leaf3f Leaf3g.
Open Scope Z_scope.

Section L3h.
  Variable src : bytes.
  Variable U : list inline.
  Hypothesis HU : Forall (fun u => gok 1 src (ofInline u) = true) U.
  Notation InvS := (InvS src U).
  Notation InvK := (InvK src U).

  Lemma K_appendSkip st kind id k s e r kids : InvK kind st -> nid st - 1 = id -> trivKind kind = true ->
    skipKind k = true -> trivKind k = true -> InvK kind (appendKid st id (PN 0 k s e 0 r kids)).
  Proof.
    intros H <- Ht Hk Htk. unfold appendKid. apply K_upd; [assumption|assumption|].
    apply goodG_appendSkip; [destruct H as (_&_&?&_); lia|assumption|assumption].
  Qed.
  Lemma K_upd' st kind id g : InvK kind st -> nid st - 1 = id -> trivKind kind = true -> goodG (nid st - 1) kind src g ->
    InvK kind (updN st id g).
  Proof. intros H <-. apply K_upd. assumption. Qed.

  Lemma S_lfl : forall fuel st i, InvS st -> InvS (fst (lfl fuel st i)).
  Proof.
    induction fuel as [|f IH]; intros st i H; [assumption|]. cbn [lfl].
    destruct (i <? 0); [assumption|]. destruct (_ || _); [|apply IH; assumption].
    destruct (negb _); [apply S_setStk|]; assumption.
  Qed.

  Lemma S_parseDelimiterRun st pos : InvS st -> InvS (fst (parseDelimiterRun st pos)).
  Proof.
    intros H. unfold parseDelimiterRun. cbv zeta.
    match goal with |- context [addNode ?a ?b ?c ?d ?e] =>
      pose proof (S_addNode src U a b c d e H eq_refl (or_intror eq_refl)) as H1; destruct (addNode a b c d e) as [st1 id] end.
    cbn [fst] in *. apply S_setStk. assumption.
  Qed.

  Lemma S_parseBackslash st pos : InvS st -> InvS (fst (parseBackslash st pos)).
  Proof.
    intros H. unfold parseBackslash. cbv zeta.
    destruct (_ || _ || _).
    - destruct (isLastSpan st); cbn [fst]; [apply S_addText; assumption|].
      apply S_addNode; [apply S_setIgn; assumption|reflexivity|right; reflexivity].
    - destruct (isASCIIPunctuation _); cbn [fst]; apply S_addText; assumption.
  Qed.

  Ltac kchain :=
    repeat match goal with
    | |- InvK _ (if ?c then _ else _) => destruct c
    | |- InvK _ (appendKid (if ?c then _ else _) _ _) => destruct c
    | |- InvK _ (updN (if ?c then _ else _) _ _) => destruct c
    | |- InvK _ (appendKid _ _ _) => apply K_appendSkip; [|reflexivity|assumption|reflexivity|reflexivity]
    | |- InvK _ (updN _ _ _) => apply K_upd'; [|reflexivity|assumption|first [apply goodG_span|apply goodG_spanRef]]
    | |- InvK _ (advanceTo _ _) => apply K_advanceTo
    end.

  Lemma S_parseEndBracket st start : InvS st -> InvS (fst (parseEndBracket st start)).
  Proof.
    intros H. unfold parseEndBracket. cbv zeta.
    assert (H1 : InvS (fst (lookForLinkOrImage st))) by (apply S_lfl; assumption).
    destruct (lookForLinkOrImage st) as [st1 odi]. cbn [fst] in H1.
    destruct (odi <? 0). { cbn [fst]. apply S_addText. exact H1. }
    remember (if d_typ (nthD (stk st1) odi) =? tImage then ImageKind else LinkKind) as kind eqn:Ekind.
    assert (Ht : trivKind kind = true /\ skipKind kind = false) by (subst kind; destruct (_ =? tImage); split; reflexivity).
    destruct Ht as [Ht Hs].
    pose proof (K_wrap src U st1 kind (d_node (nthD (stk st1) odi)) None H1 Ht Hs) as [HK Hid].
    assert (Hfail : InvS (setStk (addText st1 start (start + 1)) (delStack (stk st1) odi (odi + 1)))).
    { apply S_setStk, S_addText. assumption. }
    match goal with |- context [match ?X with Some _ => _ | None => _ end] => destruct X as [[[[[ispan dspan] dtext] tspan] ttext]|] end.
    - destruct (wrap st1 kind _ None) as [st2 lid]. cbn [fst snd] in *. subst lid.
      apply S_finishLink, (K_back src U _ kind). kchain; assumption.
    - match goal with |- InvS (fst (match ?X with pair _ _ => _ end)) => destruct X as [lspan linner] end.
      destruct (_ && _ && _).
      + destruct (negb (matchRef _ _)); [cbn [fst]; assumption|].
        destruct (wrap st1 kind _ None) as [st2 lid]. cbn [fst snd] in *. subst lid.
        apply S_finishLink, (K_back src U _ kind). kchain; assumption.
      + destruct (spanValid lspan).
        * destruct (negb (matchRef _ _)); [cbn [fst]; assumption|].
          destruct (wrap st1 kind _ None) as [st2 lid]. cbn [fst snd] in *. subst lid.
          apply S_finishLink, (K_back src U _ kind). kchain; assumption.
        * destruct (negb (matchRef _ _)); [cbn [fst]; assumption|].
          destruct (wrap st1 kind _ None) as [st2 lid]. cbn [fst snd] in *. subst lid.
          apply S_finishLink, (K_back src U _ kind). kchain; assumption.
  Qed.
End L3h.
