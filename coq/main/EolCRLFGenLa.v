From Coq Require Import List ZArith Lia Bool.
Import ListNotations.
Require Import Base Tree Rdr Link Collect Html Recog LP Rules Starts Driver Rec16 Rec17 Rec18 L2Kind L2CC L2BndS BSDef BSRdr BSTree BSShift LADef LA1 LA2 LARec LA6 LA11 LA12 LAPad LA13 LAOcp.
Open Scope Z_scope.

(* The account invariant `la` of LADef.v threaded along one run of the stream layer, in the step-wise interface shape used
   by the two-run simulations (cf. EolCRLFSimAll.v, Section All): extracted from the proofs of LA13.SL_lineLoop etc. *)
Definition GdT (_ : bytes) : Prop := True.
Definition advS (s : bpst) : bpst := {| buf := buf s; bi := lineEnd (buf s) (bi s); boff := boff s; bline := bline s; pending := pending s |}.
Definition DTin (st : Z) (ch : list block) : Prop :=
  st = stDescendTerminated -> exists c1, getAt 1 (docRoot ch) = Some c1 /\ bend c1 < 0 /\ hasMatch (bkind c1) = true.
Definition LEl (st : Z) (ch : list block) (ls : Z) (s : bpst) : Prop :=
  0 <= ls <= len (buf s) /\ bi s = lineEnd (buf s) ls /\ ccF ch = true /\ la (upto (buf s) (bi s)) ls (docRoot ch) /\
  bnd0 (buf s) ls /\ PadF (buf s) /\ DTin st ch.
Definition SJl (s : bpst) (ch : list block) : Prop :=
  0 <= bi s <= len (buf s) /\ ccF ch = true /\ la (upto (buf s) (bi s)) (bi s) (docRoot ch) /\ bnd0 (buf s) (bi s) /\ PadF (buf s) /\ lbd (buf s) (bi s).

Lemma SJl_SL s : SJl s (pending s) <-> SL GdT s.
Proof. unfold SJl, SL, GdT. tauto. Qed.

Lemma L_step st ch ls s : LEl st ch ls s ->
  SJl s (fst (fst (processLine st ch ls (upto (buf s) (bi s))))) /\
  (makeRoot (fst (fst (processLine st ch ls (upto (buf s) (bi s))))) s = None ->
   LEl (snd (fst (processLine st ch ls (upto (buf s) (bi s))))) (fst (fst (processLine st ch ls (upto (buf s) (bi s))))) (bi s) (advS s)).
Proof.
  intros (Hls & Hbi & Hcc & Hla & Hb0 & Hpf & Hst).
  destruct (lineEnd_spec (buf s) ls Hls) as [A B]. rewrite <- Hbi in A, B.
  set (src := upto (buf s) (bi s)) in *.
  assert (Hlen : len src = bi s) by (apply len_upto; lia).
  assert (Hlbi : lbd (buf s) (bi s)).
  { destruct (Z.eq_dec (bi s) (len (buf s))) as [E|N]; [right; left; exact E|]. destruct (B ltac:(lia)) as [B1 B2]. right; right. exact B2. }
  pose proof (lbd_bnd0 _ _ Hlbi) as Hbbi.
  pose proof (la_processLine st ch ls src ltac:(lia) (OcpLoopSpec_all src)
                ltac:(unfold src; apply bnd0_upto; [lia|lia|exact Hb0|intros El; lia])
                ltac:(unfold src; rewrite Hbi; apply eolEnd_line, Hls) Hcc Hla Hst) as HP.
  pose proof (cc_processLine st ch ls src Hcc) as H3. cbv zeta in HP.
  assert (Hll : ls + len (from_ src ls) = bi s) by (rewrite len_from by lia; lia). rewrite Hll in HP.
  destruct (processLine st ch ls src) as [[ch' st'] pn]. cbn [fst snd] in *. destruct HP as [HP1 HP2].
  split; [unfold SJl; split; [lia|split; [exact H3|split; [exact HP1|split; [exact Hbbi|split; [exact Hpf|exact Hlbi]]]]]|].
  intros Em. assert (Hls' : 0 <= bi s <= len (buf s)) by lia. destruct (lineEnd_spec (buf s) (bi s) Hls') as [A' _].
  unfold LEl, advS. cbn [buf bi]. split; [exact Hls'|]. split; [reflexivity|]. split; [exact H3|]. split; [|split; [exact Hbbi|split; [exact Hpf|]]].
  - apply (la_agree src); [apply agree_upto; lia| | |exact HP1]; [intros e0 He0 Hbe0; unfold src in Hbe0; apply (bnd0_grow (buf s) (bi s)); try lia; assumption|].
    apply growOK_upto; [lia|lia|exact Hlbi|]. intros El. lia.
  - intros Est. destruct (HP2 Est) as (c1 & E1 & E2). exists c1. split; [exact E1|].
    unfold makeRoot in Em. destruct ch' as [|b rest]; [cbn in E1; discriminate|].
    destruct (isOpen b) eqn:Eo; [|discriminate]. unfold isOpen in Eo. apply Z.ltb_lt in Eo.
    apply docRoot_parts in HP1. destruct HP1 as (_ & Hch & _). cbn [tchain] in Hch. destruct Hch as (_ & _ & Hch).
    destruct (Z.ltb_spec (bend b) 0); [|lia]. destruct Hch as [_ ->]. cbn in E1. inversion E1; subst c1. split; [exact Eo|apply E2, Eo].
Qed.

Lemma L_make s ch r s1 : SJl s ch -> makeRoot ch s = Some (r, s1) -> SJl s1 (pending s1).
Proof.
  intros (Hb & Hcc & Hla & Hbb & Hpf & Hlb) Hm.
  destruct (SL_makeRoot GdT (fun _ _ _ => I) (fun _ _ _ => I) s ch r s1 Hb I Hcc Hla Hbb Hpf Hlb Hm) as [_ HS]. apply SJl_SL, HS.
Qed.

Lemma L_nil s : PadF (buf s) -> bi s = lineEnd (buf s) 0 -> LEl 0 [] 0 s.
Proof.
  intros Hpf Hb. pose proof (len_nonneg (buf s)). unfold LEl. split; [lia|]. split; [exact Hb|]. split; [reflexivity|]. split; [|split; [left; reflexivity|split; [exact Hpf|discriminate]]].
  apply docRoot_parts. split; [lia|]. split; [cbn [tchain]; split; [lia|apply NT_empty; lia]|exact I].
Qed.

Lemma L_next s : SJl s (pending s) -> makeRoot (pending s) s = None -> LEl 0 (pending s) (bi s) (advS s).
Proof.
  intros (Hb & Hcc & Hla & Hbb & Hpf & Hlb) Em. destruct (lineEnd_spec (buf s) (bi s) Hb) as [A' _].
  unfold LEl, advS. cbn [buf bi]. split; [exact Hb|]. split; [reflexivity|]. split; [exact Hcc|]. split; [|split; [exact Hbb|split; [exact Hpf|discriminate]]].
  apply (la_agree (upto (buf s) (bi s))); [apply agree_upto; lia| | |exact Hla]; [intros e0 He0 Hbe0; apply (bnd0_grow (buf s) (bi s)); try lia; assumption|].
  apply growOK_upto; [lia|lia|exact Hlb|]. intros El. lia.
Qed.

(* the state handed to skipLoop by nextBlock, and the blank-line step of skipLoop, need PadF only *)
Lemma L_init input : SJl {| buf := pad input; bi := 0; boff := 0; bline := 1; pending := [] |} [].
Proof.
  unfold SJl. cbn [buf bi]. pose proof (len_nonneg (pad input)). split; [lia|]. split; [reflexivity|].
  split; [|split; [left; reflexivity|split; [exists input; reflexivity|left; reflexivity]]].
  apply docRoot_parts. split; [lia|]. split; [cbn [tchain]; split; [lia|apply NT_empty; lia]|exact I].
Qed.
Print Assumptions L_step.
