From Coq Require Import List ZArith Lia Bool.
Import ListNotations.
Require Import Base Tree Rdr Link Collect Html Recog LP Rules Starts Driver L2Kind L2Kind2 L2CC L2Bnd L2BndS TDefs TOcp TInv TDesc TShift Total
  GramDefs Rec17 StreamFuel SliceBase SliceReparse LADef LA1 LA11 LA13 BlankPrefix ReparseLocal ReparseFirst ReparseEof ReparseInv ReparseOpen ReparseFrame
  ReparseLineB ReparseE2 ReparseLineL ReparseE2L ReparseShift ReparseDecomp ReparseSuffix.
Open Scope Z_scope.

(* T50 continuation: roots from pending children.  After a root has been cut by the (non-blank) line that follows it, the rest of
   the run is the run on the rest of the buffer started afresh: the pending children are the children that the closing line gives
   when it is processed alone, as the first line of the rest of the buffer. *)

(* ---- the line end in a suffix of the buffer ---- *)
Lemma findEol_shift : forall l i k, 0 <= i -> 0 <= k -> (findEol l i < 0 -> findEol l (i + k) < 0) /\ (0 <= findEol l i -> findEol l (i + k) = findEol l i + k).
Proof.
  induction l as [|b r IH]; intros i k Hi Hk; cbn [findEol]; [split; lia|].
  destruct ((b =? 10) || (b =? 13)); [split; lia|]. replace (i + k + 1) with (i + 1 + k) by lia. apply IH; lia.
Qed.
Lemma findEol_nonneg : forall l i, 0 <= i -> findEol l i = -1 \/ i <= findEol l i.
Proof.
  induction l as [|b r IH]; intros i Hi; cbn [findEol]; [left; reflexivity|]. destruct ((b =? 10) || (b =? 13)); [right; lia|].
  destruct (IH (i + 1) ltac:(lia)) as [E|E]; [left; exact E|right; lia].
Qed.
Lemma at_from0 (l : bytes) T q : 0 <= T -> 0 <= q -> at_ (from_ l T) q = at_ l (q + T).
Proof. intros HT Hq. rewrite <- (LA12.at_from' l T (q + T)) by lia. f_equal. lia. Qed.

Lemma lineEnd_from B T : 0 <= T <= len B -> lineEnd (from_ B T) 0 = lineEnd B T - T.
Proof.
  intros HT. unfold lineEnd. assert (E0 : from_ (from_ B T) 0 = from_ B T) by reflexivity. rewrite E0.
  assert (Hlen : len (from_ B T) = len B - T) by (apply Rec17.len_from; lia).
  destruct (findEol_shift (from_ B T) 0 T ltac:(lia) ltac:(lia)) as [F1 F2]. replace (0 + T) with T in F1, F2 by lia.
  destruct (findEol_nonneg (from_ B T) 0 ltac:(lia)) as [En|Ep].
  - assert (E1 : findEol (from_ B T) T < 0) by (apply F1; lia). rewrite En. change (-1 <? 0) with true. cbv iota.
    replace (findEol (from_ B T) T <? 0) with true by (symmetry; apply Z.ltb_lt; exact E1). lia.
  - specialize (F2 Ep). set (e := findEol (from_ B T) 0) in *. rewrite F2.
    replace (e <? 0) with false by (symmetry; apply Z.ltb_ge; lia). replace (e + T <? 0) with false by (symmetry; apply Z.ltb_ge; lia).
    rewrite (at_from0 B T e) by lia. destruct (at_ B (e + T) =? 10); [lia|].
    rewrite Hlen. replace (e + 1 <? len B - T) with (e + T + 1 <? len B) by (destruct (Z.ltb_spec (e + 1) (len B - T)); destruct (Z.ltb_spec (e + T + 1) (len B)); lia || reflexivity).
    destruct (e + T + 1 <? len B); [|lia]. rewrite (at_from0 B T (e + 1)) by lia. replace (e + 1 + T) with (e + T + 1) by lia.
    destruct (at_ B (e + T + 1) =? 10); lia.
Qed.

(* ---- shifting back ---- *)
Lemma shiftI_inv T : 0 <= T -> forall u, shiftI (- T) (shiftI T u) = u.
Proof.
  intros HT. fix IH 1. intros [k s e ind r ks]. cbn [shiftI]. f_equal; [lia| |].
  - destruct (Z.leb_spec 0 e); [replace (0 <=? e + T) with true by (symmetry; apply Z.leb_le; lia); lia|].
    replace (0 <=? e) with false by (symmetry; apply Z.leb_gt; lia). reflexivity.
  - induction ks as [|x r0 IHr]; [reflexivity|]. cbn [map]. rewrite IH, IHr. reflexivity.
Qed.
Lemma shiftB_inv T : 0 <= T -> forall b, shiftB (- T) (shiftB T b) = b.
Proof.
  intros HT. fix IH 1. intros [k s e bk ik a n ch l lb]. cbn [shiftB]. f_equal; [lia| | |].
  - destruct (Z.leb_spec 0 e); [replace (0 <=? e + T) with true by (symmetry; apply Z.leb_le; lia); lia|].
    replace (0 <=? e) with false by (symmetry; apply Z.leb_gt; lia). reflexivity.
  - induction bk as [|x r IHr]; [reflexivity|]. cbn [map]. rewrite IH, IHr. reflexivity.
  - induction ik as [|x r IHr]; [reflexivity|]. cbn [map]. rewrite (shiftI_inv T HT), IHr. reflexivity.
Qed.
Lemma map_shiftB_inv T l : 0 <= T -> map (shiftB (- T)) (map (shiftB T) l) = l.
Proof. intros HT. rewrite map_map. rewrite <- (map_id l) at 2. apply map_ext. apply shiftB_inv, HT. Qed.

(* ---- a line processed from no children never ends in stDescendTerminated ---- *)
Require Import TilLP10 TilLP11.
Lemma st3_withState p : st3 (withState p stOpening). Proof. left. left. reflexivity. Qed.
Lemma st3_tryStarts : forall fs p, Forall st3OK fs -> st3 (snd (tryStarts fs p)) \/ fs = [].
Proof.
  induction fs as [|f r IH]; intros p H; [right; reflexivity|]. left. inversion H as [|? ? Hf Hr]; subst. cbn [tryStarts]. cbv zeta.
  assert (H1 : st3 (f (withState p stOpening))) by (apply Hf, st3_withState).
  destruct (_ || _); [exact H1|]. destruct (IH (f (withState p stOpening)) Hr) as [E|E]; [exact E|subst r; exact H1].
Qed.
Lemma st3_opening_loop : forall fuel p, st3 p -> st3 (snd (opening_loop fuel p)).
Proof.
  induction fuel as [|f IH]; intros p H; [exact H|]. cbn [opening_loop]. destruct (_ || _); [|exact H].
  destruct (st3_tryStarts blockStarts p blockStarts_st3) as [H1|E]; [|discriminate].
  destruct (tryStarts blockStarts p) as [[|] p1]; cbn [snd] in *; [|exact H1]. destruct (_ =? stLineConsumed); [exact H1|apply IH, H1].
Qed.
Lemma st3_goF q : st3 q -> st3 (goF q).
Proof. intros H. unfold goF. cbv zeta. destruct (_ && _); exact H. Qed.
Lemma st3_addLineText p : st3 p -> st3 (addLineText p).
Proof.
  intros H. rewrite addLineText_eq.
  assert (H1 : st3 (alP2 p)) by (unfold alP2, alP1; destruct (isRestBlank p); exact H).
  destruct (acceptsLines _).
  - apply st3_goF. destruct (tabCond _); [|exact H1]. unfold addInd. apply st3_consumeIndent. exact H1.
  - destruct (negb _); [|exact H1]. apply st3_goF, st3_consumeIndent, st3_openBlock, H1.
Qed.
Lemma processLine_fresh_state ls src : from_ src ls <> [] -> snd (fst (processLine 0 [] ls src)) <> stDescendTerminated.
Proof.
  intros Hln. unfold processLine. cbv zeta. rewrite (descend_closed 0 [] ls src (Forall_nil _)).
  set (p0 := resetLP 0 [] ls src). change (state p0 =? stDescendTerminated) with false. cbn [negb].
  unfold openNewBlocks. change (line p0) with (from_ src ls). rewrite (len_ne0 _ Hln).
  assert (H0 : st3 p0) by (left; left; reflexivity).
  pose proof (st3_opening_loop (S (length (from_ src ls))) p0 H0) as H2.
  destruct (opening_loop (S (length (from_ src ls))) p0) as [ht p2]. cbn [snd] in H2. cbn [fst snd].
  assert (H3 : st3 (if ht then addLineText p2 else p2)) by (destruct ht; [apply st3_addLineText, H2|exact H2]).
  destruct (st3_cases _ H3) as [E|[E|E]]; rewrite E; discriminate.
Qed.

(* ---- the state after the cut ---- *)
Theorem after_lineCut B f T stp c bij rest st' rb : noNul B ->
  lastLine f 0 [] 0 B = Some (T, stp, [c]) -> 0 < lineEnd B 0 -> isBlankLine (upto B (lineEnd B 0)) = false ->
  bij = lineEnd B T -> processLine stp [c] T (upto B bij) = (rb :: rest, st', 0) -> isOpen rb = false -> bend rb = T -> 0 < T -> T < bij ->
  (bkind c = ParagraphKind -> bkind rb <> LinkReferenceDefinitionKind) ->
  let B' := from_ B T in
  lineEnd B' 0 = bij - T /\
  processLine 0 [] 0 (upto B' (lineEnd B' 0)) = (map (shiftB (- T)) rest, st', 0) /\ st' <> stDescendTerminated.
Proof.
  intros HN HL Hpos Hnb Ebij Hpl Hcl Hbe HT0 HTb Hnr. cbv zeta.
  pose proof (lastLine_inv f 0 [] 0 B T stp [c] (LInv_init B Hpos Hnb) HL) as HI.
  pose proof (lastLine_la f 0 [] 0 B T stp [c] HN (LInv_init B Hpos Hnb) (LaInv_init B) HL) as HLa.
  destruct HI as (Hls & (ns & Hbn & Hn) & Hcc & Hgb & HG & HK & Hst & Hemp & Hz & Hopn).
  pose proof (Hopn c eq_refl) as Hop.
  set (src := upto B bij) in *.
  assert (Hbb : T <= bij <= len B) by (rewrite Ebij; apply (lineEnd_spec B T Hls)).
  assert (Hlsrc : len src = bij) by (apply len_upto; lia).
  assert (Hln : from_ src T <> []).
  { intros E0. pose proof (Rec17.len_from src T ltac:(lia)) as X. rewrite E0 in X. cbn in X. lia. }
  set (L := ReparseLineB.L src T c).
  assert (HU : UB T false [c]) by (apply (UB_of_bnd T ns [c]); [lia|exact Hbn]).
  assert (HOUT : OUT 0 T T L).
  { unfold L, ReparseLineB.L. destruct (bheight_S (root0 [c])) as [h ->].
    apply closeBlock_OUT; [exact Hop| |lia|lia|lia|].
    - cbn [GoodL] in HG. rewrite Hop in HG. apply HG.
    - intros Ek. change [c] with ([] ++ [c]) in HU. apply UB_snoc in HU. destruct HU as [_ [_ HU]]. apply HU; assumption. }
  destruct HOUT as (Lcl & LG & HOUT3).
  assert (Hmatch : stp = stDescendTerminated -> hasMatch (bkind c) = true).
  { intros E0. destruct (Hst E0) as (pre & c0 & Ec & _ & Hh). destruct pre as [|? pre]; [|destruct pre; discriminate]. inversion Ec; subst. exact Hh. }
  assert (Hla : la src T c).
  { unfold LaInv in HLa. rewrite <- Ebij in HLa. fold src in HLa. apply la_eq in HLa. destruct HLa as (_ & _ & _ & _ & Hk). cbn [bkids docRoot allQ] in Hk. apply Hk. }
  destruct (line_decomp src T c stp Hop Hcc Hgb ltac:(lia) Hln Lcl Hmatch) as (L1 & L1cl & EL1 & HD).
  { intros Ek h rest0 Eh. rewrite Hpl in Eh. cbn [fst] in Eh. inversion Eh; subst. apply Hnr, Ek. }
  { apply (la_noSx src T c Hla). }
  { rewrite Hpl. exists rb, rest. repeat split; assumption. }
  fold L in EL1. rewrite Hpl in HD. inversion HD as [[Ek Es Ep]]. clear HD.
  set (K0 := fst (fst (processLine 0 [] 0 (from_ src T)))) in *.
  assert (Lne : L <> []) by apply StreamFuel.closeBlock_nonempty.
  (* L, hence L1, is a single block *)
  assert (Hrest : rest = map (shiftB T) K0).
  { destruct L as [|y0 Lr] eqn:EL; [contradiction|]. destruct Lr as [|y1 Lr'].
    - destruct (map_clr_single L1 y0 EL1) as (z0 & -> & _). cbn [app] in Ek. inversion Ek. reflexivity.
    - exfalso. destruct L1 as [|z0 [|z1 L1r]]; try discriminate. cbn [map] in EL1. inversion EL1 as [[Ez0 Ez1 Ezr]].
      cbn [app] in Ek. inversion Ek as [[Ehd Etl]].
      assert (Eb0 : bend y0 = T) by (rewrite <- Hbe, Ehd, <- (bend_clr z0), Ez0; symmetry; apply bend_clr).
      pose proof (GoodL_hd_last 0 (y0 :: y1 :: Lr') y0 (y1 :: Lr') LG Lcl eq_refl ltac:(discriminate)) as Hlt.
      destruct HOUT3 as (pre1 & x1 & Ex & Hpre & Hx).
      assert (Hx1 : In x1 (y1 :: Lr')).
      { destruct pre1 as [|p1 pre1]; [inversion Ex|]. cbn [app] in Ex. inversion Ex as [[E0 E1]]. rewrite E1. apply in_or_app. right. left. reflexivity. }
      specialize (Hlt x1 Hx1). rewrite Eb0 in Hlt. destruct Hx as [Hx|Hx]; lia. }
  (* the closing line as the first line of the rest of the buffer *)
  assert (Ele : lineEnd (from_ B T) 0 = bij - T) by (rewrite Ebij; apply lineEnd_from; exact Hls).
  assert (Esrc : from_ src T = upto (from_ B T) (bij - T)) by (unfold src; apply LA13.from_upto; lia).
  split; [exact Ele|]. rewrite Ele, <- Esrc. split.
  - rewrite Hrest, (map_shiftB_inv T K0 ltac:(lia)). unfold K0.
    destruct (processLine 0 [] 0 (from_ src T)) as [[k0 s0] p0]. cbn [fst snd] in *. subst. reflexivity.
  - apply processLine_fresh_state. exact Hln.
Qed.
Print Assumptions after_lineCut.

(* ---- at the level of the calls of nextBlock ---- *)
Require Import ReparseRun TLine2.

Theorem roots_after_lineCut_partial s r s' : noNul (buf s) -> pending s = [] ->
  nextBlock (3 + length (buf s)) s = NBBlock r s' ->
  exists B T stp chp bij rest st',
    suffixOf B (buf s) /\ processLine stp chp T (upto B bij) = (rb_blk r :: rest, st', 0) /\ bij = lineEnd B T /\
    (bend (rb_blk r) = T -> 0 < T -> T < bij ->
     forall c, chp = [c] -> (bkind c = ParagraphKind -> bkind (rb_blk r) <> LinkReferenceDefinitionKind) ->
       isBlankLine (upto (from_ B T) (bij - T)) = false ->
       buf s' = from_ B T /\ pending s' = fst (fst (processLine 0 [] 0 (upto (from_ B T) (lineEnd (from_ B T) 0)))) /\
       forall f acc, allBlocks f s' acc =
                     allBlocks f {| buf := from_ B T; bi := 0; boff := boff s'; bline := bline s'; pending := [] |} acc).
Proof.
  intros HN Hp En. unfold nextBlock in En. rewrite Hp in En. cbn [makeRoot] in En.
  match type of En with skipLoop ?F ?S1 = _ => destruct (skipLoop_cut F S1 r s' eq_refl En) as (B & f' & bo & bl & (k & EB) & H1 & H2 & H3) end.
  cbn [buf pending] in *.
  assert (HNB : noNul B) by (rewrite EB; apply noNul_from, noNul_from, HN).
  set (sB := {| buf := B; bi := lineEnd B 0; boff := bo; bline := bl; pending := [] |}) in *.
  apply (lineLoop_cutOf f' 0 [] 0 sB r s' eq_refl) in H3. destruct H3 as (b & rest & bij & st' & Hcut & Er).
  destruct (lastLine_cutOf _ _ _ _ _ _ _ _ _ Hcut) as (T & stp & chp & HL & Ebij & Hpl).
  unfold rootAt in Er. cbn [buf boff bline sB] in Er. inversion Er as [[E1 E2]].
  exists B, T, stp, chp, bij, rest, st'. cbn [rb_blk].
  split; [rewrite EB; apply suffix_from; eexists; reflexivity|]. split; [exact Hpl|]. split; [exact Ebij|].
  intros HbT HT0 HTb c Ec Hnr Hnbl. subst chp. cbn [buf pending boff bline].
  pose proof (cutOf_bounds f' 0 [] 0 B b rest bij st' ltac:(pose proof (len_nonneg B); lia) Hcut) as [_ Hclb].
  destruct (after_lineCut B f' T stp c bij rest st' b HNB HL H1 H2 Ebij Hpl Hclb HbT HT0 HTb Hnr) as (Ele & Epl & Hst').
  rewrite HbT. split; [reflexivity|]. split; [rewrite Epl; reflexivity|].
  set (B' := from_ B T) in *. set (K0 := map (shiftB (- T)) rest) in *.
  assert (HK0 : K0 <> []).
  { pose proof (processLine_good 0 [] 0 (upto B' (lineEnd B' 0)) ltac:(lia) Logic.I (UB_nil 0 false) eq_refl (or_introl eq_refl) ltac:(discriminate)) as HG.
    cbv zeta in HG. rewrite Epl in HG. cbn [fst snd] in HG. apply HG. intros _. split; [|left; reflexivity].
    unfold from_. cbn [Z.to_nat skipn]. rewrite Ele. exact Hnbl. }
  assert (He1 : 0 < lineEnd B' 0) by (rewrite Ele; lia).
  assert (Hnb' : isBlankLine (upto B' (lineEnd B' 0)) = false) by (rewrite Ele; exact Hnbl).
  pose proof (suffix_nextBlock B' (bo + unpadded (upto B T)) (bl + lineCount (upto B T)) K0 st' He1 Hnb' Epl Hst' HK0) as HS.
  rewrite Ele in HS.
  intros f acc. destruct f as [|f]; [reflexivity|]. cbn [allBlocks]. cbn [buf]. fold B'. rewrite HS. reflexivity.
Qed.
Print Assumptions roots_after_lineCut_partial.
