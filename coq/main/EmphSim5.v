(* EmphSim5.v -- layer (c)/(d) of C11, part 5: the simulation.  One step of the model's processEmphasis (without bounds) and one
   step of Emph.step false 0 preserve the invariant Inv that ties the model state (forest + stack) to the abstract state
   (delimiter list + events) and to the node list obtained by replaying the events (applyEv). *)
From Coq Require Import List ZArith Lia Bool.
Import ListNotations.
Require Import Base Tree Inl3a Inl3d PE PEProof GI0 EmphTree EmphSpec EmphTok EmphSim1 EmphSim2 EmphSim4.
Require Emph EmphProof EmphSim3.
Open Scope Z_scope.

Lemma leb_nat_Z a : (2 <=? Z.of_nat a) = (2 <=? a)%nat.
Proof. destruct (Z.leb_spec 2 (Z.of_nat a)), (Nat.leb_spec 2 a); try reflexivity; lia. Qed.
Lemma eqb0_nat_Z a k : (k <= a)%nat -> (Z.of_nat a - Z.of_nat k =? 0) = (a - k =? 0)%nat.
Proof. intros H. destruct (Z.eqb_spec (Z.of_nat a - Z.of_nat k) 0), (Nat.eqb_spec (a - k) 0); try reflexivity; lia. Qed.

(* pe_match_gen with the lengths of the two text nodes given as natural numbers *)
Lemma pe_match_nat st (Sa : list delim) So Sm Sc Sd A M D ido so (n_o : nat) idc sc (n_c : nat) :
  stk st = Sa ++ So :: Sm ++ Sc :: Sd ->
  rk st = A ++ textPN ido so (so + Z.of_nat n_o) :: M ++ textPN idc sc (sc + Z.of_nat n_c) :: D ->
  d_node So = ido -> d_node Sc = idc ->
  NoDup (allIds (rk st)) -> ~ In (nid st) (allIds (rk st)) ->
  0 <= so -> 0 <= sc -> (1 <= n_o)%nat -> (1 <= n_c)%nat ->
  let strong := ((2 <=? n_o) && (2 <=? n_c))%nat in
  let k := (if strong then 2 else 1)%nat in
  let dropo := (n_o - k =? 0)%nat in let dropc := (n_c - k =? 0)%nat in
  let E := PN (nid st) (if strong then StrongKind else EmphasisKind) (so + Z.of_nat (n_o - k)) (sc + Z.of_nat k) 0 [] M in
  exists st', pe_match st (len Sa) (len Sa + 1 + len Sm) = (st', len Sa + (if dropo then 0 else 1)) /\
    rk st' = A ++ (if dropo then [] else [textPN ido so (so + Z.of_nat (n_o - k))]) ++
             E :: (if dropc then [] else [textPN idc (sc + Z.of_nat k) (sc + Z.of_nat k + Z.of_nat (n_c - k))]) ++ D /\
    stk st' = Sa ++ (if dropo then [] else [So]) ++ (if dropc then [] else [Sc]) ++ Sd /\
    nid st' = nid st + 1 /\ isrc st' = isrc st.
Proof.
  intros Hstk Hrk Hdo Hdc Hnd Hfr Hso Hsc Hno Hnc strong k dropo dropc E.
  pose proof (pe_match_gen st Sa So Sm Sc Sd A M D ido so (so + Z.of_nat n_o) idc sc (sc + Z.of_nat n_c)
                Hstk Hrk Hdo Hdc Hnd Hfr ltac:(lia) ltac:(lia)) as H.
  cbv zeta in H.
  replace (so + Z.of_nat n_o - so) with (Z.of_nat n_o) in H by lia.
  replace (sc + Z.of_nat n_c - sc) with (Z.of_nat n_c) in H by lia.
  rewrite !leb_nat_Z in H. fold strong in H.
  assert (Ek : (if strong then 2 else 1) = Z.of_nat k) by (unfold k; destruct strong; reflexivity).
  rewrite Ek in H.
  assert (Hk : (1 <= k <= n_o /\ k <= n_c)%nat).
  { unfold k, strong. destruct (Nat.leb_spec 2 n_o), (Nat.leb_spec 2 n_c); cbn [andb]; lia. }
  rewrite (eqb0_nat_Z n_o k) in H by lia. rewrite (eqb0_nat_Z n_c k) in H by lia. fold dropo dropc in H.
  replace (so + Z.of_nat n_o - Z.of_nat k) with (so + Z.of_nat (n_o - k)) in H by lia.
  replace (sc + Z.of_nat n_c) with (sc + Z.of_nat k + Z.of_nat (n_c - k)) in H by lia.
  exact H.
Qed.

(* ---------------------------------------------------------------------------------------------- *)
(* the invariant                                                                                   *)
(* ---------------------------------------------------------------------------------------------- *)
Record Inv (F0 : list enode) (st : ist) (a : Emph.state) (R : list item * list pn) : Prop := {
  I_stk : stk st = map conc (Emph.st a);
  I_st : Emph.st a = map dl (fst R);
  I_rk : rk st = full R;
  I_ok : Forall itOK (fst R);
  I_ids : idsOK (nid st) (allIds (rk st));
  I_nid : 1 <= nid st;
  I_abs : map absN (rk st) = fold_left applyEv (Emph.evs a) F0;
  I_wf : forallb wfn (rk st) = true;
  I_cp : (Emph.cp a <= length (Emph.st a))%nat }.

Lemma conc_dec k d : conc (Emph.dec k d) = conc d. Proof. reflexivity. Qed.
Lemma map_if {A B} (f : A -> B) (c : bool) (x : A) : map f (if c then [] else [x]) = if c then [] else [f x].
Proof. destruct c; reflexivity. Qed.
Lemma allIds_if (c : bool) id s e : allIds (if c then [] else [textPN id s e]) = if c then [] else [id].
Proof. destruct c; reflexivity. Qed.
Lemma forallb_if_text (c : bool) id s e : forallb wfn (if c then [] else [textPN id s e]) = true.
Proof. destruct c; reflexivity. Qed.
Lemma len_map_conc D : len (map conc D) = Z.of_nat (length D).
Proof. unfold len. rewrite map_length. reflexivity. Qed.
Lemma idsOK_top b l x : idsOK b (allIds l) -> In x (ids l) -> 1 <= x < b.
Proof. intros [_ Hf] Hi. rewrite Forall_forall in Hf. apply Hf. apply ids_sub_allIds. exact Hi. Qed.

Lemma sim_match F0 st a I1 io I2 ic I3 ge :
  Inv F0 st a (I1 ++ io :: I2 ++ ic :: I3, ge) ->
  let oi := length I1 in let c' := (length I1 + 1 + length I2)%nat in
  Emph.next_closer (Emph.st a) (Emph.cp a) (length (Emph.st a) - Emph.cp a) = Some c' ->
  Emph.find_down (Emph.st a) (dl ic) 0 c' = Some oi ->
  exists a' st' R', Emph.step false 0 a = Some a' /\
    pe_match st (Z.of_nat oi) (Z.of_nat c') = (st', Z.of_nat (Emph.cp a')) /\
    Inv F0 st' a' R' /\ (EmphSim3.mu a' < EmphSim3.mu a)%nat /\ isrc st' = isrc st.
Proof.
  intros HI oi c' Hnc Hfd. destruct HI as [Hstk Hst Hrk Hok Hids Hnid Habs Hwf Hcp]. cbn [fst snd] in *.
  set (o := dl io) in *. set (c := dl ic) in *.
  set (Da := map dl I1). set (Dm := map dl I2). set (Dd := map dl I3).
  assert (Hst' : Emph.st a = Da ++ o :: Dm ++ c :: Dd).
  { rewrite Hst, map_app. cbn [map]. rewrite map_app. reflexivity. }
  assert (LDa : length Da = oi) by (unfold Da; apply map_length).
  assert (LDm : length Dm = length I2) by (unfold Dm; apply map_length).
  apply Forall_app in Hok. destruct Hok as [Hok1 Hok]. inversion Hok as [|? ? Hoko Hok']; subst.
  apply Forall_app in Hok'. destruct Hok' as [Hok2 Hok']. inversion Hok' as [|? ? Hokc Hok3]; subst.
  destruct Hoko as [Hso Hno]. destruct Hokc as [Hsc Hncur]. fold o in Hno. fold c in Hncur.
  (* the abstract step *)
  destruct (EmphSim3.step_match_gen a Da o Dm c Dd Hst') as (a' & Hstep & Hsta' & Hcpa' & Hevs').
  { rewrite LDa, LDm. exact Hnc. }
  { rewrite LDa, LDm, Nat.sub_0_r. exact Hfd. }
  { exact Hno. } { exact Hncur. }
  cbv zeta in Hsta', Hcpa', Hevs'.
  set (strong := ((2 <=? Emph.dcur o) && (2 <=? Emph.dcur c))%nat) in *.
  set (k := (if strong then 2 else 1)%nat) in *.
  set (dropo := (Emph.dcur o - k =? 0)%nat) in *. set (dropc := (Emph.dcur c - k =? 0)%nat) in *.
  (* the model step *)
  set (A := wv I1 ++ gap io). set (M := wv I2 ++ gap ic). set (D' := wv I3 ++ ge).
  set (ido := Z.of_nat (Emph.did o) + 1). set (idc := Z.of_nat (Emph.did c) + 1).
  assert (Hrk' : rk st = A ++ textPN ido (ns io) (ns io + Z.of_nat (Emph.dcur o)) :: M ++ textPN idc (ns ic) (ns ic + Z.of_nat (Emph.dcur c)) :: D').
  { rewrite Hrk. unfold full. cbn [fst snd]. rewrite wv_app, wv_cons, wv_app, wv_cons. unfold A, M, D'.
    repeat (rewrite <- app_assoc || rewrite <- app_comm_cons). reflexivity. }
  assert (Hstk' : stk st = map conc Da ++ conc o :: map conc Dm ++ conc c :: map conc Dd).
  { rewrite Hstk, Hst', map_app. cbn [map]. rewrite map_app. reflexivity. }
  destruct Hids as [Hnd Hbd].
  assert (Hfresh : ~ In (nid st) (allIds (rk st))).
  { intros Hi. rewrite Forall_forall in Hbd. apply Hbd in Hi. lia. }
  destruct (pe_match_nat st (map conc Da) (conc o) (map conc Dm) (conc c) (map conc Dd) A M D' ido (ns io) (Emph.dcur o) idc (ns ic) (Emph.dcur c)
              Hstk' Hrk' eq_refl eq_refl Hnd Hfresh Hso Hsc Hno Hncur) as (st' & Hpm & Hrk1 & Hstk1 & Hnid1 & Hsrc1).
  cbv zeta in Hpm, Hrk1, Hstk1. fold strong in Hpm, Hrk1, Hstk1. fold k in Hpm, Hrk1, Hstk1. fold dropo dropc in Hpm, Hrk1, Hstk1.
  rewrite !len_map_conc, LDa, LDm in Hpm.
  assert (Hk : (1 <= k <= Emph.dcur o /\ k <= Emph.dcur c)%nat).
  { unfold k, strong. destruct (Nat.leb_spec 2 (Emph.dcur o)), (Nat.leb_spec 2 (Emph.dcur c)); cbn [andb]; lia. }
  set (kind := if strong then StrongKind else EmphasisKind) in *.
  set (E := PN (nid st) kind (ns io + Z.of_nat (Emph.dcur o - k)) (ns ic + Z.of_nat k) 0 [] M) in *.
  (* the new joint view *)
  set (Rc := consOpt [E] dropc (Emph.dec k c) (ns ic + Z.of_nat k) (I3, ge)).
  set (Ro := consOpt (gap io) dropo (Emph.dec k o) (ns io) Rc).
  exists a', st', (I1 ++ fst Ro, snd Ro).
  split; [exact Hstep|]. split.
  { replace (Z.of_nat c') with (Z.of_nat oi + 1 + Z.of_nat (length I2)) by (unfold c', oi; lia).
    rewrite Hpm. f_equal. rewrite Hcpa', LDa. destruct dropo; lia. }
  split; [|split; [|exact Hsrc1]].
  - constructor; cbn [fst snd].
    + (* stack *) rewrite Hstk1, Hsta', !map_app, !map_if. rewrite !conc_dec. reflexivity.
    + (* abstract stack *) rewrite Hsta', map_app. unfold Ro. rewrite dl_consOpt. unfold Rc. rewrite dl_consOpt. cbn [fst]. reflexivity.
    + (* forest *) rewrite Hrk1, full_app_l. unfold Ro. rewrite full_consOpt. unfold Rc. rewrite full_consOpt. unfold full. cbn [fst snd].
      unfold A, D'. cbn [Emph.did Emph.dcur Emph.dec]. fold ido idc. rewrite <- !app_assoc. reflexivity.
    + (* items *) apply Forall_app. split; [exact Hok1|]. unfold Ro. apply ok_consOpt.
      * unfold Rc. apply ok_consOpt; [exact Hok3|]. intros Hd. unfold dropc in Hd. apply Nat.eqb_neq in Hd. cbn [Emph.dcur Emph.dec]. lia.
      * intros Hd. unfold dropo in Hd. apply Nat.eqb_neq in Hd. cbn [Emph.dcur Emph.dec]. lia.
    + (* identities *) rewrite Hnid1, Hrk1. rewrite !allIds_app, allIds_if. unfold E at 1. rewrite allIds_cons. cbn [pid pkids].
      rewrite allIds_app, allIds_if.
      apply idsOK_match; [exact Hnid|]. split.
      * rewrite Hrk', allIds_app, allIds_text, allIds_app, allIds_text in Hnd. exact Hnd.
      * rewrite Hrk', allIds_app, allIds_text, allIds_app, allIds_text in Hbd. exact Hbd.
    + lia.
    + (* replay *) rewrite Hevs', fold_left_app. cbn [fold_left]. rewrite <- Habs.
      rewrite Hrk', Hrk1. rewrite !map_app. cbn [map]. rewrite !map_app. cbn [map]. rewrite !absN_text, !map_if, !absN_text.
      replace (Z.to_nat (ido - 1)) with (Emph.did o) by (unfold ido; lia).
      replace (Z.to_nat (idc - 1)) with (Emph.did c) by (unfold idc; lia).
      rewrite applyEv_at.
      * cbv zeta. unfold E. cbn [absN]. unfold kind.
        replace ((if strong then StrongKind else EmphasisKind) =? TextKind) with false by (destruct strong; reflexivity).
        replace ((if strong then StrongKind else EmphasisKind) =? StrongKind) with strong by (destruct strong; reflexivity).
        replace (if strong then 2 else 1) with (Z.of_nat k) by (unfold k; destruct strong; reflexivity).
        replace (ns io + Z.of_nat (Emph.dcur o) - Z.of_nat k) with (ns io + Z.of_nat (Emph.dcur o - k)) by lia.
        replace (ns io + Z.of_nat (Emph.dcur o - k) =? ns io) with dropo
          by (unfold dropo; destruct (Z.eqb_spec (ns io + Z.of_nat (Emph.dcur o - k)) (ns io)), (Nat.eqb_spec (Emph.dcur o - k) 0); try reflexivity; lia).
        replace (ns ic + Z.of_nat k =? ns ic + Z.of_nat (Emph.dcur c)) with dropc
          by (unfold dropc; destruct (Z.eqb_spec (ns ic + Z.of_nat k) (ns ic + Z.of_nat (Emph.dcur c))), (Nat.eqb_spec (Emph.dcur c - k) 0); try reflexivity; lia).
        replace (ns ic + Z.of_nat k + Z.of_nat (Emph.dcur c - k)) with (ns ic + Z.of_nat (Emph.dcur c)) by lia.
        reflexivity.
      * apply noTag_abs. intros x Hx. split.
        -- apply (idsOK_top (nid st) (rk st) x (conj Hnd Hbd)). rewrite Hrk', ids_app. apply in_or_app. left. exact Hx.
        -- intros Ex. subst x. fold ido in Hx. rewrite Hrk', allIds_app, allIds_text in Hnd.
           destruct (NoDup_mid_notin _ _ _ Hnd) as [Hn1 _]. apply Hn1. apply ids_sub_allIds. exact Hx.
      * apply noTag_abs. intros x Hx. split.
        -- apply (idsOK_top (nid st) (rk st) x (conj Hnd Hbd)). rewrite Hrk', ids_app. apply in_or_app. right. right.
           rewrite ids_app. apply in_or_app. left. exact Hx.
        -- intros Ex. subst x. fold idc in Hx. rewrite Hrk', allIds_app, allIds_text, allIds_app, allIds_text in Hnd.
           apply NoDup_app_r in Hnd. apply NoDup_cons_iff in Hnd. destruct Hnd as [_ Hnd].
           destruct (NoDup_mid_notin _ _ _ Hnd) as [Hn1 _]. apply Hn1. apply ids_sub_allIds. exact Hx.
    + (* well-formed nodes *) rewrite Hrk' in Hwf. rewrite !forallb_app in Hwf. cbn [forallb] in Hwf. rewrite !forallb_app in Hwf. cbn [forallb] in Hwf.
      apply andb_true_iff in Hwf. destruct Hwf as [HwA Hwf]. apply andb_true_iff in Hwf. destruct Hwf as [_ Hwf].
      apply andb_true_iff in Hwf. destruct Hwf as [HwM Hwf]. apply andb_true_iff in Hwf. destruct Hwf as [_ HwD].
      rewrite Hrk1. rewrite !forallb_app. cbn [forallb]. rewrite !forallb_app. rewrite HwA, HwD, !forallb_if_text.
      unfold E. cbn [wfn]. rewrite HwM. unfold kind. destruct strong; reflexivity.
    + (* cp *) rewrite Hcpa', Hsta', !app_length. destruct dropo; cbn [length]; lia.
  - (* measure *) unfold EmphSim3.mu. rewrite Hcpa', Hsta', Hst'. rewrite !app_length, !EmphSim3.sumcur_app. cbn [length].
    rewrite !app_length, EmphSim3.sumcur_cons, EmphSim3.sumcur_app. cbn [length]. rewrite EmphSim3.sumcur_cons.
    apply EmphProof.next_closer_spec in Hnc. destruct Hnc as [Hc1 _].
    destruct dropo, dropc; cbn [length app EmphSim3.sumcur fold_right Emph.dcur Emph.dec]; unfold c' in Hc1; lia.
Qed.

Lemma sim_nomatch F0 st a I1 ic I3 ge :
  Inv F0 st a (I1 ++ ic :: I3, ge) ->
  let c' := length I1 in
  Emph.next_closer (Emph.st a) (Emph.cp a) (length (Emph.st a) - Emph.cp a) = Some c' ->
  Emph.find_down (Emph.st a) (dl ic) 0 c' = None ->
  exists a' st' R', Emph.step false 0 a = Some a' /\
    (if negb (Emph.dopen (dl ic)) then (setStk st (delStack (stk st) (Z.of_nat c') (Z.of_nat c' + 1)), Z.of_nat c')
     else (st, Z.of_nat c' + 1)) = (st', Z.of_nat (Emph.cp a')) /\
    Inv F0 st' a' R' /\ (EmphSim3.mu a' < EmphSim3.mu a)%nat /\ isrc st' = isrc st.
Proof.
  intros HI c' Hnc Hfd. destruct HI as [Hstk Hst Hrk Hok Hids Hnid Habs Hwf Hcp]. cbn [fst snd] in *.
  set (c := dl ic) in *. set (Da := map dl I1). set (Dd := map dl I3).
  assert (Hst' : Emph.st a = Da ++ c :: Dd) by (rewrite Hst, map_app; reflexivity).
  assert (LDa : length Da = c') by (unfold Da; apply map_length).
  destruct (EmphSim3.step_nomatch_gen a Da c Dd Hst') as (a' & Hstep & Hsta' & Hcpa' & Hevs').
  { rewrite LDa. exact Hnc. }
  { rewrite LDa, Nat.sub_0_r. exact Hfd. }
  pose proof (EmphProof.next_closer_spec _ _ _ _ Hnc) as [Hc1 _].
  destruct (Emph.dopen c) eqn:Eop; cbn [negb].
  - (* the closer can also open: it stays, the search moves on *)
    exists a', st, (I1 ++ ic :: I3, ge). split; [exact Hstep|]. split; [rewrite Hcpa', LDa; f_equal; lia|].
    split; [|split; [|reflexivity]].
    + constructor; cbn [fst snd]; try assumption.
      * rewrite Hsta'. rewrite <- Hst'. exact Hstk.
      * rewrite Hsta'. rewrite <- Hst'. exact Hst.
      * rewrite Hevs'. exact Habs.
      * rewrite Hcpa', Hsta', LDa, app_length. cbn [length]. lia.
    + unfold EmphSim3.mu. rewrite Hcpa', Hsta', LDa. rewrite Hst' in Hc1 |- *. rewrite app_length in *. cbn [length] in *. lia.
  - (* the closer cannot open: it leaves the stack, its text node stays *)
    set (R' := pushGap (gap ic ++ [nodeIt ic]) (I3, ge)).
    exists a', (setStk st (delStack (stk st) (Z.of_nat c') (Z.of_nat c' + 1))), (I1 ++ fst R', snd R').
    split; [exact Hstep|]. split; [rewrite Hcpa', LDa; reflexivity|].
    apply Forall_app in Hok. destruct Hok as [Hok1 Hok]. inversion Hok as [|? ? Hokc Hok3]; subst.
    split; [|split; [|reflexivity]].
    + constructor; cbn [fst snd stk rk nid setStk]; try assumption.
      * rewrite Hsta', Hstk, Hst', !map_app. cbn [map].
        replace (Z.of_nat c') with (len (map conc Da)) by (rewrite len_map_conc, LDa; reflexivity). apply delStack_1.
      * rewrite Hsta', map_app. unfold R'. rewrite dl_pushGap. reflexivity.
      * rewrite Hrk, full_app_l. unfold R'. rewrite full_pushGap. unfold full. cbn [fst snd]. rewrite wv_app, wv_cons.
        repeat (rewrite <- app_assoc || rewrite <- app_comm_cons). reflexivity.
      * apply Forall_app. split; [exact Hok1|]. unfold R'. apply ok_pushGap. exact Hok3.
      * rewrite Hevs'. exact Habs.
      * rewrite Hcpa', Hsta', LDa, app_length. lia.
    + unfold EmphSim3.mu. rewrite Hcpa', Hsta', LDa. rewrite Hst' in Hc1 |- *. rewrite !app_length, !EmphSim3.sumcur_app in *.
      cbn [length] in *. rewrite EmphSim3.sumcur_cons. lia.
Qed.

Theorem step_sim F0 st a R : Inv F0 st a R ->
  match Emph.step false 0 a with
  | None => pe_stepY 0 st (Z.of_nat (Emph.cp a)) = None
  | Some a' => exists st' R', pe_stepY 0 st (Z.of_nat (Emph.cp a)) = Some (st', Z.of_nat (Emph.cp a')) /\
                 Inv F0 st' a' R' /\ (EmphSim3.mu a' < EmphSim3.mu a)%nat /\ isrc st' = isrc st
  end.
Proof.
  intros HI. pose proof HI as [Hstk Hst Hrk Hok Hids Hnid Habs Hwf Hcp].
  set (D := Emph.st a) in *. set (cpn := Emph.cp a) in *.
  assert (E1 : pe_findCloser (S (length (stk st))) (stk st) (Z.of_nat cpn) = optZ (Emph.next_closer D cpn (length D - cpn))).
  { rewrite Hstk, map_length. apply closer_sim; lia. }
  destruct (Emph.next_closer D cpn (length D - cpn)) as [c'|] eqn:Enc.
  - pose proof (EmphProof.next_closer_spec _ _ _ _ Enc) as [Hc1 Hclos].
    assert (Hc'L : (c' < length D)%nat) by lia.
    assert (E2 : nthD (stk st) (Z.of_nat c') = conc (nth c' D Emph.dflt)) by (rewrite Hstk; apply nthD_map_conc; exact Hc'L).
    assert (E3 : pe_findOpener (S (length (stk st))) (stk st) (Z.of_nat c' - 1) 0 (conc (nth c' D Emph.dflt)) =
                 optZ (Emph.find_down D (nth c' D Emph.dflt) 0 c')).
    { rewrite Hstk, map_length. apply opener_sim; lia. }
    destruct (Emph.find_down D (nth c' D Emph.dflt) 0 c') as [oi|] eqn:Efd.
    + (* a match *)
      apply EmphProof.find_down_some in Efd. destruct Efd as (Hoi & Hm & Hmax).
      assert (HLR : length (fst R) = length D) by (rewrite Hst, map_length; reflexivity).
      destruct (split2_nat (fst R) oi c' ltac:(lia) ltac:(lia)) as (I1 & io & I2 & ic & I3 & ER & L1 & L2).
      destruct R as [its ge]. cbn [fst snd] in *. subst its.
      assert (Ec : nth c' D Emph.dflt = dl ic).
      { rewrite Hst. rewrite map_app. cbn [map]. rewrite map_app. cbn [map].
        replace (map dl I1 ++ dl io :: map dl I2 ++ dl ic :: map dl I3) with ((map dl I1 ++ dl io :: map dl I2) ++ dl ic :: map dl I3)
          by (rewrite <- app_assoc; reflexivity).
        replace c' with (length (map dl I1 ++ dl io :: map dl I2)) by (rewrite app_length; cbn [length]; rewrite !map_length; lia).
        apply nth_middle. }
      assert (Ec' : c' = (length I1 + 1 + length I2)%nat) by lia.
      destruct (sim_match F0 st a I1 io I2 ic I3 ge HI) as (a' & st' & R' & Hstep & Hpm & HI' & Hmu & Hsrc).
      { rewrite <- Ec'. exact Enc. }
      { rewrite <- Ec', <- Ec, L1. apply EmphProof.find_down_some. split; [exact Hoi|split; [exact Hm|exact Hmax]]. }
      rewrite Hstep. exists st', R'. split; [|split; [exact HI'|split; [exact Hmu|exact Hsrc]]].
      unfold pe_stepY. cbv zeta. rewrite E1. cbn [optZ]. destruct (Z.ltb_spec (Z.of_nat c') 0); [lia|].
      rewrite E2, E3. cbn [optZ]. destruct (Z.leb_spec 0 (Z.of_nat oi)); [|lia].
      rewrite <- L1, Ec'. rewrite Hpm. reflexivity.
    + (* no opener for this closer *)
      assert (HLR : length (fst R) = length D) by (rewrite Hst, map_length; reflexivity).
      destruct (split1_nat (fst R) c' ltac:(lia)) as (I1 & ic & I3 & ER & L1).
      destruct R as [its ge]. cbn [fst snd] in *. subst its.
      assert (Ec : nth c' D Emph.dflt = dl ic).
      { rewrite Hst. rewrite map_app. cbn [map]. replace c' with (length (map dl I1)) by (rewrite map_length; exact L1). apply nth_middle. }
      destruct (sim_nomatch F0 st a I1 ic I3 ge HI) as (a' & st' & R' & Hstep & Hpm & HI' & Hmu & Hsrc).
      { rewrite L1. exact Enc. }
      { rewrite L1, <- Ec. exact Efd. }
      rewrite Hstep. exists st', R'. split; [|split; [exact HI'|split; [exact Hmu|exact Hsrc]]].
      unfold pe_stepY. cbv zeta. rewrite E1. cbn [optZ]. destruct (Z.ltb_spec (Z.of_nat c') 0); [lia|].
      rewrite E2, E3. cbn [optZ]. destruct (Z.leb_spec 0 (-1)); [lia|].
      rewrite Ec, hasFlag_conc_open. rewrite L1 in Hpm. 
      destruct (negb (Emph.dopen (dl ic))); rewrite Hpm; reflexivity.
  - (* no closer left *)
    assert (Hnone : Emph.step false 0 a = None) by (unfold Emph.step; fold D cpn; rewrite Enc; reflexivity).
    rewrite Hnone. unfold pe_stepY. cbv zeta. rewrite E1. reflexivity.
Qed.

(* ---------------------------------------------------------------------------------------------- *)
(* whole runs                                                                                      *)
(* ---------------------------------------------------------------------------------------------- *)
Theorem run_sim F0 : forall fm fs st a R, Inv F0 st a R -> (EmphSim3.mu a < fm)%nat -> (EmphSim3.mu a < fs)%nat ->
  exists rest evs, Emph.run false 0 fs a = Some (rest, evs) /\
    map toInline (rk (pe_loopY 0 fm st (Z.of_nat (Emph.cp a)))) = map toI (fold_left applyEv evs F0).
Proof.
  induction fm as [|fm IH]; intros fs st a R HI Hm Hs; [lia|]. destruct fs as [|fs]; [lia|].
  cbn [Emph.run pe_loopY]. pose proof (step_sim F0 st a R HI) as Hstep.
  destruct (Emph.step false 0 a) as [a'|].
  - destruct Hstep as (st' & R' & Hpe & HI' & Hmu & _). rewrite Hpe. apply (IH fs st' a' R' HI'); lia.
  - rewrite Hstep. exists (skipn 0 (Emph.st a)), (Emph.evs a). split; [reflexivity|].
    destruct HI as [_ _ _ _ _ _ Habs Hwf _]. rewrite <- Habs. symmetry. apply toI_absF. exact Hwf.
Qed.

(* ---------------------------------------------------------------------------------------------- *)
(* the invariant holds after tokenising                                                            *)
(* ---------------------------------------------------------------------------------------------- *)
Lemma segLen_nonneg x : 0 <= segLen x. Proof. unfold segLen, len. lia. Qed.

Lemma items_exist : forall g idx pos prev pend, wfSegs g -> 0 <= pos ->
  exists R, full R = pend ++ nodesOf g (Z.of_nat idx + 1) pos /\ map dl (fst R) = delimsOf g idx prev /\ Forall itOK (fst R).
Proof.
  induction g as [|x g IH]; intros idx pos prev pend Hw Hpos.
  - exists ([], pend). unfold full. cbn [fst snd wv flat_map nodesOf delimsOf map app]. rewrite app_nil_r. repeat split. constructor.
  - pose proof (segLen_nonneg x) as Hx. destruct x as [ch n|txt].
    + destruct Hw as (Hd & Hn & _ & Hw').
      destruct (IH (S idx) (pos + segLen (SD ch n)) (Some ch) [] Hw' ltac:(lia)) as (R' & HF & HD & HO).
      exists ({| gap := pend; dl := {| Emph.did := idx; Emph.dstar := ch =? 42; Emph.dn := n; Emph.dcur := n;
                                      Emph.dopen := canOpen ch prev (firstByte g); Emph.dclos := canClose ch prev (firstByte g) |};
                 ns := pos |} :: fst R', snd R').
      split; [|split].
      * unfold full in *. cbn [fst snd]. rewrite wv_cons. cbn [gap]. unfold nodeIt. cbn [dl ns Emph.did Emph.dcur].
        cbn [nodesOf]. unfold segLen at 1 2. cbn [segBytes]. rewrite len_repeat. rewrite <- app_assoc. f_equal. cbn [app]. f_equal.
        cbn [app] in HF. rewrite HF. unfold segLen. cbn [segBytes]. rewrite len_repeat. f_equal. lia.
      * cbn [fst map dl delimsOf]. rewrite HD. reflexivity.
      * cbn [fst]. constructor; [|exact HO]. split; cbn [ns dl Emph.dcur]; lia.
    + destruct Hw as (_ & _ & _ & _ & Hw').
      destruct (IH (S idx) (pos + segLen (ST txt)) (Some (last txt 0)) (pend ++ [textPN (Z.of_nat idx + 1) pos (pos + segLen (ST txt))]) Hw' ltac:(lia))
        as (R' & HF & HD & HO).
      exists R'. split; [|split; [|exact HO]].
      * rewrite HF. cbn [nodesOf]. rewrite <- app_assoc. cbn [app]. f_equal. f_equal. f_equal. lia.
      * rewrite HD. reflexivity.
Qed.

Lemma nodes_ids : forall g id pos, 1 <= id ->
  idsOK (id + len g) (allIds (nodesOf g id pos)) /\ Forall (fun i => id <= i) (allIds (nodesOf g id pos)).
Proof.
  induction g as [|x g IH]; intros id pos Hid.
  - cbn [nodesOf]. split; [split|]; constructor.
  - cbn [nodesOf]. rewrite allIds_text. destruct (IH (id + 1) (pos + segLen x) ltac:(lia)) as [[Hn Hb] Hge].
    rewrite SliceBase.sl_len_cons. pose proof (SliceBase.sl_len_nonneg g) as Hg.
    split; [split|].
    + constructor; [|exact Hn]. intros Hi. rewrite Forall_forall in Hge. apply Hge in Hi. lia.
    + constructor; [lia|]. eapply Forall_impl; [|exact Hb]. cbv beta. intros; lia.
    + constructor; [lia|]. eapply Forall_impl; [|exact Hge]. cbv beta. intros; lia.
Qed.
Lemma nodes_abs : forall g idx pos, map absN (nodesOf g (Z.of_nat idx + 1) pos) = leavesOf g idx pos.
Proof.
  induction g as [|x g IH]; intros idx pos; [reflexivity|]. cbn [nodesOf leavesOf map]. rewrite absN_text.
  replace (Z.to_nat (Z.of_nat idx + 1 - 1)) with idx by lia. f_equal.
  replace (Z.of_nat idx + 1 + 1) with (Z.of_nat (S idx) + 1) by lia. apply IH.
Qed.
Lemma nodes_wf : forall g id pos, forallb wfn (nodesOf g id pos) = true.
Proof. induction g as [|x g IH]; intros id pos; [reflexivity|]. cbn [nodesOf forallb]. rewrite wfn_text. apply IH. Qed.

Lemma Inv_init t st : wfSegs (segment t) ->
  rk st = nodesOf (segment t) 1 0 -> stk st = map conc (delimsOf (segment t) 0 None) -> nid st = 1 + len (segment t) ->
  exists R, Inv (leavesOf (segment t) 0 0) st (specInit t) R.
Proof.
  intros Hw Hrk Hstk Hnid.
  destruct (items_exist (segment t) 0%nat 0 None [] Hw ltac:(lia)) as (R & HF & HD & HO).
  cbn [app] in HF. change (Z.of_nat 0 + 1) with 1 in HF.
  exists R. constructor; cbn [Emph.st Emph.cp Emph.evs specInit fold_left].
  - exact Hstk.
  - symmetry. exact HD.
  - rewrite Hrk, HF. reflexivity.
  - exact HO.
  - rewrite Hrk, Hnid. apply nodes_ids. lia.
  - rewrite Hnid. pose proof (SliceBase.sl_len_nonneg (segment t)). lia.
  - rewrite Hrk. apply (nodes_abs (segment t) 0%nat 0).
  - rewrite Hrk. apply nodes_wf.
  - lia.
Qed.

(* the measure of the initial state *)
Lemma sumcur_delims : forall g idx prev, wfSegs g ->
  (EmphSim3.sumcur (delimsOf g idx prev) <= length (flat g))%nat /\
  (length (delimsOf g idx prev) <= EmphSim3.sumcur (delimsOf g idx prev))%nat.
Proof.
  induction g as [|x g IH]; intros idx prev Hw; [cbn; lia|]. rewrite flat_cons, app_length. destruct x as [ch n|txt].
  - destruct Hw as (_ & Hn & _ & Hw'). cbn [delimsOf segBytes length]. rewrite EmphSim3.sumcur_cons. cbn [Emph.dcur].
    rewrite repeat_length. destruct (IH (S idx) (Some ch) Hw'). lia.
  - destruct Hw as (_ & _ & _ & _ & Hw'). cbn [delimsOf segBytes]. destruct (IH (S idx) (Some (last txt 0)) Hw'). lia.
Qed.
