From Coq Require Import List ZArith Lia Bool.
Import ListNotations.
Require Import Base Tree Rdr Link.
Require Import ShapesR EntBase ShapesBase.
Open Scope Z_scope.

(* ================================================================================================
   The entries of a paragraph (`lines`) form a span list that the multi-line reader theory of ShapesR.v
   accepts (spOK), and their indentation budget is bounded by the buffer length.
   ================================================================================================ *)

Lemma lines_unp_last B M u : unpOK B M u -> iend u < len B -> isEOLz (at_ B (iend u - 1)).
Proof.
  intros (_ & _ & _ & _ & _ & (_ & _ & _ & _ & A) & _) H. destruct A as [A|[_ A]]; [lia|exact A].
Qed.

Lemma lines_head_cases B M u r : lines B M (u :: r) ->
  (unpOK B M u) \/ (indOK B u /\ exists v r', r = v :: r' /\ ikind v = UnparsedKind /\ istart v = iend u).
Proof.
  intros (A & _ & _). destruct A as [A|[A Hn]]; [left; exact A|right; split; [exact A|]].
  unfold nextIs in Hn. destruct r as [|v r']; [contradiction|]. exists v, r'. tauto.
Qed.

Lemma lines_head_unp B M u r : lines B M (u :: r) -> ikind u = UnparsedKind -> unpOK B M u.
Proof.
  intros H Hk. destruct (lines_head_cases _ _ _ _ H) as [A|[(A & _) _]]; [exact A|]. rewrite Hk in A. discriminate.
Qed.

(* an entry that is followed by another one ends strictly inside the buffer *)
Lemma lines_notlast_lt B M u w r : lines B M (u :: w :: r) -> M <= len B -> iend u < len B.
Proof.
  intros H HM. pose proof H as (_ & A & A2).
  destruct (A w (or_introl eq_refl)) as [A1 _].
  destruct (lines_entry B M (w :: r) w A2 (or_introl eq_refl)) as (_ & C & D & _). lia.
Qed.

Lemma lines_spOK src E : forall ik, lines src E ik -> E <= len src -> spOK src ik = true.
Proof.
  induction ik as [|u r IH]; intros H HE; [reflexivity|].
  pose proof (lines_entry src E (u :: r) u H (or_introl eq_refl)) as (E1 & E2 & E3 & _ & Hk).
  pose proof H as (A & A1 & A2). cbn [spOK].
  rewrite (IH A2 HE), andb_true_r.
  replace (0 <=? istart u) with true by (symmetry; apply Z.leb_le; lia).
  replace (istart u <? iend u) with true by (symmetry; apply Z.ltb_lt; lia).
  replace (iend u <=? len src) with true by (symmetry; apply Z.leb_le; lia).
  cbn [andb].
  apply andb_true_iff. split.
  - apply forallb_forall. intros j Hj. destruct (A1 j Hj) as [B1 B2]. apply andb_true_iff. split; [apply Z.leb_le; exact B1|].
    apply negb_true_iff. apply Z.eqb_neq. apply gapE_not_tick. exact B2.
  - destruct (Z.eqb_spec (ikind u) IndentKind) as [Ek|Ek].
    + destruct A as [(B1 & _)|[(B1 & B2 & B3 & B4 & B5 & B6) _]]; [rewrite B1 in Ek; discriminate|].
      apply forallb_at. intros i Hi. rewrite len_sub_in in Hi by lia. rewrite at_sub by lia.
      replace (istart u + i) with (istart u) by lia. rewrite B5. reflexivity.
    + destruct r as [|w r']; [reflexivity|]. apply negb_true_iff. apply Z.eqb_neq.
      destruct A as [A|[(B1 & _) _]]; [|congruence].
      pose proof (lines_notlast_lt _ _ _ _ _ H HE) as Hlt.
      pose proof (lines_unp_last _ _ _ A Hlt) as He. unfold isEOLz in He. lia.
Qed.

Lemma ibudget_cons_unp u r : ikind u = UnparsedKind -> ibudget (u :: r) = ibudget r.
Proof. intros E. cbn [ibudget]. rewrite E. reflexivity. Qed.
Lemma ibudget_cons_ind u r : ikind u = IndentKind -> ibudget (u :: r) = Z.max 0 (iindent u) + ibudget r.
Proof. intros E. cbn [ibudget]. rewrite E. reflexivity. Qed.

Lemma lines_ibudget_aux src E : E <= len src -> forall n ik, (length ik <= n)%nat -> lines src E ik ->
  forall lo, lo <= E -> (forall u, In u ik -> lo <= istart u) -> ibudget ik <= E - lo + 1.
Proof.
  intros HE. induction n as [|n IH]; intros ik Hn H lo Hlo Hall.
  - destruct ik; [cbn [ibudget]; lia|cbn in Hn; lia].
  - destruct ik as [|u r]; [cbn [ibudget]; lia|]. cbn [length] in Hn.
    pose proof (lines_entry src E (u :: r) u H (or_introl eq_refl)) as (E1 & E2 & E3 & _ & _).
    pose proof (Hall u (or_introl eq_refl)) as Hlu.
    pose proof H as (_ & A1 & A2).
    destruct (lines_head_cases _ _ _ _ H) as [A|[(B1 & B2 & B3 & B4 & B5 & B6) (v & r' & Er & Kv & Sv)]].
    + rewrite ibudget_cons_unp by apply A.
      assert (Hr : ibudget r <= E - iend u + 1).
      { apply IH; [lia|exact A2|lia|]. intros j Hj. apply A1, Hj. }
      lia.
    + subst r. rewrite (ibudget_cons_ind u) by exact B1. rewrite (ibudget_cons_unp v) by exact Kv.
      pose proof (lines_head_unp _ _ _ _ A2 Kv) as Uv.
      pose proof Uv as (_ & _ & V1 & V2 & V3 & _ & V4).
      destruct r' as [|w r''].
      * cbn [ibudget]. lia.
      * pose proof (lines_notlast_lt _ _ _ _ _ A2 HE) as Hlt.
        pose proof (lines_unp_last _ _ _ Uv Hlt) as He.
        assert (iend v <> istart v + 1) by (intros Q; apply V4; replace (istart v) with (iend v - 1) by lia; exact He).
        pose proof A2 as (_ & C1 & C2).
        assert (Hr : ibudget (w :: r'') <= E - iend v + 1).
        { apply IH; [cbn [length] in *; lia|exact C2|lia|]. intros j Hj. apply C1, Hj. }
        lia.
Qed.

Lemma lines_ibudget src E ik : lines src E ik -> E <= len src -> ibudget ik <= len src + 1.
Proof.
  intros H HE. destruct ik as [|u r]; [cbn [ibudget]; pose proof (len_nonneg src); lia|].
  pose proof (lines_entry src E (u :: r) u H (or_introl eq_refl)) as (E1 & E2 & E3 & _ & _).
  pose proof (lines_ibudget_aux src E HE (length (u :: r)) (u :: r) (le_n _) H 0 ltac:(lia)) as Hb.
  assert (Hall : forall j, In j (u :: r) -> 0 <= istart j).
  { intros j Hj. apply (lines_entry src E (u :: r) j H Hj). }
  specialize (Hb Hall). lia.
Qed.

Print Assumptions lines_spOK.
Print Assumptions lines_ibudget.
