From Coq Require Import List ZArith Lia Bool.
Import ListNotations.
Require Import Base Tables Utf8 Tree Rdr Link Collect Html Recog Inl3a Inl3b Inl3c Inl3d Inl3e LP Rules Starts Driver Props.
Require Import ComposeC02 C02Structure C02Boundaries RootIndentDrv.
Open Scope Z_scope.

(* ================================================================================================
   T56 (b), last part: Props.C02_statement for every input.
     rootIndent_all (RootIndentDrv)    the bytes of a root's Source before its block's start are spaces/tabs;
     defSpans_all   (DefSpans)         the parts of a link reference definition are ordered (used inside C02Structure);
     C02_boundaries (C02Boundaries)    the character-boundary clause, for every valid UTF-8 input.
   ================================================================================================ *)

Theorem C02_structure : C02_structure_statement.
Proof. apply C02_structure_of_rootIndent. exact rootIndent_all. Qed.
Print Assumptions C02_structure.

Theorem C02_full : C02_statement.
Proof. apply C02_of_structure_and_boundaries; [exact C02_structure|exact C02_boundaries]. Qed.
Print Assumptions C02_full.
