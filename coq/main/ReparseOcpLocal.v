(* T66: onCloseParagraph does not depend on the bytes of the source after T, for a paragraph whose entries lie inside [0, T).
   Two runs of the multi-span reader: r over A = upto Q T and `up r` over Q (same spans, same position).  Every operation of the
   reader commutes with `up` except `current` at the position T itself (0 on A, the byte Q[T] on Q); that position is reached
   only by a failed `next` from T - 1, i.e. (entries of a paragraph end with their line ending) just after a line ending, and no
   scanner looks at the current byte after a failed `next`. *)
From Coq Require Import List ZArith Lia Bool.
Import ListNotations.
Require Import Base Tree Rdr Link Collect LP ShapesBase ShapesR IFBase IFCollect LADef L2BndS LA13 ReparseSI QRdrOcp.
Open Scope Z_scope.

Section TR.
  Variables (Q : bytes) (T : Z).
  Hypothesis HT : 0 <= T < len Q.
  Hypothesis HN : forall i, 0 <= i < len Q -> at_ Q i <> 0.
  Notation A := (upto Q T).

  Lemma lenA : len A = T. Proof. apply len_upto. lia. Qed.
  Lemma atA i : 0 <= i < T -> at_ A i = at_ Q i. Proof. intros H. apply at_upto'; lia. Qed.

  Definition up (r : reader) : reader := {| r_src := Q; r_spans := r_spans r; r_pos := r_pos r; r_vpos := r_vpos r; r_prev := r_prev r |}.

  (* a good span: inside [0, T); a span that is not indentation and ends at T ends with a line ending *)
  Definition gE (u : inline) : Prop :=
    0 <= istart u /\ istart u < iend u /\ iend u <= T /\ (ikind u <> IndentKind -> iend u = T -> isEOLz (at_ Q (T - 1)) = true).
  Definition GR (r : reader) : Prop := r_src r = A /\ Forall gE (r_spans r) /\ 0 <= r_pos r <= T /\ -1 <= r_prev r < T.
  Definition Live (r : reader) : Prop := GR r /\ r_pos r < T.

  Lemma up_fields r : r_pos (up r) = r_pos r /\ r_prev (up r) = r_prev r /\ r_spans (up r) = r_spans r /\ r_vpos (up r) = r_vpos r.
  Proof. repeat split. Qed.

  (* ---------------- curNode ---------------- *)
  Lemma curNode_up r : curNode (up r) = (fst (curNode r), up (snd (curNode r))).
  Proof. unfold curNode, up. cbn [r_spans r_pos r_src r_vpos r_prev]. cbv zeta. destruct (_ <? 0); reflexivity. Qed.
  Lemma GR_withSpans r sp : GR r -> Forall gE sp -> GR (withSpans r sp).
  Proof. intros (A1 & _ & A3) H. split; [exact A1|]. split; [exact H|exact A3]. Qed.
  Lemma GR_curNode r : GR r -> GR (snd (curNode r)).
  Proof.
    intros H. destruct (curNode_cases r) as [E|(pre & n & rest & E1 & E & _)]; rewrite E; cbn [snd]; apply GR_withSpans; try exact H; [constructor|].
    destruct H as (_ & H & _). rewrite E1 in H. apply Forall_app in H. apply H.
  Qed.
  Lemma Live_curNode r : Live r -> Live (snd (curNode r)).
  Proof. intros [H L]. split; [apply GR_curNode, H|]. pose proof (curNode_fields r) as F. cbv zeta in F. lia. Qed.

  (* ---------------- current ---------------- *)
  Lemma current_up r : Live r -> current (up r) = (fst (current r), up (snd (current r))).
  Proof.
    intros [(A1 & _ & A3) L]. unfold current. rewrite curNode_up. cbn [r_src r_pos r_vpos up]. rewrite A1, lenA.
    destruct (Z.leb_spec (len Q) (r_pos r)) as [X|_]; [lia|]. destruct (Z.leb_spec T (r_pos r)) as [X|_]; [lia|].
    destruct (curNode r) as [n r1]. cbn [fst snd]. rewrite (atA (r_pos r)) by lia.
    destruct (okind n =? IndentKind); [reflexivity|]. destruct (at_ Q (r_pos r) =? 0); reflexivity.
  Qed.
  Lemma GR_current r : GR r -> GR (snd (current r)).
  Proof. intros H. destruct (current_snd r) as [E|E]; rewrite E; [exact H|apply GR_curNode, H]. Qed.
  Lemma Live_current r : Live r -> Live (snd (current r)).
  Proof. intros [H L]. split; [apply GR_current, H|]. pose proof (current_fields r) as F. cbv zeta in F. lia. Qed.
  (* the byte behind the result of current *)
  Lemma current_byte r : Live r -> fst (current r) <> 32 -> fst (current r) = at_ Q (r_pos r) /\ okind (fst (curNode r)) <> IndentKind.
  Proof.
    intros [(A1 & _ & A3) L]. unfold current. rewrite A1, lenA. destruct (Z.leb_spec T (r_pos r)) as [X|_]; [lia|].
    destruct (curNode r) as [n r1]. cbn [fst]. destruct (Z.eqb_spec (okind n) IndentKind) as [E|E]; cbn [fst]; [congruence|].
    rewrite (atA (r_pos r)) by lia. destruct (Z.eqb_spec (at_ Q (r_pos r)) 0) as [E0|_]; [exfalso; apply (HN (r_pos r)); [lia|exact E0]|]. cbn [fst]. intros _. split; [reflexivity|exact E].
  Qed.

  (* ---------------- next ---------------- *)
  Lemma cnvp0 src p : at_ src p <> 0 -> computeNullVirtualPosition src p = 0.
  Proof. intros H. unfold computeNullVirtualPosition. destruct (Z.eqb_spec (at_ src p) 0); [contradiction|]. cbn [negb]. rewrite orb_true_r. reflexivity. Qed.

  Lemma next_up r : GR r -> next (up r) = (fst (next r), up (snd (next r))).
  Proof.
    intros H. pose proof H as (A1 & A2 & A3). unfold next. rewrite curNode_up.
    destruct (curNode_cases r) as [E|(pre & n & rest & E1 & E & E3)]; rewrite E; cbn [fst snd]; [reflexivity|].
    pose proof (spanHas_range _ _ E3) as (B1 & B2 & B3).
    assert (Gn : Forall gE (n :: rest)) by (rewrite E1 in A2; apply Forall_app in A2; apply A2).
    assert (Gn0 : gE n) by (inversion Gn; assumption). destruct Gn0 as (C1 & C2 & C3 & _).
    cbn [up withSpans r_src r_pos r_spans r_vpos r_prev]. rewrite A1.
    destruct ((ikind n =? IndentKind) && (r_vpos r <? iindent n)); [reflexivity|].
    destruct (negb (ikind n =? IndentKind) && (r_pos r + 1 <? iend n)) eqn:Eb.
    - apply andb_true_iff in Eb. destruct Eb as [_ Eb]. apply Z.ltb_lt in Eb. rewrite (atA (r_pos r + 1)), (atA (r_pos r)) by lia. reflexivity.
    - cbn [tl]. destruct (nextSpan rest) as [[i sp]|] eqn:En; [|reflexivity].
      destruct (nextSpan_split _ _ _ En) as (pre' & rest' & X1 & X2).
      assert (Gi : gE i). { pose proof (Forall_inv_tail Gn) as Gr. rewrite X1 in Gr. apply Forall_app in Gr. destruct Gr as [_ Gr]. apply (Forall_inv Gr). }
      destruct Gi as (D1 & D2 & D3 & _).
      rewrite (cnvp0 Q (istart i)) by (apply HN; lia). rewrite (cnvp0 A (istart i)) by (rewrite atA by lia; apply HN; lia). reflexivity.
  Qed.
  Lemma GR_next r : GR r -> GR (snd (next r)).
  Proof.
    intros H. pose proof H as (A1 & A2 & A3). destruct (next r) as [ok r1] eqn:En. cbn [snd]. destruct ok.
    - destruct (next_true r r1 En) as (node & rest & Ec & Hh & (pre & Es) & S1 & P1 & Hcase).
      pose proof (spanHas_range _ _ Hh) as (B1 & B2 & B3).
      assert (Gn : Forall gE (node :: rest)) by (rewrite Es in A2; apply Forall_app in A2; apply A2).
      assert (Gn0 : gE node) by (inversion Gn; assumption). destruct Gn0 as (C1 & C2 & C3 & _).
      split; [congruence|]. destruct Hcase as [(K & P & Sp)|[(K & P & P' & Sp)|(pre' & j & rest' & R1 & Sp & P & _)]]; rewrite Sp.
      + split; [exact Gn|lia].
      + split; [exact Gn|lia].
      + assert (Gj : Forall gE (j :: rest')). { pose proof (Forall_inv_tail Gn) as Gr. rewrite R1 in Gr. apply Forall_app in Gr. apply Gr. }
        split; [exact Gj|]. destruct (Forall_inv Gj) as (D1 & D2 & D3 & _). lia.
    - destruct (next_false r r1 En) as (Sp & S1 & Hnode). split; [congruence|]. rewrite Sp. split; [constructor|].
      destruct (curNode_cases r) as [E|(pre & n & rest & E1 & E & E3)].
      + unfold next in En. rewrite E in En. inversion En; subst r1. cbn. exact A3.
      + destruct (Hnode n ltac:(rewrite E; reflexivity)) as (Pv & P & _). pose proof (spanHas_range _ _ E3) as (B1 & B2 & B3).
        assert (Gn : gE n). { rewrite E1 in A2. apply Forall_app in A2. destruct A2 as [_ A2]. inversion A2; assumption. }
        destruct Gn as (C1 & C2 & C3 & _). lia.
  Qed.
  (* a successful step leads to a position inside a span *)
  Lemma Live_next_true r : GR r -> fst (next r) = true -> Live (snd (next r)).
  Proof.
    intros H Ht. split; [apply GR_next, H|]. pose proof H as (A1 & A2 & A3). destruct (next r) as [ok r1] eqn:En. cbn [fst snd] in *. subst ok.
    destruct (next_true r r1 En) as (node & rest & Ec & Hh & (pre & Es) & S1 & P1 & Hcase).
    pose proof (spanHas_range _ _ Hh) as (B1 & B2 & B3).
    assert (Gn : Forall gE (node :: rest)) by (rewrite Es in A2; apply Forall_app in A2; apply A2).
    assert (Gn0 : gE node) by (inversion Gn; assumption). destruct Gn0 as (C1 & C2 & C3 & _).
    destruct Hcase as [(K & P & Sp)|[(K & P & P' & Sp)|(pre' & j & rest' & R1 & Sp & P & _)]]; try lia.
    assert (Gj : Forall gE (j :: rest')). { pose proof (Forall_inv_tail Gn) as Gr. rewrite R1 in Gr. apply Forall_app in Gr. apply Gr. }
    destruct (Forall_inv Gj) as (D1 & D2 & D3 & _). lia.
  Qed.
  (* a step from a byte that is neither a space nor a line ending: the position T is not reached *)
  Lemma Live_next_byte r : Live r -> fst (current r) <> 32 -> isEOLz (fst (current r)) = false -> Live (snd (next r)).
  Proof.
    intros HL Hc He. pose proof HL as [H L]. destruct (fst (next r)) eqn:Eo; [apply Live_next_true; assumption|].
    split; [apply GR_next, H|]. pose proof H as (A1 & A2 & A3). destruct (current_byte r HL Hc) as [Eb Ek].
    destruct (next r) as [ok r1] eqn:En. cbn [fst snd] in *. subst ok. destruct (next_false r r1 En) as (Sp & S1 & Hnode).
    destruct (curNode_cases r) as [E|(pre & n & rest & E1 & E & E3)].
    - unfold next in En. rewrite E in En. inversion En; subst r1. cbn. exact L.
    - rewrite E in Ek. cbn [fst okind] in Ek. destruct (Hnode n ltac:(rewrite E; reflexivity)) as (_ & P & [K|K]); [contradiction|].
      assert (Gn : gE n). { rewrite E1 in A2. apply Forall_app in A2. destruct A2 as [_ A2]. inversion A2; assumption. }
      destruct Gn as (C1 & C2 & C3 & C4). destruct (Z.eq_dec (iend n) T) as [ET|NT]; [|lia].
      exfalso. specialize (C4 Ek ET). rewrite Eb in He. replace (T - 1) with (r_pos r) in C4 by lia. congruence.
  Qed.

  (* ---------------- remainingNodeBytes ---------------- *)
  Lemma remaining_up r : GR r -> remainingNodeBytes (up r) = (fst (remainingNodeBytes r), up (snd (remainingNodeBytes r))).
  Proof.
    intros (A1 & A2 & A3). unfold remainingNodeBytes. rewrite curNode_up.
    destruct (curNode_cases r) as [E|(pre & n & rest & E1 & E & E3)]; rewrite E; cbn [fst snd]; [reflexivity|].
    pose proof (spanHas_range _ _ E3) as (B1 & B2 & B3).
    assert (Gn : gE n). { rewrite E1 in A2. apply Forall_app in A2. destruct A2 as [_ A2]. inversion A2; assumption. }
    destruct Gn as (C1 & C2 & C3 & _). cbn [up r_src r_pos]. rewrite A1, (sub_upto_le Q T) by lia. reflexivity.
  Qed.
  Lemma GR_remaining r : GR r -> GR (snd (remainingNodeBytes r)).
  Proof. intros H. unfold remainingNodeBytes. pose proof (GR_curNode r H) as X. destruct (curNode r) as [[n|] r1]; exact X. Qed.

  (* ================= the scanners of Link.v ================= *)
  Definition upP {X} (p : X * reader) : X * reader := (fst p, up (snd p)).

  Lemma cur_step r c r1 : Live r -> current r = (c, r1) -> current (up r) = (c, up r1) /\ Live r1.
  Proof. intros H E. split; [rewrite (current_up r H), E; reflexivity|]. pose proof (Live_current r H) as X. rewrite E in X. exact X. Qed.
  Lemma next_step r ok r1 : GR r -> next r = (ok, r1) -> next (up r) = (ok, up r1) /\ GR r1 /\ (ok = true -> Live r1).
  Proof.
    intros H E. split; [rewrite (next_up r H), E; reflexivity|]. split; [pose proof (GR_next r H) as X; rewrite E in X; exact X|].
    intros ->. pose proof (Live_next_true r H) as X. rewrite E in X. apply X. reflexivity.
  Qed.
  Lemma next_byte r0 c r ok r1 : Live r0 -> current r0 = (c, r) -> c <> 32 -> isEOLz c = false -> next r = (ok, r1) -> Live r1.
  Proof.
    intros H E Hc He En. pose proof (Live_next_byte r0 H) as X. rewrite E in X. cbn [fst] in X. specialize (X Hc He).
    rewrite <- (next_current r0), E in X. cbn [snd] in X. rewrite En in X. exact X.
  Qed.
  Ltac cs r H c r1 H1 := let E := fresh "Ec" in let E' := fresh "Ec'" in
    destruct (current r) as [c r1] eqn:E; destruct (cur_step r c r1 H E) as [E' H1]; rewrite E'; cbv beta iota.
  Ltac csn r H c r1 H1 E := let E' := fresh "Ec'" in
    destruct (current r) as [c r1] eqn:E; destruct (cur_step r c r1 H E) as [E' H1]; rewrite E'; cbv beta iota.
  Ltac nsn r G ok r1 G1 L1 E := let E' := fresh "En'" in
    destruct (next r) as [ok r1] eqn:E; destruct (next_step r ok r1 G E) as (E' & G1 & L1); rewrite E'; cbv beta iota.
  Ltac ns r G ok r1 G1 L1 := let E := fresh "En" in let E' := fresh "En'" in
    destruct (next r) as [ok r1] eqn:E; destruct (next_step r ok r1 G E) as (E' & G1 & L1); rewrite E'; cbv beta iota.

  Lemma sls_loop_up : forall f r, Live r ->
    skipLinkSpace_loop f (up r) = upP (skipLinkSpace_loop f r) /\ GR (snd (skipLinkSpace_loop f r)) /\
    (fst (skipLinkSpace_loop f r) = true -> Live (snd (skipLinkSpace_loop f r))).
  Proof.
    induction f as [|f IH]; intros r H; cbn [skipLinkSpace_loop].
    - split; [reflexivity|]. split; [apply H|intros _; exact H].
    - cs r H c r1 H1. destruct (isSpaceTabOrLineEnding c).
      + ns r1 (proj1 H1) ok r2 G2 L2. destruct ok; [apply IH, L2, eq_refl|]. split; [reflexivity|]. split; [exact G2|discriminate].
      + split; [reflexivity|]. split; [apply H1|intros _; exact H1].
  Qed.
  Lemma sls_up f r : Live r ->
    skipLinkSpace f (up r) = upP (skipLinkSpace f r) /\ GR (snd (skipLinkSpace f r)) /\ (fst (skipLinkSpace f r) = true -> Live (snd (skipLinkSpace f r))).
  Proof.
    intros H. unfold skipLinkSpace. cs r H c r1 H1. destruct (c =? 0); [split; [reflexivity|]; split; [apply H1|discriminate]|]. apply sls_loop_up, H1.
  Qed.

  Lemma sst_up : forall f r, Live r ->
    skipSpacesAndTabs f (up r) = upP (skipSpacesAndTabs f r) /\ GR (snd (skipSpacesAndTabs f r)) /\
    (fst (skipSpacesAndTabs f r) = true -> Live (snd (skipSpacesAndTabs f r))).
  Proof.
    induction f as [|f IH]; intros r H; cbn [skipSpacesAndTabs].
    - split; [reflexivity|]. split; [apply H|discriminate].
    - cs r H c r1 H1. destruct (isSpTab c).
      + ns r1 (proj1 H1) ok r2 G2 L2. destruct ok; [apply IH, L2, eq_refl|]. split; [reflexivity|]. split; [exact G2|discriminate].
      + split; [reflexivity|]. split; [apply H1|intros _; exact H1].
  Qed.

  (* readEOL: afterwards the reader is live, or a line ending was found *)
  Lemma readEOL_up f r : Live r ->
    readEOL f (up r) = upP (readEOL f r) /\ GR (snd (readEOL f r)) /\ (Live (snd (readEOL f r)) \/ 0 <= fst (readEOL f r)).
  Proof.
    intros H. unfold readEOL. destruct (sst_up f r H) as (E1 & G1 & L1). rewrite E1. unfold upP.
    destruct (skipSpacesAndTabs f r) as [ok r1]. cbn [fst snd] in *. cbv beta iota.
    destruct ok; cbn [negb]; [|split; [reflexivity|]; split; [exact G1|right; apply G1]].
    specialize (L1 eq_refl). cs r1 L1 c r2 H2.
    assert (Hprev : forall x, GR x -> 0 <= r_prev x + 1) by (intros x (_ & _ & _ & X); lia).
    destruct (Z.eqb_spec c 13) as [E13|N13].
    - ns r2 (proj1 H2) ok2 r3 G3 L3. destruct ok2; cbn [negb]; [|split; [reflexivity|]; split; [exact G3|right; apply Hprev, G3]].
      specialize (L3 eq_refl). cs r3 L3 c2 r4 H4. destruct (c2 =? 10).
      + ns r4 (proj1 H4) ok5 r5 G5 L5. split; [reflexivity|]. split; [exact G5|right; apply Hprev, G5].
      + split; [rewrite (proj1 (proj2 (up_fields r4))); reflexivity|]. split; [apply H4|left; exact H4].
    - destruct (c =? 10).
      + ns r2 (proj1 H2) ok3 r3 G3 L3. split; [reflexivity|]. split; [exact G3|right; apply Hprev, G3].
      + split; [reflexivity|]. split; [apply H2|left; exact H2].
  Qed.

  Lemma pos_up r : r_pos (up r) = r_pos r. Proof. reflexivity. Qed.
  Lemma prev_up r : r_prev (up r) = r_prev r. Proof. reflexivity. Qed.
  Lemma svn : spanValid nullSpan = false. Proof. reflexivity. Qed.
  Ltac nov := let X := fresh "X" in intros X; cbn [fst snd] in X; rewrite svn in X; discriminate X.
  Definition upO (o : option (reader * Z)) : option (reader * Z) := option_map (fun p => (up (fst p), snd p)) o.
  Lemma eol_ne c : isEOLz c = false <-> (c <> 10 /\ c <> 13).
  Proof. unfold isEOLz. destruct (Z.eqb_spec c 10), (Z.eqb_spec c 13); cbn; split; intros; try discriminate; try lia; try reflexivity. Qed.
  Lemma ctl_eol c : isASCIIControl c || (c =? 32) = false -> c <> 32 /\ isEOLz c = false.
  Proof.
    intros H. apply orb_false_iff in H. destruct H as [H1 H2]. apply Z.eqb_neq in H2. split; [exact H2|]. apply eol_ne.
    unfold isASCIIControl in H1. apply orb_false_iff in H1. destruct H1 as [H1 _]. apply Z.leb_gt in H1. lia.
  Qed.

  (* ---------------- parseLinkLabel ---------------- *)
  Lemma ll_skip_up : forall f r chars, GR r ->
    ll_skip f (up r) chars = upO (ll_skip f r chars) /\ (forall r2 ch, ll_skip f r chars = Some (r2, ch) -> Live r2).
  Proof.
    induction f as [|f IH]; intros r chars G; cbn [ll_skip]; cbv zeta; [split; [reflexivity|discriminate]|].
    ns r G ok r1 G1 L1. destruct ok; cbn [negb]; [|split; [reflexivity|discriminate]].
    specialize (L1 eq_refl). cs r1 L1 c r2 H2. destruct ((maxChars <=? chars + 1) || (c =? 91) || (c =? 93)); [split; [reflexivity|discriminate]|].
    destruct (negb (isSpaceTabOrLineEnding c)); [split; [reflexivity|intros ? ? E; inversion E; subst; exact H2]|]. apply IH, H2.
  Qed.
  Lemma ll_body_up : forall f r chars ie, Live r -> ie <= T ->
    ll_body f (up r) chars ie = upO (ll_body f r chars ie) /\ (forall r2 x, ll_body f r chars ie = Some (r2, x) -> Live r2 /\ x <= T).
  Proof.
    induction f as [|f IH]; intros r chars ie H Hie; cbn [ll_body]; cbv zeta; [split; [reflexivity|discriminate]|].
    cs r H c r1 H1. destruct (negb ((chars <? maxChars) && negb (c =? 91) && negb (c =? 93))); [split; [reflexivity|intros ? ? E; inversion E; subst; split; [exact H1|exact Hie]]|].
    rewrite !pos_up. assert (P1 : r_pos r1 + 1 <= T) by (destruct H1 as [_ X]; lia). destruct (c =? 92).
    - ns r1 (proj1 H1) ok r2 G2 L2. destruct ok; cbn [negb]; [|split; [reflexivity|discriminate]]. specialize (L2 eq_refl).
      cs r2 L2 c2 r3 H3. rewrite !pos_up. assert (P3 : r_pos r3 + 1 <= T) by (destruct H3 as [_ X]; lia).
      ns r3 (proj1 H3) ok2 r4 G4 L4. destruct ok2; cbn [negb]; [|split; [reflexivity|discriminate]]. apply IH; [exact (L4 eq_refl)|destruct (negb _); lia].
    - ns r1 (proj1 H1) ok r2 G2 L2. destruct ok; cbn [negb]; [|split; [reflexivity|discriminate]]. apply IH; [exact (L2 eq_refl)|destruct (negb _); lia].
  Qed.
  Lemma parseLinkLabel_up f r : Live r ->
    parseLinkLabel f (up r) = upP (parseLinkLabel f r) /\ GR (snd (parseLinkLabel f r)) /\
    (spanValid (fst (fst (parseLinkLabel f r))) = true ->
       Live (snd (parseLinkLabel f r)) /\ 0 <= fst (snd (fst (parseLinkLabel f r))) <= T /\ snd (snd (fst (parseLinkLabel f r))) <= T).
  Proof.
    intros H. unfold parseLinkLabel. cs r H c r0 H0. destruct (negb (c =? 91)); [split; [reflexivity|]; split; [apply H0|nov]|].
    cbv zeta. rewrite !pos_up. destruct (ll_skip_up f r0 0 (proj1 H0)) as [E1 L1]. rewrite E1.
    destruct (ll_skip f r0 0) as [[r1 chars]|]; cbn [upO option_map fst snd]; [|split; [reflexivity|]; split; [apply H0|nov]].
    specialize (L1 r1 chars eq_refl). rewrite !pos_up. destruct (ll_body_up f r1 chars (-1) L1 ltac:(lia)) as [E2 L2]. rewrite E2.
    destruct (ll_body f r1 chars (-1)) as [[r2 ie]|]; cbn [upO option_map fst snd]; [|split; [reflexivity|]; split; [apply L1|nov]].
    destruct (L2 r2 ie eq_refl) as [L2' Bie]. clear L2. rename L2' into L2. csn r2 L2 c2 r3 H3 Ecx. destruct (Z.eqb_spec c2 93) as [E93|N93]; cbn [negb]; [|split; [reflexivity|]; split; [apply H3|nov]].
    rewrite !pos_up. nsn r3 (proj1 H3) ok4 r4 G4 L4 Enx. split; [reflexivity|]. split; [exact G4|]. intros _. cbn [fst snd].
    split; [apply (next_byte r2 c2 r3 ok4 r4 L2 Ecx); [lia|apply eol_ne; lia|exact Enx]|]. destruct L1 as [(_ & _ & X & _) Y]. lia.
  Qed.

  (* ---------------- parseLinkDestination ---------------- *)
  Lemma ld_angle_up : forall f r start, GR r -> 0 <= start < T ->
    ld_angle f (up r) start = upP (ld_angle f r start) /\ GR (snd (ld_angle f r start)) /\
    (spanValid (fst (fst (ld_angle f r start))) = true ->
       Live (snd (ld_angle f r start)) /\ 0 <= fst (snd (fst (ld_angle f r start))) <= T /\ snd (snd (fst (ld_angle f r start))) <= T).
  Proof.
    induction f as [|f IH]; intros r start G Hst; cbn [ld_angle]; [split; [reflexivity|]; split; [exact G|nov]|].
    ns r G ok r1 G1 L1. destruct ok; cbn [negb]; [|split; [reflexivity|]; split; [exact G1|nov]].
    specialize (L1 eq_refl). csn r1 L1 c r2 H2 Ecx. destruct ((c =? 13) || (c =? 10)) eqn:Eeol; [split; [reflexivity|]; split; [apply H2|nov]|].
    destruct (Z.eqb_spec c 92) as [E92|N92].
    - ns r2 (proj1 H2) ok2 r3 G3 L3. destruct ok2; cbn [negb]; [|split; [reflexivity|]; split; [exact G3|nov]].
      specialize (L3 eq_refl). cs r3 L3 c2 r4 H4. destruct ((c2 =? 10) || (c2 =? 13)); [split; [reflexivity|]; split; [apply H4|nov]|]. apply IH; [apply H4|exact Hst].
    - destruct (Z.eqb_spec c 62) as [E62|N62]; [|apply IH; [apply H2|exact Hst]].
      nsn r2 (proj1 H2) ok3 r3 G3 L3 Enx. rewrite !prev_up. split; [reflexivity|]. split; [exact G3|]. intros _. cbn [fst snd].
      split; [apply (next_byte r1 c r2 ok3 r3 L1 Ecx); [lia|apply eol_ne; lia|exact Enx]|]. destruct G3 as (_ & _ & _ & X). lia.
  Qed.
  Lemma ld_bare_up : forall f r paren, Live r -> ld_bare f (up r) paren = up (ld_bare f r paren) /\ Live (ld_bare f r paren).
  Proof.
    induction f as [|f IH]; intros r paren H; cbn [ld_bare]; [split; [reflexivity|exact H]|].
    csn r H c r1 H1 Ecx. destruct (isASCIIControl c || (c =? 32)) eqn:Ectl; [split; [reflexivity|exact H1]|].
    destruct (ctl_eol c Ectl) as [C1 C2].
    assert (Hnb : forall ok r2, next r1 = (ok, r2) -> Live r2) by (intros ok r2 En; apply (next_byte r c r1 ok r2 H Ecx C1 C2 En)).
    destruct (c =? 92).
    - nsn r1 (proj1 H1) ok r2 G2 L2 Enx. pose proof (Hnb _ _ eq_refl) as HL2. destruct ok; cbn [negb]; [|split; [reflexivity|exact HL2]].
      csn r2 HL2 c2 r3 H3 Ecy. destruct (isASCIIControl c2 || (c2 =? 32)) eqn:Ectl2; [split; [reflexivity|exact H3]|].
      destruct (ctl_eol c2 Ectl2) as [D1 D2]. nsn r3 (proj1 H3) ok2 r4 G4 L4 Eny. pose proof (next_byte r2 c2 r3 ok2 r4 HL2 Ecy D1 D2 Eny) as HL4.
      destruct ok2; [apply IH, HL4|split; [reflexivity|exact HL4]].
    - destruct (c =? 40).
      + nsn r1 (proj1 H1) ok r2 G2 L2 Enx. pose proof (Hnb _ _ eq_refl) as HL2. destruct ok; [apply IH, HL2|split; [reflexivity|exact HL2]].
      + destruct (c =? 41).
        * destruct (paren - 1 <? 0); [split; [reflexivity|exact H1]|].
          nsn r1 (proj1 H1) ok r2 G2 L2 Enx. pose proof (Hnb _ _ eq_refl) as HL2. destruct ok; [apply IH, HL2|split; [reflexivity|exact HL2]].
        * nsn r1 (proj1 H1) ok r2 G2 L2 Enx. pose proof (Hnb _ _ eq_refl) as HL2. destruct ok; [apply IH, HL2|split; [reflexivity|exact HL2]].
  Qed.
  Lemma parseLinkDestination_up f r : Live r ->
    parseLinkDestination f (up r) = upP (parseLinkDestination f r) /\ GR (snd (parseLinkDestination f r)) /\
    (spanValid (fst (fst (parseLinkDestination f r))) = true ->
       Live (snd (parseLinkDestination f r)) /\ 0 <= fst (snd (fst (parseLinkDestination f r))) <= T /\ snd (snd (fst (parseLinkDestination f r))) <= T).
  Proof.
    intros H. unfold parseLinkDestination. cs r H c r0 H0. assert (P0 : 0 <= r_pos r0 < T) by (destruct H0 as [(_ & _ & X & _) Y]; lia).
    destruct (c =? 60); [rewrite pos_up; apply ld_angle_up; [apply H0|exact P0]|].
    destruct (negb (isASCIIControl c) && negb (c =? 32) && negb (c =? 41)); [|split; [reflexivity|]; split; [apply H0|nov]].
    cbv zeta. destruct (ld_bare_up f r0 0 H0) as [E L]. rewrite E, !pos_up. split; [reflexivity|]. split; [apply L|]. intros _. cbn [fst snd]. split; [exact L|]. destruct L as [(_ & _ & X & _) Y]. lia.
  Qed.

  (* ---------------- parseLinkTitle ---------------- *)
  Lemma lt_loop_up : forall f r start term, GR r -> 0 <= start < T -> term <> 32 -> isEOLz term = false ->
    lt_loop f (up r) start term = upP (lt_loop f r start term) /\ GR (snd (lt_loop f r start term)) /\
    (spanValid (fst (fst (lt_loop f r start term))) = true ->
       Live (snd (lt_loop f r start term)) /\ 0 <= fst (snd (fst (lt_loop f r start term))) <= T /\ snd (snd (fst (lt_loop f r start term))) <= T).
  Proof.
    induction f as [|f IH]; intros r start term G Hst Ht1 Ht2; cbn [lt_loop]; [split; [reflexivity|]; split; [exact G|nov]|].
    ns r G ok r1 G1 L1. destruct ok; cbn [negb]; [|split; [reflexivity|]; split; [exact G1|nov]].
    specialize (L1 eq_refl). csn r1 L1 c r2 H2 Ecx. destruct (c =? 92).
    - ns r2 (proj1 H2) ok2 r3 G3 L3. destruct ok2; cbn [negb]; [|split; [reflexivity|]; split; [exact G3|nov]]. apply IH; assumption.
    - destruct (Z.eqb_spec c term) as [Et|Nt]; [|apply IH; [apply H2|assumption|assumption|assumption]].
      nsn r2 (proj1 H2) ok3 r3 G3 L3 Enx. rewrite !prev_up. split; [reflexivity|]. split; [exact G3|]. intros _. cbn [fst snd].
      split; [apply (next_byte r1 c r2 ok3 r3 L1 Ecx); [congruence|rewrite Et; exact Ht2|exact Enx]|]. destruct G3 as (_ & _ & _ & X). lia.
  Qed.
  Lemma parseLinkTitle_up f r : Live r ->
    parseLinkTitle f (up r) = upP (parseLinkTitle f r) /\ GR (snd (parseLinkTitle f r)) /\
    (spanValid (fst (fst (parseLinkTitle f r))) = true ->
       Live (snd (parseLinkTitle f r)) /\ 0 <= fst (snd (fst (parseLinkTitle f r))) <= T /\ snd (snd (fst (parseLinkTitle f r))) <= T).
  Proof.
    intros H. unfold parseLinkTitle. cs r H c r0 H0.
    destruct (negb ((c =? 39) || (c =? 34) || (c =? 40))) eqn:Eq; [split; [reflexivity|]; split; [apply H0|nov]|].
    rewrite pos_up. apply lt_loop_up; [apply H0|destruct H0 as [(_ & _ & X & _) Y]; lia| |].
    - destruct (Z.eqb_spec c 40); [lia|]. destruct (Z.eqb_spec c 39); [lia|]. destruct (Z.eqb_spec c 34); [lia|]. discriminate Eq.
    - apply eol_ne. destruct (Z.eqb_spec c 40); [lia|]. destruct (Z.eqb_spec c 39); [lia|]. destruct (Z.eqb_spec c 34); [lia|]. discriminate Eq.
  Qed.

  (* ================= Collect.v ================= *)
  Lemma cur_up r : Live r -> cur (up r) = cur r.
  Proof. intros H. unfold cur. rewrite (current_up r H). reflexivity. Qed.
  Lemma jumped_up r : jumped (up r) = jumped r. Proof. reflexivity. Qed.

  Lemma skipSameNode_up : forall f r node, GR r -> skipSameNode f (up r) node = up (skipSameNode f r node) /\ GR (skipSameNode f r node).
  Proof.
    induction f as [|f IH]; intros r node G; cbn [skipSameNode]; [split; [reflexivity|exact G]|].
    ns r G ok r1 G1 L1. destruct ok; cbn [negb]; [|split; [reflexivity|exact G1]].
    rewrite curNode_up. pose proof (GR_curNode r1 G1) as G2. destruct (curNode r1) as [n r2]. cbn [fst snd] in *.
    destruct n as [m|]; [|split; [reflexivity|exact G2]]. destruct (_ && _ && _); [apply IH, G2|split; [reflexivity|exact G2]].
  Qed.
  Lemma nextN_up : forall n r, GR r -> nextN n (up r) = up (nextN n r) /\ GR (nextN n r).
  Proof.
    induction n as [|n IH]; intros r G; cbn [nextN]; [split; [reflexivity|exact G]|]. rewrite (next_up r G). cbn [snd]. apply IH, GR_next, G.
  Qed.

  Ltac tl IH e x Gx :=
    rewrite ?pos_up; destruct (e <=? r_pos x); [reflexivity|];
    let ok := fresh "ok" in let r1 := fresh "r" in let G1 := fresh "G" in let L1 := fresh "L" in let En := fresh "En" in
    nsn x Gx ok r1 G1 L1 En; destruct ok; cbn [negb]; [|reflexivity]; rewrite ?jumped_up, ?prev_up, ?pos_up; destruct (jumped r1); apply IH; assumption.

  Lemma collect_loop_up : forall f r e tk esc ps acc, GR r -> e <= T ->
    collect_loop f (up r) e tk esc ps acc = collect_loop f r e tk esc ps acc.
  Proof.
    induction f as [|f IH]; intros r e tk esc ps acc G He; [reflexivity|]. cbn [collect_loop]. rewrite pos_up.
    destruct (Z.leb_spec e (r_pos r)) as [Le|Le]; [reflexivity|].
    rewrite curNode_up. pose proof (GR_curNode r G) as G0. pose proof (curNode_fields r) as F0. cbv zeta in F0.
    destruct (curNode r) as [cn r0]. cbn [fst snd] in *. destruct F0 as (_ & P0 & _).
    assert (L0 : Live r0) by (split; [exact G0|lia]).
    destruct (okind cn =? IndentKind).
    - rewrite !pos_up, !prev_up.
      match goal with |- context [skipSameNode (S f) (up r0) ?nd] => destruct (skipSameNode_up (S f) r0 nd G0) as [E1 G1]; rewrite E1; set (r1 := skipSameNode (S f) r0 nd) in * end.
      rewrite pos_up. apply IH; assumption.
    - destruct (esc && (okind cn =? UnparsedKind)); [|tl IH e r0 G0].
      csn r0 L0 c r1 H1 Ecx. destruct (c =? 92).
      + nsn r1 (proj1 H1) ok r2 G2 L2 Enx. rewrite !pos_up, !prev_up. destruct ok; cbn [andb]; [|tl IH e r2 G2].
        specialize (L2 eq_refl). destruct (Z.ltb_spec (r_pos r2) e) as [Lt|Lt]; cbn [andb]; [|tl IH e r2 G2].
        rewrite (cur_up r2 L2). destruct (isASCIIPunctuation (cur r2)); tl IH e r2 G2.
      + destruct (c =? 38); [|tl IH e r1 (proj1 H1)].
        rewrite (remaining_up r1 (proj1 H1)). pose proof (GR_remaining r1 (proj1 H1)) as G2. destruct (remainingNodeBytes r1) as [rem r2]. cbn [fst snd] in *.
        destruct (0 <=? parseCharacterEscape rem); [|tl IH e r2 G2].
        rewrite !pos_up. destruct (nextN_up (Z.to_nat (parseCharacterEscape rem - 1)) r2 G2) as [E3 G3]. rewrite E3.
        set (r3 := nextN _ r2) in *. nsn r3 G3 ok4 r4 G4 L4 Enx. destruct ok4; cbn [negb]; [|reflexivity]. apply IH; assumption.
  Qed.
  Lemma collectTextNodes_up f ik p e tk esc : Forall gE ik -> 0 <= p <= T -> e <= T ->
    collectTextNodes f (newReader Q ik p) e tk esc = collectTextNodes f (newReader A ik p) e tk esc.
  Proof.
    intros G Hp He. unfold collectTextNodes. change (newReader Q ik p) with (up (newReader A ik p)).
    rewrite collect_loop_up, pos_up; [reflexivity| |exact He]. split; [reflexivity|]. split; [exact G|]. cbn. lia.
  Qed.

  Lemma tlr_skip_up K acc e : e <= T -> (forall x, GR x -> K (up x) = K x) -> forall k x, GR x -> tlr_skip K acc e k (up x) = tlr_skip K acc e k x.
  Proof.
    intros He HK. induction k as [|k IH]; intros x G; cbn [tlr_skip]; [reflexivity|]. rewrite pos_up.
    destruct (Z.ltb_spec (r_pos x) e) as [Lt|Lt]; cbn [andb]; [|apply HK, G].
    assert (L : Live x) by (split; [exact G|lia]). rewrite (cur_up x L). destruct (isSpaceTabOrLineEnding (cur x)); [|apply HK, G].
    rewrite (current_up x L). cbn [snd]. pose proof (GR_current x G) as G1. set (x1 := snd (current x)) in *.
    nsn x1 G1 ok x2 G2 L2 Enx. destruct ok; [apply IH, G2|apply HK, G2].
  Qed.
  Lemma tlr_loop_up : forall f r e acc, GR r -> e <= T -> tlr_loop f (up r) e acc = tlr_loop f r e acc.
  Proof.
    induction f as [|f IH]; intros r e acc G He; [reflexivity|]. rewrite !tlr_loop_S, pos_up.
    destruct (Z.leb_spec e (r_pos r)) as [Le|Le]; [reflexivity|]. assert (L : Live r) by (split; [exact G|lia]).
    csn r L c r1 H1 Ecx. destruct (isSpaceTabOrLineEnding c); cbv zeta.
    - nsn r1 (proj1 H1) ok r2 G2 L2 Enx. destruct ok; cbn [negb]; [|reflexivity]. apply tlr_skip_up; [exact He| |exact G2]. intros x Gx. apply IH; assumption.
    - nsn r1 (proj1 H1) ok r2 G2 L2 Enx. destruct ok; cbn [negb]; [|reflexivity]. apply IH; assumption.
  Qed.
  Lemma tlrs_up f ik s e : Forall gE ik -> 0 <= s <= T -> e <= T ->
    transformLinkReferenceSpan f Q ik s e = transformLinkReferenceSpan f A ik s e.
  Proof.
    intros G Hs He. unfold transformLinkReferenceSpan. change (newReader Q ik s) with (up (newReader A ik s)).
    rewrite tlr_loop_up; [reflexivity| |exact He]. split; [reflexivity|]. split; [exact G|]. cbn. lia.
  Qed.

  (* ================= ocp_loop ================= *)
  Lemma nodeIdx_noneT ik : Forall gE ik -> nodeIndexForPosition ik T < 0.
  Proof.
    intros G. unfold nodeIndexForPosition. apply (nodeIdx_none O). intros u Hu. rewrite Forall_forall in G. destruct (G u Hu) as (_ & _ & X & _). exact X.
  Qed.
  Lemma live_of_idx ik x : GR x -> Forall gE ik -> 0 <= nodeIndexForPosition ik (r_pos x) -> Live x.
  Proof.
    intros G Gi H. split; [exact G|]. destruct G as (_ & _ & P & _). destruct (Z.eq_dec (r_pos x) T) as [E|N]; [|lia].
    rewrite E in H. pose proof (nodeIdx_noneT ik Gi). lia.
  Qed.
  Lemma gE_from ik i : Forall gE ik -> Forall gE (from_ ik i).
  Proof. intros G. unfold from_. rewrite <- (firstn_skipn (Z.to_nat i) ik) in G. apply Forall_app in G. apply G. Qed.
  (* the reader at T: on A the end of the source, on Q an exhausted reader *)
  Lemma endA_current r : GR r -> r_pos r = T -> current r = (0, r).
  Proof. intros (A1 & _) E. unfold current. rewrite A1, lenA, E. destruct (Z.leb_spec T T); [reflexivity|lia]. Qed.
  Lemma endQ_current r : GR r -> r_pos r = T -> Dead (snd (current (up r))).
  Proof.
    intros (A1 & A2 & _) E.
    assert (Ecn : curNode r = (None, withSpans r [])).
    { unfold curNode. cbv zeta. destruct (Z.ltb_spec (nodeIndexForPosition (r_spans r) (r_pos r)) 0) as [L|L]; [reflexivity|].
      rewrite E in L. pose proof (nodeIdx_noneT _ A2). lia. }
    unfold current. cbn [up r_src r_pos]. rewrite E. destruct (Z.leb_spec (len Q) T); [lia|]. rewrite curNode_up, Ecn. cbn [fst snd okind].
    destruct (0 =? IndentKind); [reflexivity|]. destruct (at_ Q T =? 0); reflexivity.
  Qed.

  Lemma ocp_loop_up : forall fuel F orig orphan r res, Live r -> Forall gE (bik orig) ->
    ocp_loop fuel F Q orig orphan (up r) res = ocp_loop fuel F A orig orphan r res.
  Proof.
    induction fuel as [|f IH]; intros F orig orphan r res HL Gik; [reflexivity|]. cbn [ocp_loop].
    (* the label *)
    destruct (parseLinkLabel_up F r HL) as (E1 & G1 & V1). rewrite E1. unfold upP.
    destruct (parseLinkLabel F r) as [[[lsa lsb] [lia0 lib]] r1]. cbn [fst snd] in *.
    destruct (spanValid (lsa, lsb)); cbn [negb]; [|reflexivity]. destruct (V1 eq_refl) as (L1 & Bl1 & Bl2). clear V1.
    csn r1 L1 c r2 H2 Ec2. destruct (Z.eqb_spec c 58) as [E58|N58]; cbn [negb]; [|reflexivity].
    nsn r2 (proj1 H2) ok3 r3 G3 L3' En3. assert (L3 : Live r3) by (apply (next_byte r1 c r2 ok3 r3 L1 Ec2); [lia|apply eol_ne; lia|exact En3]).
    destruct (sls_up F r3 L3) as (E4 & G4 & V4). rewrite E4. unfold upP. destruct (skipLinkSpace F r3) as [ok4 r4]. cbn [fst snd] in *.
    destruct ok4; cbn [negb]; [|reflexivity]. specialize (V4 eq_refl).
    destruct (parseLinkDestination_up F r4 V4) as (E5 & G5 & V5). rewrite E5. unfold upP.
    destruct (parseLinkDestination F r4) as [[[dsa dsb] [dta dtb]] r5]. cbn [fst snd] in *.
    destruct (spanValid (dsa, dsb)); cbn [negb]; [|reflexivity]. destruct (V5 eq_refl) as (L5 & Bd1 & Bd2). clear V5.
    destruct (readEOL_up F r5 L5) as (E6 & G6 & D6). rewrite E6. unfold upP. destruct (readEOL F r5) as [destEOL r6]. cbn [fst snd] in *.
    rewrite !pos_up.
    rewrite (tlrs_up F (bik orig) lia0 lib Gik Bl1 Bl2), (collectTextNodes_up F (bik orig) lia0 lib TextKind false Gik Bl1 Bl2),
            (collectTextNodes_up F (bik orig) dta dtb TextKind true Gik Bd1 Bd2).
    set (labD := Inl LinkLabelKind lia0 lib 0 _ _). set (dstD := Inl LinkDestinationKind dsa dsb 0 [] _).
    destruct (Z_lt_ge_dec (r_pos r6) T) as [Lt6|Ge6].
    - (* the reader behind the destination line is live *)
      assert (L6 : Live r6) by (split; assumption).
      csn r6 L6 c6 r7 H7 Ec6. destruct ((destEOL <? 0) && (r_pos r6 =? r_pos r5) && negb (c6 =? 0)); [reflexivity|].
      destruct (sls_up F r7 H7) as (E8 & G8 & V8). rewrite E8. unfold upP. destruct (skipLinkSpace F r7) as [ok8 r8]. cbn [fst snd] in *.
      destruct ok8; cbn [negb]; [|reflexivity]. specialize (V8 eq_refl).
      destruct (parseLinkTitle_up F r8 V8) as (E9 & G9 & V9). rewrite E9. unfold upP.
      destruct (parseLinkTitle F r8) as [[[tsa tsb] [tta ttb]] r9]. cbn [fst snd] in *.
      assert (Hrec : forall res2, 0 <= nodeIndexForPosition (bik orig) (r_pos r6) ->
                ocp_loop f F Q (set_bik (set_bstart orig (r_pos r6)) (from_ (bik orig) (nodeIndexForPosition (bik orig) (r_pos r6)))) orphan (up r6) res2 =
                ocp_loop f F A (set_bik (set_bstart orig (r_pos r6)) (from_ (bik orig) (nodeIndexForPosition (bik orig) (r_pos r6)))) orphan r6 res2).
      { intros res2 _. apply IH; [exact L6|]. destruct orig; cbn [set_bik set_bstart bik]. apply gE_from, Gik. }
      destruct (spanValid (tsa, tsb)); cbn [negb].
      + destruct (V9 eq_refl) as (L9 & Bt1 & Bt2). clear V9.
        destruct (readEOL_up F r9 L9) as (E10 & G10 & D10). rewrite E10. unfold upP. destruct (readEOL F r9) as [titleEOL r10]. cbn [fst snd] in *.
        rewrite !pos_up. destruct (titleEOL <? 0).
        * destruct (destEOL <? 0); reflexivity.
        * rewrite (collectTextNodes_up F (bik orig) tta ttb TextKind true Gik Bt1 Bt2).
          destruct (Z.ltb_spec (nodeIndexForPosition (bik orig) (r_pos r10)) 0) as [Lf|Lf]; [reflexivity|].
          apply IH; [apply (live_of_idx (bik orig) r10 G10 Gik Lf)|]. destruct orig; cbn [set_bik set_bstart bik]. apply gE_from, Gik.
      + destruct (destEOL <? 0); [reflexivity|].
        destruct (Z.ltb_spec (nodeIndexForPosition (bik orig) (r_pos r6)) 0) as [Lf|Lf]; [reflexivity|]. apply Hrec, Lf.
    - (* the reader is at T: on both sides the definition ends the paragraph *)
      assert (E6T : r_pos r6 = T) by (destruct G6 as (_ & _ & X & _); lia).
      assert (Hd : 0 <= destEOL) by (destruct D6 as [[_ X]|X]; [lia|exact X]).
      replace (destEOL <? 0) with false by (symmetry; apply Z.ltb_ge; exact Hd). cbn [andb].
      assert (Hfc : (nodeIndexForPosition (bik orig) (r_pos r6) <? 0) = true) by (rewrite E6T; apply Z.ltb_lt, nodeIdx_noneT, Gik).
      rewrite Hfc.
      (* A *)
      rewrite (endA_current r6 G6 E6T). unfold skipLinkSpace at 2. rewrite (endA_current r6 G6 E6T). cbn [Z.eqb negb].
      (* Q *)
      pose proof (endQ_current r6 G6 E6T) as Dd7. destruct (current (up r6)) as [c6 r7']. cbn [snd] in Dd7.
      pose proof (dead_skipLinkSpace F r7' Dd7) as Dd8. destruct (skipLinkSpace F r7') as [ok8 r8']. cbn [snd] in Dd8.
      destruct ok8; cbn [negb]; [|reflexivity].
      pose proof (dead_title F r8' Dd8) as Tn. destruct (parseLinkTitle F r8') as [[ts tt] r9']. cbn [fst] in Tn. subst ts.
      rewrite svn. cbn [negb]. reflexivity.
  Qed.
End TR.
(* ================= onCloseParagraph ================= *)
Require Import EolGenRdrFuel EolGenCrlfRdrCor QS2Drv2 SliceBase StreamFuel LA1 ReparsePlain.

Lemma noNul_at l i : noNul l -> 0 <= i < len l -> at_ l i <> 0.
Proof.
  intros H Hi. unfold at_. unfold noNul in H. rewrite Forall_forall in H. apply H. destruct (Z.ltb_spec i 0); [lia|]. apply nth_In. unfold len in Hi. lia.
Qed.
Lemma spW_len src src' : forall ik, spW src ik = true -> Forall (fun u => iend u <= len src') ik -> spW src' ik = true.
Proof.
  induction ik as [|u r IH]; intros H G; [reflexivity|]. cbn [spW] in *. inversion G as [|? ? Gu Gr]; subst.
  repeat (apply andb_true_iff in H; destruct H as [H ?]). rewrite (IH ltac:(assumption) Gr).
  repeat (apply andb_true_iff; split); try assumption; try reflexivity. apply Z.leb_le. exact Gu.
Qed.

(* the entries of an open paragraph under la are good reader spans of upto Q T *)
Lemma para_gE Q T ik lo : T < len Q -> 0 <= lo -> tileS Q lo T (map ispan ik) -> Forall (eok Q ParagraphKind) ik -> Forall (gE Q T) ik.
Proof.
  intros HT Hlo Ht Hf. apply Forall_forall. intros u Hu. rewrite Forall_forall in Hf. specialize (Hf u Hu).
  pose proof (tileS_In Q lo T _ (ispan u) Ht (in_map ispan _ _ Hu)) as (A & B & C). cbn [ispan fst snd] in A, B, C.
  destruct (eok_para Q u Hf) as [(K & Ke & _)|(K & s1 & s2 & s3 & s4)].
  - split; [lia|]. split; [lia|]. split; [exact C|]. intros N. contradiction.
  - split; [lia|]. split; [exact s1|]. split; [exact C|]. intros _ E. destruct s4 as [s4|s4]; [lia|]. rewrite E in s4. exact s4.
Qed.

Theorem ocp_local Q T x lo : noNul Q -> 0 <= T <= len Q -> bkind x = ParagraphKind -> 0 <= lo ->
  tileS Q lo T (map ispan (bik x)) -> Forall (eok Q ParagraphKind) (bik x) -> indOK (bik x) ->
  onCloseParagraph (upto Q T) x = onCloseParagraph Q x.
Proof.
  intros HN HT HK Hlo Ht Hf Hi. destruct (Z.eq_dec T (len Q)) as [->|NT]; [rewrite StreamFuel.upto_all; reflexivity|].
  assert (HT' : 0 <= T < len Q) by lia. assert (HN' : forall i, 0 <= i < len Q -> at_ Q i <> 0) by (intros i Hi'; apply noNul_at; assumption).
  pose proof (para_gE Q T (bik x) lo ltac:(lia) Hlo Ht Hf) as Gik.
  unfold onCloseParagraph. destruct (bik x) as [|first rest] eqn:Eik; [reflexivity|]. rewrite <- Eik in *.
  rewrite HK. change (ParagraphKind =? SetextHeadingKind) with false. cbv iota zeta.
  set (A := upto Q T). assert (LA : len A = T) by (apply (lenA Q T HT')).
  assert (Gf : gE Q T first) by (rewrite Eik in Gik; apply (Forall_inv Gik)). destruct Gf as (F1 & F2 & F3 & _).
  assert (Hw : spW A (bik x) = true).
  { destruct (tileS_spW Q (bik x) lo T Hlo ltac:(lia) Ht) as [W _]. apply (spW_len Q A _ W). rewrite LA. revert Gik. apply Forall_impl. intros u (_ & _ & X & _). exact X. }
  pose proof (la_ibudget Q T ltac:(lia) (length (bik x)) (bik x) lo (le_n _) Hlo Ht Hf Hi) as Hib.
  pose proof (tileS_le _ _ _ _ Ht) as Hle.
  pose proof (nu_new A (bik x) (istart first) Hw) as Hnu.
  assert (LQ : T < len Q) by lia.
  change (newReader Q (bik x) (istart first)) with (up Q (newReader A (bik x) (istart first))).
  rewrite (ocp_loop_up Q T HT' HN' _ _ x None (newReader A (bik x) (istart first)) []); [| |exact Gik].
  2:{ split; [|cbn; lia]. split; [reflexivity|]. split; [exact Gik|]. cbn. lia. }
  apply (ocp_rfuel A); try assumption; try (apply PL_new; exact Hw); unfold len in *; lia.
Qed.
Print Assumptions ocp_local.

(* the form used by the spine lemmas (ReparseSI.ocpEq / spineEq) *)
Theorem la_ocpEq Q T y : noNul Q -> T <= len Q -> la Q T y -> isOpen y = true -> isParaK (bkind y) = true -> ocpEq Q T y.
Proof.
  intros HN HT Hla Ho Hk. apply la_eq in Hla. destruct Hla as (Hs & _ & Hsx & Hbody & _).
  assert (Hleaf : isLeafK (bkind y) = true).
  { unfold isParaK in Hk. unfold isLeafK. apply orb_true_iff in Hk. destruct Hk as [E|E]; apply Z.eqb_eq in E; rewrite E; reflexivity. }
  unfold body in Hbody. rewrite Hleaf in Hbody. destruct Hbody as (Ht & He & Hi). specialize (Hi Hk).
  unfold hiOf in Ht. unfold isOpen in Ho. rewrite Ho in Ht.
  assert (HK : bkind y = ParagraphKind).
  { unfold isParaK in Hk. apply orb_true_iff in Hk. destruct Hk as [E|E]; apply Z.eqb_eq in E; [exact E|]. exfalso. apply Hsx; [|exact E]. apply Z.ltb_lt. exact Ho. }
  rewrite HK in He. unfold ocpEq.
  apply (ocp_local Q T (set_bend y T) (bstart y)); try assumption; try lia; destruct y; cbn [set_bend bkind bik bstart] in *; assumption.
Qed.
Theorem la_spineEq Q T x : noNul Q -> T <= len Q -> la Q T x -> spineEq Q T x.
Proof. intros HN HT Hla d y Hy Ho Hk. apply (la_ocpEq Q T y HN HT (la_getAt Q T d x y Hla Hy) Ho Hk). Qed.
Print Assumptions la_spineEq.
