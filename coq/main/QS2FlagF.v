(* QS2FlagF.v -- T58b part F: onCloseParagraph at the end of input.
   When the last entry of the paragraph ends at hi (the end the paragraph is closed with), is an Unparsed entry and is not blank,
   the last block produced by the link-reference-definition extraction ends at hi or later (it is the rest of the paragraph, or a
   definition whose line ending is the end of the last entry).  The proof follows LAR2.ocp_loop_ok. *)
From Coq Require Import List ZArith Lia Bool.
Import ListNotations.
Require Import Base Tree Rdr Link Collect LP Rec17 Rec18 BSRdr LADef LA1 LA2 LARec LAR1 LAR2 LAR4.
Open Scope Z_scope.

Section EofRd.
  Variable src : bytes.
  Variable ik : list inline.
  Hypothesis He : ENT src ik.
  Variables lo hi : Z.
  Hypothesis Hlo : 0 <= lo.
  Hypothesis Hhi : hi <= len src.
  Hypothesis Ht : tileS src lo hi (map ispan ik).
  Variable mu : reader -> nat.
  Hypothesis Hmn : forall r, RS src ik r -> fst (next r) = true -> (mu (snd (next r)) < mu r)%nat.
  Hypothesis Hmc : forall r, RS src ik r -> mu (snd (current r)) = mu r.
  Variable rfuel : nat.
  Hypothesis Hmf : forall r, RS src ik r -> (mu r < rfuel)%nat.
  (* the last entry *)
  Variable preL : list inline.
  Variable ul : inline.
  Hypothesis HikL : ik = preL ++ [ul].
  Hypothesis HulK : ikind ul = UnparsedKind.
  Hypothesis HulE : iend ul = hi.
  Hypothesis HulNB : exists q, istart ul <= q < iend ul /\ isSpaceTabOrLineEnding (at_ src q) = false.

  Notation RSx := (RS src ik).
  Notation InSx := (InS src ik).
  Notation OutSx := (OutS src ik).

  Lemma ul_In : In ul ik. Proof. rewrite HikL. apply in_or_app. right. left. reflexivity. Qed.
  Lemma ul_ent : entOK src ul. Proof. apply (In_entOK src ik He), ul_In. Qed.
  Lemma before_ul u : In u ik -> istart u <= istart ul.
  Proof.
    intros Hu. rewrite HikL in Hu. apply in_app_or in Hu. destruct Hu as [Hu|[<-|[]]]; [|lia].
    pose proof He as He'. rewrite HikL in He'. destruct (ENT_sorted_app src preL ul [] He') as [A _]. specialize (A u Hu).
    destruct (In_entOK src ik He u ltac:(rewrite HikL; apply in_or_app; left; exact Hu)) as (_ & B & _). lia.
  Qed.

  Lemma Out_pos r : OutSx r -> r_pos r = hi.
  Proof. intros (_ & _ & _ & (pre & u & Ei & Ep) & _). rewrite HikL in Ei. apply app_inj_tail in Ei. destruct Ei as [_ <-]. rewrite Ep. exact HulE. Qed.

  Lemma eol_hi r eol r' : eolOK src ik r eol r' -> OutSx r' -> hi <= eol.
  Proof.
    intros (_ & _ & Hg & _) Ho. pose proof (Out_pos r' Ho) as Ep. destruct ul_ent as (U1 & U2 & _).
    destruct (Z.le_gt_cases hi eol) as [L|L]; [exact L|]. exfalso. apply (Hg (hi - 1)); [lia|]. exists ul. split; [apply ul_In|lia].
  Qed.

  (* ---- white space ---- *)
  Definition WSX (a b : Z) : Prop :=
    forall q, a <= q < b -> forall u, In u ik -> ikind u = UnparsedKind -> istart u <= q < iend u -> isSpaceTabOrLineEnding (at_ src q) = true.
  Lemma WSX_empty a b : b <= a -> WSX a b. Proof. intros H q Hq. lia. Qed.
  Lemma WSX_app a b c : WSX a b -> WSX b c -> WSX a c.
  Proof. intros H1 H2 q Hq. destruct (Z.lt_ge_cases q b); [apply H1|apply H2]; lia. Qed.

  Lemma cell_ws u pos c : ikind u = UnparsedKind -> chOK src u pos c -> isSpaceTabOrLineEnding c = true -> isSpaceTabOrLineEnding (at_ src pos) = true.
  Proof.
    intros Hk [[E _]|[_ [[_ ->]|[_ Hc]]]] Hw; [rewrite Hk in E; discriminate|exact Hw|].
    exfalso. destruct Hc as [->|[-> | ->]]; discriminate.
  Qed.

  Lemma step_WS a r c r1 : RSx r -> current r = (c, r1) -> isSpaceTabOrLineEnding c = true -> a <= r_pos r -> WSX a (r_pos r) ->
    WSX a (r_pos (snd (next r1))).
  Proof.
    intros Hr Ec Hw Ha Hn. destruct (RS_current src ik He r Hr) as (c' & r' & Ec' & Hr' & Ep & Ev & Hm). rewrite Ec in Ec'. inversion Ec'; subst c' r'. clear Ec'.
    destruct Hm as [(u & t & Hi & Hi1 & Hc)|(Ho & E1 & _)].
    - pose proof (InS_In src ik r u t Hi) as Hu. pose proof Hi as (_ & _ & Hp & _).
      assert (Hcell : forall u', In u' ik -> ikind u' = UnparsedKind -> istart u' <= r_pos r < iend u' -> isSpaceTabOrLineEnding (at_ src (r_pos r)) = true).
      { intros u' Hu' Hk' Hp'. assert (E : u = u') by (apply (In_uniq src ik He u u' (r_pos r)); assumption). subst u'. eapply cell_ws; eassumption. }
      destruct (next_In src ik r1 u t He Hi1) as [[Eok Hs]|(Eok & Et & Ho & Epos & Eend & Eprev)].
      + assert (Hgap : forall q, r_pos r1 < q < r_pos (snd (next r1)) -> ~ inEnt ik q) by (intros q Hq; eapply step_gap; eassumption).
        intros q Hq u' Hu' Hk' Hp'. destruct (Z.lt_ge_cases q (r_pos r)) as [L|L]; [apply (Hn q ltac:(lia) u'); assumption|].
        destruct (Z.eq_dec q (r_pos r)) as [->|N]; [apply (Hcell u'); assumption|]. exfalso. apply (Hgap q); [lia|]. exists u'. split; assumption.
      + intros q Hq u' Hu' Hk' Hp'. destruct (Z.lt_ge_cases q (r_pos r)) as [L|L]; [apply (Hn q ltac:(lia) u'); assumption|].
        replace q with (r_pos r) in * by lia. apply (Hcell u'); assumption.
    - subst r1. rewrite (next_Out src ik r Ho). cbn [fst snd]. exact Hn.
  Qed.

  Lemma sls_loop_ws : forall fuel r, RSx r -> WSX (r_pos r) (r_pos (snd (skipLinkSpace_loop fuel r))).
  Proof.
    induction fuel as [|f IH]; intros r Hr; cbn [skipLinkSpace_loop]; [apply WSX_empty; cbn; lia|].
    destruct (RS_current src ik He r Hr) as (c & r1 & Ec & Hr1 & Ep & _ & _). rewrite Ec.
    destruct (isSpaceTabOrLineEnding c) eqn:Ew.
    - pose proof (step_NX src ik He (r_pos r) r c r1 Hr Ec (ws_tx c Ew) ltac:(lia) ltac:(apply NX_empty; lia)) as (S1 & S2 & _).
      pose proof (step_WS (r_pos r) r c r1 Hr Ec Ew ltac:(lia) ltac:(apply WSX_empty; lia)) as S3.
      destruct (next r1) as [ok r2]. cbn [fst snd] in *. destruct ok; [|exact S3].
      eapply WSX_app; [exact S3|apply IH, S1].
    - cbn [snd]. apply WSX_empty. lia.
  Qed.
  Lemma sls_ws fuel r : RSx r -> WSX (r_pos r) (r_pos (snd (skipLinkSpace fuel r))).
  Proof.
    intros Hr. unfold skipLinkSpace. destruct (RS_current src ik He r Hr) as (c & r1 & Ec & Hr1 & Ep & _ & _). rewrite Ec.
    destruct (c =? 0); [cbn [snd]; apply WSX_empty; lia|]. rewrite <- Ep. apply sls_loop_ws, Hr1.
  Qed.

  (* white space cannot be skipped from the start of an entry to the end of the paragraph *)
  Lemma ws_not_to_end r u t fuel : InSx r u t -> r_pos r = istart u -> OutSx (snd (skipLinkSpace fuel r)) -> False.
  Proof.
    intros Hi Ep Ho. pose proof (sls_ws fuel r (or_introl (ex_intro _ u (ex_intro _ t Hi)))) as Hw. rewrite (Out_pos _ Ho) in Hw.
    destruct HulNB as (q & Hq & Hnw). pose proof (before_ul u (InS_In src ik r u t Hi)) as Hb.
    rewrite (Hw q ltac:(lia) ul ul_In HulK Hq) in Hnw. discriminate.
  Qed.

  (* ---- the loop ---- *)
  Definition EInv (orig : block) (r : reader) (u : inline) (t : list inline) : Prop :=
    (exists pre, ik = pre ++ u :: t) /\ bik orig = u :: t /\ InSx r u t /\ r_pos r = istart u /\ bend orig = hi.
  Definition Goal_ (L : list block) : Prop := exists pre x, L = pre ++ [x] /\ hi <= bend x.

  Lemma G_orig result orig : bend orig = hi -> Goal_ (result ++ [orig]).
  Proof. intros E. exists result, orig. split; [reflexivity|lia]. Qed.
  Lemma G_def result s e k : hi <= e -> Goal_ (result ++ [refDefBlock s e k]).
  Proof. intros E. exists result, (refDefBlock s e k). split; [reflexivity|exact E]. Qed.
  Lemma bend_cut o pos l : bend (set_bik (set_bstart o pos) l) = bend o. Proof. destruct o; reflexivity. Qed.
  Lemma bik_cut o pos l : bik (set_bik (set_bstart o pos) l) = l. Proof. destruct o; reflexivity. Qed.

  (* the cut after a definition that ends at eol, with the reader r' just after it *)
  Lemma cut_hi orig r u t result eol kids r' (k : block -> list block) : EInv orig r u t -> RSx r' -> istart u <= r_pos r' ->
    (OutSx r' -> hi <= eol) -> (forall u' t', InSx r' u' t' -> r_pos r' = istart u') ->
    (forall orig' u' t', EInv orig' r' u' t' -> Goal_ (k orig')) ->
    Goal_ (if nodeIndexForPosition (u :: t) (r_pos r') <? 0 then result ++ [refDefBlock (istart u) eol kids]
           else k (set_bik (set_bstart orig (r_pos r')) (from_ (u :: t) (nodeIndexForPosition (u :: t) (r_pos r'))))).
  Proof.
    intros ((pre & Ei) & Eb & Hi & Ep & Ee) Hr' Hle Hout Hst Hk.
    destruct Hr' as [(u' & t' & Hi')|Ho'].
    - destruct (cut_in src ik He pre u t r' u' t' Ei Hi' Hle) as [C1 C2]. rewrite C1, C2. apply (Hk _ u' t').
      split; [destruct Hi' as (_ & (p1 & p2 & Ei' & _) & _); exists (p1 ++ p2); rewrite <- app_assoc; exact Ei'|].
      split; [apply bik_cut|]. split; [exact Hi'|]. split; [apply (Hst u' t' Hi')|rewrite bend_cut; exact Ee].
    - rewrite (cut_out src ik pre u t r' Ei Ho'). apply G_def, Hout, Ho'.
  Qed.

  Lemma ocp_last_hi : forall fuel orig r u t result, EInv orig r u t -> Goal_ (ocp_loop fuel rfuel src orig None r result).
  Proof.
    induction fuel as [|f IH]; intros orig r u t result HI; [cbn [ocp_loop]; apply G_orig, HI|].
    pose proof HI as ((pre & Ei) & Eb & Hi & Ep & Ee).
    assert (Hexit : Goal_ (result ++ [orig])) by (apply G_orig, Ee).
    assert (Hr : RSx r) by (left; eauto). pose proof (rfuel_pos src ik mu rfuel Hmf r Hr) as Hfu.
    cbn [ocp_loop]. cbv zeta.
    (* the label *)
    pose proof (parseLinkLabel_spec src ik He lo hi Hhi Ht mu Hmn Hmc rfuel r Hr) as PL. cbv zeta in PL.
    destruct (parseLinkLabel rfuel r) as [[lspan linner] r1]. cbn [fst snd] in PL.
    destruct (spanValid lspan) eqn:Evl; cbn [negb]; [|exact Hexit].
    destruct (PL eq_refl) as (_ & Hr1 & L1 & L2 & L3 & L4 & L5 & L6 & L7 & L8). clear PL.
    destruct lspan as [ls le]. destruct linner as [is ie]. cbn [fst snd] in *.
    (* the colon *)
    destruct (RS_current src ik He r1 Hr1) as (c & r2 & Ec & Hr2 & Ep2 & Ev2 & Hm2). rewrite Ec.
    destruct (Z.eqb_spec c 58) as [E58|N58]; cbn [negb]; [|exact Hexit].
    assert (Htx58 : tx c = false) by (rewrite E58; reflexivity).
    pose proof (step_NX src ik He ie r1 c r2 Hr1 Ec Htx58 ltac:(lia) L7) as (Hr3 & C2 & C3 & _).
    destruct (next r2) as [ok3 r3]. cbn [fst snd] in *.
    (* white space *)
    pose proof (sls_spec src ik He rfuel r3 Hr3) as (Hr4 & W2 & W3 & _).
    destruct (skipLinkSpace rfuel r3) as [ok4 r4]. cbn [fst snd] in *. destruct ok4; cbn [negb]; [|exact Hexit].
    (* the destination *)
    destruct Hr4 as [Hin4|Ho4].
    2:{ destruct (pld_Out src ik rfuel r4 Hfu Ho4) as (c4 & Ec4 & [E|(E & H1 & H2)]); rewrite E; cbv beta iota.
        - rewrite spanValid_null. cbn [negb]. exact Hexit.
        - pose proof (RS_pos0 src ik He r4 (or_intror Ho4)) as H0.
          assert (Ev : spanValid (r_pos r4, r_pos r4) = true).
          { unfold spanValid. cbn [fst snd]. rewrite !andb_true_iff, !Z.leb_le. lia. }
          rewrite Ev. cbn [negb]. rewrite (readEOL_Out src ik rfuel r4 c4 Hfu Ho4 Ec4 H1 H2). cbv beta iota. rewrite Ec4.
          assert (N0 : (c4 =? 0) = false).
          { apply Z.eqb_neq. intros ->. discriminate H1. }
          rewrite N0, Z.eqb_refl. cbn [Z.ltb Z.compare andb negb]. exact Hexit. }
    pose proof (parseLinkDestination_spec src ik He lo hi Hhi Ht mu Hmn Hmc rfuel Hmf r4 (or_introl Hin4) Hin4) as PD. cbv zeta in PD.
    destruct (parseLinkDestination rfuel r4) as [[dspan dtext] r5]. cbn [fst snd] in PD.
    destruct (spanValid dspan) eqn:Evd; cbn [negb]; [|exact Hexit].
    destruct (PD eq_refl) as (D1 & D2 & D3 & D4 & D5 & D6 & Hr5 & D8 & D9 & D10 & D11). clear PD.
    destruct dspan as [ds de]. destruct dtext as [ts te]. cbn [fst snd] in *.
    (* the line ending after the destination *)
    pose proof (readEOL_spec src ik He lo hi Hhi Ht mu Hmn Hmc rfuel Hmf r5 Hr5) as (Hr6 & Q2 & Q3 & Q4).
    pose proof (readEOL_neg src ik He lo hi Hhi Ht mu Hmn Hmc rfuel r5 Hr5) as Qn.
    destruct (readEOL rfuel r5) as [destEOL r6]. cbn [fst snd] in *.
    destruct (RS_current src ik He r6 Hr6) as (c6 & r7 & Ec6 & Hr7 & Ep7 & Ev7 & Hm7). rewrite Ec6.
    destruct ((destEOL <? 0) && (r_pos r6 =? r_pos r5) && negb (c6 =? 0)) eqn:Econd; [exact Hexit|].
    rewrite Eb. subst ls. rewrite Ep in *.
    set (Lk := collectTextNodes rfuel (newReader src (u :: t) is) ie TextKind false).
    set (Dk := collectTextNodes rfuel (newReader src (u :: t) ts) te TextKind true).
    set (LI := Inl LinkLabelKind is ie 0 (transformLinkReferenceSpan rfuel src (u :: t) is ie) Lk).
    set (DI := Inl LinkDestinationKind ds de 0 [] Dk).
    assert (Hle6 : istart u <= r_pos r6) by lia.
    (* the reader after a line ending: at the start of an entry, or past the last one *)
    assert (HD : 0 <= destEOL -> (OutSx r6 -> hi <= destEOL) /\ (forall u' t', InSx r6 u' t' -> r_pos r6 = istart u')).
    { intros L. pose proof (Q3 L) as HQ. split; [intros Ho; eapply eol_hi; eassumption|]. destruct HQ as (_ & _ & _ & _ & O5). exact O5. }
    (* white space after it *)
    pose proof (current_idem src ik He lo hi Hhi Ht r6 c6 r7 Hr6 Ec6) as Eid7.
    pose proof (sls_spec src ik He rfuel r7 Hr7) as (Hr8 & X2 & X3 & X4).
    pose proof (sls_true rfuel r7 c6 Eid7) as Hst.
    pose proof (fun u0 t0 => ws_not_to_end r7 u0 t0 rfuel) as Hws.
    destruct (skipLinkSpace rfuel r7) as [ok2 r8]. cbn [fst snd] in *.
    assert (Hneg : destEOL < 0 -> ok2 = true).
    { intros L. destruct (Qn L) as (c' & Ec' & Hw & N0). rewrite Ec6 in Ec'. inversion Ec'; subst c'. specialize (Hst N0 Hw). inversion Hst. reflexivity. }
    destruct ok2; cbn [negb].
    2:{ assert (L : 0 <= destEOL) by (destruct (Z.lt_ge_cases destEOL 0) as [L|L]; [specialize (Hneg L); discriminate Hneg|exact L]).
        destruct (HD L) as [H1 H2]. apply G_def.
        destruct Hr6 as [(u' & t' & Hi6)|Ho6]; [|apply H1, Ho6]. exfalso.
        (* r7 is r6 normalised: still inside the entry u', at its start *)
        destruct Hm7 as [(u7 & t7 & Hi6' & Hi7 & _)|(Ho6 & _)]; [|eapply Out_not_In; eassumption].
        apply (Hws u7 t7 Hi7); [|apply X4; reflexivity].
        destruct (InS_uniq src ik He r6 u' t' u7 t7 Hi6 Hi6') as [<- _]. rewrite Ep7. apply (H2 u' t' Hi6). }
    (* the title *)
    pose proof (parseLinkTitle_spec src ik He mu Hmn Hmc rfuel r8 Hr8) as PT. cbv zeta in PT.
    destruct (parseLinkTitle rfuel r8) as [[tspan ttext] r9]. cbn [fst snd] in PT.
    destruct (spanValid tspan) eqn:Evt; cbn [negb].
    2:{ destruct (Z.ltb_spec destEOL 0) as [L|L]; [exact Hexit|]. destruct (HD L) as [H1 H2].
        apply (cut_hi orig r u t result destEOL [LI; DI] r6 (fun orig' => ocp_loop f rfuel src orig' None r6 (result ++ [refDefBlock (istart u) destEOL [LI; DI]])) HI Hr6 Hle6 H1 H2).
        intros orig' u' t' HI'. apply (IH orig' r6 u' t' _ HI'). }
    destruct (PT eq_refl) as (P1 & P2 & P3 & P4 & P5 & P6 & P7 & Hr9 & P9 & P10 & P11). clear PT.
    destruct tspan as [tss tse]. destruct ttext as [tts tte]. cbn [fst snd] in *.
    pose proof (readEOL_spec src ik He lo hi Hhi Ht mu Hmn Hmc rfuel Hmf r9 Hr9) as (Hr10 & Y2 & Y3 & _).
    destruct (readEOL rfuel r9) as [titleEOL r10]. cbn [fst snd] in *.
    destruct (Z.ltb_spec titleEOL 0) as [Lt|Lt].
    { destruct (Z.ltb_spec destEOL 0) as [L|L]; [exact Hexit|]. destruct (HD L) as [H1 H2].
      apply (cut_hi orig r u t result destEOL [LI; DI] r6 (fun orig' => result ++ [refDefBlock (istart u) destEOL [LI; DI]] ++ [orig']) HI Hr6 Hle6 H1 H2).
      intros orig' u' t' HI'. rewrite app_assoc. apply G_orig. apply HI'. }
    set (Tk := collectTextNodes rfuel (newReader src (u :: t) tts) tte TextKind true).
    set (TI := Inl LinkTitleKind tss tse 0 [] Tk).
    pose proof (Y3 Lt) as HY.
    assert (Hle10 : istart u <= r_pos r10) by lia.
    apply (cut_hi orig r u t result titleEOL [LI; DI; TI] r10 (fun orig' => ocp_loop f rfuel src orig' None r10 (result ++ [refDefBlock (istart u) titleEOL [LI; DI; TI]])) HI Hr10 Hle10).
    - intros Ho. eapply eol_hi; eassumption.
    - destruct HY as (_ & _ & _ & _ & O5). exact O5.
    - intros orig' u' t' HI'. apply (IH orig' r10 u' t' _ HI').
  Qed.
End EofRd.

(* ---- onCloseParagraph ---- *)
Lemma onCloseParagraph_last_hi src b1 hi preL ul :
  bkind b1 <> SetextHeadingKind -> bend b1 = hi -> hi <= len src -> 0 <= bstart b1 ->
  tileS src (bstart b1) hi (map ispan (bik b1)) -> Forall (eok src ParagraphKind) (bik b1) -> indOK (bik b1) ->
  bik b1 = preL ++ [ul] -> ikind ul = UnparsedKind -> iend ul = hi ->
  (exists q, istart ul <= q < iend ul /\ isSpaceTabOrLineEnding (at_ src q) = false) ->
  exists pre x, onCloseParagraph src b1 = pre ++ [x] /\ hi <= bend x.
Proof.
  intros Hk Hb Hh H0 Ht Hf Hio Eik HuK HuE HuN. unfold onCloseParagraph.
  destruct (bik b1) as [|first rest] eqn:Eb; [exists [], b1; split; [reflexivity|lia]|].
  cbv zeta. replace (bkind b1 =? SetextHeadingKind) with false by (symmetry; apply Z.eqb_neq; exact Hk).
  pose proof (ENT_of_tile src (bstart b1) hi (first :: rest) H0 Hh Ht Hf) as Hent.
  assert (El : S (length (first :: rest)) = S (length (bik b1))) by (rewrite Eb; reflexivity).
  apply (ocp_last_hi src (first :: rest) Hent (bstart b1) hi Hh Ht (mu src)
           (mu_next src (first :: rest) Hent Hio) (mu_current src (first :: rest) Hent) (2 * length src + 10)%nat (mu_fuel src (first :: rest) Hent)
           preL ul Eik HuK HuE HuN (S (length (first :: rest))) b1 (newReader src (first :: rest) (istart first)) first rest []).
  split; [exists []; reflexivity|]. split; [exact Eb|]. split; [|split; [reflexivity|exact Hb]].
  split; [reflexivity|]. split; [exists [], []; split; reflexivity|].
  cbn [r_pos r_vpos newReader]. destruct Hent as [Hfa _]. inversion Hfa as [|? ? (U1 & U2 & _) _]; subst. lia.
Qed.
