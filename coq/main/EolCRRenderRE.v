From Coq Require Import List ZArith Lia Bool.
Import ListNotations.
Require Import Base Tables Utf8 Tree Recog Inl3b Driver Inl3e Render EolCRDefs EolCRBytes EolCRRdr EolCRRenderDefs.
Open Scope Z_scope.

(* ====================================================================================================
   C14, CR clause, renderer, part 1: the relation RE ("equal except that some LF on the left are CR on
   the right") is a congruence for the byte-level helpers of the renderer.
   ==================================================================================================== *)

(* ---- algebra of RE ---- *)
Lemma reB_refl x : reB x x. Proof. left. reflexivity. Qed.
Lemma RE_refl a : RE a a.
Proof. induction a as [|x a IH]; constructor; [apply reB_refl|exact IH]. Qed.
Lemma RE_app a b c d : RE a b -> RE c d -> RE (a ++ c) (b ++ d).
Proof. intros H1 H2. apply Forall2_app; assumption. Qed.
Lemma RE_length a b : RE a b -> length b = length a.
Proof. induction 1 as [|x y a b Hxy H IH]; [reflexivity|]. cbn [length]. rewrite IH. reflexivity. Qed.
Lemma RE_len a b : RE a b -> len b = len a.
Proof. intros H. unfold len. rewrite (RE_length a b H). reflexivity. Qed.
Lemma bR_reB c c' : bR c c' -> reB c c'.
Proof. intros H. destruct (bR_cases _ _ H) as [[-> ->]|[-> _]]; [right; split; reflexivity|left; reflexivity]. Qed.
Lemma crRel_RE a b : crRel a b -> RE a b.
Proof. induction 1 as [|x y a b Hxy H IH]; constructor; [apply bR_reB, Hxy|exact IH]. Qed.
Lemma RE_skipn a b : RE a b -> forall n, RE (skipn n a) (skipn n b).
Proof. induction 1 as [|x y a b Hxy H IH]; intros n; [destruct n; constructor|]. destruct n as [|n]; [constructor; assumption|apply IH]. Qed.
Lemma RE_firstn a b : RE a b -> forall n, RE (firstn n a) (firstn n b).
Proof. induction 1 as [|x y a b Hxy H IH]; intros n; [destruct n; constructor|]. destruct n as [|n]; [constructor|constructor; [assumption|apply IH]]. Qed.
Lemma RE_from a b i : RE a b -> RE (from_ a i) (from_ b i). Proof. intros H. apply RE_skipn, H. Qed.
Lemma RE_upto a b i : RE a b -> RE (upto a i) (upto b i). Proof. intros H. apply RE_firstn, H. Qed.
Lemma RE_sub a b i j : RE a b -> RE (sub a i j) (sub b i j). Proof. intros H. unfold sub. apply RE_upto, RE_from, H. Qed.
Lemma RE_nth a b : RE a b -> forall n, reB (nth n a 0) (nth n b 0).
Proof. induction 1 as [|x y a b Hxy H IH]; intros n; [destruct n; apply reB_refl|]. destruct n as [|n]; [exact Hxy|apply IH]. Qed.
Lemma RE_at a b i : RE a b -> reB (at_ a i) (at_ b i).
Proof. intros H. unfold at_. destruct (i <? 0); [apply reB_refl|apply RE_nth, H]. Qed.

Lemma RE_flat_map {A} (f g : A -> bytes) l : (forall x, In x l -> RE (f x) (g x)) -> RE (flat_map f l) (flat_map g l).
Proof.
  induction l as [|x l IH]; intros H; [constructor|]. cbn [flat_map]. apply RE_app; [apply H; left; reflexivity|].
  apply IH. intros y Hy. apply H. right. exact Hy.
Qed.
Lemma RE_flat_map2 (f : Z -> bytes) a b : (forall x y, reB x y -> RE (f x) (f y)) -> RE a b -> RE (flat_map f a) (flat_map f b).
Proof. intros Hf. induction 1 as [|x y a b Hxy H IH]; [constructor|]. cbn [flat_map]. apply RE_app; [apply Hf, Hxy|exact IH]. Qed.

(* what the property test compares *)
Lemma normEol_RE a b : RE a b -> normEol b = normEol a.
Proof.
  induction 1 as [|x y a b Hxy H IH]; [reflexivity|]. cbn [normEol map]. fold (normEol a). fold (normEol b). rewrite IH. f_equal.
  destruct Hxy as [->|[-> ->]]; reflexivity.
Qed.

(* a byte test that does not separate 10 from 13 *)
Lemma reB_test (p : Z -> bool) x y : p 10 = p 13 -> reB x y -> p y = p x.
Proof. intros Hp [->|[-> ->]]; [reflexivity|symmetry; exact Hp]. Qed.
(* ... and when it holds of neither, the bytes are equal *)
Lemma reB_same (p : Z -> bool) x y : p 10 = false -> reB x y -> p x = true -> y = x.
Proof. intros Hp [->|[-> ->]] H; [reflexivity|congruence]. Qed.

(* related without line ending: equal *)
Lemma crRel_noEol a b : crRel a b -> noEolb a = true -> b = a.
Proof.
  induction 1 as [|x y a b Hxy H IH]; intros Hn; [reflexivity|]. cbn [noEolb forallb] in Hn. apply andb_true_iff in Hn. destruct Hn as [Hx Hn].
  apply andb_true_iff in Hx. destruct Hx as [H10 _]. apply negb_true_iff, Z.eqb_neq in H10.
  rewrite (bR_same_if _ _ Hxy H10). f_equal. apply IH. exact Hn.
Qed.

(* ---- escapeHTML / escapeString ---- *)
Lemma escapeHTML_RE a b : RE a b -> RE (escapeHTML a) (escapeHTML b).
Proof.
  unfold escapeHTML. apply RE_flat_map2. intros x y [->|[-> ->]]; [apply RE_refl|]. cbn. constructor; [right; split; reflexivity|constructor].
Qed.
Lemma escapeString_RE a b : RE a b -> RE (escapeString a) (escapeString b).
Proof.
  unfold escapeString. apply RE_flat_map2. intros x y [->|[-> ->]]; [apply RE_refl|]. cbn. constructor; [right; split; reflexivity|constructor].
Qed.

(* ---- filterRaw ---- *)
Definition nameCh (c : Z) : bool := isASCIILetter c || isASCIIDigit c || (c =? 45).
Lemma takeName_RE a b : RE a b -> takeName b = takeName a.
Proof.
  induction 1 as [|x y a b Hxy H IH]; [reflexivity|]. cbn [takeName]. fold (nameCh x). fold (nameCh y).
  rewrite (reB_test nameCh x y eq_refl Hxy). destruct (nameCh x) eqn:E; [|reflexivity].
  rewrite (reB_same nameCh x y eq_refl Hxy E), IH. reflexivity.
Qed.
Lemma cmName_RE a b : RE a b -> cmName b = cmName a.
Proof.
  intros H. pose proof (takeName_RE a b H) as Ht. destruct H as [|x y a b Hxy H]; [reflexivity|]. unfold cmName.
  rewrite (reB_test isASCIILetter x y eq_refl Hxy). destruct (isASCIILetter x); [exact Ht|reflexivity].
Qed.
Lemma filterRaw_RE c a b : RE a b -> RE (filterRaw c a) (filterRaw c b).
Proof.
  induction 1 as [|x y a b Hxy H IH]; [constructor|]. cbn [filterRaw].
  rewrite (reB_test (fun z => z =? 60) x y eq_refl Hxy). destruct (x =? 60).
  - rewrite (cmName_RE a b H). apply RE_app; [apply RE_refl|exact IH].
  - constructor; assumption.
Qed.

(* ---- unescapeRef ---- *)
Lemma parseNum_RE base a b : RE a b -> forall x, parseNum base b x = parseNum base a x.
Proof.
  induction 1 as [|c c' a b Hc H IH]; intros x; [reflexivity|]. destruct Hc as [->|[-> ->]].
  - cbn [parseNum]. rewrite !IH. reflexivity.
  - cbn [parseNum]. change (isASCIIDigit 10) with false. change (isASCIIDigit 13) with false. cbv iota.
    change (97 <=? 13) with false. change (97 <=? 10) with false. change (65 <=? 13) with false. change (65 <=? 10) with false.
    rewrite !andb_false_r. reflexivity.
Qed.
Lemma hasBytePrefix_RE k : noEolB k -> forall n n', RE n n' -> hasBytePrefix k n' = hasBytePrefix k n.
Proof.
  induction 1 as [|p ps [P1 P2] Hps IH]; intros n n' H.
  - destruct H as [|x y n n' Hxy H]; reflexivity.
  - destruct H as [|x y n n' Hxy H]; [reflexivity|]. cbn [hasBytePrefix]. rewrite (IH _ _ H). f_equal.
    destruct Hxy as [->|[-> ->]]; [reflexivity|].
    replace (13 =? p) with false by (symmetry; apply Z.eqb_neq; congruence).
    replace (10 =? p) with false by (symmetry; apply Z.eqb_neq; congruence). reflexivity.
Qed.
Lemma bytes_eqb_RE k n n' : noEolB k -> RE n n' -> Utf8.bytes_eqb k n' = Utf8.bytes_eqb k n.
Proof. intros Hk H. unfold Utf8.bytes_eqb. rewrite (RE_len _ _ H), (hasBytePrefix_RE k Hk _ _ H). reflexivity. Qed.
Lemma lookupV_RE t n n' : Forall (fun kv => noEolB (fst kv)) t -> RE n n' -> lookupV t n' = lookupV t n.
Proof.
  induction 1 as [|[k v] t Hk Ht IH]; intros H; [reflexivity|]. cbn [lookupV]. cbn [fst] in Hk.
  rewrite (bytes_eqb_RE k n n' Hk H), (IH H). reflexivity.
Qed.
Lemma keys_noEol t : forallb (fun kv : bytes * bytes => noEolb (fst kv)) t = true -> Forall (fun kv => noEolB (fst kv)) t.
Proof. intros H. apply Forall_forall. intros kv Hkv. rewrite forallb_forall in H. apply noEolb_spec, H, Hkv. Qed.
Lemma semi_keys : Forall (fun kv : bytes * bytes => noEolB (fst kv)) entityValuesSemi.
Proof. apply keys_noEol. vm_compute. reflexivity. Qed.
Lemma legacy_keys : Forall (fun kv : bytes * bytes => noEolB (fst kv)) entityValuesLegacy.
Proof. apply keys_noEol. vm_compute. reflexivity. Qed.
Lemma legacyVal_RE n n' : RE n n' -> forall j, legacyVal j n' = legacyVal j n.
Proof.
  intros H. induction j as [|j IH]; [reflexivity|]. destruct j as [|j]; [reflexivity|].
  change (legacyVal (S (S j)) n') with (let pre := upto n' (Z.of_nat (S (S j))) in
     match lookupV entityValuesLegacy pre with Some v => Some (v, Z.of_nat (S (S j))) | None => legacyVal (S j) n' end).
  change (legacyVal (S (S j)) n) with (let pre := upto n (Z.of_nat (S (S j))) in
     match lookupV entityValuesLegacy pre with Some v => Some (v, Z.of_nat (S (S j))) | None => legacyVal (S j) n end).
  cbv zeta. rewrite (lookupV_RE _ _ _ legacy_keys (RE_upto n n' (Z.of_nat (S (S j))) H)), IH. reflexivity.
Qed.
Lemma reB_eqb x y k : reB x y -> k <> 10 -> k <> 13 -> (y =? k) = (x =? k).
Proof.
  intros [->|[-> ->]] A B; [reflexivity|].
  replace (13 =? k) with false by (symmetry; apply Z.eqb_neq; congruence).
  replace (10 =? k) with false by (symmetry; apply Z.eqb_neq; congruence). reflexivity.
Qed.
Lemma unescapeRef_RE x x' : RE x x' -> RE (unescapeRef x) (unescapeRef x').
Proof.
  intros H. unfold unescapeRef.
  rewrite (reB_eqb _ _ 35 (RE_at x x' 1 H)) by discriminate. destruct (at_ x 1 =? 35).
  - rewrite (reB_eqb _ _ 120 (RE_at x x' 2 H)), (reB_eqb _ _ 88 (RE_at x x' 2 H)) by discriminate.
    rewrite (parseNum_RE 16 _ _ (RE_from x x' 3 H)), (parseNum_RE 10 _ _ (RE_from x x' 2 H)). apply RE_refl.
  - rewrite (RE_len _ _ H).
    pose proof (RE_sub x x' 1 (len x - 1) H) as Hn.
    rewrite (lookupV_RE _ _ _ semi_keys Hn). destruct (lookupV entityValuesSemi (sub x 1 (len x - 1))); [apply RE_refl|].
    rewrite (RE_len _ _ Hn), (legacyVal_RE _ _ Hn).
    destruct (legacyVal _ (sub x 1 (len x - 1))) as [[v j]|]; [apply RE_app; [apply RE_refl|apply RE_from, H]|exact H].
Qed.

(* ---- text of children ---- *)
Lemma spanOf_RE src src' i : crRel src src' -> RE (spanOf src i) (spanOf src' i).
Proof. intros H. unfold spanOf. apply crRel_RE, crRel_sub, H. Qed.
Lemma textOfChildren_RE src src' i : crRel src src' -> RE (textOfChildren src i) (textOfChildren src' i).
Proof.
  intros H. unfold textOfChildren. apply RE_flat_map. intros c _. destruct (ikind c =? TextKind); [apply spanOf_RE, H|].
  destruct (ikind c =? CharacterReferenceKind); [apply unescapeRef_RE, spanOf_RE, H|constructor].
Qed.
Lemma flat_map_ext_in {A B} (f g : A -> list B) l : (forall x, In x l -> f x = g x) -> flat_map f l = flat_map g l.
Proof.
  induction l as [|x l IH]; intros H; [reflexivity|]. cbn [flat_map]. rewrite (H x (or_introl eq_refl)), IH; [reflexivity|].
  intros y Hy. apply H. right. exact Hy.
Qed.
Lemma textOfChildren_eq src src' i : crRel src src' -> forallb (kidNoEol src) (ikids i) = true ->
  textOfChildren src' i = textOfChildren src i.
Proof.
  intros H Hk. unfold textOfChildren. apply flat_map_ext_in. intros c Hc. rewrite forallb_forall in Hk. specialize (Hk c Hc).
  unfold kidNoEol, isTC in Hk. unfold spanOf.
  destruct (ikind c =? TextKind); [cbn [orb] in Hk; rewrite (crRel_noEol _ _ (crRel_sub src src' (istart c) (iend c) H) Hk); reflexivity|].
  destruct (ikind c =? CharacterReferenceKind); [|reflexivity].
  cbn [orb] in Hk. rewrite (crRel_noEol _ _ (crRel_sub src src' (istart c) (iend c) H) Hk). reflexivity.
Qed.

(* ---- runes / firstField (the class attribute of a fenced code block) ---- *)
Lemma reB_cases x y : reB x y -> y = x \/ (x = 10 /\ y = 13). Proof. intros H. exact H. Qed.
Lemma decodeRune_RE c r r' : RE r r' -> decodeRune (c :: r') = decodeRune (c :: r).
Proof.
  intros H. unfold decodeRune. destruct (c <? 128); [reflexivity|].
  destruct H as [|b1 b1' r1 r1' H1 H]; [reflexivity|].
  assert (C1 : forall lo hi, 128 <= lo -> ((lo <=? b1') && (b1' <=? hi)) = ((lo <=? b1) && (b1 <=? hi)) /\ (((lo <=? b1) && (b1 <=? hi)) = true -> b1' = b1)).
  { intros lo hi Hlo. destruct H1 as [->|[-> ->]]; [split; [reflexivity|intros _; reflexivity]|].
    replace (lo <=? 13) with false by (symmetry; apply Z.leb_gt; lia). replace (lo <=? 10) with false by (symmetry; apply Z.leb_gt; lia).
    split; [reflexivity|discriminate]. }
  destruct ((194 <=? c) && (c <=? 223)).
  { unfold isCont. destruct (C1 128 191 ltac:(lia)) as [E1 E2]. rewrite E1. destruct ((128 <=? b1) && (b1 <=? 191)); [rewrite (E2 eq_refl); reflexivity|reflexivity]. }
  destruct H as [|b2 b2' r2 r2' H2 H].
  { destruct ((224 <=? c) && (c <=? 239)); [reflexivity|]. destruct ((240 <=? c) && (c <=? 244)); reflexivity. }
  assert (C2 : isCont b2' = isCont b2 /\ (isCont b2 = true -> b2' = b2)).
  { unfold isCont. destruct H2 as [->|[-> ->]]; [split; [reflexivity|intros _; reflexivity]|]. split; [reflexivity|discriminate]. }
  destruct C2 as [D1 D2].
  destruct ((224 <=? c) && (c <=? 239)).
  { cbv zeta. destruct (C1 (if c =? 224 then 160 else 128) (if c =? 237 then 159 else 191) ltac:(destruct (c =? 224); lia)) as [E1 E2].
    rewrite E1, D1. destruct ((_ <=? b1) && (b1 <=? _)); [|reflexivity]. destruct (isCont b2); [|reflexivity].
    rewrite (E2 eq_refl), (D2 eq_refl). reflexivity. }
  destruct H as [|b3 b3' r3 r3' H3 H].
  { destruct ((240 <=? c) && (c <=? 244)); reflexivity. }
  assert (C3 : isCont b3' = isCont b3 /\ (isCont b3 = true -> b3' = b3)).
  { unfold isCont. destruct H3 as [->|[-> ->]]; [split; [reflexivity|intros _; reflexivity]|]. split; [reflexivity|discriminate]. }
  destruct C3 as [F1 F2].
  destruct ((240 <=? c) && (c <=? 244)); [|reflexivity].
  cbv zeta. destruct (C1 (if c =? 240 then 144 else 128) (if c =? 244 then 143 else 191) ltac:(destruct (c =? 240); lia)) as [E1 E2].
  rewrite E1, D1, F1. destruct ((_ <=? b1) && (b1 <=? _)); [|reflexivity]. destruct (isCont b2); [|reflexivity]. destruct (isCont b3); [|reflexivity].
  rewrite (E2 eq_refl), (D2 eq_refl), (F2 eq_refl). reflexivity.
Qed.

Definition runeR (x y : Z * Z * Z) : Prop :=
  fst (fst y) = fst (fst x) /\ snd y = snd x /\ reB (snd (fst x)) (snd (fst y)).
Lemma runes_RE : forall fuel s s' i, RE s s' -> Forall2 runeR (runes fuel s i) (runes fuel s' i).
Proof.
  induction fuel as [|f IH]; intros s s' i H; [constructor|]. cbn [runes].
  destruct H as [|c c' r r' Hc H]; [constructor|].
  destruct Hc as [->|[-> ->]].
  - rewrite (decodeRune_RE c r r' H). destruct (decodeRune (c :: r)) as [rn w].
    constructor; [repeat split; apply reB_refl|]. apply IH. apply RE_from. constructor; [apply reB_refl|exact H].
  - change (decodeRune (10 :: r)) with (10, 1). change (decodeRune (13 :: r')) with (13, 1). cbv iota beta. change (1 <? 1) with false. cbv iota.
    constructor; [repeat split; right; split; reflexivity|]. apply IH. apply RE_from. constructor; [right; split; reflexivity|exact H].
Qed.
Lemma firstField_RE s s' : RE s s' -> forall rs rs', Forall2 runeR rs rs' -> forall b,
  RE (firstField rs s b) (firstField rs' s' b).
Proof.
  intros H. induction 1 as [|[[i r] w] [[i' r'] w'] rs rs' (A & B & C) Hr IH]; intros b; [constructor|].
  cbn [fst snd] in A, B, C. subst i' w'. cbn [firstField].
  rewrite (reB_test isSpaceRune r r' eq_refl C). destruct (isSpaceRune r).
  - destruct b; [constructor|apply IH].
  - apply RE_app; [apply RE_sub, H|apply IH].
Qed.
Lemma firstField_runes_RE t t' : RE t t' ->
  RE (firstField (runes (S (length t)) t 0) t false) (firstField (runes (S (length t')) t' 0) t' false).
Proof. intros H. rewrite (RE_length _ _ H). apply firstField_RE; [exact H|apply runes_RE, H]. Qed.
