(* From the components of the invariant LADef.la for a paragraph (tileS, eok, indOK) to what the reader lemmas need:
   LAR1.ENT, EolGenRdrBase.GS (good span lists), the bound on the indent budget and IFTitle.entOK. *)
From Coq Require Import List ZArith Lia Bool.
Import ListNotations.
Require Import Base Tree Rdr Link LP BSRdr LADef LA1 LAR1 ShapesR IFBase IFTitle EolFinalDefs EolGenRdrBase.
Open Scope Z_scope.

Section B.
Variable src : bytes.
Local Notation L := (len src).

Lemma eok_para K u : isParaK K = true -> eok src K u -> eok src ParagraphKind u.
Proof. intros HK (A & B & C). split; [exact A|split; [intros _; apply B; exact HK|exact C]]. Qed.

(* the la-components give LAR1.ENT *)
Lemma la_ENT K lo hi ik : isParaK K = true -> 0 <= lo -> hi <= L -> tileS src lo hi (map ispan ik) -> Forall (eok src K) ik -> ENT src ik.
Proof.
  intros HK H0 Hh Ht Hf. apply (ENT_of_tile src lo hi ik H0 Hh Ht). eapply Forall_impl; [|exact Hf]. intros u. apply eok_para, HK.
Qed.

Lemma ENT_cons u r : ENT src (u :: r) -> LAR1.entOK src u /\ (forall j, In j r -> iend u <= istart j) /\ ENT src r.
Proof.
  intros [Hf Hs]. inversion Hf as [|? ? Hu Hr]; subst. cbn [sortedS] in Hs. destruct Hs as [S1 S2]. split; [exact Hu|]. split; [exact S1|split; assumption].
Qed.

(* an Indent entry is followed by a non-empty entry inside the source, so it ends before the end of the source *)
Lemma ENT_GS : forall ik, ENT src ik -> indOK ik -> GS src ik.
Proof.
  induction ik as [|u r IH]; intros He Hi; [exact I|]. destruct (ENT_cons u r He) as ((U1 & U2 & U3 & U4) & Hs & Hr).
  cbn [indOK] in Hi. destruct Hi as [Hi1 Hi2]. cbn [GS]. split; [|split; [exact Hs|apply IH; assumption]].
  split; [exact U1|]. split; [exact U2|]. split; [exact U3|]. intros Ek. specialize (Hi1 Ek).
  destruct r as [|j r']; [contradiction|]. destruct (ENT_cons j r' Hr) as ((J1 & J2 & J3 & _) & _). specialize (Hs j (or_introl eq_refl)). lia.
Qed.

(* the indent budget: an Indent entry (one byte, at most 3 virtual positions) is followed by a line entry, which has at least
   two bytes unless it is the last entry *)
Definition bnd (ik : list inline) : Z :=
  match ik with
  | [] => 0
  | u :: r => if ikind u =? IndentKind then L + 1 - istart u else match r with [] => 0 | _ => L + 1 - iend u end
  end.
Lemma bnd_le u r : LAR1.entOK src u -> bnd (u :: r) <= L + 1 - istart u /\ 0 <= bnd (u :: r).
Proof. intros (U1 & U2 & U3 & _). cbn [bnd]. destruct (ikind u =? IndentKind); [lia|]. destruct r; lia. Qed.
Lemma ibudget_bnd : forall ik, ENT src ik -> indOK ik -> ibudget ik <= bnd ik.
Proof.
  induction ik as [|u r IH]; intros He Hi; [cbn; lia|]. destruct (ENT_cons u r He) as (Hu & Hs & Hr). pose proof Hu as (U1 & U2 & U3 & U4).
  cbn [indOK] in Hi. destruct Hi as [Hi1 Hi2]. specialize (IH Hr Hi2). cbn [ibudget bnd].
  destruct (Z.eqb_spec (ikind u) IndentKind) as [Ek|Nk].
  - specialize (Hi1 Ek). destruct r as [|v r']; [contradiction|].
    destruct U4 as [(_ & K2 & _ & K4)|(K1 & _)]; [|rewrite Ek in K1; discriminate K1].
    destruct (ENT_cons v r' Hr) as (Hv & Hs' & Hr'). pose proof Hv as (V1 & V2 & V3 & V4).
    destruct V4 as [(K1 & _)|(_ & (L1 & L2 & L3 & L4))]; [contradiction|].
    pose proof (Hs v (or_introl eq_refl)) as Huv. cbn [bnd] in IH.
    replace (ikind v =? IndentKind) with false in IH by (symmetry; apply Z.eqb_neq; exact Hi1).
    destruct r' as [|w r'']; [lia|].
    destruct (ENT_cons w r'' Hr') as ((W1 & W2 & W3 & _) & _). pose proof (Hs' w (or_introl eq_refl)) as Hvw.
    destruct L4 as [L4|L4]; [lia|].
    assert (istart v <> iend v - 1) by (intros E; rewrite <- E in L4; rewrite L4 in L2; discriminate L2). lia.
  - destruct r as [|w r'']; [cbn [ibudget]; lia|]. destruct (ENT_cons w r'' Hr) as (Hw & _).
    destruct (bnd_le w r'' Hw) as [B1 _]. specialize (Hs w (or_introl eq_refl)). lia.
Qed.
Lemma ibudget_ENT ik : ENT src ik -> indOK ik -> ibudget ik <= L + 1.
Proof.
  intros He Hi. pose proof (ibudget_bnd ik He Hi) as H. destruct ik as [|u r]; [cbn [bnd] in H; unfold len; lia|].
  destruct (ENT_cons u r He) as (Hu & _). destruct (bnd_le u r Hu) as [B1 _]. destruct Hu as (U1 & _). lia.
Qed.

Lemma ENT_spW : forall ik, ENT src ik -> spW src ik = true.
Proof.
  induction ik as [|u r IH]; intros He; [reflexivity|]. destruct (ENT_cons u r He) as ((U1 & U2 & U3 & _) & Hs & Hr). cbn [spW].
  rewrite (IH Hr), andb_true_r. apply andb_true_iff. split.
  - rewrite !andb_true_iff, !Z.leb_le. lia.
  - apply forallb_forall. intros j Hj. apply Z.leb_le. apply Hs, Hj.
Qed.

(* (c) the bridge to IFTitle.entOK *)
Theorem la_entOK K lo hi ik : isParaK K = true -> 0 <= lo -> hi <= L -> tileS src lo hi (map ispan ik) -> Forall (eok src K) ik -> indOK ik ->
  IFTitle.entOK src ik = true.
Proof.
  intros HK H0 Hh Ht Hf Hi. pose proof (la_ENT K lo hi ik HK H0 Hh Ht Hf) as He. unfold IFTitle.entOK.
  rewrite (ENT_spW ik He). cbn [andb]. apply Z.leb_le. pose proof (ibudget_ENT ik He Hi). lia.
Qed.
End B.
Print Assumptions la_entOK.
