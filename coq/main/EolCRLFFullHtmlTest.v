From Coq Require Import List ZArith Lia Bool String Ascii.
Import ListNotations.
Require Import Base Tree Rdr Link Collect Html Inl3d BSTest ShapesR IFBase EolCRLFDefs EolCRLFSimBytes EolGenCrlfRdrDefs EolGenCrlfRdrStep EolGenCrlfRdrLink3
  EolCRLFFullHtml5.
Open Scope Z_scope.

(* C14 (ii), CRLF clause: parseHTMLTag_sim on concrete multi-line inputs (the hypotheses are satisfiable, the conclusion is
   not trivial: tags, comments, processing instructions, declarations and CDATA sections spanning line endings). *)
Definition SPIb (R : bytes) (Eb : Z) (sp : list inline) : bool :=
  spW R sp && forallb readableK sp && forallb neSp sp && forallb (indOK1 R) sp && forallb (fun u => iend u <=? Eb) sp.
Lemma SPIb_SPI R Eb sp : SPIb R Eb sp = true -> SPI R Eb sp.
Proof.
  unfold SPIb. intros H. apply andb_true_iff in H. destruct H as [H H5]. apply andb_true_iff in H. destruct H as [H H4].
  apply andb_true_iff in H. destruct H as [H H3]. apply andb_true_iff in H. destruct H as [H1 H2]. repeat split; assumption.
Qed.

Open Scope string_scope.
Definition h1 := bs ("<a" ++ nl ++ " b='x" ++ nl ++ "y' c=d" ++ nl ++ "/>z").
Definition h2 := bs ("<!--a" ++ nl ++ "-" ++ nl ++ "b-->z").
Definition h3 := bs ("<?a" ++ nl ++ "?" ++ nl ++ "?>z").
Definition h4 := bs ("<!DOCTYPE" ++ nl ++ "x>z").
Definition h5 := bs ("<![CDATA[a" ++ nl ++ "]]" ++ nl ++ "]]>z").
Definition h6 := bs ("</a" ++ nl ++ " >z").
Definition h7 := bs ("<a" ++ nl ++ nl ++ "b>").
Definition h8 := bs ("<a b" ++ nl ++ "=" ++ nl ++ "c>").
Close Scope string_scope.
Definition one (R : bytes) := [mkI UnparsedKind 0 (len R)].
(* one entry per line, as the block layer produces them *)
Fixpoint lineSpans (R : bytes) (start pos : Z) (l : bytes) : list inline :=
  match l with
  | [] => if start <? pos then [mkI UnparsedKind start pos] else []
  | c :: t => if c =? 10 then mkI UnparsedKind start (pos + 1) :: lineSpans R (pos + 1) (pos + 1) t else lineSpans R start (pos + 1) t
  end.
Definition lines (R : bytes) := lineSpans R 0 0 R.
Definition ck (sp : bytes -> list inline) (R : bytes) : bool * (Z * Z) * (Z * Z) :=
  let a := parseHTMLTag (2 * List.length R + 10) (newReader R (sp R) 0) in
  let b := parseHTMLTag (4 * List.length R + 10) (newReader (crlf R) (map (phiI R) (sp R)) (phiP R 0)) in
  (SPIb R (len R) (sp R) && (fst b =? phiP R (fst a)) && (snd b =? phiP R (snd a)), a, b).
Eval vm_compute in map (ck one) [h1;h2;h3;h4;h5;h6;h7;h8].
Eval vm_compute in map (ck lines) [h1;h2;h3;h4;h5;h6;h7;h8].

(* the theorem instantiated (not by computation of the crlf side) *)
Example parseHTMLTag_sim_h1 :
  parseHTMLTag 200 (newReader (crlf h1) (map (phiI h1) (lines h1)) (phiP h1 0)) = mapS h1 (parseHTMLTag 100 (newReader h1 (lines h1) 0)).
Proof.
  assert (R13 : ~ In 13 h1) by (vm_compute; intuition discriminate).
  assert (G : SPI h1 (len h1) (lines h1)) by (apply SPIb_SPI; vm_compute; reflexivity).
  apply (parseHTMLTag_sim_new h1 (len h1) (lines h1) 0 100 200 R13 G).
  - pose proof (nu_new h1 (lines h1) 0 (proj1 G)) as Q. assert (E : len h1 + ibudget (lines h1) < 100) by (vm_compute; reflexivity). lia.
  - destruct (RR_PL h1 (len h1) _ _ (RR_new h1 (len h1) (lines h1) 0 G)) as [_ [_ Q']].
    pose proof (nu_new (crlf h1) (map (phiI h1) (lines h1)) (phiP h1 0) Q') as Q.
    assert (E : len (crlf h1) + ibudget (map (phiI h1) (lines h1)) < 200) by (vm_compute; reflexivity). lia.
Qed.
Eval vm_compute in mapS h1 (parseHTMLTag 100 (newReader h1 (lines h1) 0)).
Print Assumptions parseHTMLTag_sim_h1.
