From Coq Require Import List ZArith Lia Bool.
Import ListNotations.
Require Import Base Tree Rdr Link Collect Html Recog LP Rules Starts Driver L2Kind L2CC BSDef BSRdr BSTree BSOcp BSOrph BSClose BSLine1 BSLine2 BSLine3 BSLine4 BSLine5.
Open Scope Z_scope.

Lemma fin_bindent q v : OPx q -> LI q -> OPx (updCont q (fun b => set_bindent b v)) /\ LI (updCont q (fun b => set_bindent b v)).
Proof.
  intros A L. split; [apply OPx_field; [exact A|apply keeps_bindent|intros M x; apply sp_set_bindent]|].
  apply LI_updCont_field; [apply keeps_bindent|intros M x; apply sp_set_bindent|exact L].
Qed.

Lemma sOK_startListItem : startOKs startListItem.
Proof.
  intros p Hs H HL. unfold startListItem. cbv zeta.
  assert (Same : OPx p /\ LI2 p /\ (LI p \/ ms p)) by (split; [exact H|split; [left; exact HL|left; exact HL]]).
  destruct (_ <=? _); [exact Same|].
  destruct (parseListMarker _) as [[delim n] mend]. destruct (_ || _); [exact Same|]. destruct (_ && _); [exact Same|]. clear Same.
  set (p1 := consumeIndent p (indent p)).
  pose proof (cstep_consumeIndent p (indent p)) as Hc1. fold p1 in Hc1.
  assert (H1 : OPx p1) by (eapply OPx_cstep; eassumption). assert (L1 : LI p1) by (eapply LI_cstep; eassumption).
  assert (S1 : st_open p1) by (apply st_open_consumeIndent, Hs).
  set (cdelim := if (containerKind p1 =? ListKind) || (containerKind p1 =? ListItemKind) then bchar (contBlock p1) else 0).
  set (p2 := if negb (containerKind p1 =? ListKind) || negb (cdelim =? delim) then _ else p1).
  assert (H2 : OPx p2 /\ containerKind p2 = ListKind /\ st_open p2).
  { unfold p2. destruct (negb (containerKind p1 =? ListKind) || negb (cdelim =? delim)) eqn:Ec.
    - assert (A : OPx (openBlock p1 ListKind)).
      { apply OPx_openBlock; [exact H1|exact S1|discriminate|]. apply LI_pre; [apply H1|exact L1|discriminate]. }
      assert (A' : OPx (updCont (openBlock p1 ListKind) (fun b => set_bchar b delim))) by (apply OPx_field; [exact A|apply keeps_bchar|intros M x; apply sp_set_bchar]).
      split; [exact A'|split].
      + apply containerKind_of; [apply A'|]. apply ckind_updCont; [intros b; apply bkind_set_bchar|]. apply ckind_openBlock, S1.
      + apply st_open_state. apply (state_openBlock p1 ListKind S1).
    - apply orb_false_iff in Ec. destruct Ec as [Ec _]. apply negb_false_iff, Z.eqb_eq in Ec. tauto. }
  destruct H2 as (H2 & K2 & S2).
  set (p3 := updCont (openBlock p2 ListItemKind) (fun b => set_bchar b delim)).
  assert (A3o : OPx (openBlock p2 ListItemKind)).
  { apply OPx_openBlock; [exact H2|exact S2|discriminate|]. left. rewrite K2. reflexivity. }
  assert (A3 : OPx p3) by (apply OPx_field; [exact A3o|apply keeps_bchar|intros M x; apply sp_set_bchar]).
  assert (B3 : ckind p3 ListItemKind) by (apply ckind_updCont; [intros b; apply bkind_set_bchar|apply ckind_openBlock, S2]).
  assert (S3 : st_open p3) by (apply st_open_state; apply (state_openBlock p2 ListItemKind S2)).
  assert (K3 : containerKind p3 = ListItemKind) by (apply containerKind_of; [apply A3|exact B3]).
  set (p4 := openBlock p3 ListMarkerKind).
  assert (A4 : OPx p4) by (apply OPx_openBlock; [exact A3|exact S3|discriminate|left; rewrite K3; reflexivity]).
  assert (B4 : ckind p4 ListMarkerKind) by (apply ckind_openBlock, S3).
  assert (M4 : ms p4) by (apply ms_state; apply (state_openBlock p3 ListMarkerKind S3)).
  set (p5 := advance p4 mend).
  assert (A5 : OPx p5) by (eapply OPx_cstep; [apply cstep_advance|exact A4]).
  assert (B5 : ckind p5 ListMarkerKind) by (eapply ckind_cstep; [apply cstep_advance|exact B4]).
  assert (M5 : ms p5) by (eapply ms_sstep; [apply sstep_advance|exact M4]).
  destruct (OPx_endBlock p5 ListMarkerKind A5 (ms_nd _ M5) B5 ltac:(discriminate) ltac:(discriminate)) as [Aq Lq].
  specialize (Lq ltac:(discriminate)). set (q := endBlock p5) in *.
  assert (Fin : forall q' v, cstep q q' -> let r := updCont q' (fun b => set_bindent b v) in OPx r /\ LI2 r /\ (LI r \/ ms r)).
  { intros q' v Hc r. destruct (fin_bindent q' v ltac:(eapply OPx_cstep; eassumption) ltac:(eapply LI_cstep; eassumption)) as [P1 P2].
    split; [exact P1|split; [left; exact P2|left; exact P2]]. }
  destruct (isRestBlank q).
  - destruct (fin_bindent q (indent p + mend + 1) Aq Lq) as [P1 P2].
    pose proof (cstep_consumeLine (updCont q (fun b => set_bindent b (indent p + mend + 1)))) as Hc.
    split; [eapply OPx_cstep; eassumption|]. assert (L : LI (consumeLine (updCont q (fun b => set_bindent b (indent p + mend + 1))))) by (eapply LI_cstep; eassumption).
    split; [left; exact L|left; exact L].
  - destruct (indent q <? 1); [apply Fin, cstep_refl|]. destruct (4 <? indent q); apply Fin, cstep_consumeIndent.
Qed.
