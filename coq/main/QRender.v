(* QRender.v -- T64, task t64-render: the renderer clause of C09 (block quote), from the statement about the trees after the inline pass.

   MAIN THEOREM (exactly as asked; closed under the global context):
     renderDoc_quote_of_parseFull : forall c D, ignoreRaw c = true -> tabFree D -> D <> [] ->
       (exists lb, parseFull (quote D) = ([quoteRoot D lb (quoteKids3 D (fst (parseFull D)))], 0)) ->
       renderDoc c (quote D) = openTag c s_blockquote ++ concat (renderPieces c D) ++ closeTag c s_blockquote.

   How it is proved
     QRender1   bytes of quote D: a span of D inside one line is copied verbatim (sub_sigma); the pieces of a span cut at line ends
                (QCutsDef.cuts) concatenate to the span (cuts_concatQ).
     QRenderDefs the facts about the tree of parseFull D that the comparison needs, as a decidable checker renderOK D (okI / okB), and
                its residual part lineOK D (lineI / lineB).
     QRender2   the inline map of the statement (shift by the root offset, then qI3 under sigma D) against textOfChildren, altText,
                linkReference / linkPart / defOf and renderI (renderI_mp), for a root whose source is a slice of D.
     QRender3   the block map qB3 against listItemNumber, renderB (renderB_mp) and extractDefs (extractDefs_mp).
     QRender4   the document level: the roots of D tile D (Tiling.C01_tiles_prefix), heights, the lastLineBlank flag is not read;
                renderDoc_quote_of_ok : the theorem under the hypothesis renderOK D = true.
     QRender5   renderOK D follows from lineOK D for EVERY input, by C05 (PropsFull.C05_full), C13 (PropsFull.C13_full) and
                EolCRRenderTree.destOK.
     QLnDefs, QLnCollect, QLnInv1, QLnDrv (block layer; QLnInv1 / QLnDrv are ExInv1 / ExDrv with a stronger entry predicate),
     QLnInlG, QLnInlSt, QLnInlSt2 (inline pass), QLnFull: lineOK D for EVERY input (lineOK_all): every CharacterReference node consists
                of the bytes & # ; letters digits, every SoftLineBreak node has a line feed at most as its last byte.
   Hence renderOK_all : forall D, renderOK D = true, and the hypothesis disappears.  The hypotheses tabFree D and D <> [] of the main
   theorem are only used through the tiling of D by its roots (no NUL) and are otherwise not needed by this file. *)
From Coq Require Import List ZArith Lia Bool.
Import ListNotations.
Require Import Base Tree LP Driver Inl3e Render QuoteSimDefs QFullDefs QRenderDefs QRender4 QRender5 QLnFull.
Open Scope Z_scope.

(* the tree facts the comparison uses hold of every input *)
Theorem renderOK_all : forall D, renderOK D = true.
Proof. intros D. apply renderOK_of_lineOK, lineOK_all. Qed.
Print Assumptions renderOK_all.
Theorem renderOK_holds : renderOK_statement.
Proof. intros D _. apply renderOK_all. Qed.
Theorem lineOK_holds : lineOK_statement.
Proof. intros D _. apply lineOK_all. Qed.

Theorem renderDoc_quote_of_parseFull : forall c D, ignoreRaw c = true -> tabFree D -> D <> [] ->
  (exists lb, parseFull (quote D) = ([quoteRoot D lb (quoteKids3 D (fst (parseFull D)))], 0)) ->
  renderDoc c (quote D) = openTag c s_blockquote ++ concat (renderPieces c D) ++ closeTag c s_blockquote.
Proof.
  intros c D Hc HT _ Hq. apply (renderDoc_quote_of_ok D c Hc HT (renderOK_all D) Hq).
Qed.
Print Assumptions renderDoc_quote_of_parseFull.

(* the renderer statement of QFullDefs follows from the tree statement of QFullDefs *)
Theorem renderDoc_quote_of_tree_statement : parseFull_quote_statement -> renderDoc_quote_statement.
Proof.
  intros H c D Hc HT Hne. apply renderDoc_quote_of_parseFull; [exact Hc|exact HT|exact Hne|apply H; assumption].
Qed.
Print Assumptions renderDoc_quote_of_tree_statement.
