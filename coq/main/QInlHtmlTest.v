(* QInlHtmlTest.v -- T64 (html): the statement of q_parseHTMLTag tested by vm_compute on whole documents (written and run BEFORE
   the proof, with a local copy of mapSpan; now it uses QInlHtml.mapSpan and also checks the extra hypothesis NoGtBehindLast on every
   leaf, and counts the valid tags / the valid tags that contain a line feed so that the test is not vacuous).
   For every root block of D and the corresponding child of the quote root of quote D, for every leaf with entries and every
   position p inside an Unparsed entry: parseHTMLTag (2 * len sQ + 10) over (sQ, moved entries) at sg p equals the mapped span
   of parseHTMLTag (2 * len sD + 10) over (sD, entries) at p; and a valid result (s, e) has s = p, s < e <= len sD,
   the byte at e - 1 is '>' and e - 1 lies inside an entry. *)
From Coq Require Import List ZArith Lia Bool String Ascii.
Import ListNotations.
Require Import Base Tree Rdr Link LP Driver Inl3a Inl3d Inl3e Render SliceBase QuoteSimDefs QuoteSimDrv1 QuoteSimTest QS2Test QCutsDef QIRdrBase QInlDefs QInlHtml.
Open Scope Z_scope.

Definition speqb (a b : Z * Z) : bool := (fst a =? fst b) && (snd a =? snd b).
Definition inIKb (IK : list inline) (p : Z) : bool := existsb (fun u => (istart u <=? p) && (p <? iend u)) IK.
Fixpoint zrange (a : Z) (k : nat) : list Z := match k with O => [] | S k' => a :: zrange (a + 1) k' end.

Definition htAt (sD sQ : bytes) (sg : Z -> Z) (IK IK' : list inline) (p : Z) : bool :=
  let r := newReader sD IK p in
  let r' := newReader sQ IK' (sg p) in
  let res := parseHTMLTag (2 * List.length sD + 10) r in
  let res' := parseHTMLTag (2 * List.length sQ + 10) r' in
  speqb res' (mapSpan sg res) &&
  (if spanValid res then (fst res =? p) && (fst res <? snd res) && (snd res <=? len sD) && (at_ sD (snd res - 1) =? 62) && inIKb IK (snd res - 1)
   else speqb res nullSpan).
(* how many valid tags were seen (to be sure that the test is not vacuous) *)
Definition htCnt (sD : bytes) (IK : list inline) (p : Z) : Z :=
  let res := parseHTMLTag (2 * List.length sD + 10) (newReader sD IK p) in
  if spanValid res then (if existsb (fun c => c =? 10) (sub sD (fst res) (snd res)) then 1001 else 1) else 0.
(* the extra hypothesis of q_parseHTMLTag: behind the last entry, when it ends inside a line, there is no '>' *)
Definition noGtLastb (sD : bytes) (IK : list inline) : bool :=
  match rev IK with [] => true | u :: _ => negb (iend u <? len sD) || (at_ sD (iend u - 1) =? 10) || negb (at_ sD (iend u) =? 62) end.

Definition leafH (sD sQ : bytes) sg (b b' : block) : bool * Z :=
  let IK := bik b in let IK' := bik b' in
  let ps := flat_map (fun u => if ikind u =? UnparsedKind then zrange (istart u) (Z.to_nat (iend u - istart u)) else []) IK in
  (leqb ieqb IK' (map (mvS sg) IK) && noGtLastb sD IK && forallb (htAt sD sQ sg IK IK') ps, fold_left (fun a p => a + htCnt sD IK p) ps 0).
Definition pand (a b : bool * Z) : bool * Z := (fst a && fst b, snd a + snd b).
Fixpoint treeH (fuel : nat) (sD sQ : bytes) sg (b b' : block) : bool * Z :=
  match fuel with O => (true, 0) | S f =>
    if (0 <? len (bik b)) && hasUnparsed b then leafH sD sQ sg b b'
    else (fix go (l l' : list block) := match l, l' with x :: t, y :: t' => pand (treeH f sD sQ sg x y) (go t t') | _, _ => (true, 0) end) (bkids b) (bkids b') end.
Definition chkH (D : bytes) : bool * Z :=
  let '(roots, _) := parseBlocks D in
  match parseBlocks (quote D) with
  | ([q], _) => (fix go (l : list rootB) (l' : list block) := match l, l' with r :: t, y :: t' => pand (treeH (bheight (rb_blk r)) (rb_src r) (quote D) (sgO D (rb_start r)) (rb_blk r) y) (go t t') | _, _ => (true, 0) end) roots (bkids (rb_blk q))
  | _ => (false, 0) end.

Local Open Scope string_scope.
Definition docsH : list string := [
  "a <b" ++ n ++ "c> d" ++ n; "a <!-- c" ++ n ++ "d --> e" ++ n; "a <?p" ++ n ++ "q" ++ n ++ "r?> b" ++ n; "a <![CDATA[x" ++ n ++ "y]]> b" ++ n; "a <!D x" ++ n ++ "y> b" ++ n;
  "a </b" ++ n ++ "  > c" ++ n; "- a <b" ++ n ++ "  c" ++ n ++ "  d='e'> f" ++ n; "a <b c=" ++ n ++ "'d" ++ n ++ "e'>" ++ n; "# a <b" ++ n; "# a <b #" ++ n; "# <b c #" ++ n; "# <!a #" ++ n; "# <!a" ++ n;
  "a<br/>b" ++ n ++ "<x y='z" ++ n ++ "w'>" ++ n; "a <b" ++ n; "a <b c" ++ n; "a <b c=" ++ n; "a <b c='" ++ n; "a <!--" ++ n; "a <!-- x" ++ n; "a <?" ++ n; "a <?x" ++ n ++ "y" ++ n; "a <![CDATA[" ++ n; "a <![CDATA[ x" ++ n ++ "]" ++ n;
  "a <!X" ++ n; "a <!X y" ++ n ++ "z" ++ n; "a </" ++ n; "a </b" ++ n; "a </b " ++ n ++ n; "a <b/" ++ n ++ ">" ++ n; "a <b /" ++ n ++ ">" ++ n; "a <" ++ n ++ "b>" ++ n; "a <!" ++ n ++ "-- x -->" ++ n; "a <!-" ++ n ++ "- x -->" ++ n;
  "a <!--" ++ n ++ "> x -->" ++ n; "a <!--" ++ n ++ "-> x -->" ++ n; "a <!-- x -" ++ n ++ "-> y" ++ n; "a <!-- x --" ++ n ++ "> y" ++ n; "a <?x ?" ++ n ++ "> y" ++ n; "a <![CDATA[ x ]" ++ n ++ "]> y ]]" ++ n ++ "> z ]]>" ++ n;
  "a <![CD" ++ n ++ "ATA[ x ]]>" ++ n; "> a <b" ++ n ++ "> c> d" ++ n; "> a <b" ++ n ++ "c> d" ++ n; "- a <!-- x" ++ n ++ "  y" ++ n ++ n ++ "  z -->" ++ n; "1. a <b" ++ n ++ "   c='d'" ++ n ++ "   e=f" ++ n ++ "   g>" ++ n;
  "a <b" ++ n ++ "   c>" ++ n; "a <b" ++ n ++ "      c=d>" ++ n; "a <b c=d" ++ n ++ "   >" ++ n; "a <b c = " ++ n ++ " d>" ++ n; "a <b c" ++ n ++ "=d>" ++ n; "<a>" ++ n; "x <a><b></c><d/>" ++ n; "x <a  " ++ n ++ "y" ++ n ++ "===" ++ n;
  "x <a" ++ n ++ "y>" ++ n ++ "---" ++ n; "- > a <b" ++ n ++ "  > c>" ++ n; "a <b c=""d" ++ n ++ "e"" f>" ++ n; "a <b c=d" ++ n; "a <b c=d" ++ n ++ "e>" ++ n; "a <b:c _d=e>" ++ n; "a <b c=`>" ++ n; "## <a> <b #" ++ n; "## <a" ++ n ++ "x>" ++ n;
  "a <?" ++ n ++ "?>" ++ n; "a <??>" ++ n; "a <?x?" ++ n; "a <!a>" ++ n; "a <!a" ++ n ++ ">" ++ n; "a <!--->" ++ n; "a <!---->" ++ n; "a <!-- -- -->" ++ n; "a <!-- --" ++ n ++ " -->" ++ n; "a <![CDATA[]]>" ++ n; "a <![CDATA[]]" ++ n ++ ">" ++ n
].
Local Close Scope string_scope.
Time Compute (filter (fun s => negb (fst (chkH (s2b s)))) (docs ++ docs2 ++ docsH), fold_left (fun a s => a + snd (chkH (s2b s))) (docs ++ docs2 ++ docsH) 0).
Definition AH1 : bytes := [60; 97; 10; 62; 32; 47].
Definition AH2 : bytes := [60; 33; 45; 10; 62; 97].
Definition AH3 : bytes := [60; 63; 10; 62; 35; 32].
Definition AH4 : bytes := [60; 97; 61; 39; 10; 62].
Time Compute (filter (fun D => negb (fst (chkH D))) (allStr AH1 6), filter (fun D => negb (fst (chkH D))) (allStr AH2 6),
              filter (fun D => negb (fst (chkH D))) (allStr AH3 6), filter (fun D => negb (fst (chkH D))) (allStr AH4 6)).
