From Coq Require Import List ZArith Lia Bool.
Import ListNotations.
Require Import Base Tree Rdr Link LP Rules Starts Driver Props L2Kind L2CC BSDef BSRdr BSTree BSShift.
Require Import LADef LA1 LA12 SpanHypDef ExInv1 DefSpansOcp DefSpansWalk DefSpans.
Require Import EolCRLFSimLeDefs EolCRLFSimLe EolCRLFSimStream EolCRLFSimCtDef.
Open Scope Z_scope.

(* T57-C: the containment invariant ct (EolCRLFSimCtDef, unchanged) for EVERY input.
   Instead of replaying the line machine for ct, ct is READ OFF three whole-run invariants that already hold for every input:
     la src M b        (T21, LADef)      : leaf blocks: the entries tile [start, hi) and the leaves of every entry lie inside it;
                                           definition blocks: the children of the entries lie inside [start, hi); containers: the block
                                           children tile [start, hi) and a closed container has closed children only;
     invD b            (T56, DefSpansWalk): definition blocks: the entries lie in order inside the block, the children in order inside the entry;
     ExInv1.inv B b    (T52)             : the children of entries have no children (and only exempt entries have children);
   together with cc (L2CC: only containers have block children). *)

(* ---- inline level ---- *)
Definition kidsLeaf (u : inline) : Prop := forall k, In k (ikids u) -> ikids k = [].
Lemma eE_kidsLeaf B u : eE B u = true -> kidsLeaf u.
Proof.
  unfold eE. intros H k Hk. destruct (isExK (ikind u)).
  - rewrite forallb_forall in H. specialize (H k Hk). unfold kidOK in H. apply andb_true_iff in H. destruct H as [H _]. apply andb_true_iff in H. destruct H as [H _].
    destruct (ikids k); [reflexivity|discriminate].
  - destruct (ikids u); [destruct Hk|discriminate].
Qed.

Lemma leI_flat H u : kidsLeaf u -> istart u <= H -> iend u <= H -> (forall k, In k (ikids u) -> istart k <= H /\ iend k <= H) -> leI H u = true.
Proof.
  intros Hk A B C. destruct u as [kd s e ind r ks]. cbn [istart iend ikids] in *. cbn [leI].
  apply andb_true_iff. split; [apply andb_true_iff; split; apply Z.leb_le; assumption|].
  apply forallb_forall. intros k Hin. pose proof (Hk k Hin) as Ek. destruct (C k Hin) as [C1 C2].
  destruct k as [kd' s' e' ind' r' ks']. cbn [ikids istart iend] in *. subst ks'. cbn [leI forallb]. rewrite andb_true_r.
  apply andb_true_iff; split; apply Z.leb_le; assumption.
Qed.
Lemma geI_flat n u : kidsLeaf u -> n <= istart u -> n <= iend u -> (forall k, In k (ikids u) -> n <= istart k /\ n <= iend k) -> geI n u = true.
Proof.
  intros Hk A B C. destruct u as [kd s e ind r ks]. cbn [istart iend ikids] in *. cbn [geI].
  apply andb_true_iff. split; [apply andb_true_iff; split; [apply Z.leb_le; assumption|apply orb_true_iff; right; apply Z.leb_le; assumption]|].
  apply forallb_forall. intros k Hin. pose proof (Hk k Hin) as Ek. destruct (C k Hin) as [C1 C2].
  destruct k as [kd' s' e' ind' r' ks']. cbn [ikids istart iend] in *. subst ks'. cbn [geI forallb]. rewrite andb_true_r.
  apply andb_true_iff; split; [apply Z.leb_le; assumption|apply orb_true_iff; right; apply Z.leb_le; assumption].
Qed.

(* the leaves of an entry whose children are leaves *)
Lemma leavesI_flat u : kidsLeaf u -> ikids u <> [] -> leavesI u = map ispan (ikids u).
Proof.
  intros Hk Hn. destruct u as [kd s e ind r ks]. cbn [ikids] in *. cbn [leavesI]. destruct ks as [|k0 ks0]; [contradiction|].
  set (l := k0 :: ks0) in *. clearbody l. clear Hn. induction l as [|k t IH]; [reflexivity|]. cbn [flat_map map].
  rewrite IH by (intros x Hx; apply Hk; right; exact Hx).
  pose proof (Hk k (or_introl eq_refl)) as Ek. destruct k as [kd' s' e' ind' r' ks']. cbn [ikids] in Ek. subst ks'. reflexivity.
Qed.
Lemma lvOK_kids u : kidsLeaf u -> lvOK u -> forall k, In k (ikids u) -> istart u <= istart k /\ istart k <= iend k /\ iend k <= iend u.
Proof.
  intros Hk Hl k Hin. assert (Hn : ikids u <> []) by (intros E; rewrite E in Hin; destruct Hin).
  unfold lvOK in Hl. rewrite (leavesI_flat u Hk Hn) in Hl.
  apply (ordIn_In _ _ _ (ispan k) Hl). apply in_map. exact Hin.
Qed.

Lemma tileS_In src : forall l lo hi se, tileS src lo hi l -> In se l -> lo <= fst se /\ fst se <= snd se /\ snd se <= hi.
Proof. intros l lo hi se H. apply ordIn_In. eapply tileS_ordIn. exact H. Qed.

(* entries of a leaf block *)
Lemma leaf_entries src B K s hi ik : tileS src s hi (map ispan ik) -> Forall (eok src K) ik -> forallb (eE B) ik = true ->
  leIL hi ik = true /\ geIL s ik = true.
Proof.
  intros Ht He Hx. rewrite Forall_forall in He. rewrite forallb_forall in Hx.
  split; apply forallb_forall; intros u Hu.
  - destruct (tileS_In src _ _ _ (ispan u) Ht (in_map ispan _ _ Hu)) as (A & B' & C). cbn [ispan fst snd] in *.
    pose proof (eE_kidsLeaf B u (Hx u Hu)) as Hk. destruct (He u Hu) as (_ & _ & Hl).
    apply leI_flat; [exact Hk|lia|lia|]. intros k Hin. pose proof (lvOK_kids u Hk Hl k Hin). lia.
  - destruct (tileS_In src _ _ _ (ispan u) Ht (in_map ispan _ _ Hu)) as (A & B' & C). cbn [ispan fst snd] in *.
    pose proof (eE_kidsLeaf B u (Hx u Hu)) as Hk. destruct (He u Hu) as (_ & _ & Hl).
    apply geI_flat; [exact Hk|lia|lia|]. intros k Hin. pose proof (lvOK_kids u Hk Hl k Hin). lia.
Qed.

(* entries of a link reference definition block *)
Lemma entD_parts u : entD u = true -> istart u <= iend u /\ ordered_inX (istart u) (iend u) (ikids u) = true /\ forallb vkid (ikids u) = true.
Proof. unfold entD. rewrite !andb_true_iff, Z.leb_le. tauto. Qed.
Lemma def_entries B s e ik : ordered_inX s e ik = true -> forallb entD ik = true -> forallb (eE B) ik = true ->
  leIL e ik = true /\ geIL s ik = true.
Proof.
  intros Ho Hd Hx. rewrite forallb_forall in Hd, Hx.
  assert (Hv : forall x, In x ik -> istart x <= iend x) by (intros x Hin; apply (entD_parts x (Hd x Hin))).
  assert (Hkid : forall u, In u ik -> forall k, In k (ikids u) -> istart u <= istart k /\ istart k <= iend k /\ iend k <= iend u).
  { intros u Hu k Hin. destruct (entD_parts u (Hd u Hu)) as (_ & O & V). rewrite forallb_forall in V.
    assert (Vk : forall x, In x (ikids u) -> istart x <= iend x) by (intros x Hx'; apply Z.leb_le, (V x Hx')).
    destruct (ordX_In _ _ _ k O Vk Hin). pose proof (Vk k Hin). lia. }
  split; apply forallb_forall; intros u Hu; destruct (ordX_In _ _ _ u Ho Hv Hu) as [A C]; pose proof (Hv u Hu) as Bu;
    pose proof (eE_kidsLeaf B u (Hx u Hu)) as Hk.
  - apply leI_flat; [exact Hk|lia|lia|]. intros k Hin. pose proof (Hkid u Hu k Hin). lia.
  - apply geI_flat; [exact Hk|lia|lia|]. intros k Hin. pose proof (Hkid u Hu k Hin). lia.
Qed.

(* ---- block level ---- *)
Definition isContK (k : Z) : bool := (k =? documentKind) || (k =? ListKind) || (k =? ListItemKind) || (k =? BlockQuoteKind).
Lemma forallb_ext' {A} (f g : A -> bool) l : (forall x, f x = g x) -> forallb f l = forallb g l.
Proof. intros H. induction l as [|x l IH]; [reflexivity|]. cbn [forallb]. rewrite H, IH. reflexivity. Qed.
Lemma cc_nokids b : cc b = true -> isContK (bkind b) = false -> bkids b = [].
Proof.
  intros H Hk. apply cc_parts in H. destruct H as [H _]. apply forallb_false_nil. rewrite <- H. apply forallb_ext'.
  intros c. unfold canContain. unfold isContK in Hk.
  apply orb_false_iff in Hk. destruct Hk as [Hk K4]. apply orb_false_iff in Hk. destruct Hk as [Hk K3]. apply orb_false_iff in Hk. destruct Hk as [K1 K2].
  rewrite K1, K2, K3, K4. reflexivity.
Qed.

(* the children of a closed container are closed and end inside it *)
Lemma tchain_closed src : forall l lo hi c, tchain src false lo hi l -> In c l -> 0 <= bend c /\ bend c <= hi.
Proof.
  induction l as [|x r IH]; intros lo hi c H Hin; [destruct Hin|]. destruct H as (A & _ & C).
  destruct (Z.ltb_spec (bend x) 0) as [L|L]; [destruct C as [C _]; discriminate|]. destruct C as [C1 C2].
  assert (Hall : forall y, In y r -> 0 <= bend y) by (intros y Hy; apply (IH _ _ y C2 Hy)).
  pose proof (tchain_le _ _ _ _ _ C2 Hall) as Hle.
  destruct Hin as [->|Hin]; [lia|apply (IH _ _ c C2 Hin)].
Qed.

Lemma bnd_hi M e : bnd M e = (if e <? 0 then M else e).
Proof. unfold bnd. destruct (Z.leb_spec 0 e); destruct (Z.ltb_spec e 0); lia. Qed.

Theorem ct_of_la src B : forall b M, la src M b -> invD b = true -> ExInv1.inv B b = true -> cc b = true -> ct M b.
Proof.
  fix IH 1. intros [K s e bk ik a n c l lb] M Hla Hd Hx Hcc.
  pose proof Hcc as Hcc'. apply cc_parts in Hcc'. destruct Hcc' as [_ Hcck]. cbn [bkids] in Hcck.
  pose proof (cc_nokids _ Hcc) as Hnk. cbn [bkind bkids] in Hnk.
  cbn [la] in Hla. destruct Hla as (A & Bd & S4 & C & D).
  apply invD_parts in Hd. destruct Hd as [Hd Hdk]. cbn [bkids] in Hdk.
  cbn [ExInv1.inv] in Hx. apply andb_true_iff in Hx. destruct Hx as [Hx Hxk].
  cbn [ct]. rewrite bnd_hi. set (hi := if e <? 0 then M else e) in *.
  assert (Hhi : s <= hi /\ hi <= M) by (unfold hi; destruct (Z.ltb_spec e 0); lia).
  split; [lia|]. split; [lia|].
  assert (Hent : leIL hi ik = true /\ geIL s ik = true).
  { destruct (isLeafK K) eqn:EL.
    - destruct C as (C1 & C2 & _). apply (leaf_entries src B K s hi ik C1 C2 Hx).
    - destruct (K =? ListMarkerKind) eqn:EM; [destruct C as [_ ->]; split; reflexivity|].
      destruct (K =? LinkReferenceDefinitionKind) eqn:ER; [|destruct C as [_ ->]; split; reflexivity].
      unfold locD in Hd. cbn [bkind bstart bend bik] in Hd. rewrite ER in Hd. cbn [negb orb] in Hd.
      destruct (Z.leb_spec 0 s) as [L0|L0]; [|lia]. cbn [negb orb] in Hd.
      apply andb_true_iff in Hd. destruct Hd as [Hd Hd3]. apply andb_true_iff in Hd. destruct Hd as [Hd1 Hd2]. apply Z.leb_le in Hd1.
      assert (Ehi : hi = e) by (unfold hi; destruct (Z.ltb_spec e 0); [lia|reflexivity]). rewrite Ehi.
      apply (def_entries B s e ik Hd2 Hd3 Hx). }
  split; [apply Hent|]. split; [apply Hent|].
  (* block children *)
  assert (Hkid : forall x, In x bk -> e < 0 \/ (0 <= bend x /\ bend x <= e)).
  { intros x Hin. destruct (Z.ltb_spec e 0) as [L|L]; [left; exact L|right].
    destruct (isContK K) eqn:EC.
    - assert (Hb : isLeafK K = false /\ (K =? ListMarkerKind) = false /\ (K =? LinkReferenceDefinitionKind) = false).
      { unfold isContK in EC. apply orb_true_iff in EC. destruct EC as [EC|EC]; [apply orb_true_iff in EC; destruct EC as [EC|EC]; [apply orb_true_iff in EC; destruct EC as [EC|EC]|]|];
          apply Z.eqb_eq in EC; subst K; repeat split; reflexivity. }
      destruct Hb as (B1 & B2 & B3). rewrite B1, B2, B3 in C. destruct C as [C _].
      replace (e <? 0) with false in C by (symmetry; apply Z.ltb_ge; exact L).
      apply (tchain_closed src bk s hi x C) in Hin. unfold hi in Hin. destruct (Z.ltb_spec e 0); lia.
    - rewrite (Hnk eq_refl) in Hin. destruct Hin. }
  clear C Hent Hnk Hcc. unfold ccL in Hcck. unfold invDL in Hdk.
  induction bk as [|x r IHr]; [exact I|]. destruct D as [D1 D2]. cbn [forallb] in Hcck, Hdk, Hxk.
  apply andb_true_iff in Hcck. destruct Hcck as [Q1 Q2]. apply andb_true_iff in Hdk. destruct Hdk as [R1 R2]. apply andb_true_iff in Hxk. destruct Hxk as [T1 T2].
  split; [|apply IHr; try assumption; intros y Hy; apply Hkid; right; exact Hy].
  pose proof (IH x M D1 R1 T1 Q1) as Hc.
  destruct (Hkid x (or_introl eq_refl)) as [L|[L1 L2]].
  - unfold hi. destruct (Z.ltb_spec e 0); [exact Hc|lia].
  - eapply ct_mono; [|apply (ct_closed_eq M x L1 Hc)]. unfold hi. destruct (Z.ltb_spec e 0); lia.
Qed.

Lemma ct_of_laL src B M l : allQ (la src M) l -> invDL l = true -> ExInv1.invL B l = true -> ccL l = true -> allP (ct M) l.
Proof.
  unfold invDL, ExInv1.invL, ccL. induction l as [|x r IH]; [intros; exact I|]. cbn [allQ forallb allP]. intros [A1 A2] H2 H3 H4.
  apply andb_true_iff in H2. apply andb_true_iff in H3. apply andb_true_iff in H4.
  split; [apply (ct_of_la src B); tauto|apply IH; tauto].
Qed.
Print Assumptions ct_of_la.
