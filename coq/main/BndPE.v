From Coq Require Import List ZArith Lia Bool.
Import ListNotations.
Require Import Base Tables Utf8 Tree Rdr Link Collect Html Recog Inl3a Inl3b Inl3c Inl3d Inl3e Props PEProof.
Require Import GI0 GI1 GI2 GI3 GI4 ShapesBase IS0 IS2 IS1 IS3 IS4 BndDefs.
Open Scope Z_scope.

(* ================================================================== *)
(* BndPE: processEmphasis keeps the boundary predicate.  It trims the  *)
(* nodes of two delimiters; by IS3.J each of them is the only node of  *)
(* its identity and its span is a run of '*' or '_'.                   *)
(* ================================================================== *)
Section PE.
  Variable src : bytes.
  Variable U : list inline.
  Notation J := (J src U).
  Notation BP := (BP src).
  Notation bok := (boundary_ok src).

  Lemma pe_pair_BP hi st P o D2 c D3 :
    J hi st -> stk st = P ++ o :: D2 ++ c :: D3 -> d_typ o = d_typ c -> (d_typ c = tStar \/ d_typ c = tUnder) ->
    BP st ->
    let strong := (2 <=? plen (nodeOf st (d_node o))) && (2 <=? plen (nodeOf st (d_node c))) in
    let k := if strong then 2 else 1 in
    let kind := if strong then StrongKind else EmphasisKind in
    let st2 := updN (updN st (d_node o) (fun n => setSpan n (ps n) (pe n - k))) (d_node c) (fun n => setSpan n (ps n + k) (pe n)) in
    let st3 := fst (wrap st2 kind (d_node o) (Some (d_node c))) in
    BP st3.
  Proof.
    intros HJ Es Htyp Htc HB. destruct HJ as [A B C D E F G V].
    pose proof G as G0. rewrite Es in G0.
    destruct (chain_two src _ _ _ _ _ _ _ _ G0) as (so & eo & sc & ec & Oo & Oc & Hso & Hlo & Hoc & Hlc & Hec & Do & Dc & Hne).
    destruct (dOK_emph src o so eo ltac:(rewrite Htyp; exact Htc) Do) as (ch & Hch & Ro & _).
    destruct (dOK_emph src c sc ec Htc Dc) as (ch' & Hch' & Rc & _).
    pose proof (nodeOf_occ st _ _ Oo) as So. pose proof (nodeOf_occ st _ _ Oc) as Sc.
    pose proof (plen_sig _ _ _ _ _ So) as Po. pose proof (plen_sig _ _ _ _ _ Sc) as Pc.
    rewrite spanLen_pos in Po, Pc by lia.
    cbv zeta. rewrite Po, Pc.
    set (k := if (2 <=? eo - so) && (2 <=? ec - sc) then 2 else 1).
    assert (Hk : 1 <= k /\ k <= eo - so /\ k <= ec - sc).
    { unfold k. destruct (Z.leb_spec 2 (eo - so)), (Z.leb_spec 2 (ec - sc)); cbn [andb]; lia. }
    apply BP_wrap.
    destruct HB as [HB1 HB2]. split; [|exact HB2].
    assert (H1 : bpF src (rk (updN st (d_node o) (fun n => setSpan n (ps n) (pe n - k)))) = true).
    { rewrite rk_updN. apply (updNode_bp src (d_node o) _ (fun q => q = (TextKind, so, eo, true))); [| |exact HB1].
      - intros n _ Hs Hn. unfold sig in Hs. injection Hs as E1 E2 E3 E4.
        apply bp_setSpan; [exact Hn|apply (bp_parts src n Hn)|].
        apply (bok_byte src _ ch); [rewrite E3; apply Ro; lia|destruct Hch; lia].
      - rewrite Oo. constructor; [reflexivity|constructor]. }
    rewrite rk_updN. apply (updNode_bp src (d_node c) _ (fun q => q = (TextKind, sc, ec, true))); [| |exact H1].
    - intros n _ Hs Hn. unfold sig in Hs. injection Hs as E1 E2 E3 E4.
      apply bp_setSpan; [exact Hn| |apply (bp_parts src n Hn)].
      rewrite E2. destruct (Z.eq_dec (sc + k) ec) as [Ee|Ne]; [rewrite Ee, <- E3; apply (bp_parts src n Hn)|].
      apply (bok_byte src _ ch'); [apply Rc; lia|destruct Hch'; lia].
    - rewrite (occ_updN_other st (d_node c) (d_node o)); [rewrite Oc; constructor; [reflexivity|constructor]|congruence| |];
        intros n; destruct n; reflexivity.
  Qed.

  Lemma pe_loop_BP : forall fuel hi st ob cp, J hi st -> OBI 0 ob -> 0 <= cp -> BP st -> BP (pe_loop fuel st ob cp).
  Proof.
    induction fuel as [|f IH]; intros hi st ob cp HJ HO Hcp HB; [exact HB|].
    cbn [pe_loop].
    remember (pe_findCloser (S (length (stk st))) (stk st) cp) as cp1 eqn:Ecp1.
    destruct (Z.ltb_spec cp1 0) as [Hneg|Hpos]; [exact HB|].
    destruct (findCloser_spec _ _ _ _ (eq_sym Ecp1) Hpos) as [Hcp1 Hcl].
    remember (nthD (stk st) cp1) as c eqn:Ec.
    pose proof (obIndex_range c Hcl) as Hobi.
    remember (getOB ob (obIndex c)) as lo eqn:Elo.
    assert (Hlo : 0 <= lo) by (subst lo; apply HO; unfold OBN; lia).
    remember (pe_findOpener (S (length (stk st))) (stk st) (cp1 - 1) lo c) as oi eqn:Eoi.
    destruct (Z.leb_spec lo oi) as [Hfound|Hnone].
    - (* a pair *)
      pose proof (findOpener_spec (stk st) c lo (S (length (stk st))) (cp1 - 1)) as Hs.
      assert (Hf : (Z.to_nat (cp1 - 1 - lo + 1) < S (length (stk st)))%nat) by (unfold len in *; lia).
      specialize (Hs Hf). cbn zeta in Hs. rewrite <- Eoi in Hs.
      destruct Hs as [(A1 & _)|(Hoi & Hmatch & _)]; [lia|].
      remember (nthD (stk st) oi) as o eqn:Eo.
      destruct (split_at2 (stk st) oi cp1 ltac:(lia) ltac:(lia) ltac:(lia)) as (P & D2s & D3s & Esplit & HlenP & HlenD2).
      rewrite <- Eo, <- Ec in Esplit.
      pose proof (pe_pair src U hi st P o D2s c D3s HJ Esplit (isEmphMatch_typ o c Hmatch) (closerLike_typ c Hcl)) as Hpair.
      pose proof (pe_pair_BP hi st P o D2s c D3s HJ Esplit (isEmphMatch_typ o c Hmatch) (closerLike_typ c Hcl) HB) as HpB.
      cbv zeta in Hpair, HpB.
      match goal with |- context [wrap ?A ?K ?X ?Y] => remember K as kind eqn:EK end.
      match goal with |- context [wrap (updN (updN st _ ?G1) _ ?G2) kind _ _] => remember G1 as g1 eqn:Eg1; remember G2 as g2 eqn:Eg2 end.
      destruct (wrap (updN (updN st (d_node o) g1) (d_node c) g2) kind (d_node o) (Some (d_node c))) as [st3 wid] eqn:Ew.
      assert (E3 : fst (wrap (updN (updN st (d_node o) g1) (d_node c) g2) kind (d_node o) (Some (d_node c))) = st3) by (rewrite Ew; reflexivity).
      cbn [fst] in Hpair, HpB.
      assert (Es3 : stk st3 = P ++ [o] ++ D2s ++ c :: D3s).
      { rewrite <- E3. rewrite stk_wrap, !stk_updN. exact Esplit. }
      assert (Ed1 : delStack (stk st3) (oi + 1) cp1 = P ++ [o] ++ [c] ++ D3s).
      { rewrite Es3. replace (P ++ [o] ++ D2s ++ c :: D3s) with ((P ++ [o]) ++ D2s ++ (c :: D3s)) by (rewrite <- !app_assoc; reflexivity).
        replace (oi + 1) with (len (P ++ [o])) by (rewrite len_app; change (len [o]) with 1; lia).
        replace cp1 with (len (P ++ [o]) + len D2s) by (rewrite len_app; change (len [o]) with 1; lia).
        rewrite delStack_app3. rewrite <- !app_assoc. reflexivity. }
      rewrite Ed1. rewrite !stk_setStk, !nodeOf_setStk.
      assert (Ed2 : delStack (P ++ [o] ++ [c] ++ D3s) oi (oi + 1) = P ++ [c] ++ D3s).
      { replace (oi + 1) with (len P + len [o]) by (change (len [o]) with 1; lia). rewrite <- HlenP at 1.
        apply (delStack_app3 P [o] ([c] ++ D3s)). }
      rewrite Ed2.
      assert (HOB1 : OBI 0 (map (fun b : Z => if oi + 1 <? b then oi + 1 else b) ob)).
      { apply OBI_map; [exact HO|]. intros b Hb. destruct (oi + 1 <? b); lia. }
      assert (HOB2 : OBI 0 (map (fun b : Z => if oi <? b then b - 1 else b) (map (fun b : Z => if oi + 1 <? b then oi + 1 else b) ob))).
      { apply OBI_map; [exact HOB1|]. intros b Hb. destruct (Z.ltb_spec oi b); lia. }
      destruct (plen (nodeOf st3 (d_node o)) =? 0) eqn:Eb1; cbv beta iota; rewrite ?stk_setStk, ?nodeOf_setStk.
      + assert (Ed3 : delStack (P ++ [c] ++ D3s) (oi + 1 - 1) (oi + 1 - 1 + 1) = P ++ D3s).
        { replace (oi + 1 - 1 + 1) with (len P + len [c]) by (change (len [c]) with 1; lia).
          replace (oi + 1 - 1) with (len P) by lia. apply (delStack_app3 P [c] D3s). }
        rewrite Ed3.
        change (nodeOf (removeNode (setStk st3 (P ++ [o] ++ [c] ++ D3s)) (d_node o)) (d_node c)) with (nodeOf (removeNode st3 (d_node o)) (d_node c)).
        destruct (plen (nodeOf (removeNode st3 (d_node o)) (d_node c)) =? 0) eqn:Eb2;
          (eapply IH; [eapply J_same; [| | | | |exact Hpair]; reflexivity|assumption|lia|]).
        * apply BP_setStk. eapply BP_same; [| |apply (BP_removeNode src (removeNode st3 (d_node o)) (d_node c)), BP_removeNode, HpB]; reflexivity.
        * apply BP_setStk. eapply BP_same; [| |apply (BP_removeNode src st3 (d_node o)), HpB]; reflexivity.
      + assert (Ed3 : delStack (P ++ [o] ++ [c] ++ D3s) (oi + 1) (oi + 1 + 1) = P ++ [o] ++ D3s).
        { replace (P ++ [o] ++ [c] ++ D3s) with ((P ++ [o]) ++ [c] ++ D3s) by (rewrite <- !app_assoc; reflexivity).
          replace (oi + 1 + 1) with (len (P ++ [o]) + len [c]) by (rewrite len_app; change (len [o]) with 1; change (len [c]) with 1; lia).
          replace (oi + 1) with (len (P ++ [o])) by (rewrite len_app; change (len [o]) with 1; lia).
          rewrite (delStack_app3 (P ++ [o]) [c] D3s). rewrite <- !app_assoc. reflexivity. }
        rewrite Ed3.
        destruct (plen (nodeOf st3 (d_node c)) =? 0) eqn:Eb2;
          (eapply IH; [eapply J_same; [| | | | |exact Hpair]; reflexivity|assumption|lia|]).
        * apply BP_setStk. eapply BP_same; [| |apply (BP_removeNode src st3 (d_node c)), HpB]; reflexivity.
        * apply BP_setStk. eapply BP_same; [| |exact HpB]; reflexivity.
    - (* no opener for this closer *)
      assert (HOB' : OBI 0 (setOB ob (obIndex c) cp1)) by (apply OBI_set; [exact HO|unfold OBN; lia|lia]).
      destruct (negb (hasFlag c fOpener)).
      + eapply IH; [|exact HOB'|lia|apply BP_setStk, HB]. apply J_delStack; [exact HJ|lia|lia|lia].
      + eapply IH; [exact HJ|exact HOB'|lia|exact HB].
  Qed.

  Lemma processEmphasis_BP hi st sb : J hi st -> 0 <= sb -> BP st -> BP (processEmphasis st sb).
  Proof.
    intros HJ Hsb HB. unfold processEmphasis. apply BP_setStk.
    apply (pe_loop_BP _ hi); [exact HJ| |exact Hsb|exact HB].
    destruct (OBI_init sb) as [A B]. split; [exact A|]. intros b Hb. specialize (B b Hb). lia.
  Qed.

  Lemma finishLink_BP hi st kind odi : J hi st -> 0 <= odi -> BP st -> BP (finishLink st kind odi).
  Proof.
    intros HJ Ho HB. unfold finishLink.
    assert (H1 : BP (setStk (removeNode (processEmphasis st (odi + 1)) (d_node (nthD (stk st) odi)))
                       (delStack (stk (removeNode (processEmphasis st (odi + 1)) (d_node (nthD (stk st) odi)))) odi (odi + 1)))).
    { apply BP_setStk, BP_removeNode. apply (processEmphasis_BP hi); [exact HJ|lia|exact HB]. }
    destruct (kind =? LinkKind); [apply BP_setStk|]; exact H1.
  Qed.
End PE.
