From Coq Require Import List ZArith Lia Bool.
Import ListNotations.
Require Import Base Tree Rdr Link Collect Html Recog LP Rules Starts Driver Render L2Kind L2CC GramDefs GramTree GramLP Rec17 Rec18 TilBase.
Open Scope Z_scope.

(* ================= C01 (tiling): the invariant of the block layer =================
   Everything is about the children of the root ("root children"):
   - every closed root child ends at a good position (TA),
   - the bytes between the end of the last closed root child and the cursor are blank while the root is the
     container, and the consumed part of the line is spaces/tabs while the root or a root paragraph is the container (TB),
   - the inline entries of an open root paragraph are line tails that tile its lines (TP). *)

Definition lastL (l : list block) : option block := match rev l with x :: _ => Some x | [] => None end.
Lemma lastBlock_lastL b : lastBlock b = lastL (bkids b). Proof. reflexivity. Qed.
Lemma lastL_snoc l x : lastL (l ++ [x]) = Some x. Proof. unfold lastL. rewrite rev_app_distr. reflexivity. Qed.
Lemma lastL_app l l' : l' <> [] -> lastL (l ++ l') = lastL l'.
Proof.
  intros H. unfold lastL. rewrite rev_app_distr. destruct (rev l') as [|x t] eqn:E; [|reflexivity].
  exfalso. apply H. rewrite <- (rev_involutive l'), E. reflexivity.
Qed.
Lemma lastL_nil : lastL [] = None. Proof. reflexivity. Qed.
Lemma lastL_In l x : lastL l = Some x -> In x l.
Proof.
  unfold lastL. destruct (rev l) as [|y t] eqn:E; [discriminate|]. intros H. inversion H; subst y.
  apply in_rev. rewrite E. left. reflexivity.
Qed.
Lemma lastL_split l x : lastL l = Some x -> l = removelast l ++ [x].
Proof.
  unfold lastL. destruct (rev l) as [|y t] eqn:E; [discriminate|]. intros H. inversion H; subst y.
  assert (El : l = rev t ++ [x]) by (rewrite <- (rev_involutive l), E; reflexivity).
  rewrite El at 2. rewrite removelast_last. exact El.
Qed.
Lemma lastL_none l : lastL l = None -> l = [].
Proof. unfold lastL. destruct (rev l) as [|y t] eqn:E; [|discriminate]. intros _. rewrite <- (rev_involutive l), E. reflexivity. Qed.

(* ---- entries of a root paragraph ---- *)
Definition piOK (s : bytes) (u : inline) : Prop :=
  (ikind u = UnparsedKind \/ ikind u = IndentKind) /\ 0 <= istart u /\ istart u < iend u /\ iend u <= len s /\
  good s (iend u) /\ (ikind u = IndentKind -> iend u = istart u + 1 /\ at_ s (istart u) = 9).
Fixpoint pch (s : bytes) (lo : Z) (ik : list inline) : Prop :=
  match ik with
  | [] => True
  | u :: r => lo <= istart u /\ blankR s lo (istart u) /\ good s (istart u) /\ piOK s u /\ pch s (iend u) r
  end.
Fixpoint lastE (lo : Z) (ik : list inline) : Z := match ik with [] => lo | u :: r => lastE (iend u) r end.
Definition PIk (s : bytes) (m : Z) (ik : list inline) : Prop :=
  match ik with [] => True | u :: r => piOK s u /\ pch s (iend u) r /\ lastE (iend u) r = m end.

Lemma pch_snoc s : forall ik lo u, pch s lo ik -> lastE lo ik <= istart u -> blankR s (lastE lo ik) (istart u) -> good s (istart u) -> piOK s u ->
  pch s lo (ik ++ [u]) /\ lastE lo (ik ++ [u]) = iend u.
Proof.
  induction ik as [|v r IH]; intros lo u H A B C D; cbn [app pch lastE] in *; [tauto|].
  destruct H as (H1 & H2 & H3 & H4 & H5). destruct (IH (iend v) u H5 A B C D) as [I1 I2]. tauto.
Qed.
Lemma lastE_ge s : forall ik lo, pch s lo ik -> lo <= lastE lo ik.
Proof.
  induction ik as [|v r IH]; intros lo H; cbn [pch lastE] in *; [lia|].
  destruct H as (H1 & _ & _ & (_ & _ & H4 & _) & H5). specialize (IH _ H5). lia.
Qed.
Lemma lastE_good s : forall ik lo, pch s lo ik -> good s lo -> good s (lastE lo ik).
Proof.
  induction ik as [|v r IH]; intros lo H G; cbn [pch lastE] in *; [exact G|].
  destruct H as (_ & _ & _ & (_ & _ & _ & _ & H4 & _) & H5). apply IH; assumption.
Qed.
Lemma lastE_le s : forall ik lo, pch s lo ik -> lo <= len s -> lastE lo ik <= len s.
Proof.
  induction ik as [|v r IH]; intros lo H G; cbn [pch lastE] in *; [exact G|].
  destruct H as (_ & _ & _ & (_ & _ & _ & H4 & _) & H5). apply IH; assumption.
Qed.

(* ---- the invariant of the line parser ---- *)
Definition top (p : lp) : option block := lastL (bkids (root p)).
Definition cur (p : lp) : Z := lineStart p + li p.
Definition B1 (p : lp) : Prop := sptR (source p) (lineStart p) (cur p).
Definition quiet (p : lp) : Prop :=
  cdepth p = O \/ (cdepth p = 1%nat /\ exists c, top p = Some c /\ bkind c = ParagraphKind /\ bik c <> []).
Definition topOpen (p : lp) : Prop := forall c, top p = Some c -> isOpen c = true.

Definition TA (p : lp) : Prop := forall c, In c (bkids (root p)) -> 0 <= bend c -> good (source p) (bend c).
Definition TB1 (p : lp) : Prop := quiet p -> topOpen p -> B1 p.
Definition TB2 (p : lp) : Prop :=
  cdepth p = O -> forall c, top p = Some c -> isOpen c = false -> blankR (source p) (bend c) (cur p).
Definition TP (p : lp) : Prop :=
  forall c, top p = Some c -> isOpen c = true -> bkind c = ParagraphKind ->
    exists m, PIk (source p) m (bik c) /\ m <= lineStart p /\ blankR (source p) m (lineStart p).
(* an open root child is never a setext heading (a heading is closed in the step that makes it) *)
Definition TS (p : lp) : Prop := forall c, top p = Some c -> isOpen c = true -> bkind c <> SetextHeadingKind.
(* only the last root child can be open *)
Definition TC (p : lp) : Prop := forall c, In c (removelast (bkids (root p))) -> isOpen c = false.
Definition T0 (p : lp) : Prop := TA p /\ TP p /\ TS p /\ TC p.
Definition TT (p : lp) : Prop := TA p /\ TB1 p /\ TB2 p /\ TP p /\ TS p /\ TC p.
Lemma TT_T0 p : TT p -> T0 p. Proof. intros (A & _ & _ & D & E & F). repeat split; assumption. Qed.

(* the environment of one line *)
Definition EV (p : lp) : Prop :=
  line p = from_ (source p) (lineStart p) /\ 0 <= lineStart p <= len (source p) /\ 0 <= li p <= len (line p) /\
  good (source p) (lineStart p).
Lemma EV_len p : EV p -> lineStart p + len (line p) = len (source p).
Proof. intros (A & B & _). rewrite A, len_from by lia. lia. Qed.
Lemma EV_at p i : EV p -> 0 <= i -> at_ (line p) i = at_ (source p) (lineStart p + i).
Proof. intros (A & B & _) Hi. rewrite A. apply at_from; lia. Qed.

(* ---- root children up to what the invariant looks at ---- *)
Definition sameH (c c' : block) : Prop :=
  bkind c' = bkind c /\ bend c' = bend c /\ (isPara (bkind c) = true -> bik c' = bik c).
Definition ksim (l l' : list block) : Prop :=
  map bend l' = map bend l /\
  match lastL l, lastL l' with Some c, Some c' => sameH c c' | None, None => True | _, _ => False end.
Lemma sameH_refl c : sameH c c. Proof. repeat split. Qed.
Lemma ksim_refl l : ksim l l.
Proof. split; [reflexivity|]. destruct (lastL l); [apply sameH_refl|exact I]. Qed.
Lemma ksim_last pre c c' : sameH c c' -> ksim (pre ++ [c]) (pre ++ [c']).
Proof.
  intros H. split.
  - rewrite !map_app. cbn [map]. destruct H as (_ & H & _). rewrite H. reflexivity.
  - rewrite !lastL_snoc. exact H.
Qed.
Lemma sameH_set_lastBlocks c v : sameH c (set_lastBlocks c v). Proof. destruct c; repeat split. Qed.
Lemma sameH_trans a b c : sameH a b -> sameH b c -> sameH a c.
Proof.
  intros (A1 & A2 & A3) (B1' & B2 & B3). split; [congruence|]. split; [congruence|]. intros H. rewrite B3; [apply A3, H|rewrite A1; exact H].
Qed.

Lemma sameH_updAt_deep f : forall d c, sameH c (updAt (S d) f c).
Proof. intros d c. cbn [updAt]. destruct (lastBlock c); [apply sameH_set_lastBlocks|apply sameH_refl]. Qed.

Lemma ksim_updAt f d r : (d = O -> forall x, lastBlock r = Some x -> sameH x (f x)) -> ksim (bkids r) (bkids (updAt (S d) f r)).
Proof.
  intros Hf. cbn [updAt]. destruct (lastBlock r) as [c|] eqn:El; [|apply ksim_refl].
  unfold set_lastBlocks. rewrite bkids_set_bkids. rewrite (lastBlock_kids r c El) at 1. apply ksim_last.
  destruct d as [|d]; [cbn [updAt]; apply Hf; reflexivity|apply sameH_updAt_deep].
Qed.

Lemma ksim_In l l' c' : ksim l l' -> In c' l' -> exists c, In c l /\ bend c = bend c'.
Proof.
  intros [Hm _] Hc. assert (Hb : In (bend c') (map bend l')) by (apply in_map; exact Hc).
  rewrite Hm in Hb. apply in_map_iff in Hb. destruct Hb as (c & E & Hc'). exists c. tauto.
Qed.

Lemma top_ksim p p' : ksim (bkids (root p)) (bkids (root p')) ->
  (forall c', top p' = Some c' -> exists c, top p = Some c /\ sameH c c') /\
  (forall c, top p = Some c -> exists c', top p' = Some c' /\ sameH c c').
Proof.
  intros [Hm Hl]. split.
  - intros c' Hc'. unfold top in *. rewrite Hc' in Hl. destruct (lastL (bkids (root p))) as [c|]; [|contradiction]. exists c. tauto.
  - intros c Hc. unfold top in *. rewrite Hc in Hl. destruct (lastL (bkids (root p'))) as [c'|]; [|contradiction]. exists c'. tauto.
Qed.
Lemma isPara_Paragraph k : k = ParagraphKind -> isPara k = true. Proof. intros ->. reflexivity. Qed.

Lemma map_bend_removelast : forall l l' : list block, map bend l' = map bend l ->
  forall c', In c' (removelast l') -> exists c, In c (removelast l) /\ bend c = bend c'.
Proof.
  induction l as [|a l IH]; intros l' Hm c' Hc'.
  - destruct l'; [destruct Hc'|discriminate].
  - destruct l' as [|a' l']; [destruct Hc'|]. cbn [map] in Hm. inversion Hm as [[Ha Hl]].
    destruct l' as [|b' l''].
    + destruct Hc'.
    + destruct l as [|b l0]; [discriminate|].
      change (removelast (a' :: b' :: l'')) with (a' :: removelast (b' :: l'')) in Hc'.
      change (removelast (a :: b :: l0)) with (a :: removelast (b :: l0)).
      destruct Hc' as [<-|Hc']; [exists a; split; [left; reflexivity|symmetry; exact Ha]|].
      destruct (IH (b' :: l'') Hl c' Hc') as (c & Hc & Eb). exists c. split; [right; exact Hc|exact Eb].
Qed.

Lemma T0_ksim p p' : source p' = source p -> lineStart p' = lineStart p ->
  ksim (bkids (root p)) (bkids (root p')) -> T0 p -> T0 p'.
Proof.
  intros E1 E2 Hk (A & D & E & F). destruct (top_ksim p p' Hk) as [Htop _].
  unfold T0, TA, TP, TS, TC. rewrite E1, E2. repeat split.
  - intros c' Hc' Hb. destruct (ksim_In _ _ c' Hk Hc') as (c & Hc & Eb). rewrite <- Eb. apply A; [exact Hc|lia].
  - intros c' Hc' Ho' Hp'. destruct (Htop c' Hc') as (c & Hc & (S1 & S2 & S3)).
    assert (Hp : bkind c = ParagraphKind) by congruence.
    rewrite (S3 (isPara_Paragraph _ Hp)). apply (D c Hc); [unfold isOpen in *; rewrite <- S2; exact Ho'|exact Hp].
  - intros c' Hc' Ho'. destruct (Htop c' Hc') as (c & Hc & (S1 & S2 & S3)). rewrite S1. apply (E c Hc). unfold isOpen in *. rewrite <- S2. exact Ho'.
  - intros c' Hc'. destruct (map_bend_removelast _ _ (proj1 Hk) c' Hc') as (c & Hc & Eb). unfold isOpen. rewrite <- Eb. apply (F c Hc).
Qed.

Lemma TT_ksim p p' :
  source p' = source p -> lineStart p' = lineStart p -> li p' = li p -> cdepth p' = cdepth p ->
  ksim (bkids (root p)) (bkids (root p')) -> TT p -> TT p'.
Proof.
  intros E1 E2 E3 E4 Hk (A & B & C & D & E & F).
  destruct (T0_ksim p p' E1 E2 Hk (conj A (conj D (conj E F)))) as (A' & D' & E' & F').
  destruct (top_ksim p p' Hk) as [Htop Htop2].
  assert (Hopen : topOpen p' -> topOpen p).
  { intros H c Hc. destruct (Htop2 c Hc) as (c' & Hc' & (_ & Hb & _)). specialize (H c' Hc'). unfold isOpen in *. rewrite <- Hb. exact H. }
  assert (Hq : quiet p' -> quiet p).
  { intros [H|(H1 & c' & Hc' & Hk' & Hi)]; [left; congruence|right]. split; [congruence|].
    destruct (Htop c' Hc') as (c & Hc & (S1 & S2 & S3)). exists c. split; [exact Hc|]. split; [congruence|].
    rewrite <- S3; [exact Hi|]. apply isPara_Paragraph. congruence. }
  split; [exact A'|]. split; [|split; [|split; [exact D'|split; [exact E'|exact F']]]].
  - unfold TB1, B1, cur. rewrite E1, E2, E3. intros Hq' Ho'. apply B; auto.
  - unfold TB2, cur. rewrite E1, E2, E3, E4. intros Hd c' Hc' Ho'. destruct (Htop c' Hc') as (c & Hc & (S1 & S2 & S3)). rewrite S2. apply (C Hd c Hc).
    unfold isOpen in *. rewrite <- S2. exact Ho'.
Qed.
