From Coq Require Import List ZArith Lia Bool.
Import ListNotations.
Require Import Base Tree Rdr Link ShapesBase ShapesR.
Open Scope Z_scope.

(* ================================================================ C04, inline layer: the fuel is sufficient
   IFBase: the step potential of the multi-line reader under a WEAK well-formedness predicate on the span list.

   spW src sp : every span has 0 <= start <= end <= len src (EMPTY spans are allowed: the block layer produces one for an
   empty ATX heading), and the list is sorted (each span ends before every later span starts).
   This is implied by ShapesR.spOK (which in addition asks for non-empty spans and has the backtick / blank conditions
   needed only for the code-span shape theorem). *)
Fixpoint spW (src : bytes) (sp : list inline) : bool :=
  match sp with
  | [] => true
  | i :: r => (0 <=? istart i) && (istart i <=? iend i) && (iend i <=? len src) &&
              forallb (fun j => iend i <=? istart j) r && spW src r
  end.

Lemma spW_cons src i r : spW src (i :: r) = true ->
  0 <= istart i /\ istart i <= iend i /\ iend i <= len src /\ (forall j, In j r -> iend i <= istart j) /\ spW src r = true.
Proof.
  cbn [spW]. intros H. apply andb_true_iff in H. destruct H as [H H5]. apply andb_true_iff in H. destruct H as [H H4].
  apply andb_true_iff in H. destruct H as [H H3]. apply andb_true_iff in H. destruct H as [H1 H2].
  apply Z.leb_le in H1, H2, H3. repeat split; try assumption.
  intros j Hj. rewrite forallb_forall in H4. specialize (H4 j Hj). apply Z.leb_le in H4. exact H4.
Qed.
Lemma spW_tail src i r : spW src (i :: r) = true -> spW src r = true.
Proof. intros H. apply spW_cons in H. tauto. Qed.
Lemma spW_app_r src : forall pre l, spW src (pre ++ l) = true -> spW src l = true.
Proof. induction pre as [|x pre IH]; intros l H; [exact H|]. apply IH. apply (spW_tail src x). exact H. Qed.
Lemma spW_skipn src n : forall l, spW src l = true -> spW src (skipn n l) = true.
Proof. intros l H. rewrite <- (firstn_skipn n l) in H. apply spW_app_r in H. exact H. Qed.
Lemma spW_from src l a : spW src l = true -> spW src (from_ l a) = true.
Proof. apply spW_skipn. Qed.

Lemma spOK_spW src : forall sp, spOK src sp = true -> spW src sp = true.
Proof.
  induction sp as [|i r IH]; intros H; [reflexivity|].
  pose proof (spOK_iend _ _ _ H) as He. pose proof (spOK_cons _ _ _ H) as (A & B & C & _ & _ & G).
  cbn [spW]. rewrite (IH G), andb_true_r.
  replace (0 <=? istart i) with true by (symmetry; apply Z.leb_le; lia).
  replace (istart i <=? iend i) with true by (symmetry; apply Z.leb_le; lia).
  replace (iend i <=? len src) with true by (symmetry; apply Z.leb_le; lia). cbn [andb].
  apply forallb_forall. intros j Hj. apply Z.leb_le. apply C, Hj.
Qed.

(* ---- the reader invariant: right source, sorted spans (NO condition on the position) ---- *)
Definition PL (src : bytes) (r : reader) : Prop := r_src r = src /\ spW src (r_spans r) = true.

Lemma PL_new src sp pos : spW src sp = true -> PL src (newReader src sp pos).
Proof. intros H1. split; [reflexivity|exact H1]. Qed.

Lemma PL_curNode src r : PL src r -> PL src (snd (curNode r)).
Proof.
  intros (A & B). destruct (curNode_cases r) as [E|(pre & n & rest & E1 & E & E3)]; rewrite E; cbn [snd];
    (split; [exact A|]); cbn [withSpans r_spans]; [reflexivity|].
  rewrite E1 in B. apply spW_app_r in B. exact B.
Qed.
Lemma PL_current src r : PL src r -> PL src (snd (current r)).
Proof. intros H. destruct (current_snd r) as [E|E]; rewrite E; [exact H|apply PL_curNode, H]. Qed.
Lemma PL_remaining src r : PL src r -> PL src (snd (remainingNodeBytes r)).
Proof. intros H. unfold remainingNodeBytes. pose proof (PL_curNode src r H) as H1. destruct (curNode r) as [[n|] r']; exact H1. Qed.

(* ---- the potential: ShapesR.mu while the reader is inside a span, 0 once it is outside every span (exhausted, or
        placed outside by its caller: every further `next` fails).  nu bounds the number of successful steps left. ---- *)
Definition nu (src : bytes) (r : reader) : Z := match fst (curNode r) with Some _ => mu src r | None => 0 end.

Lemma mu_ge src r : len src - r_pos r <= mu src r.
Proof.
  unfold mu, vadj.
  destruct (curNode_cases r) as [E|(pre & n & rest & E1 & E & E3)]; rewrite E; cbn [fst snd withSpans r_spans ibudget]; [lia|].
  pose proof (ibudget_nonneg rest). destruct (ikind n =? IndentKind); lia.
Qed.
(* inside a span at least one byte is left *)
Lemma mu_pos_in src r n : PL src r -> fst (curNode r) = Some n -> 1 <= mu src r.
Proof.
  intros (Hs & Hok) Hn. pose proof (mu_ge src r) as Hg.
  destruct (curNode_cases r) as [E|(pre & m & rest & E1 & E & E3)]; rewrite E in Hn; cbn [fst] in Hn; [discriminate|].
  rewrite E1 in Hok. apply spW_app_r in Hok. pose proof (spW_cons _ _ _ Hok) as (_ & _ & C & _).
  pose proof (spanHas_range _ _ E3) as (_ & _ & R3). lia.
Qed.
Lemma nu_nonneg src r : PL src r -> 0 <= nu src r.
Proof. intros H. unfold nu. destruct (fst (curNode r)) as [n|] eqn:E; [|lia]. pose proof (mu_pos_in src r n H E). lia. Qed.
Lemma nu_le src r : nu src r <= Z.max 0 (mu src r).
Proof. unfold nu. destruct (fst (curNode r)); lia. Qed.
Lemma nu_in src r n : fst (curNode r) = Some n -> nu src r = mu src r.
Proof. unfold nu. intros ->. reflexivity. Qed.
Lemma nu_out src r : fst (curNode r) = None -> nu src r = 0.
Proof. unfold nu. intros ->. reflexivity. Qed.

Lemma mu_curNode src r : mu src (snd (curNode r)) = mu src r.
Proof.
  unfold mu, vadj. rewrite curNode_idem. destruct (curNode_fields r) as (A & B & C & D). cbv zeta in *. rewrite B, C. reflexivity.
Qed.
Lemma nu_curNode src r : nu src (snd (curNode r)) = nu src r.
Proof. unfold nu. rewrite curNode_idem, mu_curNode. reflexivity. Qed.
Lemma nu_current src r : nu src (snd (current r)) = nu src r.
Proof. destruct (current_snd r) as [E|E]; rewrite E; [reflexivity|apply nu_curNode]. Qed.
Lemma nu_remaining src r : nu src (snd (remainingNodeBytes r)) = nu src r.
Proof. unfold remainingNodeBytes. pose proof (nu_curNode src r) as H. destruct (curNode r) as [[n|] r']; exact H. Qed.
Lemma pos_curNode r : r_pos (snd (curNode r)) = r_pos r.
Proof. destruct (curNode_fields r) as (_ & B & _). exact B. Qed.
Lemma pos_current r : r_pos (snd (current r)) = r_pos r.
Proof. destruct (current_fields r) as (_ & B & _). exact B. Qed.
Lemma pos_remaining r : r_pos (snd (remainingNodeBytes r)) = r_pos r.
Proof. unfold remainingNodeBytes. pose proof (pos_curNode r) as H. destruct (curNode r) as [[n|] r']; exact H. Qed.

(* ---- one step of the reader ---- *)
Lemma next_W src r : PL src r ->
  PL src (snd (next r)) /\ r_pos r <= r_pos (snd (next r)) /\ nu src (snd (next r)) <= nu src r /\
  (fst (next r) = true -> nu src (snd (next r)) < nu src r) /\
  (r_pos r < r_pos (snd (next r)) -> nu src (snd (next r)) < nu src r).
Proof.
  intros (Hs & Hok).
  assert (Hfin : forall (ok : bool) r1, PL src r1 -> r_pos r <= r_pos r1 -> mu src r1 < mu src r -> (exists n, fst (curNode r) = Some n) ->
            PL src r1 /\ r_pos r <= r_pos r1 /\ nu src r1 <= nu src r /\ (ok = true -> nu src r1 < nu src r) /\
            (r_pos r < r_pos r1 -> nu src r1 < nu src r)).
  { intros ok r1 P1 Pp Pm (n & Hn). pose proof (mu_pos_in src r n (conj Hs Hok) Hn) as H1.
    pose proof (nu_le src r1) as H2. rewrite (nu_in src r n Hn). split; [exact P1|]. split; [exact Pp|]. split; [lia|]. split; intros _; lia. }
  destruct (next r) as [ok0 r0] eqn:En0. cbn [fst snd]. unfold next in En0.
  destruct (curNode_cases r) as [E|(pre & n & rest & E1 & E & E3)]; rewrite E in En0.
  - (* not inside any span: the reader stops where it is *)
    inversion En0; subst ok0 r0. assert (En : nu src (withSpans r []) = nu src r).
    { replace (withSpans r []) with (snd (curNode r)) by (rewrite E; reflexivity). apply nu_curNode. }
    rewrite En. cbn [withSpans r_pos]. split; [split; [exact Hs|reflexivity]|].
    split; [lia|]. split; [lia|]. split; [discriminate|lia].
  - cbn [r_src r_pos r_spans r_vpos withSpans] in En0.
    assert (Hin : exists n0, fst (curNode r) = Some n0) by (exists n; rewrite E; reflexivity).
    rewrite E1 in Hok. apply spW_app_r in Hok. pose proof (spW_cons _ _ _ Hok) as (A & B & C & D & G).
    pose proof (spanHas_range _ _ E3) as (R1 & R2 & R3).
    assert (Emu : mu src r = len src - r_pos r + ((if ikind n =? IndentKind then Z.max 0 (iindent n) else 0) + ibudget rest)
                             - (if ikind n =? IndentKind then Z.min (r_vpos r) (Z.max 0 (iindent n)) else 0)).
    { unfold mu, vadj. rewrite E. reflexivity. }
    assert (Hjump : forall i sp, nextSpan rest = Some (i, sp) ->
              let r1 := {| r_src := r_src r; r_spans := sp; r_pos := istart i;
                           r_vpos := computeNullVirtualPosition (r_src r) (istart i); r_prev := r_pos r |} in
              PL src r1 /\ r_pos r + 1 <= istart i /\ mu src r1 <= len src - r_pos r - 1 + ibudget rest).
    { intros i sp En. destruct (nextSpan_split _ _ _ En) as (pre' & rest' & Ea & Eb).
      assert (Hj : In i rest) by (rewrite Ea; apply in_or_app; right; left; reflexivity).
      pose proof (D i Hj) as D1.
      assert (Hoki : spW src (i :: rest') = true) by (rewrite Ea in G; apply spW_app_r in G; exact G).
      pose proof (spW_cons _ _ _ Hoki) as (A' & B' & C' & _). subst sp.
      cbv zeta. split; [split; [exact Hs|cbn [r_spans]; exact Hoki]|].
      split; [lia|].
      match goal with |- mu src ?R <= _ => pose proof (mu_le_start src R) as Hm end.
      cbn [r_vpos r_pos r_spans] in Hm. specialize (Hm (cnvp_nonneg _ _)).
      rewrite Ea, ibudget_app. pose proof (ibudget_nonneg pre'). lia. }
    destruct (Z.eqb_spec (ikind n) IndentKind) as [Ek|Ek]; cbn [andb negb] in En0.
    + assert (Emu2 : mu src r = len src - r_pos r + (Z.max 0 (iindent n) + ibudget rest) - Z.min (r_vpos r) (Z.max 0 (iindent n))).
      { rewrite Emu. reflexivity. }
      destruct (Z.ltb_spec (r_vpos r) (iindent n)) as [Lv|Lv].
      * (* replaying one indentation column *)
        inversion En0; subst ok0 r0. match goal with |- PL src ?R /\ _ => set (r1 := R) end.
        assert (Em1 : mu src r1 = len src - r_pos r + (Z.max 0 (iindent n) + ibudget rest) - Z.min (r_vpos r + 1) (Z.max 0 (iindent n))).
        { unfold mu, vadj. rewrite (curNode_head n rest r1) by (first [reflexivity|exact E3]).
          cbn [fst snd r1 r_spans r_pos r_vpos ibudget]. rewrite Ek. change (IndentKind =? IndentKind) with true. cbv iota. reflexivity. }
        apply Hfin; [split; [exact Hs|exact Hok]|cbn [r1 r_pos]; lia| |exact Hin]. rewrite Em1, Emu2. lia.
      * cbn [tl] in En0. destruct (nextSpan rest) as [[i sp]|] eqn:En.
        -- destruct (Hjump i sp eq_refl) as (J1 & J2 & J3). cbv zeta in J1, J3. inversion En0; subst ok0 r0.
           apply Hfin; [exact J1|cbn [r_pos]; lia| |exact Hin]. rewrite Emu2.
           pose proof (Z.le_min_r (r_vpos r) (Z.max 0 (iindent n))). lia.
        -- inversion En0; subst ok0 r0. match goal with |- PL src ?R /\ _ => set (r1 := R) end.
           assert (Em1 : mu src r1 = len src - (r_pos r + 1)).
           { unfold mu, vadj. rewrite (curNode_nil r1) by reflexivity. cbn [fst snd r1 r_spans r_pos ibudget]. lia. }
           apply Hfin; [split; [exact Hs|reflexivity]|cbn [r1 r_pos]; lia| |exact Hin]. rewrite Em1, Emu2.
           pose proof (Z.le_min_r (r_vpos r) (Z.max 0 (iindent n))). pose proof (ibudget_nonneg rest). lia.
    + assert (Emu' : mu src r = len src - r_pos r + ibudget rest).
      { rewrite Emu. cbv iota. lia. }
      destruct (Z.ltb_spec (r_pos r + 1) (iend n)) as [L|L].
      * (* the next byte of the same span *)
        inversion En0; subst ok0 r0. match goal with |- PL src ?R /\ _ => set (r1 := R) end.
        assert (Em1 : mu src r1 = len src - (r_pos r + 1) + ibudget rest).
        { unfold mu, vadj. rewrite (curNode_head n rest r1) by (first [reflexivity|apply spanHas_intro; cbn [r1 r_pos]; lia]).
          cbn [fst snd r1 r_spans r_pos r_vpos ibudget].
          destruct (ikind n =? IndentKind) eqn:Ek2; [apply Z.eqb_eq in Ek2; congruence|]. lia. }
        apply Hfin; [split; [exact Hs|exact Hok]|cbn [r1 r_pos]; lia| |exact Hin]. rewrite Em1, Emu'. lia.
      * cbn [tl] in En0. destruct (nextSpan rest) as [[i sp]|] eqn:En.
        -- destruct (Hjump i sp eq_refl) as (J1 & J2 & J3). cbv zeta in J1, J3. inversion En0; subst ok0 r0.
           apply Hfin; [exact J1|cbn [r_pos]; lia| |exact Hin]. rewrite Emu'. lia.
        -- inversion En0; subst ok0 r0. match goal with |- PL src ?R /\ _ => set (r1 := R) end.
           assert (Em1 : mu src r1 = len src - (r_pos r + 1)).
           { unfold mu, vadj. rewrite (curNode_nil r1) by reflexivity. cbn [fst snd r1 r_spans r_pos ibudget]. lia. }
           apply Hfin; [split; [exact Hs|reflexivity]|cbn [r1 r_pos]; lia| |exact Hin]. rewrite Em1, Emu'.
           pose proof (ibudget_nonneg rest). lia.
Qed.

(* ================================================================ the progress relation
   prog r r' : r' is a reader reached from r by a scanner: still well formed, not further left, potential not larger,
   and strictly smaller if the position moved. *)
Section Prog.
  Variable src : bytes.
  Definition prog (r r' : reader) : Prop :=
    PL src r' /\ r_pos r <= r_pos r' /\ nu src r' <= nu src r /\ (r_pos r < r_pos r' -> nu src r' < nu src r).

  Lemma prog_refl r : PL src r -> prog r r.
  Proof. intros H. split; [exact H|]. split; [lia|]. split; lia. Qed.
  Lemma prog_trans r1 r2 r3 : prog r1 r2 -> prog r2 r3 -> prog r1 r3.
  Proof. intros (A1 & B1 & C1 & D1) (A2 & B2 & C2 & D2). split; [exact A2|]. split; [lia|]. split; [lia|]. intros H.
    destruct (Z.eq_dec (r_pos r1) (r_pos r2)) as [E|E]; [specialize (D2 ltac:(lia)); lia|specialize (D1 ltac:(lia)); lia]. Qed.
  Lemma prog_PL r r' : prog r r' -> PL src r'. Proof. intros H; apply H. Qed.
  Lemma prog_nu r r' : prog r r' -> nu src r' <= nu src r. Proof. intros H; apply H. Qed.
  Lemma prog_pos r r' : prog r r' -> r_pos r <= r_pos r'. Proof. intros H; apply H. Qed.

  Lemma prog_curNode r : PL src r -> prog r (snd (curNode r)).
  Proof. intros H. split; [apply PL_curNode, H|]. rewrite nu_curNode, pos_curNode. split; [lia|]. split; lia. Qed.
  Lemma prog_current r : PL src r -> prog r (snd (current r)).
  Proof. intros H. split; [apply PL_current, H|]. rewrite nu_current, pos_current. split; [lia|]. split; lia. Qed.
  Lemma prog_remaining r : PL src r -> prog r (snd (remainingNodeBytes r)).
  Proof. intros H. split; [apply PL_remaining, H|]. rewrite nu_remaining, pos_remaining. split; [lia|]. split; lia. Qed.
  Lemma prog_next r : PL src r -> prog r (snd (next r)).
  Proof. intros H. destruct (next_W src r H) as (A & B & C & D & E). split; [exact A|]. split; [exact B|]. split; [exact C|exact E]. Qed.
End Prog.

(* the potential of a fresh reader, wherever it is placed *)
Lemma nu_new src sp pos : spW src sp = true -> nu src (newReader src sp pos) <= len src + ibudget sp.
Proof.
  intros Hw. unfold nu. destruct (fst (curNode (newReader src sp pos))) as [n|] eqn:E.
  - pose proof (mu_le_start src (newReader src sp pos)) as H. cbn [newReader r_vpos r_pos r_spans] in H. specialize (H ltac:(lia)).
    destruct (curNode_cases (newReader src sp pos)) as [E'|(pre & m & rest & E1 & E' & E3)]; rewrite E' in E; cbn [fst] in E; [discriminate|].
    pose proof (spanHas_range _ _ E3) as (R1 & R2 & _). cbn [newReader r_pos] in R2. lia.
  - pose proof (ibudget_nonneg sp). unfold len. lia.
Qed.
Lemma nu_new_pos src sp pos : spW src sp = true -> 0 <= pos -> nu src (newReader src sp pos) <= Z.max 0 (len src - pos + ibudget sp).
Proof.
  intros Hw Hp. pose proof (nu_le src (newReader src sp pos)) as H1.
  pose proof (mu_le_start src (newReader src sp pos)) as H. cbn [newReader r_vpos r_pos r_spans] in H. specialize (H ltac:(lia)). lia.
Qed.
