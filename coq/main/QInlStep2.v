(* QInlStep2.v -- T64 (asm): parseBackslash and the autolink node on the two sides. *)
From Coq Require Import List ZArith Lia Bool.
Import ListNotations.
Require Import Base Tables Utf8 Tree Rdr Link Collect Html Recog Inl3a Inl3b Inl3c Inl3d Driver Inl3e.
Require Import ShapesBase ShapesR IFBase GI6 IS0 IS3 IS6a IS6b IS6 IFTokDef IFTokAux IFTokUm IFFrame IFTokLoop IFTk1 IFTk2 IFTk4.
Require Import SpanSmall.
Require Import QCutsDef QCuts QIRdrBase QInlDefs QInlBytes QInlBytesEmph QInlHtml QInlTree1 QInlTree2 QInlTree3 QInlTree QInlStep0 QInlStep1.
Open Scope Z_scope.

Section Step2.
  Variables (sD sQ : bytes) (sg : Z -> Z) (U : list inline).
  Hypothesis SG : SGood sD sQ sg.
  Hypothesis GP : GapSp sD sQ sg.
  Hypothesis HG : Forall (gsp sD sg U) U.
  Hypothesis HOK : spOK sD U = true.
  Hypothesis HKl : forall u, In u U -> ikids u = [].
  Hypothesis HLn : IS6b.linesOK sD U = true.
  Hypothesis HNG : NoGtBehindLast sD U.
  Set Default Proof Using "All".
  Local Notation Hy l := (l sD sQ sg U SG GP HG HOK HKl HLn HNG) (only parsing).
  Notation tr := (QInlBytes.tr sg).
  Notation IR := (QInlDefs.IR sD sQ sg).
  Notation SL := (QInlTree1.SL sD).
  Notation eE := (QInlDefs.eE sg).
  Notation qPs := (QInlDefs.qPs sD sg).
  Notation curU := QInlTree3.curU.
  Notation Ctx := (Ctx sD sQ sg U).
  Notation T3 := (T3 sD sQ sg U).

  Lemma IR_setIgn' st st' v : IR st st' -> IR (setIgn st v) (setIgn st' v).
  Proof. apply (IR_setIgn sD sQ sg). Qed.

  (* ---------------------------------------------------------------- parseBackslash *)
  Lemma q_parseBackslash st st' u start : Ctx st st' u -> istart u <= start < iend u ->
    IR (fst (parseBackslash st start)) (fst (parseBackslash st' (tr u start))) /\
    snd (parseBackslash st' (tr u start)) = tr u (snd (parseBackslash st start)) /\
    SL (rk (fst (parseBackslash st start))) /\ frx st (fst (parseBackslash st start)) /\
    start < snd (parseBackslash st start) <= iend u.
  Proof.
    intros HC Hs. pose proof HC as (HI & HS & _). destruct ((Hy Ctx_facts) st st' u HC) as (Hin & Gu & Es & Es' & Ee & Ee' & El & _).
    unfold parseBackslash. cbv zeta. rewrite Es, Es', Ee, Ee', El.
    rewrite (test_or3 sD sQ sg U SG u Gu start 1 10 13) by lia.
    destruct ((iend u <=? start + 1) || (at_ sD (start + 1) =? 10) || (at_ sD (start + 1) =? 13)) eqn:Et.
    - destruct (isLastSpan st).
      + cbn [fst snd]. rewrite <- (tr_add sg u start 1).
        destruct ((Hy addText_tr) st st' u start (start + 1) HI HS Gu ltac:(lia) ltac:(lia) ltac:(lia)) as [A B].
        split; [exact A|]. split; [reflexivity|]. split; [exact B|]. split; [apply (Hy frx_addText)|lia].
      + rewrite <- (tr_add sg u start 1). rewrite (eolRun_tr sD sQ sg U SG u Gu (start + 1) (iend u)) by lia.
        destruct (eolRun_range sD sg U u Gu (start + 1) (iend u) ltac:(lia) ltac:(lia) ltac:(lia)) as (R1 & _). cbv zeta in R1.
        set (e := eolRun (length sD) sD (start + 1) (iend u)) in *. cbn [fst snd].
        destruct ((Hy addNode_tr) (setIgn st true) (setIgn st' true) u HardLineBreakKind start e [] (IR_setIgn' _ _ true HI) HS Gu ltac:(lia) ltac:(lia) ltac:(lia) ltac:(constructor)) as (A1 & _ & A3).
        change (qPs []) with (@nil pn) in A1.
        split; [exact A1|]. split; [reflexivity|]. split; [exact A3|]. split; [|lia].
        apply ((Hy frx_trans) st (setIgn st true)); [split; reflexivity|apply (Hy frx_addNode)].
    - apply orb_false_iff in Et. destruct Et as [Et _]. apply orb_false_iff in Et. destruct Et as [Et _]. apply Z.leb_gt in Et.
      rewrite (at_tr_1 sD sQ sg U SG u Gu start) by lia.
      destruct (isASCIIPunctuation (at_ sD (start + 1))); cbn [fst snd].
      + replace (tr u start + 2) with (tr u (start + 2)) by (rewrite tr_add; reflexivity). rewrite <- (tr_add sg u start 1).
        destruct ((Hy addText_tr) st st' u (start + 1) (start + 2) HI HS Gu ltac:(lia) ltac:(lia) ltac:(lia)) as [A B].
        split; [exact A|]. split; [reflexivity|]. split; [exact B|]. split; [apply (Hy frx_addText)|lia].
      + rewrite <- (tr_add sg u start 1).
        destruct ((Hy addText_tr) st st' u start (start + 1) HI HS Gu ltac:(lia) ltac:(lia) ltac:(lia)) as [A B].
        split; [exact A|]. split; [reflexivity|]. split; [exact B|]. split; [apply (Hy frx_addText)|lia].
  Qed.

  Lemma q_branch_backslash st st' u pos pl : Ctx st st' u -> istart u <= pl -> pl <= pos -> pos < iend u ->
    T3 (let st := addText st pl pos in let '(st, e) := parseBackslash st pos in (st, e, e))
       (let st := addText st' (tr u pl) (tr u pos) in let '(st, e) := parseBackslash st (tr u pos) in (st, e, e)).
  Proof.
    intros HC H1 H2 H3. cbv zeta. pose proof ((Hy Ctx_addText) st st' u pl pos HC H1 H2 ltac:(lia)) as HC1.
    destruct (q_parseBackslash _ _ u pos HC1 ltac:(lia)) as (A & B & C & (D1 & D2) & E).
    destruct (parseBackslash (addText st pl pos) pos) as [s1 e]. destruct (parseBackslash (addText st' (tr u pl) (tr u pos)) (tr u pos)) as [s1' e'].
    cbn [fst snd] in *. subst e'. apply ((Hy T3_same) _ _ u s1 s1' e e HC1 A C D1 D2); lia.
  Qed.

  (* ---------------------------------------------------------------- the child of an autolink node *)
  Lemma autolink_kid u pos e : gsp sD sg U u -> istart u <= pos -> pos + 2 <= e -> e <= iend u ->
    qPs [PN 0 TextKind (pos + 1) (e - 1) 0 [] []] = [PN 0 TextKind (tr u pos + 1) (tr u e - 1) 0 [] []].
  Proof.
    intros G Hp He Hl. rewrite (qPs_one sD sg). rewrite (qP_single sD sg).
    - cbn [QInlTree1.qN]. change (qPs []) with (@nil pn). rewrite ((Hy eE_tr) u (pos + 1) (e - 1) G) by lia.
      rewrite <- ((Hy tr_in) u (pos + 1) G) by lia. rewrite !tr_add, tr_sub. reflexivity.
    - unfold QInlTree1.sgl. cbn [pkind ps pe]. intros _. replace (e - 1 - 1) with (e - 2) by lia.
      intros x Hx. apply ((Hy gsp_noLF) u G). lia.
  Qed.
End Step2.
