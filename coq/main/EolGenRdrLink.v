(* C14 (i), final newline: two runs of the link scanners of Link.v (skipLinkSpace, readEOL, parseLinkLabel,
   parseLinkDestination, parseLinkTitle) over src / src ++ [10], relations of EolGenRdrBase.  Same fuel f in both runs;
   the lemmas that need the fuel of run 2 to be sufficient take  nu (src ++ [10]) r2 < f. *)
From Coq Require Import List ZArith Lia Bool.
Import ListNotations.
Require Import Base Tree Rdr Link Collect LP ShapesBase ShapesR IFBase EolFinalDefs LADef EolGenRdrBase.
Open Scope Z_scope.

Section G.
Variable src : bytes.
Local Notation L := (len src).
Local Notation src2 := (src ++ [10]).
Hypothesis HL : 0 < L.
Hypothesis Hlast : isEOLz (at_ src (L - 1)) = false.
Set Default Proof Using "All".
Local Notation Rin := (Rin src).
Local Notation T0 := (T0 src).
Local Notation T1 := (T1 src).
Local Notation E1 := (E1 src).
Local Notation E2 := (E2 src).
Local Notation A2 := (A2 src).
Local Notation Rel0 := (Rel0 src).
Local Notation Rel := (Rel src).

(* stepping two related runs *)
Ltac stepc H c r1' r2' H1 Hc0 Hce Hpc Hnu :=
  match type of H with EolGenRdrBase.Rin _ ?r1 ?r2 =>
    let Ec := fresh "Ec" in let c' := fresh "c'" in
    pose proof (Rin_current src HL Hlast r1 r2 H) as (Ec & H1 & Hc0 & Hce);
    pose proof (pos_current r1) as Hpc; pose proof (nu_current src2 r2) as Hnu;
    destruct (current r1) as [c r1']; destruct (current r2) as [c' r2']; cbn [fst snd] in Ec, H1, Hc0, Hce, Hpc, Hnu; subst c' end.
(* after stepn: HN is the disjunction of Rin_next; Hnw the potential of run 2 *)
Ltac stepn H ok ok' r1' r2' HN Hnw :=
  match type of H with EolGenRdrBase.Rin _ ?r1 ?r2 =>
    pose proof (Rin_next src HL Hlast r1 r2 H) as HN;
    pose proof (next_W src2 r2 (Rin_PL2 src HL Hlast r1 r2 H)) as (_ & _ & _ & Hnw & _);
    destruct (next r1) as [ok r1']; destruct (next r2) as [ok' r2']; cbn [fst snd] in HN, Hnw end.

(* ---------- single-run behaviour of run 2 at the final LF ---------- *)
Lemma A2_sls_loop f r : A2 r -> (1 <= f)%nat -> exists r', skipLinkSpace_loop f r = (false, r') /\ E2 r'.
Proof.
  intros H Hf. destruct f as [|f]; [lia|]. cbn [skipLinkSpace_loop]. rewrite (A2_current src HL Hlast r H).
  change (isSpaceTabOrLineEnding 10) with true. cbv iota. destruct (A2_next src HL Hlast r H) as (r' & En & He & _). rewrite En.
  exists r'. split; [reflexivity|exact He].
Qed.
Lemma A2_sst f r : A2 r -> (1 <= f)%nat -> skipSpacesAndTabs f r = (true, r).
Proof.
  intros H Hf. destruct f as [|f]; [lia|]. cbn [skipSpacesAndTabs]. rewrite (A2_current src HL Hlast r H). reflexivity.
Qed.
Lemma A2_ll_skip f r ch : A2 r -> ll_skip f r ch = None.
Proof.
  intros H. destruct f as [|f]; [reflexivity|]. cbn [ll_skip]. destruct (A2_next src HL Hlast r H) as (r' & En & _). rewrite En. reflexivity.
Qed.
Lemma A2_ll_body f r ch ie : A2 r -> ll_body f r ch ie = None \/ ll_body f r ch ie = Some (r, ie).
Proof.
  intros H. destruct f as [|f]; [left; reflexivity|]. cbn [ll_body]. rewrite (A2_current src HL Hlast r H).
  change (10 =? 91) with false. change (10 =? 93) with false. change (10 =? 92) with false. cbn [negb andb]. rewrite andb_true_r.
  destruct (ch <? maxChars); cbn [negb]; [|right; reflexivity].
  change (isSpaceTabOrLineEnding 10) with true. cbn [negb]. destruct (A2_next src HL Hlast r H) as (r' & En & _). rewrite En. left. reflexivity.
Qed.
Lemma A2_ld_bare f r paren : A2 r -> ld_bare f r paren = r.
Proof. intros H. destruct f as [|f]; [reflexivity|]. cbn [ld_bare]. rewrite (A2_current src HL Hlast r H). reflexivity. Qed.
Lemma A2_lt_loop f r start term : A2 r -> fst (lt_loop f r start term) = (nullSpan, nullSpan).
Proof.
  intros H. destruct f as [|f]; [reflexivity|]. cbn [lt_loop]. destruct (A2_next src HL Hlast r H) as (r' & En & _). rewrite En. reflexivity.
Qed.

(* ---------- skipLinkSpace ---------- *)
Lemma T0_fuel r1 r2 f : T0 r1 r2 -> nu src2 r2 < Z.of_nat f -> (2 <= f)%nat.
Proof. intros (_ & HA & _) Hf. pose proof (A2_nu src HL Hlast r2 HA). lia. Qed.

Lemma g_sls_loop : forall f r1 r2, Rin r1 r2 -> nu src2 r2 < Z.of_nat f ->
  fst (skipLinkSpace_loop f r2) = fst (skipLinkSpace_loop f r1) /\
  (Rin (snd (skipLinkSpace_loop f r1)) (snd (skipLinkSpace_loop f r2)) \/
   (fst (skipLinkSpace_loop f r1) = false /\ T1 (snd (skipLinkSpace_loop f r1)) (snd (skipLinkSpace_loop f r2)))).
Proof.
  induction f as [|f IH]; intros r1 r2 H Hf; [cbn [skipLinkSpace_loop fst snd]; split; [reflexivity|left; exact H]|].
  cbn [skipLinkSpace_loop]. stepc H c r1' r2' H1 Hc0 Hce Hpc Hnu.
  destruct (isSpaceTabOrLineEnding c); [|cbn [fst snd]; split; [reflexivity|left; exact H1]].
  stepn H1 ok ok' r1'' r2'' HN Hnw. destruct HN as [(Eo & H2 & _)|(Eo1 & Eo2 & HT & _)].
  - subst ok'. destruct ok; [|cbn [fst snd]; split; [reflexivity|left; exact H2]]. apply IH; [exact H2|]. specialize (Hnw eq_refl). lia.
  - subst ok ok'. specialize (Hnw eq_refl). assert (Hf2 : (2 <= f)%nat) by (apply (T0_fuel r1'' r2'' f HT); lia).
    destruct (A2_sls_loop f r2'' ltac:(apply HT) ltac:(lia)) as (r' & Er & He). rewrite Er. cbn [fst snd]. split; [reflexivity|].
    right. split; [reflexivity|]. split; [apply HT|exact He].
Qed.
Lemma g_skipLinkSpace f r1 r2 : Rel r1 r2 -> nu src2 r2 < Z.of_nat f ->
  fst (skipLinkSpace f r2) = fst (skipLinkSpace f r1) /\
  (Rin (snd (skipLinkSpace f r1)) (snd (skipLinkSpace f r2)) \/
   (fst (skipLinkSpace f r1) = false /\ T1 (snd (skipLinkSpace f r1)) (snd (skipLinkSpace f r2)))).
Proof.
  intros [H|[H|H]] Hf; unfold skipLinkSpace.
  - stepc H c r1' r2' H1 Hc0 Hce Hpc Hnu. apply Z.eqb_neq in Hc0. rewrite Hc0. apply g_sls_loop; [exact H1|lia].
  - destruct H as (HE & HA & Hp). rewrite (E1_current src HL Hlast r1 HE), (A2_current src HL Hlast r2 HA). change (0 =? 0) with true. change (10 =? 0) with false. cbv iota.
    pose proof (A2_nu src HL Hlast r2 HA). destruct (A2_sls_loop f r2 HA ltac:(lia)) as (r' & Er & He). rewrite Er. cbn [fst snd]. split; [reflexivity|].
    right. split; [reflexivity|]. split; assumption.
  - destruct H as (HE & HE2). rewrite (E1_current src HL Hlast r1 HE), (E2_current src HL Hlast r2 HE2). change (0 =? 0) with true. cbv iota. cbn [fst snd].
    split; [reflexivity|]. right. split; [reflexivity|]. split; assumption.
Qed.

(* ---------- skipSpacesAndTabs, readEOL ---------- *)
Lemma g_sst : forall f r1 r2, Rin r1 r2 -> nu src2 r2 < Z.of_nat f ->
  (fst (skipSpacesAndTabs f r2) = fst (skipSpacesAndTabs f r1) /\ Rin (snd (skipSpacesAndTabs f r1)) (snd (skipSpacesAndTabs f r2))) \/
  (fst (skipSpacesAndTabs f r1) = false /\ fst (skipSpacesAndTabs f r2) = true /\ T0 (snd (skipSpacesAndTabs f r1)) (snd (skipSpacesAndTabs f r2))).
Proof.
  induction f as [|f IH]; intros r1 r2 H Hf; [cbn [skipSpacesAndTabs fst snd]; left; split; [reflexivity|exact H]|].
  cbn [skipSpacesAndTabs]. stepc H c r1' r2' H1 Hc0 Hce Hpc Hnu.
  destruct (isSpTab c); [|cbn [fst snd]; left; split; [reflexivity|exact H1]].
  stepn H1 ok ok' r1'' r2'' HN Hnw. destruct HN as [(Eo & H2 & _)|(Eo1 & Eo2 & HT & _)].
  - subst ok'. destruct ok; [|cbn [fst snd]; left; split; [reflexivity|exact H2]]. apply IH; [exact H2|]. specialize (Hnw eq_refl). lia.
  - subst ok ok'. specialize (Hnw eq_refl). assert (Hf2 : (2 <= f)%nat) by (apply (T0_fuel r1'' r2'' f HT); lia).
    rewrite (A2_sst f r2'' ltac:(apply HT) ltac:(lia)). cbn [fst snd]. right. split; [reflexivity|]. split; [reflexivity|exact HT].
Qed.

Lemma T0_readEOL f r1 r2 : T0 r1 r2 -> (1 <= f)%nat ->
  fst (readEOL f r1) = L /\ fst (readEOL f r2) = L + 1 /\ T1 (snd (readEOL f r1)) (snd (readEOL f r2)).
Proof.
  intros (HE & HA & Hp) Hf. unfold readEOL. rewrite (A2_sst f r2 HA Hf). cbn [negb].
  destruct f as [|f]; [lia|]. cbn [skipSpacesAndTabs]. rewrite (E1_current src HL Hlast r1 HE). change (isSpTab 0) with false. cbv iota.
  change (negb (0 =? 0)) with false. cbn [negb fst snd]. rewrite (A2_current src HL Hlast r2 HA). change (10 =? 13) with false. change (10 =? 10) with true. cbv iota.
  destruct (A2_next src HL Hlast r2 HA) as (r' & En & He & Epv). rewrite En. cbn [fst snd]. rewrite Epv.
  split; [apply HE|]. split; [reflexivity|]. split; assumption.
Qed.

Lemma g_readEOL f r1 r2 : Rel0 r1 r2 -> nu src2 r2 < Z.of_nat f ->
  (fst (readEOL f r2) = fst (readEOL f r1) /\ fst (readEOL f r1) < L /\ Rin (snd (readEOL f r1)) (snd (readEOL f r2))) \/
  (fst (readEOL f r1) = L /\ fst (readEOL f r2) = L + 1 /\ T1 (snd (readEOL f r1)) (snd (readEOL f r2))).
Proof.
  intros [H|H] Hf.
  2:{ right. apply T0_readEOL; [exact H|]. pose proof (T0_fuel r1 r2 f H Hf). lia. }
  assert (Hf1 : (1 <= f)%nat) by (pose proof (nu_nonneg src2 r2 (Rin_PL2 src HL Hlast r1 r2 H)); lia).
  unfold readEOL. pose proof (g_sst f r1 r2 H Hf) as HS.
  destruct (skipSpacesAndTabs f r1) as [ok ra]. destruct (skipSpacesAndTabs f r2) as [ok' ra']. cbn [fst snd] in HS.
  destruct HS as [(Eo & Ha)|(Eo1 & Eo2 & HT)].
  2:{ subst ok ok'. cbn [negb fst snd]. destruct HT as (HE & HA & Hp). rewrite (A2_current src HL Hlast ra' HA).
      change (10 =? 13) with false. change (10 =? 10) with true. cbv iota.
      destruct (A2_next src HL Hlast ra' HA) as (r' & En & He & Epv). rewrite En. cbn [fst snd]. rewrite Epv. right.
      split; [apply HE|]. split; [reflexivity|]. split; assumption. }
  subst ok'. left. destruct (negb ok).
  { cbn [fst snd]. destruct (Rin_pos src HL Hlast ra ra' Ha) as [P1 P2]. split; [exact P1|]. split; [exact P2|exact Ha]. }
  stepc Ha c rb rb' Hb Hc0 Hce Hpc Hnu.
  destruct (Z.eqb_spec c 13) as [E13|N13].
  - subst c. specialize (Hce eq_refl). stepn Hb ok2 ok2' rc rc' HN Hnw. destruct HN as [(Eo & Hc & _)|(_ & _ & _ & Hp & _)]; [|exfalso; lia].
    subst ok2'. destruct (negb ok2).
    { cbn [fst snd]. destruct (Rin_prev src HL Hlast rc rc' Hc) as [P1 P2]. split; [rewrite P1; reflexivity|]. split; [lia|exact Hc]. }
    stepc Hc c2 rd rd' Hd Hc0' Hce' Hpc' Hnu'.
    destruct (Z.eqb_spec c2 10) as [E10|N10].
    + subst c2. specialize (Hce' eq_refl). stepn Hd ok3 ok3' re re' HN Hnw'. destruct HN as [(Eo & He & _)|(_ & _ & _ & Hp & _)]; [|exfalso; lia].
      cbn [fst snd]. destruct (Rin_prev src HL Hlast re re' He) as [P1 P2]. split; [rewrite P1; reflexivity|]. split; [lia|exact He].
    + cbn [fst snd]. destruct (Rin_prev src HL Hlast rd rd' Hd) as [P1 P2]. split; [rewrite P1; reflexivity|]. split; [lia|exact Hd].
  - destruct (Z.eqb_spec c 10) as [E10|N10].
    + subst c. specialize (Hce eq_refl). stepn Hb ok2 ok2' rc rc' HN Hnw. destruct HN as [(Eo & Hc & _)|(_ & _ & _ & Hp & _)]; [|exfalso; lia].
      cbn [fst snd]. destruct (Rin_prev src HL Hlast rc rc' Hc) as [P1 P2]. split; [rewrite P1; reflexivity|]. split; [lia|exact Hc].
    + cbn [fst snd]. split; [reflexivity|]. split; [lia|exact Hb].
Qed.

(* simple stepping (no fuel bookkeeping) *)
Ltac stc H c r1' r2' H1 Hc0 Hce Hpc :=
  match type of H with EolGenRdrBase.Rin _ ?r1 ?r2 =>
    let Ec := fresh "Ec" in let c' := fresh "c'" in
    pose proof (Rin_current src HL Hlast r1 r2 H) as (Ec & H1 & Hc0 & Hce);
    pose proof (pos_current r1) as Hpc;
    destruct (current r1) as [c r1']; destruct (current r2) as [c' r2']; cbn [fst snd] in Ec, H1, Hc0, Hce, Hpc; subst c' end.
Ltac stn H ok ok' r1' r2' HN :=
  match type of H with EolGenRdrBase.Rin _ ?r1 ?r2 =>
    pose proof (Rin_next src HL Hlast r1 r2 H) as HN;
    destruct (next r1) as [ok r1']; destruct (next r2) as [ok' r2']; cbn [fst snd] in HN end.

(* ---------- parseLinkLabel ---------- *)
Definition SimO (x y : option (reader * Z)) : Prop :=
  match x, y with
  | Some (a, n), Some (a', n') => n' = n /\ Rin a a'
  | None, None => True
  | _, _ => False
  end.
Lemma g_ll_skip : forall f r1 r2 ch, Rin r1 r2 -> SimO (ll_skip f r1 ch) (ll_skip f r2 ch).
Proof.
  induction f as [|f IH]; intros r1 r2 ch H; [exact I|]. cbn [ll_skip]. stn H ok ok' r1' r2' HN.
  destruct HN as [(Eo & H1 & _)|(Eo1 & Eo2 & HT & _)].
  - subst ok'. destruct (negb ok); [exact I|]. stc H1 c ra ra' Ha Hc0 Hce Hpc.
    destruct (_ || _ || _); [exact I|]. destruct (negb (isSpaceTabOrLineEnding c)); [split; [reflexivity|exact Ha]|]. apply IH, Ha.
  - subst ok ok'. cbn [negb]. destruct HT as (_ & HA & _). rewrite (A2_current src HL Hlast r2' HA).
    change (10 =? 91) with false. change (10 =? 93) with false. rewrite !orb_false_r.
    destruct (maxChars <=? ch + 1); [exact I|]. change (isSpaceTabOrLineEnding 10) with true. cbn [negb].
    rewrite (A2_ll_skip f r2' (ch + 1) HA). exact I.
Qed.

Definition SimB (x y : option (reader * Z)) : Prop :=
  match x with
  | Some (a, n) => n <= L /\ exists a', y = Some (a', n) /\ Rin a a'
  | None => y = None \/ exists a' n, y = Some (a', n) /\ A2 a'
  end.
Lemma A2_SimB f r ch ie : A2 r -> SimB None (ll_body f r ch ie).
Proof. intros H. destruct (A2_ll_body f r ch ie H) as [E|E]; rewrite E; [left; reflexivity|right; exists r, ie; split; [reflexivity|exact H]]. Qed.
Lemma g_ll_body : forall f r1 r2 ch ie, Rin r1 r2 -> ie <= L -> SimB (ll_body f r1 ch ie) (ll_body f r2 ch ie).
Proof.
  induction f as [|f IH]; intros r1 r2 ch ie H Hie; [left; reflexivity|]. cbn [ll_body]. stc H c ra ra' Ha Hc0 Hce Hpc.
  destruct (Rin_pos src HL Hlast ra ra' Ha) as [Pa Pa']. rewrite Pa.
  destruct (negb _); [cbn [SimB]; split; [exact Hie|]; exists ra'; split; [reflexivity|exact Ha]|].
  destruct (c =? 92).
  - stn Ha ok ok' rb rb' HN. destruct HN as [(Eo & Hb & _)|(Eo1 & Eo2 & HT & _)].
    + subst ok'. destruct (negb ok); [left; reflexivity|]. stc Hb c2 rc rc' Hc Hc0' Hce' Hpc'.
      destruct (Rin_pos src HL Hlast rc rc' Hc) as [Pc Pc']. rewrite Pc.
      stn Hc ok2 ok2' rd rd' HN. destruct HN as [(Eo & Hd & _)|(Eo1 & Eo2 & HT & _)].
      * subst ok2'. destruct (negb ok2); [left; reflexivity|]. apply IH; [exact Hd|]. destruct (negb _); lia.
      * subst ok2 ok2'. cbn [negb]. apply A2_SimB. apply HT.
    + subst ok ok'. cbn [negb]. destruct HT as (_ & HA & _). rewrite (A2_current src HL Hlast rb' HA).
      destruct (A2_next src HL Hlast rb' HA) as (r' & En & _). rewrite En. cbn [negb]. left. reflexivity.
  - stn Ha ok ok' rb rb' HN. destruct HN as [(Eo & Hb & _)|(Eo1 & Eo2 & HT & _)].
    + subst ok'. destruct (negb ok); [left; reflexivity|]. apply IH; [exact Hb|]. destruct (negb _); lia.
    + subst ok ok'. cbn [negb]. apply A2_SimB. apply HT.
Qed.

Lemma valid_null : spanValid nullSpan = false. Proof. reflexivity. Qed.

Lemma g_parseLinkLabel f r1 r2 : Rin r1 r2 ->
  fst (parseLinkLabel f r2) = fst (parseLinkLabel f r1) /\
  (spanValid (fst (fst (parseLinkLabel f r1))) = true ->
     Rel0 (snd (parseLinkLabel f r1)) (snd (parseLinkLabel f r2)) /\ snd (snd (fst (parseLinkLabel f r1))) <= L).
Proof.
  intros H. unfold parseLinkLabel. stc H c ra ra' Ha Hc0 Hce Hpc.
  destruct (negb (c =? 91)); [cbn [fst snd]; split; [reflexivity|rewrite valid_null; discriminate]|].
  destruct (Rin_pos src HL Hlast ra ra' Ha) as [Pa Pa']. rewrite Pa.
  pose proof (g_ll_skip f ra ra' 0 Ha) as HS.
  destruct (ll_skip f ra 0) as [[rb ch]|]; destruct (ll_skip f ra' 0) as [[rb' ch']|]; cbn [SimO] in HS; try contradiction.
  2:{ cbn [fst snd]. split; [reflexivity|rewrite valid_null; discriminate]. }
  destruct HS as [-> Hb]. destruct (Rin_pos src HL Hlast rb rb' Hb) as [Pb Pb']. rewrite Pb.
  pose proof (g_ll_body f rb rb' ch (-1) Hb ltac:(lia)) as HB.
  destruct (ll_body f rb ch (-1)) as [[rc ie]|]; cbn [SimB] in HB.
  - destruct HB as (Hie & rc' & -> & Hc). stc Hc c2 rd rd' Hd Hc0' Hce' Hpc'.
    destruct (negb (c2 =? 93)); [cbn [fst snd]; split; [reflexivity|rewrite valid_null; discriminate]|].
    destruct (Rin_pos src HL Hlast rd rd' Hd) as [Pd Pd']. rewrite Pd.
    stn Hd ok ok' re re' HN. cbn [fst snd]. split; [reflexivity|]. intros _. split; [|exact Hie].
    destruct HN as [(_ & He & _)|(_ & _ & HT & _)]; [left; exact He|right; exact HT].
  - destruct HB as [->|(a' & n & -> & HA)]; [cbn [fst snd]; split; [reflexivity|rewrite valid_null; discriminate]|].
    rewrite (A2_current src HL Hlast a' HA). change (negb (10 =? 93)) with true. cbv iota. cbn [fst snd]. split; [reflexivity|rewrite valid_null; discriminate].
Qed.

(* ---------- parseLinkDestination ---------- *)
Lemma g_ld_angle : forall f start r1 r2, Rin r1 r2 ->
  fst (ld_angle f r2 start) = fst (ld_angle f r1 start) /\
  (spanValid (fst (fst (ld_angle f r1 start))) = true ->
     Rel0 (snd (ld_angle f r1 start)) (snd (ld_angle f r2 start)) /\ snd (snd (fst (ld_angle f r1 start))) <= L).
Proof.
  induction f as [|f IH]; intros start r1 r2 H; [cbn [ld_angle fst snd]; split; [reflexivity|rewrite valid_null; discriminate]|].
  cbn [ld_angle]. stn H ok ok' ra ra' HN. destruct HN as [(Eo & Ha & _)|(Eo1 & Eo2 & HT & _)].
  2:{ subst ok ok'. cbn [negb]. destruct HT as (_ & HA & _). rewrite (A2_current src HL Hlast ra' HA). change ((10 =? 13) || (10 =? 10)) with true. cbv iota.
      cbn [fst snd]. split; [reflexivity|rewrite valid_null; discriminate]. }
  subst ok'. destruct (negb ok); [cbn [fst snd]; split; [reflexivity|rewrite valid_null; discriminate]|].
  stc Ha c rb rb' Hb Hc0 Hce Hpc. destruct (_ || _); [cbn [fst snd]; split; [reflexivity|rewrite valid_null; discriminate]|].
  destruct (c =? 92).
  - stn Hb ok2 ok2' rc rc' HN. destruct HN as [(Eo & Hc & _)|(Eo1 & Eo2 & HT & _)].
    2:{ subst ok2 ok2'. cbn [negb]. destruct HT as (_ & HA & _). rewrite (A2_current src HL Hlast rc' HA). change ((10 =? 10) || (10 =? 13)) with true. cbv iota.
        cbn [fst snd]. split; [reflexivity|rewrite valid_null; discriminate]. }
    subst ok2'. destruct (negb ok2); [cbn [fst snd]; split; [reflexivity|rewrite valid_null; discriminate]|].
    stc Hc c2 rd rd' Hd Hc0' Hce' Hpc'. destruct (_ || _); [cbn [fst snd]; split; [reflexivity|rewrite valid_null; discriminate]|]. apply IH, Hd.
  - destruct (c =? 62); [|apply IH, Hb]. stn Hb ok2 ok2' rc rc' HN. cbn [fst snd].
    destruct HN as [(_ & Hc & _)|(_ & _ & HT & _)].
    + destruct (Rin_prev src HL Hlast rc rc' Hc) as [P1 P2]. rewrite P1. split; [reflexivity|]. intros _. split; [left; exact Hc|lia].
    + destruct (T0_prev src HL Hlast rc rc' HT) as [P1 P2]. rewrite P1. split; [reflexivity|]. intros _. split; [right; exact HT|lia].
Qed.

Lemma g_ld_bare : forall f paren r1 r2, Rin r1 r2 -> Rel0 (ld_bare f r1 paren) (ld_bare f r2 paren).
Proof.
  induction f as [|f IH]; intros paren r1 r2 H; [left; exact H|]. cbn [ld_bare]. stc H c ra ra' Ha Hc0 Hce Hpc.
  assert (Hstep : forall q x x' (ok ok' : bool),
     ((ok' = ok /\ Rin x x') \/ (ok = false /\ ok' = true /\ T0 x x')) ->
     Rel0 (if ok then ld_bare f x q else x) (if ok' then ld_bare f x' q else x')).
  { intros q x x' ok ok' [(Eo & Hx)|(Eo1 & Eo2 & HT)].
    - subst ok'. destruct ok; [apply IH, Hx|left; exact Hx].
    - subst ok ok'. rewrite (A2_ld_bare f x' q ltac:(apply HT)). right. exact HT. }
  assert (Hnx : forall q x x', Rin x x' -> Rel0 (let '(ok, y) := next x in if ok then ld_bare f y q else y) (let '(ok, y) := next x' in if ok then ld_bare f y q else y)).
  { intros q x x' Hx. stn Hx ok ok' y y' HN. apply Hstep. destruct HN as [(A & B & _)|(A & B & C & _)]; [left; split; assumption|right; split; [exact A|split; assumption]]. }
  destruct (_ || _); [left; exact Ha|].
  destruct (c =? 92).
  - stn Ha ok ok' rb rb' HN. destruct HN as [(Eo & Hb & _)|(Eo1 & Eo2 & HT & _)].
    2:{ subst ok ok'. cbn [negb]. destruct HT as (HE & HA & Hp). rewrite (A2_current src HL Hlast rb' HA). change (isASCIIControl 10) with true. cbn [orb].
        right. split; [exact HE|split; [exact HA|exact Hp]]. }
    subst ok'. destruct (negb ok); [left; exact Hb|]. stc Hb c2 rc rc' Hc Hc0' Hce' Hpc'. destruct (_ || _); [left; exact Hc|].
    apply (Hnx paren rc rc' Hc).
  - destruct (c =? 40); [apply (Hnx (paren + 1) ra ra' Ha)|].
    destruct (c =? 41); [destruct (paren - 1 <? 0); [left; exact Ha|apply (Hnx (paren - 1) ra ra' Ha)]|].
    apply (Hnx paren ra ra' Ha).
Qed.

Lemma Rel0_pos r1 r2 : Rel0 r1 r2 -> r_pos r2 = r_pos r1 /\ r_pos r1 <= L.
Proof.
  intros [H|H]; [destruct (Rin_pos src HL Hlast r1 r2 H); split; [assumption|lia]|destruct (T0_pos src HL Hlast r1 r2 H) as [A B]; rewrite A, B; split; [reflexivity|lia]].
Qed.

Lemma g_parseLinkDestination f r1 r2 : Rin r1 r2 ->
  fst (parseLinkDestination f r2) = fst (parseLinkDestination f r1) /\
  (spanValid (fst (fst (parseLinkDestination f r1))) = true ->
     Rel0 (snd (parseLinkDestination f r1)) (snd (parseLinkDestination f r2)) /\ snd (snd (fst (parseLinkDestination f r1))) <= L).
Proof.
  intros H. unfold parseLinkDestination. stc H c ra ra' Ha Hc0 Hce Hpc.
  destruct (Rin_pos src HL Hlast ra ra' Ha) as [Pa Pa']. rewrite Pa.
  destruct (c =? 60); [apply g_ld_angle, Ha|].
  destruct (_ && _ && _); [|cbn [fst snd]; split; [reflexivity|rewrite valid_null; discriminate]].
  pose proof (g_ld_bare f 0 ra ra' Ha) as Hb. destruct (Rel0_pos _ _ Hb) as [Pb Pb']. cbn [fst snd]. rewrite Pb.
  split; [reflexivity|]. intros _. split; [exact Hb|exact Pb'].
Qed.

(* ---------- parseLinkTitle ---------- *)
Lemma g_lt_loop : forall f start term r1 r2, term <> 10 -> Rin r1 r2 ->
  fst (lt_loop f r2 start term) = fst (lt_loop f r1 start term) /\
  (spanValid (fst (fst (lt_loop f r1 start term))) = true ->
     Rel0 (snd (lt_loop f r1 start term)) (snd (lt_loop f r2 start term)) /\ snd (snd (fst (lt_loop f r1 start term))) <= L).
Proof.
  induction f as [|f IH]; intros start term r1 r2 Ht H; [cbn [lt_loop fst snd]; split; [reflexivity|rewrite valid_null; discriminate]|].
  cbn [lt_loop]. stn H ok ok' ra ra' HN. destruct HN as [(Eo & Ha & _)|(Eo1 & Eo2 & HT & _)].
  2:{ subst ok ok'. cbn [negb]. destruct HT as (_ & HA & _). rewrite (A2_current src HL Hlast ra' HA). change (10 =? 92) with false. cbv iota.
      replace (10 =? term) with false by (symmetry; apply Z.eqb_neq; congruence).
      pose proof (A2_lt_loop f ra' start term HA) as E. destruct (lt_loop f ra' start term) as [sp rr]. cbn [fst] in E. subst sp.
      cbn [fst snd]. split; [reflexivity|rewrite valid_null; discriminate]. }
  subst ok'. destruct (negb ok); [cbn [fst snd]; split; [reflexivity|rewrite valid_null; discriminate]|].
  stc Ha c rb rb' Hb Hc0 Hce Hpc.
  destruct (c =? 92).
  - stn Hb ok2 ok2' rc rc' HN. destruct HN as [(Eo & Hc & _)|(Eo1 & Eo2 & HT & _)].
    2:{ subst ok2 ok2'. cbn [negb]. destruct HT as (_ & HA & _).
        pose proof (A2_lt_loop f rc' start term HA) as E. destruct (lt_loop f rc' start term) as [sp rr]. cbn [fst] in E. subst sp.
        cbn [fst snd]. split; [reflexivity|rewrite valid_null; discriminate]. }
    subst ok2'. destruct (negb ok2); [cbn [fst snd]; split; [reflexivity|rewrite valid_null; discriminate]|]. apply IH; assumption.
  - destruct (c =? term); [|apply IH; assumption]. stn Hb ok2 ok2' rc rc' HN. cbn [fst snd].
    destruct HN as [(_ & Hc & _)|(_ & _ & HT & _)].
    + destruct (Rin_prev src HL Hlast rc rc' Hc) as [P1 P2]. rewrite P1. split; [reflexivity|]. intros _. split; [left; exact Hc|lia].
    + destruct (T0_prev src HL Hlast rc rc' HT) as [P1 P2]. rewrite P1. split; [reflexivity|]. intros _. split; [right; exact HT|lia].
Qed.
Lemma g_parseLinkTitle f r1 r2 : Rin r1 r2 ->
  fst (parseLinkTitle f r2) = fst (parseLinkTitle f r1) /\
  (spanValid (fst (fst (parseLinkTitle f r1))) = true ->
     Rel0 (snd (parseLinkTitle f r1)) (snd (parseLinkTitle f r2)) /\ snd (snd (fst (parseLinkTitle f r1))) <= L).
Proof.
  intros H. unfold parseLinkTitle. stc H c ra ra' Ha Hc0 Hce Hpc.
  destruct ((c =? 39) || (c =? 34) || (c =? 40)) eqn:Eq; cbn [negb]; [|cbn [fst snd]; split; [reflexivity|rewrite valid_null; discriminate]].
  destruct (Rin_pos src HL Hlast ra ra' Ha) as [Pa Pa']. rewrite Pa. apply g_lt_loop; [|exact Ha].
  destruct (Z.eqb_spec c 40); [discriminate|]. intros ->. discriminate Eq.
Qed.
End G.
Print Assumptions g_readEOL. Print Assumptions g_parseLinkLabel. Print Assumptions g_parseLinkDestination. Print Assumptions g_parseLinkTitle. Print Assumptions g_skipLinkSpace.
