From Coq Require Import List ZArith Lia Bool.
Import ListNotations.
Require Import Base Tables Utf8 Tree Rdr Link Collect Html Recog Inl3a Inl3b Inl3c Inl3d Inl3e Props Leaf3a Leaf3e RdrBound.
Require Import SpanForest SpanIds SpanStack SpanEmph SpanSmall SpanTok SpanRdr SpanCollect SpanScan CoverLeaves CoverEmph CoverUpos CoverTok CoverCollect.
Open Scope Z_scope.

(* ================================================================================================
   T41, part 2, scanner layer 3: link labels.  Outside the inner range of a label the scanner has
   passed only brackets and blanks.
   ================================================================================================ *)

Lemma ws_nontextual c : isSpaceTabOrLineEnding c = true -> textual c = false.
Proof.
  unfold isSpaceTabOrLineEnding. intros H. repeat (apply orb_true_iff in H; destruct H as [H|H]); apply Z.eqb_eq in H; subst; reflexivity.
Qed.

Lemma collect_nil fuel r e tk esc : e <= r_pos r -> collectTextNodes fuel r e tk esc = [].
Proof.
  intros H. unfold collectTextNodes. destruct fuel as [|f]; cbn [collect_loop].
  - destruct (Z.ltb_spec (r_pos r) e); [lia|reflexivity].
  - destruct (Z.leb_spec e (r_pos r)); [|lia]. destruct (Z.ltb_spec (r_pos r) e); [lia|reflexivity].
Qed.

Section CScan.
  Variables (src : bytes) (U : list inline) (lo hi : Z).
  Hypothesis HEC : EC src U lo hi.
  Notation nU := (nthU U).
  Notation P := (SpanRdr.P src U).
  Notation AliveAt := (SpanRdr.AliveAt src U).
  Notation Off := (SpanRdr.Off src U).
  Notation RS := (SpanRdr.RS src U).
  Notation EU := (CoverTok.EU U).
  Notation Need := (CoverTok.Need src U).

  Definition NoNeed (a b : Z) : Prop := forall q, a <= q < b -> ~ Need q.
  Lemma NoNeed_app a b c : NoNeed a b -> NoNeed b c -> NoNeed a c.
  Proof. intros H1 H2 q Hq. destruct (Z.lt_ge_cases q b); [apply H1|apply H2]; lia. Qed.
  Lemma NoNeed_empty a b : b <= a -> NoNeed a b.
  Proof. intros H q Hq. lia. Qed.
  Lemma NoNeed_sub a b a' b' : NoNeed a b -> a <= a' -> b' <= b -> NoNeed a' b'.
  Proof. intros H H1 H2 q Hq. apply H. lia. Qed.

  Lemma gap_RS s r : RS s r -> forall q, r_pos r < q < r_pos (snd (next r)) -> ~ EU q.
  Proof.
    intros ([(k & A)|[A _]] & _) q Hq; [apply (next_gap src U lo hi HEC r k A q Hq)|].
    destruct (next_off src U r A) as (_ & _ & E & _). lia.
  Qed.
  Lemma NoNeed_next s r : RS s r -> NoNeed (r_pos r + 1) (r_pos (snd (next r))).
  Proof. intros HR q Hq (Hu & _). apply (gap_RS s r HR q); [lia|exact Hu]. Qed.

  (* a position at which the reader reads a non-textual byte needs no cover *)
  Lemma read_notNeed s r : RS s r -> forall c, fst (current r) = c -> textual c = false -> ~ Need (r_pos r).
  Proof.
    intros ([(k & A)|[A _]] & _) c Ec Ht ((i & Hi & Eki & Hin) & Hx).
    - pose proof (alive_pos src U lo hi HEC r k A) as (A1 & A2 & _).
      pose proof (entry_unique src U lo hi HEC k i (r_pos r) A2 Hi A1 Hin) as ->.
      rewrite (current_alive src U lo hi HEC r i A) in Ec. cbn [fst] in Ec. unfold SpanRdr.byteAt in Ec. rewrite Eki in Ec.
      change (UnparsedKind =? IndentKind) with false in Ec. cbv iota in Ec.
      destruct (Z.eqb_spec (at_ src (r_pos r)) 0) as [E0|N0]; [rewrite E0 in Hx; discriminate|]. rewrite Ec in Hx. congruence.
    - destruct A as (_ & Ep & _). pose proof (P_ge src U lo hi HEC i Hi). lia.
  Qed.
  Lemma NoNeed_here s r : RS s r -> textual (fst (current r)) = false -> NoNeed (r_pos r) (r_pos r + 1).
  Proof. intros HR Ht q Hq Hn. replace q with (r_pos r) in Hn by lia. exact (read_notNeed s r HR _ eq_refl Ht Hn). Qed.

  Ltac stepc :=
    match goal with
    | H : SpanRdr.RS src U ?s ?r |- context [current ?r] =>
      let Hc := fresh "Hc" in let Hp := fresh "Hp" in let Hv := fresh "Hv" in let H41 := fresh "H41" in let Hs := fresh "Hs" in let Hcc := fresh "Hcc" in
      let Hh := fresh "Hh" in
      pose proof (NoNeed_here s r H) as Hh;
      destruct (RS_current src U lo hi HEC s r H) as (Hc & Hp & Hv & H41 & Hs & Hcc);
      let c := fresh "c" in let r' := fresh "r" in
      destruct (current r) as [c r']; cbn [fst snd] in Hc, Hp, Hv, H41, Hs, Hcc, Hh
    end.
  Ltac stepn :=
    match goal with
    | H : SpanRdr.RS src U ?s ?r |- context [next ?r] =>
      let Hn := fresh "Hn" in let Hm := fresh "Hm" in let Hok := fresh "Hok" in let Hfl := fresh "Hfl" in let Hg := fresh "Hg" in
      pose proof (NoNeed_next s r H) as Hg;
      destruct (RS_next src U lo hi HEC s r H) as (Hn & Hm & Hok & Hfl);
      let ok := fresh "ok" in let r' := fresh "r" in
      destruct (next r) as [ok r']; cbn [fst snd] in Hn, Hm, Hok, Hfl, Hg
    end.

  Lemma ll_skip_cov : forall fuel s r chars r' chars', RS s r -> ll_skip fuel r chars = Some (r', chars') ->
    NoNeed (r_pos r + 1) (r_pos r').
  Proof.
    induction fuel as [|f IH]; intros s r chars r' chars' HR E; [discriminate|]. cbn [ll_skip] in E. revert E.
    stepn. destruct ok; cbn [negb]; [|discriminate]. destruct (Hok eq_refl) as (Hr0 & Hpv & _). stepc.
    destruct (_ || _ || _); [discriminate|]. destruct (isSpaceTabOrLineEnding c) eqn:Ew; cbn [negb].
    - intros E. pose proof (IH true r1 _ _ _ Hc E) as HI. rewrite Hp in HI.
      apply (NoNeed_app _ (r_pos r0)); [exact Hg|]. apply (NoNeed_app _ (r_pos r0 + 1)); [apply Hh; apply ws_nontextual; exact Ew|exact HI].
    - intros E. inversion E; subst. rewrite Hp. exact Hg.
  Qed.

  Lemma ll_body_cov : forall fuel r chars ie r' ie', RS true r -> (ie < 0 \/ NoNeed ie (r_pos r)) -> ll_body fuel r chars ie = Some (r', ie') ->
    ie' < 0 \/ NoNeed ie' (r_pos r').
  Proof.
    induction fuel as [|f IH]; intros r chars ie r' ie' HR Hie E; [discriminate|]. cbn [ll_body] in E. revert E.
    stepc. destruct (negb _).
    { intros E. inversion E; subst. rewrite Hp. exact Hie. }
    destruct (Z.eqb_spec c 92) as [E92|N92].
    - stepn. destruct ok; cbn [negb]; [|discriminate]. destruct (Hok eq_refl) as (Hr1 & _).
      stepc. stepn. destruct ok; cbn [negb]; [|discriminate]. destruct (Hok0 eq_refl) as (Hr3 & _).
      intros E. destruct (isSpaceTabOrLineEnding c0) eqn:Ew; cbn [negb] in E; cbv iota in E.
      + eapply IH in E; [exact E|exact Hr3|]. right.
        apply (NoNeed_app _ (r_pos r1)); [exact Hg|]. apply (NoNeed_app _ (r_pos r1 + 1)); [apply Hh0; apply ws_nontextual; exact Ew|].
        rewrite <- Hp0. exact Hg0.
      + eapply IH in E; [exact E|exact Hr3|]. right. exact Hg0.
    - stepn. destruct ok; cbn [negb]; [|discriminate]. destruct (Hok eq_refl) as (Hr1 & _).
      intros E. destruct (isSpaceTabOrLineEnding c) eqn:Ew; cbn [negb] in E; cbv iota in E.
      + eapply IH in E; [exact E|exact Hr1|]. destruct Hie as [Hie|Hie]; [left; exact Hie|right].
        apply (NoNeed_app _ (r_pos r)); [exact Hie|]. apply (NoNeed_app _ (r_pos r + 1)); [apply Hh; apply ws_nontextual; exact Ew|].
        rewrite <- Hp. exact Hg.
      + eapply IH in E; [exact E|exact Hr1|]. right. exact Hg.
  Qed.

  Lemma parseLinkLabel_cov fuel r : RS true r ->
    let '(lspan, linner, _) := parseLinkLabel fuel r in
    spanValid lspan = true ->
    NoNeed (fst lspan) (fst linner) /\ (snd linner < 0 \/ NoNeed (snd linner) (snd lspan)).
  Proof.
    intros HR. unfold parseLinkLabel. stepc. destruct (Z.eqb_spec c 91) as [E91|N91]; cbn [negb]; [|cbn; discriminate].
    destruct (ll_skip fuel r0 0) as [[r1 chars]|] eqn:E1; [|cbn; discriminate].
    pose proof (ll_skip_cov _ _ _ _ _ _ Hc E1) as S1.
    destruct (ll_body fuel r1 chars (-1)) as [[r2 ie]|] eqn:E2; [|cbn; discriminate].
    destruct (ll_skip_spec src U lo hi HEC _ _ _ _ _ _ Hc E1) as (R1 & _).
    pose proof (ll_body_cov fuel r1 chars (-1) r2 ie R1 ltac:(left; lia) E2) as B1.
    pose proof (RS_pos0 src U lo hi HEC _ _ R1) as P1.
    eapply ll_body_spec in E2 as (B2 & _); [|exact HEC|exact R1|lia].
    stepc. destruct (Z.eqb_spec c0 93) as [E93|N93]; cbn [negb]; [|cbn; discriminate].
    destruct (next r3) as [ok4 r4]. intros _. cbn [fst snd]. split.
    - rewrite Hp. apply (NoNeed_app _ (r_pos r + 1)); [apply Hh; rewrite E91; reflexivity|]. rewrite <- Hp. exact S1.
    - destruct B1 as [B1|B1]; [left; exact B1|right]. rewrite Hp0.
      apply (NoNeed_app _ (r_pos r2)); [exact B1|]. apply Hh0. rewrite E93. reflexivity.
  Qed.

  Theorem CSpecLabel_holds : CSpecLabel src U.
  Proof.
    intros st s HE Hs H91. destruct (inEntry_reader src U st (s - 1) HE) as (Eu & Es & Hj & Hp & Hse). rewrite Eu. rewrite Hse in Hs.
    pose proof (RS_new src U lo hi HEC true s (upos st) (upos st) ltac:(lia) ltac:(lia) ltac:(lia)) as HR.
    pose proof (parseLinkLabel_spec src U lo hi HEC (rfuelOf st) _ HR) as H.
    pose proof (parseLinkLabel_cov (rfuelOf st) _ HR) as HC.
    destruct (parseLinkLabel (rfuelOf st) (newReader src (from_ U (upos st)) s)) as [[lspan linner] rl].
    intros Hv p id ref Hn Hq. destruct (H Hv) as (H1 & H2 & H3 & H4 & H5 & r1 & R1 & R2). cbn [r_pos newReader] in H1, H3.
    destruct (HC Hv) as (C1 & C2).
    pose proof (RS_pos0 src U lo hi HEC _ _ R1) as Hp1. rewrite R2 in Hp1.
    assert (HRn : RS false (newReader src (from_ U (upos st)) (fst linner))).
    { rewrite <- R2. apply (RS_restart src U lo hi HEC (upos st) true r1); [lia|lia|exact R1]. }
    set (kids := kidsOf (collectTextNodes (rfuelOf st) (newReader src (from_ U (upos st)) (fst linner)) (snd linner) TextKind false)).
    assert (Hk : kids <> [] -> covF p kids).
    { intros Hne.
      assert (L1 : fst linner <= p) by (destruct (Z.le_gt_cases (fst linner) p) as [L|L]; [exact L|]; exfalso; apply (C1 p); [lia|exact Hn]).
      assert (L2 : p < snd linner).
      { destruct (Z.lt_ge_cases p (snd linner)) as [L|L]; [exact L|]. exfalso. destruct C2 as [C2|C2].
        - apply Hne. unfold kids. rewrite collect_nil; [reflexivity|]. cbn [r_pos newReader]. lia.
        - apply (C2 p); [lia|exact Hn]. }
      apply (collect_new_cov src U lo hi HEC (rfuelOf st) (upos st) (fst linner) (snd linner) TextKind false HRn
               (fuel_ok src U lo hi HEC st (upos st) Es Hj) p Hn). lia. }
    destruct kids as [|k0 kr]; [apply covN_leaf; lia|]. apply covN_kids; [discriminate|]. apply Hk. discriminate.
  Qed.
End CScan.
Print Assumptions CSpecLabel_holds.
