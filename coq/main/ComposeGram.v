From Coq Require Import List ZArith Lia Bool.
Import ListNotations.
Require Import Base Tables Utf8 Tree Rdr Link Collect Html Recog Inl3a Inl3b Inl3c Inl3d Inl3e LP Rules Starts Driver Props.
Require Import ShapesBase ShapesR ShapesComp3 GramInline IFBase IFTitle IFGram.
Require Import EntDefs EntriesOK.
Open Scope Z_scope.

(* ================================================================================================
   T45 (1): GramInline.parseFull_gramI_statement for every input (property C05, last clause), by composing
   IFGram.parseFull_gramI_entOK with the block-layer invariant (EntriesOK.parseBlocks_entries_ok_partial and, for the
   ATX heading without content, EntriesOK.parseBlocks_entries_basic).
   ================================================================================================ *)

(* ---- the recursive checkers speak about every sub-block ---- *)
Lemma entriesOKw_sub src : forall d b, subB d b -> entriesOKw src b = true -> hasUnparsed d = true -> bikOKw src d = true.
Proof.
  induction 1 as [b|d c b Hin Hs IH]; intros H Hu.
  - rewrite entriesOKw_eq in H. apply andb_true_iff in H. destruct H as [H _]. rewrite Hu in H. exact H.
  - apply IH; [|exact Hu]. rewrite entriesOKw_eq in H. apply andb_true_iff in H. destruct H as [_ H]. rewrite forallb_forall in H. apply H, Hin.
Qed.
Lemma entriesBasicAll_eq src b :
  entriesBasicAll src b = (if hasUnparsed b then entriesBasic src b else true) && forallb (entriesBasicAll src) (bkids b).
Proof. destruct b; reflexivity. Qed.
Lemma entriesBasicAll_sub src : forall d b, subB d b -> entriesBasicAll src b = true -> hasUnparsed d = true -> entriesBasic src d = true.
Proof.
  induction 1 as [b|d c b Hin Hs IH]; intros H Hu.
  - rewrite entriesBasicAll_eq in H. apply andb_true_iff in H. destruct H as [H _]. rewrite Hu in H. exact H.
  - apply IH; [|exact Hu]. rewrite entriesBasicAll_eq in H. apply andb_true_iff in H. destruct H as [_ H]. rewrite forallb_forall in H. apply H, Hin.
Qed.

(* an entry that passed spansI lies inside the source *)
Lemma spansI_bounds v src ps pe u : spansI v src ps pe u = true -> 0 <= istart u /\ istart u <= iend u /\ iend u <= len src /\ ps <= istart u /\ iend u <= pe.
Proof.
  destruct u as [k s e i r ks]. cbn [spansI istart iend]. intros H.
  apply andb_true_iff in H. destruct H as [H _]. apply andb_true_iff in H. destruct H as [H _].
  apply andb_true_iff in H. destruct H as [H H3]. apply andb_true_iff in H. destruct H as [H H2].
  unfold span_valid in H. apply andb_true_iff in H. destruct H as [H H1]. apply andb_true_iff in H. destruct H as [H0 H0'].
  apply Z.leb_le in H0, H0', H1, H2, H3. lia.
Qed.

Lemma leaf_entOK src d : bikOKw src d = true -> entriesBasic src d = true -> entOK src (bik d) = true.
Proof.
  unfold bikOKw. intros H Hb. apply orb_true_iff in H. destruct H as [H|H].
  - unfold bikOK in H. apply andb_true_iff in H. destruct H as [H _]. apply andb_true_iff in H. destruct H as [H1 H2].
    unfold entOK. rewrite (spOK_spW _ _ H1), H2. reflexivity.
  - unfold emptyATX in H. apply andb_true_iff in H. destruct H as [_ H]. unfold emptyOne in H.
    destruct (bik d) as [|u [|v r]] eqn:E; try discriminate.
    apply andb_true_iff in H. destruct H as [H _]. apply andb_true_iff in H. destruct H as [Hk _]. apply Z.eqb_eq in Hk.
    unfold entriesBasic in Hb. rewrite E in Hb. apply andb_true_iff in Hb. destruct Hb as [_ Hb]. cbn [forallb] in Hb. rewrite andb_true_r in Hb.
    destruct (spansI_bounds _ _ _ _ _ Hb) as (A1 & A2 & A3 & _).
    unfold entOK. cbn [spW ibudget forallb]. rewrite Hk. change (UnparsedKind =? IndentKind) with false. cbv iota.
    replace (0 <=? istart u) with true by (symmetry; apply Z.leb_le; lia). replace (istart u <=? iend u) with true by (symmetry; apply Z.leb_le; lia).
    replace (iend u <=? len src) with true by (symmetry; apply Z.leb_le; lia). cbn [andb].
    apply Z.leb_le. pose proof (len_nonneg src). lia.
Qed.

Theorem parseBlocks_entOKDoc : forall input, entOKDoc input.
Proof.
  intros input r Hr d Hd Hu.
  pose proof (parseBlocks_entries_ok_partial input) as H1. pose proof (parseBlocks_entries_basic input) as H2. rewrite Forall_forall in H1, H2.
  apply leaf_entOK; [eapply entriesOKw_sub; [exact Hd|apply H1, Hr|exact Hu]|eapply entriesBasicAll_sub; [exact Hd|apply H2, Hr|exact Hu]].
Qed.
Print Assumptions parseBlocks_entOKDoc.

(* C05, last clause, every input: every inline child of a paragraph / heading of parseFull's output is phrasing content and
   satisfies Props.gramI false (in particular: a link title only follows a link destination) *)
Theorem parseFull_gramI : forall input,
  forallb (fun r => leavesOK (gramI false) (rb_blk r)) (fst (parseFull input)) = true.
Proof. intros input. apply parseFull_gramI_entOK, parseBlocks_entOKDoc. Qed.
Print Assumptions parseFull_gramI.

Theorem parseFull_gramI_statement_proved : parseFull_gramI_statement.
Proof. exact parseFull_gramI. Qed.
Print Assumptions parseFull_gramI_statement_proved.
