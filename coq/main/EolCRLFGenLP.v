From Coq Require Import List ZArith Lia Bool.
Import ListNotations.
Require Import Base Tree Rdr Link Collect Html Recog LP Rules Starts Driver Rec16 Rec17 Rec18 RecBounds Cursor CursorX L2Kind SpanSmall LADef
  EolInv EolCRDefs EolCRBytes EolCRLFDefs EolCRLFSimBytes EolCRLFSimTree EolCRLFSimLP EolCRLFGenHyp.
Open Scope Z_scope.

(* C14 (ii), CRLF clause, inputs without '[': the line parser on a source and on its LF -> CR LF image.
   p runs on S, q on crlf S; every position of q is the image under phiP S of the position of p. *)
Definition PEH (O : OcpHyp) (R : bytes) (rt : block) : Prop := LIM R /\ peB O R true rt.
Definition CG (O : OcpHyp) (p q : lp) : Prop :=
  ~ In 13 (source p) /\ PEH O (source p) (root p) /\
  source q = crlf (source p) /\
  0 <= lineStart p /\ line p = from_ (source p) (lineStart p) /\ lineOK (line p) /\
  line q = crlf (line p) /\ lineStart q = phiP (source p) (lineStart p) /\
  0 <= li p <= len (line p) /\ li q = phiP (line p) (li p) /\
  (li p <= blen (line p) -> col q = col p /\ tabRem q = tabRem p) /\
  root q = phiB (source p) (root p) /\ container q = container p /\ state q = state p /\ panicked q = panicked p /\
  nnB (root p) = true.

Ltac cgsplit H :=
  match type of H with CG _ ?p ?q =>
    let S13 := fresh "S13" in let S91 := fresh "S91" in let Ls0 := fresh "Ls0" in let Eln := fresh "Eln" in let Lok := fresh "Lok" in
    let Li := fresh "Li" in let Ect := fresh "Ect" in let Hnn := fresh "Hnn" in
    let S := fresh "S" in let rt := fresh "rt" in let cont := fresh "cont" in let ls := fresh "ls" in let ln := fresh "ln" in
    let i := fresh "i" in let cl := fresh "cl" in let tr := fresh "tr" in let st := fresh "st" in let pn := fresh "pn" in
    let S' := fresh "S'" in let rt' := fresh "rt'" in let cont' := fresh "cont'" in let ls' := fresh "ls'" in let ln' := fresh "ln'" in
    let i' := fresh "i'" in let cl' := fresh "cl'" in let tr' := fresh "tr'" in let st' := fresh "st'" in let pn' := fresh "pn'" in
    destruct p as [S rt cont ls ln i cl tr st pn]; destruct q as [S' rt' cont' ls' ln' i' cl' tr' st' pn'];
    unfold CG in H; cbn [source line root container lineStart li col tabRem state panicked] in H;
    destruct H as (S13 & S91 & -> & Ls0 & Eln & Lok & -> & -> & Li & -> & Ect & -> & -> & -> & -> & Hnn) end.
Ltac flds := cbv beta iota delta [source line root container lineStart li col tabRem state panicked setLP withRoot withCont withState withCursor panic updCont cdepth].

Section GenLP.
  Context {O : OcpHyp}.

Lemma CG_mk S rt cont ls ln i cl tr cl' tr' st pn : ~ In 13 S -> PEH O S rt -> 0 <= ls -> ln = from_ S ls -> lineOK ln -> 0 <= i <= len ln ->
  (i <= blen ln -> cl' = cl /\ tr' = tr) -> nnB rt = true ->
  CG O {| source := S; root := rt; container := cont; lineStart := ls; line := ln; li := i; col := cl; tabRem := tr; state := st; panicked := pn |}
     {| source := crlf S; root := phiB S rt; container := cont; lineStart := phiP S ls; line := crlf ln; li := phiP ln i; col := cl'; tabRem := tr'; state := st; panicked := pn |}.
Proof. intros. unfold CG. flds. split; [assumption|]. split; [assumption|]. repeat split; try assumption; try lia; try reflexivity; apply H5; assumption. Qed.

Lemma CG_mk' S rt cont ls ln i i' cl tr cl' tr' st pn : ~ In 13 S -> PEH O S rt -> 0 <= ls -> ln = from_ S ls -> lineOK ln -> 0 <= i <= len ln ->
  i' = phiP ln i -> (i <= blen ln -> cl' = cl /\ tr' = tr) -> nnB rt = true ->
  CG O {| source := S; root := rt; container := cont; lineStart := ls; line := ln; li := i; col := cl; tabRem := tr; state := st; panicked := pn |}
     {| source := crlf S; root := phiB S rt; container := cont; lineStart := phiP S ls; line := crlf ln; li := i'; col := cl'; tabRem := tr'; state := st; panicked := pn |}.
Proof. intros. subst i'. apply CG_mk; assumption. Qed.

(* simple state changes *)
Lemma CG_withState p q s : CG O p q -> CG O (withState p s) (withState q s).
Proof. intros H. cgsplit H. unfold withState. flds. apply CG_mk; assumption. Qed.
Lemma CG_withCont p q c : CG O p q -> CG O (withCont p c) (withCont q c).
Proof. intros H. cgsplit H. unfold withCont. flds. apply CG_mk; assumption. Qed.
Lemma CG_panic p q n : CG O p q -> CG O (panic p n) (panic q n).
Proof. intros H. cgsplit H. unfold panic. flds. apply CG_mk; assumption. Qed.
Lemma CG_state p q : CG O p q -> state q = state p. Proof. intros H. apply H. Qed.
Lemma CG_opened p q : CG O p q -> CG O (if state p =? stOpening then withState p stOpenMatched else p) (if state q =? stOpening then withState q stOpenMatched else q).
Proof. intros H. rewrite (CG_state p q H). destruct (_ =? _); [apply CG_withState, H|exact H]. Qed.
Lemma CG_withRoot p q r : CG O p q -> nnB r = true -> peB O (source p) true r -> CG O (withRoot p r) (withRoot q (phiB (source p) r)).
Proof. intros H Hr Hpe. cgsplit H. unfold withRoot. flds. cbv beta iota delta [source] in Hpe. apply CG_mk; try assumption. split; [apply S91|exact Hpe]. Qed.

(* position identity on the current line *)
Lemma pos_id S ls ln k : 0 <= ls -> ln = from_ S ls -> 0 <= k -> phiP S (ls + k) = phiP S ls + phiP ln k.
Proof. intros H0 -> Hk. apply phiP_add; assumption. Qed.

(* observations *)
Lemma lineOK_from_any l k : lineOK l -> 0 <= k -> lineOK (from_ l k).
Proof.
  intros H Hk. destruct (Z.le_gt_cases k (blen l)) as [L|L]; [apply lineOK_from; [exact H|lia]|].
  destruct (lineOK_split l H) as (body & e & -> & Hb & He & Eb & _). rewrite Eb in L.
  assert (E : from_ (body ++ e) k = []).
  { unfold from_. apply skipn_all2. rewrite app_length. unfold len in L. destruct He as [->| ->]; cbn [length]; lia. }
  rewrite E. apply lineOK_nil.
Qed.
Lemma CG_rest p q : CG O p q -> rest q = crlf (rest p) /\ lineOK (rest p).
Proof. intros H. cgsplit H. unfold rest. flds. split; [apply crlf_from; lia|apply lineOK_from_any; [exact Lok|lia]]. Qed.
Lemma CG_bai p q : CG O p q -> bytesAfterIndent q = crlf (bytesAfterIndent p) /\ lineOK (bytesAfterIndent p).
Proof. intros H. destruct (CG_rest p q H) as [A B]. unfold bytesAfterIndent. rewrite A, trimLeftSpTab_crlf. split; [reflexivity|apply lineOK_trim, B]. Qed.
Lemma CG_isRestBlank p q : CG O p q -> isRestBlank q = isRestBlank p.
Proof. intros H. unfold isRestBlank. rewrite (proj1 (CG_rest p q H)). apply isBlankLine_crlf. Qed.
Lemma CG_contBlock p q : CG O p q -> contBlock q = phiB (source p) (contBlock p).
Proof. intros H. cgsplit H. unfold contBlock. flds. rewrite getAt_M. destruct (getAt _ rt); [reflexivity|]. cbn [option_map]. rewrite M_newBlock, phiP_0. reflexivity. Qed.
Lemma CG_containerKind p q : CG O p q -> containerKind q = containerKind p.
Proof. intros H. unfold containerKind. rewrite (CG_contBlock p q H). apply bkind_M. Qed.
Lemma CG_cdepth p q : CG O p q -> cdepth q = cdepth p. Proof. intros H. cgsplit H. reflexivity. Qed.
Lemma CG_tipKind p q : CG O p q -> tipKind q = tipKind p.
Proof. intros H. cgsplit H. unfold tipKind. flds. rewrite bheight_M, tipDepth_M, getAt_M. destruct (getAt _ rt); [apply bkind_M|reflexivity]. Qed.

Lemma end_iff l i : lineOK l -> 0 <= i <= len l -> (len (crlf l) <=? phiP l i) = (len l <=? i).
Proof.
  intros H Hi. rewrite <- (phiP_all l). destruct (Z.leb_spec (len l) i) as [L|L].
  - apply Z.leb_le. apply phiP_mono. exact L.
  - apply Z.leb_gt. apply phiP_lt. exact L.
Qed.
Lemma lt_blen l i : lineOK l -> i < len l -> i <= blen l.
Proof. intros H Hi. destruct (lineOK_split l H) as (body & e & -> & Hb & He & Eb & _). rewrite Eb. rewrite len_app' in Hi. destruct He as [->| ->]; cbn in Hi; unfold len in *; cbn [length] in *; lia. Qed.
(* a byte test against a constant that is not a line-ending byte agrees at every cursor position of the body *)
Lemma at_test l i k : lineOK l -> 0 <= i <= blen l -> k <> 10 -> k <> 13 -> (at_ (crlf l) i =? k) = (at_ l i =? k).
Proof.
  intros H Hi K1 K2. destruct (Z.eq_dec i (blen l)) as [->|N]; [|rewrite at_blen by (assumption || lia); reflexivity].
  destruct (at_blen_end l H) as [(A & B & _)|(A & B & _)]; rewrite A, B; [|reflexivity].
  replace (13 =? k) with false by (symmetry; apply Z.eqb_neq; congruence). replace (10 =? k) with false by (symmetry; apply Z.eqb_neq; congruence). reflexivity.
Qed.
Lemma ws_prefix x : lineOK x -> upto (crlf x) (indentLength (crlf x)) = upto x (indentLength x).
Proof.
  intros H. rewrite indentLength_crlf. apply upto_blen; [exact H|].
  destruct (lineOK_split x H) as (body & e & -> & Hb & He & Eb & _). rewrite Eb. apply indentLength_shape, He.
Qed.
Lemma computeTabRem_crlf l i cl : lineOK l -> 0 <= i <= blen l -> computeTabRem (crlf l) i cl = computeTabRem l i cl.
Proof.
  intros H Hi. unfold computeTabRem. rewrite (at_test l i 9 H Hi) by discriminate.
  destruct (at_ l i =? 9) eqn:E9; [|rewrite !andb_false_r; reflexivity]. rewrite !andb_true_r.
  assert (Hlt : i < len l).
  { destruct (Z.lt_ge_cases i (len l)) as [L|L]; [exact L|]. exfalso. unfold at_ in E9. destruct (i <? 0); [discriminate|].
    rewrite nth_overflow in E9 by (unfold len in L; lia). discriminate. }
  replace (i <? len l) with true by (symmetry; apply Z.ltb_lt; exact Hlt).
  replace (i <? len (crlf l)) with true by (symmetry; apply Z.ltb_lt; rewrite len_crlf; pose proof (count10_nonneg l); lia). reflexivity.
Qed.

Lemma CG_indent p q : CG O p q -> indent q = indent p.
Proof.
  intros H. cgsplit H. unfold indent. flds. rewrite (end_iff ln i Lok Li). destruct (Z.leb_spec (len ln) i) as [L|L]; [reflexivity|].
  pose proof (lt_blen ln i Lok L) as Hb. destruct (Ect Hb) as [-> ->]. rewrite (phiP_blen ln i Lok Hb).
  rewrite (at_test ln i 32 Lok ltac:(lia)), (at_test ln i 9 Lok ltac:(lia)) by discriminate.
  assert (Hx : (at_ ln i =? 32) = true \/ (at_ ln i =? 9) = true -> i + 1 <= blen ln).
  { intros Hc. destruct (Z.eq_dec i (blen ln)) as [E|N]; [|lia]. exfalso. subst i.
    destruct (at_blen_end ln Lok) as [(A & _)|(A & _)]; rewrite A in Hc; destruct Hc; discriminate. }
  destruct (at_ ln i =? 32) eqn:E32.
  - specialize (Hx (or_introl eq_refl)). rewrite (from_blen ln (i + 1) Lok ltac:(lia)).
    pose proof (lineOK_from ln (i + 1) Lok ltac:(lia)) as Hr. rewrite (ws_prefix _ Hr). reflexivity.
  - destruct (at_ ln i =? 9) eqn:E9; [|reflexivity].
    specialize (Hx (or_intror eq_refl)). rewrite (from_blen ln (i + 1) Lok ltac:(lia)).
    pose proof (lineOK_from ln (i + 1) Lok ltac:(lia)) as Hr. rewrite (ws_prefix _ Hr). reflexivity.
Qed.

(* moving the cursor inside the body *)
Lemma CG_advance p q n : CG O p q -> 0 <= n -> li p + n <= blen (line p) -> CG O (advance p n) (advance q n).
Proof.
  intros H Hn Hb. unfold advance. destruct (Z.ltb_spec n 0); [lia|]. destruct (Z.eqb_spec n 0); [exact H|]. cbv zeta.
  pose proof (CG_opened p q H) as H1.
  assert (Eli : li (if state p =? stOpening then withState p stOpenMatched else p) = li p /\ line (if state p =? stOpening then withState p stOpenMatched else p) = line p)
    by (destruct (_ =? _); split; reflexivity).
  set (p0 := if state p =? stOpening then withState p stOpenMatched else p) in *.
  set (q0 := if state q =? stOpening then withState q stOpenMatched else q) in *. clearbody p0 q0.
  destruct Eli as [E1 E2]. rewrite <- E1, <- E2 in Hb. clear E1 E2 H.
  cgsplit H1. flds. cbn [li line] in Hb. pose proof (blen_le ln) as Hbl.
  assert (Hi : i <= blen ln) by lia. destruct (Ect Hi) as [-> ->]. rewrite (phiP_blen ln i Lok Hi).
  replace (len ln <? i + n) with false by (symmetry; apply Z.ltb_ge; lia).
  replace (len (crlf ln) <? i + n) with false by (symmetry; apply Z.ltb_ge; rewrite len_crlf; pose proof (count10_nonneg ln); lia).
  rewrite (at_test ln i 9 Lok ltac:(lia)) by discriminate.
  assert (E3 : (i <? len (crlf ln)) && (at_ ln i =? 9) = (i <? len ln) && (at_ ln i =? 9)).
  { destruct (at_ ln i =? 9) eqn:E9; [|rewrite !andb_false_r; reflexivity]. rewrite !andb_true_r.
    assert (Hlt : i < len ln).
    { destruct (Z.lt_ge_cases i (len ln)) as [L|L]; [exact L|]. exfalso. unfold at_ in E9. destruct (i <? 0); [discriminate|].
      rewrite nth_overflow in E9 by (unfold len in L; lia). discriminate. }
    replace (i <? len ln) with true by (symmetry; apply Z.ltb_lt; exact Hlt). apply Z.ltb_lt. rewrite len_crlf. pose proof (count10_nonneg ln). lia. }
  rewrite E3, !(sub_blen ln _ (i + n) Lok) by lia. rewrite (computeTabRem_crlf ln (i + n) _ Lok) by lia.
  unfold withCursor. flds. apply CG_mk'; [assumption|assumption|assumption|assumption|assumption|lia|symmetry; apply phiP_blen; assumption|intros _; split; reflexivity|assumption].
Qed.

Lemma CG_li_end p q : CG O p q -> li p = len (line p) -> li q = len (line q).
Proof. intros H E. cgsplit H. cbv beta iota delta [li line] in *. subst i. apply phiP_all. Qed.

Lemma CG_advance_end p q : CG O p q ->
  CG O (advance p (len (line p) - li p)) (advance q (len (line q) - li q)) /\
  li (advance p (len (line p) - li p)) = len (line p) /\ line (advance p (len (line p) - li p)) = line p.
Proof.
  intros H. unfold advance.
    assert (Hi : 0 <= li p <= len (line p)) by apply H.
    assert (Hq : li q = phiP (line p) (li p) /\ line q = crlf (line p) /\ lineOK (line p)) by (split; [apply H|split; apply H]).
    destruct Hq as (Eq1 & Eq2 & Lok).
    assert (Hlq : len (line q) - li q = 0 <-> len (line p) - li p = 0).
    { rewrite Eq1, Eq2, <- (phiP_all (line p)). split; intros E.
      - destruct (Z.eq_dec (li p) (len (line p))) as [E2|E2]; [lia|]. pose proof (phiP_lt (line p) (li p) (len (line p)) ltac:(lia)). lia.
      - replace (li p) with (len (line p)) by lia. lia. }
    assert (Hge : 0 <= len (line q) - li q) by (rewrite Eq1, Eq2, <- (phiP_all (line p)); pose proof (phiP_mono (line p) (li p) (len (line p)) ltac:(lia)); lia).
    destruct (Z.ltb_spec (len (line p) - li p) 0) as [G1|G1]; [lia|]. destruct (Z.ltb_spec (len (line q) - li q) 0) as [G2|G2]; [lia|].
    destruct (Z.eqb_spec (len (line p) - li p) 0) as [E0|E0].
    - replace (len (line q) - li q =? 0) with true by (symmetry; apply Z.eqb_eq; apply Hlq; exact E0). split; [exact H|split; [lia|reflexivity]].
    - replace (len (line q) - li q =? 0) with false by (symmetry; apply Z.eqb_neq; intros E; apply E0, Hlq, E). cbv zeta.
      pose proof (CG_opened p q H) as HO.
      assert (Eli : li (if state p =? stOpening then withState p stOpenMatched else p) = li p /\ line (if state p =? stOpening then withState p stOpenMatched else p) = line p)
        by (destruct (state p =? stOpening); split; reflexivity).
      assert (Eli' : li (if state q =? stOpening then withState q stOpenMatched else q) = li q /\ line (if state q =? stOpening then withState q stOpenMatched else q) = line q)
        by (destruct (state q =? stOpening); split; reflexivity).
      set (p0 := if state p =? stOpening then withState p stOpenMatched else p) in *.
      set (q0 := if state q =? stOpening then withState q stOpenMatched else q) in *. clearbody p0 q0.
      destruct Eli as [E1 E2]. destruct Eli' as [E1' E2']. rewrite <- E1, <- E2, <- E1', <- E2'. clear - HO.
      cgsplit HO. flds.
      replace (i + (len ln - i)) with (len ln) by lia. replace (phiP ln i + (len (crlf ln) - phiP ln i)) with (len (crlf ln)) by lia.
      rewrite !Z.ltb_irrefl.
      split; [|split; [reflexivity|reflexivity]].
      apply CG_mk'; [assumption|assumption|assumption|assumption|assumption|pose proof (len_nonneg ln); lia| | |assumption].
      + rewrite phiP_all. reflexivity.
      + intros Hb.
        (* the whole line lies in the body: no line ending, the image is the line itself *)
        assert (Eb : blen ln = len ln) by (pose proof (blen_le ln); lia).
        destruct (at_blen_end ln Lok) as [(_ & _ & A)|(_ & _ & _ & Ec)]; [lia|]. rewrite Ec in *.
        assert (Hi : i <= blen ln) by lia. destruct (Ect Hi) as [-> ->]. rewrite (phiP_blen ln i Lok Hi). split; reflexivity.
Qed.
Lemma CG_consumeLine p q : CG O p q -> CG O (consumeLine p) (consumeLine q).
Proof.
  intros H. unfold consumeLine. cbv zeta. destruct (CG_advance_end p q H) as (Ha & _ & _).
  rewrite (CG_state _ _ Ha). destruct (_ || _); [apply CG_withState, Ha|]. destruct (_ =? stDescending); [apply CG_withState, Ha|exact Ha].
Qed.

(* consumeIndent: any amount, any two fuels beyond the rest of the body *)
Lemma CG_consumeIndent_loop : forall f f' p q n, CG O p q ->
  (blen (line p) - li p < Z.of_nat f) -> (blen (line p) - li p < Z.of_nat f') -> (0 < f)%nat -> (0 < f')%nat ->
  CG O (consumeIndent_loop f p n) (consumeIndent_loop f' q n).
Proof.
  induction f as [|f IH]; intros f' p q n H Hf Hf' F0 F0'; [lia|]. destruct f' as [|f']; [lia|]. cbn [consumeIndent_loop].
  destruct (n <=? 0); [exact H|]. cbv zeta.
  pose proof (CG_opened p q H) as H1.
  assert (Eli : li (if state p =? stOpening then withState p stOpenMatched else p) = li p /\ line (if state p =? stOpening then withState p stOpenMatched else p) = line p)
    by (destruct (_ =? _); split; reflexivity).
  set (p0 := if state p =? stOpening then withState p stOpenMatched else p) in *.
  set (q0 := if state q =? stOpening then withState q stOpenMatched else q) in *. clearbody p0 q0.
  destruct Eli as [E1 E2]. rewrite <- E1, <- E2 in Hf, Hf'. clear E1 E2 H.
  assert (Hpan : CG O (panic p0 3) (panic q0 3)) by (apply CG_panic, H1).
  pose proof H1 as H1c. cgsplit H1. flds. cbv beta iota delta [li line] in Hf, Hf'.
  rewrite <- (phiP_all ln).
  assert (Elt : (phiP ln i <? phiP ln (len ln)) = (i <? len ln)).
  { destruct (Z.ltb_spec i (len ln)) as [L|L]; [apply Z.ltb_lt, phiP_lt, L|apply Z.ltb_ge, phiP_mono, L]. }
  rewrite Elt. destruct (Z.ltb_spec i (len ln)) as [L|L]; cbn [andb]; [|exact Hpan].
  pose proof (lt_blen ln i Lok L) as Hb. destruct (Ect Hb) as [-> ->]. rewrite (phiP_blen ln i Lok Hb) in Hpan |- *.
  rewrite (at_test ln i 32 Lok ltac:(lia)), (at_test ln i 9 Lok ltac:(lia)) by discriminate.
  assert (Hx : (at_ ln i =? 32) = true \/ (at_ ln i =? 9) = true -> i + 1 <= blen ln).
  { intros Hc. destruct (Z.eq_dec i (blen ln)) as [E|N]; [|lia]. exfalso. subst i.
    destruct (at_blen_end ln Lok) as [(A & _)|(A & _)]; rewrite A in Hc; destruct Hc; discriminate. }
  assert (Hstep : forall c t, CG O (withCursor {| source := S; root := rt; container := cont; lineStart := ls; line := ln; li := i; col := cl; tabRem := tr; state := st; panicked := pn |} (i + 1) c t)
                            (withCursor {| source := crlf S; root := phiB S rt; container := cont; lineStart := phiP S ls; line := crlf ln; li := i; col := cl; tabRem := tr; state := st; panicked := pn |} (i + 1) c t) \/ ~ (i + 1 <= blen ln)).
  { intros c t. destruct (Z.le_gt_cases (i + 1) (blen ln)) as [Lb|Lb]; [left|right; lia]. unfold withCursor. flds.
    apply CG_mk'; [assumption|assumption|assumption|assumption|assumption|pose proof (blen_le ln); lia|symmetry; apply phiP_blen; assumption|intros _; split; reflexivity|assumption]. }
  destruct (at_ ln i =? 32) eqn:E32.
  { specialize (Hx (or_introl eq_refl)). rewrite (computeTabRem_crlf ln (i + 1) _ Lok) by lia.
    destruct (Hstep (cl + 1) (computeTabRem ln (i + 1) (cl + 1))) as [Hs|Hs]; [|lia].
    destruct (Z.eq_dec (Z.of_nat f) 0) as [Ef|Ef]; [lia|]. destruct (Z.eq_dec (Z.of_nat f') 0) as [Ef'|Ef']; [lia|].
    apply IH; [exact Hs| | |lia|lia]; unfold withCursor; cbv beta iota delta [li line setLP]; lia. }
  destruct (at_ ln i =? 9) eqn:E9; [|exact Hpan].
  specialize (Hx (or_intror eq_refl)).
  destruct (n <? tr).
  { unfold withCursor. flds. apply CG_mk'; [assumption|assumption|assumption|assumption|assumption|lia|symmetry; apply phiP_blen; assumption|intros _; split; reflexivity|assumption]. }
  rewrite (computeTabRem_crlf ln (i + 1) _ Lok) by lia.
  destruct (Hstep (cl + tr) (computeTabRem ln (i + 1) (cl + tr))) as [Hs|Hs]; [|lia].
  destruct (Z.eq_dec (Z.of_nat f) 0) as [Ef|Ef]; [lia|]. destruct (Z.eq_dec (Z.of_nat f') 0) as [Ef'|Ef']; [lia|].
  apply IH; [exact Hs| | |lia|lia]; unfold withCursor; cbv beta iota delta [li line setLP]; lia.
Qed.
Lemma CG_consumeIndent p q n : CG O p q -> CG O (consumeIndent p n) (consumeIndent q n).
Proof.
  intros H. unfold consumeIndent.
  assert (Hb : blen (line p) <= len (line p) /\ 0 <= li p) by (split; [apply blen_le|apply H]).
  apply CG_consumeIndent_loop; [exact H| | |lia|lia].
  - rewrite Nat2Z.inj_succ. unfold len in Hb. lia.
  - rewrite Nat2Z.inj_succ. replace (line q) with (crlf (line p)) by (symmetry; apply H).
    pose proof (len_crlf (line p)). pose proof (count10_nonneg (line p)). unfold len in *. lia.
Qed.

(* ---- tree updates ---- *)
Lemma nnB_lastBlock b c : nnB b = true -> lastBlock b = Some c -> nnB c = true.
Proof. intros H El. rewrite nnB_eq in H. apply andb_true_iff in H. destruct H as [_ H]. rewrite forallb_forall in H. apply H, lastBlock_In, El. Qed.
Lemma nnB_set_lastBlocks b l : nnB b = true -> forallb nnB l = true -> nnB (set_lastBlocks b l) = true.
Proof.
  intros H Hl. rewrite nnB_eq in *. apply andb_true_iff in H. destruct H as [H1 H2]. unfold set_lastBlocks.
  replace (bik (set_bkids b (removelast (bkids b) ++ l))) with (bik b) by (destruct b; reflexivity).
  replace (bkids (set_bkids b (removelast (bkids b) ++ l))) with (removelast (bkids b) ++ l) by (destruct b; reflexivity).
  rewrite H1, forallb_app, Hl, andb_true_r. cbn [andb]. rewrite forallb_forall in *. intros x Hx. apply H2, removelast_In, Hx.
Qed.
Lemma nnB_updAt f : (forall b, nnB b = true -> nnB (f b) = true) -> forall d r, nnB r = true -> nnB (updAt d f r) = true.
Proof.
  intros Hf. induction d as [|d IH]; intros r H; [apply Hf, H|]. cbn [updAt]. destruct (lastBlock r) as [c|] eqn:El; [|exact H].
  apply nnB_set_lastBlocks; [exact H|]. cbn [forallb]. rewrite IH; [reflexivity|eapply nnB_lastBlock; eassumption].
Qed.
Lemma updAt_Mc S f f' : (forall b, nnB b = true -> phiB S (f b) = f' (phiB S b)) ->
  forall d r, nnB r = true -> phiB S (updAt d f r) = updAt d f' (phiB S r).
Proof.
  intros Hf. induction d as [|d IH]; intros r H; [apply Hf, H|]. cbn [updAt]. rewrite lastBlock_M.
  destruct (lastBlock r) as [c|] eqn:El; cbn [option_map]; [|reflexivity]. rewrite M_set_lastBlocks. cbn [map]. rewrite IH; [reflexivity|eapply nnB_lastBlock; eassumption].
Qed.

Lemma CG_updCont p q f f' : CG O p q -> (forall b, nnB b = true -> phiB (source p) (f b) = f' (phiB (source p) b)) ->
  (forall b, nnB b = true -> nnB (f b) = true) ->
  (forall x, getAt (cdepth p) (root p) = Some x -> peB O (source p) true x -> peB O (source p) true (f x)) -> CG O (updCont p f) (updCont q f').
Proof.
  intros H Hf Hn Hp. cgsplit H. unfold updCont, withRoot. flds. cbv beta iota delta [source root cdepth container] in Hf, Hp.
  rewrite <- (updAt_Mc S f f' Hf) by exact Hnn. apply CG_mk; try assumption; [|apply nnB_updAt; assumption].
  split; [apply S91|]. apply peB_updAt_at; [apply S91|exact Hp].
Qed.

Lemma nnB_onCloseList b : nnB b = true -> nnB (onCloseList b) = true.
Proof.
  intros H. unfold onCloseList. cbv zeta. destruct (_ || _); [|exact H]. rewrite nnB_eq in *. apply andb_true_iff in H. destruct H as [H1 H2].
  replace (bik (set_bkids (set_bloose b true) _)) with (bik b) by (destruct b; reflexivity).
  match goal with |- context [bkids (set_bkids _ ?l)] => replace (bkids (set_bkids (set_bloose b true) l)) with l by (destruct b; reflexivity) end.
  rewrite H1. cbn [andb]. rewrite forallb_forall in *. intros x Hx. apply in_map_iff in Hx. destruct Hx as (y & <- & Hy). specialize (H2 y Hy). destruct y; exact H2.
Qed.
Lemma forallb_sub' {A} (f : A -> bool) l l' : (forall x, In x l' -> In x l) -> forallb f l = true -> forallb f l' = true.
Proof. intros Hs H. rewrite forallb_forall in *. auto. Qed.
Lemma nnB_onCloseIndented src b : nnB b = true -> nnB (onCloseIndented src b) = true.
Proof.
  intros H. unfold onCloseIndented. cbv zeta. rewrite nnB_eq in *. apply andb_true_iff in H. destruct H as [H1 H2].
  match goal with |- context [set_bik b ?l] => replace (bik (set_bik b l)) with l by (destruct b; reflexivity); replace (bkids (set_bik b l)) with (bkids b) by (destruct b; reflexivity) end.
  rewrite H2, andb_true_r. revert H1. apply forallb_sub'. intros x Hx.
  apply in_rev in Hx. apply trimBlankTail_sub in Hx. apply in_rev in Hx.
  destruct (rev (bik b)) as [|lst [|prev r]] eqn:Er; try exact Hx.
  destruct (_ && _ && _ && _); [|exact Hx]. apply in_rev in Hx. apply in_rev. rewrite Er. right. exact Hx.
Qed.
Lemma updAt_Mp R f f' : (forall b, nnB b = true -> peB O R false b -> phiB R (f b) = f' (phiB R b)) ->
  forall d r, nnB r = true -> peB O R false r -> phiB R (updAt d f r) = updAt d f' (phiB R r).
Proof.
  intros Hf. induction d as [|d IH]; intros r H Hp; [apply Hf; assumption|]. cbn [updAt]. rewrite lastBlock_M.
  destruct (lastBlock r) as [c|] eqn:El; cbn [option_map]; [|reflexivity]. rewrite M_set_lastBlocks. cbn [map].
  rewrite IH; [reflexivity|eapply nnB_lastBlock; eassumption|eapply peB_lastBlock; eassumption].
Qed.

Lemma nnB_updAt_p R f : (forall b, nnB b = true -> peB O R false b -> nnB (f b) = true) -> forall d r, nnB r = true -> peB O R false r -> nnB (updAt d f r) = true.
Proof.
  intros Hf. induction d as [|d IH]; intros r H Hp; [apply Hf; assumption|]. cbn [updAt]. destruct (lastBlock r) as [c|] eqn:El; [|exact H].
  apply nnB_set_lastBlocks; [exact H|]. cbn [forallb]. rewrite IH; [reflexivity|eapply nnB_lastBlock; eassumption|eapply peB_lastBlock; eassumption].
Qed.

Lemma CG_closeLastChildAt p q d e : CG O p q -> 0 <= e -> CG O (closeLastChildAt p d e) (closeLastChildAt q d (phiP (source p) e)).
Proof.
  intros H He. cgsplit H. unfold closeLastChildAt, withRoot. flds. rewrite bheight_M. destruct S91 as [HL HP].
  set (g := fun b => match lastBlock b with Some c => set_lastBlocks b (closeBlock (bheight rt) S c e) | None => b end).
  assert (E : phiB S (updAt d g rt) =
              updAt d (fun b => match lastBlock b with Some c => set_lastBlocks b (closeBlock (bheight rt) (crlf S) c (phiP S e)) | None => b end) (phiB S rt)).
  { apply updAt_Mp; [|exact Hnn|apply peB_weak, HP]. intros b Hb Hpb. unfold g. rewrite lastBlock_M. destruct (lastBlock b) as [c|] eqn:El; cbn [option_map]; [|reflexivity].
    destruct (closeBlock_Mg O S S13 HL e (bheight rt) c (nnB_lastBlock b c Hb El) (peB_lastBlock O S false b c Hpb El)) as [A _].
    rewrite M_set_lastBlocks, A. reflexivity. }
  rewrite <- E. apply CG_mk; try assumption.
  - split; [exact HL|]. apply peB_updAt_at; [exact HP|]. intros x _ Hx. unfold g. destruct (lastBlock x) as [c|] eqn:El; [|exact Hx].
    apply peB_set_lastBlocks; [exact Hx|]. apply peB_closeBlock; [exact He|eapply peB_lastBlock; eassumption].
  - apply (nnB_updAt_p S); [|exact Hnn|apply peB_weak, HP]. intros b Hb Hpb. unfold g. destruct (lastBlock b) as [c|] eqn:El; [|exact Hb].
    apply nnB_set_lastBlocks; [exact Hb|]. apply (closeBlock_Mg O S S13 HL e (bheight rt) c (nnB_lastBlock b c Hb El) (peB_lastBlock O S false b c Hpb El)).
Qed.
Lemma CG_ls0 p q : CG O p q -> 0 <= lineStart p /\ 0 <= lineStart p + li p.
Proof. intros H. destruct H as (_ & _ & _ & A & _ & _ & _ & _ & B & _). lia. Qed.

Lemma CG_ls p q : CG O p q -> lineStart q = phiP (source p) (lineStart p). Proof. intros H. apply H. Qed.
Lemma CG_pos p q : CG O p q -> lineStart q + li q = phiP (source p) (lineStart p + li p).
Proof. intros H. cgsplit H. flds. rewrite (pos_id S ls ln i Ls0 Eln) by lia. reflexivity. Qed.
Lemma CG_src p q : CG O p q -> source q = crlf (source p). Proof. intros H. apply H. Qed.
Lemma CG_source_const p q p2 q2 : CG O p q -> CG O p2 q2 -> True. Proof. trivial. Qed.

Lemma CG_openBlock_up : forall fuel p q k, CG O p q -> CG O (openBlock_up fuel p k) (openBlock_up fuel q k) /\ source (openBlock_up fuel p k) = source p.
Proof.
  induction fuel as [|f IH]; intros p q k H; [split; [exact H|reflexivity]|]. cbn [openBlock_up]. rewrite (CG_containerKind p q H), (CG_cdepth p q H).
  destruct (canContain _ _); [split; [exact H|reflexivity]|]. destruct (cdepth p) as [|d]; [split; [apply CG_panic, H|reflexivity]|].
  rewrite (CG_ls p q H).
  destruct (IH _ _ k (CG_withCont _ _ (Some d) (CG_closeLastChildAt p q d (lineStart p) H (proj1 (CG_ls0 p q H))))) as [A B]. split; [exact A|rewrite B; reflexivity].
Qed.

Lemma peB_append_child R sp x c : peB O R sp x -> peB O R sp c -> peB O R sp (set_bkids x (bkids x ++ [c])).
Proof.
  intros Hx Hc. rewrite peB_eq in Hx. rewrite peB_eq. destruct Hx as [A B]. split; [destruct x; exact A|].
  replace (bkids (set_bkids x (bkids x ++ [c]))) with (bkids x ++ [c]) by (destruct x; reflexivity). apply allQ_app. split; [exact B|]. split; [exact Hc|exact I].
Qed.
Lemma peB_newBlock R k s : k <> SetextHeadingKind -> peB O R true (newBlock k s).
Proof. intros Hk. unfold newBlock. split; [|exact I]. split; [intros _ _; exact Hk|]. intros _. apply PEc_nil. Qed.

Lemma CG_openBlock p q k : CG O p q -> k <> SetextHeadingKind -> CG O (openBlock p k) (openBlock q k).
Proof.
  intros H Hk. unfold openBlock. pose proof (CG_opened p q H) as H1. rewrite (CG_state p q H) in H1 |- *.
  destruct (_ || _); [apply CG_panic, H|]. cbv zeta.
  assert (Es0 : source (if state p =? stOpening then withState p stOpenMatched else p) = source p) by (destruct (state p =? stOpening); reflexivity).
  set (p0 := if state p =? stOpening then withState p stOpenMatched else p) in *.
  set (q0 := if state p =? stOpening then withState q stOpenMatched else q) in *. clearbody p0 q0.
  rewrite (CG_cdepth p0 q0 H1).
  destruct (CG_openBlock_up (S (cdepth p0)) p0 q0 k H1) as [H2 Es2].
  set (u := openBlock_up (S (cdepth p0)) p0 k) in *. set (u' := openBlock_up (S (cdepth p0)) q0 k) in *. clearbody u u'.
  rewrite (CG_cdepth u u' H2), (CG_ls u u' H2).
  pose proof (CG_closeLastChildAt u u' (cdepth u) (lineStart u) H2 (proj1 (CG_ls0 u u' H2))) as H3.
  set (v := closeLastChildAt u (cdepth u) (lineStart u)) in *. set (v' := closeLastChildAt u' (cdepth u) (phiP (source u) (lineStart u))) in *.
  assert (Es3 : source v = source u) by reflexivity. clearbody v v'.
  rewrite (CG_pos v v' H3). apply CG_withCont. apply CG_updCont; [exact H3| | |intros x _ Hx; apply peB_append_child; [exact Hx|apply peB_newBlock, Hk]].
  - intros b Hb. rewrite M_set_bkids, map_app, bkids_M. cbn [map]. rewrite M_newBlock. reflexivity.
  - intros b Hb. rewrite nnB_eq in *. apply andb_true_iff in Hb. destruct Hb as [A B].
    replace (bik (set_bkids b (bkids b ++ [newBlock k (lineStart v + li v)]))) with (bik b) by (destruct b; reflexivity).
    replace (bkids (set_bkids b (bkids b ++ [newBlock k (lineStart v + li v)]))) with (bkids b ++ [newBlock k (lineStart v + li v)]) by (destruct b; reflexivity).
    rewrite A, forallb_app, B. reflexivity.
Qed.
Lemma CG_endBlock p q : CG O p q -> CG O (endBlock p) (endBlock q).
Proof.
  intros H. unfold endBlock. pose proof (CG_opened p q H) as H1. rewrite (CG_state p q H) in H1 |- *.
  destruct (_ || _); [apply CG_panic, H|]. cbv zeta.
  set (p0 := if state p =? stOpening then withState p stOpenMatched else p) in *.
  set (q0 := if state p =? stOpening then withState q stOpenMatched else q) in *. clearbody p0 q0.
  rewrite (CG_cdepth p0 q0 H1). destruct (cdepth p0); [apply CG_panic, H1|]. rewrite (CG_pos p0 q0 H1).
  apply CG_withCont, CG_closeLastChildAt; [exact H1|apply (CG_ls0 p0 q0 H1)].
Qed.

(* ---- parseInfoString on a stretch of one line body: every position moves by the same amount ---- *)
Lemma len_sub_le (l : bytes) a b : len (sub l a b) <= Z.max 0 (b - a).
Proof. unfold sub, upto, len. rewrite firstn_length. lia. Qed.
Lemma mkI_phi S d k a b : phiP S a = a + d -> phiP S b = b + d -> phiI S (mkI k a b) = mkI k (a + d) (b + d).
Proof. intros A B. unfold mkI. cbn [phiI map]. rewrite A, B. reflexivity. Qed.
Lemma infoString_phi S S' d s e : (forall j, s <= j <= e -> phiP S j = j + d) ->
  (forall j, s <= j < e -> at_ S' (j + d) = at_ S j) -> (forall j, s <= j <= e -> sub S' (j + d) (e + d) = sub S j e) ->
  forall fuel i ps acc, s <= ps <= i -> i <= e \/ e <= s ->
    infoString_loop fuel S' (i + d) (e + d) (ps + d) (map (phiI S) acc) =
    (map (phiI S) (fst (infoString_loop fuel S i e ps acc)), snd (infoString_loop fuel S i e ps acc) + d).
Proof.
  intros Hphi Hat Hsub. induction fuel as [|f IH]; intros i ps acc Hps Hie; [reflexivity|]. cbn [infoString_loop].
  replace (e + d <=? i + d) with (e <=? i) by (destruct (Z.leb_spec e i), (Z.leb_spec (e + d) (i + d)); lia || reflexivity).
  destruct (Z.leb_spec e i) as [L|L]; [reflexivity|]. cbv zeta. rewrite (Hat i ltac:(lia)).
  replace (e + d <=? i + d + 1) with (e <=? i + 1) by (destruct (Z.leb_spec e (i + 1)), (Z.leb_spec (e + d) (i + d + 1)); lia || reflexivity).
  replace (ps + d <? i + d) with (ps <? i) by (destruct (Z.ltb_spec ps i), (Z.ltb_spec (ps + d) (i + d)); lia || reflexivity).
  assert (Hacc : forall k a b, s <= a <= e -> s <= b <= e -> map (phiI S) (acc ++ [mkI k a b]) = map (phiI S) acc ++ [mkI k (a + d) (b + d)]).
  { intros k a b Ha Hb. rewrite map_app. cbn [map]. rewrite (mkI_phi S d k a b (Hphi a Ha) (Hphi b Hb)). reflexivity. }
  assert (Hacc2 : forall k a b k2 a2 b2, s <= a <= e -> s <= b <= e -> s <= a2 <= e -> s <= b2 <= e ->
            map (phiI S) ((acc ++ [mkI k a b]) ++ [mkI k2 a2 b2]) = (map (phiI S) acc ++ [mkI k (a + d) (b + d)]) ++ [mkI k2 (a2 + d) (b2 + d)]).
  { intros. rewrite map_app, Hacc by assumption. cbn [map]. rewrite (mkI_phi S d k2 a2 b2) by (apply Hphi; assumption). reflexivity. }
  destruct (at_ S i =? 92).
  - destruct (Z.leb_spec e (i + 1)) as [L1|L1]; cbn [orb].
    + replace (i + d + 1) with (i + 1 + d) by lia. apply IH; lia.
    + replace (i + d + 1) with (i + 1 + d) by lia. rewrite (Hat (i + 1) ltac:(lia)). destruct (negb _); [apply IH; lia|].
      replace (i + d + 2) with (i + 2 + d) by lia. rewrite <- IH by lia. f_equal.
      destruct (ps <? i); [rewrite Hacc2 by lia|rewrite Hacc by lia]; repeat f_equal; lia.
  - destruct (at_ S i =? 38).
    + rewrite (Hsub i ltac:(lia)). destruct (Z.ltb_spec (parseCharacterEscape (sub S i e)) 0) as [Ln|Ln]; [replace (i + d + 1) with (i + 1 + d) by lia; apply IH; lia|].
      pose proof (parseCharacterEscape_bounds (sub S i e) Ln) as [B1 B2]. pose proof (len_sub_le S i e) as B3.
      replace (i + d + parseCharacterEscape (sub S i e)) with (i + parseCharacterEscape (sub S i e) + d) by lia. rewrite <- IH by lia. f_equal.
      destruct (ps <? i); [rewrite Hacc2 by lia|rewrite Hacc by lia]; repeat f_equal; lia.
    + replace (i + d + 1) with (i + 1 + d) by lia. apply IH; lia.
Qed.
Lemma parseInfoString_phi S S' d s e : s <= e -> (forall j, s <= j <= e -> phiP S j = j + d) ->
  (forall j, s <= j < e -> at_ S' (j + d) = at_ S j) -> (forall j, s <= j <= e -> sub S' (j + d) (e + d) = sub S j e) ->
  parseInfoString S' (s + d) (e + d) = phiI S (parseInfoString S s e).
Proof.
  intros Hse Hphi Hat Hsub. unfold parseInfoString. replace (e + d - (s + d)) with (e - s) by lia.
  pose proof (infoString_phi S S' d s e Hphi Hat Hsub (Datatypes.S (Z.to_nat (e - s))) s s [] ltac:(lia) ltac:(lia)) as H. cbn [map] in H. rewrite H.
  destruct (infoString_loop _ S s e s []) as [acc ps] eqn:El. cbn [fst snd].
  replace (ps + d <? e + d) with (ps <? e) by (destruct (Z.ltb_spec ps e), (Z.ltb_spec (ps + d) (e + d)); lia || reflexivity).
  cbn [phiI]. rewrite (Hphi s ltac:(lia)), (Hphi e ltac:(lia)). f_equal.
  destruct (Z.ltb_spec ps e) as [L|L]; [|reflexivity]. rewrite map_app. cbn [map]. f_equal. f_equal.
  assert (G : forall fuel i ps0 acc0, s <= ps0 -> s <= i -> s <= snd (infoString_loop fuel S i e ps0 acc0)).
  { induction fuel as [|f IHf]; intros i ps0 acc0 A B; [exact A|]. cbn [infoString_loop]. destruct (e <=? i); [exact A|]. cbv zeta.
    destruct (_ =? 92); [destruct (_ || _); apply IHf; lia|].
    destruct (_ =? 38); [|apply IHf; lia].
    destruct (Z.ltb_spec (parseCharacterEscape (sub S i e)) 0) as [Ln|Ln]; [apply IHf; lia|].
    pose proof (parseCharacterEscape_bounds (sub S i e) Ln). apply IHf; lia. }
  pose proof (G (Datatypes.S (Z.to_nat (e - s))) s s [] ltac:(lia) ltac:(lia)) as Hg. rewrite El in Hg. cbn [snd] in Hg.
  symmetry. apply mkI_phi; apply Hphi; lia.
Qed.

(* ---- CollectInline ---- *)
Lemma at_body_not10 l k : lineOK l -> 0 <= k < blen l -> at_ l k <> 10.
Proof.
  intros H Hk. destruct (lineOK_split l H) as (body & e & -> & Hb & He & Eb & _). rewrite Eb in Hk. rewrite at_app_l by lia.
  pose proof (at_Forall (fun c => c <> 10 /\ c <> 13) body k Hb ltac:(lia)) as [A _]. exact A.
Qed.
Lemma sub_body_noEol l a b : lineOK l -> 0 <= a -> b <= blen l -> noEolB (sub l a b).
Proof.
  intros H Ha Hb. destruct (lineOK_split l H) as (body & e & -> & Hbd & He & Eb & _). rewrite Eb in Hb.
  destruct (Z.le_gt_cases a b) as [L|L].
  - rewrite sub_app_le by lia. unfold sub. apply Forall_upto', Forall_from', Hbd.
  - unfold sub, upto. replace (Z.to_nat (b - a)) with 0%nat by lia. constructor.
Qed.
Lemma sub_from_line (S : bytes) ls a b : 0 <= ls -> 0 <= a -> sub S (ls + a) (ls + b) = sub (from_ S ls) a b.
Proof. intros H0 Ha. unfold sub. rewrite from_from by lia. f_equal. lia. Qed.

Lemma CG_infoNode p q a b : CG O p q -> 0 <= a -> a <= b -> b <= blen (line p) ->
  parseInfoString (source q) (lineStart q + a) (lineStart q + b) = phiI (source p) (parseInfoString (source p) (lineStart p + a) (lineStart p + b)).
Proof.
  intros H Ha Hab Hb. cgsplit H. flds. cbv beta iota delta [line] in Hb.
  set (d := phiP S ls - ls).
  assert (Hphi : forall j, ls + a <= j <= ls + b -> phiP S j = j + d).
  { intros j Hj. replace j with (ls + (j - ls)) at 1 by lia. rewrite (pos_id S ls ln (j - ls) Ls0 Eln) by lia. rewrite (phiP_blen ln (j - ls) Lok) by lia. unfold d. lia. }
  replace (phiP S ls + a) with (ls + a + d) by (unfold d; lia). replace (phiP S ls + b) with (ls + b + d) by (unfold d; lia).
  apply parseInfoString_phi; [lia|exact Hphi| |].
  - intros j Hj. rewrite <- (Hphi j ltac:(lia)). rewrite at_crlf by lia.
    replace (at_ S j =? 10) with false; [reflexivity|]. symmetry. apply Z.eqb_neq.
    replace j with (ls + (j - ls)) by lia. rewrite <- at_from by lia. rewrite <- Eln. apply at_body_not10; [exact Lok|lia].
  - intros j Hj. rewrite <- (Hphi j ltac:(lia)), <- (Hphi (ls + b) ltac:(lia)). rewrite crlf_sub by lia. apply crlf_noEol.
    replace j with (ls + (j - ls)) by lia. rewrite sub_from_line by lia. rewrite <- Eln. apply sub_body_noEol; [exact Lok|lia|lia].
Qed.

Lemma nnB_append b u : nnB b = true -> 0 <= istart u -> nnB (set_bik b (bik b ++ [u])) = true.
Proof.
  intros H Hu. rewrite nnB_eq in *. apply andb_true_iff in H. destruct H as [A B].
  replace (bik (set_bik b (bik b ++ [u]))) with (bik b ++ [u]) by (destruct b; reflexivity).
  replace (bkids (set_bik b (bik b ++ [u]))) with (bkids b) by (destruct b; reflexivity).
  rewrite forallb_app, A, B. cbn. unfold nnI. replace (0 <=? istart u) with true by (symmetry; apply Z.leb_le; exact Hu). reflexivity.
Qed.
Lemma peB_set_bik_nonpara R sp x ik : isParaK (bkind x) = false -> peB O R sp x -> peB O R sp (set_bik x ik).
Proof.
  intros Hk H. rewrite peB_eq in H. rewrite peB_eq. destruct H as [A B].
  replace (bkids (set_bik x ik)) with (bkids x) by (destruct x; reflexivity). split; [|exact B].
  unfold peL. replace (bkind (set_bik x ik)) with (bkind x) by (destruct x; reflexivity). rewrite Hk.
  split; [|discriminate]. intros _ _ E. rewrite E in Hk. discriminate.
Qed.
Lemma CG_append p q u u' K : CG O p q -> u' = phiI (source p) u -> 0 <= istart u -> ckind p K -> isParaK K = false ->
  CG O (updCont p (fun b => set_bik b (bik b ++ [u]))) (updCont q (fun b => set_bik b (bik b ++ [u']))).
Proof.
  intros H -> Hu Hc HK. apply CG_updCont; [exact H| | |].
  - intros b _. rewrite M_set_bik, map_app, bik_M. reflexivity.
  - intros b Hb. apply nnB_append; assumption.
  - intros x Ex Hx. apply peB_set_bik_nonpara; [rewrite (Hc x Ex); exact HK|exact Hx].
Qed.

(* the node appended by CollectInline, for a stretch [a, b] of the body or up to the end of the line *)
Lemma CG_collect_node p q kind a : CG O p q -> 0 <= a -> a <= li p -> (li p <= blen (line p) \/ kind <> InfoStringKind) ->
  a <= blen (line p) ->
  (if kind =? InfoStringKind then parseInfoString (source q) (lineStart q + a) (lineStart q + li q) else mkI kind (lineStart q + a) (lineStart q + li q)) =
  phiI (source p) (if kind =? InfoStringKind then parseInfoString (source p) (lineStart p + a) (lineStart p + li p) else mkI kind (lineStart p + a) (lineStart p + li p)).
Proof.
  intros H Ha Hal Hk Hab. destruct (Z.eqb_spec kind InfoStringKind) as [E|E].
  - destruct Hk as [Hk|Hk]; [|contradiction]. replace (li q) with (li p); [apply CG_infoNode; assumption|].
    destruct H as (_ & _ & _ & _ & _ & Lok & _ & _ & _ & Eq & _). rewrite Eq. symmetry. apply phiP_blen; assumption.
  - pose proof (CG_pos p q H) as Hp. cgsplit H. flds. cbv beta iota delta [lineStart li line source] in *. rewrite Hp. unfold mkI. cbn [phiI map].
    rewrite (pos_id S ls ln a Ls0 Eln Ha), (phiP_blen ln a Lok Hab). reflexivity.
Qed.

Lemma adv_fields p n : 0 <= n -> li p + n <= len (line p) ->
  li (advance p n) = li p + n /\ line (advance p n) = line p /\ lineStart (advance p n) = lineStart p /\ source (advance p n) = source p.
Proof.
  intros Hn Hl. unfold advance. destruct (Z.ltb_spec n 0); [lia|]. destruct (Z.eqb_spec n 0) as [->|N]; [repeat split; lia|]. cbv zeta.
  set (p0 := if state p =? stOpening then withState p stOpenMatched else p).
  assert (E : li p0 = li p /\ line p0 = line p /\ lineStart p0 = lineStart p /\ source p0 = source p) by (unfold p0; destruct (state p =? stOpening); repeat split).
  destruct E as (E1 & E2 & E3 & E4). clearbody p0. rewrite <- E1, <- E2, <- E3, <- E4. rewrite <- E1, <- E2 in Hl. clear E1 E2 E3 E4.
  destruct (Z.ltb_spec (len (line p0)) (li p0 + n)); [lia|].
  destruct p0. split; [reflexivity|split; [reflexivity|split; reflexivity]].
Qed.
Lemma ind_le l i : lineOK l -> 0 <= i <= blen l -> i + indentLength (from_ l i) <= blen l.
Proof.
  intros H Hi. destruct (lineOK_split l H) as (body & e & -> & Hb & He & Eb & _). rewrite Eb in *. rewrite from_app_le by lia.
  pose proof (indentLength_shape (from_ body i) e He) as Hs. rewrite len_from in Hs by lia. lia.
Qed.

Lemma istart_info src a b : istart (parseInfoString src a b) = a.
Proof. unfold parseInfoString. destruct (infoString_loop _ src a b a []). reflexivity. Qed.
Lemma collect_finish p1 q1 p2 q2 kind K : ckind p2 K -> isParaK K = false -> CG O p1 q1 -> CG O p2 q2 -> lineStart p2 = lineStart p1 -> source p2 = source p1 ->
  li p1 <= li p2 -> line p2 = line p1 -> (kind = InfoStringKind -> li p2 <= blen (line p1)) ->
  CG O (updCont p2 (fun b => set_bik b (bik b ++ [if kind =? InfoStringKind then parseInfoString (source p2) (lineStart p1 + li p1) (lineStart p2 + li p2)
              else mkI kind (lineStart p1 + li p1) (lineStart p2 + li p2)])))
     (updCont q2 (fun b => set_bik b (bik b ++ [if kind =? InfoStringKind then parseInfoString (source q2) (lineStart q1 + li q1) (lineStart q2 + li q2)
              else mkI kind (lineStart q1 + li q1) (lineStart q2 + li q2)]))).
Proof.
  intros Hc2 HK H1 H2 Els Esrc Hle Eln Hk.
  assert (Elq : lineStart q2 = lineStart q1) by (rewrite (CG_ls _ _ H1), (CG_ls _ _ H2), Els, Esrc; reflexivity).
  assert (Hli1 : 0 <= li p1 <= len (line p1)) by apply H1.
  assert (Hls1 : 0 <= lineStart p1) by apply H1.
  assert (Lok : lineOK (line p1)) by apply H1.
  apply (CG_append p2 q2 _ _ K); [exact H2| | |exact Hc2|exact HK].
  - destruct (Z.eqb_spec kind InfoStringKind) as [E|E].
    + pose proof (Hk E) as Hb. assert (Eq : li q1 = li p1).
      { destruct H1 as (_ & _ & _ & _ & _ & _ & _ & _ & _ & Eq & _). rewrite Eq. apply phiP_blen; [exact Lok|lia]. }
      rewrite Eq, <- Elq, <- Els.
      pose proof (CG_collect_node p2 q2 kind (li p1) H2 ltac:(lia) Hle ltac:(left; rewrite Eln; exact Hb) ltac:(rewrite Eln; lia)) as Hn.
      destruct (Z.eqb_spec kind InfoStringKind); [exact Hn|contradiction].
    + rewrite (CG_pos _ _ H1), (CG_pos _ _ H2), Esrc. reflexivity.
  - destruct (kind =? InfoStringKind); [rewrite istart_info|cbn [mkI istart]]; lia.
Qed.

Lemma CG_collectInline p q kind n n' K : CG O p q -> ckind p K -> isParaK K = false ->
  ((0 <= n /\ n' = n /\ li p + indentLength (rest p) + n <= blen (line p)) \/
   (kind <> InfoStringKind /\ n = len (line p) - (li p + indentLength (rest p)) /\ n' = len (line q) - (li q + indentLength (rest q)) /\
    ((0 <? indent p) = true \/ indentLength (rest p) = 0))) ->
  CG O (collectInline p kind n) (collectInline q kind n').
Proof.
  intros H Hc HK Hn. unfold collectInline. pose proof (CG_opened p q H) as H0. rewrite (CG_state p q H) in H0 |- *.
  destruct (_ =? stDescendTerminated); [apply CG_panic, H|]. cbv zeta.
  assert (E0 : li (if state p =? stOpening then withState p stOpenMatched else p) = li p /\
               line (if state p =? stOpening then withState p stOpenMatched else p) = line p /\
               rest (if state p =? stOpening then withState p stOpenMatched else p) = rest p /\
               indent (if state p =? stOpening then withState p stOpenMatched else p) = indent p) by (destruct (state p =? stOpening); repeat split).
  assert (E0' : li (if state p =? stOpening then withState q stOpenMatched else q) = li q /\
               line (if state p =? stOpening then withState q stOpenMatched else q) = line q /\
               rest (if state p =? stOpening then withState q stOpenMatched else q) = rest q) by (destruct (state p =? stOpening); repeat split).
  set (p0 := if state p =? stOpening then withState p stOpenMatched else p) in *.
  set (q0 := if state p =? stOpening then withState q stOpenMatched else q) in *.
  assert (C0 : ckind p0 K) by (apply (ckind_same p _ K (same_opened p) Hc)). clearbody p0 q0.
  destruct E0 as (E1 & E2 & E3 & E4). destruct E0' as (E1' & E2' & E3'). rewrite <- E1, <- E2, <- E3, <- E4, <- E1', <- E2', <- E3' in Hn. clear E1 E2 E3 E4 E1' E2' E3' H Hc.
  rewrite (CG_indent p0 q0 H0).
  destruct (CG_rest p0 q0 H0) as [Er Lr].
  assert (Hli : 0 <= li p0 <= len (line p0) /\ lineOK (line p0)) by (split; apply H0). destruct Hli as [Hli Lok].
  (* after the optional indent entry *)
  set (p1 := if 0 <? indent p0 then _ else p0). set (q1 := if 0 <? indent p0 then _ else q0).
  assert (H1 : (CG O p1 q1 /\ ckind p1 K) /\ line p1 = line p0 /\
               ((0 <? indent p0) = true /\ li p1 = li p0 + indentLength (rest p0) \/ (0 <? indent p0) = false /\ li p1 = li p0)).
  { unfold p1, q1. destruct (0 <? indent p0) eqn:Ei; [|split; [split; [exact H0|exact C0]|split; [reflexivity|right; tauto]]].
    rewrite Er, indentLength_crlf.
    assert (Hb : li p0 <= blen (line p0)).
    { destruct (Z.le_gt_cases (li p0) (blen (line p0))) as [L|L]; [exact L|]. exfalso.
      assert (Hl : len (line p0) <= li p0) by (destruct (Z.lt_ge_cases (li p0) (len (line p0))) as [X|X]; [pose proof (lt_blen _ _ Lok X); lia|exact X]).
      unfold indent in Ei. replace (len (line p0) <=? li p0) with true in Ei by (symmetry; apply Z.leb_le; exact Hl). discriminate. }
    pose proof (ind_le (line p0) (li p0) Lok ltac:(lia)) as Hil. fold (rest p0) in Hil.
    pose proof (CG_advance p0 q0 (indentLength (rest p0)) H0 (indentLength_nonneg _) Hil) as Ha.
    pose proof (blen_le (line p0)) as Hbl.
    destruct (adv_fields p0 (indentLength (rest p0)) (indentLength_nonneg _) ltac:(lia)) as (F1 & F2 & F3 & F4).
    assert (Ca : ckind (advance p0 (indentLength (rest p0))) K) by (apply (ckind_same p0 _ K (same_advance p0 _) C0)).
    set (pa := advance p0 (indentLength (rest p0))) in *. set (qa := advance q0 (indentLength (rest p0))) in *. clearbody pa qa.
    split; [|split; [exact F2|left; split; [reflexivity|exact F1]]].
    split; [|apply ckind_updCont; [intros b; destruct b; reflexivity|exact Ca]].
    rewrite (CG_pos p0 q0 H0), (CG_pos pa qa Ha).
    apply (CG_append pa qa _ _ K); [exact Ha| |cbn [istart]; destruct H0 as (_ & _ & _ & A & _); lia|exact Ca|exact HK].
    cbn [phiI map]. replace (source pa) with (source p0) by (symmetry; exact F4). reflexivity. }
  destruct H1 as ((H1 & C1) & El1 & Hl1). clearbody p1 q1.
  assert (Hli1 : 0 <= li p1 <= len (line p1)) by apply H1.
  destruct Hn as [(Hn0 & -> & Hnb)|(Hk & -> & -> & Hz)].
  - assert (Hb1 : li p1 + n <= blen (line p1)).
    { rewrite El1. destruct Hl1 as [[_ ->]|[Ei ->]]; [lia|]. pose proof (indentLength_nonneg (rest p0)). lia. }
    pose proof (blen_le (line p1)) as Hbl.
    destruct (adv_fields p1 n Hn0 ltac:(lia)) as (F1 & F2 & F3 & F4).
    pose proof (CG_advance p1 q1 n H1 Hn0 Hb1) as H2.
    pose proof (collect_finish p1 q1 (advance p1 n) (advance q1 n) kind K (ckind_same p1 _ K (same_advance p1 n) C1) HK H1 H2 F3 F4 ltac:(lia) F2 ltac:(intros _; lia)) as Hf.
    exact Hf.
  - assert (Ep : li p1 = li p0 + indentLength (rest p0)).
    { destruct Hl1 as [[_ ->]|[Ei ->]]; [reflexivity|]. destruct Hz as [Hz|Hz]; [congruence|lia]. }
    assert (Eq1 : li q1 = li q0 + indentLength (rest q0)).
    { rewrite Er, indentLength_crlf.
      destruct H1 as (_ & _ & _ & _ & _ & _ & _ & _ & _ & Eq1 & _). destruct H0 as (_ & _ & _ & _ & _ & _ & _ & _ & _ & Eq0 & _).
      rewrite Eq1, Eq0, El1, Ep.
      destruct (Z.le_gt_cases (li p0) (blen (line p0))) as [L|L].
      - pose proof (ind_le (line p0) (li p0) Lok ltac:(lia)) as Hil. fold (rest p0) in Hil. pose proof (indentLength_nonneg (rest p0)).
        rewrite !phiP_blen by (assumption || lia). reflexivity.
      - assert (Hl : len (line p0) <= li p0) by (destruct (Z.lt_ge_cases (li p0) (len (line p0))) as [X|X]; [pose proof (lt_blen _ _ Lok X); lia|exact X]).
        unfold rest at 1 2. rewrite Rec16.from_nil by lia. cbn [indentLength]. rewrite !Z.add_0_r. reflexivity. }
    assert (Eq2 : line q1 = line q0).
    { destruct H1 as (_ & _ & _ & _ & _ & _ & Eq1' & _). destruct H0 as (_ & _ & _ & _ & _ & _ & Eq0 & _). rewrite Eq1', Eq0, El1. reflexivity. }
    rewrite <- Ep, <- Eq1, <- El1, <- Eq2.
    destruct (CG_advance_end p1 q1 H1) as (H2 & F1 & F2).
    destruct (adv_fields p1 (len (line p1) - li p1) ltac:(lia) ltac:(lia)) as (_ & _ & F3 & F4).
    pose proof (collect_finish p1 q1 _ _ kind K (ckind_same p1 _ K (same_advance p1 _) C1) HK H1 H2 F3 F4 ltac:(lia) F2 ltac:(intros X; contradiction)) as Hf.
    exact Hf.
Qed.
End GenLP.
