From Coq Require Import List ZArith Lia Bool.
Import ListNotations.
Require Import Base Tables Utf8 Tree Rdr Link Collect ShapesBase ShapesR IFBase IFLink IFCollect EolCRLFDefs EolCRLFSimBytes EolCRLFSimStream
  EolGenCrlfRdrDefs EolGenCrlfRdrStep EolGenCrlfRdrNext EolGenCrlfRdrLink EolGenCrlfRdrColl EolGenCrlfRdrColl2.
Open Scope Z_scope.

(* C14 (ii), CRLF clause: transformLinkReferenceSpan.  The scan range must not extend beyond the last span of the
   reader (EBr): otherwise the model reads raw bytes after a failed step, and does so at different moments in the two runs. *)

Definition sufx {A} (a b : list A) : Prop := exists pre, a = pre ++ b.
Lemma sufx_refl {A} (a : list A) : sufx a a. Proof. exists []. reflexivity. Qed.
Lemma sufx_nil {A} (a : list A) : sufx a []. Proof. exists a. symmetry. apply app_nil_r. Qed.
Lemma sufx_trans {A} (a b c : list A) : sufx a b -> sufx b c -> sufx a c.
Proof. intros (p & ->) (q & ->). exists (p ++ q). rewrite app_assoc. reflexivity. Qed.
Lemma last_app_ne {A} (d : A) : forall p s, s <> [] -> last (p ++ s) d = last s d.
Proof.
  induction p as [|x p IH]; intros s Hs; [reflexivity|]. cbn [app]. specialize (IH s Hs).
  destruct (p ++ s) eqn:E; [destruct p; [cbn in E; contradiction|discriminate E]|]. cbn [last]. exact IH.
Qed.
Definition endOf (sp : list inline) : Z := iend (last sp (mkI 0 0 0)).
Lemma endOf_sufx a b : sufx a b -> b <> [] -> endOf b = endOf a.
Proof. intros (p & ->) Hb. unfold endOf. rewrite last_app_ne by exact Hb. reflexivity. Qed.

Lemma sufx_curNode r : sufx (r_spans r) (r_spans (snd (curNode r))).
Proof.
  destruct (curNode_cases r) as [E|(pre & n & rest & E1 & E & _)]; rewrite E; cbn [snd withSpans r_spans]; [apply sufx_nil|exists pre; exact E1].
Qed.
Lemma sufx_current r : sufx (r_spans r) (r_spans (snd (current r))).
Proof. destruct (current_snd r) as [E|E]; rewrite E; [apply sufx_refl|apply sufx_curNode]. Qed.
Lemma sufx_next r : sufx (r_spans r) (r_spans (snd (next r))).
Proof.
  destruct (next r) as [ok r1] eqn:E. cbn [snd]. destruct ok.
  - destruct (next_true r r1 E) as (node & rest & _ & _ & (pre & Epre) & _ & _ & Hcase).
    destruct Hcase as [(_ & _ & Esp)|[(_ & _ & _ & Esp)|(pre' & j & rest' & Er & Esp & _)]]; rewrite Esp.
    + exists pre. exact Epre.
    + exists pre. exact Epre.
    + exists (pre ++ node :: pre'). rewrite Epre, Er, <- app_assoc. reflexivity.
  - destruct (next_false r r1 E) as (E1 & _). rewrite E1. apply sufx_nil.
Qed.

Lemma spW_in src : forall sp u, spW src sp = true -> In u sp -> 0 <= istart u /\ istart u <= iend u /\ iend u <= len src.
Proof.
  induction sp as [|v sp IH]; intros u H []; pose proof (spW_cons _ _ _ H) as (A & B & C & D & G); [subst; lia|apply IH; assumption].
Qed.
Lemma in_le_last src : forall sp u, spW src sp = true -> In u sp -> iend u <= endOf sp.
Proof.
  induction sp as [|v sp IH]; intros u H Hin; [destruct Hin|]. pose proof (spW_cons _ _ _ H) as (A & B & C & D & G).
  destruct sp as [|w sp']; [destruct Hin as [<-|[]]; unfold endOf; cbn; lia|].
  change (endOf (v :: w :: sp')) with (endOf (w :: sp')). destruct Hin as [<-|Hin]; [|apply IH; assumption].
  assert (Hl : In (last (w :: sp') (mkI 0 0 0)) (w :: sp')).
  { destruct (exists_last (l := w :: sp') ltac:(discriminate)) as (l' & a & E). rewrite E, last_last. apply in_or_app. right. left. reflexivity. }
  pose proof (D _ Hl) as D1. destruct (spW_in src _ _ G Hl) as (_ & D2 & _). unfold endOf. lia.
Qed.

Definition EBr (e : Z) (r : reader) : Prop := r_spans r = [] \/ e <= endOf (r_spans r).
Lemma EBr_sufx e r r2 : EBr e r -> sufx (r_spans r) (r_spans r2) -> EBr e r2.
Proof.
  intros [H|H] S.
  - left. destruct S as (p & E). rewrite H in E. destruct p; [cbn in E; symmetry; exact E|discriminate E].
  - assert (D : r_spans r2 = [] \/ r_spans r2 <> []) by (destruct (r_spans r2); [left; reflexivity|right; discriminate]).
    destruct D as [D|D]; [left; exact D|right; rewrite (endOf_sufx _ _ S D); exact H].
Qed.
Lemma EBr_currentE e r c r1 : EBr e r -> current r = (c, r1) -> EBr e r1.
Proof. intros H E. apply (EBr_sufx e r); [exact H|]. replace r1 with (snd (current r)) by (rewrite E; reflexivity). apply sufx_current. Qed.
Lemma EBr_nextE e r ok r1 : EBr e r -> next r = (ok, r1) -> EBr e r1.
Proof. intros H E. apply (EBr_sufx e r); [exact H|]. replace r1 with (snd (next r)) by (rewrite E; reflexivity). apply sufx_next. Qed.

Lemma nextSpan_none_readable : forall sp, forallb readableK sp = true -> nextSpan sp = None -> sp = [].
Proof.
  intros [|u sp] H E; [reflexivity|]. cbn [forallb] in H. apply andb_true_iff in H. destruct H as [H _]. unfold readableK in H.
  cbn [nextSpan] in E. apply orb_true_iff in H. destruct H as [H|H]; rewrite H in E; [discriminate E|rewrite !orb_true_r in E; discriminate E].
Qed.

Section TlrSim.
  Variable R : bytes.
  Variable Eb : Z.
  Hypothesis R13 : ~ In 13 R.
  Notation P := (phiP R).
  Notation R' := (crlf R).
  Notation F := (phiI R).
  Notation RR := (RR R Eb).
  Notation RM := (RM R Eb).
  Notation SPI := (SPI R Eb).
  Notation W := (W R Eb).

  Ltac f0 HW := exfalso; destruct (W_PL R Eb _ _ HW) as [?P1 ?P2]; first [eapply (fuel0 R); eassumption|eapply (fuel0 R'); eassumption].

  (* a failed step from inside a node that is not an Indent node: the reader was on the last byte of its last span *)
  Lemma next_fail_end e r r2 node : SPI (r_spans r) -> next r = (false, r2) -> fst (curNode r) = Some node -> ikind node <> IndentKind ->
    EBr e r -> e <= r_pos r2.
  Proof.
    intros G E Hn K HB. unfold next in E.
    destruct (curNode_cases r) as [Ec|(pre & n & rest & E1 & Ec & E3)]; rewrite Ec in Hn, E; cbn [fst] in Hn; [discriminate|].
    inversion Hn; subst n. cbn [withSpans r_src r_spans r_pos r_vpos tl] in E.
    destruct (Z.eqb_spec (ikind node) IndentKind); [contradiction|]. cbn [andb negb] in E.
    destruct (Z.ltb_spec (r_pos r + 1) (iend node)) as [L|L]; [discriminate E|].
    destruct (nextSpan rest) as [[i sp]|] eqn:En; [discriminate E|]. inversion E; subst r2. cbn [r_pos].
    rewrite E1 in G. apply (SPI_app_r R Eb) in G. destruct G as (_ & G & _). cbn [forallb] in G. apply andb_true_iff in G. destruct G as [_ G].
    pose proof (nextSpan_none_readable rest G En) as ->.
    destruct HB as [HB|HB]; [rewrite E1 in HB; destruct pre; discriminate HB|].
    rewrite E1 in HB. unfold endOf in HB. rewrite last_app_ne in HB by discriminate. cbn [last] in HB. lia.
  Qed.

  Lemma W_poslt x x' : W x x' -> forall y, (r_pos x' <? P y) = (r_pos x <? y).
  Proof. intros H y. rewrite !Z.ltb_antisym, (W_posle R Eb _ _ H). reflexivity. Qed.
  Lemma W_cur_stle x x' : W x x' -> isSpaceTabOrLineEnding (cur x') = isSpaceTabOrLineEnding (cur x).
  Proof.
    intros [H|H].
    - destruct (RR_current R Eb _ _ H) as [E _]. rewrite E. apply m13_stle.
    - destruct (RM_current R Eb _ _ H) as (A & B & _). rewrite A, B. reflexivity.
  Qed.
  Lemma W_SPI x x' : W x x' -> SPI (r_spans x).
  Proof. intros [H|H]; [apply (RR_SPI R Eb _ _ H)|apply H]. Qed.

  Lemma tlr_sim : forall f' f r r' e acc, W r r' -> EBr e r -> nu R r < Z.of_nat f -> nu R' r' < Z.of_nat f' ->
    tlr_loop f' r' (P e) acc = tlr_loop f r e acc.
  Proof.
    induction f' as [|f' IH]; intros f r r' e acc HW HB Hn Hn'; [f0 HW|]. destruct f as [|f]; [f0 HW|].
    (* the inner loop over a run of whitespace *)
    assert (SK : forall a k' k x x', W x x' -> EBr e x -> nu R x < Z.of_nat k -> nu R' x' < Z.of_nat k' ->
       nu R x < Z.of_nat f -> nu R' x' < Z.of_nat f' ->
       tlr_skip (fun y => tlr_loop f' y (P e) a) a (P e) k' x' = tlr_skip (fun y => tlr_loop f y e a) a e k x).
    { intros a. induction k' as [|k' IHk]; intros k x x' HX HBx Hk Hk' Hf Hf'; [f0 HX|]. destruct k as [|k]; [f0 HX|].
      assert (Unf : tlr_skip (fun y => tlr_loop f y e a) a e (S k) x =
              if (r_pos x <? e) && isSpaceTabOrLineEnding (cur x) then
                match next (snd (current x)) with (true, y) => tlr_skip (fun y => tlr_loop f y e a) a e k y | (false, y) => tlr_loop f y e a end
              else tlr_loop f x e a) by reflexivity.
      assert (Unf' : tlr_skip (fun y => tlr_loop f' y (P e) a) a (P e) (S k') x' =
              if (r_pos x' <? P e) && isSpaceTabOrLineEnding (cur x') then
                match next (snd (current x')) with (true, y) => tlr_skip (fun y => tlr_loop f' y (P e) a) a (P e) k' y | (false, y) => tlr_loop f' y (P e) a end
              else tlr_loop f' x' (P e) a) by reflexivity.
      rewrite (W_poslt _ _ HX), (W_cur_stle _ _ HX), !next_current in Unf'. rewrite !next_current in Unf.
      destruct ((r_pos x <? e) && isSpaceTabOrLineEnding (cur x)) eqn:Ecd.
      2:{ rewrite Unf, Unf'. apply IH; assumption. }
      destruct (next x) as [ok y] eqn:En. destruct (next x') as [ok' y'] eqn:En'.
      pose proof (EBr_nextE e x ok y HBx En) as HBy.
      destruct HX as [H|H].
      - destruct (Z.eq_dec (cur x) 10) as [E10|N10].
        + destruct (nextE_RR10 R Eb _ _ _ _ _ _ H E10 En En') as [(-> & -> & H2 & _)|(-> & HM & Hlt)].
          * rewrite Unf, Unf'. destruct (RR_PL R Eb _ _ H) as [Q Q']. destruct (NU_next R x false y Q En) as [[U _] _]. destruct (NU_next R' x' false y' Q' En') as [[U' _] _].
            apply IH; [left; exact H2|exact HBy|lia|lia].
          * rewrite Unf'. apply IHk; [right; exact HM|exact HBx|lia|lia|lia|lia].
        + destruct (nextE_RR R Eb _ _ _ _ _ _ H N10 En En') as (-> & H2 & _ & [U1 U2] & [U1' U2']).
          rewrite Unf, Unf'. destruct ok; [apply IHk; [left; exact H2|exact HBy|specialize (U2 eq_refl); lia|specialize (U2' eq_refl); lia|lia|lia]|].
          apply IH; [left; exact H2|exact HBy|lia|lia].
      - destruct (nextE_RM R Eb _ _ _ _ _ _ H En En') as (-> & H2 & _ & [U1 U2] & [U1' U2']).
        rewrite Unf, Unf'. destruct ok; [apply IHk; [left; exact H2|exact HBy|specialize (U2 eq_refl); lia|specialize (U2' eq_refl); lia|lia|lia]|].
        apply IH; [left; exact H2|exact HBy|lia|lia]. }
    rewrite !tlr_loop_S. rewrite (W_posle R Eb _ _ HW). destruct (e <=? r_pos r) eqn:Ee; [reflexivity|].
    destruct (current r) as [c r1] eqn:Ec. destruct (current r') as [c' r1'] eqn:Ec'.
    pose proof (EBr_currentE e r c r1 HB Ec) as HB1.
    destruct (next r1) as [ok r2] eqn:En. destruct (next r1') as [ok' r2'] eqn:En'.
    pose proof (EBr_nextE e r1 ok r2 HB1 En) as HB2.
    destruct HW as [H|H].
    - destruct (currentE_RR R Eb R13 _ _ _ _ _ _ H Ec Ec') as (-> & H1 & Hc & N1 & N1' & Hp1 & Hp1' & _).
      rewrite m13_stle. destruct (isSpaceTabOrLineEnding c) eqn:Es.
      + cbv zeta. destruct (Z.eq_dec c 10) as [->|N10].
        * destruct (nextE_RR10 R Eb _ _ _ _ _ _ H1 Hc En En') as [(-> & -> & H2 & _)|(-> & HM & Hlt)]; [reflexivity|]. cbn [negb].
          (* the reader over crlf R is on the LF: one round of the inner loop *)
          assert (Ek : tlr_skip (fun y => tlr_loop f' y (P e) (acc ++ [32])) (acc ++ [32]) (P e) (S f') r2' =
                 match next r2' with (true, y) => tlr_skip (fun y => tlr_loop f' y (P e) (acc ++ [32])) (acc ++ [32]) (P e) f' y
                                   | (false, y) => tlr_loop f' y (P e) (acc ++ [32]) end).
          { cbn [tlr_skip]. rewrite (W_poslt _ _ (or_intror HM)), Hp1. destruct (RM_current R Eb _ _ HM) as (_ & B & _). rewrite B.
            replace (r_pos r <? e) with true by (symmetry; apply Z.ltb_lt; apply Z.leb_gt in Ee; exact Ee). cbn [andb isSpaceTabOrLineEnding Z.eqb Pos.eqb orb].
            rewrite next_current. reflexivity. }
          rewrite Ek. destruct (next r2') as [ok3 r3'] eqn:En3.
          destruct (nextE_RM R Eb _ _ _ _ _ _ HM En En3) as (-> & H3 & _ & [U1 U2] & [U1' U2']).
          destruct ok; cbn [negb].
          -- apply SK; [left; exact H3|exact HB2|specialize (U2 eq_refl); lia|specialize (U2' eq_refl); lia|specialize (U2 eq_refl); lia|specialize (U2' eq_refl); lia].
          -- (* both exhausted; the range ends here *)
             destruct HM as (_ & _ & _ & _ & _ & G & _ & _ & nd & Hnd & Knd).
             pose proof (next_fail_end e r1 r2 nd G En Hnd Knd HB1) as Le.
             destruct f' as [|f'']; [reflexivity|]. rewrite tlr_loop_S, (W_posle R Eb _ _ (or_introl H3)).
             replace (e <=? r_pos r2) with true by (symmetry; apply Z.leb_le; exact Le). reflexivity.
        * destruct (nextE_RR R Eb _ _ _ _ _ _ H1 ltac:(rewrite Hc; exact N10) En En') as (-> & H2 & _ & [U1 U2] & [U1' U2']).
          destruct ok; cbn [negb]; [|reflexivity].
          apply SK; [left; exact H2|exact HB2|specialize (U2 eq_refl); lia|specialize (U2' eq_refl); lia|specialize (U2 eq_refl); lia|specialize (U2' eq_refl); lia].
      + cbv zeta. assert (N10 : c <> 10) by (intros ->; discriminate Es). rewrite (m13_n c N10).
        destruct (nextE_RR R Eb _ _ _ _ _ _ H1 ltac:(rewrite Hc; exact N10) En En') as (-> & H2 & _ & [U1 U2] & [U1' U2']).
        destruct ok; cbn [negb]; [|reflexivity]. apply IH; [left; exact H2|exact HB2|specialize (U2 eq_refl); lia|specialize (U2' eq_refl); lia].
    - destruct (currentE_RM R Eb _ _ _ _ _ _ H Ec Ec') as (-> & -> & H1 & N1 & N1' & _).
      cbn [isSpaceTabOrLineEnding Z.eqb Pos.eqb orb]. cbv zeta.
      destruct (nextE_RM R Eb _ _ _ _ _ _ H1 En En') as (-> & H2 & _ & [U1 U2] & [U1' U2']).
      destruct ok; cbn [negb]; [|reflexivity].
      apply SK; [left; exact H2|exact HB2|specialize (U2 eq_refl); lia|specialize (U2' eq_refl); lia|specialize (U2 eq_refl); lia|specialize (U2' eq_refl); lia].
  Qed.

  Lemma tlrs_sim f f' sp s e : SPI sp -> (sp = [] \/ e <= endOf sp) -> len R + ibudget sp < Z.of_nat f -> len R' + ibudget sp < Z.of_nat f' ->
    transformLinkReferenceSpan f' R' (map F sp) (P s) (P e) = transformLinkReferenceSpan f R sp s e.
  Proof.
    intros G HB Hf Hf'. unfold transformLinkReferenceSpan. f_equal. f_equal.
    pose proof (RR_new R Eb sp s G) as H. destruct (RR_PL R Eb _ _ H) as [Q Q'].
    pose proof (nu_new R sp s (proj1 G)) as M. pose proof (nu_new R' (map F sp) (P s) ltac:(apply (spW_F R), G)) as M'. rewrite ibudget_F in M'.
    apply tlr_sim; [left; exact H|exact HB|lia|lia].
  Qed.
End TlrSim.
