From Coq Require Import List ZArith Lia Bool.
Import ListNotations.
Require Import Base Tables Utf8 Tree Rdr Link Collect Html Recog Inl3a Inl3b Inl3c Inl3d Inl3e Render Safe Leaf3a Leaf3b Leaf3c Leaf3d.
Open Scope Z_scope.

(* ---- the reader only ever narrows its span list ---- *)
Definition sublist {A} (l1 l2 : list A) : Prop := forall x, In x l1 -> In x l2.
Lemma sublist_refl {A} (l : list A) : sublist l l. Proof. intros x H; exact H. Qed.
Lemma sublist_trans {A} (a b c : list A) : sublist a b -> sublist b c -> sublist a c.
Proof. intros H1 H2 x Hx. apply H2, H1, Hx. Qed.
Lemma sublist_skipn {A} n (l : list A) : sublist (skipn n l) l.
Proof. intros x Hx. rewrite <- (firstn_skipn n l). apply in_or_app. right. exact Hx. Qed.
Lemma sublist_tl {A} (l : list A) : sublist (tl l) l.
Proof. destruct l; [apply sublist_refl|]. intros x Hx. right. exact Hx. Qed.
Lemma sublist_nil {A} (l : list A) : sublist [] l. Proof. intros x []. Qed.

Lemma curNode_spans r : sublist (r_spans (snd (curNode r))) (r_spans r).
Proof. unfold curNode. destruct (_ <? 0); cbn [snd r_spans]; [apply sublist_nil|apply sublist_skipn]. Qed.
Lemma curNode_in r n : fst (curNode r) = Some n -> In n (r_spans r).
Proof.
  unfold curNode. destruct (_ <? 0); cbn [fst]; [discriminate|]. intros H.
  apply (sublist_skipn (Z.to_nat (nodeIndexForPosition (r_spans r) (r_pos r))) (r_spans r)).
  unfold from_ in H. destruct (skipn _ _) as [|x l]; [discriminate|]. cbn in H. inversion H; subst. left. reflexivity.
Qed.
Lemma current_spans r : sublist (r_spans (snd (current r))) (r_spans r).
Proof.
  unfold current. destruct (_ <=? _); [apply sublist_refl|].
  pose proof (curNode_spans r) as H. destruct (curNode r) as [n r']. cbn [snd] in *.
  destruct (okind n =? IndentKind); [exact H|]. destruct (at_ _ _ =? 0); exact H.
Qed.
Lemma nextSpan_sub sp i sp' : nextSpan sp = Some (i, sp') -> sublist sp' sp.
Proof.
  induction sp as [|x l IH]; cbn [nextSpan]; [discriminate|].
  destruct ((ikind x =? UnparsedKind) || (ikind x =? TextKind) || (ikind x =? IndentKind)).
  - intros H; inversion H; subst. apply sublist_refl.
  - intros H. specialize (IH H). intros y Hy. right. apply IH, Hy.
Qed.
Lemma next_spans r : sublist (r_spans (snd (next r))) (r_spans r).
Proof.
  unfold next. pose proof (curNode_spans r) as H. destruct (curNode r) as [n r1]. cbn [snd] in H.
  destruct n as [node|]; [|exact H].
  destruct ((ikind node =? IndentKind) && (r_vpos r1 <? iindent node)); [exact H|].
  destruct (negb (ikind node =? IndentKind) && (r_pos r1 + 1 <? iend node)); [exact H|].
  destruct (nextSpan (tl (r_spans r1))) as [[i sp]|] eqn:E; cbn [snd r_spans]; [|apply sublist_nil].
  eapply sublist_trans; [exact (nextSpan_sub _ _ _ E)|]. eapply sublist_trans; [apply sublist_tl|exact H].
Qed.
Lemma remaining_spans r : sublist (r_spans (snd (remainingNodeBytes r))) (r_spans r).
Proof. unfold remainingNodeBytes. pose proof (curNode_spans r) as H. destruct (curNode r) as [[n|] r']; exact H. Qed.
Lemma skipSameNode_spans : forall fuel r node, sublist (r_spans (skipSameNode fuel r node)) (r_spans r).
Proof.
  induction fuel as [|f IH]; intros r node; [apply sublist_refl|]. cbn [skipSameNode].
  pose proof (next_spans r) as H1. destruct (next r) as [ok r1]. cbn [snd] in H1. destruct (negb ok); [exact H1|].
  pose proof (curNode_spans r1) as H2. destruct (curNode r1) as [[m|] r2]; cbn [snd] in H2.
  - destruct (_ && _); [|eapply sublist_trans; eassumption].
    eapply sublist_trans; [apply IH|]. eapply sublist_trans; eassumption.
  - eapply sublist_trans; eassumption.
Qed.
Lemma nextN_spans : forall n r, sublist (r_spans (nextN n r)) (r_spans r).
Proof. induction n as [|n IH]; intros r; [apply sublist_refl|]. cbn [nextN]. eapply sublist_trans; [apply IH|apply next_spans]. Qed.

(* ---- what collectTextNodes (no escapes) can produce ---- *)
Definition plainOrSpan (tk : Z) (spans : list inline) (x : inline) : Prop :=
  (exists s e, x = mkI tk s e) \/ (In x spans /\ ikind x = IndentKind).

Lemma collect_noesc tk : forall fuel r e ps acc spans,
  sublist (r_spans r) spans -> Forall (plainOrSpan tk spans) acc ->
  Forall (plainOrSpan tk spans) (fst (collect_loop fuel r e tk false ps acc)).
Proof.
  induction fuel as [|f IH]; intros r e ps acc spans Hs Hacc; [exact Hacc|].
  cbn [collect_loop]. destruct (e <=? r_pos r); [exact Hacc|].
  pose proof (curNode_spans r) as Hc. pose proof (curNode_in r) as Hin.
  destruct (curNode r) as [cn r0]. cbn [fst snd] in Hc, Hin.
  assert (Hs0 : sublist (r_spans r0) spans) by (eapply sublist_trans; eassumption).
  assert (Hplain : forall a b, plainOrSpan tk spans (mkI tk a b)) by (intros a b; left; eauto).
  destruct (okind cn =? IndentKind) eqn:Ek.
  - destruct cn as [node|]; [|cbn in Ek; discriminate].
    assert (Hnode : plainOrSpan tk spans node).
    { right. split; [apply Hs, Hin; reflexivity|]. cbn [okind] in Ek. apply Z.eqb_eq in Ek. exact Ek. }
    apply IH.
    + eapply sublist_trans; [apply skipSameNode_spans|exact Hs0].
    + apply Forall_app. split; [|constructor; [exact Hnode|constructor]].
      destruct (ps <? r_pos r0); [apply Forall_app; split; [exact Hacc|constructor; [apply Hplain|constructor]]|exact Hacc].
  - cbn [andb]. destruct (e <=? r_pos r0); [exact Hacc|].
    pose proof (next_spans r0) as Hn. destruct (next r0) as [ok r1]. cbn [snd] in Hn.
    destruct (negb ok); [exact Hacc|].
    destruct (jumped r1).
    + apply IH; [eapply sublist_trans; eassumption|].
      destruct (ps <=? r_prev r1); [apply Forall_app; split; [exact Hacc|constructor; [apply Hplain|constructor]]|exact Hacc].
    + apply IH; [eapply sublist_trans; eassumption|exact Hacc].
Qed.

Lemma collectTextNodes_noesc tk fuel r e spans : sublist (r_spans r) spans ->
  Forall (plainOrSpan tk spans) (collectTextNodes fuel r e tk false).
Proof.
  intros Hs. unfold collectTextNodes.
  pose proof (collect_noesc tk fuel r e (r_pos r) [] spans Hs (Forall_nil _)) as H.
  destruct (collect_loop fuel r e tk false (r_pos r) []) as [acc ps]. cbn [fst] in H.
  destruct (ps <? e); [|exact H]. apply Forall_app. split; [exact H|]. constructor; [left; eauto|constructor].
Qed.
