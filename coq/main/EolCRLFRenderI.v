From Coq Require Import List ZArith Lia Bool.
Import ListNotations.
Require Import Base Tables Utf8 Tree Recog Inl3b Driver Inl3e Render Props EolCRBytes EolCRRdr EolCRRenderDefs EolCRRenderRE EolCRRenderI
  EolCRLFDefs EolCRLFSimBytes EolCRLFRenderDefs EolCRLFRenderRC.
Open Scope Z_scope.

(* ====================================================================================================
   C14, CRLF clause, renderer, part 2: renderI / renderB / extractDefs on a tree over src against its
   image phiI / phiB over crlf src, with reference maps related entry by entry, under the tree facts
     shapesI / shapesB (Props, C13): every span is valid, a CharacterReference span is "&...;",
                                      a ListMarker span is a bullet or digits and a delimiter;
     dokI / dokB (EolCRRenderDefs)  : destination / autolink texts contain no line ending.
   ==================================================================================================== *)

(* ---- the position map on inline / block nodes: structure ---- *)
Lemma rp_istart R u : istart (phiI R u) = phiP R (istart u). Proof. destruct u; reflexivity. Qed.
Lemma rp_iend R u : iend (phiI R u) = phiP R (iend u). Proof. destruct u; reflexivity. Qed.
Lemma rp_ikind R u : ikind (phiI R u) = ikind u. Proof. destruct u; reflexivity. Qed.
Lemma rp_iindent R u : iindent (phiI R u) = iindent u. Proof. destruct u; reflexivity. Qed.
Lemma rp_iref R u : iref (phiI R u) = iref u. Proof. destruct u; reflexivity. Qed.
Lemma rp_ikids R u : ikids (phiI R u) = map (phiI R) (ikids u). Proof. destruct u; reflexivity. Qed.
Lemma rp_isize R : forall u, isize (phiI R u) = isize u.
Proof.
  fix IH 1. intros [k s e n r ks]. cbn [phiI isize]. f_equal.
  induction ks as [|x ks IHk]; [reflexivity|]. cbn [map fold_right]. rewrite IH, IHk. reflexivity.
Qed.
Lemma rp_bkind R b : bkind (phiB R b) = bkind b. Proof. destruct b; reflexivity. Qed.
Lemma rp_bstart R b : bstart (phiB R b) = phiP R (bstart b). Proof. destruct b; reflexivity. Qed.
Lemma rp_bend R b : bend (phiB R b) = phiP R (bend b). Proof. destruct b; reflexivity. Qed.
Lemma rp_bkids R b : bkids (phiB R b) = map (phiB R) (bkids b). Proof. destruct b; reflexivity. Qed.
Lemma rp_bik R b : bik (phiB R b) = map (phiI R) (bik b). Proof. destruct b; reflexivity. Qed.
Lemma rp_bn R b : bn (phiB R b) = bn b. Proof. destruct b; reflexivity. Qed.
Lemma rp_bchar R b : bchar (phiB R b) = bchar b. Proof. destruct b; reflexivity. Qed.
Lemma rp_bloose R b : bloose (phiB R b) = bloose b. Proof. destruct b; reflexivity. Qed.
Lemma rp_isTightList R b : isTightList (phiB R b) = isTightList b.
Proof. unfold isTightList. rewrite rp_bkind, rp_bloose. reflexivity. Qed.
Lemma rp_isOrdered R b : isOrdered (phiB R b) = isOrdered b.
Proof. unfold isOrdered. rewrite rp_bchar. reflexivity. Qed.

(* ---- parts of the tree facts ---- *)
Lemma shapesI_eq src i : shapesI src i =
  span_valid (len src) (istart i) (iend i) && shapeInline (sub src (istart i) (iend i)) (ikind i) && forallb (shapesI src) (ikids i).
Proof. destruct i; reflexivity. Qed.
Lemma shapesI_parts src i : shapesI src i = true ->
  span_valid (len src) (istart i) (iend i) = true /\ shapeInline (sub src (istart i) (iend i)) (ikind i) = true /\ forallb (shapesI src) (ikids i) = true.
Proof. rewrite shapesI_eq. intros H. apply andb_true_iff in H. destruct H as [H C]. apply andb_true_iff in H. destruct H as [A B]. repeat split; assumption. Qed.
Lemma shapesB_eq' src b : shapesB src b =
  span_valid (len src) (bstart b) (bend b) && shapeBlock (sub src (bstart b) (bend b)) b && forallb (shapesB src) (bkids b) && forallb (shapesI src) (bik b).
Proof. destruct b; reflexivity. Qed.
Lemma shapesB_parts' src b : shapesB src b = true ->
  span_valid (len src) (bstart b) (bend b) = true /\ shapeBlock (sub src (bstart b) (bend b)) b = true /\
  forallb (shapesB src) (bkids b) = true /\ forallb (shapesI src) (bik b) = true.
Proof.
  rewrite shapesB_eq'. intros H. apply andb_true_iff in H. destruct H as [H D]. apply andb_true_iff in H. destruct H as [H C].
  apply andb_true_iff in H. destruct H as [A B]. repeat split; assumption.
Qed.
Lemma span_valid_spec n s e : span_valid n s e = true -> 0 <= s /\ s <= e /\ e <= n.
Proof.
  unfold span_valid. intros H. apply andb_true_iff in H. destruct H as [H C]. apply andb_true_iff in H. destruct H as [A B].
  apply Z.leb_le in A, B, C. lia.
Qed.

Ltac rp_decide_ifs H :=
  repeat match type of H with
         | (if ?c then _ else _) = true =>
           let v := eval vm_compute in c in
           match v with
           | true => change c with true in H
           | false => change c with false in H
           end; cbv iota in H
         end.
Lemma shapeInline_charref t : shapeInline t CharacterReferenceKind = true -> 3 <= len t /\ at_ t 0 = 38 /\ lastZ t = 59.
Proof.
  intros H. unfold shapeInline in H. cbv zeta in H. rp_decide_ifs H.
  apply andb_true_iff in H. destruct H as [H C]. apply andb_true_iff in H. destruct H as [A B].
  apply Z.leb_le in A. apply Z.eqb_eq in B, C. repeat split; assumption.
Qed.
Lemma rp_lastZ_snoc (l : bytes) c : lastZ (l ++ [c]) = c.
Proof. unfold lastZ. rewrite rev_app_distr. reflexivity. Qed.
Lemma rp_snoc (t : bytes) : t <> [] -> t = upto t (len t - 1) ++ [lastZ t].
Proof.
  intros Hne. destruct (rev t) as [|z r] eqn:Er.
  - exfalso. apply Hne. rewrite <- (rev_involutive t), Er. reflexivity.
  - assert (E : t = rev r ++ [z]) by (rewrite <- (rev_involutive t), Er; reflexivity).
    clear Er. generalize dependent (rev r). intros p E. subst t. rewrite rp_lastZ_snoc, rc_len_app.
    replace (len p + len [z] - 1) with (len p) by (cbn; lia). rewrite rc_upto_app_len. reflexivity.
Qed.
(* the text of a list marker contains no LF *)
Lemma shapeBlock_marker t m : bkind m = ListMarkerKind -> shapeBlock t m = true -> ~ In 10 t.
Proof.
  intros K H. unfold shapeBlock in H. cbv zeta in H. rewrite K in H. rp_decide_ifs H.
  apply orb_true_iff in H. destruct H as [H|H].
  - apply andb_true_iff in H. destruct H as [H1 H2]. apply Z.eqb_eq in H1.
    destruct t as [|c [|d t]]; [cbn in H1; lia| |rewrite !rc_len_cons in H1; pose proof (rc_len_nonneg t); lia].
    change (at_ [c] 0) with c in H2. intros [E|[]]. subst c. discriminate H2.
  - apply andb_true_iff in H. destruct H as [H Hd]. apply andb_true_iff in H. destruct H as [H Hl]. apply andb_true_iff in H. destruct H as [H1 _].
    apply Z.leb_le in H1. assert (Hne : t <> []) by (intros ->; cbn in H1; lia).
    rewrite (rp_snoc t Hne). intros G. apply in_app_or in G. destruct G as [G|[G|[]]].
    + rewrite forallb_forall in Hd. specialize (Hd 10 G). discriminate Hd.
    + rewrite G in Hl. discriminate Hl.
Qed.

(* ---- spans ---- *)
Lemma spanOf_crlf src i : span_valid (len src) (istart i) (iend i) = true -> spanOf (crlf src) (phiI src i) = crlf (spanOf src i).
Proof. intros H. apply span_valid_spec in H. unfold spanOf. rewrite rp_istart, rp_iend. apply crlf_sub; lia. Qed.
Lemma spanOf_RC src i : span_valid (len src) (istart i) (iend i) = true -> RC (spanOf src i) (spanOf (crlf src) (phiI src i)).
Proof. intros H. rewrite (spanOf_crlf src i H). apply RC_crlf. Qed.
Lemma spanOf_noEol src i : span_valid (len src) (istart i) (iend i) = true -> noEolb (sub src (istart i) (iend i)) = true ->
  spanOf (crlf src) (phiI src i) = spanOf src i.
Proof. intros H Hn. rewrite (spanOf_crlf src i H). apply crlf_noEol, noEolb_spec. exact Hn. Qed.
Lemma phiP_diff_pos R s e : (0 <? phiP R e - phiP R s) = (0 <? e - s).
Proof.
  destruct (Z.ltb_spec 0 (e - s)) as [L|L].
  - apply Z.ltb_lt. pose proof (phiP_lt R s e). lia.
  - apply Z.ltb_ge. pose proof (phiP_mono R e s). lia.
Qed.

(* ---- flat_map over a mapped list ---- *)
Lemma RC_flat_map_map {A} (f g : A -> bytes) (h : A -> A) l : (forall x, In x l -> RC (f x) (g (h x))) -> RC (flat_map f l) (flat_map g (map h l)).
Proof.
  induction l as [|x l IH]; intros H; [constructor|]. cbn [map flat_map]. apply RC_app; [apply H; left; reflexivity|].
  apply IH. intros y Hy. apply H. right. exact Hy.
Qed.
Lemma flat_map_map_eq {A B} (f g : A -> list B) (h : A -> A) l : (forall x, In x l -> g (h x) = f x) -> flat_map g (map h l) = flat_map f l.
Proof.
  induction l as [|x l IH]; intros H; [reflexivity|]. cbn [map flat_map]. rewrite (H x (or_introl eq_refl)), IH; [reflexivity|].
  intros y Hy. apply H. right. exact Hy.
Qed.

(* ---- text of children ---- *)
Lemma textOfChildren_RC src i : forallb (shapesI src) (ikids i) = true -> RC (textOfChildren src i) (textOfChildren (crlf src) (phiI src i)).
Proof.
  intros Hk. unfold textOfChildren. rewrite rp_ikids. apply RC_flat_map_map. intros c Hc. rewrite forallb_forall in Hk. specialize (Hk c Hc).
  destruct (shapesI_parts src c Hk) as (Hv & Hs & _). rewrite rp_ikind.
  destruct (ikind c =? TextKind); [apply spanOf_RC, Hv|].
  destruct (Z.eqb_spec (ikind c) CharacterReferenceKind) as [K|_]; [|constructor].
  rewrite (spanOf_crlf src c Hv). rewrite K in Hs. destruct (shapeInline_charref _ Hs) as (A & B & C).
  apply unescapeRef_crlf; assumption.
Qed.
Lemma textOfChildren_dest src i : forallb (shapesI src) (ikids i) = true -> forallb (kidNoEol src) (ikids i) = true ->
  textOfChildren (crlf src) (phiI src i) = textOfChildren src i.
Proof.
  intros Hk Hn. unfold textOfChildren. rewrite rp_ikids. apply flat_map_map_eq. intros c Hc. rewrite forallb_forall in Hk, Hn.
  specialize (Hk c Hc). specialize (Hn c Hc). destruct (shapesI_parts src c Hk) as (Hv & _ & _). rewrite rp_ikind.
  unfold kidNoEol, isTC in Hn.
  destruct (ikind c =? TextKind); [cbn [orb] in Hn; apply spanOf_noEol; assumption|].
  destruct (ikind c =? CharacterReferenceKind); [|reflexivity]. cbn [orb] in Hn. rewrite (spanOf_noEol src c Hv Hn). reflexivity.
Qed.

(* ---- reference maps ---- *)
Definition dRC (d d' : linkDef) : Prop := ld_dest d' = ld_dest d /\ RC (ld_title d) (ld_title d') /\ ld_has d' = ld_has d.
Definition refsRC (m m' : list (bytes * linkDef)) : Prop := Forall2 (fun kv kv' => fst kv' = fst kv /\ dRC (snd kv) (snd kv')) m m'.
Lemma lookupDef_relC m m' k : refsRC m m' -> dRC (lookupDef m k) (lookupDef m' k).
Proof.
  induction 1 as [|[k1 v1] [k2 v2] m m' [Hk Hv] H IH]; [repeat split; constructor|]. cbn [fst snd] in Hk, Hv. subst k2. cbn [lookupDef].
  destruct (Utf8.bytes_eqb k1 k); [exact Hv|exact IH].
Qed.
Lemma refsRC_keys m m' (p : bytes -> bool) : refsRC m m' -> existsb (fun kv => p (fst kv)) m' = existsb (fun kv => p (fst kv)) m.
Proof. induction 1 as [|kv kv' m m' [Hk _] H IH]; [reflexivity|]. cbn [existsb]. rewrite Hk, IH. reflexivity. Qed.
Lemma refsRC_snoc m m' k v v' : refsRC m m' -> dRC v v' -> refsRC (m ++ [(k, v)]) (m' ++ [(k, v')]).
Proof. intros H Hv. apply Forall2_app; [exact H|]. constructor; [split; [reflexivity|exact Hv]|constructor]. Qed.

(* ---- link parts of the mapped node ---- *)
Lemma rp_linkReference R i : linkReference (phiI R i) = linkReference i.
Proof.
  unfold linkReference. rewrite rp_ikind, rp_ikids, rp_iref, <- map_rev. destruct (rev (ikids i)) as [|l r]; [reflexivity|].
  cbn [map]. rewrite rp_ikind, rp_iref. reflexivity.
Qed.
Lemma rp_lastTwo {A} (f : A -> A) l : lastTwo (map f l) = map f (lastTwo l).
Proof. unfold lastTwo. rewrite <- map_rev. destruct (rev l) as [|a [|b r]]; reflexivity. Qed.
Lemma rp_find_map {A} (p : A -> bool) (f : A -> A) l : (forall x, p (f x) = p x) -> find p (map f l) = option_map f (find p l).
Proof. intros Hp. induction l as [|x l IH]; [reflexivity|]. cbn [map find]. rewrite Hp. destruct (p x); [reflexivity|exact IH]. Qed.
Lemma rp_linkPart R i k : linkPart (phiI R i) k = option_map (phiI R) (linkPart i k).
Proof. unfold linkPart. rewrite rp_ikids, rp_lastTwo. apply rp_find_map. intros x. rewrite rp_ikind. reflexivity. Qed.

Lemma shapesI_kids src i : shapesI src i = true -> forall c, In c (ikids i) -> shapesI src c = true.
Proof. intros H c Hc. destruct (shapesI_parts src i H) as (_ & _ & Hk). rewrite forallb_forall in Hk. apply Hk, Hc. Qed.

Section Tree.
  Variable c : cfg.
  Variable src : bytes.
  Variables refs refs' : list (bytes * linkDef).
  Hypothesis Hrefs : refsRC refs refs'.

  Lemma defOf_relC i : shapesI src i = true -> dokI src i = true -> dRC (defOf refs src i) (defOf refs' (crlf src) (phiI src i)).
  Proof.
    intros Hs Hi. unfold defOf. cbv zeta. rewrite rp_linkReference, !rp_linkPart.
    destruct (negb (len (linkReference i) =? 0)); [apply lookupDef_relC, Hrefs|].
    repeat split; cbn [ld_dest ld_title ld_has].
    - destruct (linkPart i LinkDestinationKind) as [d|] eqn:E; [|reflexivity]. cbn [option_map].
      destruct (linkPart_spec _ _ _ E) as [Hin Hk].
      destruct (shapesI_parts src d (shapesI_kids src i Hs d Hin)) as (_ & _ & Hdk).
      apply textOfChildren_dest; [exact Hdk|]. apply dokI_dest; [apply (dokI_kids src i Hi d Hin)|exact Hk].
    - destruct (linkPart i LinkTitleKind) as [t|] eqn:E; [|constructor]. cbn [option_map].
      destruct (linkPart_spec _ _ _ E) as [Hin _].
      destruct (shapesI_parts src t (shapesI_kids src i Hs t Hin)) as (_ & _ & Htk). apply textOfChildren_RC, Htk.
    - destruct (linkPart i LinkTitleKind); reflexivity.
  Qed.

  Lemma altText_RC : forall fuel i, shapesI src i = true -> RC (altText fuel src i) (altText fuel (crlf src) (phiI src i)).
  Proof.
    induction fuel as [|f IH]; intros i Hs; [constructor|]. cbn [altText]. cbv zeta. rewrite rp_ikind, rp_ikids.
    destruct (shapesI_parts src i Hs) as (Hv & _ & _).
    destruct (ikind i =? TextKind); [apply escapeHTML_RC, spanOf_RC, Hv|].
    destruct (ikind i =? CharacterReferenceKind); [apply spanOf_RC, Hv|].
    destruct (_ || _ || _); [apply RC_refl|]. destruct (_ || _ || _); [constructor|].
    apply RC_flat_map_map. intros x Hx. apply IH. apply (shapesI_kids src i Hs x Hx).
  Qed.

  Lemma attr_RC n v v' : RC v v' -> RC (attr n v) (attr n v').
  Proof. intros H. unfold attr. repeat (apply RC_app; [apply RC_refl|]). apply RC_app; [exact H|apply RC_refl]. Qed.

  Lemma link_head_RC i name nm z z' : shapesI src i = true -> dokI src i = true -> RC z z' ->
    RC (openTagAttr c name ++ attr nm (escapeString (normalizeURI (ld_dest (defOf refs src i)))) ++
        (if ld_has (defOf refs src i) then attr s_title (escapeString (ld_title (defOf refs src i))) else []) ++ z)
       (openTagAttr c name ++ attr nm (escapeString (normalizeURI (ld_dest (defOf refs' (crlf src) (phiI src i))))) ++
        (if ld_has (defOf refs' (crlf src) (phiI src i)) then attr s_title (escapeString (ld_title (defOf refs' (crlf src) (phiI src i)))) else []) ++ z').
  Proof.
    intros Hs Hi Hz. destruct (defOf_relC i Hs Hi) as (D1 & D2 & D3). rewrite D1, D3.
    apply RC_app; [apply RC_refl|]. apply RC_app; [apply RC_refl|]. apply RC_app; [|exact Hz].
    destruct (ld_has (defOf refs src i)); [apply attr_RC, escapeString_RC, D2|constructor].
  Qed.

  Lemma renderI_RC : forall fuel i, shapesI src i = true -> dokI src i = true ->
    RC (renderI fuel c refs src i) (renderI fuel c refs' (crlf src) (phiI src i)).
  Proof.
    induction fuel as [|f IH]; intros i Hs Hi; [constructor|]. cbn [renderI]. cbv zeta.
    rewrite !rp_ikind, !rp_ikids, rp_iindent, rp_istart, rp_iend, rp_isize, phiP_diff_pos.
    destruct (shapesI_parts src i Hs) as (Hv & _ & _).
    assert (Hkids : RC (flat_map (renderI f c refs src) (ikids i)) (flat_map (renderI f c refs' (crlf src)) (map (phiI src) (ikids i)))).
    { apply RC_flat_map_map. intros x Hx. apply IH; [apply (shapesI_kids src i Hs x Hx)|apply (dokI_kids src i Hi x Hx)]. }
    assert (Hwrap : forall a z, RC (a ++ flat_map (renderI f c refs src) (ikids i) ++ z)
                                   (a ++ flat_map (renderI f c refs' (crlf src)) (map (phiI src) (ikids i)) ++ z)).
    { intros a z. apply RC_app; [apply RC_refl|]. apply RC_app; [exact Hkids|apply RC_refl]. }
    destruct ((ikind i =? TextKind) || (ikind i =? UnparsedKind)); [apply escapeHTML_RC, spanOf_RC, Hv|].
    destruct (ikind i =? CharacterReferenceKind); [apply spanOf_RC, Hv|].
    destruct (ikind i =? RawHTMLKind).
    { destruct (ignoreRaw c); [constructor|]. destruct (filterOn c); [apply filterRaw_RC, spanOf_RC, Hv|apply spanOf_RC, Hv]. }
    destruct (ikind i =? SoftLineBreakKind).
    { destruct (softBreak c =? 2); [apply RC_refl|]. destruct (softBreak c =? 1); [apply RC_refl|].
      destruct (0 <? iend i - istart i); [apply spanOf_RC, Hv|apply RC_refl]. }
    destruct (ikind i =? HardLineBreakKind); [apply RC_refl|].
    destruct (ikind i =? EmphasisKind); [apply Hwrap|].
    destruct (ikind i =? StrongKind); [apply Hwrap|].
    destruct (ikind i =? CodeSpanKind); [apply Hwrap|].
    destruct (ikind i =? LinkKind).
    { apply (link_head_RC i [97] s_href _ _ Hs Hi). apply RC_app; [apply RC_refl|]. apply RC_app; [exact Hkids|apply RC_refl]. }
    destruct (ikind i =? ImageKind).
    { apply (link_head_RC i [105; 109; 103] s_src _ _ Hs Hi). apply RC_app; [apply attr_RC, altText_RC, Hs|apply RC_refl]. }
    destruct (ikind i =? AutolinkKind) eqn:Ea.
    { apply Z.eqb_eq in Ea.
      assert (Ed : match map (phiI src) (ikids i) with t :: _ => spanOf (crlf src) t | [] => [] end = match ikids i with t :: _ => spanOf src t | [] => [] end).
      { destruct (ikids i) as [|t r] eqn:Ek; [reflexivity|]. cbn [map]. pose proof (dokI_auto src i t r Hi Ea Ek) as Hn. unfold spanNoEol in Hn.
        assert (Ht : In t (ikids i)) by (rewrite Ek; left; reflexivity).
        destruct (shapesI_parts src t (shapesI_kids src i Hs t Ht)) as (Hvt & _ & _). apply spanOf_noEol; assumption. }
      rewrite Ed. apply RC_refl. }
    destruct (ikind i =? IndentKind); [apply RC_refl|].
    destruct (ikind i =? HTMLTagKind); [exact Hkids|constructor].
  Qed.

  Lemma listItemNumber_crlf b : shapesB src b = true -> listItemNumber (crlf src) (phiB src b) = listItemNumber src b.
  Proof.
    intros Hs. unfold listItemNumber. rewrite rp_isOrdered, rp_bkind, rp_bkids. destruct (_ || _); [reflexivity|].
    destruct (shapesB_parts' src b Hs) as (_ & _ & Hk & _).
    destruct (bkids b) as [|m r]; [reflexivity|]. cbn [map]. rewrite rp_bkind, rp_bstart, rp_bend.
    destruct (Z.eqb_spec (bkind m) ListMarkerKind) as [K|K]; [|reflexivity]. cbn [negb].
    cbn [forallb] in Hk. apply andb_true_iff in Hk. destruct Hk as [Hm _].
    destruct (shapesB_parts' src m Hm) as (Hv & Hsh & _ & _). apply span_valid_spec in Hv.
    rewrite crlf_sub by lia. rewrite (crlf_no10 _ (shapeBlock_marker _ m K Hsh)). reflexivity.
  Qed.

  Lemma renderB_RC : forall fuel pt b, shapesB src b = true -> dokB src b = true ->
    RC (renderB fuel c refs src pt b) (renderB fuel c refs' (crlf src) pt (phiB src b)).
  Proof.
    induction fuel as [|f IH]; intros pt b Hs Hb; [constructor|]. cbn [renderB]. cbv zeta.
    rewrite !rp_bkind, !rp_bkids, !rp_bik, rp_isTightList, rp_isOrdered, !rp_bn.
    destruct (shapesB_parts' src b Hs) as (_ & _ & Hsk & Hsi).
    rewrite dokB_eq in Hb. apply andb_true_iff in Hb. destruct Hb as [Hbi Hbk]. rewrite forallb_forall in Hbi, Hbk, Hsk, Hsi.
    assert (HkB : RC (flat_map (renderB f c refs src (isTightList b)) (bkids b))
                     (flat_map (renderB f c refs' (crlf src) (isTightList b)) (map (phiB src) (bkids b)))).
    { apply RC_flat_map_map. intros x Hx. apply IH; [apply Hsk, Hx|apply Hbk, Hx]. }
    assert (HkI : RC (flat_map (fun i => renderI (isize i) c refs src i) (bik b))
                     (flat_map (fun i => renderI (isize i) c refs' (crlf src) i) (map (phiI src) (bik b)))).
    { apply RC_flat_map_map. intros x Hx. rewrite rp_isize. apply renderI_RC; [apply Hsi, Hx|apply Hbi, Hx]. }
    set (kids := match bkids b with [] => flat_map (fun i => renderI (isize i) c refs src i) (bik b) | _ => flat_map (renderB f c refs src (isTightList b)) (bkids b) end).
    set (kids' := match map (phiB src) (bkids b) with
                  | [] => flat_map (fun i => renderI (isize i) c refs' (crlf src) i) (map (phiI src) (bik b))
                  | _ => flat_map (renderB f c refs' (crlf src) (isTightList b)) (map (phiB src) (bkids b)) end).
    assert (Hk : RC kids kids') by (unfold kids, kids'; destruct (bkids b); assumption).
    clearbody kids kids'.
    assert (Hwrap : forall a z, RC (a ++ kids ++ z) (a ++ kids' ++ z)).
    { intros a z. apply RC_app; [apply RC_refl|]. apply RC_app; [exact Hk|apply RC_refl]. }
    destruct (bkind b =? ParagraphKind); [destruct pt; [exact Hk|apply Hwrap]|].
    destruct (bkind b =? ThematicBreakKind); [apply RC_refl|].
    destruct (isHeading (bkind b)); [apply Hwrap|].
    destruct (isCode (bkind b)).
    { apply RC_app; [apply RC_refl|]. apply RC_app; [apply RC_refl|]. apply RC_app; [|apply RC_app; [apply RC_refl|apply RC_app; [exact Hk|apply RC_refl]]].
      destruct (bkind b =? FencedCodeBlockKind); [|constructor].
      destruct (bik b) as [|i0 rest] eqn:Ebik; [constructor|]. cbn [map]. rewrite rp_ikind.
      destruct (ikind i0 =? InfoStringKind); [|constructor].
      assert (Hi0 : shapesI src i0 = true) by (apply Hsi; left; reflexivity).
      destruct (shapesI_parts src i0 Hi0) as (_ & _ & Hk0).
      rewrite (firstField_runes_RC _ _ (textOfChildren_RC src i0 Hk0)). apply RC_refl. }
    destruct (bkind b =? BlockQuoteKind); [apply Hwrap|].
    destruct (bkind b =? ListKind).
    { destruct (isOrdered b); [|apply Hwrap].
      replace (match map (phiB src) (bkids b) with it :: _ => listItemNumber (crlf src) it | [] => -1 end)
        with (match bkids b with it :: _ => listItemNumber src it | [] => -1 end).
      2:{ destruct (bkids b) as [|it r] eqn:Ek; [reflexivity|]. cbn [map]. symmetry. apply listItemNumber_crlf. apply Hsk. left. reflexivity. }
      apply RC_app; [apply RC_refl|]. apply RC_app; [apply RC_refl|]. apply RC_app; [apply RC_refl|]. apply RC_app; [exact Hk|apply RC_refl]. }
    destruct (bkind b =? ListItemKind); [apply Hwrap|].
    destruct (bkind b =? HTMLBlockKind); [destruct (ignoreRaw c); [constructor|exact Hk]|constructor].
  Qed.
End Tree.

(* ---- extractDefs: the reference map with values ---- *)
Section Defs.
  Variable src : bytes.

  Lemma extractDefs_relC : forall fuel b acc acc', shapesB src b = true -> dokB src b = true -> refK b = true -> refsRC acc acc' ->
    refsRC (extractDefs fuel src b acc) (extractDefs fuel (crlf src) (phiB src b) acc').
  Proof.
    induction fuel as [|f IH]; intros b acc acc' Hs Hb Hr Ha; [exact Ha|]. cbn [extractDefs]. rewrite rp_bkind, rp_bik, rp_bkids.
    destruct (shapesB_parts' src b Hs) as (_ & _ & Hsk & Hsi).
    rewrite dokB_eq in Hb. apply andb_true_iff in Hb. destruct Hb as [Hbi Hbk].
    rewrite refK_eq in Hr. apply andb_true_iff in Hr. destruct Hr as [Hr1 Hrk].
    destruct (bkind b =? LinkReferenceDefinitionKind).
    - destruct (bik b) as [|l [|d rest]]; [exact Ha|exact Ha|]. cbn [map]. rewrite rp_iref.
      rewrite (refsRC_keys acc acc' (fun k => Utf8.bytes_eqb k (iref l)) Ha).
      destruct (_ || _); [exact Ha|]. apply refsRC_snoc; [exact Ha|].
      cbn [forallb] in Hbi, Hsi. apply andb_true_iff in Hbi. destruct Hbi as [_ Hbi]. apply andb_true_iff in Hbi. destruct Hbi as [Hd _].
      apply andb_true_iff in Hsi. destruct Hsi as [_ Hsi]. apply andb_true_iff in Hsi. destruct Hsi as [Hsd Hsr].
      apply Z.eqb_eq in Hr1.
      destruct (shapesI_parts src d Hsd) as (_ & _ & Hdk).
      repeat split; cbn [ld_dest ld_title ld_has].
      + apply textOfChildren_dest; [exact Hdk|apply dokI_dest; assumption].
      + destruct rest as [|t rest']; [constructor|]. cbn [map]. cbn [forallb] in Hsr. apply andb_true_iff in Hsr. destruct Hsr as [Hst _].
        destruct (shapesI_parts src t Hst) as (_ & _ & Htk). apply textOfChildren_RC, Htk.
      + destruct rest; reflexivity.
    - rewrite forallb_forall in Hbk, Hrk, Hsk. clear Hr1 Hbi Hsi. revert acc acc' Ha Hbk Hrk Hsk.
      induction (bkids b) as [|x r IHr]; intros acc acc' Ha Hbk Hrk Hsk; [exact Ha|].
      cbn [map fold_left]. apply IHr.
      + apply IH; [apply Hsk; left; reflexivity|apply Hbk; left; reflexivity|apply Hrk; left; reflexivity|exact Ha].
      + intros y Hy. apply Hbk. right. exact Hy.
      + intros y Hy. apply Hrk. right. exact Hy.
      + intros y Hy. apply Hsk. right. exact Hy.
  Qed.
End Defs.

(* ---- joinBlocks ---- *)
Lemma joinBlocks_RC l l' : Forall2 RC l l' -> RC (joinBlocks l) (joinBlocks l').
Proof.
  induction 1 as [|x y l l' Hxy H IH]; [constructor|]. cbn [joinBlocks].
  destruct H as [|x2 y2 l l' Hxy2 H]; [exact Hxy|].
  apply RC_app; [exact Hxy|]. apply RC_app; [apply RC_refl|exact IH].
Qed.
