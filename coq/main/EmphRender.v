(* EmphRender.v -- property C06 on the emphasis slice: for every okEmph line t (EmphSpec.okEmph: first byte a letter, bytes from
   the alphabet of the slice, no doubled space; ANY length) and every configuration c whose tag filter is off,

       renderDoc c (t ++ [LF])  =  <p>  ++  htmlOfNodes t (specNodes t)  ++  </p>                (Theorem C06_emphasis_slice)

   where specNodes t is the node list denoted by the spec's process-emphasis procedure (EmphSpec.v) and htmlOf is the
   denotation of such a node list as HTML, written here independently of Render.v:
       Leaf _ s e        |->  the bytes t[s..e), each byte HTML-escaped (escByte)
       Emp false _ _ ks  |->  <em> kids </em>          Emp true _ _ ks  |->  <strong> kids </strong>

   TWO REMARKS ON THE STATEMENT (found by vm_compute before proving, then confirmed by the proofs):
   (1) no LF after </p>: the model's renderDoc joins the root blocks with blank lines and emits nothing after the last one
       (exactly as in SliceText.C06_escaped_text_any_cfg, whose right-hand side also ends with </p>).  The statement WITH a final
       LF is kept as C06_emphasis_slice_statement_with_LF and is shown to be FALSE for the model (with_LF_false).
   (2) the apostrophe: the library escapes it as the numeric reference &#39; (Go's html escaping convention), while the HTML
       printed in the CommonMark spec leaves ' as it is (only & < > double-quote are escaped there).  Both are the same HTML
       character data.  htmlOf uses the library's convention (escByte); htmlOfCM is the same denotation with the spec's
       convention (escByteCM), and C06_emphasis_slice_CM is the theorem for lines without an apostrophe, where they coincide. *)
From Coq Require Import List ZArith Lia Bool.
Import ListNotations.
Require Import Base Tables Utf8 Tree Rdr Link Collect Html Recog LP Rules Starts Driver Inl3a Inl3b Inl3c Inl3d Inl3e Render
  SliceBase SlicePara SliceText.
Require Import EmphSpec EmphTok EmphSlice.
Open Scope Z_scope.

(* ---------------------------------------------------------------------------------------------- *)
(* the denotation                                                                                  *)
(* ---------------------------------------------------------------------------------------------- *)
Definition s_amp : bytes := [38;97;109;112;59].          (* &amp;  *)
Definition s_lt : bytes := [38;108;116;59].              (* &lt;   *)
Definition s_gt : bytes := [38;103;116;59].              (* &gt;   *)
Definition s_quot : bytes := [38;113;117;111;116;59].    (* &quot; *)
Definition s_apos : bytes := [38;35;51;57;59].           (* &#39;  *)
Definition escByte (c : Z) : bytes :=
  if c =? 34 then s_quot else if c =? 39 then s_apos else if c =? 38 then s_amp else if c =? 60 then s_lt else if c =? 62 then s_gt else [c].
Definition escByteCM (c : Z) : bytes :=
  if c =? 34 then s_quot else if c =? 38 then s_amp else if c =? 60 then s_lt else if c =? 62 then s_gt else [c].
Definition t_em : bytes := [60;101;109;62].                              (* <em>      *)
Definition t_em' : bytes := [60;47;101;109;62].                          (* </em>     *)
Definition t_strong : bytes := [60;115;116;114;111;110;103;62].          (* <strong>  *)
Definition t_strong' : bytes := [60;47;115;116;114;111;110;103;62].      (* </strong> *)
Definition t_p : bytes := [60;112;62].                                   (* <p>       *)
Definition t_p' : bytes := [60;47;112;62].                               (* </p>      *)

Fixpoint htmlOfG (esc1 : Z -> bytes) (t : bytes) (n : enode) : bytes :=
  match n with
  | Leaf _ s e => flat_map esc1 (sub t s e)
  | Emp b _ _ ks => (if b then t_strong else t_em) ++ flat_map (htmlOfG esc1 t) ks ++ (if b then t_strong' else t_em')
  end.
Definition htmlOf := htmlOfG escByte.
Definition htmlOfCM := htmlOfG escByteCM.
Definition htmlOfNodes (t : bytes) (F : list enode) : bytes := flat_map (htmlOf t) F.
Definition htmlOfNodesCM (t : bytes) (F : list enode) : bytes := flat_map (htmlOfCM t) F.

(* ---------------------------------------------------------------------------------------------- *)
(* 1. the library's escaping is escByte                                                            *)
(* ---------------------------------------------------------------------------------------------- *)
Lemma escapeHTML_escByte s : escapeHTML s = flat_map escByte s.
Proof.
  unfold escapeHTML. apply flat_map_ext. intros c. unfold escByte, s_quot, s_apos, s_amp, s_lt, s_gt.
  destruct (Z.eqb_spec c 38) as [->|]; [reflexivity|]. destruct (Z.eqb_spec c 39) as [->|]; [reflexivity|].
  destruct (Z.eqb_spec c 60) as [->|]; [reflexivity|]. destruct (Z.eqb_spec c 62) as [->|]; [reflexivity|].
  destruct (c =? 34); reflexivity.
Qed.

(* ---------------------------------------------------------------------------------------------- *)
(* 2. every text node of the spec's node list lies inside the line                                 *)
(* ---------------------------------------------------------------------------------------------- *)
Fixpoint inB (n : Z) (x : enode) : bool :=
  match x with
  | Leaf _ s e => (0 <=? s) && (e <=? n)
  | Emp _ _ _ ks => forallb (inB n) ks
  end.
Lemma splitTag_app tg : forall F A s e B, splitTag tg F = Some (A, (s, e), B) -> F = A ++ Leaf tg s e :: B.
Proof.
  induction F as [|x F IH]; intros A s e B H; [discriminate|]. cbn [splitTag] in H.
  destruct x as [t s' e'|b s' e' ks].
  - destruct (Nat.eqb_spec t tg) as [->|N].
    + inversion H; subst. reflexivity.
    + destruct (splitTag tg F) as [[[a se] b0]|] eqn:E; [|discriminate]. inversion H; subst. rewrite (IH a s e B eq_refl). reflexivity.
  - destruct (splitTag tg F) as [[[a se] b0]|] eqn:E; [|discriminate]. inversion H; subst. rewrite (IH a s e B eq_refl). reflexivity.
Qed.
Lemma inB_if n (c : bool) x : inB n x = true -> forallb (inB n) (if c then [] else [x]) = true.
Proof. intros H. destruct c; [reflexivity|]. cbn [forallb]. rewrite H. reflexivity. Qed.
Lemma applyEv_inB n F ev : forallb (inB n) F = true -> forallb (inB n) (applyEv F ev) = true.
Proof.
  intros HF. destruct ev as [[o c] strong]. unfold applyEv.
  destruct (splitTag o F) as [[[A [so eo]] R]|] eqn:E1; [|exact HF].
  destruct (splitTag c R) as [[[M [sc ec]] D]|] eqn:E2; [|exact HF].
  apply splitTag_app in E1. apply splitTag_app in E2. subst F R.
  rewrite forallb_app in HF. cbn [forallb] in HF. rewrite forallb_app in HF. cbn [forallb inB] in HF.
  apply andb_true_iff in HF. destruct HF as [HA HF]. apply andb_true_iff in HF. destruct HF as [HO HF].
  apply andb_true_iff in HF. destruct HF as [HM HF]. apply andb_true_iff in HF. destruct HF as [HC HD].
  apply andb_true_iff in HO. destruct HO as [HO1 HO2]. apply andb_true_iff in HC. destruct HC as [HC1 HC2].
  apply Z.leb_le in HO1, HO2, HC1, HC2.
  rewrite !forallb_app. rewrite HA, HD. cbn [forallb inB]. rewrite HM.
  rewrite inB_if, inB_if; [reflexivity| |].
  - cbn [inB]. apply andb_true_iff. split; apply Z.leb_le; destruct strong; lia.
  - cbn [inB]. apply andb_true_iff. split; apply Z.leb_le; destruct strong; lia.
Qed.
Lemma fold_applyEv_inB n : forall evs F, forallb (inB n) F = true -> forallb (inB n) (fold_left applyEv evs F) = true.
Proof. induction evs as [|ev evs IH]; intros F H; [exact H|]. cbn [fold_left]. apply IH. apply applyEv_inB. exact H. Qed.
Lemma leavesOf_inB : forall g idx pos n, 0 <= pos -> pos + len (flat g) <= n -> forallb (inB n) (leavesOf g idx pos) = true.
Proof.
  induction g as [|x g IH]; intros idx pos n H0 H1; [reflexivity|]. cbn [leavesOf forallb inB].
  rewrite flat_cons, sl_len_app in H1. pose proof (sl_len_nonneg (flat g)) as Hg. pose proof (sl_len_nonneg (segBytes x)) as Hx.
  unfold segLen. destruct (Z.leb_spec 0 pos); [|lia]. destruct (Z.leb_spec (pos + len (segBytes x)) n); [|lia]. cbn [andb].
  apply IH; lia.
Qed.
Lemma specNodes_inB t : forallb (inB (len t)) (specNodes t) = true.
Proof. unfold specNodes. apply fold_applyEv_inB. apply leavesOf_inB; [lia|]. rewrite segment_flat. lia. Qed.

(* a span inside t reads the same bytes from t ++ rest *)
Lemma sub_app_in {A} (t rest : list A) s e : 0 <= s -> e <= len t -> sub (t ++ rest) s e = sub t s e.
Proof.
  intros Hs He. unfold sub, upto, from_, len in *.
  destruct (Z.le_gt_cases e s) as [Hle|Hgt]; [replace (Z.to_nat (e - s)) with O by lia; reflexivity|].
  rewrite skipn_app. rewrite firstn_app. rewrite skipn_length.
  replace (Z.to_nat (e - s) - (length t - Z.to_nat s))%nat with O by lia. cbn [firstn]. apply app_nil_r.
Qed.

(* ---------------------------------------------------------------------------------------------- *)
(* 3. the renderer on the forest  map toI nodes                                                    *)
(* ---------------------------------------------------------------------------------------------- *)
Lemma isize_kid x ks : In x ks -> (isize x <= fold_right (fun c a => (isize c + a)%nat) O ks)%nat.
Proof. induction ks as [|y r IH]; [intros []|]. cbn [fold_right]. intros [->|H]; [lia|]. apply IH in H. lia. Qed.

Lemma renderI_toI c refs t rest : filterOn c = false -> forall n, inB (len t) n = true ->
  forall fuel, (isize (toI n) <= fuel)%nat -> renderI fuel c refs (t ++ rest) (toI n) = htmlOf t n.
Proof.
  intros Hc. apply (enode_ind2 (fun n => inB (len t) n = true -> forall fuel, (isize (toI n) <= fuel)%nat ->
                                         renderI fuel c refs (t ++ rest) (toI n) = htmlOf t n)).
  - intros tg s e Hb fuel Hf. destruct fuel as [|f]; [cbn in Hf; lia|]. cbn [toI renderI ikind].
    change ((TextKind =? TextKind) || (TextKind =? UnparsedKind)) with true. cbv iota.
    cbn [inB] in Hb. apply andb_true_iff in Hb. destruct Hb as [H1 H2]. apply Z.leb_le in H1, H2.
    unfold spanOf. cbn [istart iend]. rewrite sub_app_in by assumption. rewrite escapeHTML_escByte. reflexivity.
  - intros b s e ks IH Hb fuel Hf. destruct fuel as [|f]; [cbn in Hf; lia|]. cbn [inB] in Hb.
    assert (Hkids : flat_map (renderI f c refs (t ++ rest)) (map toI ks) = flat_map (htmlOf t) ks).
    { cbn [toI isize] in Hf. apply le_S_n in Hf. clear -IH Hb Hf.
      induction IH as [|x r Hx Hr IHr]; [reflexivity|]. cbn [forallb] in Hb. apply andb_true_iff in Hb. destruct Hb as [Hb1 Hb2].
      cbn [map fold_right] in Hf. cbn [map flat_map]. rewrite (Hx Hb1 f) by lia. rewrite IHr; [reflexivity|exact Hb2|lia]. }
    cbn [toI renderI ikind ikids]. rewrite Hkids.
    unfold htmlOf at 2. cbn [htmlOfG]. fold (htmlOf t).
    destruct b.
    + change ((StrongKind =? TextKind) || (StrongKind =? UnparsedKind)) with false.
      change (StrongKind =? CharacterReferenceKind) with false. change (StrongKind =? RawHTMLKind) with false.
      change (StrongKind =? SoftLineBreakKind) with false. change (StrongKind =? HardLineBreakKind) with false.
      change (StrongKind =? EmphasisKind) with false. change (StrongKind =? StrongKind) with true. cbv iota.
      rewrite (openTag_nf c _ Hc), (closeTag_nf c _ Hc). reflexivity.
    + change ((EmphasisKind =? TextKind) || (EmphasisKind =? UnparsedKind)) with false.
      change (EmphasisKind =? CharacterReferenceKind) with false. change (EmphasisKind =? RawHTMLKind) with false.
      change (EmphasisKind =? SoftLineBreakKind) with false. change (EmphasisKind =? HardLineBreakKind) with false.
      change (EmphasisKind =? EmphasisKind) with true. cbv iota.
      rewrite (openTag_nf c _ Hc), (closeTag_nf c _ Hc). reflexivity.
Qed.

Lemma renderF_toI c refs t rest F : filterOn c = false -> forallb (inB (len t)) F = true ->
  flat_map (fun i => renderI (isize i) c refs (t ++ rest) i) (map toI F) = htmlOfNodes t F.
Proof.
  intros Hc. induction F as [|x r IH]; intros Hb; [reflexivity|]. cbn [forallb] in Hb. apply andb_true_iff in Hb. destruct Hb as [H1 H2].
  cbn [map flat_map htmlOfNodes]. rewrite (renderI_toI c refs t rest Hc x H1 _ (le_n _)). f_equal. apply IH. exact H2.
Qed.

(* ---------------------------------------------------------------------------------------------- *)
(* 4. property C06 on the emphasis slice                                                           *)
(* ---------------------------------------------------------------------------------------------- *)
Theorem C06_emphasis_slice c t : filterOn c = false -> okEmph t = true ->
  renderDoc c (t ++ [10]) = t_p ++ htmlOfNodes t (specNodes t) ++ t_p'.
Proof.
  intros Hc Hok. unfold renderDoc. rewrite (C11_emphasis_slice t Hok).
  set (L := t ++ [10]). set (b' := Blk ParagraphKind 0 (len L) [] (specForest t) 0 0 0 false false).
  cbn [fold_left map oneRoot rb_blk rb_src rb_line rb_start rb_end].
  change (bheight b') with 1%nat. change (extractDefs 1 L b' []) with (@nil (bytes * linkDef)).
  cbn [joinBlocks renderB]. change (bkind b') with ParagraphKind. change (bkids b') with (@nil block). change (bik b') with (specForest t).
  change (ParagraphKind =? ParagraphKind) with true. cbv iota.
  unfold specForest, L. rewrite (renderF_toI c [] t [10] (specNodes t) Hc (specNodes_inB t)).
  rewrite (openTag_nf c _ Hc), (closeTag_nf c _ Hc). reflexivity.
Qed.
Print Assumptions C06_emphasis_slice.

(* ---- the statement with a line feed after </p> does not hold for the model ---- *)
Definition C06_emphasis_slice_statement_with_LF : Prop := forall c t, filterOn c = false -> okEmph t = true ->
  renderDoc c (t ++ [10]) = t_p ++ htmlOfNodes t (specNodes t) ++ t_p' ++ [10].
Theorem with_LF_false : ~ C06_emphasis_slice_statement_with_LF.
Proof. intros H. specialize (H c0 [97] eq_refl eq_refl). vm_compute in H. discriminate H. Qed.

(* ---- the spec's escaping convention (apostrophe not escaped) on lines without an apostrophe ---- *)
Lemma in_sub {A} (l : list A) s e x : In x (sub l s e) -> In x l.
Proof.
  unfold sub, upto, from_. intros H.
  assert (F : forall (m : list A) k, In x (firstn k m) -> In x m).
  { induction m as [|y m IH]; intros k Hk; [destruct k; exact Hk|]. destruct k as [|k]; [destruct Hk|].
    cbn [firstn] in Hk. destruct Hk as [->|Hk]; [left; reflexivity|right; exact (IH k Hk)]. }
  assert (G : forall (m : list A) k, In x (skipn k m) -> In x m).
  { induction m as [|y m IH]; intros k Hk; [destruct k; exact Hk|]. destruct k as [|k]; [exact Hk|]. right. exact (IH k Hk). }
  exact (G _ _ (F _ _ H)).
Qed.
Lemma flat_map_ext_in {A B} (f g : A -> list B) l : (forall x, In x l -> f x = g x) -> flat_map f l = flat_map g l.
Proof.
  induction l as [|x r IH]; intros H; [reflexivity|]. cbn [flat_map]. rewrite (H x (or_introl eq_refl)). f_equal.
  apply IH. intros y Hy. apply H. right. exact Hy.
Qed.
Lemma escByte_CM c : c <> 39 -> escByte c = escByteCM c.
Proof. intros H. unfold escByte, escByteCM. destruct (c =? 34); [reflexivity|]. destruct (Z.eqb_spec c 39); [contradiction|reflexivity]. Qed.
Lemma htmlOf_CM t : (forall x, In x t -> x <> 39) -> forall n, htmlOf t n = htmlOfCM t n.
Proof.
  intros Ht. apply enode_ind2.
  - intros tg s e. unfold htmlOf, htmlOfCM. cbn [htmlOfG]. apply flat_map_ext_in. intros x Hx. apply escByte_CM, Ht. exact (in_sub _ _ _ _ Hx).
  - intros b s e ks IH. unfold htmlOf, htmlOfCM. cbn [htmlOfG]. fold (htmlOf t). fold (htmlOfCM t). f_equal. f_equal.
    apply flat_map_ext_in. intros x Hx. rewrite Forall_forall in IH. apply IH. exact Hx.
Qed.
Theorem C06_emphasis_slice_CM c t : filterOn c = false -> okEmph t = true -> (forall x, In x t -> x <> 39) ->
  renderDoc c (t ++ [10]) = t_p ++ htmlOfNodesCM t (specNodes t) ++ t_p'.
Proof.
  intros Hc Hok Ht. rewrite (C06_emphasis_slice c t Hc Hok). f_equal. f_equal. unfold htmlOfNodes, htmlOfNodesCM.
  apply flat_map_ext. intros n. apply htmlOf_CM. exact Ht.
Qed.
Print Assumptions C06_emphasis_slice_CM.

(* ---- the two proved slices of C06 together: escaped text (SliceText.v) and emphasis ---- *)
Theorem C06_slices c : filterOn c = false ->
  (forall u, wfText u -> renderDoc c (esc u ++ [10]) = t_p ++ escapeHTML u ++ t_p') /\
  (forall t, okEmph t = true -> renderDoc c (t ++ [10]) = t_p ++ htmlOfNodes t (specNodes t) ++ t_p').
Proof.
  intros Hc. split.
  - intros u Hu. apply (C06_escaped_text_any_cfg c u Hc Hu).
  - intros t Ht. apply (C06_emphasis_slice c t Hc Ht).
Qed.
Print Assumptions C06_slices.

(* ---- examples: the line satisfies okEmph, the model renders it to the expected HTML, and that is the denotation ---- *)
Definition exOK (t expected : bytes) : Prop :=
  okEmph t = true /\ renderDoc c0 (t ++ [10]) = expected /\ t_p ++ htmlOfNodes t (specNodes t) ++ t_p' = expected.
(* nested strong inside emphasis:   a #foo ##bar## baz#   ==>   <p>a <em>foo <strong>bar</strong> baz</em></p>     (# stands for the star, '' for the double quote) *)
Example C06_ex1 : exOK [97;32;42;102;111;111;32;42;42;98;97;114;42;42;32;98;97;122;42] [60;112;62;97;32;60;101;109;62;102;111;111;32;60;115;116;114;111;110;103;62;98;97;114;60;47;115;116;114;111;110;103;62;32;98;97;122;60;47;101;109;62;60;47;112;62].
Proof. unfold exOK. repeat split; vm_compute; reflexivity. Qed.
(* underscore: no intraword emphasis:   foo_bar_baz _x_   ==>   <p>foo_bar_baz <em>x</em></p>     (# stands for the star, '' for the double quote) *)
Example C06_ex2 : exOK [102;111;111;95;98;97;114;95;98;97;122;32;95;120;95] [60;112;62;102;111;111;95;98;97;114;95;98;97;122;32;60;101;109;62;120;60;47;101;109;62;60;47;112;62].
Proof. unfold exOK. repeat split; vm_compute; reflexivity. Qed.
(* multiple-of-3 rule:   a #foo##bar#   ==>   <p>a <em>foo##bar</em></p>     (# stands for the star, '' for the double quote) *)
Example C06_ex3 : exOK [97;32;42;102;111;111;42;42;98;97;114;42] [60;112;62;97;32;60;101;109;62;102;111;111;42;42;98;97;114;60;47;101;109;62;60;47;112;62].
Proof. unfold exOK. repeat split; vm_compute; reflexivity. Qed.
(* unmatched delimiters stay text:   a ##foo#   ==>   <p>a #<em>foo</em></p>     (# stands for the star, '' for the double quote) *)
Example C06_ex4 : exOK [97;32;42;42;102;111;111;42] [60;112;62;97;32;42;60;101;109;62;102;111;111;60;47;101;109;62;60;47;112;62].
Proof. unfold exOK. repeat split; vm_compute; reflexivity. Qed.
(* quotes:   a ''#b#'' c'd   ==>   <p>a &quot;<em>b</em>&quot; c&#39;d</p>     (# stands for the star, '' for the double quote) *)
Example C06_ex5 : exOK [97;32;34;42;98;42;34;32;99;39;100] [60;112;62;97;32;38;113;117;111;116;59;60;101;109;62;98;60;47;101;109;62;38;113;117;111;116;59;32;99;38;35;51;57;59;100;60;47;112;62].
Proof. unfold exOK. repeat split; vm_compute; reflexivity. Qed.
Print Assumptions with_LF_false.
