(* EmphSim1.v -- layer (c) of C11, part 1: processEmphasis without the openers_bottom bounds as a step function;
   the two searches of the model on a concrete stack  map conc D  are the two searches of Emph.v on D. *)
From Coq Require Import List ZArith Lia Bool.
Import ListNotations.
Require Import Base Tree Inl3a Inl3d PE PEProof GI0 EmphSpec EmphTok.
Require Emph EmphProof.
Open Scope Z_scope.

(* ---------------------------------------------------------------------------------------------- *)
(* pe_loopX false as the iteration of a step function (the openers_bottom table is dead code there) *)
(* ---------------------------------------------------------------------------------------------- *)
Definition pe_match (st : ist) (oi cp : Z) : ist * Z :=
  let stack := stk st in
  let c := nthD stack cp in
  let o := nthD stack oi in
  let on := nodeOf st (d_node o) in let cn := nodeOf st (d_node c) in
  let strong := (2 <=? plen on) && (2 <=? plen cn) in
  let k := if strong then 2 else 1 in
  let st := updN st (d_node o) (fun n => setSpan n (ps n) (pe n - k)) in
  let st := updN st (d_node c) (fun n => setSpan n (ps n + k) (pe n)) in
  let '(st, _) := wrap st (if strong then StrongKind else EmphasisKind) (d_node o) (Some (d_node c)) in
  let st := setStk st (delStack (stk st) (oi + 1) cp) in
  let cp := oi + 1 in
  let '(st, cp) :=
    if plen (nodeOf st (d_node o)) =? 0 then
      (setStk (removeNode st (d_node o)) (delStack (stk st) oi (oi + 1)), cp - 1)
    else (st, cp) in
  let st :=
    if plen (nodeOf st (d_node c)) =? 0 then
      setStk (removeNode st (d_node c)) (delStack (stk st) cp (cp + 1))
    else st in
  (st, cp).

Definition pe_stepY (sb : Z) (st : ist) (cp : Z) : option (ist * Z) :=
  let stack := stk st in
  let cp := pe_findCloser (S (length stack)) stack cp in
  if cp <? 0 then None else
  let c := nthD stack cp in
  let oi := pe_findOpener (S (length stack)) stack (cp - 1) sb c in
  if sb <=? oi then Some (pe_match st oi cp)
  else if negb (hasFlag c fOpener) then Some (setStk st (delStack (stk st) cp (cp + 1)), cp)
  else Some (st, cp + 1).

Fixpoint pe_loopY (sb : Z) (fuel : nat) (st : ist) (cp : Z) : ist :=
  match fuel with
  | O => st
  | S f => match pe_stepY sb st cp with None => st | Some (st', cp') => pe_loopY sb f st' cp' end
  end.

Lemma pe_loopX_false sb : forall fuel st ob cp, pe_loopX false sb fuel st ob cp = pe_loopY sb fuel st cp.
Proof.
  induction fuel as [|f IH]; intros st ob cp; [reflexivity|].
  cbn [pe_loopX pe_loopY]. unfold pe_stepY. cbv zeta.
  destruct (pe_findCloser _ _ _ <? 0); [reflexivity|].
  destruct (_ <=? _).
  - unfold pe_match. cbv zeta. destruct (wrap _ _ _ _) as [st1 x]. destruct (plen _ =? 0); destruct (plen _ =? 0); apply IH.
  - destruct (negb _); apply IH.
Qed.

(* ---------------------------------------------------------------------------------------------- *)
(* concrete entries                                                                                *)
(* ---------------------------------------------------------------------------------------------- *)
Lemma hasFlag_conc_open d : hasFlag (conc d) fOpener = Emph.dopen d.
Proof. unfold hasFlag, conc. cbn [d_flags]. destruct (Emph.dopen d), (Emph.dclos d); reflexivity. Qed.
Lemma hasFlag_conc_close d : hasFlag (conc d) fCloser = Emph.dclos d.
Proof. unfold hasFlag, conc. cbn [d_flags]. destruct (Emph.dopen d), (Emph.dclos d); reflexivity. Qed.
Lemma typ_conc d : (d_typ (conc d) =? tStar) || (d_typ (conc d) =? tUnder) = true.
Proof. unfold conc. cbn [d_typ]. destruct (Emph.dstar d); reflexivity. Qed.
Lemma typ_eq_conc o c : (d_typ (conc o) =? d_typ (conc c)) = Bool.eqb (Emph.dstar o) (Emph.dstar c).
Proof. unfold conc. cbn [d_typ]. destruct (Emph.dstar o), (Emph.dstar c); reflexivity. Qed.
Lemma mod3_nat a : (Z.of_nat a mod 3 =? 0) = (a mod 3 =? 0)%nat.
Proof.
  change 3 with (Z.of_nat 3). rewrite <- Nat2Z.inj_mod.
  destruct (Nat.eqb_spec (a mod 3) 0) as [E|E]; [rewrite E; reflexivity|]. apply Z.eqb_neq. lia.
Qed.
Lemma isEmphMatch_conc o c : isEmphMatch (conc o) (conc c) = Emph.matches o c.
Proof.
  unfold isEmphMatch, Emph.matches. rewrite typ_conc, typ_eq_conc, !hasFlag_conc_open, !hasFlag_conc_close.
  cbn [andb]. unfold conc at 1 2 3 4. cbn [d_n]. rewrite <- Nat2Z.inj_add. rewrite !mod3_nat. reflexivity.
Qed.

Lemma nthD_map_conc D i : (i < length D)%nat -> nthD (map conc D) (Z.of_nat i) = conc (nth i D Emph.dflt).
Proof.
  intros Hi. unfold nthD. rewrite Nat2Z.id. rewrite (nth_indep _ _ (conc Emph.dflt)) by (rewrite map_length; exact Hi).
  apply map_nth.
Qed.

(* ---------------------------------------------------------------------------------------------- *)
(* the searches                                                                                    *)
(* ---------------------------------------------------------------------------------------------- *)
Definition optZ (o : option nat) : Z := match o with Some n => Z.of_nat n | None => -1 end.

Lemma closer_sim D : forall k cpn fuel, (cpn + k = length D)%nat -> (k < fuel)%nat ->
  pe_findCloser fuel (map conc D) (Z.of_nat cpn) = optZ (Emph.next_closer D cpn k).
Proof.
  induction k as [|k IH]; intros cpn fuel Hk Hf; (destruct fuel as [|f]; [lia|]); cbn [pe_findCloser Emph.next_closer].
  - destruct (Z.leb_spec (len (map conc D)) (Z.of_nat cpn)) as [_|H]; [reflexivity|].
    unfold len in H. rewrite map_length in H. lia.
  - destruct (Z.leb_spec (len (map conc D)) (Z.of_nat cpn)) as [H|_]; [unfold len in H; rewrite map_length in H; lia|].
    rewrite nthD_map_conc by lia. rewrite typ_conc, hasFlag_conc_close. cbn [andb].
    destruct (Emph.dclos (nth cpn D Emph.dflt)); [reflexivity|].
    replace (Z.of_nat cpn + 1) with (Z.of_nat (S cpn)) by lia. apply IH; lia.
Qed.

Lemma opener_sim D c : forall k fuel, (k <= length D)%nat -> (k < fuel)%nat ->
  pe_findOpener fuel (map conc D) (Z.of_nat k - 1) 0 (conc c) = optZ (Emph.find_down D c 0 k).
Proof.
  induction k as [|k IH]; intros fuel Hk Hf; (destruct fuel as [|f]; [lia|]); cbn [pe_findOpener Emph.find_down].
  - reflexivity.
  - replace (Z.of_nat (S k) - 1) with (Z.of_nat k) by lia.
    destruct (Z.leb_spec 0 (Z.of_nat k)); [|lia]. cbn [andb Nat.add].
    rewrite nthD_map_conc by lia. rewrite isEmphMatch_conc.
    destruct (Emph.matches (nth k D Emph.dflt) c); [reflexivity|]. cbn [negb]. apply IH; lia.
Qed.
