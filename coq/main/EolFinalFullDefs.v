From Coq Require Import List ZArith Lia Bool.
Import ListNotations.
Require Import Base Tree Driver Inl3e EolFinalDefs.
Open Scope Z_scope.

(* C14 (i), final newline, whole pipeline: the explicit relation between parseFull s and parseFull (s ++ [10]).
   Only the last root changes, and only when it reaches the end of the input (as for parseBlocks: EolFinalDefs.finRoots).
   Inside that root, with L = len (rb_src r):
   - block ends equal to L move to L + 1 (bump), ListMarker blocks are untouched;
   - code blocks: the synthetic SoftLineBreak [L,L] disappears and the last Text line gains the newline (finCode);
   - HTML blocks: the RawHTML entry of the last line ends at L + 1 (bumpI);
   - every other leaf keeps its inline forest, EXCEPT a paragraph when the source ends in two spaces: the tokeniser then
     skips the trailing run "  ...<LF>" as a whole (parseHardLineBreakSpace, not a hard break in the last span), so the final
     Text node, which ends at L, ends at L + 1 (it contains the line ending). *)
Definition hbTail (src : bytes) : bool := match rev src with 32 :: 32 :: _ => true | _ => false end.
Definition bumpLastText (L : Z) (ik : list inline) : list inline :=
  match rev ik with
  | Inl k s e i r ks :: pre => if (k =? TextKind) && (e =? L) then rev pre ++ [Inl k s (L + 1) i r ks] else ik
  | [] => ik
  end.
Fixpoint finFullB (L : Z) (hb : bool) (b : block) : block :=
  match b with Blk K s e bk ik a n c l lb =>
    if K =? ListMarkerKind then b else
    Blk K s (bump L e) (map (finFullB L hb) bk)
      (if (K =? IndentedCodeBlockKind) || (K =? FencedCodeBlockKind) then finCode L ik
       else if K =? HTMLBlockKind then map (bumpI L) ik
       else if (K =? ParagraphKind) && hb then bumpLastText L ik else ik) a n c l lb end.
Definition finFullRoot (r : rootB) : rootB :=
  {| rb_line := rb_line r; rb_start := rb_start r; rb_end := rb_end r + 1; rb_src := rb_src r ++ [10];
     rb_blk := finFullB (len (rb_src r)) (hbTail (rb_src r)) (rb_blk r) |}.
Definition finFullRoots (n : Z) (l : list rootB) : list rootB :=
  match rev l with [] => [] | r :: pre => if rb_end r =? n then rev pre ++ [finFullRoot r] else l end.

Definition parseFull_final_newline_statement : Prop :=
  forall s, s <> [] -> endsEol s = false -> lastByte s <> 62 ->
    parseFull (s ++ [10]) = (finFullRoots (len s) (fst (parseFull s)), snd (parseFull s)).
