From Coq Require Import List ZArith Lia Bool.
Import ListNotations.
Require Import Base Tables Utf8 Tree Rdr Link Collect Html Recog Inl3a Inl3b Inl3c Inl3d Inl3e Driver Render Props PEProof Safe Leaf3a Leaf3b Leaf3e Leaf3f Leaf3i Leaf3j Leaf3n.
Require Import GI0 GI1 GI2 GI3 GI4 GI5 GI6.
Open Scope Z_scope.

(* ================================================================== *)
(* GI7: the tokeniser (istep / iloop / outer) keeps MI; parseInlines.  *)
(* ================================================================== *)

Lemma at_pos (l : bytes) i : at_ l i <> 0 -> 0 <= i.
Proof. unfold at_. destruct (Z.ltb_spec i 0) as [Hlt|Hge]; [intros Hc; contradiction|lia]. Qed.
Lemma runEnd_ge : forall fuel src e lim c, e <= runEnd fuel src e lim c.
Proof. induction fuel as [|f IH]; intros src e lim c; cbn [runEnd]; [lia|]. destruct (_ && _); [|lia]. specialize (IH src (e + 1) lim c). lia. Qed.
Lemma spanLen_nz s e : 0 <= s -> s < e -> negb (spanLen s e =? 0) = true.
Proof.
  intros Hs He. unfold spanLen. replace (0 <=? s) with true by (symmetry; apply Z.leb_le; lia).
  replace (0 <=? e) with true by (symmetry; apply Z.leb_le; lia). replace (s <=? e) with true by (symmetry; apply Z.leb_le; lia).
  cbn [andb]. apply negb_true_iff. apply Z.eqb_neq. lia.
Qed.

(* ---------------------------------------------------------------- children of a code span *)
Definition csT (n : pn) : Prop := pid n = 0 /\ txk (pkind n) = true /\ pkids n = [].
Lemma cs_addSpan_csT src acc s e : Forall csT acc -> Forall csT (cs_addSpan src acc s e).
Proof.
  intros H. unfold cs_addSpan. cbv zeta.
  repeat match goal with |- context [if ?c then _ else _] => destruct c end;
    repeat (apply Forall_app; split); try assumption; repeat constructor.
Qed.
Lemma csT_setInd n v : csT n -> csT (setInd n v). Proof. destruct n; cbn; tauto. Qed.
Lemma csT_setSpan n s e : csT n -> csT (setSpan n s e). Proof. destruct n; cbn; tauto. Qed.
Lemma Forall_rev_ {A} (P : A -> Prop) l : Forall P l -> Forall P (rev l).
Proof. intros H. rewrite Forall_forall in *. intros x Hx. apply H. apply in_rev. assumption. Qed.

Lemma strip_csT src sl : Forall csT sl -> Forall csT (stripCodeSpanSpace src sl).
Proof.
  intros H. unfold stripCodeSpanSpace.
  destruct (negb (existsb _ sl)); [assumption|].
  destruct sl as [|f r]; [assumption|].
  destruct (rev (f :: r)) as [|lst rr] eqn:Er; [assumption|].
  destruct (negb _ || negb _); [assumption|].
  cbv zeta.
  assert (H1 : Forall csT (if pkind f =? IndentKind
                           then if pind (setInd f (pind f - 1)) =? 0 then r else setInd f (pind f - 1) :: r
                           else if plen (setSpan f (ps f + 1) (pe f)) =? 0 then r else setSpan f (ps f + 1) (pe f) :: r)).
  { inversion H as [|? ? Hf Hr]; subst.
    destruct (pkind f =? IndentKind); [destruct (pind _ =? 0)|destruct (plen _ =? 0)]; try assumption;
      constructor; try assumption; [apply csT_setInd|apply csT_setSpan]; assumption. }
  set (sl1 := if pkind f =? IndentKind then _ else _) in *.
  destruct (rev sl1) as [|l rr'] eqn:Er1; [assumption|].
  assert (H2 : Forall csT (l :: rr')) by (rewrite <- Er1; apply Forall_rev_; assumption).
  inversion H2 as [|? ? Hl Hrr]; subst.
  destruct (pkind l =? IndentKind); match goal with |- context [if ?c then _ else _] => destruct c end;
    try (apply Forall_rev_; assumption);
    apply (Forall_rev_ csT (_ :: rr')); constructor; try assumption; [apply csT_setInd|apply csT_setSpan]; assumption.
Qed.
Lemma csT_leaf l : Forall csT l -> leafKids CodeSpanKind l = true /\ forallb zid l = true.
Proof.
  intros H. unfold leafKids. cbn [Z.eqb]. rewrite Forall_forall in H. split; apply forallb_forall; intros x Hx; destruct (H x Hx) as (H1 & H2 & H3).
  - exact H2.
  - rewrite zid_eq, H1, H3. reflexivity.
Qed.

Lemma eok_gok src u : eok u = true -> gok 1 src (ofInline u) = true.
Proof.
  unfold eok. intros H. apply andb_true_iff in H. destruct H as [Hk Hn]. apply nilb_true in Hn.
  destruct u as [k s e ind r ks]. cbn [ikind ikids] in *. subst ks. cbn [ofInline map gok forallb].
  repeat (apply orb_true_iff in Hk; destruct Hk as [Hk|Hk]); apply Z.eqb_eq in Hk; subst k; reflexivity.
Qed.

Section Tok.
  Variable tw : bool.
  Variable src : bytes.
  Variable U : list inline.
  Hypothesis HU : forallb eok U = true.
  Hypothesis HTD : tw = true \/ titleNeedsDestFor src U.
  Notation MI := (MI tw U).
  Notation IS := (InvS src U).
  Lemma HUg : Forall (fun u => gok 1 src (ofInline u) = true) U.
  Proof. apply Forall_forall. intros u Hu. apply eok_gok. rewrite forallb_forall in HU. apply HU, Hu. Qed.

  Lemma MI_collectCodeSpan st a b c d : MI st -> MI (collectCodeSpan st a b c d).
  Proof.
    intros H. unfold collectCodeSpan. cbv zeta.
    destruct (nodeIndexForPosition (unpFrom st) d =? 0).
    - match goal with |- context [stripCodeSpanSpace ?s ?k] => destruct (csT_leaf (stripCodeSpanSpace s k)) as [L1 L2] end.
      { apply strip_csT, cs_addSpan_csT. constructor. }
      apply MI_addLeaf; [exact H|reflexivity|reflexivity|reflexivity|exact L1|exact L2].
    - match goal with |- context [?F (Z.to_nat _) (cs_addSpan (isrc st) [] ?x ?y) (upos st)] =>
        assert (HM : forall k acc up, Forall csT acc -> Forall csT (fst (F k acc up))) end.
      { induction k as [|k IHk]; intros acc up Ha; [exact Ha|]. cbn [fst]. apply IHk.
        destruct (ikind _ =? UnparsedKind); [apply cs_addSpan_csT|]; assumption. }
      match goal with |- context [?F (Z.to_nat ?n) (cs_addSpan (isrc st) [] ?x ?y) (upos st)] =>
        specialize (HM (Z.to_nat n) (cs_addSpan (isrc st) [] x y) (upos st) (cs_addSpan_csT _ _ _ _ (Forall_nil _)));
        destruct (F (Z.to_nat n) (cs_addSpan (isrc st) [] x y) (upos st)) as [acc up] end.
      cbn [fst] in HM.
      match goal with |- context [stripCodeSpanSpace ?s ?k] => destruct (csT_leaf (stripCodeSpanSpace s k)) as [L1 L2] end.
      { apply strip_csT, cs_addSpan_csT. exact HM. }
      apply MI_addLeaf; [apply MI_setUpos; exact H|reflexivity|reflexivity|reflexivity|exact L1|exact L2].
  Qed.

  Lemma MI_parseDelimiterRun st pos : MI st -> at_ (isrc st) pos <> 0 -> MI (fst (parseDelimiterRun st pos)).
  Proof.
    intros H Hc. unfold parseDelimiterRun. cbv zeta.
    match goal with |- context [addNode st TextKind pos ?e []] =>
      match goal with |- context [{| d_typ := ?t; d_flags := ?f; d_n := ?n; d_node := _ |}] =>
        pose proof (MI_push tw U st pos e t f n H) as HP end end.
    match type of HP with ?A -> _ => assert (HA : A) end.
    { apply spanLen_nz; [apply (at_pos _ _ Hc)|]. pose proof (runEnd_ge (length (isrc st)) (isrc st) (pos + 1) (spanEnd st) (at_ (isrc st) pos)). lia. }
    specialize (HP HA). destruct (addNode st TextKind pos _ []) as [st1 id]. cbn [fst]. exact HP.
  Qed.

  Lemma MI_parseBackslash st pos : MI st -> MI (fst (parseBackslash st pos)).
  Proof.
    intros H. unfold parseBackslash. cbv zeta.
    destruct (_ || _ || _).
    - destruct (isLastSpan st); cbn [fst]; [apply MI_addText; assumption|].
      apply MI_addLeaf; [apply MI_setIgn; assumption|reflexivity..].
    - destruct (isASCIIPunctuation _); cbn [fst]; apply MI_addText; assumption.
  Qed.

  Lemma MI_istep st pos pl : MI st -> IS st -> MI (fst (fst (istep st pos pl))).
  Proof.
    intros H HS. unfold istep. cbv zeta.
    assert (HT : MI (addText st pl pos)) by (apply MI_addText; assumption).
    assert (Esrc : isrc (addText st pl pos) = isrc st) by (unfold addText, addNode; destruct (spanLen _ _ =? 0); reflexivity).
    destruct ((at_ (isrc st) pos =? 42) || (at_ (isrc st) pos =? 95)) eqn:E1.
    { assert (Hc : at_ (isrc (addText st pl pos)) pos <> 0).
      { rewrite Esrc. apply orb_true_iff in E1. destruct E1 as [E|E]; apply Z.eqb_eq in E; rewrite E; discriminate. }
      pose proof (MI_parseDelimiterRun _ pos HT Hc) as H2. destruct (parseDelimiterRun _ pos) as [st2 e]. exact H2. }
    destruct (at_ (isrc st) pos =? 91) eqn:E2.
    { apply Z.eqb_eq in E2.
      pose proof (MI_push tw U (addText st pl pos) pos (pos + 1) tLink fActive 0 HT) as HP.
      match type of HP with ?A -> _ => assert (HA : A) end.
      { apply spanLen_nz; [apply (at_pos (isrc st)); rewrite E2; discriminate|lia]. }
      specialize (HP HA). destruct (addNode (addText st pl pos) TextKind pos (pos + 1) []) as [st1 id]. cbn [fst]. exact HP. }
    destruct (at_ (isrc st) pos =? 93).
    { pose proof (parseEndBracket_MI tw src U HU HTD _ pos HT) as H2. rewrite Esrc in H2. specialize (H2 (proj1 HS)).
      destruct (parseEndBracket _ pos) as [st2 e]. exact H2. }
    destruct (at_ (isrc st) pos =? 33) eqn:E4.
    { destruct ((spanEnd st <=? pos + 1) || negb (at_ (isrc st) (pos + 1) =? 91)); [exact H|]. apply Z.eqb_eq in E4.
      pose proof (MI_push tw U (addText st pl pos) pos (pos + 2) tImage fActive 0 HT) as HP.
      match type of HP with ?A -> _ => assert (HA : A) end.
      { apply spanLen_nz; [apply (at_pos (isrc st)); rewrite E4; discriminate|lia]. }
      specialize (HP HA). destruct (addNode (addText st pl pos) TextKind pos (pos + 2) []) as [st1 id]. cbn [fst]. exact HP. }
    destruct (_ =? 32).
    { destruct (parseHardLineBreakSpace _) as [e ok]. destruct (ok && _); [|exact H].
      cbn [fst]. apply MI_setIgn. apply MI_addLeaf; [assumption|reflexivity..]. }
    destruct (_ =? 96).
    { destruct (parseCodeSpan _ st pos) as [[cS cE] sE]. destruct (0 <=? sE); [|exact H].
      cbn [fst]. apply MI_collectCodeSpan. assumption. }
    destruct (_ =? 60).
    { destruct (0 <=? parseAutolink _).
      - cbn [fst]. apply MI_addLeaf; [assumption|reflexivity..].
      - destruct (parseHTMLTag _ _) as [ts te]. destruct (negb _); [exact H|]. cbn [fst].
        apply MI_advanceTo.
        assert (HT' : MI (addText st pl ts)) by (apply MI_addText; assumption).
        apply MI_addLeaf; [assumption|reflexivity|reflexivity|reflexivity| |apply zidF_kidsOf].
        unfold leafKids. cbn [Z.eqb isLinkPart orb].
        apply (collected_ok U HU (addText st pl ts)); [apply HT'|right; reflexivity]. }
    destruct (_ =? 92).
    { pose proof (MI_parseBackslash _ pos HT) as H2. destruct (parseBackslash _ pos) as [st2 e]. exact H2. }
    destruct (_ =? 38).
    { destruct (_ <? 0); [exact H|]. cbn [fst]. apply MI_addLeaf; [assumption|reflexivity..]. }
    destruct (_ =? 10).
    { cbn [fst]. destruct (negb _); [|assumption]. apply MI_addLeaf; [assumption|reflexivity..]. }
    destruct (_ =? 13).
    { cbn [fst]. destruct (negb _); [|assumption]. apply MI_addLeaf; [assumption|reflexivity..]. }
    exact H.
  Qed.

  Lemma MI_iloop : forall fuel st pos pl, MI st -> IS st -> MI (fst (iloop fuel st pos pl)).
  Proof.
    induction fuel as [|f IH]; intros st pos pl H HS; [exact H|]. cbn [iloop].
    destruct (_ && _); [|exact H].
    pose proof (MI_istep st pos pl H HS) as H2. pose proof (S_istep src U HUg st pos pl HS) as H3.
    destruct (istep st pos pl) as [[st2 pos2] pl2]. cbn [fst] in H2, H3.
    apply IH; assumption.
  Qed.

  Lemma nthU_eok st : MI st -> eok (nth (Z.to_nat (upos st)) (unp st) (mkI 0 0 0)) = true \/
                               nth (Z.to_nat (upos st)) (unp st) (mkI 0 0 0) = mkI 0 0 0.
  Proof.
    intros [E _ _ _ _ _ _ _ _ _]. rewrite E.
    destruct (nth_in_or_default (Z.to_nat (upos st)) U (mkI 0 0 0)) as [Hin|Hd]; [left|right; exact Hd].
    rewrite forallb_forall in HU. apply HU, Hin.
  Qed.

  Lemma MI_outer : forall fuel st, MI st -> IS st -> MI (outer fuel st).
  Proof.
    induction fuel as [|f IH]; intros st H HS; [exact H|]. cbn [outer].
    destruct (len (unp st) <=? upos st); [exact H|].
    pose proof (nthU_eok st H) as Hu. pose proof (nthU_ok src U HUg st HS) as Hg.
    set (u := nth (Z.to_nat (upos st)) (unp st) (mkI 0 0 0)) in *.
    destruct (ikind u =? 0) eqn:E0.
    { apply IH; [apply MI_setUpos, MI_setIgn; assumption|apply S_setUpos, S_setIgn; assumption]. }
    destruct Hu as [Hu|Hu]; [|rewrite Hu in E0; discriminate].
    unfold eok in Hu. apply andb_true_iff in Hu. destruct Hu as [Hk Hn]. apply nilb_true in Hn.
    destruct (ikind u =? IndentKind) eqn:Ei.
    { destruct (negb (ign st)).
      - apply IH; [apply MI_setUpos, MI_pushU; [assumption|right; apply Z.eqb_eq; exact Ei|exact Hn]|apply S_setUpos, S_pushU; assumption].
      - apply IH; [apply MI_setUpos; assumption|apply S_setUpos; assumption]. }
    destruct (ikind u =? UnparsedKind) eqn:Eu.
    { match goal with |- context [iloop ?a ?b ?c ?d] =>
        pose proof (MI_iloop a b c d (MI_setIgn tw U st false H) (S_setIgn src U st false HS)) as H2;
        pose proof (S_iloop src U HUg a b c d (S_setIgn src U st false HS)) as H3; destruct (iloop a b c d) as [st2 pl2] end.
      cbn [fst] in H2, H3. apply IH; [apply MI_setUpos, MI_addText; assumption|apply S_setUpos, S_addText; assumption]. }
    apply IH.
    - apply MI_setUpos. apply (MI_pushU tw U (setIgn st false)); [apply MI_setIgn; assumption| |exact Hn].
      cbn [orb] in Hk. rewrite orb_false_r in Hk. left. apply Z.eqb_eq. exact Hk.
    - apply S_setUpos. change (rk st) with (rk (setIgn st false)). apply S_pushU; [apply S_setIgn; assumption|exact Hg].
  Qed.

  (* the forest that parseInlines returns *)
  Theorem parseInlines_forest m container : bik container = U ->
    exists l, parseInlines src m container = map toInline l /\ forallb phr l = true /\ forallb (gk tw) l = true.
  Proof.
    intros EU. unfold parseInlines.
    set (st0 := {| rk := []; isrc := src; unp := bik container; upos := 0; stk := []; ign := false; nid := 1;
                   rootEnd := bend container; matcher := m |}).
    assert (H0 : MI st0).
    { constructor; cbn; try reflexivity; try exact EU; try lia; try (intros ? []); try constructor. }
    assert (HS0 : IS st0) by (split; [reflexivity|split; [exact EU|split; [cbn; lia|reflexivity]]]).
    pose proof (MI_outer (S (length (bik container))) st0 H0 HS0) as H1.
    set (st1 := outer (S (length (bik container))) st0) in *.
    pose proof (MI_PEI tw U st1 H1) as HP.
    destruct (processEmphasis_PEI tw [] (stk st1) st1 eq_refl HP) as (_ & [_ _ _ _ _ (_ & _ & B3 & B4)] & _).
    change (len []) with 0 in *.
    exists (rk (processEmphasis st1 0)). split; [reflexivity|]. split; [exact B3|exact B4].
  Qed.
End Tok.
