(* ChkCollect.v -- T30: what collectTextNodes produces, with the positions of the pieces:
   a text piece made when escapes are off (raw HTML, link labels) starts at a non-negative offset and ends either where
   a non-last, non-Indent span of the reader ends (a "separator" byte by hypothesis) or at the requested end;
   a character reference has no '<';  Indent spans are copied from the reader. *)
From Coq Require Import List ZArith Lia Bool.
Import ListNotations.
Require Import Base Tables Utf8 Tree Rdr Link Collect ShapesBase ShapesR Leaf3d Safe C17bytes ChkA.
Open Scope Z_scope.

Fixpoint sepEndsb (src : bytes) (l : list inline) : bool :=
  match l with
  | [] => true
  | [u] => true
  | u :: r => ((ikind u =? IndentKind) || (iend u <=? istart u) || sepByte (at_ src (iend u - 1))) && sepEndsb src r
  end.
Lemma sepEndsb_tail src u r : sepEndsb src (u :: r) = true -> sepEndsb src r = true.
Proof. destruct r as [|v r]; [reflexivity|]. cbn [sepEndsb]. intros H. apply andb_true_iff in H. tauto. Qed.
Lemma sepEndsb_app_r src : forall pre l, sepEndsb src (pre ++ l) = true -> sepEndsb src l = true.
Proof. induction pre as [|x pre IH]; intros l H; [exact H|]. apply IH. apply (sepEndsb_tail src x). exact H. Qed.
Lemma sepEndsb_from src l a : sepEndsb src l = true -> sepEndsb src (from_ l a) = true.
Proof. intros H. unfold from_. rewrite <- (firstn_skipn (Z.to_nat a) l) in H. apply sepEndsb_app_r in H. exact H. Qed.
Lemma sepEndsb_head src u r : sepEndsb src (u :: r) = true -> r <> [] -> ikind u <> IndentKind -> istart u < iend u ->
  sepByte (at_ src (iend u - 1)) = true.
Proof.
  destruct r as [|v r]; [congruence|]. cbn [sepEndsb]. intros H _ Hk Hl. apply andb_true_iff in H. destruct H as [H _].
  apply orb_true_iff in H. destruct H as [H|H]; [|exact H]. apply orb_true_iff in H. destruct H as [H|H].
  - apply Z.eqb_eq in H. contradiction.
  - apply Z.leb_le in H. lia.
Qed.

Section C.
  Variable src : bytes.
  Variable Q : inline -> Prop.
  Hypothesis HQ0 : forall u, Q u -> 0 <= istart u.
  Variable w : bool.   (* position facts wanted (the start position of the reader is then required to be non-negative) *)

  Definition okEnd (e : Z) : Prop := sepByte (at_ src (e - 1)) = true.
  Definition RK (r : reader) : Prop :=
    r_src r = src /\ sepEndsb src (r_spans r) = true /\ Forall Q (r_spans r) /\ (w = true -> 0 <= r_pos r).

  Lemma Forall_app_r {A} (P : A -> Prop) a b : Forall P (a ++ b) -> Forall P b.
  Proof. intros H. apply Forall_app in H. tauto. Qed.

  Lemma RK_curNode r : RK r -> RK (snd (curNode r)).
  Proof.
    intros (A & B & C & D). destruct (curNode_cases r) as [E|(pre & n & rest & E1 & E & E3)]; rewrite E; cbn [snd]; repeat split; cbn; try assumption.
    - constructor.
    - rewrite E1 in B. apply sepEndsb_app_r in B. exact B.
    - rewrite E1 in C. apply Forall_app_r in C. exact C.
  Qed.
  Lemma RK_current r : RK r -> RK (snd (current r)).
  Proof. intros H. destruct (current_snd r) as [E|E]; rewrite E; [exact H|apply RK_curNode, H]. Qed.
  Lemma RK_remaining r : RK r -> RK (snd (remainingNodeBytes r)).
  Proof. intros H. unfold remainingNodeBytes. pose proof (RK_curNode r H) as H1. destruct (curNode r) as [[n|] r']; exact H1. Qed.
  Lemma RK_next r : RK r -> RK (snd (next r)).
  Proof.
    intros (A & B & C & D). destruct (next r) as [ok r1] eqn:E. cbn [snd]. destruct ok.
    - destruct (next_true r r1 E) as (node & rest & Ec & Hh & (pre & Epre) & Es & Ep & Hcase).
      rewrite Epre in B, C. apply sepEndsb_app_r in B. apply Forall_app_r in C. split; [congruence|].
      destruct Hcase as [(_ & Epos & Esp)|[(_ & Epos & _ & Esp)|(pre' & j & rest' & Er & Esp & Epos & _)]]; rewrite Esp.
      + repeat split; try assumption. intros Hw. specialize (D Hw). lia.
      + repeat split; try assumption. intros Hw. specialize (D Hw). lia.
      + apply sepEndsb_tail in B. rewrite Er in B. apply sepEndsb_app_r in B.
        apply Forall_inv_tail in C. rewrite Er in C. apply Forall_app_r in C.
        repeat split; try assumption. intros _. rewrite Epos. apply HQ0. apply (Forall_inv C).
    - destruct (next_false r r1 E) as (S2 & S1 & S3). split; [congruence|]. rewrite S2. repeat split; [constructor|].
      destruct (curNode_cases r) as [E'|(pre & n & rest & E1 & E' & E3)].
      + unfold next in E. rewrite E' in E. inversion E; subst r1. cbn. exact D.
      + destruct (S3 n ltac:(rewrite E'; reflexivity)) as (_ & P & _). intros Hw. specialize (D Hw). lia.
  Qed.
  Lemma RK_nextN : forall n r, RK r -> RK (nextN n r).
  Proof. induction n as [|n IH]; intros r H; [exact H|]. cbn [nextN]. apply IH, RK_next, H. Qed.
  Lemma RK_skipSameNode : forall fuel r node, RK r -> RK (skipSameNode fuel r node).
  Proof.
    induction fuel as [|f IH]; intros r node H; [exact H|]. cbn [skipSameNode].
    pose proof (RK_next r H) as Hn. destruct (next r) as [ok r1]. cbn [snd] in Hn. destruct (negb ok); [exact Hn|].
    pose proof (RK_curNode r1 Hn) as Hc. destruct (curNode r1) as [[m|] r2]; cbn [snd] in Hc; [|exact Hc].
    destruct (_ && _ && _); [apply IH; exact Hc|exact Hc].
  Qed.

  (* ---- the produced nodes ---- *)
  Definition outOK (tk : Z) (esc : bool) (E : Z) (i : inline) : Prop :=
    (exists s e, i = mkI tk s e /\ (w = true -> 0 <= s /\ (e <= s \/ okEnd e \/ e = E)))
    \/ (exists s en, i = mkI CharacterReferenceKind s (s + en) /\ nolt (sub src s (s + en)) = true)
    \/ (Q i /\ ikind i = IndentKind).

  (* the state of the loop when escapes are off *)
  Definition KS (r : reader) (ps : Z) : Prop :=
    0 <= ps /\ (r_pos r <= ps \/ okind (fst (curNode r)) <> IndentKind \/ okEnd (r_prev r + 1)).

  Lemma curNode_pos r : r_pos (snd (curNode r)) = r_pos r /\ r_prev (snd (curNode r)) = r_prev r.
  Proof. destruct (curNode_fields r) as (_ & A & _ & B). cbv zeta in *. tauto. Qed.

  Lemma upto_upto (l : bytes) m n : n <= len (upto l m) -> upto (upto l m) n = upto l n.
  Proof.
    unfold upto, len. intros H. rewrite firstn_firstn. f_equal. rewrite firstn_length in H. lia.
  Qed.

  Lemma tail_step r0 node r1 ps : RK r0 -> fst (curNode r0) = Some node -> ikind node <> IndentKind ->
    next r0 = (true, r1) -> 0 <= ps ->
    (jumped r1 = true -> okEnd (r_prev r1 + 1)) /\ (jumped r1 = false -> KS r1 ps).
  Proof.
    intros (A & B & C & D) Hcn Hk En Hps.
    destruct (next_true r0 r1 En) as (nd & rest & Ec & Hh & (pre & Epre) & Es & Ep & Hcase).
    rewrite Ec in Hcn. cbn [fst] in Hcn. inversion Hcn; subst nd. clear Hcn.
    pose proof (spanHas_range _ _ Hh) as (R1 & R2 & R3).
    rewrite Epre in B. apply sepEndsb_app_r in B.
    destruct Hcase as [(Ek & _)|[(_ & Epos & Elt & Esp)|(pre' & j & rest' & Er & Esp & Epos & Ecase)]]; [contradiction| |].
    - split.
      + unfold jumped. rewrite Ep, Epos. intros Hj. apply andb_true_iff in Hj. destruct Hj as [_ Hj]. apply Z.ltb_lt in Hj. lia.
      + intros _. split; [exact Hps|]. right. left.
        rewrite (curNode_head node rest r1 Esp) by (rewrite Epos; apply spanHas_intro; lia). cbn [fst okind].
        intros Ek. apply Hk. exact Ek.
    - assert (Hend : okEnd (r_prev r1 + 1)).
      { destruct Ecase as [Ek|Ee]; [contradiction|]. unfold okEnd. rewrite Ep.
        replace (r_pos r0 + 1 - 1) with (iend node - 1) by lia.
        apply (sepEndsb_head src node rest B); [rewrite Er; destruct pre'; discriminate|exact Hk|lia]. }
      split; [intros _; exact Hend|]. intros _. split; [exact Hps|]. right. right. exact Hend.
  Qed.

  Lemma collect_ok tk esc E : forall fuel r e ps acc,
    (w = true -> esc = false) ->
    RK r -> (w = true -> KS r ps) -> Forall (outOK tk esc E) acc ->
    Forall (outOK tk esc E) (fst (collect_loop fuel r e tk esc ps acc)) /\
    (w = true -> 0 <= snd (collect_loop fuel r e tk esc ps acc)).
  Proof.
    induction fuel as [|f IH]; intros r e ps acc Hwe HR HK Hacc; [split; [exact Hacc|intros He; apply (HK He)]|].
    cbn [collect_loop]. destruct (e <=? r_pos r); [split; [exact Hacc|intros He; apply (HK He)]|].
    pose proof (RK_curNode r HR) as HR0. pose proof (curNode_idem r) as Hidem. destruct (curNode_pos r) as [Hp0 Hv0].
    destruct (curNode r) as [cn r0] eqn:Ecn. cbn [fst snd] in *.
    assert (Hpiece : forall (c : bool) l a b, Forall (outOK tk esc E) l ->
              (c = true -> w = true -> 0 <= a /\ (b <= a \/ okEnd b \/ b = E)) ->
              Forall (outOK tk esc E) (if c then l ++ [mkI tk a b] else l)).
    { intros c l a b Hl Hc. destruct c; [|exact Hl]. apply Forall_app. split; [exact Hl|]. constructor; [|constructor].
      left. exists a, b. split; [reflexivity|]. apply Hc. reflexivity. }
    destruct (okind cn =? IndentKind) eqn:Ek.
    - destruct cn as [node|]; [|cbn in Ek; discriminate]. cbn [okind] in Ek. apply Z.eqb_eq in Ek.
      assert (Hin : Q node).
      { destruct HR0 as (_ & _ & C & _). destruct (curNode_cases r) as [E'|(pre & n & rest & E1 & E' & E3)]; rewrite E' in Ecn; inversion Ecn; subst.
        cbn in C. inversion C; assumption. }
      apply IH.
      + exact Hwe.
      + apply RK_skipSameNode. exact HR0.
      + intros Hw. split; [apply (RK_skipSameNode (S f) r0 node HR0), Hw|left; lia].
      + apply Forall_app. split; [|constructor; [right; right; split; assumption|constructor]].
        apply Hpiece; [exact Hacc|]. intros Hc He. apply Z.ltb_lt in Hc. destruct (HK He) as (K0 & K1). split; [exact K0|].
        right. left. rewrite Hp0 in Hc. rewrite Hv0.
        destruct K1 as [K1|[K1|K1]]; [lia| |exact K1]. exfalso. apply K1. rewrite Ecn. cbn [fst okind]. exact Ek.
    - apply Z.eqb_neq in Ek.
      assert (Htail : forall r' ps' acc', RK r' -> Forall (outOK tk esc E) acc' ->
                (w = true -> 0 <= ps' /\ exists node, fst (curNode r') = Some node /\ ikind node <> IndentKind) ->
                let res := (if e <=? r_pos r' then (acc', ps') else let '(ok, r1) := next r' in
                   if negb ok then (acc', ps') else
                   if jumped r1 then
                     collect_loop f r1 e tk esc (r_pos r1) (if ps' <=? r_prev r1 then acc' ++ [mkI tk ps' (r_prev r1 + 1)] else acc')
                   else collect_loop f r1 e tk esc ps' acc') in
                Forall (outOK tk esc E) (fst res) /\ (w = true -> 0 <= snd res)).
      { intros r' ps' acc' HR' Hacc' Hn'. cbv zeta. destruct (e <=? r_pos r'); [split; [exact Hacc'|intros He; apply (Hn' He)]|].
        pose proof (RK_next r' HR') as Hn. destruct (next r') as [ok r1] eqn:En. cbn [snd] in Hn.
        destruct ok; cbn [negb]; [|split; [exact Hacc'|intros He; apply (Hn' He)]].
        destruct (jumped r1) eqn:Ej.
        - apply IH; [exact Hwe|exact Hn|intros Hw; split; [apply Hn, Hw|left; lia]|].
          apply Hpiece; [exact Hacc'|]. intros Hc He. destruct (Hn' He) as (P0 & node & N1 & N2).
          destruct (tail_step r' node r1 ps' HR' N1 N2 En P0) as [T1 _]. split; [exact P0|]. right. left. apply T1, Ej.
        - apply IH; [exact Hwe|exact Hn| |exact Hacc']. intros He. destruct (Hn' He) as (P0 & node & N1 & N2).
          destruct (tail_step r' node r1 ps' HR' N1 N2 En P0) as [_ T2]. apply T2, Ej. }
      assert (Htail0 : let res := (if e <=? r_pos r0 then (acc, ps) else let '(ok, r1) := next r0 in
                   if negb ok then (acc, ps) else
                   if jumped r1 then
                     collect_loop f r1 e tk esc (r_pos r1) (if ps <=? r_prev r1 then acc ++ [mkI tk ps (r_prev r1 + 1)] else acc)
                   else collect_loop f r1 e tk esc ps acc) in
                Forall (outOK tk esc E) (fst res) /\ (w = true -> 0 <= snd res)).
      { destruct cn as [node|].
        - apply Htail; [exact HR0|exact Hacc|]. intros He. split; [apply (HK He)|]. exists node. rewrite Hidem. split; [reflexivity|exact Ek].
        - cbv zeta. destruct (e <=? r_pos r0); [split; [exact Hacc|intros He; apply (HK He)]|].
          unfold next. rewrite Hidem. cbn [negb]. split; [exact Hacc|intros He; apply (HK He)]. }
      destruct esc eqn:Eesc; cbn [andb]; [|exact Htail0].
      destruct (okind cn =? UnparsedKind); [|exact Htail0].
      assert (Hwf : w = false) by (destruct w; [specialize (Hwe eq_refl); discriminate|reflexivity]).
      assert (Hno : forall P : Prop, w = true -> P) by (intros P Hw; rewrite Hwf in Hw; discriminate).
      pose (noW := fun (P : Prop) => Hno P).
      pose proof (RK_current r0 HR0) as HR1. destruct (current r0) as [c r1]. cbn [snd] in HR1.
      destruct (c =? 92).
      { pose proof (RK_next r1 HR1) as HR2. destruct (next r1) as [ok r2]. cbn [snd] in HR2.
        destruct (ok && _ && _); (apply Htail; [assumption| |apply Hno]); try assumption.
        apply Hpiece; [exact Hacc|intros _; apply Hno]. }
      destruct (c =? 38); [|apply Htail; [assumption|assumption|apply Hno]].
      pose proof (RK_remaining r1 HR1) as HR2.
      assert (Hrem : forall en, parseCharacterEscape (fst (remainingNodeBytes r1)) = en -> 0 <= en ->
                 nolt (sub src (r_pos (snd (remainingNodeBytes r1))) (r_pos (snd (remainingNodeBytes r1)) + en)) = true).
      { intros en Hen H0. destruct (pce_inert _ _ Hen H0) as (Hle & Hin). apply inertb_nolt in Hin.
        unfold remainingNodeBytes in *. destruct (curNode_pos r1) as [P1 _].
        destruct (curNode r1) as [[nd|] r2']; cbn [fst snd] in *.
        - rewrite P1. destruct HR1 as (S1 & _). rewrite S1 in Hin, Hle. unfold sub in Hin, Hle. rewrite upto_upto in Hin by exact Hle.
          unfold sub. replace (r_pos r1 + en - r_pos r1) with en by lia. exact Hin.
        - cbn in Hle. unfold parseCharacterEscape in Hen. cbn in Hen. lia. }
      destruct (remainingNodeBytes r1) as [rem r2]. cbn [fst snd] in HR2, Hrem.
      destruct (Z.leb_spec 0 (parseCharacterEscape rem)) as [Hen|Hen]; [|apply Htail; [assumption|assumption|apply Hno]].
      assert (Hacc2 : Forall (outOK tk true E)
                ((if ps <? r_pos r2 then acc ++ [mkI tk ps (r_pos r2)] else acc) ++
                 [mkI CharacterReferenceKind (r_pos r2) (r_pos r2 + parseCharacterEscape rem)])).
      { apply Forall_app. split; [apply Hpiece; [exact Hacc|intros _; apply Hno]|]. constructor; [|constructor].
        right. left. exists (r_pos r2), (parseCharacterEscape rem). split; [reflexivity|]. apply Hrem; [reflexivity|exact Hen]. }
      pose proof (RK_nextN (Z.to_nat (parseCharacterEscape rem - 1)) r2 HR2) as HR3.
      pose proof (RK_next _ HR3) as HR4. destruct (next (nextN (Z.to_nat (parseCharacterEscape rem - 1)) r2)) as [ok r4]. cbn [snd] in HR4.
      destruct (negb ok); [split; [exact Hacc2|apply Hno]|].
      apply IH; [exact Hwe|exact HR4|apply Hno|exact Hacc2].
  Qed.

  Theorem collectTextNodes_ok tk esc fuel r e : (w = true -> esc = false) -> RK r ->
    Forall (outOK tk esc e) (collectTextNodes fuel r e tk esc).
  Proof.
    intros Hwe HR. unfold collectTextNodes.
    destruct (collect_ok tk esc e fuel r e (r_pos r) [] Hwe HR) as [H1 H2].
    - intros Hw. split; [apply HR, Hw|left; lia].
    - constructor.
    - destruct (collect_loop fuel r e tk esc (r_pos r) []) as [acc ps]. cbn [fst snd] in *.
      destruct (ps <? e); [|exact H1]. apply Forall_app. split; [exact H1|]. constructor; [|constructor].
      left. exists ps, e. split; [reflexivity|]. intros He. split; [apply H2, He|right; right; reflexivity].
  Qed.
End C.
