From Coq Require Import List ZArith Lia Bool.
Import ListNotations.
Require Import Base Tables Utf8 Tree Recog Inl3b Driver Inl3e Render Props ComposeC02 EolFinalDefs EolFinalFullDefs EolFinalFullRel.
Require Import EolCRRenderRE EolFinalRenderBase EolFinalRenderI EolFinalRenderDoc.
Open Scope Z_scope.

(* ====================================================================================================
   C14, final-newline clause, renderer, part 6: the same as EolFinalRenderI / EolFinalRenderDoc, over the RELATION
   EolFinalFullRel.finRelB (proved for every admissible input: EolFinalFullMain.parseFull_final_newline_rel) instead of the
   function finFullB.
   ==================================================================================================== *)
Lemma LFI_flat_map2 {A} sb (R : A -> A -> Prop) (f g : A -> bytes) l l' :
  Forall2 R l l' -> (forall x y, In x l -> R x y -> LFI sb (f x) (g y)) -> LFI sb (flat_map f l) (flat_map g l').
Proof.
  induction 1 as [|x y l l' Hxy H IH]; intros Hf; [constructor|]. cbn [flat_map]. apply LFI_app; [apply Hf; [left; reflexivity|exact Hxy]|].
  apply IH. intros a b Ha Hab. apply Hf; [right; exact Ha|exact Hab].
Qed.
Lemma flat_map_ext2 {A B} (R : A -> A -> Prop) (f g : A -> list B) l l' :
  Forall2 R l l' -> (forall x y, In x l -> R x y -> g y = f x) -> flat_map g l' = flat_map f l.
Proof.
  induction 1 as [|x y l l' Hxy H IH]; intros Hf; [reflexivity|]. cbn [flat_map]. rewrite (Hf x y (or_introl eq_refl) Hxy), IH; [reflexivity|].
  intros a b Ha Hab. apply Hf; [right; exact Ha|exact Hab].
Qed.

Lemma rel_kind L b b' : finRelB L b b' -> bkind b' = bkind b /\ bn b' = bn b /\ bchar b' = bchar b /\ bloose b' = bloose b.
Proof. intros H. inversion H; subst; repeat split. Qed.

Lemma rel_bheight L : forall n b b', (bheight b <= n)%nat -> finRelB L b b' -> bheight b' = bheight b.
Proof.
  induction n as [|n IH]; intros b b' Hn H; [destruct b; cbn [bheight] in Hn; lia|].
  inversion H as [|K s e bk bk' ik ik' a nn ch l lb HK Hk Hi]; subst; [reflexivity|]. cbn [bheight] in *. f_equal.
  assert (Hle : forall x, In x bk -> (bheight x <= n)%nat).
  { intros x Hx. pose proof (LA2.fold_max_In bk x Hx). lia. }
  clear Hn H Hi. induction Hk as [|x y bk bk' Hxy Hk IHk]; [reflexivity|]. cbn [fold_right].
  rewrite (IH x y (Hle x (or_introl eq_refl)) Hxy), IHk; [reflexivity|]. intros z Hz. apply Hle. right. exact Hz.
Qed.

Section Rel.
  Variable c : cfg.
  Variable refs : list (bytes * linkDef).
  Variable src : bytes.
  Notation L := (len src).
  Notation src' := (src ++ [10]).
  Notation rI := (fun i => renderI (isize i) c refs src i).
  Notation rI' := (fun i => renderI (isize i) c refs src' i).

  Lemma hbLike_bump ik ik' : hbLikeI L ik ik' -> ik' = bumpLastText L ik.
  Proof.
    intros (X & ps & _ & -> & ->). unfold bumpLastText, txtI. rewrite rev_app_distr. cbn [rev app].
    change (TextKind =? TextKind) with true. rewrite Z.eqb_refl. cbn [andb]. rewrite rev_involutive. reflexivity.
  Qed.

  Lemma inlRel_render K ik ik' : inlRelK K L ik ik' -> forallb (svI src) ik = true -> LFI (sbr c) (flat_map rI ik) (flat_map rI' ik').
  Proof.
    intros H Hv. unfold inlRelK in H. destruct (isCode K); [subst ik'; apply finCode_render, Hv|].
    destruct (K =? HTMLBlockKind); [subst ik'; apply bumpI_entries, Hv|].
    destruct (K =? ParagraphKind); [|subst ik'; apply LFI_eq, entries_app, Hv].
    destruct H as [->|H]; [apply LFI_eq, entries_app, Hv|]. rewrite (hbLike_bump _ _ H). apply bumpLastText_render, Hv.
  Qed.

  Lemma listItemNumber_rel b b' : finRelB L b b' -> svB src b = true -> listItemNumber src' b' = listItemNumber src b.
  Proof.
    intros H Hb. inversion H as [|K s e bk bk' ik ik' a nn ch l lb HK Hk Hi]; subst; [apply listItemNumber_app, Hb|].
    destruct (svB_parts src _ Hb) as (_ & Hkv & _). cbn [bkids] in Hkv. unfold listItemNumber, isOrdered. cbn [bchar bkind bkids].
    destruct (_ || _); [reflexivity|]. destruct Hk as [|m m' bk bk' Hm Hk]; [reflexivity|].
    destruct (rel_kind L m m' Hm) as (E1 & _). rewrite E1. destruct (negb (bkind m =? ListMarkerKind)) eqn:En; [reflexivity|].
    apply negb_false_iff, Z.eqb_eq in En. inversion Hm; subst; [|cbn [bkind] in En; contradiction].
    cbn [forallb] in Hkv. apply andb_true_iff in Hkv. destruct Hkv as [Hmv _]. destruct (svB_parts src m' Hmv) as (Hv & _). apply span_valid_elim in Hv.
    rewrite sub_app_l by lia. reflexivity.
  Qed.

  Lemma renderB_rel : forall f pt b b', finRelB L b b' -> svB src b = true ->
    LFI (sbr c) (renderB f c refs src pt b) (renderB f c refs src' pt b').
  Proof.
    induction f as [|f IH]; intros pt b b' H Hb; [constructor|].
    inversion H as [|K s e bk bk' ik ik' a nn ch l lb HK Hk Hi]; subst; [apply LFI_eq, renderB_app, Hb|].
    destruct (svB_parts src _ Hb) as (_ & Hkv & Hiv). cbn [bkids bik] in Hkv, Hiv. cbn [renderB]. cbv zeta.
    cbn [bkind bkids bik bn]. unfold isTightList, isOrdered. cbn [bkind bloose bchar].
    set (tight := ((K =? ListKind) || (K =? ListItemKind)) && negb l).
    assert (HkB : LFI (sbr c) (flat_map (renderB f c refs src tight) bk) (flat_map (renderB f c refs src' tight) bk')).
    { apply (LFI_flat_map2 _ (finRelB L)); [exact Hk|]. intros x y Hx Hxy. apply IH; [exact Hxy|apply (forallb_In _ _ _ Hkv Hx)]. }
    pose proof (inlRel_render K ik ik' Hi Hiv) as HkI.
    set (kids := match bk with [] => flat_map rI ik | _ => flat_map (renderB f c refs src tight) bk end).
    set (kids' := match bk' with [] => flat_map rI' ik' | _ => flat_map (renderB f c refs src' tight) bk' end).
    assert (HK2 : LFI (sbr c) kids kids') by (unfold kids, kids'; destruct Hk; [exact HkI|exact HkB]).
    clearbody kids kids'.
    assert (Hwrap : forall a0 z, LFI (sbr c) (a0 ++ kids ++ z) (a0 ++ kids' ++ z)).
    { intros a0 z. apply LFI_app; [apply LFI_refl|]. apply LFI_app; [exact HK2|apply LFI_refl]. }
    destruct (K =? ParagraphKind); [destruct pt; [exact HK2|apply Hwrap]|].
    destruct (K =? ThematicBreakKind); [apply LFI_refl|].
    destruct (isHeading K); [apply Hwrap|].
    destruct (isCode K) eqn:Ecode.
    { assert (Einfo : infoOf ik' = infoOf ik) by (unfold inlRelK in Hi; rewrite Ecode in Hi; subst ik'; apply infoOf_finCode).
      fold (infoOf ik'). fold (infoOf ik). rewrite Einfo.
      assert (Ecls : forall i0, infoOf ik = Some i0 -> textOfChildren src' i0 = textOfChildren src i0).
      { intros i0 E. unfold infoOf in E. destruct ik as [|j r]; [discriminate|]. destruct (ikind j =? InfoStringKind); [|discriminate].
        inversion E; subst j. cbn [forallb] in Hiv. apply andb_true_iff in Hiv. destruct Hiv as [Hj _]. apply textOfChildren_app, (svI_parts src i0 Hj). }
      destruct (if K =? FencedCodeBlockKind then infoOf ik else None) as [i0|] eqn:Ei.
      - assert (E0 : infoOf ik = Some i0) by (destruct (K =? FencedCodeBlockKind); [exact Ei|discriminate]).
        rewrite (Ecls i0 E0). apply LFI_app; [apply LFI_refl|]. apply LFI_app; [apply LFI_refl|]. apply LFI_app; [apply LFI_refl|]. apply Hwrap.
      - apply LFI_app; [apply LFI_refl|]. apply LFI_app; [apply LFI_refl|]. apply LFI_app; [apply LFI_refl|]. apply Hwrap. }
    destruct (K =? BlockQuoteKind); [apply Hwrap|].
    destruct (K =? ListKind).
    { destruct ((ch =? 46) || (ch =? 41)); [|apply Hwrap].
      replace (match bk' with it :: _ => listItemNumber src' it | [] => -1 end) with (match bk with it :: _ => listItemNumber src it | [] => -1 end).
      - apply LFI_app; [apply LFI_refl|]. apply LFI_app; [apply LFI_refl|]. apply Hwrap.
      - destruct Hk as [|it it' bk bk' Hit Hk]; [reflexivity|]. symmetry. apply listItemNumber_rel; [exact Hit|].
        cbn [forallb] in Hkv. apply andb_true_iff in Hkv. tauto. }
    destruct (K =? ListItemKind); [apply Hwrap|].
    destruct (K =? HTMLBlockKind); [destruct (ignoreRaw c); [constructor|exact HK2]|constructor].
  Qed.

  Lemma extractDefs_rel : forall f b b' acc, finRelB L b b' -> svB src b = true -> extractDefs f src' b' acc = extractDefs f src b acc.
  Proof.
    induction f as [|f IH]; intros b b' acc H Hb; [reflexivity|].
    inversion H as [|K s e bk bk' ik ik' a nn ch l lb HK Hk Hi]; subst; [apply extractDefs_app, Hb|].
    destruct (svB_parts src _ Hb) as (_ & Hkv & Hiv). cbn [bkids bik] in Hkv, Hiv. cbn [extractDefs]. cbn [bkind bik bkids].
    destruct (K =? LinkReferenceDefinitionKind) eqn:Er.
    - apply Z.eqb_eq in Er. subst K. unfold inlRelK in Hi. change (isCode LinkReferenceDefinitionKind) with false in Hi.
      change (LinkReferenceDefinitionKind =? HTMLBlockKind) with false in Hi. change (LinkReferenceDefinitionKind =? ParagraphKind) with false in Hi. cbv iota in Hi. subst ik'.
      pose proof (extractDefs_app src [10] (S f) _ acc Hb) as E. cbn [extractDefs] in E. cbn [bkind bik] in E.
      change (LinkReferenceDefinitionKind =? LinkReferenceDefinitionKind) with true in E. cbv iota in E. exact E.
    - clear Hi Hb H. revert acc. induction Hk as [|x y bk bk' Hxy Hk IHk]; intros acc; [reflexivity|]. cbn [fold_left].
      cbn [forallb] in Hkv. apply andb_true_iff in Hkv. destruct Hkv as [Hk1 Hk2]. rewrite (IH x y acc Hxy Hk1). apply IHk, Hk2.
  Qed.
End Rel.

(* ---- roots ---- *)
Lemma defsOf_rel roots roots' n : finRelRoots n roots roots' -> (forall r, In r roots -> svB (rb_src r) (rb_blk r) = true) ->
  defsOf roots' [] = defsOf roots [].
Proof.
  intros H Hv. unfold finRelRoots in H. destruct (rev roots) as [|r pre] eqn:Er.
  { subst roots'. destruct roots; [reflexivity|]. apply (f_equal (@length rootB)) in Er. rewrite rev_length in Er. discriminate. }
  destruct (rb_end r =? n); [|subst roots'; reflexivity]. destruct H as (r' & -> & (_ & _ & _ & Es & Hb)). rewrite (rev_cons_inv' _ _ _ Er) in *.
  unfold defsOf. rewrite !fold_left_app. cbn [fold_left]. rewrite Es, (rel_bheight _ _ _ _ (le_n _) Hb).
  apply extractDefs_rel; [exact Hb|]. apply Hv. apply in_or_app. right. left. reflexivity.
Qed.
Lemma renderRoots_rel c refs roots roots' n : finRelRoots n roots roots' -> (forall r, In r roots -> svB (rb_src r) (rb_blk r) = true) ->
  Forall2 (LFI (sbr c)) (renderRoots c refs roots) (renderRoots c refs roots').
Proof.
  intros H Hv.
  assert (Hrefl : forall l, Forall2 (LFI (sbr c)) (renderRoots c refs l) (renderRoots c refs l)).
  { induction l as [|x l IH]; [constructor|]. cbn [renderRoots map]. constructor; [apply LFI_refl|exact IH]. }
  unfold finRelRoots in H. destruct (rev roots) as [|r pre] eqn:Er.
  { subst roots'. destruct roots; [constructor|]. apply (f_equal (@length rootB)) in Er. rewrite rev_length in Er. discriminate. }
  destruct (rb_end r =? n); [|subst roots'; apply Hrefl]. destruct H as (r' & -> & (_ & _ & _ & Es & Hb)). rewrite (rev_cons_inv' _ _ _ Er) in *.
  unfold renderRoots. rewrite !map_app. apply Forall2_app; [apply Hrefl|]. cbn [map]. constructor; [|constructor].
  rewrite Es, (rel_bheight _ _ _ _ (le_n _) Hb). apply renderB_rel; [exact Hb|]. apply Hv. apply in_or_app. right. left. reflexivity.
Qed.

Theorem renderDoc_final_newline_of_rel : parseFull_final_newline_rel_statement -> renderDoc_final_newline_statement.
Proof.
  intros H c s H1 H2 H3. destruct (H s H1 H2 H3) as (roots' & E & HR). rewrite !renderDoc_eq, E. cbn [fst].
  pose proof (parseFull_valid s) as Hv. rewrite (defsOf_rel _ _ _ HR Hv). apply joinBlocks_LFI, (renderRoots_rel c _ _ _ _ HR Hv).
Qed.
