(* RefSliceInl.v -- inline layer of the C12 slice (T44): the tokeniser of Inl3e.v on the paragraph "[use]" LF with a
   reference matcher [k]:  the shortcut reference resolves iff norm_label use = k.
     parseInlines_use : parseInlines (L2 use) [k] para =
        if bytes_eqb (norm_label use) k then [Link [0,len use+2) ref:=norm_label use [Text [1,len use+1)]]
        else [Text [0,1); Text [1,len use+1); Text [len use+1,len use+2)]                                  *)
From Coq Require Import List ZArith Lia Bool.
Import ListNotations.
Require Import Base Tables Utf8 Tree Rdr Link Collect Html Recog LP Rules Starts Driver Inl3a Inl3b Inl3c Inl3d Inl3e Render
               SliceBase SlicePara SliceText LabelNorm RefSliceRdr RefSliceFold RefSliceBlk.
Open Scope Z_scope.

(* ---- runs of spaces ---- *)
Fixpoint cnt32 (l : bytes) : Z := match l with c :: r => if c =? 32 then 1 + cnt32 r else 0 | [] => 0 end.
Fixpoint drop32 (l : bytes) : bytes := match l with c :: r => if c =? 32 then drop32 r else l | [] => [] end.
(* after the leading spaces comes a byte that is neither a space nor a line ending *)
Fixpoint goodTail (l : bytes) : Prop :=
  match l with [] => False | c :: r => if c =? 32 then goodTail r else c <> 10 /\ c <> 13 end.

Lemma cnt32_nonneg l : 0 <= cnt32 l.
Proof. induction l as [|c r IH]; [cbn; lia|]. cbn [cnt32]. destruct (c =? 32); lia. Qed.
Lemma cnt32_app_stop : forall t y, cnt32 (t ++ 93 :: y) = cnt32 t.
Proof. induction t as [|c t IH]; intros y; [reflexivity|]. cbn [app cnt32]. rewrite IH. reflexivity. Qed.
Lemma drop32_length : forall t, (length (drop32 t) <= length t)%nat.
Proof. induction t as [|c t IH]; [cbn; lia|]. cbn [drop32]. destruct (c =? 32); cbn [length] in *; lia. Qed.
Lemma cnt32_drop32_len : forall t, cnt32 t + len (drop32 t) = len t.
Proof.
  induction t as [|c t IH]; [reflexivity|]. cbn [cnt32 drop32]. destruct (c =? 32); rewrite ?sl_len_cons; lia.
Qed.
Lemma Forall_drop32 (P : Z -> Prop) : forall t, Forall P t -> Forall P (drop32 t).
Proof.
  induction t as [|c t IH]; intros H; [constructor|]. cbn [drop32]. destruct (c =? 32); [|exact H]. apply IH. inversion H; assumption.
Qed.
Lemma from_drop32 (L : bytes) : forall t q l, 0 <= q -> from_ L q = t ++ l -> from_ L (q + cnt32 t) = drop32 t ++ l.
Proof.
  induction t as [|c t IH]; intros q l Hq H.
  - cbn [cnt32 drop32]. rewrite Z.add_0_r. exact H.
  - cbn [cnt32 drop32]. destruct (c =? 32).
    + cbn [app] in H. destruct (from_cons_inv L q c _ Hq H) as (_ & _ & H').
      replace (q + (1 + cnt32 t)) with (q + 1 + cnt32 t) by lia. apply IH; [lia|exact H'].
    + rewrite Z.add_0_r. exact H.
Qed.
Lemma goodTail_lab : forall t y, Forall (fun x => labB x = true) t -> goodTail (t ++ 93 :: y).
Proof.
  induction t as [|c t IH]; intros y H.
  - cbn. lia.
  - inversion H as [|x z Hc H' Exz]. cbn [app goodTail]. destruct (c =? 32); [apply IH; exact H'|].
    apply labB_range in Hc. lia.
Qed.
Lemma hlb_rest_good : forall l i, goodTail l -> hlb_rest l i = (i + cnt32 l, false).
Proof.
  induction l as [|c r IH]; intros i H; [destruct H|]. cbn [goodTail] in H. cbn [hlb_rest cnt32].
  destruct (Z.eqb_spec c 32) as [E|N].
  - cbn [orb]. rewrite (IH (i + 1) H). f_equal. lia.
  - destruct H as [H10 H13]. destruct (Z.eqb_spec c 10); [contradiction|]. destruct (Z.eqb_spec c 13); [contradiction|].
    cbn [orb]. rewrite Z.add_0_r. reflexivity.
Qed.
Lemma hlbs_good l : goodTail l -> parseHardLineBreakSpace (32 :: l) = (1 + cnt32 l, false).
Proof.
  intros H. destruct l as [|c r]; [destruct H|]. cbn [goodTail] in H. cbn [cnt32].
  destruct (Z.eqb_spec c 32) as [->|N].
  - cbn [parseHardLineBreakSpace]. rewrite (hlb_rest_good r 2 H). f_equal. lia.
  - rewrite Z.add_0_r. unfold parseHardLineBreakSpace.
    destruct c as [|q|q]; try reflexivity.
    do 6 (destruct q as [q|q|]; try reflexivity). exfalso. apply N. reflexivity.
Qed.

Lemma sub_to_len (L : bytes) pos : 0 <= pos -> sub L pos (len L) = from_ L pos.
Proof.
  intros H. unfold sub, upto, from_, len. rewrite firstn_all2; [reflexivity|]. rewrite skipn_length. lia.
Qed.

Lemma istep_space_gen st pos plainStart e : at_ (isrc st) pos = 32 ->
  parseHardLineBreakSpace (sub (isrc st) pos (spanEnd st)) = (e, false) -> istep st pos plainStart = (st, pos + e, plainStart).
Proof. intros Hc Hh. unfold istep. cbv zeta. rewrite Hc, Hh. reflexivity. Qed.

Lemma istep_close st pos plainStart : at_ (isrc st) pos = 93 ->
  istep st pos plainStart = let st1 := addText st plainStart pos in let '(st2, e) := parseEndBracket st1 pos in (st2, e, e).
Proof. intros Hc. unfold istep. cbv zeta. rewrite Hc. reflexivity. Qed.

Lemma labB_inert c : labB c = true -> c <> 32 -> inertByte c = true.
Proof.
  intros H N. apply labB_range in H. unfold inertByte. cbn [existsb].
  repeat match goal with |- context [c =? ?k] => destruct (Z.eqb_spec c k); [exfalso; lia|] end. reflexivity.
Qed.

Lemma addText_empty st s : addText st s s = st.
Proof. unfold addText, addNode, spanLen. rewrite Z.sub_diag. destruct ((0 <=? s) && (0 <=? s) && (s <=? s)); reflexivity. Qed.
Lemma addNode_pos st kind s e kids : 0 <= s -> s < e ->
  addNode st kind s e kids = (bumpId (setRk st (rk st ++ [PN (nid st) kind s e 0 [] kids])), nid st).
Proof.
  intros H1 H2. unfold addNode, spanLen.
  assert (E : (0 <=? s) && (0 <=? e) && (s <=? e) = true) by (rewrite !andb_true_iff; repeat split; apply Z.leb_le; lia).
  rewrite E. destruct (Z.eqb_spec (e - s) 0); [lia|reflexivity].
Qed.

Section Inl.
  Variables (use k : bytes).
  Hypothesis Hok : okUse use = true.
  Let m := len use.
  Let L := L2 use.

  Definition mkSt (r : list pn) (s : list delim) (i : Z) : ist :=
    {| rk := r; isrc := L2 use; unp := [mkI UnparsedKind 0 (len (L2 use))]; upos := 0; stk := s; ign := false; nid := i;
       rootEnd := len (L2 use); matcher := [k] |}.

  Lemma mk_spanEnd r s i : spanEnd (mkSt r s i) = len L. Proof. reflexivity. Qed.
  Lemma mk_inspan r s i : (upos (mkSt r s i) <? len (unp (mkSt r s i))) = true. Proof. reflexivity. Qed.
  Lemma mk_last r s i : isLastSpan (mkSt r s i) = true. Proof. reflexivity. Qed.

  Lemma use_facts : Forall (fun x => labB x = true) use /\ 1 <= m /\ len L = m + 3 /\ from_ L 1 = use ++ [93; 10] /\
    from_ L (m + 1) = [93; 10] /\ from_ L (m + 2) = [10] /\ noNul L.
  Proof.
    destruct (okUse_inv use Hok) as (c0 & t & E & Hc & HF). rewrite <- E in HF.
    assert (Hm : 1 <= m) by (unfold m; rewrite E, sl_len_cons; pose proof (sl_len_nonneg t); lia).
    assert (F1 : from_ L 1 = use ++ [93; 10]) by reflexivity.
    pose proof (from_app_inv L 1 use [93; 10] ltac:(lia) F1) as F2. fold m in F2. replace (1 + m) with (m + 1) in F2 by lia.
    destruct (from_cons_inv L (m + 1) 93 [10] ltac:(lia) F2) as (_ & _ & F3). replace (m + 1 + 1) with (m + 2) in F3 by lia.
    repeat split; try assumption.
    - unfold L. rewrite len_L2. reflexivity.
    - apply (use_src_nz use Hok).
  Qed.

  (* the tokeniser walks over the label text without touching the state *)
  Lemma iloop_skip : forall (n : nat) t, (length t <= n)%nat -> forall fuel pos ps r s i,
    from_ L pos = t ++ [93; 10] -> Forall (fun x => labB x = true) t -> 0 <= pos ->
    exists fuel', (fuel <= fuel' + length t)%nat /\
      iloop fuel (mkSt r s i) pos ps = iloop fuel' (mkSt r s i) (pos + len t) ps.
  Proof.
    induction n as [|n IH]; intros t Hn fuel pos ps r s i Hfrom HF Hpos.
    - destruct t; [|cbn in Hn; lia]. exists fuel. rewrite sl_len_nil, Z.add_0_r. split; [lia|reflexivity].
    - destruct t as [|c t].
      { exists fuel. rewrite sl_len_nil, Z.add_0_r. split; [lia|reflexivity]. }
      destruct fuel as [|f].
      { exists O. split; [lia|reflexivity]. }
      cbn [app] in Hfrom. destruct (from_cons_inv L pos c _ Hpos Hfrom) as (Hlt & Hat & Hfrom').
      inversion HF as [|x y Hc HF' Exy]. cbn [length] in Hn.
      rewrite iloop_S. rewrite mk_inspan, mk_spanEnd. destruct (Z.ltb_spec pos (len L)) as [_|Lx]; [|lia]. cbn [andb].
      destruct (Z.eq_dec c 32) as [->|N32].
      + (* a run of spaces *)
        assert (Hh : parseHardLineBreakSpace (sub (isrc (mkSt r s i)) pos (spanEnd (mkSt r s i))) = (1 + cnt32 t, false)).
        { rewrite mk_spanEnd. change (isrc (mkSt r s i)) with L. rewrite (sub_to_len L pos Hpos), Hfrom.
          rewrite (hlbs_good _ (goodTail_lab t [10] HF')). rewrite cnt32_app_stop. reflexivity. }
        rewrite (istep_space_gen (mkSt r s i) pos ps (1 + cnt32 t) Hat Hh).
        pose proof (from_drop32 L t (pos + 1) [93; 10] ltac:(lia) Hfrom') as Hfrom''.
        destruct (IH (drop32 t) ltac:(pose proof (drop32_length t); lia) f (pos + 1 + cnt32 t) ps r s i Hfrom''
                     (Forall_drop32 _ t HF') ltac:(pose proof (cnt32_nonneg t); lia)) as (f' & Hf' & Hrun).
        exists f'. split.
        * pose proof (drop32_length t). cbn [length]. lia.
        * replace (pos + (1 + cnt32 t)) with (pos + 1 + cnt32 t) by lia. rewrite Hrun. f_equal.
          rewrite sl_len_cons. pose proof (cnt32_drop32_len t). lia.
      + rewrite (istep_inert (mkSt r s i) pos ps) by (change (isrc (mkSt r s i)) with L; rewrite Hat; apply labB_inert; assumption).
        destruct (IH t ltac:(lia) f (pos + 1) ps r s i Hfrom' HF' ltac:(lia)) as (f' & Hf' & Hrun).
        exists f'. split; [cbn [length]; lia|]. rewrite Hrun. f_equal. rewrite sl_len_cons. lia.
  Qed.
  (* ---- the states of the run ---- *)
  Definition N1 : pn := PN 1 TextKind 0 1 0 [] [].
  Definition N2 : pn := PN 2 TextKind 1 (len use + 1) 0 [] [].
  Definition N3 : pn := PN 3 TextKind (len use + 1) (len use + 2) 0 [] [].
  Definition NL : pn := PN 3 LinkKind 0 (len use + 2) 0 (norm_label use) [N2].
  Definition dL : delim := {| d_typ := tLink; d_flags := fActive; d_n := 0; d_node := 1 |}.
  Definition S0 := mkSt [] [] 1.
  Definition S1 := mkSt [N1] [dL] 2.
  Definition S2 := mkSt [N1; N2] [dL] 3.
  Definition S3 := mkSt [N1; N2; N3] [] 4.        (* no definition matches: three text nodes *)
  Definition S3' := mkSt [NL] [] 4.               (* the reference resolves: one link node *)

  Lemma istep_open : istep S0 0 0 = (S1, 1, 1).
  Proof. reflexivity. Qed.

  Lemma addText_S1 : addText S1 1 (m + 1) = S2.
  Proof.
    destruct use_facts as (_ & Hm & _). unfold addText. rewrite addNode_pos by lia. reflexivity.
  Qed.

  Lemma label_use (fuel : nat) : (length L < fuel)%nat ->
    transformLinkReferenceSpan fuel L [mkI UnparsedKind 0 (len L)] 1 (m + 1) = norm_label use.
  Proof.
    intros Hf. destruct use_facts as (HF & Hm & Hlen & F1 & F2 & F3 & Hnz).
    assert (Hfz : m + 1 - 1 <= Z.of_nat fuel) by (unfold len in Hlen; lia).
    assert (Hnz' : forall j, 1 <= j < m + 1 -> at_ L j <> 0) by (intros j Hj; apply noNul_at; [exact Hnz|lia]).
    rewrite (label_norm_single_gen L 0 (len L) 1 (m + 1) fuel ltac:(lia) ltac:(lia) ltac:(lia) ltac:(lia) Hfz Hnz').
    f_equal. replace (m + 1) with (1 + len use) by (unfold m; lia). apply (from_sub L 1 use [93; 10] ltac:(lia) F1).
  Qed.

  Lemma parseEndBracket_S2 : parseEndBracket S2 (m + 1) = if bytes_eqb (norm_label use) k then (S3', m + 2) else (S3, m + 2).
  Proof.
    destruct use_facts as (HF & Hm & Hlen & F1 & F2 & F3 & Hnz).
    destruct (from_cons_inv L (m + 2) 10 [] ltac:(lia) F3) as (_ & Hat2 & _).
    unfold parseEndBracket.
    change (lookForLinkOrImage S2) with (S2, 0). cbv iota beta zeta.
    change (0 <? 0) with false. cbv iota.
    change (isrc S2) with L. change (spanEnd S2) with (len L).
    change (nthD (stk S2) 0) with dL. change (d_typ dL =? tImage) with false. cbv iota.
    change (d_node dL) with 1. change (nodeOf S2 1) with N1.
    replace (m + 1 + 1) with (m + 2) by lia. rewrite Hat2.
    change (10 =? 40) with false. change (10 =? 91) with false. rewrite !andb_false_r. cbv iota.
    change (spanValid nullSpan) with false. cbv iota.
    change (pe N1) with 1. change (unp S2) with [mkI UnparsedKind 0 (len L)].
    rewrite (label_use (rfuelOf S2)) by (unfold rfuelOf; change (isrc S2) with L; lia).
    unfold matchRef. change (matcher S2) with [k]. cbn [existsb]. rewrite orb_false_r.
    destruct (bytes_eqb (norm_label use) k).
    - cbn [negb]. change (ps N1) with 0. replace (m + 1 + 1) with (m + 2) by lia. fold m. reflexivity.
    - cbn [negb]. unfold addText. rewrite addNode_pos by lia. replace (m + 1 + 1) with (m + 2) by lia. reflexivity.
  Qed.
  Definition Sfin : ist := if bytes_eqb (norm_label use) k then S3' else S3.

  Lemma iloop_use : iloop (S (length L)) S0 0 0 = (Sfin, m + 3).
  Proof.
    destruct use_facts as (HF & Hm & Hlen & F1 & F2 & F3 & Hnz).
    assert (HlenN : length L = (length use + 3)%nat) by (unfold L, L2; rewrite !app_length; cbn [length]; lia).
    rewrite iloop_S. change (upos S0 <? len (unp S0)) with true. change (spanEnd S0) with (len L).
    destruct (Z.ltb_spec 0 (len L)) as [_|Lx]; [|lia]. cbn [andb]. rewrite istep_open.
    (* over the label text *)
    destruct (iloop_skip (length use) use (le_n _) (length L) 1 1 [N1] [dL] 2 F1 HF ltac:(lia)) as (f1 & Hf1 & Hrun).
    change (mkSt [N1] [dL] 2) with S1 in Hrun. rewrite Hrun. fold m. replace (1 + m) with (m + 1) by lia.
    destruct f1 as [|f2]; [lia|]. destruct f2 as [|f3]; [lia|].
    (* the closing bracket *)
    rewrite iloop_S. change (upos S1 <? len (unp S1)) with true. change (spanEnd S1) with (len L).
    destruct (Z.ltb_spec (m + 1) (len L)) as [_|Lx]; [|lia]. cbn [andb].
    destruct (from_cons_inv L (m + 1) 93 [10] ltac:(lia) F2) as (_ & Hat1 & _).
    rewrite (istep_close S1 (m + 1) 1 Hat1). cbv zeta. rewrite addText_S1, parseEndBracket_S2.
    fold Sfin.
    assert (Epair : (let '(st2, e) := (if bytes_eqb (norm_label use) k then (S3', m + 2) else (S3, m + 2)) in (st2, e, e)) = (Sfin, m + 2, m + 2)).
    { unfold Sfin. destruct (bytes_eqb (norm_label use) k); reflexivity. }
    rewrite Epair.
    (* the line ending *)
    assert (HS : isrc Sfin = L /\ spanEnd Sfin = len L /\ isLastSpan Sfin = true /\ (upos Sfin <? len (unp Sfin)) = true).
    { unfold Sfin. destruct (bytes_eqb (norm_label use) k); repeat split. }
    destruct HS as (HS1 & HS2 & HS3 & HS4).
    rewrite iloop_S. rewrite HS4, HS2. destruct (Z.ltb_spec (m + 2) (len L)) as [_|Lx]; [|lia]. cbn [andb].
    destruct (from_cons_inv L (m + 2) 10 [] ltac:(lia) F3) as (_ & Hat2 & _).
    rewrite (istep_lf Sfin (m + 2) (m + 2)) by (rewrite ?HS1; assumption). rewrite addText_empty.
    replace (m + 2 + 1) with (m + 3) by lia.
    destruct f3 as [|f4]; [reflexivity|]. rewrite iloop_S. rewrite HS4, HS2.
    destruct (Z.ltb_spec (m + 3) (len L)) as [Lx|_]; [lia|]. reflexivity.
  Qed.

  Definition linkForest : list inline :=
    [Inl LinkKind 0 (len use + 2) 0 (norm_label use) [mkI TextKind 1 (len use + 1)]].
  Definition textForest : list inline :=
    [mkI TextKind 0 1; mkI TextKind 1 (len use + 1); mkI TextKind (len use + 1) (len use + 2)].

  Theorem parseInlines_use :
    parseInlines L [k] (paraClosed 0 (len L) (len L)) = if bytes_eqb (norm_label use) k then linkForest else textForest.
  Proof.
    destruct use_facts as (HF & Hm & Hlen & F1 & F2 & F3 & Hnz).
    unfold parseInlines. cbn [paraClosed bik bend length].
    change {| rk := []; isrc := L; unp := [mkI UnparsedKind 0 (len L)]; upos := 0; stk := []; ign := false; nid := 1;
              rootEnd := len L; matcher := [k] |} with S0.
    assert (Hout : outer 2 S0 = setUpos Sfin 1).
    { cbn [outer]. change (len (unp S0) <=? upos S0) with false. cbv iota.
      change (nth (Z.to_nat (upos S0)) (unp S0) (mkI 0 0 0)) with (mkI UnparsedKind 0 (len L)).
      change (ikind (mkI UnparsedKind 0 (len L))) with UnparsedKind.
      change (UnparsedKind =? 0) with false. change (UnparsedKind =? IndentKind) with false. change (UnparsedKind =? UnparsedKind) with true.
      cbv iota. change (ign S0) with false. cbv iota. change (istart (mkI UnparsedKind 0 (len L))) with 0.
      change (setIgn S0 false) with S0. change (isrc S0) with L. rewrite iloop_use.
      assert (HS : spanEnd Sfin = len L /\ upos Sfin = 0 /\ unp Sfin = [mkI UnparsedKind 0 (len L)]).
      { unfold Sfin. destruct (bytes_eqb (norm_label use) k); repeat split. }
      destruct HS as (HS2 & HS5 & HS6). rewrite HS2, <- Hlen, addText_empty.
      change (unp (setUpos Sfin (upos Sfin + 1))) with (unp Sfin). change (upos (setUpos Sfin (upos Sfin + 1))) with (upos Sfin + 1).
      rewrite HS6, HS5. reflexivity. }
    rewrite Hout. rewrite processEmphasis_nostack by (unfold Sfin; destruct (bytes_eqb (norm_label use) k); reflexivity).
    unfold Sfin. destruct (bytes_eqb (norm_label use) k); reflexivity.
  Qed.
End Inl.
Print Assumptions parseInlines_use.
