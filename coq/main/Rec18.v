From Coq Require Import List ZArith Lia Bool.
Import ListNotations.
Require Import Base Recog Inl3a Inl3b Rec16 Rec17.
Open Scope Z_scope.

(* ---------- e-mail addresses (spec 6.5, the HTML5 regular expression) ---------- *)
Definition alnum (c : Z) : bool := isASCIILetter c || isASCIIDigit c.

(* a domain label: [a-zA-Z0-9]([a-zA-Z0-9-]{0,61}[a-zA-Z0-9])? *)
Definition label (l : bytes) : Prop :=
  1 <= len l <= 63 /\ alnum (at_ l 0) = true /\ (forall i, 0 <= i < len l -> isLabelChar (at_ l i) = true) /\
  at_ l (len l - 1) <> 45.
(* what may follow a label inside an address: nothing, or a dot, a label, and so on *)
Inductive tailOK : bytes -> Prop :=
| T_nil : tailOK []
| T_more l rest : label l -> tailOK rest -> tailOK (46 :: l ++ rest).
Definition email (t : bytes) : Prop :=
  exists loc l rest, t = loc ++ 64 :: l ++ rest /\ loc <> [] /\ (forall i, 0 <= i < len loc -> isEmailLocal (at_ loc i) = true) /\
                     label l /\ tailOK rest.

(* ---- list/index facts ---- *)
Lemma len_app {A} (a b : list A) : len (a ++ b) = len a + len b.
Proof. unfold len. rewrite app_length. lia. Qed.
Lemma at_app_l (a b : bytes) i : 0 <= i < len a -> at_ (a ++ b) i = at_ a i.
Proof. intros H. unfold at_, len in *. destruct (Z.ltb_spec i 0); [lia|]. apply app_nth1. lia. Qed.
Lemma at_app_r (a b : bytes) i : len a <= i -> at_ (a ++ b) i = at_ b (i - len a).
Proof.
  intros H. unfold at_, len in *. destruct (Z.ltb_spec i 0); [lia|]. destruct (Z.ltb_spec (i - Z.of_nat (length a)) 0); [lia|].
  rewrite app_nth2 by lia. f_equal. lia.
Qed.
Lemma from_app (a b : bytes) : from_ (a ++ b) (len a) = b.
Proof. unfold from_, len. rewrite Nat2Z.id. rewrite skipn_app, skipn_all, Nat.sub_diag. reflexivity. Qed.
Lemma from_from (l : bytes) a b : 0 <= a -> 0 <= b -> from_ (from_ l a) b = from_ l (a + b).
Proof.
  intros Ha Hb. unfold from_. replace (Z.to_nat (a + b)) with (Z.to_nat a + Z.to_nat b)%nat by lia.
  generalize (Z.to_nat a) (Z.to_nat b). clear. intros x y. revert l. induction x as [|x IH]; intros l; [reflexivity|].
  destruct l as [|h l]; [destruct y; reflexivity|]. cbn [skipn Nat.add]. apply IH.
Qed.
Lemma split_at (l : bytes) n : 0 <= n <= len l -> l = upto l n ++ from_ l n /\ len (upto l n) = n.
Proof. intros H. unfold upto, from_, len in *. split; [symmetry; apply firstn_skipn|]. rewrite firstn_length. lia. Qed.
Lemma at_upto (l : bytes) n i : 0 <= i < n -> n <= len l -> at_ (upto l n) i = at_ l i.
Proof.
  intros Hi Hn. destruct (split_at l n ltac:(lia)) as [E El]. rewrite E at 2. rewrite at_app_l by lia. reflexivity.
Qed.

(* ---- dl_run ---- *)
Lemma dl_run_spec t : forall fuel e, 1 <= e -> 63 - e < Z.of_nat fuel ->
  let r := dl_run fuel t e in
  e <= r /\ (r <= 63 \/ r = e) /\ (e <= len t -> r <= len t) /\ (forall i, e <= i < r -> isLabelChar (at_ t i) = true) /\
  (r < 63 -> r < len t -> isLabelChar (at_ t r) = false).
Proof.
  induction fuel as [|f IH]; intros e He Hf; [cbn [dl_run]; cbv zeta; repeat split; try lia; intros; lia|]. cbn [dl_run]. cbv zeta.
  destruct (Z.ltb_spec e 63) as [L|L]; cbn [andb]; [|repeat split; try lia; intros; lia].
  destruct (Z.ltb_spec e (len t)) as [L2|L2]; cbn [andb]; [|repeat split; try lia; intros; lia].
  destruct (isLabelChar (at_ t e)) eqn:Ec; [|repeat split; try lia; intros; try lia; assumption].
  specialize (IH (e + 1) ltac:(lia) ltac:(lia)). cbv zeta in IH. destruct IH as (A & B & C & D & F).
  repeat split; try lia.
  - intros i Hi. destruct (Z.eq_dec i e) as [->|N]; [exact Ec|apply D; lia].
  - exact F.
Qed.

Lemma alnum_label c : alnum c = true -> isLabelChar c = true.
Proof. unfold alnum, isLabelChar. intros H. rewrite H. reflexivity. Qed.

Lemma pdl_sound t e : parseDomainLabel t = e -> 0 <= e ->
  label (upto t e) /\ e <= len t /\ isLabelChar (at_ t e) = false.
Proof.
  unfold parseDomainLabel. intros H He.
  destruct ((len t <=? 0) || negb (isASCIILetter (at_ t 0) || isASCIIDigit (at_ t 0))) eqn:E0; [lia|].
  apply orb_false_iff in E0. destruct E0 as [E1 E2]. apply Z.leb_gt in E1. apply negb_false_iff in E2.
  cbv zeta in H.
  pose proof (dl_run_spec t 64 1 ltac:(lia) ltac:(lia)) as S. cbv zeta in S. set (r := dl_run 64 t 1) in *.
  destruct S as (A & B & C & D & F).
  destruct (at_ t (r - 1) =? 45) eqn:E45; [lia|]. apply Z.eqb_neq in E45.
  destruct ((r <? len t) && isLabelChar (at_ t r)) eqn:En; [lia|]. subst e.
  specialize (C ltac:(lia)).
  destruct (split_at t r ltac:(lia)) as [Et El].
  split; [|split; [lia|]].
  - unfold label. rewrite El. repeat split; try lia.
    + rewrite at_upto by lia. exact E2.
    + intros i Hi. rewrite at_upto by lia. destruct (Z.eq_dec i 0) as [->|N]; [apply alnum_label; exact E2|apply D; lia].
    + rewrite at_upto by lia. exact E45.
  - destruct (Z.ltb_spec r (len t)) as [L|L]; cbn [andb] in En; [exact En|].
    unfold at_. destruct (r <? 0); [reflexivity|]. rewrite nth_overflow by (unfold len in L; lia). reflexivity.
Qed.

Lemma pdl_complete l rest : label l -> isLabelChar (at_ rest 0) = false -> parseDomainLabel (l ++ rest) = len l.
Proof.
  intros (L1 & L2 & L3 & L4) Hr. set (t := l ++ rest).
  assert (Ht : len t = len l + len rest) by apply len_app.
  pose proof (len_nonneg rest) as Hrn.
  assert (At : forall i, 0 <= i < len l -> at_ t i = at_ l i) by (intros i Hi; apply at_app_l; lia).
  assert (Ar : at_ t (len l) = at_ rest 0) by (unfold t; rewrite at_app_r by lia; f_equal; lia).
  unfold parseDomainLabel.
  replace (len t <=? 0) with false by (symmetry; apply Z.leb_gt; lia).
  rewrite At by lia. fold (alnum (at_ l 0)). rewrite L2. cbn [negb orb]. cbv zeta.
  pose proof (dl_run_spec t 64 1 ltac:(lia) ltac:(lia)) as S. cbv zeta in S. set (r := dl_run 64 t 1) in *.
  destruct S as (A & B & C & D & F). specialize (C ltac:(lia)).
  assert (Er : r = len l).
  { destruct (Z.lt_trichotomy r (len l)) as [Lt|[Eq|Gt]]; [|exact Eq|].
    - specialize (F ltac:(lia) ltac:(lia)). rewrite At in F by lia. rewrite L3 in F by lia. discriminate.
    - specialize (D (len l) ltac:(lia)). rewrite Ar in D. congruence. }
  rewrite Er. rewrite At by lia.
  replace (at_ l (len l - 1) =? 45) with false by (symmetry; apply Z.eqb_neq; exact L4).
  rewrite Ar, Hr, andb_false_r. reflexivity.
Qed.

(* ---- the dot-label loop ---- *)
Lemma tailOK_cons_inv x t' : tailOK (x :: t') -> x = 46 /\ exists l rest, t' = l ++ rest /\ label l /\ tailOK rest.
Proof. intros H. inversion H; subst. split; [reflexivity|]. eauto. Qed.
Lemma tailOK_head rest : tailOK rest -> isLabelChar (at_ rest 0) = false.
Proof. intros H. destruct H; reflexivity. Qed.

Lemma em_labels_iff t : forall fuel e, 0 <= e <= len t -> len t - e < Z.of_nat fuel ->
  (em_labels fuel t e = len t <-> tailOK (from_ t e)).
Proof.
  induction fuel as [|f IH]; intros e He Hf; [lia|]. cbn [em_labels].
  destruct (Z.ltb_spec e (len t)) as [L|L]; cbn [andb].
  - rewrite (from_cons t e) by lia. destruct (Z.eqb_spec (at_ t e) 46) as [E46|N46].
    + rewrite E46. cbv zeta. set (n := parseDomainLabel (from_ t (e + 1))).
      destruct (Z.ltb_spec n 0) as [Ln|Ln].
      * split; [pose proof (len_nonneg t); lia|]. intros Ht.
        apply tailOK_cons_inv in Ht. destruct Ht as (_ & l & rest & Eq & Hl & Hrest).
        assert (En : parseDomainLabel (l ++ rest) = len l) by (apply pdl_complete; [exact Hl|apply tailOK_head, Hrest]).
        rewrite <- Eq in En. fold n in En. destruct Hl as (? & _). lia.
      * destruct (pdl_sound (from_ t (e + 1)) n eq_refl Ln) as (Hl & Hle & Hnext).
        rewrite len_from in Hle by lia.
        destruct (split_at (from_ t (e + 1)) n ltac:(rewrite len_from by lia; lia)) as [Es Els].
        rewrite from_from in Es by lia.
        rewrite IH by lia.
        split.
        -- intros Ht. rewrite Es. apply T_more; assumption.
        -- intros Ht. apply tailOK_cons_inv in Ht. destruct Ht as (_ & l & rest & Eq & Hl' & Hrest).
           assert (En : parseDomainLabel (l ++ rest) = len l) by (apply pdl_complete; [exact Hl'|apply tailOK_head, Hrest]).
           rewrite <- Eq in En. fold n in En.
           assert (Erest : from_ t (e + 1 + n) = rest).
           { rewrite <- from_from by lia. rewrite Eq, En. apply from_app. }
           rewrite Erest. exact Hrest.
    + split; [lia|]. intros Ht. apply tailOK_cons_inv in Ht. destruct Ht as (E & _). congruence.
  - assert (e = len t) by lia. subst e. rewrite from_nil by lia. split; [constructor|reflexivity].
Qed.

Theorem email_iff t : parseEmail t = len t <-> email t.
Proof.
  pose proof (len_nonneg t) as Hlt.
  split.
  - unfold parseEmail. cbv zeta.
    destruct (countWhile_spec isEmailLocal t) as (C1 & C2 & C3). set (e0 := countWhile isEmailLocal t) in *.
    destruct (e0 =? 0) eqn:E0; [lia|]. apply Z.eqb_neq in E0.
    destruct ((len t <=? e0) || negb (at_ t e0 =? 64)) eqn:E1; [lia|].
    apply orb_false_iff in E1. destruct E1 as [E1 E2]. apply Z.leb_gt in E1. apply negb_false_iff, Z.eqb_eq in E2.
    set (fl := parseDomainLabel (from_ t (e0 + 1))).
    destruct (Z.ltb_spec fl 0) as [Lf|Lf]; [intros HH; cbv iota in HH; lia|].
    destruct (pdl_sound (from_ t (e0 + 1)) fl eq_refl Lf) as (Hl & Hle & _). rewrite len_from in Hle by lia.
    intros Hem. apply em_labels_iff in Hem; [|lia|unfold len in *; lia].
    destruct (split_at t e0 ltac:(lia)) as [Et Elt].
    destruct (split_at (from_ t (e0 + 1)) fl ltac:(rewrite len_from by lia; lia)) as [Es Els].
    rewrite from_from in Es by lia.
    exists (upto t e0), (upto (from_ t (e0 + 1)) fl), (from_ t (e0 + 1 + fl)).
    split; [|split; [|split; [|split]]].
    + rewrite <- Es. rewrite Et at 1. f_equal. rewrite (from_cons t e0) by lia. rewrite E2. reflexivity.
    + intros En. rewrite En in Elt. unfold len in Elt. cbn in Elt. lia.
    + intros i Hi. rewrite Elt in Hi. rewrite at_upto by lia. apply C2. lia.
    + exact Hl.
    + exact Hem.
  - intros (loc & l & rest & Et & Hne & Hloc & Hl & Hrest).
    assert (Hll : 1 <= len loc) by (destruct loc; [congruence|rewrite len_cons; pose proof (len_nonneg loc); lia]).
    assert (Hlen : len t = len loc + 1 + len l + len rest).
    { rewrite Et, len_app, len_cons, len_app. lia. }
    pose proof (len_nonneg rest) as Hr0. destruct Hl as (L1 & L2 & L3 & L4).
    assert (At64 : at_ t (len loc) = 64) by (rewrite Et, at_app_r by lia; replace (len loc - len loc) with 0 by lia; reflexivity).
    assert (Ecw : countWhile isEmailLocal t = len loc).
    { apply countWhile_unique; [lia| |intros _; rewrite At64; reflexivity].
      intros i Hi. rewrite Et, at_app_l by lia. apply Hloc. lia. }
    assert (Ef : from_ t (len loc + 1) = l ++ rest).
    { rewrite <- from_from by lia. rewrite Et, from_app. reflexivity. }
    unfold parseEmail. cbv zeta. rewrite Ecw.
    replace (len loc =? 0) with false by (symmetry; apply Z.eqb_neq; lia).
    replace (len t <=? len loc) with false by (symmetry; apply Z.leb_gt; lia).
    rewrite At64. cbn [Z.eqb Pos.eqb negb orb]. rewrite Ef.
    rewrite (pdl_complete l rest); [|exact (conj L1 (conj L2 (conj L3 L4)))|apply tailOK_head, Hrest].
    replace (len l <? 0) with false by (symmetry; apply Z.ltb_ge; lia).
    apply em_labels_iff; [lia|unfold len in *; lia|].
    replace (len loc + 1 + len l) with ((len loc + 1) + len l) by lia.
    rewrite <- from_from by lia. rewrite Ef, from_app. exact Hrest.
Qed.

(* the renderer's test *)
Corollary isEmailAddress_iff t : (parseEmail t =? len t) = true <-> email t.
Proof. rewrite Z.eqb_eq. apply email_iff. Qed.
Print Assumptions email_iff.
