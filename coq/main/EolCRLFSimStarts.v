From Coq Require Import List ZArith Lia Bool.
Import ListNotations.
Require Import Base Tree Rdr Link Collect Html Recog LP Rules Starts Driver Rec16 Rec17 Rec18 RecBounds Cursor CursorX L2Kind SpanSmall NoPanic12
  EolInv EolHtmlInv EolCRDefs EolCRBytes EolCRLFDefs EolCRLFSimBytes EolCRLFSimTree EolCRLFSimLP EolCRLFSimRules.
Open Scope Z_scope.

(* C14 (ii), CRLF clause, inputs without '[': the eight block starts. *)

(* results of the recognizers lie inside the body of the line *)
Lemma rec_bounds l : lineOK l ->
  parseThematicBreak l <= blen l /\
  (forall lv cs ce, parseATXHeading l = (lv, cs, ce) -> 1 <= lv -> 0 <= cs <= ce /\ ce <= blen l /\ (cs < ce -> isSpTab (at_ l cs) = false)) /\
  (forall d n e, parseListMarker l = (d, n, e) -> e <= blen l) /\
  (forall c n is_ ie, parseCodeFence l = (c, n, is_, ie) -> 0 < n -> 0 <= is_ -> n <= is_ /\ is_ < ie /\ ie <= blen l /\ isSpaceTabOrLineEnding (at_ l is_) = false).
Proof.
  intros H. destruct (lineOK_split l H) as (body & e & -> & Hb & He & Eb & _ & Er & _). rewrite Eb.
  split; [rewrite (thematicBreak_eol body e Er); apply parseThematicBreak_le|].
  split; [|split].
  - intros lv cs ce Ea Hlv. rewrite (atx_eol body e Er) in Ea. destruct (atx_bounds _ _ _ _ Ea Hlv) as (A & B & C).
    split; [exact A|]. split; [exact B|]. intros Hc. rewrite at_app_l by lia. apply C; lia.
  - intros d n e0 Em. rewrite (listMarker_eol body e Er) in Em. apply (parseListMarker_le _ _ _ _ Em).
  - intros c n is_ ie Ef Hn Hi. rewrite (codeFence_eol body e Er) in Ef. destruct (parseCodeFence_bounds _ _ _ _ _ Ef Hn Hi) as (A & B & C & D).
    split; [exact A|]. split; [exact B|]. split; [exact C|]. rewrite at_app_l by lia. exact D.
Qed.

(* the common prelude ConsumeIndent(Indent()); openBlock(kind) *)
Lemma CQ_prelude p q kind : CQ p q -> G p ->
  let p2 := openBlock (consumeIndent p (indent p)) kind in
  CQ p2 (openBlock (consumeIndent q (indent p)) kind) /\ G p2 /\ rest p2 = bytesAfterIndent p /\
  li p2 = li p + indentLength (rest p) /\ line p2 = line p.
Proof.
  intros H HG. cbv zeta. destruct (after_indent p q H HG) as (H1 & G1 & R1 & L1 & E1 & _).
  destruct (G_openBlock _ kind G1) as [G2 (C1 & C2 & _)].
  split; [apply CQ_openBlock, H1|]. split; [exact G2|].
  split; [destruct (start_prelude p kind HG) as (_ & R & _); exact R|]. split; [rewrite C1; exact L1|rewrite C2; exact E1].
Qed.

Lemma noEolB1 c : c <> 10 -> c <> 13 -> noEolB [c].
Proof. intros A B. apply Forall_cons; [split; assumption|apply Forall_nil]. Qed.

Lemma CQ_startBlockQuote p q : CQ p q -> G p -> CQ (startBlockQuote p) (startBlockQuote q).
Proof.
  intros H HG. unfold startBlockQuote. cbv zeta. rewrite (CQ_indent p q H). destruct (_ <=? _); [exact H|].
  rewrite (proj1 (CQ_bai p q H)), hasBytePrefix_crlf by (apply noEolB1; discriminate).
  destruct (hasBytePrefix (bytesAfterIndent p) [62]) eqn:Hp; cbn [negb]; [|exact H].
  apply (CQ_quoteMarker p q H HG Hp (fun x => openBlock x BlockQuoteKind)); [intros a b Hab; apply CQ_openBlock, Hab|].
  intros a Ga. destruct (G_openBlock a BlockQuoteKind Ga) as [_ (C1 & C2 & _)]. split; assumption.
Qed.

Lemma CQ_flag p q f : (forall S b, phiB S (f b) = f (phiB S b)) -> (forall b, nnB (f b) = nnB b) -> CQ p q -> CQ (updCont p f) (updCont q f).
Proof. intros A B H. apply CQ_updCont; [exact H|intros b _; apply A|intros b Hb; rewrite B; exact Hb]. Qed.

Lemma CQ_startATX p q : CQ p q -> G p -> CQ (startATX p) (startATX q).
Proof.
  intros H HG. unfold startATX. cbv zeta. rewrite (CQ_indent p q H). destruct (_ <=? _); [exact H|].
  destruct (CQ_bai p q H) as [Eb Lb]. destruct (recog_crlf _ Lb) as (_ & Ra & _). rewrite Eb, Ra.
  destruct (parseATXHeading (bytesAfterIndent p)) as [[level cs] ce] eqn:Ea. destruct (Z.ltb_spec level 1) as [|Hlv]; [exact H|].
  destruct (rec_bounds _ Lb) as (_ & Ba & _). destruct (Ba _ _ _ Ea Hlv) as (Bc & Be & Bn).
  assert (Hne : bytesAfterIndent p <> []) by (intros X; rewrite X in Ea; vm_compute in Ea; injection Ea as <- _ _; lia).
  destruct (bai_bound p q H HG Hne) as [Hbb Hli].
  destruct (CQ_prelude p q ATXHeadingKind H HG) as (H2 & G2 & R2 & L2 & E2).
  set (p2 := openBlock (consumeIndent p (indent p)) ATXHeadingKind) in *. set (q2 := openBlock (consumeIndent q (indent p)) ATXHeadingKind) in *. clearbody p2 q2.
  assert (H3 : CQ (updCont p2 (fun b => set_bn b level)) (updCont q2 (fun b => set_bn b level)))
    by (apply CQ_flag; [intros S b; destruct b; reflexivity|intros b; destruct b; reflexivity|exact H2]).
  set (p3 := updCont p2 (fun b => set_bn b level)) in *. set (q3 := updCont q2 (fun b => set_bn b level)) in *.
  assert (G3 : G p3) by exact G2. assert (R3 : rest p3 = bytesAfterIndent p) by exact R2.
  assert (L3 : li p3 = li p + indentLength (rest p)) by exact L2. assert (E3 : line p3 = line p) by exact E2. clearbody p3 q3.
  pose proof (blen_le (line p)) as Hbl.
  assert (Hcs : li p3 + cs <= len (line p3)) by (rewrite L3, E3; lia).
  destruct (G_advance p3 cs G3 ltac:(lia) Hcs) as (G4 & L4 & E4).
  pose proof (rest_advance p3 cs G3 ltac:(lia) Hcs) as R4. rewrite R3 in R4.
  assert (H4 : CQ (advance p3 cs) (advance q3 cs)) by (apply CQ_advance; [exact H3|lia|rewrite L3, E3; lia]).
  set (p4 := advance p3 cs) in *. set (q4 := advance q3 cs) in *. clearbody p4 q4.
  assert (H5 : CQ (collectInline p4 UnparsedKind (ce - cs)) (collectInline q4 UnparsedKind (ce - cs))).
  { apply CQ_collectInline; [exact H4|left]. split; [lia|]. split; [reflexivity|]. rewrite R4, L4, E4, L3, E3.
    destruct (Z.eq_dec cs ce) as [->|Nce].
    - pose proof (ind_le (bytesAfterIndent p) ce Lb ltac:(lia)). lia.
    - rewrite indentLength_from_nonws by (try lia; intros; apply Bn; lia). lia. }
  apply CQ_endBlock, CQ_consumeLine, H5.
Qed.

Lemma CQ_startFenced p q : CQ p q -> G p -> CQ (startFenced p) (startFenced q).
Proof.
  intros H HG. unfold startFenced. cbv zeta. rewrite (CQ_indent p q H). destruct (_ <=? _); [exact H|].
  destruct (CQ_bai p q H) as [Eb Lb]. destruct (recog_crlf _ Lb) as (_ & _ & _ & Rf & _). rewrite Eb, Rf.
  destruct (parseCodeFence (bytesAfterIndent p)) as [[[fc fnn] is_] ie] eqn:Ef. destruct (Z.eqb_spec fnn 0) as [|Nf]; [exact H|].
  destruct (CQ_prelude p q FencedCodeBlockKind H HG) as (H2 & G2 & R2 & L2 & E2).
  set (p2 := openBlock (consumeIndent p (indent p)) FencedCodeBlockKind) in *. set (q2 := openBlock (consumeIndent q (indent p)) FencedCodeBlockKind) in *. clearbody p2 q2.
  assert (H3 : CQ (updCont (updCont p2 (fun b => set_bn (set_bchar b fc) fnn)) (fun b => set_bindent b (indent p)))
                  (updCont (updCont q2 (fun b => set_bn (set_bchar b fc) fnn)) (fun b => set_bindent b (indent p)))).
  { apply CQ_flag; [intros S b; destruct b; reflexivity|intros b; destruct b; reflexivity|].
    apply CQ_flag; [intros S b; destruct b; reflexivity|intros b; destruct b; reflexivity|exact H2]. }
  set (p4 := updCont (updCont p2 _) _) in *. set (q4 := updCont (updCont q2 _) _) in *.
  assert (G4 : G p4) by exact G2. assert (R4 : rest p4 = bytesAfterIndent p) by exact R2.
  assert (L4 : li p4 = li p + indentLength (rest p)) by exact L2. assert (E4 : line p4 = line p) by exact E2. clearbody p4 q4.
  apply CQ_consumeLine. destruct (spanValid (is_, ie)) eqn:Ev; [|exact H3].
  unfold spanValid in Ev. cbn [fst snd] in Ev. apply andb_true_iff in Ev. destruct Ev as [Ev _]. apply andb_true_iff in Ev. destruct Ev as [Ev _]. apply Z.leb_le in Ev.
  assert (Hn : 0 < fnn).
  { destruct (Z.lt_ge_cases 0 fnn); [assumption|]. pose proof (parseCodeFence_none _ _ _ _ _ Ef ltac:(lia)) as En. inversion En. lia. }
  destruct (rec_bounds _ Lb) as (_ & _ & _ & Bf). destruct (Bf _ _ _ _ Ef Hn Ev) as (B1 & B2 & B3 & B4).
  assert (Hne : bytesAfterIndent p <> []) by (intros X; rewrite X in B3; cbn in B3; lia).
  destruct (bai_bound p q H HG Hne) as [Hbb Hli]. pose proof (blen_le (line p)) as Hbl.
  assert (His : li p4 + is_ <= len (line p4)) by (rewrite L4, E4; lia).
  destruct (G_advance p4 is_ G4 Ev His) as (G5 & L5 & E5).
  pose proof (rest_advance p4 is_ G4 Ev His) as R5. rewrite R4 in R5.
  assert (H5 : CQ (advance p4 is_) (advance q4 is_)) by (apply CQ_advance; [exact H3|lia|rewrite L4, E4; lia]).
  apply CQ_collectInline; [exact H5|left]. split; [lia|]. split; [reflexivity|]. rewrite R5, L5, E5, L4, E4.
  rewrite indentLength_from_nonws; [lia|lia|].
  intros _. unfold isSpaceTabOrLineEnding in B4. unfold isSpTab. apply orb_false_iff in B4. destruct B4 as [B4 _]. apply orb_false_iff in B4. tauto.
Qed.

Lemma CQ_startThematic p q : CQ p q -> G p -> CQ (startThematic p) (startThematic q).
Proof.
  intros H HG. unfold startThematic. cbv zeta. rewrite (CQ_indent p q H). destruct (_ <=? _); [exact H|].
  destruct (CQ_bai p q H) as [Eb Lb]. destruct (recog_crlf _ Lb) as (Rt & _). rewrite Eb, Rt.
  destruct (Z.ltb_spec (parseThematicBreak (bytesAfterIndent p)) 0) as [|Le]; [exact H|].
  destruct (rec_bounds _ Lb) as (Bt & _).
  destruct (CQ_prelude p q ThematicBreakKind H HG) as (H2 & G2 & R2 & L2 & E2).
  apply CQ_endBlock, CQ_consumeLine.
  destruct (Z.eq_dec (parseThematicBreak (bytesAfterIndent p)) 0) as [E0|N0]; [rewrite E0; exact H2|].
  assert (Hne : bytesAfterIndent p <> []) by (intros X; rewrite X in Bt, N0, Le; cbn [blen] in Bt; lia).
  destruct (bai_bound p q H HG Hne) as [Hbb Hli].
  apply CQ_advance; [exact H2|exact Le|rewrite L2, E2; lia].
Qed.

Lemma CQ_startIndented p q : CQ p q -> CQ (startIndented p) (startIndented q).
Proof.
  intros H. unfold startIndented. rewrite (CQ_indent p q H), (CQ_isRestBlank p q H), (CQ_tipKind p q H).
  destruct (_ || _ || _); [exact H|]. apply CQ_openBlock, CQ_consumeIndent, H.
Qed.

Lemma firstHtmlCond_crlf l : lineOK l -> forall k i, firstHtmlCond i k (crlf l) = firstHtmlCond i k l.
Proof. intros H. induction k as [|k IH]; intros i; [reflexivity|]. cbn [firstHtmlCond]. rewrite (proj2 (html_crlf i l H)), IH. reflexivity. Qed.

Lemma CQ_startHTML p q : CQ p q -> G p -> CQ (startHTML p) (startHTML q).
Proof.
  intros H HG. unfold startHTML. cbv zeta. rewrite (CQ_indent p q H). destruct (_ <=? _); [exact H|].
  destruct (CQ_bai p q H) as [Eb Lb]. rewrite Eb, hasBytePrefix_crlf by (apply noEolB1; discriminate).
  destruct (negb _); [exact H|]. rewrite (firstHtmlCond_crlf _ Lb). destruct (_ <? 0); [exact H|].
  rewrite (CQ_containerKind p q H), (CQ_tipKind p q H). destruct (negb _ && _); [exact H|].
  rewrite (proj1 (html_crlf _ _ Lb)).
  destruct (G_openBlock p HTMLBlockKind HG) as [G2 _]. pose proof (CQ_openBlock p q HTMLBlockKind H) as H2.
  set (i := firstHtmlCond 0 7 (bytesAfterIndent p)) in *.
  assert (H3 : CQ (updCont (openBlock p HTMLBlockKind) (fun b => set_bn b i)) (updCont (openBlock q HTMLBlockKind) (fun b => set_bn b i)))
    by (apply CQ_flag; [intros S b; destruct b; reflexivity|intros b; destruct b; reflexivity|exact H2]).
  set (p3 := updCont (openBlock p HTMLBlockKind) (fun b => set_bn b i)) in *. set (q3 := updCont (openBlock q HTMLBlockKind) (fun b => set_bn b i)) in *.
  assert (G3 : G p3) by exact G2. clearbody p3 q3.
  destruct (htmlEnd _ _); [|exact H3]. apply CQ_endBlock, CQ_consumeLine, CQ_collect_rest; [exact H3|exact G3|discriminate].
Qed.

Lemma CQ_chpc p q : CQ p q -> containerHasParagraphContent q = containerHasParagraphContent p.
Proof.
  intros H. unfold containerHasParagraphContent. rewrite (CQ_containerKind p q H). destruct (negb _); [reflexivity|].
  assert (S91 : ~ In 91 (source p)) by apply H. rewrite (CQ_src p q H).
  rewrite (ocp_nobracket _ _ (crlf_not91 _ S91)), (ocp_nobracket _ _ S91). cbn [rev app]. rewrite (CQ_contBlock p q H), bkind_M. reflexivity.
Qed.

Lemma CQ_startSetext p q : CQ p q -> CQ (startSetext p) (startSetext q).
Proof.
  intros H. unfold startSetext. cbv zeta. rewrite (CQ_containerKind p q H). destruct (negb _); [exact H|].
  rewrite (CQ_indent p q H). destruct (_ <=? _); [exact H|].
  destruct (CQ_bai p q H) as [Eb Lb]. destruct (recog_crlf _ Lb) as (_ & _ & Rs & _). rewrite Eb, Rs.
  destruct (_ =? 0); [exact H|]. rewrite (CQ_chpc p q H). destruct (negb _); [exact H|].
  apply CQ_endBlock, CQ_consumeLine. apply CQ_flag; [intros S b; destruct b; reflexivity|intros b; destruct b; reflexivity|exact H].
Qed.

Lemma CQ_startListItem p q : CQ p q -> G p -> CQ (startListItem p) (startListItem q).
Proof.
  intros H HG. unfold startListItem. cbv zeta. rewrite (CQ_indent p q H). destruct (_ <=? _); [exact H|].
  destruct (CQ_bai p q H) as [Eb Lb]. destruct (recog_crlf _ Lb) as (_ & _ & _ & _ & Rm). rewrite Eb, Rm.
  destruct (parseListMarker (bytesAfterIndent p)) as [[delim n] mend] eqn:Em.
  rewrite (CQ_containerKind p q H).
  destruct (Z.ltb_spec mend 0) as [|Lm]; cbn [orb]; [exact H|].
  destruct (_ && _ && _); [exact H|].
  destruct (rec_bounds _ Lb) as (_ & _ & Bm & _). pose proof (Bm _ _ _ Em) as Hmb.
  rewrite (from_blen _ mend Lb ltac:(lia)), isBlankLine_crlf.
  destruct (_ && isBlankLine _); [exact H|].
  assert (Hne : bytesAfterIndent p <> []) by (intros X; rewrite X in Em; vm_compute in Em; injection Em as _ _ <-; lia).
  destruct (bai_bound p q H HG Hne) as [Hbb Hli].
  destruct (after_indent p q H HG) as (H1 & G1 & R1 & L1 & E1 & _).
  set (p1 := consumeIndent p (indent p)) in *. set (q1 := consumeIndent q (indent p)) in *. clearbody p1 q1.
  rewrite (CQ_containerKind p1 q1 H1). destruct (CQ_field p1 q1 H1) as (_ & _ & F3 & _). rewrite F3.
  set (cdelim := if (containerKind p1 =? ListKind) || (containerKind p1 =? ListItemKind) then bchar (contBlock p1) else 0).
  set (p2 := if negb (containerKind p1 =? ListKind) || negb (cdelim =? delim) then updCont (openBlock p1 ListKind) (fun b => set_bchar b delim) else p1).
  set (q2 := if negb (containerKind p1 =? ListKind) || negb (cdelim =? delim) then updCont (openBlock q1 ListKind) (fun b => set_bchar b delim) else q1).
  assert (H2 : CQ p2 q2 /\ G p2 /\ curS p1 p2).
  { unfold p2, q2. destruct (negb _ || negb _); [|split; [exact H1|split; [exact G1|apply curS_refl]]].
    destruct (G_openBlock p1 ListKind G1) as [Go Hc]. split; [|split; [exact Go|exact Hc]].
    apply CQ_flag; [intros S b; destruct b; reflexivity|intros b; destruct b; reflexivity|apply CQ_openBlock, H1]. }
  destruct H2 as (H2 & G2 & C2). clearbody p2 q2.
  destruct (G_openBlock p2 ListItemKind G2) as [G3 C3].
  assert (H3 : CQ (updCont (openBlock p2 ListItemKind) (fun b => set_bchar b delim)) (updCont (openBlock q2 ListItemKind) (fun b => set_bchar b delim)))
    by (apply CQ_flag; [intros S b; destruct b; reflexivity|intros b; destruct b; reflexivity|apply CQ_openBlock, H2]).
  set (p3 := updCont (openBlock p2 ListItemKind) (fun b => set_bchar b delim)) in *.
  set (q3 := updCont (openBlock q2 ListItemKind) (fun b => set_bchar b delim)) in *.
  assert (G3' : G p3) by exact G3. assert (C3' : curS p1 p3) by (eapply curS_trans; [exact C2|exact C3]). clearbody p3 q3.
  destruct (G_openBlock p3 ListMarkerKind G3') as [G4 C4].
  assert (C4' : curS p1 (openBlock p3 ListMarkerKind)) by (eapply curS_trans; [exact C3'|exact C4]).
  pose proof (CQ_openBlock p3 q3 ListMarkerKind H3) as H4.
  set (p4 := openBlock p3 ListMarkerKind) in *. set (q4 := openBlock q3 ListMarkerKind) in *. clearbody p4 q4.
  destruct C4' as (C41 & C42 & _).
  assert (H5 : CQ (advance p4 mend) (advance q4 mend)) by (apply CQ_advance; [exact H4|exact Lm|rewrite C41, C42, L1, E1; lia]).
  pose proof (CQ_endBlock _ _ H5) as H6.
  set (p6 := endBlock (advance p4 mend)) in *. set (q6 := endBlock (advance q4 mend)) in *. clearbody p6 q6.
  rewrite (CQ_isRestBlank p6 q6 H6). destruct (isRestBlank p6).
  - apply CQ_consumeLine. apply CQ_flag; [intros S b; destruct b; reflexivity|intros b; destruct b; reflexivity|exact H6].
  - rewrite (CQ_indent p6 q6 H6). destruct (indent p6 <? 1).
    + apply CQ_flag; [intros S b; destruct b; reflexivity|intros b; destruct b; reflexivity|exact H6].
    + destruct (4 <? indent p6); (apply CQ_flag; [intros S b; destruct b; reflexivity|intros b; destruct b; reflexivity|apply CQ_consumeIndent, H6]).
Qed.
