From Coq Require Import List ZArith Lia Bool.
Import ListNotations.
Require Import Base Tree Rdr Link Collect ShapesBase ShapesR IFBase IFLink EolCRLFDefs EolCRLFSimBytes EolCRLFSimStream
  EolGenCrlfRdrDefs EolGenCrlfRdrStep EolGenCrlfRdrNext.
Open Scope Z_scope.

(* C14 (ii), CRLF clause: the scanners of Link.v on a reader over R and on the corresponding reader over crlf R.
   Two fuels; each is only assumed to exceed the potential nu of its reader. *)

Definition m13 (c : Z) : Z := if c =? 10 then 13 else c.
Lemma m13_eqb c k : k <> 10 -> k <> 13 -> (m13 c =? k) = (c =? k).
Proof.
  intros K1 K2. unfold m13. destruct (Z.eqb_spec c 10) as [->|N]; [|reflexivity].
  destruct (Z.eqb_spec 13 k); [congruence|]. destruct (Z.eqb_spec 10 k); [congruence|reflexivity].
Qed.
Lemma m13_stle c : isSpaceTabOrLineEnding (m13 c) = isSpaceTabOrLineEnding c.
Proof. unfold m13. destruct (Z.eqb_spec c 10) as [->|N]; reflexivity. Qed.
Lemma m13_sptab c : isSpTab (m13 c) = isSpTab c.
Proof. unfold m13. destruct (Z.eqb_spec c 10) as [->|N]; reflexivity. Qed.
Lemma m13_ctrl c : isASCIIControl (m13 c) = isASCIIControl c.
Proof. unfold m13. destruct (Z.eqb_spec c 10) as [->|N]; reflexivity. Qed.
Lemma m13_punct c : isASCIIPunctuation (m13 c) = isASCIIPunctuation c.
Proof. unfold m13. destruct (Z.eqb_spec c 10) as [->|N]; reflexivity. Qed.
Lemma m13_n c : c <> 10 -> m13 c = c.
Proof. intros N. unfold m13. destruct (Z.eqb_spec c 10); [contradiction|reflexivity]. Qed.
Lemma m13_13 c : c <> 13 -> (m13 c =? 13) = (c =? 10).
Proof. intros N. unfold m13. destruct (Z.eqb_spec c 10) as [->|N1]; [reflexivity|]. apply Z.eqb_neq. exact N. Qed.
Lemma m13_10 c : c <> 13 -> (m13 c =? 10) = false.
Proof. intros N. unfold m13. destruct (Z.eqb_spec c 10) as [->|N1]; [reflexivity|]. apply Z.eqb_neq. exact N1. Qed.

Definition NU (src : bytes) (r r2 : reader) (ok : bool) : Prop := nu src r2 <= nu src r /\ (ok = true -> nu src r2 < nu src r).

Section LinkSim.
  Variable R : bytes.
  Variable Eb : Z.
  Hypothesis R13 : ~ In 13 R.
  Notation P := (phiP R).
  Notation R' := (crlf R).
  Notation F := (phiI R).
  Notation RR := (RR R Eb).
  Notation RM := (RM R Eb).
  Notation PVc := (PVc R).
  Notation SPI := (SPI R Eb).
  Definition W (r r' : reader) : Prop := RR r r' \/ RM r r'.

  Lemma W_PL r r' : W r r' -> PL R r /\ PL R' r'.
  Proof. intros [H|H]; [apply (RR_PL R Eb), H|apply (RM_PL R Eb), H]. Qed.
  Lemma fuel0 src r : PL src r -> nu src r < Z.of_nat 0 -> False.
  Proof. intros H1 H2. pose proof (nu_nonneg src r H1). lia. Qed.

  Lemma cur_not13 r : r_src r = R -> cur r <> 13.
  Proof.
    intros A. unfold cur, current. rewrite A. destruct (len R <=? r_pos r); [discriminate|].
    destruct (curNode r) as [n r1]. destruct (okind n =? IndentKind); [discriminate|].
    destruct (at_ R (r_pos r) =? 0); cbn [fst].
    - unfold nullRepl. destruct (_ =? 0); [discriminate|]. destruct (_ =? 1); discriminate.
    - apply (at_not13 R R13).
  Qed.
  Lemma cur_at_ne r : r_src r = R -> cur r <> 10 -> cur r <> 32 -> at_ R (r_pos r) <> 10.
  Proof.
    intros A N1 N2 E. apply N1. apply (cur_at R); [exact A|exact E|]. intros K. destruct (cur_indent r K) as [Q|Q]; [contradiction|].
    (* cur r = 0 while the byte is 10: the position is beyond the source, impossible *)
    unfold cur, current in Q. rewrite A in Q. destruct (Z.leb_spec (len R) (r_pos r)) as [L|L].
    - unfold at_ in E. destruct (r_pos r <? 0); [discriminate|]. rewrite nth_overflow in E; [discriminate|unfold len in L; lia].
    - destruct (curNode r) as [n r1]. cbn [fst] in K. rewrite K in Q. discriminate.
  Qed.

  (* ---- E-forms: facts about the results of `current` / `next` once they are named ---- *)
  Lemma currentE_RR r r' c r1 c' r1' : RR r r' -> current r = (c, r1) -> current r' = (c', r1') ->
    c' = m13 c /\ RR r1 r1' /\ cur r1 = c /\ nu R r1 = nu R r /\ nu R' r1' = nu R' r' /\ r_pos r1 = r_pos r /\ r_pos r1' = r_pos r' /\ c <> 13.
  Proof.
    intros H E E'. destruct (RR_current R Eb r r' H) as [A B]. unfold cur in A. rewrite E, E' in A, B. cbn [fst snd] in A, B.
    split; [exact A|]. split; [exact B|]. assert (E1 : r1 = snd (current r)) by (rewrite E; reflexivity).
    assert (E1' : r1' = snd (current r')) by (rewrite E'; reflexivity).
    split; [rewrite E1, cur_current; unfold cur; rewrite E; reflexivity|]. split; [rewrite E1; apply nu_current|]. split; [rewrite E1'; apply nu_current|].
    split; [rewrite E1; apply pos_current|]. split; [rewrite E1'; apply pos_current|].
    replace c with (cur r) by (unfold cur; rewrite E; reflexivity). apply cur_not13. apply H.
  Qed.
  Lemma currentE_RM r m c r1 c' m1 : RM r m -> current r = (c, r1) -> current m = (c', m1) ->
    c = 10 /\ c' = 10 /\ RM r1 m1 /\ nu R r1 = nu R r /\ nu R' m1 = nu R' m /\ r_pos r1 = r_pos r.
  Proof.
    intros H E E'. destruct (RM_current R Eb r m H) as (A & B & C). unfold cur in A, B. rewrite E in A, C. rewrite E' in B, C. cbn [fst snd] in A, B, C.
    split; [exact A|]. split; [exact B|]. split; [exact C|].
    assert (E1 : r1 = snd (current r)) by (rewrite E; reflexivity). assert (E1' : m1 = snd (current m)) by (rewrite E'; reflexivity).
    split; [rewrite E1; apply nu_current|]. split; [rewrite E1'; apply nu_current|rewrite E1; apply pos_current].
  Qed.
  Lemma NU_next src r ok r2 : PL src r -> next r = (ok, r2) -> NU src r r2 ok /\ PL src r2.
  Proof. intros H E. destruct (next_W src r H) as (A & _ & B & C & _). rewrite E in A, B, C. cbn [fst snd] in *. split; [split; assumption|exact A]. Qed.
  Lemma RR_PVc r r' : RR r r' -> PVc r r'. Proof. intros H. apply H. Qed.
  Lemma nextE_RR r r' ok r2 ok' r2' : RR r r' -> cur r <> 10 -> next r = (ok, r2) -> next r' = (ok', r2') ->
    ok' = ok /\ RR r2 r2' /\ PVc r2 r2' /\ NU R r r2 ok /\ NU R' r' r2' ok.
  Proof.
    intros H N E E'. destruct (RR_next_n R Eb r r' H N) as (A & B). rewrite E, E' in A, B. cbn [fst snd] in A, B. subst ok'.
    destruct (RR_PL R Eb _ _ H) as [P1 P2]. split; [reflexivity|]. split; [exact B|]. split; [apply RR_PVc, B|].
    split; [apply (NU_next R r ok r2 P1 E)|apply (NU_next R' r' ok r2' P2 E')].
  Qed.
  Lemma nextE_RR10 r r' ok r2 ok' r2' : RR r r' -> cur r = 10 -> next r = (ok, r2) -> next r' = (ok', r2') ->
    (ok' = false /\ ok = false /\ RR r2 r2' /\ PVc r2 r2') \/ (ok' = true /\ RM r r2' /\ nu R' r2' < nu R' r').
  Proof.
    intros H N E E'. destruct (RR_PL R Eb _ _ H) as [P1 P2].
    destruct (RR_next R Eb r r' H) as [(A & B & D)|(_ & _ & m & Em & HM)].
    - left. rewrite E in A, B, D. rewrite E' in A, B. cbn [fst snd] in A, B, D. specialize (D N). subst ok ok'. split; [reflexivity|]. split; [reflexivity|].
      split; [exact B|apply RR_PVc, B].
    - right. rewrite Em in E'. inversion E'; subst ok' r2'. split; [reflexivity|]. split; [exact HM|].
      destruct (NU_next R' r' true m P2 Em) as [[_ Q] _]. apply Q. reflexivity.
  Qed.
  Lemma nextE_RM r m ok r2 ok' r2' : RM r m -> next r = (ok, r2) -> next m = (ok', r2') ->
    ok' = ok /\ RR r2 r2' /\ PVc r2 r2' /\ NU R r r2 ok /\ NU R' m r2' ok.
  Proof.
    intros H E E'. destruct (RM_next R Eb r m H) as (A & B & C). rewrite E, E' in A, B, C. cbn [fst snd] in A, B, C. subst ok'.
    destruct (RM_PL R Eb _ _ H) as [P1 P2]. split; [reflexivity|]. split; [exact B|]. split; [exact C|].
    split; [apply (NU_next R r ok r2 P1 E)|apply (NU_next R' m ok r2' P2 E')].
  Qed.
  Lemma RM_uncur r c r1 m : SPI (r_spans r) -> current r = (c, r1) -> RM r1 m -> RM r m.
  Proof. intros G E H. apply (RM_cur_l_inv R Eb); [exact G|]. rewrite E. exact H. Qed.
  Lemma pos_succ r r' : RR r r' -> cur r <> 10 -> cur r <> 32 -> r_pos r' + 1 = P (r_pos r + 1).
  Proof.
    intros H N1 N2. rewrite (RR_pos R Eb _ _ H). symmetry. apply P_succ_n. apply cur_at_ne; [apply H|exact N1|exact N2].
  Qed.

  (* ---- being inside a node ---- *)
  Lemma next_InNode r r2 : SPI (r_spans r) -> next r = (true, r2) -> InNode r2.
  Proof.
    intros G E. destruct (next_true r r2 E) as (node & rest & Ec & Hh & (pre & Epre) & Es & Ep & Hcase).
    rewrite Epre in G. apply (SPI_app_r R Eb) in G.
    destruct Hcase as [(Ek & Epos & Esp)|[(Ek & Epos & Elt & Esp)|(pre' & j & rest' & Er & Esp & Epos & Ecase)]].
    - exists node. rewrite (curNode_head node rest r2 Esp); [reflexivity|]. rewrite Epos. exact Hh.
    - pose proof (spanHas_range _ _ Hh) as (S1 & S2 & S3).
      exists node. rewrite (curNode_head node rest r2 Esp); [reflexivity|]. rewrite Epos. apply spanHas_intro; lia.
    - apply (SPI_app_r R Eb [node]) in G. cbn [app] in G. rewrite Er in G. apply (SPI_app_r R Eb) in G. destruct G as (A & _ & B & _).
      pose proof (spW_cons _ _ _ A) as (A1 & _). cbn [forallb] in B. apply andb_true_iff in B. destruct B as [B _]. unfold neSp in B. apply Z.ltb_lt in B.
      exists j. rewrite (curNode_head j rest' r2 Esp); [reflexivity|]. rewrite Epos. apply spanHas_intro; lia.
  Qed.
  Lemma next_prev_in r ok r2 : InNode r -> next r = (ok, r2) -> r_prev r2 = r_pos r.
  Proof.
    intros (n & Hn) E. destruct ok.
    - destruct (next_true r r2 E) as (node & rest & _ & _ & _ & _ & Ep & _). exact Ep.
    - destruct (next_false r r2 E) as (_ & _ & Q). destruct (Q n Hn) as (Ep & _). exact Ep.
  Qed.
  Lemma RR_InNode r r' : RR r r' -> InNode r -> InNode r'.
  Proof. intros H (n & Hn). destruct (RR_curNode R Eb r r' H) as [X _]. rewrite Hn in X. exists (F n). exact X. Qed.
  Lemma InNode_currentE r c r1 : InNode r -> current r = (c, r1) -> InNode r1.
  Proof. intros H E. replace r1 with (snd (current r)) by (rewrite E; reflexivity). apply InNode_current, H. Qed.
  (* the previous position after a step taken from inside a node, on a byte that is neither LF nor synthesised indentation *)
  Lemma prevE_in r r' ok r2 ok' r2' : RR r r' -> InNode r -> cur r <> 10 -> cur r <> 32 -> next r = (ok, r2) -> next r' = (ok', r2') ->
    r_prev r2' = P (r_prev r2) /\ r_prev r2' + 1 = P (r_prev r2 + 1).
  Proof.
    intros H Hi N1 N2 E E'. rewrite (next_prev_in r ok r2 Hi E), (next_prev_in r' ok' r2' (RR_InNode _ _ H Hi) E').
    split; [apply (RR_pos R Eb), H|apply pos_succ; assumption].
  Qed.
End LinkSim.
