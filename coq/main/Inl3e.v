From Coq Require Import List ZArith Lia Bool.
Import ListNotations.
Require Import Base Tables Utf8 Tree Rdr Link Collect Html Recog Inl3a Inl3b Inl3c Inl3d Driver.
Open Scope Z_scope.

Definition rfuelOf (st : ist) : nat := (2 * length (isrc st) + 10)%nat.

(* lookForLinkOrImage (inlines.go:1302): index or -1 (an inactive opener is dropped) *)
Fixpoint lfl (fuel : nat) (st : ist) (i : Z) : ist * Z :=
  match fuel with
  | O => (st, -1)
  | S f =>
    if i <? 0 then (st, -1) else
    let d := nthD (stk st) i in
    if (d_typ d =? tLink) || (d_typ d =? tImage) then
      if negb (hasFlag d fActive) then (setStk st (delStack (stk st) i (i + 1)), -1) else (st, i)
    else lfl f st (i - 1)
  end.
Definition lookForLinkOrImage (st : ist) : ist * Z := lfl (S (length (stk st))) st (len (stk st) - 1).

(* finishLink (inlines.go:901) *)
Definition finishLink (st : ist) (kind odi : Z) : ist :=
  let bracketId := d_node (nthD (stk st) odi) in
  let st := processEmphasis st (odi + 1) in
  let st := removeNode st bracketId in
  let st := setStk st (delStack (stk st) odi (odi + 1)) in
  if kind =? LinkKind then
    setStk st (map (fun id : Z * delim => let '(i, d) := id in
                     if (i <? odi) && (d_typ d =? tLink) then clearFlag d fActive else d)
                   (combine (map Z.of_nat (seq 0 (length (stk st)))) (stk st)))
  else st.

Definition kidsOf (l : list inline) : list pn := map ofInline l.
Definition appendKid (st : ist) (id : Z) (k : pn) : ist := updN st id (fun n => setKids n (pkids n ++ [k])).

(* transformLinkReference(source, nodes) : span from first node start to last node end *)
Definition transformLinkReference (fuel : nat) (src : bytes) (nodes : list inline) : bytes :=
  match nodes, rev nodes with
  | f :: _, l :: _ => transformLinkReferenceSpan fuel src nodes (istart f) (iend l)
  | _, _ => []
  end.

(* parseEndBracket (inlines.go:743, repaired) : (st, end) *)
Definition parseEndBracket (st : ist) (start : Z) : ist * Z :=
  let fuel := rfuelOf st in
  let src := isrc st in
  let '(st, odi) := lookForLinkOrImage st in
  if odi <? 0 then (addText st start (start + 1), start + 1) else
  let od := nthD (stk st) odi in
  let kind := if d_typ od =? tImage then ImageKind else LinkKind in
  let bracket := nodeOf st (d_node od) in
  let tryInline :=
    if (start + 1 <? spanEnd st) && (at_ src (start + 1) =? 40) then
      let '(ispan, (dspan, dtext), (tspan, ttext)) := parseInlineLink fuel st (start + 1) in
      if spanValid ispan then Some (ispan, dspan, dtext, tspan, ttext) else None
    else None in
  match tryInline with
  | Some (ispan, dspan, dtext, tspan, ttext) =>
    let '(st, lid) := wrap st kind (d_node od) None in
    let st := updN st lid (fun n => setSpan n (ps bracket) (snd ispan)) in
    let st :=
      if spanValid dspan then
        let kids := if spanValid dtext then kidsOf (collectTextNodes fuel (newReader src (unpFrom st) (fst dtext)) (snd dtext) TextKind true) else [] in
        appendKid st lid (PN 0 LinkDestinationKind (fst dspan) (snd dspan) 0 [] kids)
      else st in
    let st :=
      if spanValid tspan then
        let kids := if spanValid ttext then kidsOf (collectTextNodes fuel (newReader src (unpFrom st) (fst ttext)) (snd ttext) TextKind true) else [] in
        appendKid st lid (PN 0 LinkTitleKind (fst tspan) (snd tspan) 0 [] kids)
      else st in
    let st := advanceTo st (snd ispan - 1) in
    (finishLink st kind odi, snd ispan)
  | None =>
    let fail (st : ist) := (setStk (addText st start (start + 1)) (delStack (stk st) odi (odi + 1)), start + 1) in
    let isCollapsed := (start + 2 <? spanEnd st) && (at_ src (start + 1) =? 91) && (at_ src (start + 2) =? 93) in
    let '(lspan, linner) :=
      if negb isCollapsed && (start + 1 <? spanEnd st) && (at_ src (start + 1) =? 91) then
        let '(a, b, _) := parseLinkLabel fuel (newReader src (unpFrom st) (start + 1)) in (a, b)
      else (nullSpan, nullSpan) in
    if isCollapsed then
      let label := transformLinkReferenceSpan fuel src (unp st) (pe bracket) start in
      if negb (matchRef st label) then fail st else
      let '(st, lid) := wrap st kind (d_node od) None in
      let st := updN st lid (fun n => setRef (setSpan n (ps bracket) (start + 3)) label) in
      (finishLink st kind odi, start + 3)
    else if spanValid lspan then
      let lkids := collectTextNodes fuel (newReader src (unpFrom st) (fst linner)) (snd linner) TextKind false in
      let lref := transformLinkReference fuel src lkids in
      if negb (matchRef st lref) then fail st else
      let '(st, lid) := wrap st kind (d_node od) None in
      let st := appendKid st lid (PN 0 LinkLabelKind (fst lspan) (snd lspan) 0 lref (kidsOf lkids)) in
      let st := updN st lid (fun n => setSpan n (ps bracket) (snd lspan)) in
      let st := advanceTo st (snd lspan - 1) in
      (finishLink st kind odi, snd lspan)
    else
      let label := transformLinkReferenceSpan fuel src (unp st) (pe bracket) start in
      if negb (matchRef st label) then fail st else
      let '(st, lid) := wrap st kind (d_node od) None in
      let st := updN st lid (fun n => setRef (setSpan n (ps bracket) (start + 1)) label) in
      (finishLink st kind odi, start + 1)
  end.

(* parseBackslash (inlines.go:604, repaired) *)
Fixpoint eolRun (fuel : nat) (src : bytes) (e lim : Z) : Z :=
  match fuel with O => e | S f => if (e <? lim) && ((at_ src e =? 10) || (at_ src e =? 13)) then eolRun f src (e + 1) lim else e end.
Definition parseBackslash (st : ist) (start : Z) : ist * Z :=
  let src := isrc st in
  if (spanEnd st <=? start + 1) || (at_ src (start + 1) =? 10) || (at_ src (start + 1) =? 13) then
    if isLastSpan st then (addText st start (start + 1), start + 1)
    else
      let e := eolRun (length src) src (start + 1) (spanEnd st) in
      let st := setIgn st true in
      (fst (addNode st HardLineBreakKind start e []), e)
  else if isASCIIPunctuation (at_ src (start + 1)) then (addText st (start + 1) (start + 2), start + 2)
  else (addText st start (start + 1), start + 1).

(* parseDelimiterRun (inlines.go:715) *)
Fixpoint runEnd (fuel : nat) (src : bytes) (e lim c : Z) : Z :=
  match fuel with O => e | S f => if (e <? lim) && (at_ src e =? c) then runEnd f src (e + 1) lim c else e end.
Definition parseDelimiterRun (st : ist) (start : Z) : ist * Z :=
  let src := isrc st in
  let e := runEnd (length src) src (start + 1) (spanEnd st) (at_ src start) in
  let flags := fActive + emphasisFlags src start e in
  let typ := if at_ src start =? 42 then tStar else tUnder in
  let '(st, id) := addNode st TextKind start e [] in
  (setStk st (stk st ++ [{| d_typ := typ; d_flags := flags; d_n := spanLen start e; d_node := id |}]), e).

(* one step of the tokeniser loop of parse (inlines.go:331-587) *)
Definition istep (st : ist) (pos plainStart : Z) : ist * Z * Z :=
  let src := isrc st in
  let fuel := rfuelOf st in
  let c := at_ src pos in
  if (c =? 42) || (c =? 95) then
    let st := addText st plainStart pos in
    let '(st, e) := parseDelimiterRun st pos in (st, e, e)
  else if c =? 91 then
    let st := addText st plainStart pos in
    let '(st, id) := addNode st TextKind pos (pos + 1) [] in
    let st := setStk st (stk st ++ [{| d_typ := tLink; d_flags := fActive; d_n := 0; d_node := id |}]) in
    (st, pos + 1, pos + 1)
  else if c =? 93 then
    let st := addText st plainStart pos in
    let '(st, e) := parseEndBracket st pos in (st, e, e)
  else if c =? 33 then
    if (spanEnd st <=? pos + 1) || negb (at_ src (pos + 1) =? 91) then (st, pos + 1, plainStart) else
    let st := addText st plainStart pos in
    let '(st, id) := addNode st TextKind pos (pos + 2) [] in
    let st := setStk st (stk st ++ [{| d_typ := tImage; d_flags := fActive; d_n := 0; d_node := id |}]) in
    (st, pos + 2, pos + 2)
  else if c =? 32 then
    let '(e, ok) := parseHardLineBreakSpace (sub src pos (spanEnd st)) in
    if ok && negb (isLastSpan st) then
      let st := addText st plainStart pos in
      let st := fst (addNode st HardLineBreakKind pos (pos + e) []) in
      (setIgn st true, pos + e, pos + e)
    else (st, pos + e, plainStart)
  else if c =? 96 then
    let '(cS, cE, sE) := parseCodeSpan fuel st pos in
    if 0 <=? sE then
      let st := addText st plainStart pos in
      let st := collectCodeSpan st pos sE cS cE in
      (st, sE, sE)
    else (st, cS, plainStart)
  else if c =? 60 then
    let ae := parseAutolink (sub src pos (spanEnd st)) in
    if 0 <=? ae then
      let e := ae + pos in
      let st := addText st plainStart pos in
      let st := fst (addNode st AutolinkKind pos e [PN 0 TextKind (pos + 1) (e - 1) 0 [] []]) in
      (st, e, e)
    else
      let '(ts, te) := parseHTMLTag fuel (newReader src (unpFrom st) pos) in
      if negb (spanValid (ts, te)) then (st, pos + 1, plainStart) else
      let st := addText st plainStart ts in
      let kids := kidsOf (collectTextNodes fuel (newReader src (unpFrom st) ts) te RawHTMLKind false) in
      let st := fst (addNode st HTMLTagKind ts te kids) in
      (advanceTo st te, te, te)
  else if c =? 92 then
    let st := addText st plainStart pos in
    let '(st, e) := parseBackslash st pos in (st, e, e)
  else if c =? 38 then
    let e := parseCharacterEscape (sub src pos (spanEnd st)) in
    if e <? 0 then (st, pos + 1, plainStart) else
    let st := addText st plainStart pos in
    let st := fst (addNode st CharacterReferenceKind pos (pos + e) []) in
    (st, pos + e, pos + e)
  else if c =? 10 then
    let st := addText st plainStart pos in
    let st := if negb (isLastSpan st) then fst (addNode st SoftLineBreakKind pos (pos + 1) []) else st in
    (st, pos + 1, pos + 1)
  else if c =? 13 then
    let st := addText st plainStart pos in
    let w := if (pos + 1 <? spanEnd st) && (at_ src (pos + 1) =? 10) then 2 else 1 in
    let st := if negb (isLastSpan st) then fst (addNode st SoftLineBreakKind pos (pos + w) []) else st in
    (st, pos + w, pos + w)
  else (st, pos + 1, plainStart).

Fixpoint iloop (fuel : nat) (st : ist) (pos plainStart : Z) : ist * Z :=
  match fuel with
  | O => (st, plainStart)
  | S f =>
    if (upos st <? len (unp st)) && (pos <? spanEnd st) then
      let '(st, pos, plainStart) := istep st pos plainStart in iloop f st pos plainStart
    else (st, plainStart)
  end.

Fixpoint skipSpTab (fuel : nat) (src : bytes) (pos lim : Z) : Z :=
  match fuel with O => pos | S f => if (pos <? lim) && isSpTab (at_ src pos) then skipSpTab f src (pos + 1) lim else pos end.

Fixpoint outer (fuel : nat) (st : ist) : ist :=
  match fuel with
  | O => st
  | S f =>
    if len (unp st) <=? upos st then st else
    let u := nth (Z.to_nat (upos st)) (unp st) (mkI 0 0 0) in
    let k := ikind u in
    let st :=
      if k =? 0 then setIgn st false
      else if k =? IndentKind then (if negb (ign st) then setRk st (rk st ++ [ofInline u]) else st)
      else if k =? UnparsedKind then
        let pos := istart u in
        let pos := if ign st then skipSpTab (length (isrc st)) (isrc st) pos (spanEnd st) else pos in
        let st := setIgn st false in
        let '(st, plainStart) := iloop (S (length (isrc st))) st pos pos in
        addText st plainStart (spanEnd st)
      else setRk (setIgn st false) (rk st ++ [ofInline u]) in
    outer f (setUpos st (upos st + 1))
  end.

Definition parseInlines (src : bytes) (matcher : list bytes) (container : block) : list inline :=
  let st := {| rk := []; isrc := src; unp := bik container; upos := 0; stk := []; ign := false; nid := 1;
               rootEnd := bend container; matcher := matcher |} in
  let st := outer (S (length (bik container))) st in
  let st := processEmphasis st 0 in
  map toInline (rk st).

(* Rewrite (inlines.go:263) *)
Definition hasUnparsed (b : block) : bool := existsb (fun i => ikind i =? UnparsedKind) (bik b).
Fixpoint rewriteB (fuel : nat) (src : bytes) (matcher : list bytes) (b : block) : block :=
  match fuel with
  | O => b
  | S f =>
    if (0 <? len (bik b)) && hasUnparsed b then set_bik b (parseInlines src matcher b)
    else set_bkids b (map (rewriteB f src matcher) (bkids b))
  end.

(* ReferenceMap.Extract: only the keys matter for parsing *)
Fixpoint extractB (fuel : nat) (b : block) (acc : list bytes) : list bytes :=
  match fuel with
  | O => acc
  | S f =>
    if bkind b =? LinkReferenceDefinitionKind then
      match bik b with
      | l :: _ => let label := iref l in
                  if (len label =? 0) || existsb (Utf8.bytes_eqb label) acc then acc else acc ++ [label]
      | [] => acc
      end
    else fold_left (fun a c => extractB f c a) (bkids b) acc
  end.

Definition parseFull (input : bytes) : list rootB * Z :=
  let '(roots, code) := parseBlocks input in
  let refs := fold_left (fun a r => extractB (bheight (rb_blk r)) (rb_blk r) a) roots [] in
  (map (fun r => {| rb_line := rb_line r; rb_start := rb_start r; rb_end := rb_end r; rb_src := rb_src r;
                    rb_blk := rewriteB (bheight (rb_blk r)) (rb_src r) refs (rb_blk r) |}) roots, code).
