From Coq Require Import List ZArith Lia Bool.
Import ListNotations.
Require Import Base Tree Rdr Link Collect LP Rec17 Rec18 BSRdr LADef LA1 LA2 LARec LAR1 LAR2 LAR4.
Open Scope Z_scope.

(* ===== the link-reference-definition extraction keeps every byte accounted for, for every source =====
   LAR1 (reader steps), LAR2 (scanners, collectTextNodes, the loop of onCloseParagraph) and LAR4 (the reader's fuel suffices)
   put together. *)
Theorem OcpLoopSpec_all src : OcpLoopSpec src.
Proof.
  intros e b1 first rest Hk He HK Hel Hbe H0 Ht Hf Hio Eb. unfold ocpRun.
  assert (Hf' : Forall (eok src ParagraphKind) (bik b1)).
  { eapply Forall_impl; [|exact Hf]. intros u (A & B & C). split; [exact A|split; [intros _; apply B; exact HK|exact C]]. }
  pose proof (ENT_of_tile src (bstart b1) e (bik b1) ltac:(lia) Hel Ht Hf') as Hent.
  assert (Hfirst : 0 <= istart first < iend first /\ bstart b1 <= istart first /\ NT src (bstart b1) (istart first)).
  { rewrite Eb in Ht, Hent. cbn [map tileS ispan fst snd] in Ht. destruct Ht as (T1 & T2 & _). destruct Hent as [Hfa _]. inversion Hfa as [|? ? (U1 & U2 & _) _]; subst. split; [lia|split; [exact T1|exact T2]]. }
  destruct Hfirst as (F1 & F2 & F3).
  apply (ocp_loop_ok src (bik b1) Hent (bstart b1) e ltac:(lia) Hel Ht (mu src)
           (mu_next src (bik b1) Hent Hio) (mu_current src (bik b1) Hent) (2 * length src + 10)%nat (mu_fuel src (bik b1) Hent)
           (bkind b1) HK Hf Hbe Hio (S (length (bik b1))) b1 (newReader src (bik b1) (istart first)) first rest []).
  split; [exists []; exact Eb|]. split; [exact Eb|]. split.
  { split; [reflexivity|]. split; [exists [], []; split; [exact Eb|rewrite Eb; reflexivity]|]. cbn [r_pos r_vpos newReader]. lia. }
  split; [reflexivity|]. split; [exact Hk|]. split; [exact He|]. split; [reflexivity|]. split; [lia|]. split; [exact F3|].
  split; [exact I|]. cbn [tchain]. split; [lia|apply NT_empty; lia].
Qed.
Print Assumptions OcpLoopSpec_all.
