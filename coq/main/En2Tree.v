From Coq Require Import List ZArith Lia Bool.
Import ListNotations.
Require Import Base Tree Rdr Link Collect LP Rules Starts Driver L2Kind L2CC BSDef BSRdr BSTree BSOcp BSOrph BSClose BSLine1 BSLine2 BSLine3 BSShift
  GramTree ShDef ShRdr ShClose.
Require Import ShapesBase EntBase EntOcpDefs EntOcp.
Open Scope Z_scope.

(* ================================================================================================
   T28, part 2: the invariant `en` on block trees.
     Paragraph / SetextHeading: the entries are `lines` (bounded by M while the block is open, by its end once closed)
                                and start at or after the block's start;
     every closed block ends at a position that cannot split a NUL triple (bdy); blocks of the other kinds
     (except definitions) hold no Unparsed entry;
     ATXHeading: always closed (it is opened and closed inside its start function), at most one Unparsed entry inside the block;
     no open SetextHeading.
   ================================================================================================ *)
Definition isPS (K : Z) : Prop := K = ParagraphKind \/ K = SetextHeadingKind.
(* (En2*: the same development as Ent*, with two more facts about the single entry [a, t) of an ATX heading:
   line ending bytes only form a suffix of it, and what follows its end) *)
Definition isSTLEz (c : Z) : Prop := c = 32 \/ c = 9 \/ c = 10 \/ c = 13.
Definition eolTail (B : bytes) (a t : Z) : Prop :=
  forall i, a <= i < t -> isEOLz (at_ B i) -> forall j, i <= j < t -> isEOLz (at_ B j).
Definition atxTail (B : bytes) (a t : Z) : Prop :=
  a = t \/ len B <= t \/ isSTLEz (at_ B t) \/ (isSTLEz (at_ B (t - 1)) /\ at_ B t <> 41).
Definition atxE (B : bytes) (s e : Z) (ik : list inline) : Prop :=
  ik = [] \/ exists a t, ik = [mkI UnparsedKind a t] /\ 0 <= a /\ s <= a /\ a <= t /\ t <= e /\ eolTail B a t /\ atxTail B a t.
Definition bound (M e : Z) : Z := if e <? 0 then M else e.
(* kinds that carry no condition on the shape of the entries *)
Definition freeK (K : Z) : Prop := K <> ParagraphKind /\ K <> SetextHeadingKind /\ K <> ATXHeadingKind.
Definition noU (ik : list inline) : Prop := forall u, In u ik -> ikind u <> UnparsedKind.
Definition ikOK (B : bytes) (M K s e : Z) (ik : list inline) : Prop :=
  (isPS K -> lines B (bound M e) ik /\ (forall u, In u ik -> s <= istart u) /\ (e < 0 -> 0 <= s <= M)) /\
  (K = ATXHeadingKind -> 0 <= e /\ atxE B s e ik) /\
  (e < 0 -> K <> SetextHeadingKind) /\
  (0 <= e -> bdy B e) /\
  (freeK K -> K <> LinkReferenceDefinitionKind -> noU ik).
Fixpoint en (B : bytes) (M : Z) (b : block) : Prop :=
  match b with Blk K s e bk ik _ _ _ _ _ => ikOK B M K s e ik /\ allP (en B M) bk end.

Lemma en_eq B M b : en B M b <-> ikOK B M (bkind b) (bstart b) (bend b) (bik b) /\ allP (en B M) (bkids b).
Proof. destruct b; reflexivity. Qed.

Lemma bound_open M e : e < 0 -> bound M e = M.
Proof. intros H. unfold bound. destruct (Z.ltb_spec e 0); [reflexivity|lia]. Qed.
Lemma bound_closed M e : 0 <= e -> bound M e = e.
Proof. intros H. unfold bound. destruct (Z.ltb_spec e 0); [lia|reflexivity]. Qed.
Lemma bound_mono M M' e : M <= M' -> bound M e <= bound M' e.
Proof. intros H. unfold bound. destruct (e <? 0); lia. Qed.

Lemma ikOK_mono B M M' K s e ik : M <= M' -> ikOK B M K s e ik -> ikOK B M' K s e ik.
Proof.
  intros H (A & A1 & A2 & A3 & A4). split; [|split; [|split; [|split]]; assumption]. intros HK. destruct (A HK) as (C & C1 & C2).
  split; [eapply lines_mono; [apply bound_mono, H|exact C]|]. split; [exact C1|]. intros He. specialize (C2 He). lia.
Qed.
Lemma en_mono B M M' : M <= M' -> forall b, en B M b -> en B M' b.
Proof.
  intros Hle. fix IH 1. intros [K s e bk ik a n c l lb]. cbn [en]. intros (A & E). split; [eapply ikOK_mono; eassumption|].
  induction bk as [|x r IHr]; [exact I|]. destruct E as [E1 E2]. split; [apply IH, E1|apply IHr, E2].
Qed.
Lemma allP_en_mono B M M' l : M <= M' -> allP (en B M) l -> allP (en B M') l.
Proof. intros H. apply allP_impl. apply en_mono, H. Qed.

Lemma ikOK_free B M K s e ik : freeK K -> (0 <= e -> bdy B e) -> (K <> LinkReferenceDefinitionKind -> noU ik) -> ikOK B M K s e ik.
Proof.
  intros (N1 & N2 & N3) Hb Hn. split; [intros [E|E]; contradiction|]. split; [intros E; contradiction|]. split; [intros _; exact N2|].
  split; [exact Hb|intros _; exact Hn].
Qed.
Lemma noU_nil : noU []. Proof. intros u []. Qed.
Lemma noU_app a b : noU a -> noU b -> noU (a ++ b).
Proof. intros Ha Hb u Hu. apply in_app_or in Hu. destruct Hu; [apply Ha|apply Hb]; assumption. Qed.
Lemma noU_incl a b : (forall u, In u a -> In u b) -> noU b -> noU a.
Proof. intros H Hb u Hu. apply Hb, H, Hu. Qed.

(* ---- setters ---- *)
Lemma en_set_bn B M b v : en B M (set_bn b v) <-> en B M b. Proof. destruct b; reflexivity. Qed.
Lemma en_set_bchar B M b v : en B M (set_bchar b v) <-> en B M b. Proof. destruct b; reflexivity. Qed.
Lemma en_set_bindent B M b v : en B M (set_bindent b v) <-> en B M b. Proof. destruct b; reflexivity. Qed.
Lemma en_set_bloose B M b v : en B M (set_bloose b v) <-> en B M b. Proof. destruct b; reflexivity. Qed.
Lemma en_set_blast B M b v : en B M (set_blast b v) <-> en B M b. Proof. destruct b; reflexivity. Qed.

Lemma en_set_bkids B M b ks : en B M b -> allP (en B M) ks -> en B M (set_bkids b ks).
Proof. rewrite !en_eq. rewrite bkind_set_bkids, bstart_set_bkids, bend_set_bkids, bik_set_bkids, bkids_set_bkids. tauto. Qed.
Lemma en_lastBlock B M b c : en B M b -> lastBlock b = Some c -> en B M c.
Proof. rewrite en_eq. intros (_ & H) Hl. eapply allP_In; [exact H|eapply lastBlock_In; exact Hl]. Qed.
Lemma en_getAt B M : forall d b x, en B M b -> getAt d b = Some x -> en B M x.
Proof.
  induction d as [|d IH]; intros b x Hb H; [inversion H; subst; exact Hb|]. cbn [getAt] in H.
  destruct (lastBlock b) as [c|] eqn:El; [|discriminate]. eapply IH; [|exact H]. eapply en_lastBlock; eassumption.
Qed.
Lemma en_set_lastBlocks B M b c L : en B M b -> lastBlock b = Some c -> allP (en B M) L -> en B M (set_lastBlocks b L).
Proof.
  intros Hb Hl HL. unfold set_lastBlocks. pose proof (lastBlock_split b c Hl) as Es.
  pose proof Hb as Hb'. rewrite en_eq in Hb'. destruct Hb' as (_ & E). rewrite Es in E. apply allP_app in E.
  apply en_set_bkids; [exact Hb|]. apply allP_app. tauto.
Qed.
Lemma en_updAt_at B M f : forall d b, en B M b -> (forall x, getAt d b = Some x -> en B M x -> en B M (f x)) -> en B M (updAt d f b).
Proof.
  induction d as [|d IH]; intros b Hb Hf; [apply Hf; [reflexivity|exact Hb]|]. cbn [updAt].
  destruct (lastBlock b) as [c|] eqn:El; [|exact Hb].
  eapply en_set_lastBlocks; [exact Hb|exact El|]. split; [|exact I].
  apply IH; [eapply en_lastBlock; eassumption|]. intros x Hx. apply Hf. cbn [getAt]. rewrite El. exact Hx.
Qed.
Lemma en_append B M x y : en B M x -> en B M y -> en B M (appendB y x).
Proof.
  intros Hx Hy. pose proof Hx as Hx'. rewrite en_eq in Hx'. destruct Hx' as (_ & C). unfold appendB.
  apply en_set_bkids; [exact Hx|]. apply allP_app. split; [exact C|split; [exact Hy|exact I]].
Qed.

(* a fresh block *)
Lemma en_newBlock B M K s : K <> SetextHeadingKind -> K <> ATXHeadingKind -> 0 <= s <= M -> en B M (newBlock K s).
Proof.
  intros N N2 Hs. unfold newBlock. cbn [en]. split; [|exact I]. split; [|split; [|split; [|split]]].
  - intros _. split; [exact I|]. split; [intros u []|intros _; exact Hs].
  - intros E. contradiction.
  - intros _. exact N.
  - intros; lia.
  - intros _ _. apply noU_nil.
Qed.

(* ---- closing ---- *)
Lemma en_set_bend_close B M b e : en B M b -> bend b < 0 -> M <= e -> 0 <= e -> bdy B e -> en B M (set_bend b e).
Proof.
  rewrite !en_eq. rewrite bkind_set_bend, bstart_set_bend, bend_set_bend, bik_set_bend, bk_set_bend.
  intros ((A & A1 & A2 & A3 & A4) & C) Ho HM He Hbd. split; [|exact C]. split; [|split; [|split; [|split]]].
  - intros HK. destruct (A HK) as (C1 & C2 & C3). rewrite bound_open in C1 by exact Ho. rewrite bound_closed by exact He.
    split; [apply (lines_mono B M e HM), C1|]. split; [exact C2|intros; lia].
  - intros HK. destruct (A1 HK) as (C1 & _). lia.
  - intros; lia.
  - intros _. exact Hbd.
  - exact A4.
Qed.

Lemma en_onCloseList B M b : en B M b -> en B M (onCloseList b).
Proof.
  intros H. unfold onCloseList. cbv zeta. destruct (bloose b || _); [|exact H].
  apply en_set_bkids; [apply en_set_bloose, H|]. rewrite en_eq in H. destruct H as (_ & H).
  apply allP_map. eapply allP_impl; [|exact H]. intros x Hx. apply en_set_bloose, Hx.
Qed.
Lemma en_set_bik_free B M b ik : freeK (bkind b) -> (bkind b <> LinkReferenceDefinitionKind -> noU ik) -> en B M b -> en B M (set_bik b ik).
Proof.
  intros HK Hn. rewrite !en_eq. destruct b as [K s e bk ik0 a n c l lb]. cbn [set_bik bkind bstart bend bik bkids] in *.
  intros ((_ & _ & _ & A3 & _) & C). split; [apply ikOK_free; assumption|exact C].
Qed.
Lemma en_noU B M b : en B M b -> freeK (bkind b) -> bkind b <> LinkReferenceDefinitionKind -> noU (bik b).
Proof. rewrite en_eq. intros ((_ & _ & _ & _ & A) & _). exact A. Qed.

Lemma bik_set_bik' b v : bik (set_bik b v) = v. Proof. destruct b; reflexivity. Qed.

(* the entries kept by onCloseIndented are among the old ones *)
Lemma trimBlankTail_incl src : forall rk u, In u (trimBlankTail src rk) -> In u rk.
Proof.
  induction rk as [|c r IH]; intros u Hu; [exact Hu|]. cbn [trimBlankTail] in Hu.
  destruct (_ && _); [right; apply IH, Hu|exact Hu].
Qed.
Lemma onCloseIndented_incl src b u : In u (bik (onCloseIndented src b)) -> In u (bik b).
Proof.
  unfold onCloseIndented. cbv zeta. rewrite bik_set_bik'. intros Hu. rewrite <- in_rev in Hu. apply trimBlankTail_incl in Hu. rewrite <- in_rev in Hu.
  destruct (rev (bik b)) as [|l0 [|pv r]] eqn:Er; try exact Hu.
  destruct (_ && _ && _ && _); [|exact Hu]. rewrite <- in_rev in Hu. rewrite (in_rev (bik b)), Er. right. exact Hu.
Qed.

Lemma agree_src B H : H <= len B -> agreeTo B (upto B H) H /\ len (upto B H) = H \/ H < 0.
Proof.
  intros HB. destruct (Z.lt_ge_cases H 0) as [L|L]; [right; exact L|left]. split; [apply agreeTo_upto, HB|].
  rewrite ShapesBase.len_upto. lia.
Qed.

Lemma bdy_src B H e : H <= len B -> bdy B H -> bdy (upto B H) e -> e <= len (upto B H) -> 0 <= H -> bdy B e.
Proof.
  intros HB HH Hb Hle H0. assert (Hl : len (upto B H) = H) by (rewrite ShapesBase.len_upto; lia). rewrite Hl in *.
  destruct Hb as [Hb|[Hb|Hb]]; [left; exact Hb|replace e with H by lia; exact HH|].
  right. right. destruct (Z.lt_ge_cases (e - 1) 0) as [L|L]; [rewrite ShapesBase.at_neg in Hb by lia; congruence|].
  rewrite ShapesBase.at_upto in Hb by lia. exact Hb.
Qed.

Lemma en_closeBlock B M H src e : src = upto B H -> H <= len B -> 0 <= e <= H -> M <= e -> bdy B e -> bdy B H ->
  forall fuel b, en B M b -> allP (en B M) (closeBlock fuel src b e).
Proof.
  intros Esrc HB He HM Hbe HbH. induction fuel as [|f IH]; intros b Hb; [split; [exact Hb|exact I]|].
  cbn [closeBlock]. destruct (isOpen b) eqn:Eo; cbn [negb]; [|split; [exact Hb|exact I]].
  unfold isOpen in Eo. apply Z.ltb_lt in Eo. cbv zeta.
  pose proof (en_set_bend_close B M b e Hb Eo HM ltac:(lia) Hbe) as Hb1.
  assert (Hcl : forall x, en B M x -> en B M (match lastBlock x with Some c => set_lastBlocks x (closeBlock f src c e) | None => x end)).
  { intros x Hx. destruct (lastBlock x) as [c|] eqn:El; [|exact Hx].
    eapply en_set_lastBlocks; [exact Hx|exact El|]. apply IH. eapply en_lastBlock; eassumption. }
  rewrite bkind_set_bend.
  destruct (Z.eqb_spec (bkind b) ListKind) as [EL|NL].
  { split; [|exact I]. apply Hcl, en_onCloseList, Hb1. }
  destruct (Z.eqb_spec (bkind b) IndentedCodeBlockKind) as [EI|NI].
  { split; [|exact I]. apply Hcl.
    assert (Hfk : freeK (bkind (set_bend b e))) by (rewrite bkind_set_bend, EI; repeat split; discriminate).
    assert (Hnl : bkind (set_bend b e) <> LinkReferenceDefinitionKind) by (rewrite bkind_set_bend, EI; discriminate).
    pose proof (en_noU B M _ Hb1 Hfk Hnl) as HnU.
    assert (Eq : onCloseIndented src (set_bend b e) = set_bik (set_bend b e) (bik (onCloseIndented src (set_bend b e)))).
    { unfold onCloseIndented. cbv zeta. rewrite bik_set_bik'. reflexivity. }
    rewrite Eq. apply en_set_bik_free; [exact Hfk| |exact Hb1].
    intros _. eapply noU_incl; [|exact HnU]. intros u. apply onCloseIndented_incl. }
  destruct ((bkind b =? ParagraphKind) || (bkind b =? SetextHeadingKind)) eqn:Ep.
  2:{ split; [|exact I]. apply Hcl, Hb1. }
  pose proof Hb as Hb'. rewrite en_eq in Hb'. destruct Hb' as ((A & _ & A2 & _) & C).
  assert (HK : bkind b = ParagraphKind).
  { apply orb_true_iff in Ep. destruct Ep as [Ep|Ep]; apply Z.eqb_eq in Ep; [exact Ep|]. exfalso. apply (A2 Eo). exact Ep. }
  destruct (A (or_introl HK)) as (L1 & L2 & L3). rewrite bound_open in L1 by exact Eo.
  rewrite onCloseParagraph_run by (rewrite bkind_set_bend, HK; discriminate).
  assert (Hlen : len src = H) by (rewrite Esrc, ShapesBase.len_upto; lia).
  assert (Hls : lines src e (bik (set_bend b e))).
  { rewrite bik_set_bend. apply (lines_agree B src H e); [rewrite Esrc; apply agreeTo_upto, HB|lia|exact Hlen|exact HB|].
    apply (lines_mono B M e HM), L1. }
  apply allP_intro. intros y Hy.
  destruct (ocpRun_spec2 src (set_bend b e) e Hls ltac:(lia) ltac:(rewrite bik_set_bend, bstart_set_bend; exact L2) y Hy)
    as [(K1 & K2 & K3 & K4)|[(pos & n & Ey & Hpos)|Ey]].
  - rewrite en_eq, K2. split; [|exact I]. apply ikOK_free; [rewrite K1; repeat split; discriminate| |intros X; rewrite K1 in X; contradiction].
    intros _. apply (bdy_src B H); [exact HB|exact HbH|rewrite <- Esrc; exact K3|rewrite <- Esrc; exact K4|lia].
  - subst y. rewrite bik_set_bend in *. rewrite en_eq.
    assert (F : bkind (set_bik (set_bstart (set_bend b e) pos) (skipn n (bik b))) = bkind b /\
                bstart (set_bik (set_bstart (set_bend b e) pos) (skipn n (bik b))) = pos /\
                bend (set_bik (set_bstart (set_bend b e) pos) (skipn n (bik b))) = e /\
                bik (set_bik (set_bstart (set_bend b e) pos) (skipn n (bik b))) = skipn n (bik b) /\
                bkids (set_bik (set_bstart (set_bend b e) pos) (skipn n (bik b))) = bkids b) by (destruct b; repeat split).
    destruct F as (F1 & F2 & F3 & F4 & F5). rewrite F1, F2, F3, F4, F5. split; [|exact C].
    split; [|split; [|split; [|split]]].
    + intros _. rewrite bound_closed by lia. split; [apply lines_skipn; apply (lines_mono B M e HM), L1|]. split; [exact Hpos|intros; lia].
    + intros E. rewrite HK in E. discriminate.
    + intros; lia.
    + intros _. exact Hbe.
    + intros (X & _). rewrite HK in X. contradiction.
  - subst y. exact Hb1.
Qed.

(* every result of closing is closed (top level) *)
Lemma lines_ascI B M : forall ik lo, lines B M ik -> (forall u, In u ik -> lo <= istart u) -> lo <= M -> ascI lo M ik.
Proof.
  induction ik as [|u r IH]; intros lo Hl Hlo HM; [exact HM|]. cbn [ascI].
  destruct (lines_entry B M (u :: r) u Hl (or_introl eq_refl)) as (A1 & A2 & A3 & _).
  split; [apply Hlo; left; reflexivity|]. split; [lia|]. apply IH; [eapply lines_tail; exact Hl| |exact A3].
  intros j Hj. eapply lines_sorted; [exact Hl|exact Hj].
Qed.

Lemma closeBlock_closedL B M src e fuel b : 0 <= e -> (1 <= fuel)%nat -> cc b = true -> en B M b -> closedL (closeBlock fuel src b e).
Proof.
  intros He Hf Hc Hb. destruct fuel as [|f]; [lia|]. cbn [closeBlock].
  destruct (isOpen b) eqn:Eo; cbn [negb]; [|unfold isOpen in Eo; apply Z.ltb_ge in Eo; split; [exact Eo|exact I]].
  unfold isOpen in Eo. apply Z.ltb_lt in Eo. cbv zeta.
  assert (Hcl : forall x, bend x = e -> closedL [match lastBlock x with Some c => set_lastBlocks x (closeBlock f src c e) | None => x end]).
  { intros x Ex. split; [|exact I]. cbn beta. destruct (lastBlock x); [rewrite bend_set_lastBlocks|]; lia. }
  rewrite bkind_set_bend.
  destruct (bkind b =? ListKind); [apply Hcl; rewrite bend_onCloseList; apply bend_set_bend|].
  destruct (bkind b =? IndentedCodeBlockKind); [apply Hcl; unfold onCloseIndented; rewrite bend_set_bik; apply bend_set_bend|].
  destruct ((bkind b =? ParagraphKind) || (bkind b =? SetextHeadingKind)) eqn:Ep; [|apply Hcl, bend_set_bend].
  pose proof Hb as Hb'. rewrite en_eq in Hb'. destruct Hb' as ((A & _ & A2 & _) & C).
  assert (HK : bkind b = ParagraphKind).
  { apply orb_true_iff in Ep. destruct Ep as [Ep|Ep]; apply Z.eqb_eq in Ep; [exact Ep|]. exfalso. apply (A2 Eo). exact Ep. }
  destruct (A (or_introl HK)) as (L1 & L2 & L3). rewrite bound_open in L1 by exact Eo. specialize (L3 Eo).
  pose proof (para_no_kids b Hc HK) as Hk.
  unfold onCloseParagraph. rewrite bik_set_bend. destruct (bik b) as [|first rest] eqn:Eb.
  { split; [rewrite bend_set_bend; exact He|exact I]. }
  cbv zeta. rewrite bkind_set_bend, HK. change (ParagraphKind =? SetextHeadingKind) with false. cbv iota.
  rewrite <- Eb. rewrite <- (bik_set_bend b e).
  pose proof (ocp_res_start ParagraphKind (bn b) e M (2 * length src + 10) src (set_bend b e) He ltac:(lia)
                ltac:(rewrite bk_set_bend; exact Hk) (bend_set_bend b e) ltac:(rewrite bkind_set_bend; exact HK) ltac:(destruct b; reflexivity)
                ltac:(rewrite bstart_set_bend; lia)
                ltac:(rewrite bstart_set_bend, bik_set_bend, Eb; apply (lines_ascI B); [exact L1|exact L2|lia]) first rest
                ltac:(rewrite bik_set_bend; exact Eb)) as Hres.
  eapply allP_impl; [|exact Hres]. intros y (Hy & _). exact Hy.
Qed.

(* ---- cutting the buffer (makeRoot) ---- *)
Lemma lineOK_shift B n s e : 0 <= n <= s -> n <= len B -> lineOK B s e -> lineOK (from_ B n) (s - n) (e - n).
Proof.
  intros Hn HB (A & A1 & A2 & A3 & A4).
  assert (Hat : forall i, n <= i -> at_ (from_ B n) (i - n) = at_ B i).
  { intros i Hi. rewrite ShapesBase.at_from by lia. f_equal. lia. }
  assert (Hl : len (from_ B n) = len B - n) by (apply ShapesBase.len_from; lia).
  split; [lia|]. split; [lia|]. split; [lia|]. split.
  - intros i Hi. replace i with ((i + n) - n) by lia. rewrite Hat by lia. intros Hz.
    destruct (A3 (i + n) ltac:(lia) Hz) as [E|(E1 & E2 & E3)]; [left; lia|right]. split; [lia|]. split; [exact E2|].
    replace (e - n - 1) with ((e - 1) - n) by lia. rewrite Hat by lia. exact E3.
  - destruct A4 as [A4|[A4 A5]]; [left; lia|right]. split; [lia|]. replace (e - n - 1) with ((e - 1) - n) by lia. rewrite Hat by lia. exact A5.
Qed.

Lemma istart_shiftI n u : istart (shiftI n u) = istart u + n. Proof. destruct u; reflexivity. Qed.
Lemma iend_shiftI n u : 0 <= iend u -> iend (shiftI n u) = iend u + n.
Proof. destruct u as [k s e i r ks]. cbn [shiftI iend]. intros H. destruct (Z.leb_spec 0 e); [reflexivity|lia]. Qed.
Lemma ikind_shiftI' n u : ikind (shiftI n u) = ikind u. Proof. destruct u; reflexivity. Qed.
Lemma iindent_shiftI n u : iindent (shiftI n u) = iindent u. Proof. destruct u; reflexivity. Qed.
Lemma ikids_shiftI n u : ikids u = [] -> ikids (shiftI n u) = []. Proof. destruct u as [k s e i r ks]. cbn. intros ->. reflexivity. Qed.

Lemma lines_shift B n M : 0 <= n <= len B -> forall ik, lines B M ik -> (forall u, In u ik -> n <= istart u) ->
  lines (from_ B n) (M - n) (map (shiftI (- n)) ik).
Proof.
  intros Hn.
  assert (Hat : forall i, n <= i -> at_ (from_ B n) (i - n) = at_ B i).
  { intros i Hi. rewrite ShapesBase.at_from by lia. f_equal. lia. }
  induction ik as [|u r IH]; intros Hl Hlo; [exact I|]. pose proof Hl as (A & A1 & A2). cbn [map lines].
  destruct (lines_entry B M (u :: r) u Hl (or_introl eq_refl)) as (E1 & E2 & E3 & _).
  pose proof (Hlo u (or_introl eq_refl)) as Hu.
  split; [|split].
  - destruct A as [(C & C1 & C2 & C3 & C4 & C5 & C6)|[(C & C1 & C2 & C3 & C4 & C5) Hnx]].
    + left. unfold unpOK. rewrite ikind_shiftI', istart_shiftI, iend_shiftI by lia.
      split; [exact C|]. split; [apply ikids_shiftI, C1|]. split; [lia|]. split; [lia|]. split; [lia|]. split.
      * replace (istart u + - n) with (istart u - n) by lia. replace (iend u + - n) with (iend u - n) by lia. apply lineOK_shift; [lia|lia|exact C5].
      * replace (istart u + - n) with (istart u - n) by lia. rewrite Hat by lia. exact C6.
    + right. split.
      * unfold indOK. rewrite ikind_shiftI', istart_shiftI, iend_shiftI, iindent_shiftI by lia.
        split; [exact C|]. split; [apply ikids_shiftI, C1|]. split; [lia|]. split; [lia|]. split; [|exact C5].
        replace (istart u + - n) with (istart u - n) by lia. rewrite Hat by lia. exact C4.
      * unfold nextIs in *. destruct r as [|v r']; [contradiction|]. cbn [map]. rewrite ikind_shiftI', istart_shiftI, iend_shiftI by lia.
        destruct Hnx as [N1 N2]. split; [exact N1|lia].
  - intros j Hj. apply in_map_iff in Hj. destruct Hj as (j0 & <- & Hj0). destruct (A1 j0 Hj0) as [D1 D2].
    rewrite istart_shiftI, iend_shiftI by lia. split; [lia|]. replace (istart j0 + - n - 1) with ((istart j0 - 1) - n) by lia.
    rewrite Hat by lia. exact D2.
  - apply IH; [exact A2|]. intros x Hx. apply Hlo. right. exact Hx.
Qed.

Lemma en_shift B n : 0 <= n <= len B -> forall M M' b, sp M' b -> n <= bstart b -> en B M b ->
  en (from_ B n) (M - n) (shiftB (- n) b).
Proof.
  intros Hn M M'. fix IH 1. intros [K s e bk ik a nn c l lb] HS Hs. cbn [bstart] in Hs. cbn [shiftB en sp] in *.
  intros ((A & A1 & A2 & A3 & A4) & C). destruct HS as (P1 & P2 & _ & P4 & P5).
  assert (Hst : forall x, In x bk -> n <= bstart x).
  { intros x Hx. pose proof (chain_starts _ _ _ x P4 Hx). lia. }
  assert (Hb : bound (M - n) (if 0 <=? e then e + - n else e) = bound M e - n).
  { unfold bound. destruct (Z.leb_spec 0 e) as [L|L].
    - destruct (Z.ltb_spec e 0); [lia|]. destruct (Z.ltb_spec (e + - n) 0); lia.
    - destruct (Z.ltb_spec e 0); [reflexivity|lia]. }
  split.
  - split; [|split; [|split; [|split]]].
    + intros HK. destruct (A HK) as (C1 & C2 & C3). rewrite Hb. split; [apply lines_shift; [exact Hn|exact C1|]|].
      * intros u Hu. specialize (C2 u Hu). lia.
      * split.
        -- intros u Hu. apply in_map_iff in Hu. destruct Hu as (u0 & <- & Hu0). rewrite istart_shiftI. specialize (C2 u0 Hu0). lia.
        -- intros He. destruct (Z.leb_spec 0 e) as [L|L]; [lia|]. specialize (C3 L). lia.
    + intros HK. destruct (A1 HK) as (C1 & C2). destruct (Z.leb_spec 0 e) as [L|L]; [|lia]. split; [lia|].
      destruct C2 as [->|(a0 & t & -> & D1 & D2 & D3 & D4 & D5 & D6)]; [left; reflexivity|right].
      exists (a0 - n), (t - n). split; [unfold mkI; cbn [map shiftI]; destruct (Z.leb_spec 0 t); [|lia]; f_equal; lia|].
      split; [lia|]. split; [lia|]. split; [lia|]. split; [lia|].
      assert (Hat' : forall i, n <= i -> at_ (from_ B n) (i - n) = at_ B i) by (intros i Hi; rewrite ShapesBase.at_from by lia; f_equal; lia).
      split.
      * intros i Hi Hz j Hj. replace j with ((j + n) - n) by lia. rewrite Hat' by lia. apply (D5 (i + n) ltac:(lia)); [|lia].
        replace i with ((i + n) - n) in Hz by lia. rewrite Hat' in Hz by lia. exact Hz.
      * unfold atxTail in *. rewrite ShapesBase.len_from by lia. destruct D6 as [X|[X|[X|[X1 X2]]]]; [left; lia|right; left; lia| |].
        -- destruct (Z.lt_ge_cases t (len B)) as [Lt|Ge]; [|right; left; lia]. right. right. left. rewrite Hat' by lia. exact X.
        -- destruct (Z.eq_dec a0 t) as [Eq|Ne]; [left; lia|]. destruct (Z.lt_ge_cases t (len B)) as [Lt|Ge]; [|right; left; lia].
           right. right. right. replace (t - n - 1) with ((t - 1) - n) by lia. rewrite !Hat' by lia. split; assumption.
    + intros He. apply A2. destruct (Z.leb_spec 0 e); lia.
    + destruct (Z.leb_spec 0 e) as [L|L]; [|intros; lia]. intros _. specialize (A3 L).
      assert (Hne : n <= e) by lia. unfold bdy in *. rewrite ShapesBase.len_from by lia.
      destruct A3 as [X|[X|X]]; [left; lia|right; left; lia|].
      destruct (Z.eq_dec e n) as [->|Nn]; [left; lia|]. right. right. rewrite ShapesBase.at_from by lia. replace (n + (e + - n - 1)) with (e - 1) by lia. exact X.
    + intros HK HL u Hu. apply in_map_iff in Hu. destruct Hu as (u0 & <- & Hu0). rewrite ikind_shiftI'. apply (A4 HK HL u0 Hu0).
  - clear A A1 A2 A3 A4 P4. induction bk as [|x r IHr]; [exact I|]. destruct C as [C1 C2]. destruct P5 as [Q1 Q2]. cbn [map allP]. split.
    + apply IH; [exact Q1|apply Hst; left; reflexivity|exact C1].
    + apply IHr; [exact Q2|exact C2|]. intros y Hy. apply Hst. right. exact Hy.
Qed.
