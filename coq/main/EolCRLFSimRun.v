From Coq Require Import List ZArith Lia Bool.
Import ListNotations.
Require Import LAPad ShDef.
Require Import Base Tree Rdr Link Collect Html Recog LP Rules Starts Driver Rec16 Rec17 Rec18 L2BndS StreamFuel
  EolCRDefs EolCRBytes EolCRLFDefs EolCRLFSimBytes EolCRLFSimTree EolCRLFSimLeDefs EolCRLFSimLe EolCRLFSimStream EolCRLFSimLP EolCRLFSimLine.
Open Scope Z_scope.

(* C14 (ii), CRLF clause, inputs without '[': the stream layer. *)

(* image of a stream state / of an emitted root, relative to the buffer B of the LF run at the time of the cut *)
Definition stQ (s : bpst) : bpst :=
  {| buf := crlf (buf s); bi := phiP (buf s) (bi s); boff := boff s + (bline s - 1); bline := bline s;
     pending := map (phiB (buf s)) (pending s) |}.
Definition rootQ (B : bytes) (D : Z) (r : rootB) : rootB :=
  let pre := upto B (bend (rb_blk r)) in
  {| rb_line := rb_line r; rb_start := rb_start r + D; rb_end := rb_end r + D + count10 pre;
     rb_src := fillNulls (crlf pre); rb_blk := phiB pre (rb_blk r) |}.

Lemma nnI_shift n : forall u, geI n u = true -> 0 <= n -> nnI (shiftI (- n) u) = true.
Proof. intros [k s e i r ks] H Hn. cbn [geI] in H. unfold nnI. cbn [shiftI istart]. apply andb_true_iff in H. destruct H as [H _]. apply andb_true_iff in H. destruct H as [H _]. apply Z.leb_le in H. apply Z.leb_le. lia. Qed.
Lemma nnB_shift n (Hn : 0 <= n) : forall b, geB n b = true -> nnB (shiftB (- n) b) = true.
Proof.
  fix IH 1. intros [K s e bk ik a m c l lb] H. cbn [geB] in H. apply andb_true_iff in H. destruct H as [H Hk]. apply andb_true_iff in H. destruct H as [_ Hi].
  cbn [shiftB nnB]. apply andb_true_iff. split.
  - rewrite forallb_forall in *. intros x Hx. apply in_map_iff in Hx. destruct Hx as (y & <- & Hy). apply nnI_shift; [apply Hi, Hy|exact Hn].
  - induction bk as [|x r IHr]; [reflexivity|]. cbn [forallb map] in *. apply andb_true_iff in Hk. destruct Hk as [H1 H2]. rewrite (IH x H1), (IHr H2). reflexivity.
Qed.

Definition SQ (s s' : bpst) : Prop :=
  buf s' = crlf (buf s) /\ bi s' = phiP (buf s) (bi s) /\ boff s' = boff s + (bline s - 1) /\ bline s' = bline s.

Lemma leB_end H b : leB H b = true -> bend b <= H.
Proof. destruct b as [K s e bk ik a m c l lb]. cbn [leB bend]. intros E. apply andb_true_iff in E. destruct E as [E _]. apply andb_true_iff in E. destruct E as [E _]. apply andb_true_iff in E. destruct E as [_ E]. apply Z.leb_le, E. Qed.

Lemma sim_makeRoot_none ch s s' : makeRoot ch s = None -> makeRoot (map (phiB (buf s)) ch) s' = None.
Proof.
  unfold makeRoot. destruct ch as [|b rest]; [reflexivity|]. cbn [map]. rewrite isOpen_M. destruct (isOpen b); [reflexivity|discriminate].
Qed.

Definition GoodBi (s : bpst) : Prop := bi s = 0 \/ bi s = len (buf s) \/ at_ (buf s) (bi s - 1) = 10.

Lemma sim_makeRoot ch s s' r s1 : SQ s s' -> ~ In 13 (buf s) -> 0 <= bi s <= len (buf s) -> leL (bi s) ch = true -> GoodBi s ->
  (forall b rest, ch = b :: rest -> isOpen b = false -> leB (bend b) b = true /\ geL (bend b) rest = true) ->
  makeRoot ch s = Some (r, s1) ->
  makeRoot (map (phiB (buf s)) ch) s' = Some (rootQ (buf s) (bline s - 1) r, stQ s1) /\
  forallb nnB (pending s1) = true /\ leL (bi s1) (pending s1) = true /\ 0 <= bi s1 <= len (buf s1) /\ buf s1 = from_ (buf s) (bend (rb_blk r)) /\
  rb_line r = bline s /\ rb_src r = fillNulls (upto (buf s) (bend (rb_blk r))) /\ GoodBi s1.
Proof.
  intros (Q1 & Q2 & Q3 & Q4) S13 Hbi Hle Hgb HUL Hm. unfold makeRoot in *. destruct ch as [|b rest]; [discriminate|]. cbn [map]. rewrite isOpen_M.
  destruct (isOpen b) eqn:Eo; [discriminate|]. injection Hm as <- <-.
  destruct (HUL b rest eq_refl Eo) as [HU HL]. unfold isOpen in Eo. apply Z.ltb_ge in Eo.
  cbn [leL forallb] in Hle. apply andb_true_iff in Hle. destruct Hle as [Hb Hr]. pose proof (leB_end _ _ Hb) as Hn.
  set (B := buf s) in *. set (n := bend b) in *.
  assert (En : bend (phiB B b) = phiP B n) by apply bend_M.
  assert (S13p : ~ In 13 (upto B n)) by (apply notIn_upto, S13).
  rewrite En, Q1, Q2, Q3, Q4. fold B.
  split; [|split; [|split; [|split; [|split; [|split; [|split]]]]]].
  - f_equal. f_equal.
    + unfold rootQ. cbn [rb_blk rb_line rb_start rb_end rb_src]. fold n.
      rewrite (unpadded_upto_crlf B n Eo), (count10_upto_phiP B n Eo), (upto_crlf_phiP B n Eo).
      rewrite (phiB_upto B n n b ltac:(lia) HU). f_equal. lia.
    + unfold stQ. cbn [buf bi boff bline pending].
      rewrite (from_crlf_phiP B n Eo), (unpadded_upto_crlf B n Eo), (lineCount_upto_crlf B n S13 Eo), (map_phiB_shift B n Eo rest HL).
      rewrite (phiP_from B n (bi s) ltac:(lia)), (lineCount_count10 _ S13p), (count10_upto_phiP B n Eo). f_equal. lia.
  - cbn [pending]. rewrite forallb_forall. intros x Hx. apply in_map_iff in Hx. destruct Hx as (y & <- & Hy).
    apply nnB_shift; [exact Eo|]. unfold geL in HL. rewrite forallb_forall in HL. apply HL, Hy.
  - cbn [pending bi]. apply leL_shift; [exact Eo|lia|exact Hr].
  - cbn [bi buf]. rewrite len_from by lia. lia.
  - reflexivity.
  - reflexivity.
  - reflexivity.
  - unfold GoodBi in *. cbn [bi buf]. change (buf s) with B in Hgb |- *. rewrite len_from by lia.
    destruct (Z.eq_dec (bi s) n) as [E|N]; [left; lia|]. right.
    destruct Hgb as [G|[G|G]]; [lia|left; lia|right]. rewrite at_from_ by lia. replace (n + (bi s - n - 1)) with (bi s - 1) by lia. exact G.
Qed.

(* one processLine step of lineLoop on the two buffers *)
Lemma sim_line st ch ls s : ~ In 13 (buf s) -> ~ In 91 (buf s) -> 0 <= ls <= len (buf s) -> bi s = lineEnd (buf s) ls ->
  forallb nnB ch = true -> leL ls ch = true ->
  processLine st (map (phiB (buf s)) ch) (phiP (buf s) ls) (upto (crlf (buf s)) (phiP (buf s) (bi s))) =
    (map (phiB (buf s)) (fst (fst (processLine st ch ls (upto (buf s) (bi s))))),
     snd (fst (processLine st ch ls (upto (buf s) (bi s)))), snd (processLine st ch ls (upto (buf s) (bi s)))) /\
  forallb nnB (fst (fst (processLine st ch ls (upto (buf s) (bi s))))) = true /\
  leL (bi s) (fst (fst (processLine st ch ls (upto (buf s) (bi s))))) = true /\ ls <= bi s <= len (buf s).
Proof.
  intros S13 S91 Hls Hbi Hnn Hle. set (B := buf s) in *.
  destruct (lineEnd_bounds_no13 B ls S13 Hls) as [A1 A2]. rewrite <- Hbi in A1, A2.
  set (src := upto B (bi s)).
  assert (Hl : len src = bi s) by (apply len_upto; lia).
  assert (Eline : from_ src ls = sub B ls (lineEnd B ls)).
  { unfold src, sub. rewrite Hbi. apply ShDef.from_upto. lia. }
  assert (Lok : lineOK (from_ src ls)) by (rewrite Eline; apply line_lineOK; [exact S13|lia]).
  assert (S13s : ~ In 13 src) by (apply notIn_upto, S13). assert (S91s : ~ In 91 src) by (apply notIn_upto, S91).
  destruct (CQ_processLine st ch ls src S13s S91s ltac:(lia) Lok Hnn) as [E Hn'].
  assert (Hlen : ls + len (from_ src ls) = bi s) by (rewrite len_from by lia; lia).
  pose proof (le_processLine (bi s) st ch ls src S91s ltac:(lia) Hlen ltac:(lia) (leL_mono ls (bi s) ch A1 Hle)) as Hle'.
  subst src. rewrite <- (upto_crlf_phiP B (bi s)) in E by lia.
  rewrite (map_phiB_upto B (bi s) ls ch A1 Hle), (phiP_upto B (bi s) ls A1) in E.
  rewrite (map_phiB_upto B (bi s) (bi s) _ ltac:(lia) Hle') in E.
  split; [exact E|]. split; [exact Hn'|]. split; [exact Hle'|lia].
Qed.

Lemma at_In' (l : bytes) i c : at_ l i = c -> c <> 0 -> In c l.
Proof.
  intros E N. unfold at_ in E. destruct (i <? 0); [congruence|].
  destruct (Nat.lt_ge_cases (Z.to_nat i) (length l)) as [L|L]; [rewrite <- E; apply nth_In, L|rewrite nth_overflow in E by exact L; congruence].
Qed.

Section Run.
  (* the single-run containment invariant of the EolCRLFSimCt files: abstract interface *)
  Variable SJx : bpst -> list block -> bool -> Prop.
  Variable LEx : Z -> list block -> Z -> bpst -> bool -> Prop.
  Hypothesis LEx_basic : forall st ch ls s ns, LEx st ch ls s ns -> 0 <= ls <= len (buf s) /\ bi s = lineEnd (buf s) ls.
  Hypothesis X_step : forall st ch ls s ns, LEx st ch ls s ns ->
    exists ns', SJx s (fst (fst (processLine st ch ls (upto (buf s) (bi s))))) ns' /\
      (makeRoot (fst (fst (processLine st ch ls (upto (buf s) (bi s))))) s = None ->
       LEx (snd (fst (processLine st ch ls (upto (buf s) (bi s))))) (fst (fst (processLine st ch ls (upto (buf s) (bi s))))) (bi s)
           {| buf := buf s; bi := lineEnd (buf s) (bi s); boff := boff s; bline := bline s; pending := pending s |} ns').
  Hypothesis X_make : forall s ch ns r s1, SJx s ch ns -> makeRoot ch s = Some (r, s1) ->
    (forall b rest, ch = b :: rest -> isOpen b = false -> leB (bend b) b = true /\ geL (bend b) rest = true) /\ SJx s1 (pending s1) ns.

  Definition InvS (s : bpst) : Prop :=
    ~ In 13 (buf s) /\ ~ In 91 (buf s) /\ 0 <= bi s <= len (buf s) /\ forallb nnB (pending s) = true /\ leL (bi s) (pending s) = true /\ GoodBi s /\
    exists ns, SJx s (pending s) ns.
  Definition Post (x y : nb) : Prop :=
    match x with
    | NBBlock r s1 => (exists B, PadF B /\ rb_src r = fillNulls (upto B (bend (rb_blk r))) /\ y = NBBlock (rootQ B (rb_line r - 1) r) (stQ s1)) /\ InvS s1
    | NBEof _ => exists t, y = NBEof t
    | NBStuck => y = NBStuck
    | NBPanic k => y = NBPanic k
    end.

  Lemma sim_lineLoop : forall fuel st ch ls s s' ns, LEx st ch ls s ns -> SQ s s' -> ~ In 13 (buf s) -> ~ In 91 (buf s) ->
    forallb nnB ch = true -> leL ls ch = true -> PadF (buf s) ->
    Post (lineLoop fuel st ch ls s) (lineLoop fuel st (map (phiB (buf s)) ch) (phiP (buf s) ls) s').
  Proof.
    induction fuel as [|f IH]; intros st ch ls s s' ns HL HQ S13 S91 Hnn Hle HP; [reflexivity|]. cbn [lineLoop].
    destruct (LEx_basic _ _ _ _ _ HL) as [Hls Hbi].
    destruct (sim_line st ch ls s S13 S91 Hls Hbi Hnn Hle) as (E & Hn' & Hle' & Hb).
    destruct (X_step _ _ _ _ _ HL) as (ns' & HS & HN).
    pose proof HQ as (Q1 & Q2 & Q3 & Q4).
    assert (E' : processLine st (map (phiB (buf s)) ch) (phiP (buf s) ls) (upto (buf s') (bi s')) =
                 (map (phiB (buf s)) (fst (fst (processLine st ch ls (upto (buf s) (bi s))))),
                  snd (fst (processLine st ch ls (upto (buf s) (bi s)))), snd (processLine st ch ls (upto (buf s) (bi s)))))
      by (rewrite Q1, Q2; exact E).
    rewrite E'. clear E E'.
    destruct (processLine st ch ls (upto (buf s) (bi s))) as [[ch' st'] pn]. cbn [fst snd] in *.
    destruct (negb (pn =? 0)); [reflexivity|].
    destruct (makeRoot ch' s) as [[r s1]|] eqn:Em.
    - destruct (X_make _ _ _ _ _ HS Em) as [HUL HS1].
      assert (Hgb : GoodBi s).
      { unfold GoodBi. destruct (lineEnd_spec (buf s) ls Hls) as [_ Hsp]. rewrite <- Hbi in Hsp.
        destruct (Z.eq_dec (bi s) (len (buf s))) as [Eq|Nq]; [right; left; exact Eq|]. right. right.
        destruct (Hsp ltac:(lia)) as [_ He]. unfold isEOLb in He. apply orb_true_iff in He. destruct He as [He|He]; apply Z.eqb_eq in He; [exact He|].
        exfalso. apply S13. apply (at_In' _ _ _ He). discriminate. }
      destruct (sim_makeRoot ch' s s' r s1 HQ S13 ltac:(lia) Hle' Hgb HUL Em) as (Em' & N1 & L1 & B1 & Eb & El & Es & Hg1).
      rewrite Em'. cbn [Post]. split; [exists (buf s); split; [exact HP|split; [exact Es|rewrite El; reflexivity]]|].
      split; [rewrite Eb; apply notIn_from, S13|]. split; [rewrite Eb; apply notIn_from, S91|]. split; [exact B1|]. split; [exact N1|]. split; [exact L1|].
      split; [exact Hg1|]. exists ns'. exact HS1.
    - rewrite (sim_makeRoot_none ch' s s' Em).
      set (s2 := {| buf := buf s; bi := lineEnd (buf s) (bi s); boff := boff s; bline := bline s; pending := pending s |}).
      set (s2' := {| buf := buf s'; bi := lineEnd (buf s') (bi s'); boff := boff s'; bline := bline s'; pending := pending s' |}).
      replace (bi s') with (phiP (buf s) (bi s)) at 1 by (symmetry; exact Q2). fold s2'.
      apply (IH st' ch' (bi s) s2 s2' ns'); [apply HN; reflexivity| |exact S13|exact S91|exact Hn'|exact Hle'|exact HP].
      unfold SQ, s2, s2'. cbn [buf bi boff bline]. rewrite Q1, Q2. split; [reflexivity|]. split; [apply lineEnd_crlf; [exact S13|lia]|]. split; assumption.
  Qed.

  Hypothesis X_nil : forall s, ~ In 91 (buf s) -> bi s = lineEnd (buf s) 0 -> LEx 0 [] 0 s true.
  Hypothesis X_next : forall s ns, SJx s (pending s) ns -> ~ In 91 (buf s) -> 0 <= bi s <= len (buf s) -> pending s <> [] ->
    makeRoot (pending s) s = None ->
    LEx 0 (pending s) (bi s) {| buf := buf s; bi := lineEnd (buf s) (bi s); boff := boff s; bline := bline s; pending := pending s |} ns.

  Lemma sim_skipLoop : forall fuel s s', SQ s s' -> bi s = 0 -> ~ In 13 (buf s) -> ~ In 91 (buf s) -> PadF (buf s) ->
    Post (skipLoop fuel s) (skipLoop fuel s').
  Proof.
    induction fuel as [|f IH]; intros s s' HQ Hb0 S13 S91 HP; [reflexivity|]. cbn [skipLoop]. cbv zeta.
    pose proof HQ as (Q1 & Q2 & Q3 & Q4). set (B := buf s) in *.
    assert (Eb' : bi s' = 0) by (rewrite Q2, Hb0; apply phiP_0).
    assert (Ee : lineEnd (buf s') (bi s') = phiP B (lineEnd B 0)).
    { rewrite Q1, Eb'. rewrite <- (phiP_0 B) at 1. apply lineEnd_crlf; [exact S13|lia]. }
    rewrite Ee, Eb', Hb0. set (e := lineEnd B 0) in *.
    pose proof (len_nonneg B) as HlB.
    destruct (lineEnd_bounds_no13 B 0 S13 ltac:(lia)) as [E0 E1]. fold e in E0, E1.
    assert (Ec : (0 <? phiP B e) = (0 <? e)) by (rewrite <- (phiP_0 B) at 1; apply phiP_ltb).
    rewrite Ec. destruct (Z.ltb_spec 0 e) as [Lt|Ge]; cbn [negb]; [|eexists; reflexivity].
    rewrite Q1, (isBlankLine_upto_crlf B e E0).
    destruct (isBlankLine (upto B e)).
    - (* a blank line is skipped *)
      destruct (lineEnd_cases B 0 S13 ltac:(lia)) as [[_ Hend]|(body & rest' & EB & Hbody & Hend)]; fold e in Hend.
      + (* last line, no line ending: the buffers are used up *)
        assert (F1 : from_ B e = []) by (rewrite Hend; apply Rec16.from_nil; lia).
        assert (F2 : from_ (crlf B) (phiP B e) = []) by (rewrite (from_crlf_phiP B e E0), F1; reflexivity).
        rewrite F1, F2. destruct f as [|f]; [reflexivity|]. cbn [skipLoop buf bi]. cbv zeta.
        change (lineEnd [] 0) with 0. cbn [Z.ltb negb]. change (0 <? 0) with false. cbn [negb]. eexists; reflexivity.
      + change (from_ B 0) with B in EB. assert (Ee2 : e = len body + 1) by lia.
        assert (Eu : upto B e = body ++ [10]).
        { rewrite EB. replace (body ++ 10 :: rest') with ((body ++ [10]) ++ rest') by (rewrite <- app_assoc; reflexivity).
          apply upto_app_all. rewrite len_app'. unfold len at 2. cbn [length]. lia. }
        assert (Ec10 : phiP B e - e = 1).
        { rewrite <- (count10_upto_phiP B e E0), Eu, count10_app, (count10_noEol body Hbody). reflexivity. }
        apply IH.
        * unfold SQ. cbn [buf bi boff bline]. split; [apply from_crlf_phiP, E0|]. split; [symmetry; apply phiP_0|].
          split; [rewrite Q3, (unpadded_upto_crlf B e E0); lia|rewrite Q4; reflexivity].
        * reflexivity.
        * cbn [buf]. apply notIn_from, S13.
        * cbn [buf]. apply notIn_from, S91.
        * cbn [buf]. apply (PadF_cut B e HP ltac:(lia)). right. right.
          rewrite EB, Ee2. replace (len body + 1 - 1) with (len body) by lia. rewrite at_app_r by lia. rewrite Z.sub_diag. cbn. discriminate.
    - (* the first line of a block *)
      set (s2 := {| buf := B; bi := e; boff := boff s; bline := bline s; pending := pending s |}).
      set (s2' := {| buf := crlf B; bi := phiP B e; boff := boff s'; bline := bline s'; pending := pending s' |}).
      assert (HL : LEx 0 [] 0 s2 true) by (apply X_nil; [exact S91|reflexivity]).
      pose proof (sim_lineLoop f 0 [] 0 s2 s2' true HL) as Hs. cbn [buf bline map] in Hs. rewrite phiP_0 in Hs.
      apply Hs; try assumption; try reflexivity. unfold SQ, s2, s2'. cbn [buf bi boff bline]. repeat split; assumption.
  Qed.

  Lemma sim_nextBlock fuel s : InvS s -> PadF (buf s) -> Post (nextBlock fuel s) (nextBlock fuel (stQ s)).
  Proof.
    intros (S13 & S91 & Hbi & Hnn & Hle & Hgb & ns & HS) HP. unfold nextBlock.
    assert (HQ : SQ s (stQ s)) by (unfold SQ, stQ; cbn [buf bi boff bline]; repeat split).
    change (pending (stQ s)) with (map (phiB (buf s)) (pending s)).
    destruct (makeRoot (pending s) s) as [[r s1]|] eqn:Em.
    - destruct (X_make _ _ _ _ _ HS Em) as [HUL HS1].
      destruct (sim_makeRoot (pending s) s (stQ s) r s1 HQ S13 Hbi Hle Hgb HUL Em) as (Em' & N1 & L1 & B1 & Eb & El & Es & Hg1).
      rewrite Em'. cbn [Post]. split; [exists (buf s); split; [exact HP|split; [exact Es|rewrite El; reflexivity]]|].
      split; [rewrite Eb; apply notIn_from, S13|]. split; [rewrite Eb; apply notIn_from, S91|]. split; [exact B1|]. split; [exact N1|]. split; [exact L1|].
      split; [exact Hg1|]. exists ns. exact HS1.
    - rewrite (sim_makeRoot_none (pending s) s (stQ s) Em).
      destruct (pending s) as [|b0 rest] eqn:Ep; cbn [map].
      + (* skip blank lines *)
        change (buf (stQ s)) with (crlf (buf s)). change (bi (stQ s)) with (phiP (buf s) (bi s)).
        change (boff (stQ s)) with (boff s + (bline s - 1)). change (bline (stQ s)) with (bline s).
        assert (S13u : ~ In 13 (upto (buf s) (bi s))) by (apply notIn_upto, S13).
        apply sim_skipLoop.
        * unfold SQ. cbn [buf bi boff bline]. destruct Hbi as [Hb0 Hb1]. split; [apply from_crlf_phiP, Hb0|]. split; [symmetry; apply phiP_0|].
          split; [|rewrite (lineCount_upto_crlf _ _ S13 Hb0); reflexivity].
          rewrite (unpadded_upto_crlf _ _ Hb0), (lineCount_count10 _ S13u), (count10_upto_phiP _ _ Hb0). lia.
        * reflexivity.
        * cbn [buf]. apply notIn_from, S13.
        * cbn [buf]. apply notIn_from, S91.
        * cbn [buf]. apply (PadF_cut _ _ HP Hbi). destruct Hgb as [G|[G|G]]; [left; exact G|right; left; exact G|right; right; rewrite G; discriminate].
      + assert (HL : LEx 0 (b0 :: rest) (bi s) {| buf := buf s; bi := lineEnd (buf s) (bi s); boff := boff s; bline := bline s; pending := b0 :: rest |} ns).
        { rewrite <- Ep in Em, HS. pose proof (X_next s ns HS S91 Hbi ltac:(rewrite Ep; discriminate) Em) as HL. rewrite Ep in HL. exact HL. }
        refine (sim_lineLoop fuel 0 (b0 :: rest) (bi s) {| buf := buf s; bi := lineEnd (buf s) (bi s); boff := boff s; bline := bline s; pending := b0 :: rest |} _ ns HL _ S13 S91 Hnn Hle HP).
        unfold SQ. cbn [buf bi boff bline stQ]. split; [reflexivity|]. split; [apply lineEnd_crlf; [exact S13|lia]|]. split; reflexivity.
  Qed.
End Run.

(* ---- from the buffer-relative image to phiRoot ---- *)
Lemma phiI_ext R R' : (forall n, phiP R n = phiP R' n) -> forall u, phiI R u = phiI R' u.
Proof.
  intros Hag. fix IH 1. intros [k s e ind r ks]. cbn [phiI]. rewrite (Hag s), (Hag e). f_equal.
  induction ks as [|x ks IHk]; [reflexivity|]. cbn [map]. rewrite (IH x), IHk. reflexivity.
Qed.
Lemma phiB_ext R R' : (forall n, phiP R n = phiP R' n) -> forall t, phiB R t = phiB R' t.
Proof.
  intros Hag. fix IH 1. intros [K s e bk ik a n c l lb]. cbn [phiB]. rewrite (Hag s), (Hag e). f_equal.
  - induction bk as [|x bk IHk]; [reflexivity|]. cbn [map]. rewrite (IH x), IHk. reflexivity.
  - induction ik as [|x ik IHk]; [reflexivity|]. cbn [map]. rewrite (phiI_ext R R' Hag x), IHk. reflexivity.
Qed.
Lemma count10_fill_eq l k : fillOK k l -> count10 (fill_aux k l) = count10 l.
Proof.
  intros H. pose proof (fill_aux_crlf l k H) as E. apply (f_equal len) in E.
  rewrite len_fill_aux, !len_crlf, len_fill_aux in E. lia.
Qed.
Lemma fill_firstn : forall l k m, fill_aux k (firstn m l) = firstn m (fill_aux k l).
Proof.
  induction l as [|b r IH]; intros k m; [rewrite !firstn_nil; destruct k as [|[|[|k]]]; reflexivity|].
  destruct m as [|m]; [destruct k as [|[|[|k]]]; reflexivity|]. cbn [firstn].
  destruct k as [|[|[|k]]]; cbn [fill_aux]; try destruct (b =? 0); cbn [firstn]; rewrite IH; reflexivity.
Qed.
Lemma phiP_fill l n : fillOK 0 l -> phiP (fillNulls l) n = phiP l n.
Proof.
  intros H. unfold phiP. destruct (n <? 0); [reflexivity|]. f_equal. unfold fillNulls, upto. rewrite <- fill_firstn.
  apply count10_fill_eq. apply fillOK_firstn, H.
Qed.
Lemma count10_replaceNul l : count10 (C01b.replaceNul l) = count10 l.
Proof.
  induction l as [|b r IH]; [reflexivity|]. change (C01b.replaceNul (b :: r)) with ((if b =? 0 then [239;191;189] else [b]) ++ C01b.replaceNul r).
  rewrite count10_app, IH. cbn [count10]. destruct (Z.eqb_spec b 0) as [->|N]; [reflexivity|]. cbn [count10]. lia.
Qed.
Lemma notIn_app_l {A} (x : A) a b : ~ In x (a ++ b) -> ~ In x a. Proof. intros H G. apply H, in_or_app. left. exact G. Qed.
Lemma notIn_app_r {A} (x : A) a b : ~ In x (a ++ b) -> ~ In x b. Proof. intros H G. apply H, in_or_app. right. exact G. Qed.

Lemma rootQ_phiRoot input pre g r1 r2 B r : ~ In 13 input -> input = pre ++ g ++ r1 ++ r2 -> PadF B ->
  rb_src r = fillNulls (upto B (bend (rb_blk r))) -> rb_start r = len pre + len g -> rb_end r = rb_start r + len r1 ->
  rb_src r = C01b.replaceNul r1 -> rb_line r = 1 + lineCount (pre ++ g) ->
  rootQ B (rb_line r - 1) r = phiRoot input r.
Proof.
  intros S13 Ein HP Es Hst Hen Er Hl. unfold rootQ, phiRoot. cbv zeta.
  set (pb := upto B (bend (rb_blk r))) in *.
  assert (Hok : fillOK 0 pb) by (apply fillOK_upto, fillOK_PadF, HP).
  assert (E1 : input = (pre ++ g) ++ r1 ++ r2) by (rewrite Ein; apply app_assoc).
  assert (E2 : input = ((pre ++ g) ++ r1) ++ r2) by (rewrite E1; apply app_assoc).
  assert (S13a : ~ In 13 (pre ++ g)) by (rewrite E1 in S13; apply (notIn_app_l _ _ _ S13)).
  assert (D1 : rb_line r - 1 = count10 (pre ++ g)) by (rewrite Hl, (lineCount_count10 _ S13a); lia).
  assert (L1 : rb_start r = len (pre ++ g)) by (rewrite len_app'; exact Hst).
  assert (L2 : rb_end r = len ((pre ++ g) ++ r1)) by (rewrite len_app', <- L1; exact Hen).
  assert (C1 : count10 pb = count10 r1).
  { rewrite <- (count10_fill_eq pb 0%nat Hok). change (fill_aux 0 pb) with (fillNulls pb). rewrite <- Es, Er. apply count10_replaceNul. }
  assert (P1 : phiP input (len (pre ++ g)) = len (pre ++ g) + count10 (pre ++ g)).
  { rewrite phiP_nonneg by apply len_nonneg. rewrite E1. rewrite upto_app_all by reflexivity. reflexivity. }
  assert (P2 : phiP input (len ((pre ++ g) ++ r1)) = len ((pre ++ g) ++ r1) + (count10 (pre ++ g) + count10 r1)).
  { rewrite phiP_nonneg by apply len_nonneg. rewrite E2. rewrite upto_app_all by reflexivity. rewrite count10_app. reflexivity. }
  f_equal.
  - rewrite L1, P1, D1. reflexivity.
  - rewrite L2, P2, D1, C1. lia.
  - rewrite Es. apply fillNulls_crlf, Hok.
  - rewrite Es. apply phiB_ext. intros n. symmetry. apply phiP_fill, Hok.
Qed.
