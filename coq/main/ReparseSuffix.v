From Coq Require Import List ZArith Lia Bool.
Import ListNotations.
Require Import Base Tree Rdr Link Collect Html Recog LP Rules Starts Driver L2Kind L2CC L2BndS TDefs TOcp StreamFuel GramDefs BlankPrefix
  ReparseOpen ReparseFrame ReparseLineB.
Open Scope Z_scope.

(* T50 continuation: the state of the line parser handed from one line to the next only matters when it is stDescendTerminated. *)
Lemma descend_state st st' K ls src :
  (descendOpenBlocks (resetLP st K ls src) = descendOpenBlocks (resetLP st' K ls src)) \/
  (exists b, descendOpenBlocks (resetLP st K ls src) = (b, resetLP st K ls src) /\ descendOpenBlocks (resetLP st' K ls src) = (b, resetLP st' K ls src)).
Proof.
  unfold descendOpenBlocks. change (bheight (root (resetLP st K ls src))) with (bheight (root0 K)). change (bheight (root (resetLP st' K ls src))) with (bheight (root0 K)).
  destruct (bheight_S (root0 K)) as [n ->]. cbn [descend_loop]. cbv zeta.
  change (getAt 1 (root (resetLP st K ls src))) with (getAt 1 (root0 K)). change (getAt 1 (root (resetLP st' K ls src))) with (getAt 1 (root0 K)).
  destruct (getAt 1 (root0 K)) as [c|]; [|right; exists true; split; reflexivity].
  destruct (negb (isOpen c)); [right; exists true; split; reflexivity|].
  destruct (negb (hasMatch (bkind c))); [right; exists false; split; reflexivity|].
  left. reflexivity.
Qed.

Lemma fin_state_irrel am st st' K ls src : st <> stDescendTerminated -> st' <> stDescendTerminated -> from_ src ls <> [] ->
  fin am (resetLP st K ls src) = fin am (resetLP st' K ls src).
Proof.
  intros H1 H2 Hln. unfold fin.
  change (state (resetLP st K ls src)) with st. change (state (resetLP st' K ls src)) with st'.
  replace (st =? stDescendTerminated) with false by (symmetry; apply Z.eqb_neq; exact H1).
  replace (st' =? stDescendTerminated) with false by (symmetry; apply Z.eqb_neq; exact H2). cbn [negb].
  unfold openNewBlocks. change (line (resetLP st K ls src)) with (from_ src ls). change (line (resetLP st' K ls src)) with (from_ src ls).
  rewrite (len_ne0 _ Hln).
  assert (E : opening_loop (S (length (from_ src ls))) (resetLP st K ls src) = opening_loop (S (length (from_ src ls))) (resetLP st' K ls src)).
  { cbn [opening_loop]. change (containerKind (resetLP st K ls src)) with documentKind. change (containerKind (resetLP st' K ls src)) with documentKind.
    change ((documentKind =? ParagraphKind) || negb (acceptsLines documentKind)) with true. cbv iota.
    rewrite (tryStarts_reset (resetLP st K ls src)), (tryStarts_reset (resetLP st' K ls src)). reflexivity. }
  rewrite E. reflexivity.
Qed.

Theorem processLine_state_irrel st st' K ls src : st <> stDescendTerminated -> st' <> stDescendTerminated -> from_ src ls <> [] ->
  processLine st K ls src = processLine st' K ls src.
Proof.
  intros H1 H2 Hln. rewrite !processLine_fin.
  destruct (descend_state st st' K ls src) as [E|(b & E1 & E2)]; [rewrite E; reflexivity|].
  rewrite E1, E2. cbn [fst snd]. apply fin_state_irrel; assumption.
Qed.
Print Assumptions processLine_state_irrel.

(* ---- the line loop ---- *)
Lemma lineLoop_pending_irrel : forall f st K ls b i bo bl pd pd',
  lineLoop f st K ls {| buf := b; bi := i; boff := bo; bline := bl; pending := pd |} =
  lineLoop f st K ls {| buf := b; bi := i; boff := bo; bline := bl; pending := pd' |}.
Proof.
  induction f as [|f IH]; intros st K ls b i bo bl pd pd'; [reflexivity|]. cbn [lineLoop]. cbn [buf bi boff bline pending].
  destruct (processLine st K ls (upto b i)) as [[ch' st'] pn]. destruct (negb (pn =? 0)); [reflexivity|].
  assert (Em : makeRoot ch' {| buf := b; bi := i; boff := bo; bline := bl; pending := pd |} = makeRoot ch' {| buf := b; bi := i; boff := bo; bline := bl; pending := pd' |}) by reflexivity.
  rewrite Em. destruct (makeRoot ch' {| buf := b; bi := i; boff := bo; bline := bl; pending := pd' |}); [reflexivity|]. apply IH.
Qed.

Lemma lineLoop_state_irrel : forall f st st' K ls s, (st = st' \/ (st <> stDescendTerminated /\ st' <> stDescendTerminated)) ->
  lineLoop f st K ls s = lineLoop f st' K ls s.
Proof.
  induction f as [|f IH]; intros st st' K ls s H; [reflexivity|]. destruct H as [->|[H1 H2]]; [reflexivity|].
  cbn [lineLoop]. set (src := upto (buf s) (bi s)).
  destruct (from_ src ls) as [|x0 r0] eqn:El.
  - rewrite (processLine_eof st K ls src El), (processLine_eof st' K ls src El). cbn [negb Z.eqb].
    assert (Est : (eofSt st K = eofSt st' K \/ (eofSt st K <> stDescendTerminated /\ eofSt st' K <> stDescendTerminated)) /\ eofK st K ls src = eofK st' K ls src).
    { unfold eofK, eofSt, descState. destruct (lastBlock (root0 K)) as [c|].
      - destruct (isOpen c && hasMatch (bkind c)); [split; [left; reflexivity|reflexivity]|].
        replace (st =? stDescendTerminated) with false by (symmetry; apply Z.eqb_neq; exact H1).
        replace (st' =? stDescendTerminated) with false by (symmetry; apply Z.eqb_neq; exact H2). split; [right; split; assumption|reflexivity].
      - replace (st =? stDescendTerminated) with false by (symmetry; apply Z.eqb_neq; exact H1).
        replace (st' =? stDescendTerminated) with false by (symmetry; apply Z.eqb_neq; exact H2). split; [right; split; assumption|reflexivity]. }
    destruct Est as [Es Ek]. rewrite Ek. destruct (makeRoot (eofK st' K ls src) s); [reflexivity|]. apply IH, Es.
  - rewrite (processLine_state_irrel st st' K ls src H1 H2 ltac:(rewrite El; discriminate)). reflexivity.
Qed.

(* ---- after the closing line: the rest of the run is the fresh run on the rest of the buffer ---- *)
Lemma fresh_first B' bo bl K0 st1 : 0 < lineEnd B' 0 -> isBlankLine (upto B' (lineEnd B' 0)) = false ->
  processLine 0 [] 0 (upto B' (lineEnd B' 0)) = (K0, st1, 0) ->
  nextBlock (3 + length B') {| buf := B'; bi := 0; boff := bo; bline := bl; pending := [] |} =
  match makeRoot K0 {| buf := B'; bi := lineEnd B' 0; boff := bo; bline := bl; pending := [] |} with
  | Some (r, s2) => NBBlock r s2
  | None => lineLoop (S (length B')) st1 K0 (lineEnd B' 0) {| buf := B'; bi := lineEnd B' (lineEnd B' 0); boff := bo; bline := bl; pending := [] |}
  end.
Proof.
  intros He Hnb Hpl. unfold nextBlock. cbn [pending makeRoot buf bi boff bline].
  assert (E0 : {| buf := from_ B' 0; bi := 0; boff := bo + unpadded (upto B' 0); bline := bl + lineCount (upto B' 0); pending := [] |} =
               {| buf := B'; bi := 0; boff := bo; bline := bl; pending := [] |}).
  { unfold from_, upto. cbn [Z.to_nat skipn firstn]. f_equal; [cbn; lia|cbn; lia]. }
  rewrite E0. change (3 + length B')%nat with (S (S (S (length B')))). cbn [skipLoop]. cbv zeta. cbn [buf bi boff bline pending].
  replace (0 <? lineEnd B' 0) with true by (symmetry; apply Z.ltb_lt; exact He). cbn [negb]. rewrite Hnb.
  cbn [lineLoop]. cbn [buf bi]. rewrite Hpl. cbn [negb Z.eqb]. reflexivity.
Qed.

Theorem suffix_nextBlock B' bo bl K0 st1 : 0 < lineEnd B' 0 -> isBlankLine (upto B' (lineEnd B' 0)) = false ->
  processLine 0 [] 0 (upto B' (lineEnd B' 0)) = (K0, st1, 0) -> st1 <> stDescendTerminated -> K0 <> [] ->
  nextBlock (3 + length B') {| buf := B'; bi := lineEnd B' 0; boff := bo; bline := bl; pending := K0 |} =
  nextBlock (3 + length B') {| buf := B'; bi := 0; boff := bo; bline := bl; pending := [] |}.
Proof.
  intros He Hnb Hpl Hs1 Hne. rewrite (fresh_first B' bo bl K0 st1 He Hnb Hpl). set (e1 := lineEnd B' 0) in *.
  pose proof (lenA_nonneg B') as HlB.
  assert (He1 : e1 <= len B') by (apply (L2BndS.lineEnd_spec B' 0); lia).
  unfold nextBlock. cbn [pending buf bi boff bline].
  assert (Em : makeRoot K0 {| buf := B'; bi := e1; boff := bo; bline := bl; pending := K0 |} =
               makeRoot K0 {| buf := B'; bi := e1; boff := bo; bline := bl; pending := [] |}) by reflexivity.
  rewrite Em. destruct (makeRoot K0 {| buf := B'; bi := e1; boff := bo; bline := bl; pending := [] |}) as [[r s2]|] eqn:Emk; [reflexivity|].
  destruct K0 as [|c0 rest0]; [contradiction|].
  assert (Hopen : isOpen c0 = true) by (unfold makeRoot in Emk; destruct (isOpen c0); [reflexivity|discriminate]).
  set (sN := {| buf := B'; bi := lineEnd B' e1; boff := bo; bline := bl; pending := [] |}).
  rewrite (lineLoop_pending_irrel (3 + length B') 0 (c0 :: rest0) e1 B' (lineEnd B' e1) bo bl (c0 :: rest0) []). fold sN.
  transitivity (lineLoop (3 + length B') st1 (c0 :: rest0) e1 sN).
  - apply lineLoop_state_irrel. right. split; [discriminate|exact Hs1].
  - apply (lineLoop_adequate (S (length B')) (3 + length B') st1 (c0 :: rest0) e1 sN); [cbn [buf sN]; lia|reflexivity|right; exists c0, rest0; split; [reflexivity|exact Hopen]| |lia].
    cbn [buf sN]. unfold len in *. lia.
Qed.
Print Assumptions suffix_nextBlock.
