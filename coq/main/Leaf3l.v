From Coq Require Import List ZArith Lia Bool.
Import ListNotations.
Require Import Base Tables Utf8 Tree Rdr Link Collect Html Recog Inl3a Inl3b Inl3c Inl3d Inl3e Driver Render Safe Leaf3a Leaf3b Leaf3j SafeW Leaf3k L2Kind.
Open Scope Z_scope.

(* what is left of the block-layer contract once the kind discipline is known: the soft-break entries of code blocks *)
Definition softE (src : bytes) (u : inline) : bool :=
  if ikind u =? SoftLineBreakKind then inertb (sub src (istart u) (iend u)) else true.
Fixpoint softok (src : bytes) (b : block) : bool :=
  match b with Blk _ _ _ bk ik _ _ _ _ _ => forallb (softok src) bk && forallb (softE src) ik end.

Lemma ek_gok K src u : ek K u = true -> softE src u = true -> ikind u =? InfoStringKind = false ->
  gok 1 src (ofInline u) = true.
Proof.
  destruct u as [k s e ind r ks]. unfold ek, kidless, softE. cbn [ikind ikids istart iend ofInline gok]. cbv zeta.
  intros H Hs Hi. unfold localok. 
  destruct (Z.eqb_spec k UnparsedKind) as [->|N1].
  { destruct ks; [reflexivity|discriminate]. }
  destruct (Z.eqb_spec k TextKind) as [->|N2].
  { cbn [orb] in H. destruct ks; [reflexivity|discriminate]. }
  destruct (Z.eqb_spec k SoftLineBreakKind) as [->|N3].
  { cbn [orb] in H. destruct ks; [|discriminate]. cbn. cbn in Hs. rewrite Hs. reflexivity. }
  cbn [orb] in H.
  destruct (Z.eqb_spec k RawHTMLKind) as [->|N4].
  { cbn [orb] in H. destruct ks; [reflexivity|discriminate]. }
  destruct (Z.eqb_spec k IndentKind) as [->|N5].
  { cbn [orb] in H. destruct ks; [reflexivity|discriminate]. }
  cbn [orb] in H. rewrite Hi in H.
  apply orb_true_iff in H. destruct H as [H|H]; [apply orb_true_iff in H; destruct H as [H|H]|]; apply Z.eqb_eq in H; subst k; reflexivity.
Qed.

Lemma fenced_no_unparsed b : bkind b = FencedCodeBlockKind -> forallb (ek (bkind b)) (bik b) = true -> hasUnparsed b = false.
Proof.
  intros Ek H. unfold hasUnparsed. rewrite Ek in H. clear Ek.
  induction (bik b) as [|u l IH]; [reflexivity|]. cbn [forallb existsb] in *. apply andb_true_iff in H. destruct H as [Hu Hl].
  rewrite (IH Hl), orb_false_r. unfold ek in Hu. cbv zeta in Hu.
  destruct (ikind u =? UnparsedKind); [|reflexivity]. rewrite andb_false_r in Hu. discriminate.
Qed.

Theorem kinds_l2ok src : forall b, L2Kind.inv b = true -> softok src b = true -> l2ok src b = true.
Proof.
  fix IH 1. intros [K s e bk ik a n c l lb] H Hs.
  pose proof (fenced_no_unparsed (Blk K s e bk ik a n c l lb)) as Hf. cbn [bkind bik] in Hf.
  cbn [L2Kind.inv softok l2ok] in *.
  apply andb_true_iff in H. destruct H as [Hi Hk]. apply andb_true_iff in Hs. destruct Hs as [Hsk Hsi].
  apply andb_true_iff. split.
  - clear Hi Hsi Hf. induction bk as [|x r IHr]; [reflexivity|]. cbn [forallb] in *.
    apply andb_true_iff in Hk. destruct Hk as [Hx Hk]. apply andb_true_iff in Hsk. destruct Hsk as [Hsx Hsk].
    rewrite (IH x Hx Hsx). apply IHr; assumption.
  - rewrite forallb_forall. intros u Hu. unfold l2ik.
    pose proof Hi as Hi_all.
    rewrite forallb_forall in Hi, Hsi. specialize (Hi u Hu). specialize (Hsi u Hu).
    destruct (ikind u =? InfoStringKind) eqn:Ei.
    + assert (EK : K = FencedCodeBlockKind).
      { unfold ek in Hi. cbv zeta in Hi. apply Z.eqb_eq in Ei. rewrite Ei in Hi. cbn in Hi. apply Z.eqb_eq in Hi. exact Hi. }
      rewrite (Hf EK Hi_all). apply orb_true_r.
    + rewrite (ek_gok K src u Hi Hsi Ei). reflexivity.
Qed.

(* C07 for whole documents: for every input, every root block the block layer returns, every matcher, every
   configuration without a tag filter: if raw HTML is ignored or the parsed tree has no raw-HTML node, and the
   soft-break entries of code blocks select inert bytes, the rendered HTML is safe *)
Theorem C07_document input c refs m rfuel fuel :
  filterOn c = false ->
  Forall (fun r =>
    softok (rb_src r) (rb_blk r) = true ->
    (ignoreRaw c = true \/ rokB false (rewriteB fuel (rb_src r) m (rb_blk r)) = true) ->
    safe (renderB rfuel c refs (rb_src r) false (rewriteB fuel (rb_src r) m (rb_blk r))))
  (fst (parseBlocks input)).
Proof.
  intros Hf. pose proof (parseBlocks_kinds input) as H. rewrite Forall_forall in *. intros r Hr Hs Hraw.
  apply C07_parsed; [assumption| |assumption]. apply kinds_l2ok; [apply H, Hr|assumption].
Qed.
Print Assumptions C07_document.
