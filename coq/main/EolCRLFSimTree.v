From Coq Require Import List ZArith Lia Bool.
Import ListNotations.
Require Import Base Tree Rdr Link Collect Html Recog LP Rules Starts Driver Rec16 Rec17 Rec18 L2Kind EolInv EolCRDefs EolCRBytes EolCRLFDefs EolCRLFSimBytes.
Open Scope Z_scope.

(* C14 (ii), CRLF clause: the tree map phiB commutes with the tree operations of the block layer. *)
Section TreeMap.
  Variable S : bytes.
  Notation M := (phiB S).
  Notation MI := (phiI S).
  Notation P := (phiP S).

  Lemma M_eq b : M b = Blk (bkind b) (P (bstart b)) (P (bend b)) (map M (bkids b)) (map MI (bik b)) (bindent b) (bn b) (bchar b) (bloose b) (blastBlank b).
  Proof. destruct b; reflexivity. Qed.
  Lemma MI_eq u : MI u = Inl (ikind u) (P (istart u)) (P (iend u)) (iindent u) (iref u) (map MI (ikids u)).
  Proof. destruct u; reflexivity. Qed.
  Lemma bkind_M b : bkind (M b) = bkind b. Proof. destruct b; reflexivity. Qed.
  Lemma bend_M b : bend (M b) = P (bend b). Proof. destruct b; reflexivity. Qed.
  Lemma bstart_M b : bstart (M b) = P (bstart b). Proof. destruct b; reflexivity. Qed.
  Lemma bkids_M b : bkids (M b) = map M (bkids b). Proof. destruct b; reflexivity. Qed.
  Lemma bik_M b : bik (M b) = map MI (bik b). Proof. destruct b; reflexivity. Qed.
  Lemma bindent_M b : bindent (M b) = bindent b. Proof. destruct b; reflexivity. Qed.
  Lemma bn_M b : bn (M b) = bn b. Proof. destruct b; reflexivity. Qed.
  Lemma bchar_M b : bchar (M b) = bchar b. Proof. destruct b; reflexivity. Qed.
  Lemma bloose_M b : bloose (M b) = bloose b. Proof. destruct b; reflexivity. Qed.
  Lemma blastBlank_M b : blastBlank (M b) = blastBlank b. Proof. destruct b; reflexivity. Qed.
  Lemma isOpen_M b : isOpen (M b) = isOpen b. Proof. unfold isOpen. rewrite bend_M. apply phiP_sign. Qed.
  Lemma ikind_MI u : ikind (MI u) = ikind u. Proof. destruct u; reflexivity. Qed.
  Lemma istart_MI u : istart (MI u) = P (istart u). Proof. destruct u; reflexivity. Qed.
  Lemma iend_MI u : iend (MI u) = P (iend u). Proof. destruct u; reflexivity. Qed.

  Lemma M_set_bend b e : M (set_bend b e) = set_bend (M b) (P e). Proof. destruct b; reflexivity. Qed.
  Lemma M_set_bstart b e : M (set_bstart b e) = set_bstart (M b) (P e). Proof. destruct b; reflexivity. Qed.
  Lemma M_set_bkind b v : M (set_bkind b v) = set_bkind (M b) v. Proof. destruct b; reflexivity. Qed.
  Lemma M_set_bn b v : M (set_bn b v) = set_bn (M b) v. Proof. destruct b; reflexivity. Qed.
  Lemma M_set_bchar b v : M (set_bchar b v) = set_bchar (M b) v. Proof. destruct b; reflexivity. Qed.
  Lemma M_set_bindent b v : M (set_bindent b v) = set_bindent (M b) v. Proof. destruct b; reflexivity. Qed.
  Lemma M_set_bloose b v : M (set_bloose b v) = set_bloose (M b) v. Proof. destruct b; reflexivity. Qed.
  Lemma M_set_blast b v : M (set_blast b v) = set_blast (M b) v. Proof. destruct b; reflexivity. Qed.
  Lemma M_set_bkids b l : M (set_bkids b l) = set_bkids (M b) (map M l). Proof. destruct b; reflexivity. Qed.
  Lemma M_set_bik b l : M (set_bik b l) = set_bik (M b) (map MI l). Proof. destruct b; reflexivity. Qed.
  Lemma M_newBlock k s : M (newBlock k s) = newBlock k (P s). Proof. unfold newBlock. cbn [phiB map]. rewrite (phiP_neg S (-1)) by lia. reflexivity. Qed.

  Lemma map_rev' {A B} (f : A -> B) l : rev (map f l) = map f (rev l). Proof. symmetry. apply map_rev. Qed.
  Lemma lastBlock_M b : lastBlock (M b) = option_map M (lastBlock b).
  Proof. unfold lastBlock. rewrite bkids_M, map_rev'. destruct (rev (bkids b)); reflexivity. Qed.
  Lemma map_removelast {A B} (f : A -> B) l : map f (removelast l) = removelast (map f l).
  Proof. induction l as [|x l IH]; [reflexivity|]. destruct l as [|y l]; [reflexivity|]. cbn [removelast map] in *. rewrite IH. reflexivity. Qed.
  Lemma M_set_lastBlocks b l : M (set_lastBlocks b l) = set_lastBlocks (M b) (map M l).
  Proof. unfold set_lastBlocks. rewrite M_set_bkids, map_app, map_removelast, bkids_M. reflexivity. Qed.
  Lemma childCount_M b : childCount (M b) = childCount b.
  Proof. unfold childCount. rewrite bkids_M, bik_M. destruct (bkids b) as [|x l]; cbn [map]; unfold len; [rewrite map_length; reflexivity|]. cbn [length]. rewrite map_length. reflexivity. Qed.

  Lemma getAt_M : forall d r, getAt d (M r) = option_map M (getAt d r).
  Proof.
    induction d as [|d IH]; intros r; [reflexivity|]. cbn [getAt]. rewrite lastBlock_M. destruct (lastBlock r) as [c|]; [apply IH|reflexivity].
  Qed.
  Lemma updAt_M f f' : (forall b, M (f b) = f' (M b)) -> forall d r, M (updAt d f r) = updAt d f' (M r).
  Proof.
    intros Hf. induction d as [|d IH]; intros r; [apply Hf|]. cbn [updAt]. rewrite lastBlock_M.
    destruct (lastBlock r) as [c|]; cbn [option_map]; [|reflexivity]. rewrite M_set_lastBlocks. cbn [map]. rewrite IH. reflexivity.
  Qed.
  Lemma bheight_M : forall b, bheight (M b) = bheight b.
  Proof.
    fix IH 1. intros [K s e bk ik a n c l lb]. cbn [phiB bheight]. f_equal.
    induction bk as [|x r IHr]; [reflexivity|]. cbn [map fold_right]. rewrite IH, IHr. reflexivity.
  Qed.
  Lemma tipDepth_M : forall fuel b, tipDepth fuel (M b) = tipDepth fuel b.
  Proof.
    induction fuel as [|f IH]; intros b; [reflexivity|]. cbn [tipDepth]. rewrite lastBlock_M.
    destruct (lastBlock b) as [c|]; cbn [option_map]; [|reflexivity]. rewrite isOpen_M, IH. reflexivity.
  Qed.

  (* ---- onClose handlers ---- *)
  Lemma endsWithBlankLine_M : forall fuel b, endsWithBlankLine fuel (M b) = endsWithBlankLine fuel b.
  Proof.
    induction fuel as [|f IH]; intros b; [reflexivity|]. cbn [endsWithBlankLine]. rewrite blastBlank_M, bkind_M, lastBlock_M.
    destruct (lastBlock b) as [c|]; cbn [option_map]; [rewrite IH|]; reflexivity.
  Qed.
  Lemma existsb_combine_map {A B} (g : A -> B) (f : nat * B -> bool) (f0 : nat * A -> bool) l n :
    (forall i x, f (i, g x) = f0 (i, x)) -> existsb f (combine (seq n (length l)) (map g l)) = existsb f0 (combine (seq n (length l)) l).
  Proof.
    intros H. revert n. induction l as [|x l IH]; intros n; [reflexivity|]. cbn [length seq combine map existsb]. rewrite H, IH. reflexivity.
  Qed.
  Lemma onCloseList_M b : onCloseList (M b) = M (onCloseList b).
  Proof.
    unfold onCloseList. cbv zeta. rewrite bloose_M, bheight_M, bkids_M.
    match goal with |- (if bloose b || ?X then _ else _) = M (if bloose b || ?Y then _ else _) => assert (E : X = Y) end.
    { rewrite map_length. apply existsb_combine_map. intros i item. rewrite endsWithBlankLine_M, bkids_M, map_length. f_equal.
      apply existsb_combine_map. intros j sb. rewrite endsWithBlankLine_M. reflexivity. }
    rewrite E. destruct (bloose b || _); [|reflexivity].
    rewrite M_set_bkids, M_set_bloose, !map_map. f_equal. apply map_ext. intros x. rewrite M_set_bloose. reflexivity.
  Qed.

  Hypothesis S13 : ~ In 13 S.
  Definition nnI (u : inline) : bool := 0 <=? istart u.
  Fixpoint nnB (b : block) : bool := match b with Blk _ _ _ bk ik _ _ _ _ _ => forallb nnI ik && forallb nnB bk end.
  Lemma nnB_eq b : nnB b = forallb nnI (bik b) && forallb nnB (bkids b). Proof. destruct b; reflexivity. Qed.

  Lemma blank_sub a b : 0 <= a -> isBlankLine (sub (crlf S) (P a) (P b)) = isBlankLine (sub S a b).
  Proof.
    intros Ha. destruct (Z.le_gt_cases a b) as [L|L]; [rewrite crlf_sub by lia; apply isBlankLine_crlf|].
    pose proof (phiP_lt S b a L) as Hl. unfold sub, upto. replace (Z.to_nat (b - a)) with 0%nat by lia.
    replace (Z.to_nat (P b - P a)) with 0%nat by lia. reflexivity.
  Qed.
  Lemma trimBlankTail_M : forall rk, forallb nnI rk = true -> trimBlankTail (crlf S) (map MI rk) = map MI (trimBlankTail S rk).
  Proof.
    induction rk as [|c r IH]; intros H; [reflexivity|]. cbn [forallb] in H. apply andb_true_iff in H. destruct H as [Hc Hr].
    cbn [map trimBlankTail]. rewrite ikind_MI, istart_MI, iend_MI, blank_sub by (apply Z.leb_le; exact Hc).
    destruct (_ && _); [apply IH, Hr|reflexivity].
  Qed.
  Lemma forallb_rev {A} (f : A -> bool) l : forallb f (rev l) = forallb f l.
  Proof. induction l as [|x l IH]; [reflexivity|]. cbn [rev forallb]. rewrite forallb_app, IH. cbn. rewrite andb_true_r. apply andb_comm. Qed.
  Lemma onCloseIndented_M b : forallb nnI (bik b) = true -> onCloseIndented (crlf S) (M b) = M (onCloseIndented S b).
  Proof.
    intros Hn. unfold onCloseIndented. cbv zeta. rewrite bik_M, map_rev', M_set_bik.
    assert (Hr : forallb nnI (rev (bik b)) = true) by (rewrite forallb_rev; exact Hn).
    set (ik1 := match rev (bik b) with
                | lst :: prev :: r =>
                  if (ikind lst =? SoftLineBreakKind) && (iend lst - istart lst =? 0) && (ikind prev =? TextKind) &&
                     isBlankLine (sub S (istart prev) (iend prev)) then rev (prev :: r) else bik b
                | _ => bik b end).
    assert (E : match map MI (rev (bik b)) with
                | lst :: prev :: r =>
                  if (ikind lst =? SoftLineBreakKind) && (iend lst - istart lst =? 0) && (ikind prev =? TextKind) &&
                     isBlankLine (sub (crlf S) (istart prev) (iend prev)) then rev (prev :: r) else map MI (bik b)
                | _ => map MI (bik b) end = map MI ik1 /\ forallb nnI ik1 = true).
    { unfold ik1. destruct (rev (bik b)) as [|lst [|prev r]] eqn:Er; cbn [map]; try (split; [reflexivity|exact Hn]).
      cbn [forallb] in Hr. apply andb_true_iff in Hr. destruct Hr as [H1 Hr]. apply andb_true_iff in Hr. destruct Hr as [H2 Hr].
      rewrite !ikind_MI, !istart_MI, !iend_MI, blank_sub by (apply Z.leb_le; exact H2).
      assert (Ez : (P (iend lst) - P (istart lst) =? 0) = (iend lst - istart lst =? 0)).
      { destruct (Z.eqb_spec (iend lst - istart lst) 0) as [E0|E0].
        - replace (iend lst) with (istart lst) by lia. rewrite Z.sub_diag. reflexivity.
        - apply Z.eqb_neq. intros E1. apply E0. destruct (Z.lt_trichotomy (iend lst) (istart lst)) as [T|[T|T]]; [|lia|].
          + pose proof (phiP_lt S _ _ T). lia.
          + pose proof (phiP_lt S _ _ T). lia. }
      rewrite Ez. destruct (_ && _ && _ && _).
      - split; [|rewrite forallb_rev; cbn [forallb]; rewrite H2, Hr; reflexivity].
        change (MI prev :: map MI r) with (map MI (prev :: r)). rewrite map_rev'. reflexivity.
      - split; [reflexivity|exact Hn]. }
    destruct E as [E1 E2]. rewrite E1. rewrite map_rev', trimBlankTail_M by (rewrite forallb_rev; exact E2). rewrite map_rev'. reflexivity.
  Qed.

  Hypothesis S91 : ~ In 91 S.
  Lemma at_not91 (l : bytes) i : ~ In 91 l -> at_ l i <> 91.
  Proof.
    intros H E. unfold at_ in E. destruct (i <? 0); [discriminate|]. destruct (Nat.lt_ge_cases (Z.to_nat i) (length l)) as [L|L].
    - apply H. rewrite <- E. apply nth_In. exact L.
    - rewrite nth_overflow in E by exact L. discriminate.
  Qed.
  Lemma ocp_nobracket src orig : ~ In 91 src -> onCloseParagraph src orig = [orig].
  Proof.
    intros H. unfold onCloseParagraph. destruct (bik orig) as [|first rest]; [reflexivity|]. cbv zeta. cbn [ocp_loop].
    unfold parseLinkLabel. set (r := newReader src (first :: rest) (istart first)).
    assert (Hc : fst (current r) <> 91).
    { unfold current. destruct (_ <=? _); [discriminate|]. destruct (curNode r) as [n r']. destruct (okind n =? IndentKind); [discriminate|].
      destruct (_ =? 0); [unfold nullRepl; destruct (_ =? 0); [discriminate|destruct (_ =? 1); discriminate]|]. cbn [fst]. apply at_not91, H. }
    destruct (current r) as [c r0]. cbn [fst] in Hc. replace (c =? 91) with false by (symmetry; apply Z.eqb_neq; exact Hc). reflexivity.
  Qed.
  Lemma crlf_not91 : ~ In 91 (crlf S).
  Proof. intros H. unfold crlf in H. apply in_flat_map in H. destruct H as (c & Hc & Hx). destruct (c =? 10); [destruct Hx as [E|[E|[]]]; discriminate|destruct Hx as [E|[]]; subst; exact (S91 Hc)]. Qed.

  Lemma closeBlock_M e : forall fuel b, nnB b = true -> closeBlock fuel (crlf S) (M b) (P e) = map M (closeBlock fuel S b e).
  Proof.
    induction fuel as [|f IH]; intros b Hn; [reflexivity|]. cbn [closeBlock]. rewrite isOpen_M. destruct (negb (isOpen b)); [reflexivity|]. cbv zeta.
    rewrite <- M_set_bend, !bkind_M.
    rewrite nnB_eq in Hn. apply andb_true_iff in Hn. destruct Hn as [Hn1 Hn2].
    assert (Hcl : forall x, forallb nnB (bkids x) = true ->
              match lastBlock (M x) with Some c => set_lastBlocks (M x) (closeBlock f (crlf S) c (P e)) | None => M x end =
              M (match lastBlock x with Some c => set_lastBlocks x (closeBlock f S c e) | None => x end)).
    { intros x Hx. rewrite lastBlock_M. destruct (lastBlock x) as [c|] eqn:El; cbn [option_map]; [|reflexivity].
      rewrite M_set_lastBlocks, IH; [reflexivity|]. rewrite forallb_forall in Hx. apply Hx. apply lastBlock_In. exact El. }
    assert (Hk : bkids (set_bend b e) = bkids b) by (destruct b; reflexivity).
    assert (Hi : bik (set_bend b e) = bik b) by (destruct b; reflexivity).
    destruct (bkind (set_bend b e) =? ListKind).
    { cbn [map]. rewrite onCloseList_M, Hcl; [reflexivity|]. unfold onCloseList. cbv zeta. destruct (_ || _); [|rewrite Hk; exact Hn2].
      destruct (set_bend b e) as [K s0 e0 bk ik a n c l lb] eqn:Eb. cbn [set_bloose set_bkids bkids] in *. subst bk.
      rewrite forallb_forall in *. intros y Hy. apply in_map_iff in Hy. destruct Hy as (z & <- & Hz). specialize (Hn2 z Hz). destruct z; exact Hn2. }
    destruct (bkind (set_bend b e) =? IndentedCodeBlockKind).
    { cbn [map]. rewrite onCloseIndented_M by (rewrite Hi; exact Hn1). rewrite Hcl; [reflexivity|].
      unfold onCloseIndented. cbv zeta. replace (bkids (set_bik (set_bend b e) _)) with (bkids b) by (destruct b; reflexivity). exact Hn2. }
    destruct (_ || _).
    { rewrite (ocp_nobracket (crlf S) _ crlf_not91), (ocp_nobracket S _ S91). reflexivity. }
    cbn [map]. rewrite Hcl; [reflexivity|rewrite Hk; exact Hn2].
  Qed.
End TreeMap.
