From Coq Require Import List ZArith Lia Bool.
Import ListNotations.
Require Import Base Tree Rdr Link Collect Html Recog LP Rules Starts Driver Rec16 Rec17 Rec18 RecBounds BSTree L2Kind2 EntBase En2Tree En2Atx QPureA1.
Open Scope Z_scope.

(* T64-pure, third goal, part 1.  The byte behind the content entry of an ATX heading.
   Recognizer lemma atx_tail2 (sharpening En2Atx.atx_tail); per-entry predicate `atq B u` relative to the buffer B (NOT the
   source read so far: the buffer does not change between processLine calls, so there is no "growth" step); tree
   invariant `aq B`; onClose handlers, line-parser operations, collectInline, match rules, descendOpenBlocks.
   The container is never an ATX heading (invariant J of QPureA1.v), so existing ATX headings are never touched. *)

Definition Lst : bytes := [32; 9; 10; 13; 35].

Lemma stle_Lst c : isSTLEz c -> In c Lst.
Proof. unfold isSTLEz, Lst. intros [-> |[-> |[-> | ->]]]; cbn; tauto. Qed.

(* what follows the content of an ATX heading *)
Lemma atx_tail2 l lv cs ce : parseATXHeading l = (lv, cs, ce) -> 1 <= lv ->
  cs = ce \/ (ce < len l /\ In (at_ l ce) Lst) \/ (ce = len l /\ ~ isEOLz (at_ l (len l - 1))).
Proof.
  unfold parseATXHeading. cbv zeta. intros H Hlv.
  set (fuel := S (length l)) in H. assert (Hfu : len l <= Z.of_nat fuel) by (unfold fuel, len; lia). clearbody fuel.
  destruct (Rec17.countWhile_spec (fun c => c =? 35) l) as (C1 & _ & _). remember (countWhile (fun c => c =? 35) l) as level eqn:Elv.
  destruct ((level =? 0) || (6 <? level)); [injection H as <- <- <-; lia|].
  destruct ((len l <=? level) || (at_ l level =? 10) || (at_ l level =? 13)); [injection H as <- <- <-; left; reflexivity|].
  destruct (negb (isSpTab (at_ l level))) eqn:Esp; [injection H as <- <- <-; lia|].
  assert (Hlt : level < len l).
  { apply negb_false_iff in Esp. unfold at_ in Esp. destruct (level <? 0); [discriminate|].
    destruct (Z.lt_ge_cases level (len l)); [assumption|]. rewrite nth_overflow in Esp by (unfold len in *; lia). discriminate. }
  destruct (Rec17.countWhile_spec isSpTab (from_ l (level + 1))) as (D1 & _ & _). rewrite Rec17.len_from in D1 by lia.
  remember (countWhile isSpTab (from_ l (level + 1))) as k eqn:Ek. remember (level + 1 + k) as start eqn:Est.
  assert (Hst : 0 <= start <= len l) by lia.
  pose proof (scanBack_tail l start ltac:(lia) fuel (len l) ltac:(lia) ltac:(lia)) as S1. cbv zeta in S1.
  destruct (atx_scanBack fuel l start (len l)) as [e1 hit]. cbn [fst snd] in S1. destruct S1 as (A & B & C & D).
  assert (Fin1 : start = e1 \/ (e1 < len l /\ In (at_ l e1) Lst) \/ (e1 = len l /\ ~ isEOLz (at_ l (len l - 1)))).
  { destruct (Z.eq_dec e1 (len l)) as [E|N]; [|right; left; split; [lia|apply stle_Lst, B; lia]].
    destruct (C E) as [X|X]; [left; lia|right; right; split; [exact E|exact X]]. }
  destruct hit; cbn [negb] in H; [|injection H as <- <- <-; exact Fin1].
  destruct (D eq_refl) as [D1' D2'].
  pose proof (trailing_spec l start fuel (e1 - 1)) as T2. cbv zeta in T2.
  destruct (atx_trailing fuel l start (e1 - 1)) as [e2 mode]. cbn [fst snd] in T2. destruct T2 as (M1 & M2 & M3).
  destruct (Z.eqb_spec mode 0) as [E0|N0]; [injection H as <- <- <-; exact Fin1|].
  injection H as <- <- <-.
  destruct M3 as [X|[X|X]]; [contradiction| |].
  - rewrite (M1 X). left. destruct (trim_spec l start fuel start ltac:(lia)) as [R1 _]. cbv zeta in R1. apply Z.le_antisymm; apply R1.
  - destruct (M2 X) as (N1 & N2 & N3).
    assert (Hlt2 : e2 <= e1 - 1).
    { destruct (Z.eq_dec e2 e1) as [Eq|Ne]; [|lia]. rewrite Eq, D2' in N2. discriminate. }
    destruct (trim_spec l start fuel e2 ltac:(lia)) as [R1 R2]. cbv zeta in R1, R2.
    set (r := atx_trim fuel l start e2) in *.
    destruct (Z.eq_dec r e2) as [Eq|Ne].
    + right. left. split; [lia|]. rewrite Eq, (N3 ltac:(lia)). cbn. tauto.
    + right. left. split; [lia|]. apply stle_Lst, sptab_stle, R2. lia.
Qed.

Section Buffer.
Variable B : bytes.

(* the end of the entry is negative (an artefact of shifting; never happens, but costs nothing), the entry is empty, it ends at
   or behind the end of the buffer, or the byte behind it is a blank, a line ending or a '#' *)
Definition atq (u : inline) : Prop :=
  iend u < 0 \/ iend u <= istart u \/ len B <= iend u \/ In (at_ B (iend u)) Lst.
Definition aql (K : Z) (ik : list inline) : Prop := K = ATXHeadingKind -> forall u, In u ik -> atq u.
Fixpoint aq (b : block) : Prop :=
  match b with Blk K _ _ bk ik _ _ _ _ _ => aql K ik /\ allP aq bk end.

Lemma aq_eq b : aq b <-> aql (bkind b) (bik b) /\ allP aq (bkids b).
Proof. destruct b; reflexivity. Qed.
Lemma aql_other K ik : K <> ATXHeadingKind -> aql K ik.
Proof. intros N E. contradiction. Qed.

(* updates that keep kind, entries and children *)
Lemma aq_keep g b : bkind (g b) = bkind b -> bik (g b) = bik b -> bkids (g b) = bkids b -> aq b -> aq (g b).
Proof. intros E1 E2 E3. rewrite !aq_eq, E1, E2, E3. tauto. Qed.
Lemma aq_set_bend b v : aq b -> aq (set_bend b v). Proof. apply (aq_keep (fun x => set_bend x v)); destruct b; reflexivity. Qed.
Lemma aq_set_bstart b v : aq b -> aq (set_bstart b v). Proof. apply (aq_keep (fun x => set_bstart x v)); destruct b; reflexivity. Qed.
Lemma aq_set_bn b v : aq b -> aq (set_bn b v). Proof. apply (aq_keep (fun x => set_bn x v)); destruct b; reflexivity. Qed.
Lemma aq_set_bchar b v : aq b -> aq (set_bchar b v). Proof. apply (aq_keep (fun x => set_bchar x v)); destruct b; reflexivity. Qed.
Lemma aq_set_bindent b v : aq b -> aq (set_bindent b v). Proof. apply (aq_keep (fun x => set_bindent x v)); destruct b; reflexivity. Qed.
Lemma aq_set_bloose b v : aq b -> aq (set_bloose b v). Proof. apply (aq_keep (fun x => set_bloose x v)); destruct b; reflexivity. Qed.
Lemma aq_set_blast b v : aq b -> aq (set_blast b v). Proof. apply (aq_keep (fun x => set_blast x v)); destruct b; reflexivity. Qed.
Lemma aq_set_bkind b K' : K' <> ATXHeadingKind -> aq b -> aq (set_bkind b K').
Proof. intros N. rewrite !aq_eq. intros [_ H]. destruct b. cbn [set_bkind bkind bik bkids] in *. split; [apply aql_other, N|exact H]. Qed.
Lemma aq_set_bkids b ks : aq b -> allP aq ks -> aq (set_bkids b ks).
Proof. rewrite !aq_eq. intros [H _] Hk. destruct b. cbn [set_bkids bkind bik bkids] in *. split; assumption. Qed.
Lemma aq_set_bik b ik : bkind b <> ATXHeadingKind -> aq b -> aq (set_bik b ik).
Proof. intros N. rewrite !aq_eq. intros [_ H]. destruct b. cbn [set_bik bkind bik bkids] in *. split; [apply aql_other, N|exact H]. Qed.
Lemma aq_set_bik_sub b ik : (forall u, In u ik -> In u (bik b)) -> aq b -> aq (set_bik b ik).
Proof.
  intros Hs. rewrite !aq_eq. intros [H Hk]. destruct b. cbn [set_bik bkind bik bkids] in *. split; [|exact Hk].
  intros E u Hu. apply (H E), Hs, Hu.
Qed.
Lemma aq_newBlock K pos : aq (newBlock K pos).
Proof. unfold newBlock. cbn [aq allP]. split; [intros _ u []|exact I]. Qed.

Lemma aq_lastBlock b c : aq b -> lastBlock b = Some c -> aq c.
Proof. rewrite aq_eq. intros [_ H] Hl. eapply allP_In; [exact H|eapply lastBlock_In; exact Hl]. Qed.
Lemma allP_removelast {A} (P : A -> Prop) l : allP P l -> allP P (removelast l).
Proof. intros H. apply allP_intro. intros x Hx. eapply allP_In; [exact H|apply removelast_In, Hx]. Qed.
Lemma aq_set_lastBlocks b repl : aq b -> allP aq repl -> aq (set_lastBlocks b repl).
Proof.
  intros H Hr. unfold set_lastBlocks. apply aq_set_bkids; [exact H|]. apply allP_app. split; [|exact Hr].
  apply allP_removelast. apply aq_eq in H. tauto.
Qed.
Lemma aq_updAt f : (forall b, aq b -> aq (f b)) -> forall d b, aq b -> aq (updAt d f b).
Proof.
  intros Hf. induction d as [|d IH]; intros b H; [apply Hf; assumption|]. cbn [updAt].
  destruct (lastBlock b) as [c|] eqn:El; [|assumption].
  apply aq_set_lastBlocks; [assumption|]. cbn [allP]. split; [|exact I]. apply IH. eapply aq_lastBlock; eassumption.
Qed.
Lemma aq_updAt_at f : forall d b, aq b -> (forall x, getAt d b = Some x -> aq x -> aq (f x)) -> aq (updAt d f b).
Proof.
  induction d as [|d IH]; intros b H Hf; [apply Hf; [reflexivity|assumption]|]. cbn [updAt].
  destruct (lastBlock b) as [c|] eqn:El; [|assumption].
  apply aq_set_lastBlocks; [assumption|]. cbn [allP]. split; [|exact I].
  apply IH; [eapply aq_lastBlock; eassumption|]. intros x Hx. apply Hf. cbn [getAt]. rewrite El. exact Hx.
Qed.

(* ---- onClose handlers ---- *)
Lemma aq_onCloseIndented src b : bkind b <> ATXHeadingKind -> aq b -> aq (onCloseIndented src b).
Proof. intros N H. unfold onCloseIndented. apply aq_set_bik; assumption. Qed.
Lemma aq_onCloseList b : aq b -> aq (onCloseList b).
Proof.
  intros H. unfold onCloseList. cbv zeta. destruct (bloose b || _); [|assumption].
  apply aq_set_bkids; [apply aq_set_bloose, H|]. apply allP_map. apply aq_eq in H. destruct H as [_ H].
  revert H. apply allP_impl. intros x. apply aq_set_bloose.
Qed.
Lemma aq_refDef s e kids : aq (refDefBlock s e kids).
Proof. unfold refDefBlock. cbn [aq allP]. split; [intros E; discriminate E|exact I]. Qed.

Lemma aq_ocp : forall fuel rfuel src orig orphan r result,
  aq orig -> (match orphan with Some o => aq o | None => True end) -> allP aq result ->
  allP aq (ocp_loop fuel rfuel src orig orphan r result).
Proof.
  induction fuel as [|f IH]; intros rfuel src orig orphan r result Ho Hor Hr.
  { cbn [ocp_loop]. apply allP_app. cbn [allP]. tauto. }
  assert (Hkeep : allP aq (result ++ [orig])) by (apply allP_app; cbn [allP]; tauto).
  assert (Hwo : forall res, allP aq res -> allP aq (match orphan with Some o => res ++ [o] | None => res end)).
  { intros res Hres. destruct orphan as [o|]; [|assumption]. apply allP_app. cbn [allP]. tauto. }
  assert (Hcut : forall pos, aq (set_bik (set_bstart orig pos) (from_ (bik orig) (nodeIndexForPosition (bik orig) pos)))).
  { intros pos. apply aq_set_bik_sub; [|apply aq_set_bstart, Ho]. rewrite bik_set_bstart. intros u. apply from_sub. }
  cbn [ocp_loop]. cbv zeta.
  destruct (parseLinkLabel rfuel r) as [[lspan linner] r1].
  destruct (negb (spanValid lspan)); [assumption|].
  destruct (current r1) as [c r2]. destruct (negb (c =? 58)); [assumption|].
  destruct (next r2) as [? r3]. destruct (skipLinkSpace rfuel r3) as [ok r4]. destruct (negb ok); [assumption|].
  destruct (parseLinkDestination rfuel r4) as [[dspan dtext] r5]. destruct (negb (spanValid dspan)); [assumption|].
  destruct (readEOL rfuel r5) as [destEOL r6]. destruct (current r6) as [c6 r7].
  destruct (_ && _ && _); [assumption|].
  set (labelInline := Inl LinkLabelKind _ _ 0 _ _). set (destInline := Inl LinkDestinationKind _ _ 0 [] _).
  assert (H2 : allP aq (result ++ [refDefBlock (fst lspan) destEOL [labelInline; destInline]])).
  { apply allP_app. split; [exact Hr|]. cbn [allP]. split; [apply aq_refDef|exact I]. }
  destruct (skipLinkSpace rfuel r7) as [ok2 r8]. destruct (negb ok2); [apply Hwo; assumption|].
  destruct (parseLinkTitle rfuel r8) as [[tspan ttext] r9].
  destruct (negb (spanValid tspan)).
  { destruct (destEOL <? 0); [assumption|]. destruct (_ <? 0); [apply Hwo; assumption|].
    apply IH; [apply Hcut|assumption|assumption]. }
  destruct (readEOL rfuel r9) as [titleEOL r10].
  destruct (titleEOL <? 0).
  { destruct (destEOL <? 0); [assumption|]. destruct (_ <? 0); [apply Hwo; assumption|].
    rewrite app_assoc. apply allP_app. split; [exact H2|]. cbn [allP]. split; [apply Hcut|exact I]. }
  set (titleInline := Inl LinkTitleKind _ _ 0 [] _).
  assert (H3 : allP aq (result ++ [refDefBlock (fst lspan) titleEOL [labelInline; destInline; titleInline]])).
  { apply allP_app. split; [exact Hr|]. cbn [allP]. split; [apply aq_refDef|exact I]. }
  destruct (_ <? 0); [apply Hwo; assumption|]. apply IH; [apply Hcut|assumption|assumption].
Qed.
Lemma aq_onCloseParagraph src orig : aq orig -> allP aq (onCloseParagraph src orig).
Proof.
  intros H. unfold onCloseParagraph. destruct (bik orig) as [|first rest] eqn:Eb; [cbn [allP]; tauto|].
  cbv zeta. rewrite <- Eb. apply aq_ocp; [assumption| |exact I].
  destruct (bkind orig =? SetextHeadingKind); [|exact I]. cbn [aq allP]. split; [intros E; discriminate E|exact I].
Qed.
Lemma aq_closeBlock src e : forall fuel b, aq b -> allP aq (closeBlock fuel src b e).
Proof.
  induction fuel as [|f IH]; intros b H; [cbn [closeBlock allP]; tauto|]. cbn [closeBlock].
  destruct (negb (isOpen b)); [cbn [allP]; tauto|]. cbv zeta.
  assert (Hcl : forall x, aq x ->
            aq (match lastBlock x with Some c => set_lastBlocks x (closeBlock f src c e) | None => x end)).
  { intros x Hx. destruct (lastBlock x) as [c|] eqn:El; [|assumption].
    apply aq_set_lastBlocks; [assumption|]. apply IH. eapply aq_lastBlock; eassumption. }
  assert (H1 : aq (set_bend b e)) by (apply aq_set_bend; assumption).
  destruct (Z.eqb_spec (bkind (set_bend b e)) ListKind) as [E1|N1].
  { cbn [allP]. split; [|exact I]. apply Hcl, aq_onCloseList, H1. }
  destruct (Z.eqb_spec (bkind (set_bend b e)) IndentedCodeBlockKind) as [E2|N2].
  { cbn [allP]. split; [|exact I]. apply Hcl, aq_onCloseIndented; [rewrite E2; discriminate|exact H1]. }
  destruct (_ || _); [apply aq_onCloseParagraph; assumption|].
  cbn [allP]. split; [|exact I]. apply Hcl, H1.
Qed.

(* ---- the line parser ---- *)
Definition aqP (p : lp) : Prop := aq (root p).
Lemma aqP_same p p' : same_tree p p' -> aqP p -> aqP p'.
Proof. intros [E1 _]. unfold aqP. rewrite E1. tauto. Qed.
Lemma aqP_advance p n : aqP p -> aqP (advance p n). Proof. apply aqP_same, same_advance. Qed.
Lemma aqP_consumeLine p : aqP p -> aqP (consumeLine p). Proof. apply aqP_same, same_consumeLine. Qed.
Lemma aqP_consumeIndent p n : aqP p -> aqP (consumeIndent p n). Proof. apply aqP_same, same_consumeIndent. Qed.
Lemma aqP_opened p : aqP p -> aqP (if state p =? stOpening then withState p stOpenMatched else p).
Proof. apply aqP_same, same_opened. Qed.

Lemma aqP_updCont_any p g : aqP p -> (forall b, aq b -> aq (g b)) -> aqP (updCont p g).
Proof. intros H Hg. unfold aqP, updCont. cbn [root withRoot setLP]. apply aq_updAt; assumption. Qed.
(* the container is not an ATX heading *)
Lemma aqP_updCont p g : J p -> aqP p -> (forall b, bkind b <> ATXHeadingKind -> aq b -> aq (g b)) -> aqP (updCont p g).
Proof.
  intros [_ Hs] H Hg. unfold aqP, updCont. cbn [root withRoot setLP]. apply aq_updAt_at; [exact H|].
  intros x Hx Hax. apply Hg; [apply (Hs _ x (le_n _) Hx)|exact Hax].
Qed.
Lemma aqP_add_ik p u : J p -> aqP p -> aqP (updCont p (fun b => set_bik b (bik b ++ [u]))).
Proof. intros HJ H. apply aqP_updCont; [exact HJ|exact H|]. intros b Nb Hb. apply aq_set_bik; assumption. Qed.

Lemma aq_closeChild src f e b : aq b ->
  aq (match lastBlock b with Some c => set_lastBlocks b (closeBlock f src c e) | None => b end).
Proof.
  intros Hb. destruct (lastBlock b) as [c|] eqn:El; [|assumption].
  apply aq_set_lastBlocks; [assumption|]. apply aq_closeBlock. eapply aq_lastBlock; eassumption.
Qed.
Lemma aqP_closeLastChildAt p d e : aqP p -> aqP (closeLastChildAt p d e).
Proof. intros H. unfold aqP, closeLastChildAt. cbn [root withRoot setLP]. apply aq_updAt; [|assumption]. intros b Hb. apply aq_closeChild, Hb. Qed.
Lemma aqP_openBlock_up : forall fuel p kind, aqP p -> aqP (openBlock_up fuel p kind).
Proof.
  induction fuel as [|f IH]; intros p kind H; [assumption|]. cbn [openBlock_up].
  destruct (canContain _ _); [assumption|]. destruct (cdepth p); [assumption|].
  apply IH. apply (aqP_closeLastChildAt p n (lineStart p) H).
Qed.
Lemma aqP_openBlock p kind : aqP p -> aqP (openBlock p kind).
Proof.
  intros H. unfold openBlock. destruct (_ || _); [assumption|]. cbv zeta.
  match goal with |- aqP (withCont ?q _) => change (aqP q) end. apply aqP_updCont_any.
  - apply aqP_closeLastChildAt, aqP_openBlock_up, aqP_opened, H.
  - intros b Hb. apply aq_set_bkids; [assumption|]. apply allP_app. split; [apply aq_eq in Hb; tauto|].
    cbn [allP]. split; [apply aq_newBlock|exact I].
Qed.
Lemma aqP_endBlock p : aqP p -> aqP (endBlock p).
Proof.
  intros H. unfold endBlock. destruct (_ || _); [assumption|]. cbv zeta.
  destruct (cdepth _) eqn:Ed; [destruct (state p =? stOpening); assumption|].
  match goal with |- aqP (withCont ?q _) => change (aqP q) end. apply aqP_closeLastChildAt, aqP_opened, H.
Qed.

Lemma aqP_collectInline p kind n : J p -> aqP p -> aqP (collectInline p kind n).
Proof.
  intros HJ H. unfold collectInline. destruct (_ =? stDescendTerminated); [exact H|]. cbv zeta.
  pose proof (J_opened p HJ) as J0. pose proof (aqP_opened p H) as H0.
  set (p0 := if state p =? stOpening then withState p stOpenMatched else p) in *.
  destruct (0 <? indent p0).
  - apply aqP_add_ik; [apply J_advance, J_add_ik, J_advance, J0|].
    apply aqP_advance, aqP_add_ik; [apply J_advance, J0|apply aqP_advance, H0].
  - apply aqP_add_ik; [apply J_advance, J0|apply aqP_advance, H0].
Qed.

Lemma aqP_matchRule p : J p -> aqP p -> aqP (snd (matchRule p)).
Proof.
  intros HJ H. unfold matchRule. cbv zeta.
  destruct (_ || _); [assumption|].
  destruct (_ =? ListItemKind).
  { unfold matchListItem. destruct (isRestBlank p); [destruct (negb _); [assumption|apply aqP_consumeIndent, H]|].
    destruct (_ <=? _); [apply aqP_consumeIndent, H|assumption]. }
  destruct (_ =? BlockQuoteKind).
  { unfold matchBlockQuote. cbv zeta. destruct (_ <=? _); [assumption|]. destruct (negb _); [assumption|]. cbn [snd].
    unfold eatQuoteMarker. cbv zeta. destruct (0 <? _); repeat first [apply aqP_consumeIndent|apply aqP_advance]; assumption. }
  destruct (_ =? FencedCodeBlockKind).
  { unfold matchFenced. cbv zeta. destruct (if _ <? _ then _ else false); cbn [snd]; [apply aqP_consumeLine|apply aqP_consumeIndent]; assumption. }
  destruct (_ =? IndentedCodeBlockKind).
  { unfold matchIndented. cbv zeta. destruct (_ <? _); [destruct (negb _)|]; cbn [snd]; try apply aqP_consumeIndent; assumption. }
  destruct (_ =? HTMLBlockKind).
  { unfold matchHTML. destruct (htmlEnd _ _); [|assumption]. destruct (isRestBlank _); [assumption|]. cbn [snd]. apply aqP_consumeLine.
    apply aqP_collectInline; assumption. }
  assumption.
Qed.

Lemma aqP_descend_loop : forall fuel p d, atT (root p) = true -> spineNA d (root p) -> aqP p -> aqP (snd (descend_loop fuel p d)).
Proof.
  induction fuel as [|f IH]; intros p d H Hs Ha; [assumption|]. cbn [descend_loop]. cbv zeta.
  destruct (getAt (S d) (root p)) as [c|] eqn:Ec; [|assumption].
  destruct (negb (isOpen c)); [assumption|].
  destruct (hasMatch (bkind c)) eqn:Hm; cbn [negb]; [|assumption].
  assert (Nc : bkind c <> ATXHeadingKind) by (intros E; rewrite E in Hm; discriminate).
  set (p' := withState (withCont p (Some (S d))) stDescending).
  assert (H' : J p').
  { split; [exact H|]. cbn [p' cdepth container withState withCont setLP root]. intros k b Lk Hb.
    destruct (Nat.eq_dec k (S d)) as [->|Nk]; [rewrite Ec in Hb; injection Hb as <-; exact Nc|apply (Hs k b ltac:(lia) Hb)]. }
  destruct (J_matchRule p' H') as [H2 C2].
  pose proof (aqP_matchRule p' H' Ha) as A2.
  destruct (matchRule p') as [ok p2]. cbn [snd] in H2, C2, A2.
  assert (E2 : cdepth p2 = S d) by (unfold cdepth; rewrite C2; reflexivity).
  destruct H2 as [T2 S2]. rewrite E2 in S2.
  destruct (state p2 =? stDescendTerminated); [cbn [snd]; apply (aqP_closeLastChildAt p2 d _ A2)|].
  destruct (negb ok); [assumption|].
  apply IH; assumption.
Qed.

End Buffer.
