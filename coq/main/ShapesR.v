From Coq Require Import List ZArith Lia Bool.
Import ListNotations.
Require Import Base Tree Rdr Link ShapesBase.
Open Scope Z_scope.

(* ================================================================ well-formed span lists
   The multi-line reader walks a list of spans (the unparsed lines of a paragraph, separated by gaps that hold the
   container prefixes "> ", list indentation ...).  What its scanners guarantee about SOURCE bytes depends on that list
   being sane.  spOK is an executable checker for exactly the conditions the proofs below use:
     - every span is non-empty, starts at a non-negative offset and ends inside the source;
     - the list is sorted: each span ends before every later span starts;
     - an Indent span covers only spaces / tabs;
     - a span that is not the last one does not end in a backtick (in real trees it ends with the line ending);
     - the byte just before a later span (the last byte of the gap, or of the previous span) is not a backtick. *)
Fixpoint spOK (src : bytes) (sp : list inline) : bool :=
  match sp with
  | [] => true
  | i :: r =>
    (0 <=? istart i) && (istart i <? iend i) && (iend i <=? len src) &&
    forallb (fun j => (iend i <=? istart j) && negb (at_ src (istart j - 1) =? 96)) r &&
    (if ikind i =? IndentKind then forallb isSpTab (sub src (istart i) (iend i))
     else match r with [] => true | _ => negb (at_ src (iend i - 1) =? 96) end) &&
    spOK src r
  end.

Lemma spOK_cons src i r : spOK src (i :: r) = true ->
  0 <= istart i /\ istart i < iend i /\
  (forall j, In j r -> iend i <= istart j /\ at_ src (istart j - 1) <> 96) /\
  (ikind i = IndentKind -> forallb isSpTab (sub src (istart i) (iend i)) = true) /\
  (ikind i <> IndentKind -> r <> [] -> at_ src (iend i - 1) <> 96) /\
  spOK src r = true.
Proof.
  cbn [spOK]. intros H. apply andb_true_iff in H. destruct H as [H H5]. apply andb_true_iff in H. destruct H as [H H4].
  apply andb_true_iff in H. destruct H as [H H3]. apply andb_true_iff in H. destruct H as [H H2'].
  apply andb_true_iff in H. destruct H as [H1 H2].
  apply Z.leb_le in H1. apply Z.ltb_lt in H2. repeat split; try assumption.
  - rewrite forallb_forall in H3. specialize (H3 j H). apply andb_true_iff in H3. destruct H3 as [A _]. apply Z.leb_le in A. exact A.
  - rewrite forallb_forall in H3. specialize (H3 j H). apply andb_true_iff in H3. destruct H3 as [_ A].
    apply negb_true_iff in A. apply Z.eqb_neq in A. exact A.
  - intros E. apply Z.eqb_eq in E. rewrite E in H4. exact H4.
  - intros E Hr. apply Z.eqb_neq in E. rewrite E in H4. destruct r; [congruence|].
    apply negb_true_iff in H4. apply Z.eqb_neq in H4. exact H4.
Qed.
Lemma spOK_iend src i r : spOK src (i :: r) = true -> iend i <= len src.
Proof.
  cbn [spOK]. intros H. apply andb_true_iff in H. destruct H as [H H5]. apply andb_true_iff in H. destruct H as [H H4].
  apply andb_true_iff in H. destruct H as [H H3]. apply andb_true_iff in H. destruct H as [H H2'].
  apply Z.leb_le in H2'. exact H2'.
Qed.
Lemma spOK_tail src i r : spOK src (i :: r) = true -> spOK src r = true.
Proof. intros H. apply spOK_cons in H. tauto. Qed.
Lemma spOK_app_r src : forall pre l, spOK src (pre ++ l) = true -> spOK src l = true.
Proof. induction pre as [|x pre IH]; intros l H; [exact H|]. apply IH. apply (spOK_tail src x). exact H. Qed.
Lemma spOK_skipn src n : forall l, spOK src l = true -> spOK src (skipn n l) = true.
Proof.
  intros l H. rewrite <- (firstn_skipn n l) in H. apply spOK_app_r in H. exact H.
Qed.
Lemma spOK_from src l a : spOK src l = true -> spOK src (from_ l a) = true.
Proof. apply spOK_skipn. Qed.

(* an Indent span covers blanks only: the source byte at a position inside it is a space or a tab (or lies beyond the source) *)
Lemma spanHas_range n pos : spanHas n pos = true -> 0 <= istart n /\ istart n <= pos /\ pos < iend n.
Proof.
  unfold spanHas. rewrite !andb_true_iff. intros ((((A & B) & C) & D) & E).
  apply Z.leb_le in A, B, C, D. apply Z.ltb_lt in E. lia.
Qed.
Lemma spanHas_intro n pos : 0 <= istart n -> istart n <= pos -> pos < iend n -> spanHas n pos = true.
Proof.
  intros A B C. unfold spanHas. rewrite !andb_true_iff. repeat split; try (apply Z.leb_le; lia). apply Z.ltb_lt; lia.
Qed.
Lemma indent_blank src n pos : forallb isSpTab (sub src (istart n) (iend n)) = true -> spanHas n pos = true ->
  len src <= pos \/ isSpTab (at_ src pos) = true.
Proof.
  intros Hb Hh. apply spanHas_range in Hh. destruct Hh as (A & B & C).
  destruct (Z.le_gt_cases (len src) pos) as [L|L]; [left; exact L|right].
  pose proof (at_forallb _ _ Hb (pos - istart n)) as H. rewrite len_sub in H by lia.
  specialize (H ltac:(lia)). rewrite at_sub in H by lia. replace (istart n + (pos - istart n)) with pos in H by lia. exact H.
Qed.
Lemma blank_not c : isSpTab c = true -> c = 32 \/ c = 9.
Proof. unfold isSpTab. intros H. apply orb_true_iff in H. destruct H as [H|H]; apply Z.eqb_eq in H; tauto. Qed.

(* ================================================================ curNode *)
Lemma nodeIdx_split : forall spans pos k, 0 <= k ->
  nodeIdx spans pos k < 0 \/
  (k <= nodeIdx spans pos k /\
   exists pre n rest, spans = pre ++ n :: rest /\ skipn (Z.to_nat (nodeIdx spans pos k - k)) spans = n :: rest /\ spanHas n pos = true).
Proof.
  induction spans as [|i r IH]; intros pos k Hk; [left; cbn; lia|]. cbn [nodeIdx].
  destruct (pos <? istart i); [left; lia|]. destruct (spanHas i pos) eqn:Eh.
  - right. split; [lia|]. exists [], i, r. replace (k - k) with 0 by lia. repeat split. exact Eh.
  - destruct (IH pos (k + 1) ltac:(lia)) as [H|(H1 & pre & n & rest & E1 & E2 & E3)]; [left; exact H|].
    right. split; [lia|]. exists (i :: pre), n, rest. split; [cbn; f_equal; exact E1|]. split; [|exact E3].
    replace (Z.to_nat (nodeIdx r pos (k + 1) - k)) with (S (Z.to_nat (nodeIdx r pos (k + 1) - (k + 1)))) by lia.
    exact E2.
Qed.

Definition withSpans (r : reader) (sp : list inline) : reader :=
  {| r_src := r_src r; r_spans := sp; r_pos := r_pos r; r_vpos := r_vpos r; r_prev := r_prev r |}.

Lemma curNode_cases r :
  (curNode r = (None, withSpans r [])) \/
  (exists pre n rest, r_spans r = pre ++ n :: rest /\ curNode r = (Some n, withSpans r (n :: rest)) /\ spanHas n (r_pos r) = true).
Proof.
  unfold curNode. cbv zeta. unfold nodeIndexForPosition.
  destruct (nodeIdx_split (r_spans r) (r_pos r) 0 ltac:(lia)) as [H|(H1 & pre & n & rest & E1 & E2 & E3)].
  - left. destruct (Z.ltb_spec (nodeIdx (r_spans r) (r_pos r) 0) 0); [reflexivity|lia].
  - right. exists pre, n, rest. split; [exact E1|]. split; [|exact E3].
    destruct (Z.ltb_spec (nodeIdx (r_spans r) (r_pos r) 0) 0); [lia|].
    unfold from_. replace (nodeIdx (r_spans r) (r_pos r) 0 - 0) with (nodeIdx (r_spans r) (r_pos r) 0) in E2 by lia.
    rewrite E2. reflexivity.
Qed.

Lemma curNode_head n rest r : r_spans r = n :: rest -> spanHas n (r_pos r) = true ->
  curNode r = (Some n, r).
Proof.
  intros E Hh. unfold curNode. cbv zeta. unfold nodeIndexForPosition. rewrite E. cbn [nodeIdx].
  pose proof (spanHas_range _ _ Hh) as (A & B & C).
  destruct (Z.ltb_spec (r_pos r) (istart n)); [lia|]. rewrite Hh. cbn. destruct r; cbn in *. subst. reflexivity.
Qed.
Lemma curNode_nil r : r_spans r = [] -> curNode r = (None, r).
Proof. intros E. unfold curNode. cbv zeta. rewrite E. cbn. destruct r; cbn in *. subst. reflexivity. Qed.

Lemma curNode_idem r : curNode (snd (curNode r)) = curNode r.
Proof.
  destruct (curNode_cases r) as [E|(pre & n & rest & E1 & E & E3)]; rewrite E; cbn [snd].
  - apply curNode_nil. reflexivity.
  - apply (curNode_head n rest); [reflexivity|exact E3].
Qed.

(* ================================================================ current / cur *)
Lemma current_snd r : snd (current r) = r \/ snd (current r) = snd (curNode r).
Proof.
  unfold current. destruct (len (r_src r) <=? r_pos r); [left; reflexivity|].
  destruct (curNode r) as [n r']. cbn [snd]. right. destruct (okind n =? IndentKind); [reflexivity|].
  destruct (_ =? 0); reflexivity.
Qed.
Lemma curNode_fields r : let r' := snd (curNode r) in
  r_src r' = r_src r /\ r_pos r' = r_pos r /\ r_vpos r' = r_vpos r /\ r_prev r' = r_prev r.
Proof.
  cbv zeta. destruct (curNode_cases r) as [E|(pre & n & rest & E1 & E & E3)]; rewrite E; cbn; tauto.
Qed.
Lemma current_fields r : let r' := snd (current r) in
  r_src r' = r_src r /\ r_pos r' = r_pos r /\ r_vpos r' = r_vpos r /\ r_prev r' = r_prev r.
Proof.
  cbv zeta. destruct (current_snd r) as [E|E]; rewrite E; [tauto|apply curNode_fields].
Qed.
Lemma curNode_current r : curNode (snd (current r)) = curNode r \/ (snd (current r) = r).
Proof. destruct (current_snd r) as [E|E]; [right; exact E|left; rewrite E; apply curNode_idem]. Qed.

Lemma next_curNode r : next (snd (curNode r)) = next r.
Proof. unfold next. rewrite curNode_idem. reflexivity. Qed.
Lemma next_current r : next (snd (current r)) = next r.
Proof. destruct (current_snd r) as [E|E]; rewrite E; [reflexivity|apply next_curNode]. Qed.
Lemma current_current r : current (snd (current r)) = current r.
Proof.
  unfold current at 2 3. destruct (Z.leb_spec (len (r_src r)) (r_pos r)) as [L|L].
  - cbn [snd]. unfold current. destruct (Z.leb_spec (len (r_src r)) (r_pos r)); [reflexivity|lia].
  - assert (E : snd (let '(n, r') := curNode r in
                     if okind n =? IndentKind then (32, r')
                     else if at_ (r_src r) (r_pos r) =? 0 then (nullRepl (r_vpos r), r') else (at_ (r_src r) (r_pos r), r'))
                = snd (curNode r)).
    { destruct (curNode r) as [n r']. destruct (okind n =? IndentKind); [reflexivity|]. destruct (_ =? 0); reflexivity. }
    rewrite E. unfold current. destruct (curNode_fields r) as (A & B & C & D). cbv zeta in *. rewrite A, B, C, curNode_idem.
    destruct (Z.leb_spec (len (r_src r)) (r_pos r)); [lia|]. reflexivity.
Qed.
Lemma cur_current r : cur (snd (current r)) = cur r.
Proof. unfold cur. rewrite current_current. reflexivity. Qed.
Lemma remaining_current r : remainingNodeBytes (snd (current r)) = remainingNodeBytes r.
Proof.
  destruct (current_snd r) as [E|E]; rewrite E; [reflexivity|].
  unfold remainingNodeBytes. rewrite curNode_idem. destruct (curNode_fields r) as (A & B & _). cbv zeta in *.
  rewrite A, B. reflexivity.
Qed.

(* the byte the reader reports is the source byte, unless it is one of the bytes the reader can synthesise
   (0 at the end, 32 for indentation, EF BF BD for NUL) *)
Definition synth (c : Z) : bool := (c =? 0) || (c =? 32) || (c =? 239) || (c =? 191) || (c =? 189).
Lemma cur_src r c : cur r = c -> synth c = false ->
  at_ (r_src r) (r_pos r) = c /\ 0 <= r_pos r < len (r_src r) /\ okind (fst (curNode r)) <> IndentKind.
Proof.
  unfold cur, current. intros H Hs.
  assert (Hc : c <> 0 /\ c <> 32 /\ c <> 239 /\ c <> 191 /\ c <> 189).
  { unfold synth in Hs. repeat (apply orb_false_iff in Hs; destruct Hs as [Hs ?]).
    repeat match goal with E : (_ =? _) = false |- _ => apply Z.eqb_neq in E end. tauto. }
  destruct (Z.leb_spec (len (r_src r)) (r_pos r)) as [L|L]; [cbn in H; lia|].
  destruct (curNode r) as [n r']. cbn [fst].
  destruct (Z.eqb_spec (okind n) IndentKind) as [E|E]; [cbn in H; lia|].
  destruct (Z.eqb_spec (at_ (r_src r) (r_pos r)) 0) as [E0|E0].
  - cbn [fst] in H. unfold nullRepl in H. destruct (_ =? 0); [lia|]. destruct (_ =? 1); lia.
  - cbn [fst] in H. split; [exact H|]. split; [|exact E]. split; [|lia].
    destruct (Z.lt_ge_cases (r_pos r) 0) as [Hn|Hn]; [|lia]. rewrite at_neg in E0 by lia. congruence.
Qed.

(* ================================================================ next *)
Lemma nextSpan_split : forall sp i sp', nextSpan sp = Some (i, sp') -> exists pre rest, sp = pre ++ i :: rest /\ sp' = i :: rest.
Proof.
  induction sp as [|x r IH]; intros i sp' H; [discriminate|]. cbn [nextSpan] in H.
  destruct ((ikind x =? UnparsedKind) || (ikind x =? TextKind) || (ikind x =? IndentKind)).
  - inversion H; subst. exists [], r. split; reflexivity.
  - destruct (IH _ _ H) as (pre & rest & E1 & E2). exists (x :: pre), rest. split; [cbn; f_equal; exact E1|exact E2].
Qed.

Definition InNode (r : reader) : Prop := exists node, fst (curNode r) = Some node.

(* a successful step: where the reader can be afterwards *)
Lemma next_true r r1 : next r = (true, r1) ->
  exists node rest, curNode r = (Some node, withSpans r (node :: rest)) /\ spanHas node (r_pos r) = true /\
    (exists pre, r_spans r = pre ++ node :: rest) /\
    r_src r1 = r_src r /\ r_prev r1 = r_pos r /\
    ( (ikind node = IndentKind /\ r_pos r1 = r_pos r /\ r_spans r1 = node :: rest)
    \/ (ikind node <> IndentKind /\ r_pos r1 = r_pos r + 1 /\ r_pos r + 1 < iend node /\ r_spans r1 = node :: rest)
    \/ (exists pre' j rest', rest = pre' ++ j :: rest' /\ r_spans r1 = j :: rest' /\ r_pos r1 = istart j /\
                            (ikind node = IndentKind \/ iend node <= r_pos r + 1)) ).
Proof.
  unfold next. destruct (curNode_cases r) as [E|(pre & n & rest & E1 & E & E3)]; rewrite E; [discriminate|].
  intros H. exists n, rest. split; [reflexivity|]. split; [exact E3|]. split; [exists pre; exact E1|].
  cbn [r_src r_pos r_spans r_vpos withSpans] in H.
  destruct (Z.eqb_spec (ikind n) IndentKind) as [Ek|Ek]; cbn [andb negb] in H.
  - destruct (r_vpos r <? iindent n).
    + inversion H; subst r1. cbn. split; [reflexivity|]. split; [reflexivity|]. left. tauto.
    + destruct (nextSpan (tl (n :: rest))) as [[i sp]|] eqn:En; [|discriminate].
      inversion H; subst r1. cbn. split; [reflexivity|]. split; [reflexivity|]. right. right.
      cbn [tl] in En. destruct (nextSpan_split _ _ _ En) as (pre' & rest' & A & B).
      exists pre', i, rest'. repeat split; try assumption. left. exact Ek.
  - destruct (Z.ltb_spec (r_pos r + 1) (iend n)) as [L|L].
    + inversion H; subst r1. cbn. split; [reflexivity|]. split; [reflexivity|]. right. left. tauto.
    + destruct (nextSpan (tl (n :: rest))) as [[i sp]|] eqn:En; [|discriminate].
      inversion H; subst r1. cbn. split; [reflexivity|]. split; [reflexivity|]. right. right.
      cbn [tl] in En. destruct (nextSpan_split _ _ _ En) as (pre' & rest' & A & B).
      exists pre', i, rest'. repeat split; try assumption. right. exact L.
Qed.

(* a failed step: the reader is exhausted for good; if it was inside a node, the previous position is recorded and the
   node was at its last byte (or was indentation) *)
Lemma next_false r r1 : next r = (false, r1) ->
  r_spans r1 = [] /\ r_src r1 = r_src r /\
  (forall node, fst (curNode r) = Some node ->
     r_prev r1 = r_pos r /\ r_pos r1 = r_pos r + 1 /\ (ikind node = IndentKind \/ iend node = r_pos r + 1)).
Proof.
  unfold next. destruct (curNode_cases r) as [E|(pre & n & rest & E1 & E & E3)]; rewrite E.
  - intros H. inversion H; subst r1. cbn. split; [reflexivity|]. split; [reflexivity|]. intros node Hn. discriminate.
  - cbn [r_src r_pos r_spans r_vpos withSpans]. intros H.
    pose proof (spanHas_range _ _ E3) as (A & B & C).
    destruct (Z.eqb_spec (ikind n) IndentKind) as [Ek|Ek]; cbn [andb negb] in H.
    + destruct (r_vpos r <? iindent n); [discriminate|].
      destruct (nextSpan (tl (n :: rest))) as [[i sp]|]; [discriminate|].
      inversion H; subst r1. cbn. split; [reflexivity|]. split; [reflexivity|]. intros node Hn. inversion Hn; subst node. tauto.
    + destruct (Z.ltb_spec (r_pos r + 1) (iend n)) as [L|L]; [discriminate|].
      destruct (nextSpan (tl (n :: rest))) as [[i sp]|]; [discriminate|].
      inversion H; subst r1. cbn. split; [reflexivity|]. split; [reflexivity|]. intros node Hn. inversion Hn; subst node.
      split; [reflexivity|]. split; [reflexivity|]. right. lia.
Qed.
Lemma next_false_again r r1 : next r = (false, r1) -> fst (next r1) = false.
Proof.
  intros H. apply next_false in H. destruct H as (E & _). unfold next. rewrite (curNode_nil r1 E). reflexivity.
Qed.

(* ---- the step under a well-formed span list ---- *)
Definition RI (src : bytes) (r : reader) : Prop := r_src r = src /\ spOK src (r_spans r) = true.

Lemma RI_curNode src r : RI src r -> RI src (snd (curNode r)).
Proof.
  intros (A & B). destruct (curNode_cases r) as [E|(pre & n & rest & E1 & E & E3)]; rewrite E; cbn [snd]; split; cbn; try assumption.
  - reflexivity.
  - rewrite E1 in B. apply spOK_app_r in B. exact B.
Qed.
Lemma RI_current src r : RI src r -> RI src (snd (current r)).
Proof. intros H. destruct (current_snd r) as [E|E]; rewrite E; [exact H|apply RI_curNode, H]. Qed.
Lemma InNode_current r : InNode r -> InNode (snd (current r)).
Proof.
  intros (n & H). destruct (curNode_current r) as [E|E]; [|rewrite E; exists n; exact H].
  exists n. rewrite E. exact H.
Qed.

Lemma next_step src r r1 : RI src r -> next r = (true, r1) ->
  RI src r1 /\ InNode r1 /\ r_prev r1 = r_pos r /\
  ( (r_pos r1 = r_pos r + 1 /\ okind (fst (curNode r)) <> IndentKind)
  \/ (r_pos r1 = r_pos r /\ (len src <= r_pos r \/ isSpTab (at_ src (r_pos r)) = true))
  \/ (r_pos r + 1 <= r_pos r1 /\ at_ src (r_pos r1 - 1) <> 96 /\
      (len src <= r_pos r \/ isSpTab (at_ src (r_pos r)) = true \/ at_ src (r_pos r) <> 96) /\
      (okind (fst (curNode r)) = IndentKind \/ exists n, fst (curNode r) = Some n /\ iend n = r_pos r + 1)) ).
Proof.
  intros (Hs & Hok) H. destruct (next_true r r1 H) as (node & rest & Ec & Hh & (pre & Epre) & Es & Ep & Hcase).
  rewrite Epre in Hok. apply spOK_app_r in Hok. pose proof (spOK_cons _ _ _ Hok) as (A & B & C & D & F & G).
  pose proof (spanHas_range _ _ Hh) as (R1 & R2 & R3). rewrite Ec. cbn [fst okind].
  destruct Hcase as [(Ek & Epos & Esp)|[(Ek & Epos & Elt & Esp)|(pre' & j & rest' & Er & Esp & Epos & Ecase)]].
  - (* stall inside indentation *)
    split; [split; [congruence|rewrite Esp; exact Hok]|]. split.
    { exists node. rewrite (curNode_head node rest r1 Esp); [reflexivity|]. rewrite Epos. exact Hh. }
    split; [exact Ep|]. right. left. split; [exact Epos|]. apply (indent_blank src node); [apply D, Ek|exact Hh].
  - (* contiguous *)
    split; [split; [congruence|rewrite Esp; exact Hok]|]. split.
    { exists node. rewrite (curNode_head node rest r1 Esp); [reflexivity|]. rewrite Epos. apply spanHas_intro; lia. }
    split; [exact Ep|]. left. split; [exact Epos|exact Ek].
  - (* jump to a later span *)
    assert (Hj : In j rest) by (rewrite Er; apply in_or_app; right; left; reflexivity).
    destruct (C j Hj) as (C1 & C2).
    assert (Hokj : spOK src (j :: rest') = true) by (rewrite Er in G; apply spOK_app_r in G; exact G).
    pose proof (spOK_cons _ _ _ Hokj) as (A' & B' & _).
    split; [split; [congruence|rewrite Esp; exact Hokj]|]. split.
    { exists j. rewrite (curNode_head j rest' r1 Esp); [reflexivity|]. rewrite Epos. apply spanHas_intro; lia. }
    split; [exact Ep|]. right. right. split; [lia|]. split; [rewrite Epos; exact C2|]. split.
    + destruct (Z.eq_dec (ikind node) IndentKind) as [Ek|Ek].
      * destruct (indent_blank src node _ (D Ek) Hh) as [L|L]; [left; exact L|right; left; exact L].
      * right. right. destruct Ecase as [Ek'|Ee]; [congruence|].
        replace (r_pos r) with (iend node - 1) by lia. apply F; [exact Ek|]. rewrite Er. destruct pre'; discriminate.
    + destruct Ecase as [Ek'|Ee]; [left; exact Ek'|right]. exists node. split; [reflexivity|lia].
Qed.

(* what a reader byte different from a backtick says about the source, under a well-formed span list *)
Lemma cur_not_tick src r : RI src r -> cur r <> 96 -> at_ src (r_pos r) <> 96.
Proof.
  intros (Hs & Hok) Hc. unfold cur, current in Hc. rewrite Hs in Hc.
  destruct (Z.leb_spec (len src) (r_pos r)) as [L|L]; [rewrite at_beyond by lia; lia|].
  destruct (curNode_cases r) as [E|(pre & n & rest & E1 & E & E3)]; rewrite E in Hc; cbn [okind] in Hc.
  - change (0 =? IndentKind) with false in Hc. cbv iota in Hc.
    destruct (Z.eqb_spec (at_ src (r_pos r)) 0) as [E0|E0]; [lia|exact Hc].
  - destruct (Z.eqb_spec (ikind n) IndentKind) as [Ek|Ek].
    + rewrite E1 in Hok. apply spOK_app_r in Hok. pose proof (spOK_cons _ _ _ Hok) as (_ & _ & _ & D & _).
      destruct (indent_blank src n _ (D Ek) E3) as [L'|L']; [lia|]. apply blank_not in L'. lia.
    + destruct (Z.eqb_spec (at_ src (r_pos r)) 0) as [E0|E0]; [lia|exact Hc].
Qed.
Lemma cur_tick src r : r_src r = src -> cur r = 96 -> at_ src (r_pos r) = 96 /\ 0 <= r_pos r < len src.
Proof. intros Hs Hc. destruct (cur_src r 96 Hc eq_refl) as (A & B & _). rewrite Hs in *. tauto. Qed.

(* ================================================================ a step potential (for fuel)
   Every successful `next` strictly decreases  mu = (bytes left) + (indentation columns still to be replayed). *)
Fixpoint ibudget (sp : list inline) : Z :=
  match sp with [] => 0 | i :: r => (if ikind i =? IndentKind then Z.max 0 (iindent i) else 0) + ibudget r end.
Lemma ibudget_nonneg sp : 0 <= ibudget sp.
Proof. induction sp as [|i r IH]; cbn [ibudget]; [lia|]. destruct (_ =? _); lia. Qed.
Lemma ibudget_app a b : ibudget (a ++ b) = ibudget a + ibudget b.
Proof. induction a as [|i r IH]; cbn [ibudget app]; [lia|]. rewrite IH. lia. Qed.
Lemma ibudget_skipn n sp : ibudget (skipn n sp) <= ibudget sp.
Proof. rewrite <- (firstn_skipn n sp) at 2. rewrite ibudget_app. pose proof (ibudget_nonneg (firstn n sp)). lia. Qed.

Definition vadj (r : reader) : Z :=
  match fst (curNode r) with
  | Some n => if ikind n =? IndentKind then Z.min (r_vpos r) (Z.max 0 (iindent n)) else 0
  | None => 0
  end.
Definition mu (src : bytes) (r : reader) : Z :=
  (len src - r_pos r) + ibudget (r_spans (snd (curNode r))) - vadj r.

Lemma mu_current src r : mu src (snd (current r)) = mu src r.
Proof.
  destruct (current_snd r) as [E|E]; rewrite E; [reflexivity|].
  unfold mu, vadj. rewrite curNode_idem. destruct (curNode_fields r) as (A & B & C & D). cbv zeta in *. rewrite B, C. reflexivity.
Qed.
Lemma mu_le_start src r : 0 <= r_vpos r -> mu src r <= len src - r_pos r + ibudget (r_spans r).
Proof.
  intros Hv. unfold mu, vadj.
  destruct (curNode_cases r) as [E|(pre & n & rest & E1 & E & E3)]; rewrite E; cbn [fst snd withSpans r_spans ibudget].
  - pose proof (ibudget_nonneg (r_spans r)). lia.
  - rewrite E1, ibudget_app. pose proof (ibudget_nonneg pre). cbn [ibudget]. destruct (ikind n =? IndentKind); lia.
Qed.

Lemma cnvp_nonneg src pos : 0 <= computeNullVirtualPosition src pos.
Proof.
  unfold computeNullVirtualPosition. destruct (_ || _); [lia|]. apply Z.mod_pos_bound. lia.
Qed.

Lemma mu_nonneg src r : RI src r -> InNode r -> 0 <= mu src r.
Proof.
  intros (Hs & Hok) (node & Hn). unfold mu, vadj. rewrite Hn.
  destruct (curNode_cases r) as [E|(pre & n & rest & E1 & E & E3)]; rewrite E in Hn; cbn [fst] in Hn; [discriminate|].
  inversion Hn; subst node. rewrite E. cbn [snd withSpans r_spans ibudget].
  rewrite E1 in Hok. apply spOK_app_r in Hok. pose proof (spOK_iend _ _ _ Hok) as Hi.
  pose proof (spanHas_range _ _ E3) as (A & B & C). pose proof (ibudget_nonneg rest).
  destruct (ikind n =? IndentKind); lia.
Qed.

Lemma next_mu src r r1 : RI src r -> next r = (true, r1) -> mu src r1 < mu src r.
Proof.
  intros HRI H. pose proof HRI as (Hs & Hok).
  destruct (next_step src r r1 HRI H) as (HRI1 & (n1 & Hn1) & _ & _).
  pose proof H as H'. unfold next in H'.
  destruct (curNode_cases r) as [E|(pre & n & rest & E1 & E & E3)]; rewrite E in H'; [discriminate|].
  cbn [r_src r_pos r_spans r_vpos withSpans] in H'.
  rewrite E1 in Hok. apply spOK_app_r in Hok. pose proof (spOK_cons _ _ _ Hok) as (A & B & C & D & F & G).
  pose proof (spanHas_range _ _ E3) as (R1 & R2 & R3).
  unfold mu at 2. unfold vadj. rewrite E. cbn [fst snd withSpans r_spans ibudget].
  assert (Hjump : forall i sp, nextSpan rest = Some (i, sp) ->
            mu src {| r_src := r_src r; r_spans := sp; r_pos := istart i;
                      r_vpos := computeNullVirtualPosition (r_src r) (istart i); r_prev := r_pos r |}
            <= len src - r_pos r - 1 + ibudget rest).
  { intros i sp En. destruct (nextSpan_split _ _ _ En) as (pre' & rest' & Ea & Eb).
    assert (Hj : In i rest) by (rewrite Ea; apply in_or_app; right; left; reflexivity).
    destruct (C i Hj) as (C1 & _).
    assert (Hoki : spOK src (i :: rest') = true) by (rewrite Ea in G; apply spOK_app_r in G; exact G).
    pose proof (spOK_cons _ _ _ Hoki) as (A' & B' & _).
    unfold mu, vadj.
    rewrite (curNode_head i rest') by (cbn [r_spans r_pos]; first [exact Eb|apply spanHas_intro; lia]).
    cbn [fst snd r_spans r_pos r_vpos]. rewrite Eb, Ea, ibudget_app. pose proof (ibudget_nonneg pre').
    pose proof (cnvp_nonneg (r_src r) (istart i)). cbn [ibudget].
    destruct (ikind i =? IndentKind); lia. }
  destruct (Z.eqb_spec (ikind n) IndentKind) as [Ek|Ek]; cbn [andb negb] in H'.
  - destruct (Z.ltb_spec (r_vpos r) (iindent n)) as [Lv|Lv].
    + inversion H'; subst r1. unfold mu, vadj.
      rewrite (curNode_head n rest) by (cbn [r_spans r_pos]; first [reflexivity|exact E3]).
      cbn [fst snd r_spans r_pos r_vpos ibudget]. rewrite Ek. cbn [Z.eqb]. change (IndentKind =? IndentKind) with true. cbv iota. lia.
    + cbn [tl] in H'. destruct (nextSpan rest) as [[i sp]|] eqn:En; [|discriminate].
      inversion H'; subst r1. specialize (Hjump i sp eq_refl). change (IndentKind =? IndentKind) with true. cbv iota.
      pose proof (Z.le_min_r (r_vpos r) (Z.max 0 (iindent n))). eapply Z.le_lt_trans; [exact Hjump|]. lia.
  - destruct (Z.ltb_spec (r_pos r + 1) (iend n)) as [L|L].
    + inversion H'; subst r1. unfold mu, vadj.
      rewrite (curNode_head n rest) by (cbn [r_spans r_pos]; first [reflexivity|apply spanHas_intro; lia]).
      cbn [fst snd r_spans r_pos r_vpos ibudget]. destruct (ikind n =? IndentKind) eqn:Ek2; [apply Z.eqb_eq in Ek2; congruence|]. lia.
    + cbn [tl] in H'. destruct (nextSpan rest) as [[i sp]|] eqn:En; [|discriminate].
      inversion H'; subst r1. specialize (Hjump i sp eq_refl). destruct (ikind n =? IndentKind) eqn:Ek2; [apply Z.eqb_eq in Ek2; congruence|].
      eapply Z.le_lt_trans; [exact Hjump|]. lia.
Qed.
