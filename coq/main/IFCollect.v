From Coq Require Import List ZArith Lia Bool.
Import ListNotations.
Require Import Base Tables Utf8 Tree Rdr Link Collect ShapesBase ShapesR IFBase IFLink.
Open Scope Z_scope.

(* ================================================================ C04 (1): collectTextNodes, transformLinkReferenceSpan *)

Lemma cn_facts src r : PL src r ->
  PL src (snd (curNode r)) /\ nu src (snd (curNode r)) = nu src r /\ r_pos (snd (curNode r)) = r_pos r /\
  fst (curNode (snd (curNode r))) = fst (curNode r).
Proof. intros H. split; [apply PL_curNode, H|]. split; [apply nu_curNode|]. split; [apply pos_curNode|]. rewrite curNode_idem. reflexivity. Qed.
Ltac cnstep src :=
  match goal with |- context [curNode ?r] =>
    match goal with Hr : PL src r |- _ =>
      let H := fresh "Hc" in let n := fresh "cn" in let r' := fresh "r" in let E := fresh "Ecn" in
      pose proof (cn_facts src r Hr) as H; destruct (curNode r) as [n r'] eqn:E; cbn [snd fst] in H;
      let H1 := fresh "HP" in let H2 := fresh "Hm" in let H3 := fresh "Hp" in let H4 := fresh "Hin" in destruct H as (H1 & H2 & H3 & H4)
    end
  end.
Lemma rem_facts src r : PL src r -> PL src (snd (remainingNodeBytes r)) /\ nu src (snd (remainingNodeBytes r)) = nu src r /\
  r_pos (snd (remainingNodeBytes r)) = r_pos r.
Proof. intros H. split; [apply PL_remaining, H|]. split; [apply nu_remaining|apply pos_remaining]. Qed.
Ltac remstep src :=
  match goal with |- context [remainingNodeBytes ?r] =>
    match goal with Hr : PL src r |- _ =>
      let H := fresh "Hr" in pose proof (rem_facts src r Hr) as H;
      let b := fresh "rem" in let r' := fresh "r" in destruct (remainingNodeBytes r) as [b r'] eqn:?; cbn [snd] in H;
      let H1 := fresh "HP" in let H2 := fresh "Hm" in let H3 := fresh "Hp" in destruct H as (H1 & H2 & H3)
    end
  end.

Section K.
  Variable src : bytes.
  Notation PL := (PL src).
  Notation prog := (prog src).
  Notation mu := (nu src).
  Ltac f0 H := f0s src H.

  (* a step from inside a node strictly lowers the potential, whether it succeeds or not *)
  Lemma next_innode_lt r n : PL r -> fst (curNode r) = Some n -> mu (snd (next r)) < mu r.
  Proof.
    intros H Hn. destruct (next_W src r H) as (_ & _ & _ & A & B). destruct (next r) as [ok r1] eqn:E. cbn [fst snd] in *.
    destruct ok; [apply A; reflexivity|]. apply B. destruct (next_false r r1 E) as (_ & _ & C). destruct (C n Hn) as (_ & P & _). lia.
  Qed.

  Lemma skipSameNode_prog : forall fuel r node, PL r -> prog r (skipSameNode fuel r node).
  Proof.
    induction fuel as [|f IH]; intros r node H; [apply prog_refl; exact H|]. cbn [skipSameNode]. rstep src.
    dok; [|pfin]. cnstep src. destruct cn as [m|]; [|pfin]. destruct (_ && _ && _); [|pfin]. ptr IH.
  Qed.
  Lemma skipSameNode_fuel : forall f1 f2 r node, PL r -> mu r < Z.of_nat f1 -> mu r < Z.of_nat f2 -> skipSameNode f1 r node = skipSameNode f2 r node.
  Proof.
    induction f1 as [|f1 IH]; intros f2 r node H H1 H2; [f0 H|]. destruct f2 as [|f2]; [f0 H|]. cbn [skipSameNode]. rstep src.
    dok; [|reflexivity]. oktrue. cnstep src. destruct cn as [m|]; [|reflexivity]. destruct (_ && _ && _); [|reflexivity]. rec IH.
  Qed.
  Lemma skipSameNode_lt f r node n : PL r -> fst (curNode r) = Some n -> mu (skipSameNode (S f) r node) < mu r.
  Proof.
    intros H Hn. cbn [skipSameNode]. pose proof (next_innode_lt r n H Hn) as Hlt. rstep src. cbn [snd] in Hlt.
    dok; [|exact Hlt]. cnstep src. destruct cn as [m|]; [|lia]. destruct (_ && _ && _); [|lia].
    match goal with |- mu (skipSameNode f ?x node) < _ => pose proof (skipSameNode_prog f x node ltac:(assumption)) as (_ & _ & Q & _) end. lia.
  Qed.

  Lemma nextN_prog : forall n r, PL r -> prog r (nextN n r).
  Proof.
    induction n as [|n IH]; intros r H; [apply prog_refl; exact H|]. cbn [nextN].
    eapply prog_trans; [apply prog_next; exact H|]. apply IH. apply prog_next; exact H.
  Qed.

  Ltac crush IH :=
    repeat first
      [ reflexivity
      | match goal with |- collect_loop ?a _ _ _ _ _ _ = collect_loop ?b _ _ _ _ _ _ => is_var a; is_var b; rec IH end
      | progress (rstep src)
      | progress oktrue
      | dok
      | match goal with |- context [if ?c then _ else _] => destruct c end ].

  Lemma collect_loop_fuel : forall f1 f2 r e tk esc ps acc, PL r -> mu r < Z.of_nat f1 -> mu r < Z.of_nat f2 ->
    collect_loop f1 r e tk esc ps acc = collect_loop f2 r e tk esc ps acc.
  Proof.
    induction f1 as [|f1 IH]; intros f2 r e tk esc ps acc H H1 H2; [f0 H|]. destruct f2 as [|f2]; [f0 H|]. cbn [collect_loop].
    destruct (e <=? r_pos r); [reflexivity|]. cnstep src.
    destruct (okind cn =? IndentKind) eqn:Ek.
    - (* an Indent node: copy it, skip to the next node *)
      assert (Hin' : exists n, fst (curNode r0) = Some n).
      { destruct cn as [n|]; [exists n; exact Hin|]. cbn in Ek. discriminate. }
      destruct Hin' as (n & Hn).
      match goal with |- context [skipSameNode (S f1) r0 ?nd] =>
        rewrite (skipSameNode_fuel (S f1) (S f2) r0 nd) by (assumption || lia);
        pose proof (skipSameNode_lt f2 r0 nd n ltac:(assumption) Hn) as Hlt;
        pose proof (skipSameNode_prog (S f2) r0 nd ltac:(assumption)) as (? & ? & ? & ?);
        set (r1 := skipSameNode (S f2) r0 nd) in * end.
      clearbody r1. rec IH.
    - unfold cur. destruct (esc && (okind cn =? UnparsedKind)).
      + rstep src. destruct (_ =? 92).
        * crush IH.
        * destruct (_ =? 38); [|crush IH]. remstep src. destruct (0 <=? _); [|crush IH].
          match goal with |- context [nextN ?k ?x] =>
            pose proof (nextN_prog k x ltac:(assumption)) as (? & ? & ? & ?); set (rN := nextN k x) in *; clearbody rN end.
          crush IH.
      + crush IH.
  Qed.

  Theorem collectTextNodes_fuel f1 f2 r e tk esc : PL r -> mu r < Z.of_nat f1 -> mu r < Z.of_nat f2 ->
    collectTextNodes f1 r e tk esc = collectTextNodes f2 r e tk esc.
  Proof. intros H H1 H2. unfold collectTextNodes. rewrite (collect_loop_fuel f1 f2) by assumption. reflexivity. Qed.

  (* ---------------------------------------------------------------- transformLinkReferenceSpan *)
  Section Skip.
    Variable K : reader -> bytes.
    Variable acc : bytes.
    Variable e : Z.
    Fixpoint tlr_skip (k : nat) (r : reader) : bytes :=
      match k with
      | O => acc
      | S k' =>
        if (r_pos r <? e) && isSpaceTabOrLineEnding (cur r) then
          let '(ok, r') := next (snd (current r)) in if ok then tlr_skip k' r' else K r'
        else K r
      end.
  End Skip.
  Lemma tlr_loop_S f r e acc : tlr_loop (S f) r e acc =
    if e <=? r_pos r then acc else
    let '(c, r1) := current r in
    if isSpaceTabOrLineEnding c then
      let acc := acc ++ [32] in
      let '(ok, r2) := next r1 in
      if negb ok then acc else tlr_skip (fun x => tlr_loop f x e acc) acc e (S f) r2
    else
      let acc := acc ++ [c] in
      let '(ok, r2) := next r1 in
      if negb ok then acc else tlr_loop f r2 e acc.
  Proof. reflexivity. Qed.

  Lemma tlr_skip_fuel K1 K2 acc e : forall k1 k2 x, PL x -> mu x < Z.of_nat k1 -> mu x < Z.of_nat k2 ->
    (forall y, prog x y -> K1 y = K2 y) -> tlr_skip K1 acc e k1 x = tlr_skip K2 acc e k2 x.
  Proof.
    induction k1 as [|k1 IH]; intros k2 x H H1 H2 HK; [f0 H|]. destruct k2 as [|k2]; [f0 H|]. cbn [tlr_skip]. unfold cur.
    pose proof (prog_refl src x H) as Hrefl. rstep src. cbn [fst snd].
    destruct (_ && _); [|apply HK; exact Hrefl]. rstep src. dok.
    - oktrue. apply IH; [assumption|lia|lia|]. intros y Hy. apply HK. eapply prog_trans; [|exact Hy]. pfin.
    - apply HK. pfin.
  Qed.

  Lemma tlr_loop_fuel : forall f1 f2 r e acc, PL r -> mu r < Z.of_nat f1 -> mu r < Z.of_nat f2 -> tlr_loop f1 r e acc = tlr_loop f2 r e acc.
  Proof.
    induction f1 as [|f1 IH]; intros f2 r e acc H H1 H2; [f0 H|]. destruct f2 as [|f2]; [f0 H|]. rewrite !tlr_loop_S.
    destruct (e <=? r_pos r); [reflexivity|]. rstep src. destruct (isSpaceTabOrLineEnding _).
    - cbv zeta. rstep src. dok; [|reflexivity]. oktrue. apply tlr_skip_fuel; [assumption|lia|lia|].
      intros y (Y1 & Y2 & Y3 & Y4). rec IH.
    - cbv zeta. rstep src. dok; [|reflexivity]. oktrue. rec IH.
  Qed.

  Theorem transformLinkReferenceSpan_fuel f1 f2 nodes s e : spW src nodes = true ->
    len src + ibudget nodes < Z.of_nat f1 -> len src + ibudget nodes < Z.of_nat f2 ->
    transformLinkReferenceSpan f1 src nodes s e = transformLinkReferenceSpan f2 src nodes s e.
  Proof.
    intros Hw H1 H2. unfold transformLinkReferenceSpan. pose proof (nu_new src nodes s Hw) as Hmu.
    rewrite (tlr_loop_fuel f1 f2) by (first [apply PL_new; assumption|lia]). reflexivity.
  Qed.
  Theorem collectTextNodes_new_fuel f1 f2 sp p e tk esc : spW src sp = true ->
    len src + ibudget sp < Z.of_nat f1 -> len src + ibudget sp < Z.of_nat f2 ->
    collectTextNodes f1 (newReader src sp p) e tk esc = collectTextNodes f2 (newReader src sp p) e tk esc.
  Proof.
    intros Hw H1 H2. pose proof (nu_new src sp p Hw) as Hmu. apply collectTextNodes_fuel; [apply PL_new; assumption|lia|lia].
  Qed.
End K.
