From Coq Require Import List ZArith Lia Bool.
Import ListNotations.
Require Import Base Tree Rdr Link Collect Html Recog LP Rules Starts Driver Leaf3e RdrBound Rec16 Rec17 Rec18
  L2Kind L2Kind2 L2CC L2Bnd L2BndS NoPanicAll TPanicRange TRdr TDefs TOcp TInv TDesc TStarts TLine TLine2 TShift.
Open Scope Z_scope.

(* ====================================================================================================
   C04, second half: the block layer never runs out of fuel.  parseBlocks returns code 0 for every input.
   ==================================================================================================== *)

(* when the last pending child is open, every closed end lies strictly before the current line start bi *)
Definition PIc (b : Z) (l : list block) : Prop :=
  forall pre c, l = pre ++ [c] -> isOpen c = true -> 0 < b /\ Forall (fun x => bend x < b) pre.
Definition DI (s : bpst) : Prop :=
  (exists ns, SI s (pending s) ns) /\ ccF (pending s) = true /\ GoodL 0 (pending s) /\ PIc (bi s) (pending s).
Definition okNB2 (s0 : bpst) (x : nb) : Prop :=
  match x with
  | NBBlock r s' => DI s' /\ (length (buf s') < length (buf s0))%nat
  | NBEof _ => True
  | NBStuck => False
  | NBPanic pn => 1 <= pn <= 8
  end.

Lemma map_eq_snoc {A B} (f : A -> B) l l1 y : map f l = l1 ++ [y] -> exists l0 x, l = l0 ++ [x] /\ map f l0 = l1 /\ f x = y.
Proof.
  intros E. apply map_eq_app in E. destruct E as (l0 & l2 & E1 & E2 & E3).
  destruct l2 as [|x [|z l2]]; try discriminate. cbn in E3. inversion E3. exists l0, x. tauto.
Qed.

Lemma DI_makeRoot s children ns r s' : SI s children ns -> ccF children = true -> GoodL 0 children -> PIc (bi s) children ->
  makeRoot children s = Some (r, s') -> DI s' /\ (length (buf s') < length (buf s))%nat.
Proof.
  intros HS Hcc HG HP Hm.
  destruct (SI_makeRoot s children ns r s' HS Hm) as [_ HS'].
  destruct (cc_makeRoot children s r s' Hcc Hm) as [_ Hcc'].
  unfold makeRoot in Hm. destruct children as [|b rest]; [discriminate|]. destruct (isOpen b) eqn:Eo; [discriminate|].
  inversion Hm; subst r s'. clear Hm. cbn [pending buf bi] in *.
  cbn [GoodL] in HG. rewrite Eo in HG. destruct HG as [Hn HG].
  destruct HS as (Hb & Hbnd & _). unfold bndL in Hbnd. cbn [forallb] in Hbnd. apply andb_true_iff in Hbnd. destruct Hbnd as [Hb1 _].
  destruct (bnd_end _ _ _ Hb1) as [E|E]; [lia|].
  pose proof (GoodL_closed_gt _ _ HG) as Hgt.
  split; [split; [exists ns; exact HS'|split; [exact Hcc'|split]]|].
  - replace 0 with (bend b - bend b) by lia. apply GoodL_shift; [lia|lia|exact HG].
  - intros pre' c' E' Ho. apply map_eq_snoc in E'. destruct E' as (pre0 & c0 & E1 & <- & <-).
    rewrite E1 in Hgt. apply Forall_app in Hgt. destruct Hgt as [Hg1 Hg2]. apply Forall_inv in Hg2. pose proof Hg2 as Hc0.
    rewrite isOpen_shiftB in Ho by (try lia; exact Hc0).
    destruct (HP (b :: pre0) c0 ltac:(rewrite E1; reflexivity) Ho) as [P1 P2]. pose proof (Forall_inv P2) as Pb. pose proof (Forall_inv_tail P2) as Pr. cbv beta in Pb. cbn [bi].
    split; [lia|]. apply Forall_forall. intros x' Hx'. apply in_map_iff in Hx'. destruct Hx' as (x & <- & Hx).
    rewrite Forall_forall in Pr. specialize (Pr x Hx). rewrite bend_shiftB. destruct (0 <=? bend x) eqn:E0; [lia|]. apply Z.leb_gt in E0. lia.
  - unfold from_. rewrite skipn_length. unfold len in *. lia.
Qed.

(* the line [ls, lineEnd buf ls) *)
Lemma line_len buf ls : 0 <= ls <= len buf -> len (from_ (upto buf (lineEnd buf ls)) ls) = lineEnd buf ls - ls.
Proof.
  intros H. destruct (lineEnd_spec buf ls H) as [A _]. apply (line_of buf ls (lineEnd buf ls)); lia.
Qed.
Lemma lineEnd_progress buf ls : 0 <= ls < len buf -> ls < lineEnd buf ls.
Proof.
  intros H. destruct (lineEnd_spec buf ls ltac:(lia)) as [A B]. destruct (Z.lt_ge_cases (lineEnd buf ls) (len buf)) as [L|L]; [apply B, L|lia].
Qed.

Lemma GoodL_first_open c rest : GoodL 0 (c :: rest) -> isOpen c = true -> rest = [].
Proof. cbn [GoodL]. intros H E. rewrite E in H. apply H. Qed.
Lemma lastClosed_single_open c : lastClosed [c] -> isOpen c = true -> False.
Proof. intros (pre & c0 & E & Hc) Ho. destruct pre as [|x [|y pre]]; inversion E; subst; congruence. Qed.

Lemma lineLoop_total : forall fuel st children ls s ns,
  0 <= ls <= len (buf s) -> bi s = lineEnd (buf s) ls -> bndL ls ns children = true -> (ns = false -> ls = len (buf s)) ->
  ccF children = true -> GoodL 0 children -> (children = [] \/ (0 < ls /\ exists c, children = [c])) ->
  (st = stDescendTerminated -> HM children) ->
  (children = [] -> isBlankLine (from_ (upto (buf s) (bi s)) ls) = false /\ (st = stOpening \/ st = stOpenMatched)) ->
  len (buf s) - ls + 1 <= Z.of_nat fuel ->
  okNB2 s (lineLoop fuel st children ls s).
Proof.
  induction fuel as [|f IH]; intros st children ls s ns Hls Hbi Hc Hn Hcc HG HK Hst Hemp Hfuel.
  { exfalso. cbn in Hfuel. lia. }
  cbn [lineLoop].
  destruct (lineEnd_spec (buf s) ls Hls) as [A B]. rewrite <- Hbi in A, B.
  set (ln := from_ (upto (buf s) (bi s)) ls).
  destruct (line_of (buf s) ls (bi s) ltac:(lia) ltac:(lia)) as [Ll _]. fold ln in Ll.
  set (ns' := if ns then hasByteSuffixEOL ln else false).
  assert (Hc' : bndL (bi s) ns' children = true).
  { unfold ns'. destruct ns.
    - pose proof (bndL_mono ls (bi s) children ltac:(lia) Hc) as Hm. destruct (hasByteSuffixEOL ln); [exact Hm|apply bndL_weaken, Hm].
    - rewrite (Hn eq_refl) in *. replace (bi s) with (len (buf s)) by lia. exact Hc. }
  assert (Hn' : ns' = false -> bi s = len (buf s)).
  { unfold ns'. destruct ns; [|intros _; rewrite (Hn eq_refl) in *; lia].
    intros Ee. destruct (Z.lt_ge_cases (bi s) (len (buf s))) as [Lt|Ge]; [|lia].
    exfalso. rewrite Hbi in Lt. pose proof (line_hasEOL (buf s) ls Hls Lt) as Hh. rewrite <- Hbi in Hh. fold ln in Hh. congruence. }
  pose proof (bnd_processLine (bi s) ns' st children ls (upto (buf s) (bi s)) ltac:(lia) ltac:(lia) ltac:(fold ln; lia)
                ltac:(rewrite len_upto by lia; lia) ltac:(unfold ns'; fold ln; destruct ns; [tauto|discriminate]) Hc') as H1.
  pose proof (cc_processLine st children ls (upto (buf s) (bi s)) Hcc) as H2.
  pose proof (processLine_panic_range st children ls (upto (buf s) (bi s))) as H3.
  pose proof (processLine_good st children ls (upto (buf s) (bi s)) ltac:(lia) HG (UB_of_bnd ls ns children ltac:(lia) Hc) Hcc HK Hst Hemp) as H4.
  cbv zeta in H4.
  destruct (processLine st children ls (upto (buf s) (bi s))) as [[children' st'] pn]. cbn [fst snd] in H1, H2, H3, H4.
  destruct H4 as ((G1 & G1') & G2 & G3 & G4).
  destruct (Z.eqb_spec pn 0) as [Ep|Ep]; cbn [negb]; [|cbn [okNB2]; lia].
  assert (HS : SI s children' ns') by (repeat split; try lia; assumption).
  assert (Hlc : ls = len (buf s) -> lastClosed children').
  { intros E. apply G3. fold ln. apply len0_nil. rewrite Ll. lia. }
  assert (HP : PIc (bi s) children').
  { intros pre c E Ho. destruct (Z.eq_dec ls (len (buf s))) as [El|El].
    - exfalso. destruct (Hlc El) as (pre2 & c2 & E2 & Hc2). rewrite E in E2. apply app_inj_tail in E2. destruct E2 as [_ <-]. congruence.
    - assert (Lt : ls < bi s) by (rewrite Hbi; apply lineEnd_progress; lia).
      split; [lia|]. specialize (G1' pre c E). revert G1'. apply Forall_impl. intros x Hx. lia. }
  destruct (makeRoot children' s) as [[r s']|] eqn:Em.
  - cbn [okNB2]. apply (DI_makeRoot s children' ns' r s' HS H2 G1 HP Em).
  - (* no root yet: a single open child, and the input has not ended *)
    unfold makeRoot in Em. destruct children' as [|c rest]; [congruence|]. destruct (isOpen c) eqn:Eo; [|discriminate].
    pose proof (GoodL_first_open c rest G1 Eo) as Er. subst rest.
    assert (El : ls <> len (buf s)) by (intros E; exact (lastClosed_single_open c (Hlc E) Eo)).
    assert (Lt : ls < bi s) by (rewrite Hbi; apply lineEnd_progress; lia).
    apply (IH st' [c] (bi s) {| buf := buf s; bi := lineEnd (buf s) (bi s); boff := boff s; bline := bline s; pending := pending s |} ns');
      cbn [buf bi]; try assumption; try reflexivity; try lia.
    + right. split; [lia|exists c; reflexivity].
    + intros E. destruct (G4 E) as [Hl|Hh]; [exfalso; exact (lastClosed_single_open c Hl Eo)|exact Hh].
    + discriminate.
Qed.

Lemma skipLoop_total : forall fuel s, bi s = 0 -> pending s = [] -> len (buf s) + 2 <= Z.of_nat fuel ->
  match skipLoop fuel s with
  | NBBlock r s' => DI s' /\ (length (buf s') < length (buf s))%nat
  | NBEof _ => True | NBStuck => False | NBPanic pn => 1 <= pn <= 8 end.
Proof.
  induction fuel as [|f IH]; intros s Hb Hp Hfuel.
  { exfalso. pose proof (len_nonneg (buf s)). cbn in Hfuel. lia. }
  cbn [skipLoop]. cbv zeta. rewrite Hb.
  pose proof (len_nonneg (buf s)) as Hl0.
  destruct (lineEnd_spec (buf s) 0 ltac:(lia)) as [A _].
  destruct (Z.ltb_spec 0 (lineEnd (buf s) 0)) as [L|L]; cbn [negb]; [|exact I].
  destruct (isBlankLine (upto (buf s) (lineEnd (buf s) 0))) eqn:Eb.
  - set (s1 := {| buf := from_ (buf s) (lineEnd (buf s) 0); bi := 0; boff := _; bline := _; pending := pending s |}).
    assert (Hlen : len (buf s1) = len (buf s) - lineEnd (buf s) 0) by (cbn [buf s1]; apply len_from; lia).
    specialize (IH s1 eq_refl Hp ltac:(rewrite Hlen; lia)).
    destruct (skipLoop f s1) as [r s'| | |pn]; try exact IH. destruct IH as [I1 I2]. split; [exact I1|].
    unfold len in Hlen. lia.
  - pose proof (lineLoop_total f 0 [] 0 {| buf := buf s; bi := lineEnd (buf s) 0; boff := boff s; bline := bline s; pending := pending s |} true) as HL.
    cbn [buf bi] in HL. specialize (HL ltac:(lia) eq_refl eq_refl ltac:(discriminate) eq_refl I (or_introl eq_refl) ltac:(discriminate)).
    specialize (HL ltac:(intros _; split; [exact Eb|left; reflexivity]) ltac:(lia)).
    destruct (lineLoop f 0 [] 0 _) as [r s'| | |pn]; exact HL.
Qed.

Lemma nextBlock_total s : DI s -> okNB2 s (nextBlock (3 + length (buf s))%nat s).
Proof.
  intros ((ns & HS) & Hcc & HG & HP). unfold nextBlock.
  destruct (makeRoot (pending s) s) as [[r s']|] eqn:Em.
  - cbn [okNB2]. apply (DI_makeRoot s (pending s) ns r s' HS Hcc HG HP Em).
  - destruct HS as (Hb & Hc & Hn). pose proof (len_nonneg (buf s)) as Hl0.
    destruct (pending s) as [|b0 rest] eqn:Ep.
    + set (s1 := {| buf := from_ (buf s) (bi s); bi := 0; boff := _; bline := _; pending := [] |}).
      assert (Hlen : len (buf s1) = len (buf s) - bi s) by (cbn [buf s1]; apply len_from; lia).
      pose proof (skipLoop_total (3 + length (buf s))%nat s1 eq_refl eq_refl ltac:(rewrite Hlen; unfold len; lia)) as H.
      destruct (skipLoop _ s1) as [r s'| | |pn]; cbn [okNB2]; try exact H. destruct H as [I1 I2]. split; [exact I1|]. unfold len in Hlen. lia.
    + unfold makeRoot in Em. destruct (isOpen b0) eqn:Eo; [|discriminate].
      pose proof (GoodL_first_open b0 rest HG Eo) as Er. subst rest.
      destruct (HP [] b0 eq_refl Eo) as [Hpos _].
      apply (lineLoop_total _ 0 [b0] (bi s) {| buf := buf s; bi := lineEnd (buf s) (bi s); boff := boff s; bline := bline s; pending := [b0] |} ns);
        cbn [buf bi]; try assumption; try reflexivity; try lia.
      * right. split; [exact Hpos|exists b0; reflexivity].
      * discriminate.
      * discriminate.
      * unfold len. lia.
Qed.

Lemma allBlocks_total : forall fuel s acc, DI s -> (length (buf s) < fuel)%nat ->
  snd (allBlocks fuel s acc) = 0 \/ 1 <= snd (allBlocks fuel s acc) <= 8.
Proof.
  induction fuel as [|f IH]; intros s acc HD Hf; [lia|]. cbn [allBlocks].
  pose proof (nextBlock_total s HD) as H.
  destruct (nextBlock (3 + length (buf s)) s) as [r s'| | |pn]; cbn [okNB2 snd] in *.
  - destruct H as [H1 H2]. apply IH; [exact H1|lia].
  - left. reflexivity.
  - destruct H.
  - right. exact H.
Qed.

Theorem parseBlocks_total : forall input, snd (parseBlocks input) = 0.
Proof.
  intros input.
  assert (H : snd (parseBlocks input) = 0 \/ 1 <= snd (parseBlocks input) <= 8).
  { unfold parseBlocks. apply allBlocks_total; [|cbn [buf]; lia].
    split; [exists true; unfold SI; cbn [buf bi pending]; pose proof (len_nonneg (pad input)); repeat split; try lia|].
    split; [reflexivity|]. split; [exact I|]. intros pre c E. cbn [pending] in E. destruct pre; discriminate. }
  destruct H as [H|H]; [exact H|]. exfalso. exact (parseBlocks_no_panic input (snd (parseBlocks input)) H eq_refl).
Qed.
Print Assumptions parseBlocks_total.
