From Coq Require Import List ZArith Lia Bool.
Import ListNotations.
Require Import Base.
Open Scope Z_scope.

(* bounded-exhaustive checking by computation: all byte strings over an alphabet up to a given length *)
Fixpoint allStr (alpha : list Z) (n : nat) : list bytes :=
  match n with O => [[]] | S k => let r := allStr alpha k in [] :: flat_map (fun c => map (fun s => c :: s) r) alpha end.
Lemma allStr_complete alpha : forall n s, (length s <= n)%nat -> Forall (fun c => In c alpha) s -> In s (allStr alpha n).
Proof.
  induction n as [|n IH]; intros s Hl Hs.
  - destruct s; [left; reflexivity|cbn in Hl; lia].
  - cbn [allStr]. destruct s as [|c s]; [left; reflexivity|]. right. inversion Hs; subst.
    apply in_flat_map. exists c. split; [assumption|]. apply in_map. apply IH; [cbn in Hl; lia|assumption].
Qed.
Lemma map_eq_In {A B} (f g : A -> B) l : map f l = map g l -> forall x, In x l -> f x = g x.
Proof.
  induction l as [|y l IH]; intros E x Hx; [destruct Hx|]. cbn [map] in E. inversion E as [[E1 E2]].
  destruct Hx as [->|Hx]; [exact E1|apply IH; assumption].
Qed.

(* ---- boolean equality on trees, sound ---- *)
Require Import Tree Driver.
Fixpoint beqL {A} (f : A -> A -> bool) (a b : list A) : bool :=
  match a, b with [], [] => true | x :: r, y :: s => f x y && beqL f r s | _, _ => false end.
Lemma beqL_sound {A} (f : A -> A -> bool) : forall a b, (forall x y, In x a -> f x y = true -> x = y) -> beqL f a b = true -> a = b.
Proof.
  induction a as [|x a IH]; intros b Hf H; destruct b as [|y b]; try discriminate; [reflexivity|].
  cbn [beqL] in H. apply andb_true_iff in H. destruct H as [H1 H2]. f_equal; [apply Hf; [left; reflexivity|exact H1]|].
  apply IH; [|exact H2]. intros u v Hu. apply Hf. right. exact Hu.
Qed.
Lemma beqZ_sound a b : beqL Z.eqb a b = true -> a = b.
Proof. apply beqL_sound. intros x y _ H. apply Z.eqb_eq, H. Qed.
Fixpoint beqI (a b : inline) : bool :=
  match a, b with Inl k s e i r ks, Inl k' s' e' i' r' ks' =>
    (k =? k') && (s =? s') && (e =? e') && (i =? i') && beqL Z.eqb r r' &&
    (fix go (x y : list inline) := match x, y with [], [] => true | p :: q, p' :: q' => beqI p p' && go q q' | _, _ => false end) ks ks' end.
Lemma beqI_sound : forall a b, beqI a b = true -> a = b.
Proof.
  fix IH 1. intros [k s e i r ks] [k' s' e' i' r' ks'] H. cbn [beqI] in H.
  rewrite !andb_true_iff in H. destruct H as (((((A1 & A2) & A3) & A4) & A5) & H4).
  apply Z.eqb_eq in A1. apply Z.eqb_eq in A2. apply Z.eqb_eq in A3. apply Z.eqb_eq in A4. apply beqZ_sound in A5. subst.
  f_equal. revert ks' H4. induction ks as [|p q IHq]; intros [|p' q'] Hq; try discriminate; [reflexivity|].
  apply andb_true_iff in Hq. destruct Hq as [Hp Hq]. f_equal; [apply IH, Hp|apply IHq, Hq].
Qed.
Fixpoint beqB (a b : block) : bool :=
  match a, b with Blk k s e bk ik ind n c l lb, Blk k' s' e' bk' ik' ind' n' c' l' lb' =>
    (k =? k') && (s =? s') && (e =? e') && (ind =? ind') && (n =? n') && (c =? c') && Bool.eqb l l' && Bool.eqb lb lb' && beqL beqI ik ik' &&
    (fix go (x y : list block) := match x, y with [], [] => true | p :: q, p' :: q' => beqB p p' && go q q' | _, _ => false end) bk bk' end.
Lemma beqB_sound : forall a b, beqB a b = true -> a = b.
Proof.
  fix IH 1. intros [k s e bk ik ind n c l lb] [k' s' e' bk' ik' ind' n' c' l' lb'] H. cbn [beqB] in H.
  rewrite !andb_true_iff in H. destruct H as (((((((((A1 & A2) & A3) & A4) & A5) & A6) & A7) & A8) & A9) & H8).
  apply Z.eqb_eq in A1. apply Z.eqb_eq in A2. apply Z.eqb_eq in A3. apply Z.eqb_eq in A4. apply Z.eqb_eq in A5. apply Z.eqb_eq in A6.
  apply eqb_prop in A7. apply eqb_prop in A8.
  apply (beqL_sound beqI) in A9; [|intros x y _; apply beqI_sound]. subst.
  f_equal. revert bk' H8. induction bk as [|p q IHq]; intros [|p' q'] Hq; try discriminate; [reflexivity|].
  apply andb_true_iff in Hq. destruct Hq as [Hp Hq]. f_equal; [apply IH, Hp|apply IHq, Hq].
Qed.
Definition beqR (a b : rootB) : bool :=
  (rb_line a =? rb_line b) && (rb_start a =? rb_start b) && (rb_end a =? rb_end b) && beqL Z.eqb (rb_src a) (rb_src b) && beqB (rb_blk a) (rb_blk b).
Lemma beqR_sound a b : beqR a b = true -> a = b.
Proof.
  destruct a, b. unfold beqR. simpl. intros H.
  rewrite !andb_true_iff in H. destruct H as ((((A1 & A2) & A3) & A4) & A5).
  apply Z.eqb_eq in A1. apply Z.eqb_eq in A2. apply Z.eqb_eq in A3. apply beqZ_sound in A4. apply beqB_sound in A5. subst. reflexivity.
Qed.
Definition beqRes (a b : list rootB * Z) : bool := beqL beqR (fst a) (fst b) && (snd a =? snd b).
Lemma beqRes_sound a b : beqRes a b = true -> a = b.
Proof.
  destruct a as [l c], b as [l' c']. unfold beqRes. cbn [fst snd]. intros H. apply andb_true_iff in H. destruct H as [H1 H2].
  apply Z.eqb_eq in H2. apply (beqL_sound beqR) in H1; [|intros x y _; apply beqR_sound]. subst. reflexivity.
Qed.
Lemma forallb_In {A} (f : A -> bool) l : forallb f l = true -> forall x, In x l -> f x = true.
Proof. intros H. apply forallb_forall. exact H. Qed.
