(* T63-F1 (D2).  Copy of En3Par.v over the invariant EolFinalFullHbE4Tree.en = En3Tree.en plus one clause (lastX): the last entry of a
   PARAGRAPH holds a byte that is not space / tab / line ending, and once the paragraph is closed it ends at the end of the block.
   Changes w.r.t. En3Par.v: module names; the places that build or use that clause; closing lemmas take "a paragraph is open -> e = lineStart". *)
From Coq Require Import List ZArith Lia Bool.
Import ListNotations.
Require Import Base Tree Rdr Link Collect LP Rules Starts Driver L2Kind L2CC BSDef BSRdr BSTree BSOcp BSOrph BSClose BSLine1 BSLine2 BSLine3 BSShift
  GramTree ShDef ShRdr ShClose.
Require Import ShapesBase EntBase EntOcpDefs EntOcp EolFinalFullHbE4Tree EntCur.
Open Scope Z_scope.

(* ================================================================================================
   En3, paragraphs that are still open: they lie on the open right spine (ppT), and a tree without one can be read
   against a later line start.
   ================================================================================================ *)
Lemma in_last_or {A} (l : list A) x : In x l -> In x (removelast l) \/ exists pre, l = pre ++ [x].
Proof.
  intros H. destruct (@exists_last A l) as (pre & y & E); [intros E; rewrite E in H; destruct H|]. subst l. rewrite removelast_last.
  apply in_app_or in H. destruct H as [H|[<-|[]]]; [left; exact H|right; exists pre; reflexivity].
Qed.
Lemma lastBlock_app_one b pre x : bkids b = pre ++ [x] -> lastBlock b = Some x.
Proof. intros E. unfold lastBlock. rewrite E, rev_app_distr. reflexivity. Qed.

Lemma opara_ppT_n B M : forall n r, (bheight r <= n)%nat -> en B M r -> opara r -> ppT r.
Proof.
  induction n as [|n IHn]; intros r Hh He Ho; [destruct (bheight_S r) as (k & Ek); lia|]. rewrite opara_eq in Ho. destruct Ho as [(HK & Hop & Hne)|(k & Hin & Hk)].
  - exists O, r. split; [reflexivity|]. split.
    + rewrite en_eq in He. destruct He as ((_ & _ & A2 & _) & _). destruct HK as [X|X]; [exact X|destruct (A2 Hop X)].
    + intros j y Hj Ey. replace j with O in Ey by lia. cbn in Ey. inversion Ey; subst y. exact Hop.
  - destruct (en_kids_struct B M r He) as [S7 S8].
    assert (Ek : en B M k) by (rewrite en_eq in He; eapply allP_In; [apply He|exact Hin]).
    assert (Hopen_k : bend k < 0).
    { destruct (Z.lt_ge_cases (bend k) 0) as [L|L]; [exact L|]. exfalso. apply (dc_not_opara k); [eapply en_dc; eassumption|exact Hk]. }
    destruct (in_last_or _ _ Hin) as [Hrl|(pre & Epre)].
    { exfalso. pose proof (allP_In _ _ _ S8 Hrl) as X. cbn beta in X. lia. }
    assert (Hopen_r : bend r < 0).
    { destruct (Z.lt_ge_cases (bend r) 0) as [L|L]; [exact L|]. exfalso. pose proof (allP_In _ _ _ (S7 L) Hin) as X. cbn beta in X. lia. }
    pose proof (lastBlock_app_one r pre k Epre) as El.
    destruct (IHn k ltac:(pose proof (bheight_kid r k Hin); lia) Ek Hk) as (d & x & Ex & Kx & Ox). exists (S d), x. split; [rewrite getAt_S, El; exact Ex|]. split; [exact Kx|].
    intros j y Hj Ey. destruct j as [|j]; [cbn in Ey; inversion Ey; subst y; exact Hopen_r|].
    rewrite getAt_S, El in Ey. apply (Ox j y); [lia|exact Ey].
Qed.

Lemma opara_ppT B M r : en B M r -> opara r -> ppT r.
Proof. apply (opara_ppT_n B M (bheight r) r). lia. Qed.

Lemma en_quiet B M M' r : M <= M' -> en B M r -> ~ ppT r -> en B M' r.
Proof. intros H He N. apply (en_relabel B M M' H r He). intros Ho. apply N. eapply opara_ppT; eassumption. Qed.

Lemma opara_getAt : forall d r x, getAt d r = Some x -> opara x -> opara r.
Proof.
  induction d as [|d IH]; intros r x E Ho; [inversion E; subst; exact Ho|]. rewrite getAt_S in E.
  destruct (lastBlock r) as [c|] eqn:El; [|discriminate]. rewrite opara_eq. right. exists c. split; [eapply lastBlock_In; exact El|eapply IH; eassumption].
Qed.

(* ---- an update at depth d of a tree whose only open paragraph (if any) is the block at depth d ---- *)
Lemma canContain_PS K k : isPS K -> canContain K k = false.
Proof. intros [-> | ->]; reflexivity. Qed.
Lemma en_path B M M' f : M <= M' -> forall d r, en B M r -> cc r = true -> (exists x, getAt d r = Some x) ->
  (forall x, getAt d r = Some x -> en B M x -> en B M' (f x) /\ (0 <= bend x -> 0 <= bend (f x))) ->
  en B M' (updAt d f r) /\ (0 <= bend r -> 0 <= bend (updAt d f r)).
Proof.
  intros Hle. induction d as [|d IH]; intros r Hr Hcc Hex Hf; [apply Hf; [reflexivity|exact Hr]|]. cbn [updAt].
  destruct (lastBlock r) as [c|] eqn:El.
  2:{ exfalso. destruct Hex as (x & Hx). rewrite getAt_S, El in Hx. discriminate. }
  destruct (cc_lastBlock r c Hcc El) as [Hccc Hcan].
  destruct (IH c (en_lastBlock B M r c Hr El) Hccc) as [I1 I2].
  { destruct Hex as (x & Hx). exists x. rewrite getAt_S, El in Hx. exact Hx. }
  { intros x Hx. apply Hf. rewrite getAt_S, El. exact Hx. }
  split; [|rewrite bend_set_lastBlocks; tauto].
  pose proof (lastBlock_split r c El) as Es. destruct (en_kids_struct B M r Hr) as [S7 S8].
  pose proof Hr as Hr'. rewrite en_eq in Hr'. destruct Hr' as (A & C).
  assert (NPS : ~ (isPS (bkind r) /\ bend r < 0 /\ bik r <> [])).
  { intros (X & _). rewrite (canContain_PS _ _ X) in Hcan. discriminate. }
  pose proof (ikOK_relabel B M M' _ _ _ _ _ Hle NPS A) as A'. destruct A' as (B1 & B2 & B3 & B4 & (B5 & B6 & _ & (_ & B8))).
  rewrite en_eq. unfold set_lastBlocks. rewrite bkind_set_bkids, bstart_set_bkids, bend_set_bkids, bik_set_bkids, bkids_set_bkids.
  split.
  - split; [exact B1|split; [exact B2|split; [exact B3|split; [exact B4|split; [exact B5|split; [exact B6|split]]]]]].
    + intros He. apply closedL_app. split; [exact S8|split; [|exact I]]. apply I2. specialize (S7 He). rewrite Es in S7. apply closedL_app in S7. destruct S7 as [_ [S7 _]]. exact S7.
    + rewrite removelast_last. split; [exact S8|exact B8].
  - apply allP_app. split; [|split; [exact I1|exact I]]. rewrite Es in C. apply allP_app in C. destruct C as [C _].
    apply allP_intro. intros y Hy. apply (en_closed_any B M M'); [exact Hle|eapply allP_In; eassumption|]. exact (allP_In _ _ _ S8 Hy).
Qed.
