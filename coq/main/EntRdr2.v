From Coq Require Import List ZArith Lia Bool.
Import ListNotations.
Require Import Base Tree Rdr Link.
Require Import ShapesR EntBase EntOcpDefs EntRdr1 ShapesBase.
Open Scope Z_scope.

(* ================================================================================================
   The reader invariant T over the entries of one paragraph, and its preservation by the two
   primitive reader operations `current` and `next`.
   ================================================================================================ *)

Lemma skipn_skipn' {A} : forall a b (l : list A), skipn a (skipn b l) = skipn (a + b) l.
Proof.
  intros a b. revert a. induction b as [|b IH]; intros a l.
  - rewrite Nat.add_0_r. reflexivity.
  - destruct l as [|x l]; [rewrite !skipn_nil; reflexivity|]. rewrite Nat.add_succ_r. cbn [skipn]. apply IH.
Qed.
Lemma skipn_app_exact {A} (pre l : list A) : skipn (length pre) (pre ++ l) = l.
Proof. induction pre as [|x pre IH]; [reflexivity|exact IH]. Qed.
Lemma In_skipn' {A} n (l : list A) x : In x (skipn n l) -> In x l.
Proof. intros H. rewrite <- (firstn_skipn n l). apply in_or_app. right. exact H. Qed.

Lemma lines_member B M : forall ik u, lines B M ik -> In u ik -> unpOK B M u \/ indOK B u.
Proof.
  induction ik as [|v r IH]; intros u H Hin; [destruct Hin|]. destruct H as (A & _ & A2).
  destruct Hin as [<-|Hin]; [|apply IH; assumption]. destruct A as [A|[A _]]; [left|right]; exact A.
Qed.

Lemma withSpans_self r : withSpans r (r_spans r) = r.
Proof. destruct r; reflexivity. Qed.

Section Rdr.
  Variables (src : bytes) (E : Z) (ik0 : list inline).
  Hypothesis HL : lines src E ik0.
  Hypothesis HE : E <= len src.

  Definition suf (l : list inline) : Prop := exists n, l = skipn n ik0.
  Lemma suf_app pre l : suf (pre ++ l) -> suf l.
  Proof.
    intros (n & H). exists (length pre + n)%nat. rewrite <- skipn_skipn', <- H. symmetry. apply skipn_app_exact.
  Qed.
  Lemma suf_nil : suf [].
  Proof. exists (length ik0). symmetry. apply skipn_all. Qed.
  Lemma suf_In l x : suf l -> In x l -> In x ik0.
  Proof. intros (n & ->) H. eapply In_skipn'; exact H. Qed.
  Lemma suf_lines l : suf l -> lines src E l.
  Proof. intros (n & ->). apply lines_skipn, HL. Qed.

  Definition AtStart (r : reader) : Prop := forall u, In u ik0 -> spanHas u (r_pos r) = true -> istart u = r_pos r.
  Definition X (r : reader) : Prop :=
    r_spans r = [] /\ AtStart r /\ bdy src (r_pos r) /\ r_prev r + 1 = r_pos r /\ r_pos r <= len src.
  Definition T (r : reader) : Prop :=
    RI src r /\ suf (r_spans r) /\ 0 <= r_vpos r /\ (InNode r \/ X r).

  (* ---- members of ik0 ---- *)
  Lemma mem_entry u : In u ik0 -> 0 <= istart u /\ istart u < iend u /\ iend u <= len src.
  Proof. intros H. destruct (lines_entry src E ik0 u HL H) as (A & B & C & _). lia. Qed.
  Lemma mem_unp u : In u ik0 -> ikind u <> IndentKind -> unpOK src E u.
  Proof. intros H Hk. destruct (lines_member src E ik0 u HL H) as [A|(A & _)]; [exact A|contradiction]. Qed.
  Lemma mem_ind u : In u ik0 -> ikind u = IndentKind -> indOK src u.
  Proof. intros H Hk. destruct (lines_member src E ik0 u HL H) as [(A & _)|A]; [rewrite Hk in A; discriminate|exact A]. Qed.

  (* the last byte of a member: the position after it is a boundary *)
  Lemma mem_last_bdy u : In u ik0 -> bdy src (iend u).
  Proof.
    intros H. destruct (lines_member src E ik0 u HL H) as [A|A].
    - destruct (Z.eq_dec (iend u) (len src)) as [Q|Q]; [right; left; lia|].
      pose proof (mem_entry u H) as (_ & _ & C). pose proof (lines_unp_last _ _ _ A ltac:(lia)) as He.
      right. right. unfold isEOLz in He. lia.
    - destruct A as (_ & _ & _ & B & C & _). right. right. rewrite B. replace (istart u + 1 - 1) with (istart u) by lia. lia.
  Qed.

  Lemma AtStart_after u pos : In u ik0 -> iend u = pos -> forall v, In v ik0 -> spanHas v pos = true -> istart v = pos.
  Proof.
    intros Hu Ee v Hv Hh. apply spanHas_range in Hh. destruct Hh as (A & B & C).
    pose proof (mem_entry u Hu) as (U1 & U2 & _).
    destruct (lines_tricho src E ik0 u v HL Hu Hv) as [Q|[Q|Q]]; [subst v; lia|lia|lia].
  Qed.
  Lemma AtStart_istart j pos : In j ik0 -> istart j = pos -> forall v, In v ik0 -> spanHas v pos = true -> istart v = pos.
  Proof.
    intros Hj Ee v Hv Hh. apply spanHas_range in Hh. destruct Hh as (A & B & C).
    pose proof (mem_entry j Hj) as (U1 & U2 & _).
    destruct (lines_tricho src E ik0 j v HL Hj Hv) as [Q|[Q|Q]]; [subst v; lia|lia|lia].
  Qed.
  Lemma AtStart_end pos : len src <= pos -> forall v, In v ik0 -> spanHas v pos = true -> istart v = pos.
  Proof.
    intros L v Hv Hh. apply spanHas_range in Hh. pose proof (mem_entry v Hv). lia.
  Qed.

  (* ---- the current node of a reader in state T ---- *)
  Lemma T_node r node : T r -> fst (curNode r) = Some node ->
    In node ik0 /\ spanHas node (r_pos r) = true /\ 0 <= r_pos r < len src /\
    exists rest, curNode r = (Some node, withSpans r (node :: rest)) /\ suf (node :: rest).
  Proof.
    intros (_ & Hs & _) Hn. destruct (curNode_cases r) as [Ec|(pre & n & rest & E1 & Ec & E3)]; rewrite Ec in Hn; [discriminate|].
    cbn [fst] in Hn. inversion Hn; subst n. rewrite E1 in Hs. apply suf_app in Hs.
    assert (Hin : In node ik0) by (eapply suf_In; [exact Hs|left; reflexivity]).
    split; [exact Hin|]. split; [exact E3|]. split.
    - pose proof (spanHas_range _ _ E3). pose proof (mem_entry node Hin). lia.
    - exists rest. split; [exact Ec|exact Hs].
  Qed.
  Lemma notInNode r : ~ InNode r -> curNode r = (None, withSpans r []).
  Proof.
    intros H. destruct (curNode_cases r) as [Ec|(pre & n & rest & E1 & Ec & E3)]; [exact Ec|].
    exfalso. apply H. exists n. rewrite Ec. reflexivity.
  Qed.
  Lemma X_notIn r : X r -> ~ InNode r.
  Proof. intros (A & _) (n & Hn). rewrite (curNode_nil r A) in Hn. discriminate. Qed.
  Lemma T_X r : T r -> ~ InNode r -> X r.
  Proof. intros (_ & _ & _ & [H|H]) Hn; [contradiction|exact H]. Qed.

  (* ---- curNode / current ---- *)
  Lemma T_curNode r : T r -> T (snd (curNode r)).
  Proof.
    intros HT. pose proof HT as (HR & Hs & Hv & Hd). split; [apply RI_curNode, HR|].
    destruct (curNode_fields r) as (F1 & F2 & F3 & F4). cbv zeta in *. split; [|split; [lia|]].
    - destruct (curNode_cases r) as [Ec|(pre & n & rest & E1 & Ec & E3)]; rewrite Ec; cbn [snd withSpans r_spans].
      + apply suf_nil.
      + rewrite E1 in Hs. eapply suf_app; exact Hs.
    - destruct Hd as [(n & Hn)|Hx].
      + left. exists n. rewrite curNode_idem. exact Hn.
      + right. destruct Hx as (A & B). rewrite (curNode_nil r A). cbn [snd]. split; assumption.
  Qed.
  Lemma T_current r : T r -> T (snd (current r)).
  Proof. intros H. destruct (current_snd r) as [Q|Q]; rewrite Q; [exact H|apply T_curNode, H]. Qed.
  Lemma X_current r : X r -> snd (current r) = r.
  Proof. intros (A & _). destruct (current_snd r) as [Q|Q]; rewrite Q; [reflexivity|]. rewrite (curNode_nil r A). reflexivity. Qed.
  Lemma AtStart_pos r r' : r_pos r' = r_pos r -> AtStart r -> AtStart r'.
  Proof. intros Q H u Hu Hh. rewrite Q in *. apply H; assumption. Qed.
  Lemma AtStart_current r : AtStart r -> AtStart (snd (current r)).
  Proof. apply AtStart_pos. apply (current_fields r). Qed.

  (* ---- next ---- *)
  Lemma next_vpos r : 0 <= r_vpos r -> 0 <= r_vpos (snd (next r)).
  Proof.
    intros Hv. unfold next. destruct (curNode_fields r) as (_ & _ & F3 & _). cbv zeta in F3.
    destruct (curNode r) as [[node|] r1]; cbn [snd] in *; [|lia].
    destruct (_ && _); [cbn [snd r_vpos]; lia|]. destruct (_ && _).
    - cbn [snd r_vpos]. destruct (_ =? 0); [|lia]. destruct (_ =? 0); [|lia]. apply Z.mod_pos_bound. lia.
    - destruct (nextSpan _) as [[i sp]|]; cbn [snd r_vpos]; [apply cnvp_nonneg|lia].
  Qed.

  Lemma next_fail r r1 : T r -> next r = (false, r1) -> T r1 /\ X r1.
  Proof.
    intros HT H. pose proof HT as (HR & Hs & Hv & Hd).
    assert (Hx : X r1).
    { destruct (next_false r r1 H) as (A & B & C).
      destruct Hd as [(node & Hn)|Hx].
      - destruct (C node Hn) as (C1 & C2 & C3).
        destruct (T_node r node HT Hn) as (Hin & Hh & Hp & _).
        pose proof (spanHas_range _ _ Hh) as (R1 & R2 & R3).
        assert (Hend : iend node = r_pos r + 1).
        { destruct C3 as [C3|C3]; [|exact C3]. destruct (mem_ind node Hin C3) as (_ & _ & _ & D & _). lia. }
        split; [exact A|]. split; [|split; [|split; [lia|]]].
        + intros u Hu Hh'. eapply AtStart_after; [exact Hin|lia|exact Hu|exact Hh'].
        + rewrite C2, <- Hend. apply mem_last_bdy, Hin.
        + pose proof (mem_entry node Hin). lia.
      - pose proof (X_notIn r Hx) as Hni. unfold next in H. rewrite (notInNode r Hni) in H. inversion H; subst r1.
        destruct Hx as (X1 & X2 & X3 & X4 & X5). split; [reflexivity|]. split; [exact X2|]. cbn. tauto. }
    split; [|exact Hx]. destruct (next_false r r1 H) as (A & B & _). destruct HR as (R1 & R2).
    split; [split; [congruence|rewrite A; reflexivity]|]. split; [rewrite A; apply suf_nil|]. split; [|right; exact Hx].
    pose proof (next_vpos r Hv) as Q. rewrite H in Q. exact Q.
  Qed.

  Lemma next_ok r r1 : T r -> next r = (true, r1) -> T r1 /\ InNode r1.
  Proof.
    intros HT H. pose proof HT as (HR & Hs & Hv & Hd).
    destruct (next_step src r r1 HR H) as (HR1 & HI1 & _).
    split; [|exact HI1]. split; [exact HR1|]. split; [|split; [|left; exact HI1]].
    - destruct (next_true r r1 H) as (node & rest & _ & _ & (pre & Epre) & _ & _ & Hc).
      rewrite Epre in Hs. apply suf_app in Hs.
      destruct Hc as [(_ & _ & Q)|[(_ & _ & _ & Q)|(pre' & j & rest' & Er & Q & _)]]; rewrite Q; [exact Hs|exact Hs|].
      rewrite Er in Hs. apply (suf_app [node]) in Hs. eapply suf_app; exact Hs.
    - pose proof (next_vpos r Hv) as Q. rewrite H in Q. exact Q.
  Qed.

  Lemma T_next r : T r -> T (snd (next r)).
  Proof.
    intros H. destruct (next r) as [[|] r1] eqn:En; cbn [snd]; [apply (next_ok r r1 H En)|apply (next_fail r r1 H En)].
  Qed.
  Lemma next_true_InNode r r1 : next r = (true, r1) -> InNode r.
  Proof. intros H. destruct (next_true r r1 H) as (node & rest & Ec & _). exists node. rewrite Ec. reflexivity. Qed.

  (* stepping from the last byte of a non-Indent node whose last byte is not NUL *)
  Lemma next_lastbyte r node b r1 : T r -> fst (curNode r) = Some node -> ikind node <> IndentKind ->
    iend node = r_pos r + 1 -> next r = (b, r1) ->
    T r1 /\ AtStart r1 /\ r_prev r1 = r_pos r /\
    (b = true -> exists j, In j ik0 /\ fst (curNode r1) = Some j /\ r_pos r1 = istart j).
  Proof.
    intros HT Hn Hk Hend H. destruct (T_node r node HT Hn) as (Hin & Hh & Hp & rest0 & Ec0 & Hs0).
    destruct b.
    - destruct (next_ok r r1 HT H) as (HT1 & _). split; [exact HT1|].
      destruct (next_true r r1 H) as (nd & rest & Ec & _ & _ & _ & Ep & Hc).
      rewrite Ec0 in Ec. inversion Ec; subst nd rest0.
      destruct Hc as [(Q & _)|[(_ & _ & Q & _)|(pre' & j & rest' & Er & Q1 & Q2 & _)]]; [contradiction|lia|].
      assert (Hj : In j ik0).
      { eapply suf_In; [exact Hs0|]. right. rewrite Er. apply in_or_app. right. left. reflexivity. }
      split; [|split; [exact Ep|]].
      + intros u Hu Hh'. rewrite Q2 in *. eapply AtStart_istart; [exact Hj|reflexivity|exact Hu|exact Hh'].
      + intros _. exists j. split; [exact Hj|]. split; [|exact Q2].
        rewrite (curNode_head j rest' r1 Q1); [reflexivity|]. rewrite Q2. pose proof (mem_entry j Hj). apply spanHas_intro; lia.
    - destruct (next_fail r r1 HT H) as (HT1 & (_ & A & _)). split; [exact HT1|]. split; [exact A|]. split; [|discriminate].
      destruct (next_false r r1 H) as (_ & _ & C). apply (C node Hn).
  Qed.

  (* ---- what the reader reports ---- *)
  Lemma cur_exact r node : r_src r = src -> fst (curNode r) = Some node -> ikind node <> IndentKind ->
    r_pos r < len src -> at_ src (r_pos r) <> 0 -> cur r = at_ src (r_pos r).
  Proof.
    intros Hs Hn Hk Hp Hz. unfold cur, current. rewrite Hs.
    destruct (Z.leb_spec (len src) (r_pos r)) as [L|L]; [lia|].
    destruct (curNode r) as [n r']. cbn [fst] in Hn. subst n. cbn [okind].
    destruct (Z.eqb_spec (ikind node) IndentKind) as [Q|Q]; [contradiction|].
    destruct (Z.eqb_spec (at_ src (r_pos r)) 0) as [Q0|Q0]; [contradiction|reflexivity].
  Qed.
  Lemma cur_zero r : r_src r = src -> cur r = 0 -> len src <= r_pos r.
  Proof.
    intros Hs. unfold cur, current. rewrite Hs.
    destruct (Z.leb_spec (len src) (r_pos r)) as [L|L]; [intros _; exact L|].
    destruct (curNode r) as [n r']. destruct (okind n =? IndentKind); [cbn [fst]; lia|].
    destruct (Z.eqb_spec (at_ src (r_pos r)) 0) as [Q0|Q0]; cbn [fst]; [|lia].
    unfold nullRepl. destruct (_ =? 0); [lia|]. destruct (_ =? 1); lia.
  Qed.
  Lemma T_cur_zero r : T r -> cur r = 0 -> X r.
  Proof.
    intros HT Hc. pose proof HT as ((Hs & _) & _). pose proof (cur_zero r Hs Hc) as L.
    apply T_X; [exact HT|]. intros (node & Hn). destruct (T_node r node HT Hn) as (_ & _ & Hp & _). lia.
  Qed.

  (* ---- the fuel potential ---- *)
  Lemma T_mu r : T r -> InNode r -> mu src r < 2 * len src + 10.
  Proof.
    intros HT (node & Hn). pose proof HT as (_ & (n & Hs) & Hv & _).
    destruct (T_node r node HT Hn) as (_ & _ & Hp & _).
    pose proof (mu_le_start src r Hv) as A. rewrite Hs in A.
    pose proof (ibudget_skipn n ik0) as B. pose proof (lines_ibudget src E ik0 HL HE) as C. lia.
  Qed.
End Rdr.
