From Coq Require Import List ZArith Lia Bool.
Import ListNotations.
Require Import Base Tables Utf8 Tree Rdr Link Collect Html Recog Inl3a Inl3b Inl3c Inl3d Inl3e LP Rules Starts Driver Render
  L2Kind L2CC GramDefs GramTree GramLP GramLP2 GramLP3 GramLP4.
Open Scope Z_scope.

(* ================= C05, block-level clauses of the node grammar, for every input =================

   gramBlocks (GramDefs.v) is the boolean checker of clauses (a)-(f):
     (a) a list item has at least one block child, the first is a list marker, no other child is a list marker or a list item;
     (b) list markers and thematic breaks have no block children and no inline entries;
     (c) a link reference definition has no block children and its inline entries are [label; destination] or
         [label; destination; title];
     (d) every child of a list has the list's isOrdered;
     (e) every child of a CLOSED list has the list's isTightList;
     (f) ATX headings have level 1..6, setext headings level 1..2.
   gb (GramDefs.v) is the stronger invariant carried through the line machine (children of a list are list items with
   exactly the list's delimiter byte; a list that is not loose has no loose item, open or closed; a closed loose list has
   only loose items); gb b = true -> gramBlocks b = true (GramTree.gb_gram). *)

(* ---- the stream layer ---- *)
Definition gF (l : list block) : Prop := ccF l = true /\ gbL l = true.

Lemma gF_processLine st children ls src : gF children -> gF (fst (fst (processLine st children ls src))).
Proof. intros [A B]. split; [apply cc_processLine, A|apply gb_processLine; assumption]. Qed.

Lemma gF_makeRoot children s r s' : gF children -> makeRoot children s = Some (r, s') ->
  gb (rb_blk r) = true /\ gF (pending s').
Proof.
  intros [Hc Hg] Hm. destruct (cc_makeRoot children s r s' Hc Hm) as [_ Hc'].
  unfold makeRoot in Hm. destruct children as [|b rest]; [discriminate|].
  destruct (isOpen b); [discriminate|]. inversion Hm; subst. cbn [rb_blk pending] in *.
  unfold gbL in Hg. cbn [forallb] in Hg. apply andb_true_iff in Hg. destruct Hg as [Hb Hr].
  split; [exact Hb|]. split; [exact Hc'|apply gbL_shift, Hr].
Qed.
Definition nb_okg (x : nb) : Prop :=
  match x with NBBlock r s' => gb (rb_blk r) = true /\ gF (pending s') | _ => True end.
Lemma gF_nil : gF []. Proof. split; reflexivity. Qed.
Lemma gF_lineLoop : forall fuel st children ls s, gF children -> gF (pending s) -> nb_okg (lineLoop fuel st children ls s).
Proof.
  induction fuel as [|f IH]; intros st children ls s Hc Hp; [exact I|]. cbn [lineLoop].
  pose proof (gF_processLine st children ls (upto (buf s) (bi s)) Hc) as H1.
  destruct (processLine st children ls (upto (buf s) (bi s))) as [[children' st'] pn]. cbn [fst] in H1.
  destruct (negb (pn =? 0)); [exact I|].
  destruct (makeRoot children' s) as [[r s']|] eqn:Em.
  - cbn [nb_okg]. eapply gF_makeRoot; eassumption.
  - apply IH; assumption.
Qed.
Lemma gF_skipLoop : forall fuel s, gF (pending s) -> nb_okg (skipLoop fuel s).
Proof.
  induction fuel as [|f IH]; intros s Hp; [exact I|]. cbn [skipLoop]. cbv zeta.
  destruct (negb _); [exact I|]. destruct (isBlankLine _); [apply IH; assumption|].
  apply gF_lineLoop; [apply gF_nil|assumption].
Qed.
Lemma gF_nextBlock fuel s : gF (pending s) -> nb_okg (nextBlock fuel s).
Proof.
  intros Hp. unfold nextBlock. destruct (makeRoot (pending s) s) as [[r s']|] eqn:Em.
  - cbn [nb_okg]. eapply gF_makeRoot; eassumption.
  - destruct (pending s) eqn:Ep; [apply gF_skipLoop; apply gF_nil|].
    rewrite <- Ep in Hp |- *. apply gF_lineLoop; [exact Hp|cbn [pending]; exact Hp].
Qed.
Lemma gF_allBlocks : forall fuel s acc, gF (pending s) -> Forall (fun r => gb (rb_blk r) = true) acc ->
  Forall (fun r => gb (rb_blk r) = true) (fst (allBlocks fuel s acc)).
Proof.
  induction fuel as [|f IH]; intros s acc Hp Ha; [exact Ha|]. cbn [allBlocks].
  pose proof (gF_nextBlock (3 + length (buf s)) s Hp) as Hn.
  destruct (nextBlock _ s) as [r s'| | |]; try exact Ha.
  destruct Hn as [Hr Hp']. apply IH; [assumption|]. apply Forall_app. split; [assumption|]. constructor; [assumption|constructor].
Qed.

(* the invariant, for every root block the block layer returns, for every input *)
Theorem parseBlocks_gb input : Forall (fun r => gb (rb_blk r) = true) (fst (parseBlocks input)).
Proof. unfold parseBlocks. apply gF_allBlocks; [apply gF_nil|constructor]. Qed.

(* MAIN THEOREM: clauses (a)-(f) hold of every root block the block layer returns, for every input *)
Theorem parseBlocks_gramBlocks input : Forall (fun r => gramBlocks (rb_blk r) = true) (fst (parseBlocks input)).
Proof. eapply Forall_impl; [|apply parseBlocks_gb]. intros r. apply gb_gram. Qed.

(* ---- the inline pass only replaces inline children ---- *)
Lemma bchar_rewriteB src m : forall fuel b, bchar (rewriteB fuel src m b) = bchar b.
Proof. destruct fuel as [|f]; intros b; [reflexivity|]. cbn [rewriteB]. destruct (_ && _); destruct b; reflexivity. Qed.
Lemma bloose_rewriteB src m : forall fuel b, bloose (rewriteB fuel src m b) = bloose b.
Proof. destruct fuel as [|f]; intros b; [reflexivity|]. cbn [rewriteB]. destruct (_ && _); destruct b; reflexivity. Qed.
Lemma bkind_rewriteB' src m : forall fuel b, bkind (rewriteB fuel src m b) = bkind b.
Proof. destruct fuel as [|f]; intros b; [reflexivity|]. cbn [rewriteB]. destruct (_ && _); destruct b; reflexivity. Qed.

Lemma gbLocK_map (g : block -> block) K ks ik op n ch lo :
  (forall x, bkind (g x) = bkind x /\ bchar (g x) = bchar x /\ bloose (g x) = bloose x) ->
  gbLocK K (map g ks) ik op n ch lo = gbLocK K ks ik op n ch lo.
Proof.
  intros Hg. unfold gbLocK.
  assert (E1 : itemKids (map g ks) = itemKids ks).
  { destruct ks as [|m0 r]; [reflexivity|]. cbn [map itemKids]. rewrite (proj1 (Hg m0)), forallb_map. f_equal.
    apply forallb_ext_in. intros x _. unfold notMarkerItem. rewrite (proj1 (Hg x)). reflexivity. }
  rewrite E1, nilb_map, !forallb_map.
  replace (forallb (fun x => (bkind (g x) =? ListItemKind) && (bchar (g x) =? ch)) ks)
    with (forallb (fun c => (bkind c =? ListItemKind) && (bchar c =? ch)) ks)
    by (apply forallb_ext_in; intros x _; destruct (Hg x) as (A & B & _); rewrite A, B; reflexivity).
  replace (forallb (fun x => bloose (g x)) ks) with (forallb bloose ks)
    by (apply forallb_ext_in; intros x _; destruct (Hg x) as (_ & _ & C); rewrite C; reflexivity).
  replace (forallb (fun x => negb (bloose (g x))) ks) with (forallb (fun c => negb (bloose c)) ks)
    by (apply forallb_ext_in; intros x _; destruct (Hg x) as (_ & _ & C); rewrite C; reflexivity).
  reflexivity.
Qed.

Lemma refIk_noUnparsed ik : refIk ik = true -> existsb (fun i => ikind i =? UnparsedKind) ik = false.
Proof.
  destruct ik as [|a [|b [|c [|d r]]]]; try discriminate; cbn [refIk existsb]; intros H.
  - apply andb_true_iff in H. destruct H as [H1 H2]. apply Z.eqb_eq in H1, H2. rewrite H1, H2. reflexivity.
  - apply andb_true_iff in H. destruct H as [H H3]. apply andb_true_iff in H. destruct H as [H1 H2].
    apply Z.eqb_eq in H1, H2, H3. rewrite H1, H2, H3. reflexivity.
Qed.

Lemma gb_rewriteB src m : forall fuel b, gb b = true -> gb (rewriteB fuel src m b) = true.
Proof.
  induction fuel as [|f IH]; intros b H; [exact H|]. cbn [rewriteB].
  destruct ((0 <? len (bik b)) && hasUnparsed b) eqn:Ec.
  - apply andb_true_iff in Ec. destruct Ec as [E1 E2].
    destruct (nikK (bkind b)) eqn:En; [|rewrite gb_set_bik; assumption].
    exfalso. apply gb_parts in H. destruct H as [H _]. unfold gbLoc, gbLocK in H. unfold nikK in En.
    destruct (Z.eqb_spec (bkind b) ListItemKind) as [E|N0]; [rewrite E in En; discriminate|].
    destruct ((bkind b =? ListMarkerKind) || (bkind b =? ThematicBreakKind)) eqn:Em.
    + apply andb_true_iff in H. destruct H as [_ H]. destruct (bik b); [discriminate|discriminate].
    + cbn [orb] in En. rewrite En in H. apply andb_true_iff in H. destruct H as [_ H].
      unfold hasUnparsed in E2. rewrite (refIk_noUnparsed _ H) in E2. discriminate.
  - apply gb_parts in H. destruct H as [H1 H2]. apply gb_intro.
    + rewrite gbLoc_set_bkids. rewrite gbLocK_map; [exact H1|].
      intros x. split; [apply bkind_rewriteB'|split; [apply bchar_rewriteB|apply bloose_rewriteB]].
    + rewrite bkids_set_bkids. unfold gbL in *. rewrite forallb_map. rewrite forallb_forall in *. intros x Hx. apply IH, H2, Hx.
Qed.

Theorem parseFull_gb input : Forall (fun r => gb (rb_blk r) = true) (fst (parseFull input)).
Proof.
  unfold parseFull. pose proof (parseBlocks_gb input) as H. destruct (parseBlocks input) as [roots code]. cbn [fst] in *.
  apply Forall_forall. intros r Hr. apply in_map_iff in Hr. destruct Hr as (r0 & <- & Hr0).
  rewrite Forall_forall in H. cbn [rb_blk]. apply gb_rewriteB, H, Hr0.
Qed.

(* COROLLARY: the same clauses after the inline pass (rewriteB only replaces inline children) *)
Corollary parseFull_gramBlocks input : Forall (fun r => gramBlocks (rb_blk r) = true) (fst (parseFull input)).
Proof. eapply Forall_impl; [|apply parseFull_gb]. intros r. apply gb_gram. Qed.

Print Assumptions parseBlocks_gb.
Print Assumptions parseBlocks_gramBlocks.
Print Assumptions parseFull_gb.
Print Assumptions parseFull_gramBlocks.
