From Coq Require Import List ZArith Lia Bool String Ascii.
Import ListNotations.
Require Import Base Tree Driver Inl3e Render BSTest EolCRDefs EolCRRdr EolCRRenderDefs EolCRRenderTest EolCRRenderTest3.
Open Scope Z_scope.
(* the entry-span form of the invariant: the span of every LinkDestination entry has no line ending *)
Definition spanT (src : bytes) (u : inline) : bool :=
  if ikind u =? LinkDestinationKind then noEolb (sub src (istart u) (iend u)) else true.
Fixpoint spanTB (src : bytes) (b : block) : bool :=
  match b with Blk _ _ _ bk ik _ _ _ _ _ => forallb (spanT src) ik && forallb (spanTB src) bk end.
Eval vm_compute in map (fun d => forallb (fun r => spanTB (rb_src r) (rb_blk r)) (fst (parseBlocks d))) edocs.
