From Coq Require Import List ZArith Lia Bool.
Import ListNotations.
Require Import Base Tree Rdr Link Collect Html Recog LP Rules Starts Driver Leaf3e RdrBound L2Kind L2Kind2 L2CC TRdr TDefs TOcp.
Open Scope Z_scope.

(* ---- the invariant on the line parser: root children are GoodL, with upper bounds relative to the line start ---- *)
Definition ks (p : lp) : list block := bkids (root p).
Definition ldb (p : lp) : bool := (state p =? stLineConsumed) || (state p =? stDescendTerminated).
Definition Rb (ld : bool) (p : lp) : Prop := GoodL 0 (ks p) /\ UB (lineStart p) ld (ks p).
Definition R (p : lp) : Prop := Rb (ldb p) p.

Lemma lastUB_mono LS ld ld' c : (ld = true -> ld' = true) -> lastUB LS ld c -> lastUB LS ld' c.
Proof. intros Hm [A B]. split; [|exact B]. intros Hc. destruct (A Hc) as [D|D]; [left; exact D|right; apply Hm, D]. Qed.
Lemma UB_mono LS ld ld' l : (ld = true -> ld' = true) -> UB LS ld l -> UB LS ld' l.
Proof. intros Hm. unfold UB. destruct (rev l); [tauto|]. intros [A B]. split; [exact A|eapply lastUB_mono; eassumption]. Qed.
Lemma Rb_mono ld ld' p : (ld = true -> ld' = true) -> Rb ld p -> Rb ld' p.
Proof. intros Hm [A B]. split; [exact A|eapply UB_mono; eassumption]. Qed.
Lemma Rb_env ld p p' : root p' = root p -> lineStart p' = lineStart p -> Rb ld p -> Rb ld p'.
Proof. intros Er El. unfold Rb, ks. rewrite Er, El. tauto. Qed.
Lemma Rb_false ld p : Rb false p -> Rb ld p.
Proof. apply Rb_mono. discriminate. Qed.

(* ---- right-spine updates seen from the root children ---- *)
Lemma bkids_updAt_S d f b :
  bkids (updAt (S d) f b) = match lastBlock b with Some c => removelast (bkids b) ++ [updAt d f c] | None => bkids b end.
Proof. cbn [updAt]. destruct (lastBlock b); [|reflexivity]. unfold set_lastBlocks. destruct b; reflexivity. Qed.
Lemma shEq_updAt_S d f c : shEq c (updAt (S d) f c).
Proof. cbn [updAt]. destruct (lastBlock c); [apply shEq_set_lastBlocks|apply shEq_refl]. Qed.

(* the relation between the root children before and after an update below the root *)
Definition ksRel (l l' : list block) : Prop :=
  (l = [] /\ l' = []) \/ exists pre c c', l = pre ++ [c] /\ l' = pre ++ [c'] /\ shEq c c'.
Lemma ksRel_refl l : ksRel l l.
Proof. destruct (list_snoc_cases l) as [E|(pre & c & E)]; [left; tauto|right; exists pre, c, c; repeat split; assumption]. Qed.
Lemma ksRel_trans a b c : ksRel a b -> ksRel b c -> ksRel a c.
Proof.
  intros [[A1 A2]|(pre & x & x' & A1 & A2 & A3)] [[B1 B2]|(pre2 & y & y' & B1 & B2 & B3)].
  - left; tauto.
  - rewrite A2 in B1. destruct pre2; discriminate.
  - rewrite A2 in B1. destruct pre; discriminate.
  - rewrite A2 in B1. apply app_inj_tail in B1. destruct B1 as [E1 E2]. subst pre2 y. right. exists pre, x, y'.
    split; [exact A1|]. split; [exact B2|]. eapply shEq_trans; eassumption.
Qed.
Lemma ksRel_GoodL lo l l' : ksRel l l' -> GoodL lo l -> GoodL lo l'.
Proof. intros [[-> ->]|(pre & c & c' & -> & -> & Hs)]; [tauto|apply GoodL_last_shEq; exact Hs]. Qed.
Lemma ksRel_UB LS ld l l' : ksRel l l' -> UB LS ld l -> UB LS ld l'.
Proof. intros [[-> ->]|(pre & c & c' & -> & -> & Hs)]; [tauto|apply UB_last_shEq; exact Hs]. Qed.
Lemma ksRel_nil l l' : ksRel l l' -> (l = [] <-> l' = []).
Proof. intros [[-> ->]|(pre & c & c' & -> & -> & Hs)]; [tauto|split; intros E; destruct pre; discriminate]. Qed.
Lemma Rb_ksRel ld p p' : ksRel (ks p) (ks p') -> lineStart p' = lineStart p -> Rb ld p -> Rb ld p'.
Proof. intros Hr El [A B]. unfold Rb. rewrite El. split; [eapply ksRel_GoodL; eassumption|eapply ksRel_UB; eassumption]. Qed.

Lemma ksRel_updAt_sh f d b : (1 <= d)%nat ->
  (forall c, lastBlock b = Some c -> shEq c (updAt (d - 1) f c)) -> ksRel (bkids b) (bkids (updAt d f b)).
Proof.
  intros Hd Hf. destruct d as [|d]; [lia|]. replace (S d - 1)%nat with d in Hf by lia.
  destruct (list_snoc_cases (bkids b)) as [E|(pre & c & E)].
  - left. split; [exact E|]. rewrite bkids_updAt_S. unfold lastBlock. rewrite E. reflexivity.
  - right. pose proof (lastBlock_snoc _ _ _ E) as El. exists pre, c, (updAt d f c).
    split; [exact E|]. split; [rewrite bkids_updAt_S, El, E, removelast_snoc; reflexivity|apply Hf, El].
Qed.
Lemma ksRel_updAt_deep f d b : (2 <= d)%nat -> ksRel (bkids b) (bkids (updAt d f b)).
Proof.
  intros Hd. apply ksRel_updAt_sh; [lia|]. intros c _. destruct d as [|[|d]]; try lia.
  replace (S (S d) - 1)%nat with (S d) by lia. apply shEq_updAt_S.
Qed.
Lemma ksRel_updAt_f f d b : (1 <= d)%nat -> (forall c, shEq c (f c)) -> ksRel (bkids b) (bkids (updAt d f b)).
Proof.
  intros Hd Hf. apply ksRel_updAt_sh; [exact Hd|]. intros c _. destruct d as [|[|d]]; try lia; [apply Hf|].
  replace (S (S d) - 1)%nat with (S d) by lia. apply shEq_updAt_S.
Qed.

Lemma Rb_updAt_sh ld p f d : (1 <= d)%nat ->
  (forall c, lastBlock (root p) = Some c -> shEq c (updAt (d - 1) f c)) -> Rb ld p -> Rb ld (withRoot p (updAt d f (root p))).
Proof. intros Hd Hf. apply Rb_ksRel; [|reflexivity]. apply ksRel_updAt_sh; assumption. Qed.
Lemma Rb_updAt_deep ld p f d : (2 <= d)%nat -> Rb ld p -> Rb ld (withRoot p (updAt d f (root p))).
Proof.
  intros Hd. apply Rb_updAt_sh; [lia|]. intros c _. destruct d as [|[|d]]; try lia.
  replace (S (S d) - 1)%nat with (S d) by lia. apply shEq_updAt_S.
Qed.
Lemma Rb_updAt_f ld p f d : (1 <= d)%nat -> (forall c, shEq c (f c)) -> Rb ld p -> Rb ld (withRoot p (updAt d f (root p))).
Proof.
  intros Hd Hf. apply Rb_updAt_sh; [exact Hd|]. intros c _. destruct d as [|[|d]]; try lia; [apply Hf|].
  replace (S (S d) - 1)%nat with (S d) by lia. apply shEq_updAt_S.
Qed.

Lemma Rb_updCont_sh ld p f : (forall c, shEq c (f c)) -> (forall c, bkids (f c) = bkids c) -> Rb ld p -> Rb ld (updCont p f).
Proof.
  intros Hs Hk H. unfold updCont. destruct (cdepth p) as [|d] eqn:Ed.
  - cbn [updAt]. unfold Rb, ks in *. cbn [root withRoot setLP lineStart]. rewrite Hk. exact H.
  - apply Rb_updAt_f; [lia|exact Hs|exact H].
Qed.

(* appending an inline entry to the container *)
Lemma Rb_updCont_ik ld p g :
  (cdepth p = 1%nat -> forall c, lastBlock (root p) = Some c -> isOpen c = true -> bkind c <> ParagraphKind) ->
  Rb ld p -> Rb ld (updCont p (fun b => set_bik b (g b))).
Proof.
  intros Hk H. unfold updCont. destruct (cdepth p) as [|[|d]] eqn:Ed.
  - cbn [updAt]. unfold Rb, ks in *. cbn [root withRoot setLP lineStart]. destruct (root p); exact H.
  - apply Rb_updAt_sh; [lia| |exact H]. intros c El. cbn [Nat.sub updAt].
    split; [destruct c; reflexivity|]. split; [destruct c; reflexivity|]. intros Ho Hp. exfalso. exact (Hk eq_refl c El Ho Hp).
  - apply Rb_updAt_deep; [lia|exact H].
Qed.

(* closing the last child of a block below the root *)
Definition closeF (p : lp) (e : Z) (b : block) : block :=
  match lastBlock b with Some c => set_lastBlocks b (closeBlock (bheight (root p)) (source p) c e) | None => b end.
Lemma shEq_closeF p e b : shEq b (closeF p e b).
Proof. unfold closeF. destruct (lastBlock b); [apply shEq_set_lastBlocks|apply shEq_refl]. Qed.
Lemma closeLastChildAt_eq p d e : closeLastChildAt p d e = withRoot p (updAt d (closeF p e) (root p)).
Proof. reflexivity. Qed.
Lemma Rb_close_deep ld p d e : (1 <= d)%nat -> Rb ld p -> Rb ld (closeLastChildAt p d e).
Proof. intros Hd. rewrite closeLastChildAt_eq. apply Rb_updAt_f; [exact Hd|apply shEq_closeF]. Qed.

(* ---- root-level closing ---- *)
Definition lastClosed (l : list block) : Prop := exists pre c, l = pre ++ [c] /\ isOpen c = false.
Definition OKroot (p : lp) : Prop :=
  ks p = [] \/ (0 < lineStart p /\ exists c, ks p = [c]) \/ lastClosed (ks p).
Definition doneRoot (l : list block) : Prop := l = [] \/ lastClosed l.

Lemma bheight_S b : exists n, bheight b = S n. Proof. destruct b. cbn [bheight]. eexists. reflexivity. Qed.

Lemma ks_close0 p e : ks (closeLastChildAt p 0 e) =
  match rev (ks p) with [] => [] | c :: rpre => rev rpre ++ closeBlock (bheight (root p)) (source p) c e end.
Proof.
  unfold ks. rewrite closeLastChildAt_eq. cbn [updAt root withRoot setLP]. unfold closeF, lastBlock.
  destruct (rev (bkids (root p))) as [|c rpre] eqn:Er.
  - rewrite <- (rev_involutive (bkids (root p))), Er. reflexivity.
  - assert (E : bkids (root p) = rev rpre ++ [c]) by (rewrite <- (rev_involutive (bkids (root p))), Er; reflexivity).
    apply (bkids_set_lastBlocks _ (rev rpre) c). exact E.
Qed.
Lemma ks_close0_snoc p e pre c : ks p = pre ++ [c] -> ks (closeLastChildAt p 0 e) = pre ++ closeBlock (bheight (root p)) (source p) c e.
Proof. intros E. rewrite ks_close0, E, rev_app_distr. cbn [rev app]. rewrite rev_involutive. reflexivity. Qed.
Lemma ks_close0_nil p e : ks p = [] -> ks (closeLastChildAt p 0 e) = [].
Proof. intros E. rewrite ks_close0, E. reflexivity. Qed.

Lemma UB_pre_le LS ld pre c : UB LS ld (pre ++ [c]) -> Forall (fun x => bend x <= LS) pre.
Proof. rewrite UB_snoc. tauto. Qed.
Lemma endOf_le_LS LS pre : 0 <= LS -> Forall (fun x => bend x <= LS) pre -> endOf 0 pre <= LS.
Proof.
  intros H0 H. unfold endOf. destruct (rev pre) as [|x r] eqn:E; [exact H0|].
  rewrite Forall_forall in H. apply H. apply in_rev. rewrite E. left. reflexivity.
Qed.

Lemma close_core LS ld' pre L e : Forall closedB pre -> GoodL 0 pre -> Forall (fun x => bend x <= LS) pre ->
  OUT (endOf 0 pre) LS e L -> (e = LS \/ ld' = true) ->
  GoodL 0 (pre ++ L) /\ UB LS ld' (pre ++ L) /\ lastClosed (pre ++ L).
Proof.
  intros Hcp Hgp Hple (O1 & O2 & (pre' & x & O3 & O4 & O5)) Hld.
  assert (Hx : isOpen x = false). { rewrite O3 in O1. apply Forall_app in O1. destruct O1 as [_ O1]. inversion O1; subst. assumption. }
  split; [apply GoodL_app; assumption|]. split.
  - rewrite O3, app_assoc. apply UB_snoc. split; [apply Forall_app; split; assumption|].
    split; [|rewrite Hx; discriminate]. intros _. destruct O5 as [O5|O5]; [left; exact O5|]. destruct Hld as [Hld|Hld]; [left; lia|right; exact Hld].
  - rewrite O3, app_assoc. exists (pre ++ pre'), x. split; [reflexivity|exact Hx].
Qed.

Definition OKl (LS : Z) (l : list block) : Prop := l = [] \/ (0 < LS /\ exists c, l = [c]) \/ lastClosed l.

Lemma close0_list f src LS ld ld' pre c e : 0 <= LS -> GoodL 0 (pre ++ [c]) -> UB LS ld (pre ++ [c]) -> LS <= e ->
  (LS < e \/ OKl LS (pre ++ [c])) -> (e = LS \/ ld' = true) -> (ld = true -> ld' = true) ->
  GoodL 0 (pre ++ closeBlock (S f) src c e) /\ UB LS ld' (pre ++ closeBlock (S f) src c e) /\ lastClosed (pre ++ closeBlock (S f) src c e).
Proof.
  intros H0 HG HU Hle HE Hld Hm.
  destruct (isOpen c) eqn:Eo.
  2:{ rewrite closeBlock_closed by exact Eo. split; [exact HG|]. split; [eapply UB_mono; eassumption|exists pre, c; tauto]. }
  apply GoodL_app_inv in HG; [|discriminate]. destruct HG as (Hcp & Hgp & Hgc).
  pose proof (UB_pre_le _ _ _ _ HU) as Hple. apply UB_snoc in HU. destruct HU as [_ [_ Hent]].
  pose proof (endOf_le_LS _ pre H0 Hple) as Hlo.
  pose proof (GoodL_endOf_le 0 pre Hcp Hgp) as Hlo0.
  cbn [GoodL] in Hgc. rewrite Eo in Hgc. destruct Hgc as [_ Hpo].
  assert (Hlt : endOf 0 pre < e).
  { destruct HE as [HE|[HE|[[HE (c0 & Ec)]|(pre2 & c2 & Ec & Hc2)]]]; [lia|destruct pre; discriminate| |].
    - destruct pre; [rewrite endOf_nil; lia|].
      apply (f_equal (@length _)) in Ec. cbn in Ec. rewrite app_length in Ec. cbn in Ec. lia.
    - apply app_inj_tail in Ec. destruct Ec as [_ Ec]. subst c2. congruence. }
  pose proof (closeBlock_OUT f src c e (endOf 0 pre) LS Eo Hpo Hlo0 Hlt Hle (Hent Eo)) as HO.
  apply (close_core LS ld' pre _ e Hcp Hgp Hple HO Hld).
Qed.

Lemma Rb_close0 ld ld' p e : 0 <= lineStart p -> Rb ld p -> lineStart p <= e ->
  (lineStart p < e \/ OKroot p) ->
  (e = lineStart p \/ ld' = true) -> (ld = true -> ld' = true) ->
  Rb ld' (closeLastChildAt p 0 e) /\ doneRoot (ks (closeLastChildAt p 0 e)).
Proof.
  intros H0 [HG HU] Hle HE Hld Hm. unfold Rb. cbn [lineStart closeLastChildAt withRoot setLP].
  change (lineStart p) with (lineStart p).
  destruct (list_snoc_cases (ks p)) as [E|(pre & c & E)].
  { rewrite (ks_close0_nil p e E). split; [split; [exact I|exact I]|left; reflexivity]. }
  rewrite (ks_close0_snoc p e pre c E). rewrite E in HG, HU.
  destruct (bheight_S (root p)) as [f Ef]. rewrite Ef.
  assert (HE' : lineStart p < e \/ OKl (lineStart p) (pre ++ [c])).
  { destruct HE as [HE|HE]; [left; exact HE|right]. unfold OKroot in HE. rewrite E in HE. exact HE. }
  destruct (close0_list f (source p) (lineStart p) ld ld' pre c e H0 HG HU Hle HE' Hld Hm) as (A & B & C).
  split; [split; assumption|right; exact C].
Qed.

(* ---- operations that leave the tree alone ---- *)
Definition sameT (p p' : lp) : Prop :=
  root p' = root p /\ container p' = container p /\ lineStart p' = lineStart p /\ line p' = line p /\ source p' = source p /\
  (ldb p = true -> ldb p' = true).
Lemma sameT_refl p : sameT p p. Proof. repeat split; tauto. Qed.
Lemma sameT_trans a b c : sameT a b -> sameT b c -> sameT a c.
Proof. intros (A1 & A2 & A3 & A4 & A5 & A6) (B1 & B2 & B3 & B4 & B5 & B6). unfold sameT. rewrite B1, B2, B3, B4, B5. tauto. Qed.
Lemma R_sameT p p' : sameT p p' -> R p -> R p'.
Proof.
  intros (A1 & A2 & A3 & A4 & A5 & A6) H. unfold R in *. eapply Rb_mono; [exact A6|]. eapply Rb_env; eassumption.
Qed.
Lemma Rb_sameT ld p p' : sameT p p' -> Rb ld p -> Rb ld p'.
Proof. intros (A1 & A2 & A3 & _) H. eapply Rb_env; eassumption. Qed.
Lemma ldb_cases p : ldb p = true <-> state p = stLineConsumed \/ state p = stDescendTerminated.
Proof. unfold ldb. rewrite orb_true_iff, !Z.eqb_eq. tauto. Qed.

Lemma sameT_opened p : sameT p (if state p =? stOpening then withState p stOpenMatched else p).
Proof.
  destruct (Z.eqb_spec (state p) stOpening) as [E|E]; [|apply sameT_refl]. repeat split.
  unfold ldb. rewrite E. discriminate.
Qed.
Lemma sameT_panic p n : sameT p (panic p n). Proof. repeat split; tauto. Qed.
Lemma sameT_advance p n : sameT p (advance p n).
Proof.
  unfold advance. destruct (n <? 0); [apply sameT_panic|]. destruct (n =? 0); [apply sameT_refl|]. cbv zeta.
  pose proof (sameT_opened p) as H0. set (q := if state p =? stOpening then withState p stOpenMatched else p) in *.
  eapply sameT_trans; [exact H0|]. destruct (len (line q) <? li q + n); [apply sameT_panic|]. repeat split; tauto.
Qed.
Lemma sameT_consumeLine p : sameT p (consumeLine p).
Proof.
  unfold consumeLine. cbv zeta. pose proof (sameT_advance p (len (line p) - li p)) as H. set (q := advance p _) in *.
  eapply sameT_trans; [exact H|]. destruct (_ || _) eqn:E1.
  - repeat split; try (intros _; reflexivity).
  - destruct (state q =? stDescending) eqn:E2; [|apply sameT_refl]. repeat split; try (intros _; reflexivity).
Qed.
Lemma sameT_consumeIndent_loop : forall fuel p n, sameT p (consumeIndent_loop fuel p n).
Proof.
  induction fuel as [|f IH]; intros p n; [apply sameT_refl|]. cbn [consumeIndent_loop].
  destruct (n <=? 0); [apply sameT_refl|]. cbv zeta.
  pose proof (sameT_opened p) as H0. set (q := if state p =? stOpening then withState p stOpenMatched else p) in *.
  destruct (_ && (_ =? 32)); [eapply sameT_trans; [exact H0|]; eapply sameT_trans; [|apply IH]; repeat split; tauto|].
  destruct (_ && (_ =? 9)); [|eapply sameT_trans; [exact H0|apply sameT_panic]].
  destruct (n <? _); [eapply sameT_trans; [exact H0|]; repeat split; tauto|].
  eapply sameT_trans; [exact H0|]. eapply sameT_trans; [|apply IH]. repeat split; tauto.
Qed.
Lemma sameT_consumeIndent p n : sameT p (consumeIndent p n). Proof. apply sameT_consumeIndent_loop. Qed.
Lemma sameT_same p p' : sameT p p' -> same_tree p p'. Proof. intros (A & B & _). split; assumption. Qed.

Lemma R_advance p n : R p -> R (advance p n). Proof. apply R_sameT, sameT_advance. Qed.
Lemma R_consumeLine p : R p -> R (consumeLine p). Proof. apply R_sameT, sameT_consumeLine. Qed.
Lemma R_consumeIndent p n : R p -> R (consumeIndent p n). Proof. apply R_sameT, sameT_consumeIndent. Qed.

(* ---- openBlock ---- *)
Lemma OKroot_ksRel p p' : ksRel (ks p) (ks p') -> lineStart p' = lineStart p -> OKroot p -> OKroot p'.
Proof.
  intros Hr El. unfold OKroot. rewrite El.
  destruct Hr as [[E1 E2]|(pre & c & c' & E1 & E2 & Hs)]; rewrite E1, E2.
  - intros _. left. reflexivity.
  - intros [H|[[H0 (c0 & H)]|(pre2 & c2 & H & Hc)]].
    + destruct pre; discriminate.
    + right. left. split; [exact H0|]. destruct pre as [|x pre]; [exists c'; reflexivity|].
      apply (f_equal (@length _)) in H. cbn in H. rewrite app_length in H. cbn in H. lia.
    + right. right. apply app_inj_tail in H. destruct H as [-> ->]. exists pre2, c'. split; [reflexivity|].
      rewrite (shEq_isOpen _ _ Hs). exact Hc.
Qed.
Lemma OKroot_done p : doneRoot (ks p) -> OKroot p.
Proof. intros [H|H]; [left; exact H|right; right; exact H]. Qed.
Lemma ksRel_close_deep p d e : (1 <= d)%nat -> ksRel (ks p) (ks (closeLastChildAt p d e)).
Proof. intros Hd. unfold ks. rewrite closeLastChildAt_eq. cbn [root withRoot setLP]. apply ksRel_updAt_f; [exact Hd|apply shEq_closeF]. Qed.

Lemma Rb_openBlock_up : forall fuel p k, 0 <= lineStart p -> Rb false p -> OKroot p ->
  Rb false (openBlock_up fuel p k) /\ OKroot (openBlock_up fuel p k) /\ lineStart (openBlock_up fuel p k) = lineStart p.
Proof.
  induction fuel as [|f IH]; intros p k H0 HR HO; [tauto|]. cbn [openBlock_up].
  destruct (canContain _ _); [tauto|]. destruct (cdepth p) as [|d] eqn:Ed; [tauto|].
  set (p1 := closeLastChildAt p d (lineStart p)).
  assert (H1 : Rb false p1 /\ OKroot p1).
  { destruct d as [|d].
    - destruct (Rb_close0 false false p (lineStart p) H0 HR ltac:(lia) (or_intror HO) (or_introl eq_refl) (fun x => x)) as [A B].
      split; [exact A|apply OKroot_done, B].
    - split; [apply Rb_close_deep; [lia|exact HR]|]. eapply OKroot_ksRel; [apply ksRel_close_deep; lia|reflexivity|exact HO]. }
  destruct H1 as [A B].
  destruct (IH (withCont p1 (Some d)) k H0 A B) as (C & D & E). split; [exact C|]. split; [exact D|exact E].
Qed.

Lemma isOpen_newBlock k s : isOpen (newBlock k s) = true. Proof. reflexivity. Qed.
Lemma Rb_append LS l nb : GoodL 0 l -> UB LS false l -> doneRoot l ->
  isOpen nb = true -> bkind nb <> SetextHeadingKind -> bik nb = [] -> GoodL 0 (l ++ [nb]) /\ UB LS false (l ++ [nb]).
Proof.
  intros HG HU Hd Ho Hk Hb.
  assert (Hnb : forall lo, GoodL lo [nb]).
  { intros lo. cbn [GoodL]. rewrite Ho. split; [reflexivity|]. split; [exact Hk|]. intros _. rewrite Hb. split; [exact I|constructor]. }
  assert (Hlu : lastUB LS false nb).
  { split; [rewrite Ho; discriminate|]. intros _ _. rewrite Hb. constructor. }
  destruct Hd as [->|(pre & c & -> & Hc)].
  - split; [apply Hnb|]. apply (UB_snoc LS false [] nb). split; [constructor|exact Hlu].
  - pose proof HG as HG'. apply GoodL_app_inv in HG'; [|discriminate]. destruct HG' as (A & B & C).
    assert (Hall : Forall closedB (pre ++ [c])) by (apply Forall_app; split; [exact A|constructor; [exact Hc|constructor]]).
    split; [apply GoodL_app; [exact Hall|exact HG|apply Hnb]|].
    apply UB_snoc. split; [|exact Hlu]. apply UB_snoc in HU. destruct HU as [U1 [U2 _]].
    apply Forall_app. split; [exact U1|]. constructor; [|constructor]. destruct (U2 Hc) as [U|U]; [exact U|discriminate].
Qed.

Definition appendNb (nb : block) (b : block) : block := set_bkids b (bkids b ++ [nb]).
Lemma shEq_appendNb nb b : shEq b (appendNb nb b). Proof. destruct b; apply shEq_full; reflexivity. Qed.

Lemma Rb_open_final p1 k s : 0 <= lineStart p1 -> Rb false p1 -> (OKroot p1 \/ (1 <= cdepth p1)%nat) -> k <> SetextHeadingKind ->
  Rb false (withCont (updCont (closeLastChildAt p1 (cdepth p1) (lineStart p1)) (appendNb (newBlock k s))) (Some (S (cdepth p1)))).
Proof.
  intros H0 HR HO Hk.
  match goal with |- Rb false (withCont ?q _) => change (Rb false q) end.
  unfold updCont. change (cdepth (closeLastChildAt p1 (cdepth p1) (lineStart p1))) with (cdepth p1).
  destruct (cdepth p1) as [|d] eqn:Ed.
  - destruct HO as [HO|HO]; [|lia].
    destruct (Rb_close0 false false p1 (lineStart p1) H0 HR ltac:(lia) (or_intror HO) (or_introl eq_refl) (fun x => x)) as [[A1 A2] B].
    set (p2 := closeLastChildAt p1 0 (lineStart p1)) in *. cbn [updAt]. unfold Rb, ks. cbn [root withRoot setLP lineStart].
    change (lineStart p1) with (lineStart p2).
    replace (bkids (appendNb (newBlock k s) (root p2))) with (ks p2 ++ [newBlock k s]) by (unfold ks, appendNb; destruct (root p2); reflexivity).
    apply Rb_append; try assumption; reflexivity.
  - apply Rb_updAt_f; [lia|apply shEq_appendNb|]. apply Rb_close_deep; [lia|exact HR].
Qed.

Lemma st_open_ldb p : st_open p -> ldb p = false.
Proof. intros [E|E]; unfold ldb; rewrite E; reflexivity. Qed.
Lemma st_open_notdesc p : st_open p -> (state p =? stDescending) || (state p =? stDescendTerminated) = false.
Proof. intros [E|E]; rewrite E; reflexivity. Qed.

Lemma Rb_openBlock_nd p k : (state p =? stDescending) || (state p =? stDescendTerminated) = false ->
  k <> SetextHeadingKind -> 0 <= lineStart p -> Rb false p ->
  (OKroot p \/ ((1 <= cdepth p)%nat /\ canContain (containerKind p) k = true)) -> Rb false (openBlock p k).
Proof.
  intros Hs Hk H0 HR HO. unfold openBlock. rewrite Hs. cbv zeta.
  pose proof (sameT_opened p) as HT. set (p0 := if state p =? stOpening then withState p stOpenMatched else p) in *.
  assert (E0 : lineStart p0 = lineStart p) by apply HT.
  assert (HR0 : Rb false p0) by (eapply Rb_sameT; eassumption).
  assert (H1 : Rb false (openBlock_up (S (cdepth p0)) p0 k) /\ lineStart (openBlock_up (S (cdepth p0)) p0 k) = lineStart p /\
               (OKroot (openBlock_up (S (cdepth p0)) p0 k) \/ (1 <= cdepth (openBlock_up (S (cdepth p0)) p0 k))%nat)).
  { destruct HO as [HO|[HO1 HO2]].
    - assert (HO0 : OKroot p0). { destruct HT as (A & _ & B & _). unfold OKroot, ks in *. rewrite A, B. exact HO. }
      destruct (Rb_openBlock_up (S (cdepth p0)) p0 k ltac:(lia) HR0 HO0) as (A & B & C). split; [exact A|]. split; [lia|left; exact B].
    - cbn [openBlock_up]. rewrite (containerKind_same p p0 (sameT_same _ _ HT)), HO2.
      split; [exact HR0|]. split; [exact E0|right]. rewrite (cd_same p p0 (sameT_same _ _ HT)). exact HO1. }
  set (p1 := openBlock_up (S (cdepth p0)) p0 k) in *. destruct H1 as (A & B & C).
  replace (lineStart p1 + li p1) with (lineStart p1 + li p1) by reflexivity.
  apply (Rb_open_final p1 k (lineStart p1 + li p1)); [lia|exact A|exact C|exact Hk].
Qed.

Lemma Rb_openBlock p k : st_open p -> k <> SetextHeadingKind -> 0 <= lineStart p -> Rb false p ->
  (OKroot p \/ ((1 <= cdepth p)%nat /\ canContain (containerKind p) k = true)) -> Rb false (openBlock p k).
Proof. intros Hs. apply Rb_openBlock_nd. apply st_open_notdesc, Hs. Qed.

Lemma R_Rb_false p : ldb p = false -> R p -> Rb false p.
Proof. intros E H. unfold R in H. rewrite E in H. exact H. Qed.
Lemma R_openBlock p k : st_open p -> k <> SetextHeadingKind -> 0 <= lineStart p -> R p ->
  (OKroot p \/ ((1 <= cdepth p)%nat /\ canContain (containerKind p) k = true)) -> R (openBlock p k).
Proof. intros Hs Hk H0 HR HO. apply Rb_false. apply Rb_openBlock; try assumption. apply R_Rb_false; [apply st_open_ldb, Hs|exact HR]. Qed.

(* ---- endBlock ---- *)
Lemma st3_notdesc' p : st3 p -> (state p =? stDescending) || (state p =? stDescendTerminated) = false.
Proof. intros H. destruct (st3_cases p H) as [E|[E|E]]; rewrite E; reflexivity. Qed.
Lemma R_endBlock p : st3 p -> 0 <= lineStart p -> R p ->
  ((2 <= cdepth p)%nat \/ (0 < li p /\ state p = stLineConsumed)) -> R (endBlock p).
Proof.
  intros Hs H0 HR HD. unfold endBlock. rewrite (st3_notdesc' p Hs). cbv zeta.
  pose proof (sameT_opened p) as HT. set (p0 := if state p =? stOpening then withState p stOpenMatched else p) in *.
  assert (HR0 : R p0) by (eapply R_sameT; eassumption).
  assert (Ed : cdepth p0 = cdepth p) by (apply cd_same, sameT_same, HT).
  destruct (cdepth p0) as [|d] eqn:Ed0; [eapply R_sameT; [apply sameT_panic|exact HR0]|].
  match goal with |- R (withCont ?q ?c) => change (Rb (ldb p0) q) end.
  destruct d as [|d].
  - destruct HD as [HD|[HD1 HD2]]; [lia|].
    assert (E : p0 = p) by (unfold p0; rewrite HD2; reflexivity). rewrite E in *.
    assert (El : ldb p = true) by (unfold ldb; rewrite HD2; reflexivity). unfold R in HR. rewrite El in *.
    assert (L1 : lineStart p <= lineStart p + li p) by lia. assert (L2 : lineStart p < lineStart p + li p) by lia.
    apply (Rb_close0 true true p (lineStart p + li p) H0 HR L1 (or_introl L2) (or_intror eq_refl) (fun x => x)).
  - apply Rb_close_deep; [lia|exact HR0].
Qed.

(* ---- container updates ---- *)
Lemma R_updCont_sh p f : (forall c, shEq c (f c)) -> (forall c, bkids (f c) = bkids c) -> R p -> R (updCont p f).
Proof. intros A B H. unfold R. change (ldb (updCont p f)) with (ldb p). apply Rb_updCont_sh; assumption. Qed.
Lemma R_updCont_ik p g :
  (cdepth p = 1%nat -> forall c, lastBlock (root p) = Some c -> isOpen c = true -> bkind c <> ParagraphKind) ->
  R p -> R (updCont p (fun b => set_bik b (g b))).
Proof. intros A H. unfold R. change (ldb (updCont p (fun b => set_bik b (g b)))) with (ldb p). apply Rb_updCont_ik; assumption. Qed.
Lemma ckind_cond p K : ckind p K -> K <> ParagraphKind ->
  cdepth p = 1%nat -> forall c, lastBlock (root p) = Some c -> isOpen c = true -> bkind c <> ParagraphKind.
Proof.
  intros Hc HK Ed c El _. rewrite (Hc c); [exact HK|]. rewrite Ed. cbn [getAt]. rewrite El. reflexivity.
Qed.
Lemma bkind_set_bik' b v : bkind (set_bik b v) = bkind b. Proof. destruct b; reflexivity. Qed.

Lemma R_collectInline p kind n K : ckind p K -> K <> ParagraphKind -> R p -> R (collectInline p kind n).
Proof.
  intros Hc HK HR. unfold collectInline. destruct (_ =? stDescendTerminated); [eapply R_sameT; [apply sameT_panic|exact HR]|]. cbv zeta.
  pose proof (sameT_opened p) as HT. set (p0 := if state p =? stOpening then withState p stOpenMatched else p) in *.
  assert (HR0 : R p0) by (eapply R_sameT; eassumption).
  assert (Hc0 : ckind p0 K) by (eapply ckind_same; [apply sameT_same, HT|exact Hc]).
  set (p1 := if 0 <? indent p0 then _ else p0).
  assert (H1 : R p1 /\ ckind p1 K).
  { unfold p1. destruct (0 <? indent p0); [|tauto].
    set (q := advance p0 (indentLength (rest p0))).
    assert (Hq : R q /\ ckind q K) by (split; [apply R_advance, HR0|eapply ckind_same; [apply sameT_same, sameT_advance|exact Hc0]]).
    destruct Hq as [Hq1 Hq2]. split.
    - apply (R_updCont_ik q (fun b => bik b ++ [Inl IndentKind (lineStart p0 + li p0) (lineStart q + li q) (indent p0) [] []])); [|exact Hq1].
      apply (ckind_cond q K Hq2 HK).
    - apply ckind_updCont; [intros b; apply bkind_set_bik'|exact Hq2]. }
  destruct H1 as [H1 H1c]. clearbody p1.
  set (q := advance p1 n).
  assert (Hq : R q /\ ckind q K) by (split; [apply R_advance, H1|eapply ckind_same; [apply sameT_same, sameT_advance|exact H1c]]).
  destruct Hq as [Hq1 Hq2].
  match goal with |- R (updCont q (fun b => set_bik b (bik b ++ [?node]))) => apply (R_updCont_ik q (fun b => bik b ++ [node])); [|exact Hq1] end.
  apply (ckind_cond q K Hq2 HK).
Qed.

(* ---- the list of root children never becomes empty again ---- *)
Definition NEr (b b' : block) : Prop := bkids b <> [] -> bkids b' <> [].
Lemma ocp_loop_ne : forall fuel rf src orig orphan r result, ocp_loop fuel rf src orig orphan r result <> [].
Proof.
  assert (Hs : forall (l : list block) x, l ++ [x] <> []) by (intros l x E; destruct l; discriminate).
  assert (Hw : forall (orphan : option block) l x, (match orphan with Some o => (l ++ [x]) ++ [o] | None => l ++ [x] end) <> []).
  { intros orphan l x. destruct orphan; apply Hs. }
  induction fuel as [|f IH]; intros rf src orig orphan r result; [apply Hs|]. cbn [ocp_loop]. cbv zeta.
  destruct (parseLinkLabel rf r) as [[lspan linner] r1]. destruct (negb (spanValid lspan)); [apply Hs|].
  destruct (current r1) as [c r2]. destruct (negb (c =? 58)); [apply Hs|].
  destruct (next r2) as [? r3]. destruct (skipLinkSpace rf r3) as [ok r4]. destruct (negb ok); [apply Hs|].
  destruct (parseLinkDestination rf r4) as [[dspan dtext] r5]. destruct (negb (spanValid dspan)); [apply Hs|].
  destruct (readEOL rf r5) as [destEOL r6]. destruct (current r6) as [c6 r7].
  destruct (_ && _ && _); [apply Hs|].
  destruct (skipLinkSpace rf r7) as [ok2 r8]. destruct (negb ok2); [apply Hw|].
  destruct (parseLinkTitle rf r8) as [[tspan ttext] r9].
  destruct (negb (spanValid tspan)).
  { destruct (destEOL <? 0); [apply Hs|]. destruct (_ <? 0); [apply Hw|apply IH]. }
  destruct (readEOL rf r9) as [titleEOL r10].
  destruct (titleEOL <? 0).
  { destruct (destEOL <? 0); [apply Hs|]. destruct (_ <? 0); [apply Hw|]. rewrite app_assoc. apply Hs. }
  destruct (_ <? 0); [apply Hw|apply IH].
Qed.
Lemma closeBlock_ne fuel src b e : closeBlock fuel src b e <> [].
Proof.
  destruct fuel as [|f]; [discriminate|]. cbn [closeBlock]. destruct (negb (isOpen b)); [discriminate|]. cbv zeta.
  destruct (_ =? ListKind); [discriminate|]. destruct (_ =? IndentedCodeBlockKind); [discriminate|].
  destruct (_ || _); [|discriminate]. unfold onCloseParagraph. destruct (bik _); [discriminate|]. apply ocp_loop_ne.
Qed.
Lemma app_ne_r {A} (l l' : list A) : l' <> [] -> l ++ l' <> [].
Proof. intros H E. apply app_eq_nil in E. tauto. Qed.
Lemma NEr_updAt f : (forall b, NEr b (f b)) -> forall d b, NEr b (updAt d f b).
Proof.
  intros Hf d b. destruct d as [|d]; [apply Hf|]. unfold NEr. rewrite bkids_updAt_S.
  destruct (lastBlock b); [intros _; apply app_ne_r; discriminate|tauto].
Qed.
Lemma NEr_closeF p e b : NEr b (closeF p e b).
Proof.
  unfold NEr, closeF. destruct (lastBlock b); [|tauto]. intros _. unfold set_lastBlocks. destruct b. cbn [bkids set_bkids].
  apply app_ne_r, closeBlock_ne.
Qed.
Lemma NEr_keep f : (forall b, bkids (f b) = bkids b) -> forall b, NEr b (f b).
Proof. intros H b. unfold NEr. rewrite H. tauto. Qed.
Lemma NEr_appendNb nb b : NEr b (appendNb nb b).
Proof. unfold NEr, appendNb. destruct b. cbn [bkids set_bkids]. intros _. apply app_ne_r. discriminate. Qed.

Definition NE (p : lp) : Prop := ks p <> [].
Lemma NE_updCont p f : (forall b, NEr b (f b)) -> NE p -> NE (updCont p f).
Proof. intros Hf. unfold NE, ks, updCont. cbn [root withRoot setLP]. apply (NEr_updAt f Hf). Qed.
Lemma NE_close p d e : NE p -> NE (closeLastChildAt p d e).
Proof. unfold NE, ks. rewrite closeLastChildAt_eq. cbn [root withRoot setLP]. apply NEr_updAt. apply NEr_closeF. Qed.
Lemma NE_sameT p p' : sameT p p' -> NE p -> NE p'.
Proof. intros (A & _). unfold NE, ks. rewrite A. tauto. Qed.
Lemma NE_openBlock_up : forall fuel p k, NE p -> NE (openBlock_up fuel p k).
Proof.
  induction fuel as [|f IH]; intros p k H; [exact H|]. cbn [openBlock_up]. destruct (canContain _ _); [exact H|].
  destruct (cdepth p); [exact H|]. apply IH. apply (NE_close p n (lineStart p) H).
Qed.
Lemma NE_openBlock p k : NE p -> NE (openBlock p k).
Proof.
  intros H. unfold openBlock. destruct (_ || _); [exact H|]. cbv zeta.
  match goal with |- NE (withCont ?q _) => change (NE q) end.
  apply NE_updCont; [intros b; apply NEr_appendNb|]. apply NE_close. apply NE_openBlock_up.
  eapply NE_sameT; [apply sameT_opened|exact H].
Qed.
Lemma NE_endBlock p : NE p -> NE (endBlock p).
Proof.
  intros H. unfold endBlock. destruct (_ || _); [exact H|]. cbv zeta.
  pose proof (NE_sameT _ _ (sameT_opened p) H) as H1. destruct (cdepth _); [exact H1|].
  match goal with |- NE (withCont ?q _) => change (NE q) end. apply NE_close, H1.
Qed.
Lemma NEr_set_bik g b : NEr b (set_bik b (g b)). Proof. unfold NEr. destruct b. exact (fun x => x). Qed.
Lemma NE_collectInline p kind n : NE p -> NE (collectInline p kind n).
Proof.
  intros H. unfold collectInline. destruct (_ =? stDescendTerminated); [exact H|]. cbv zeta.
  pose proof (NE_sameT _ _ (sameT_opened p) H) as H0. set (p0 := if state p =? stOpening then withState p stOpenMatched else p) in *.
  apply (NE_updCont _ (fun b => set_bik b _)); [intros b; apply (NEr_set_bik (fun b => bik b ++ [_]))|].
  eapply NE_sameT; [apply sameT_advance|]. destruct (0 <? indent p0); [|exact H0].
  apply (NE_updCont _ (fun b => set_bik b _)); [intros b; apply (NEr_set_bik (fun b => bik b ++ [_]))|].
  eapply NE_sameT; [apply sameT_advance|exact H0].
Qed.
(* a container below the root exists: the root has children *)
Lemma NE_wf p : ccP p -> (1 <= cdepth p)%nat -> NE p.
Proof.
  intros (_ & _ & (x & Hx)) Hd. unfold NE, ks. destruct (cdepth p) as [|d]; [lia|]. cbn [getAt] in Hx.
  destruct (lastBlock (root p)) as [c|] eqn:El; [|discriminate]. apply lastBlock_some in El. destruct El as (pre & El). rewrite El.
  intros E. destruct pre; discriminate.
Qed.

(* ---- state and cursor facts ---- *)
Lemma opened_ne0 p : state p <> stOpening -> (if state p =? stOpening then withState p stOpenMatched else p) = p.
Proof. intros H. replace (state p =? stOpening) with false by (symmetry; apply Z.eqb_neq; exact H). reflexivity. Qed.
Lemma state_advance_ne0 p n : state p <> stOpening -> state (advance p n) = state p.
Proof.
  intros H. unfold advance. destruct (n <? 0); [reflexivity|]. destruct (n =? 0); [reflexivity|]. cbv zeta.
  rewrite (opened_ne0 p H). destruct (_ <? _); reflexivity.
Qed.
Lemma state_consumeIndent_loop_ne0 : forall fuel p n, state p <> stOpening -> state (consumeIndent_loop fuel p n) = state p.
Proof.
  induction fuel as [|f IH]; intros p n H; [reflexivity|]. cbn [consumeIndent_loop]. destruct (n <=? 0); [reflexivity|]. cbv zeta.
  rewrite (opened_ne0 p H).
  destruct (_ && (_ =? 32)); [rewrite IH; [reflexivity|exact H]|].
  destruct (_ && (_ =? 9)); [|reflexivity]. destruct (n <? _); [reflexivity|]. rewrite IH; [reflexivity|exact H].
Qed.
Lemma state_consumeIndent_ne0 p n : state p <> stOpening -> state (consumeIndent p n) = state p.
Proof. apply state_consumeIndent_loop_ne0. Qed.
Lemma state_collectInline_ne0 p k n : state p <> stOpening -> state (collectInline p k n) = state p.
Proof.
  intros H. unfold collectInline. destruct (_ =? stDescendTerminated); [reflexivity|]. cbv zeta. rewrite (opened_ne0 p H).
  match goal with |- state (updCont ?q _) = _ => change (state q = state p) end.
  rewrite state_advance_ne0; [|destruct (0 <? indent p); [|exact H]].
  - destruct (0 <? indent p); [|reflexivity].
    match goal with |- state (updCont ?q _) = _ => change (state q = state p) end. apply state_advance_ne0, H.
  - match goal with |- state (updCont ?q _) <> _ => change (state q <> stOpening) end. rewrite state_advance_ne0; exact H.
Qed.

Definition CU (p : lp) : Prop := 0 <= lineStart p /\ 0 <= li p <= len (line p).
Lemma li_advance_full p : 0 <= li p <= len (line p) -> li (advance p (len (line p) - li p)) = len (line p).
Proof.
  intros Hl. unfold advance. destruct (Z.ltb_spec (len (line p) - li p) 0) as [L|L]; [lia|].
  destruct (Z.eqb_spec (len (line p) - li p) 0) as [E|E]; [lia|]. cbv zeta.
  set (q := if state p =? stOpening then withState p stOpenMatched else p).
  assert (Eq : li q = li p /\ line q = line p) by (unfold q; destruct (_ =? _); split; reflexivity). destruct Eq as [E1 E2].
  rewrite E1, E2. destruct (Z.ltb_spec (len (line p)) (li p + (len (line p) - li p))) as [L2|L2]; [lia|]. cbn [li withCursor setLP]. lia.
Qed.
Lemma li_consumeLine p : 0 <= li p <= len (line p) -> li (consumeLine p) = len (line p).
Proof.
  intros Hl. unfold consumeLine. cbv zeta. pose proof (li_advance_full p Hl) as E. set (q := advance p _) in *.
  destruct (_ || _); [exact E|]. destruct (_ =? stDescending); exact E.
Qed.
Lemma state_consumeLine_3 p : state p = stDescending -> state (consumeLine p) = stDescendTerminated.
Proof.
  intros H. unfold consumeLine. cbv zeta. rewrite state_advance_ne0 by (rewrite H; discriminate). rewrite H. reflexivity.
Qed.
Lemma state_consumeLine_open p : st_open p -> state (consumeLine p) = stLineConsumed.
Proof.
  intros H. unfold consumeLine. cbv zeta. pose proof (st_open_opened p H) as H1.
  assert (H2 : st_open (advance p (len (line p) - li p))).
  { unfold advance. destruct (_ <? 0); [exact H|]. destruct (_ =? 0); [exact H|]. cbv zeta. destruct (_ <? _); exact H1. }
  destruct H2 as [E|E]; rewrite E; reflexivity.
Qed.
Lemma state_consumeLine_2 p : state p = stLineConsumed -> state (consumeLine p) = stLineConsumed.
Proof.
  intros H. unfold consumeLine. cbv zeta.
  assert (Eq : state (advance p (len (line p) - li p)) = state p) by (apply state_advance_ne0; rewrite H; discriminate).
  set (q := advance p _) in *. rewrite Eq, H. change (state q = stLineConsumed). rewrite Eq. exact H.
Qed.

(* environment: line and line start never change *)
Definition envS (p p' : lp) : Prop := lineStart p' = lineStart p /\ line p' = line p /\ source p' = source p.
Lemma envS_refl p : envS p p. Proof. repeat split. Qed.
Lemma envS_trans a b c : envS a b -> envS b c -> envS a c.
Proof. intros (A1 & A2 & A3) (B1 & B2 & B3). unfold envS. rewrite B1, B2, B3. tauto. Qed.
Lemma envS_sameT p p' : sameT p p' -> envS p p'. Proof. intros (_ & _ & A & B & C & _). repeat split; assumption. Qed.
Lemma envS_collectInline p k n : envS p (collectInline p k n).
Proof.
  unfold collectInline. destruct (_ =? stDescendTerminated); [repeat split|]. cbv zeta.
  set (p0 := if state p =? stOpening then withState p stOpenMatched else p).
  assert (E0 : envS p p0) by (apply envS_sameT, sameT_opened).
  match goal with |- envS p (updCont ?q _) => change (envS p q) end.
  eapply envS_trans; [|apply envS_sameT, sameT_advance]. destruct (0 <? indent p0); [|exact E0].
  match goal with |- envS p (updCont ?q _) => change (envS p q) end. eapply envS_trans; [exact E0|apply envS_sameT, sameT_advance].
Qed.
