From Coq Require Import List ZArith Lia Bool.
Import ListNotations.
Require Import Base Tree Rdr Link Collect Html Recog LP Rules Starts Driver L2Kind2.
Open Scope Z_scope.

(* ================================================================== *)
(* GIB: a whole-run invariant of the block layer (same skeleton as     *)
(* L2Kind2.v, one lemma per function): a block of a kind that can hold *)
(* block children (document, list, list item, block quote) has no      *)
(* inline entries.  Needed so that Rewrite reaches every paragraph.    *)
(* ================================================================== *)

Definition isContK (K : Z) : bool :=
  (K =? documentKind) || (K =? ListKind) || (K =? ListItemKind) || (K =? BlockQuoteKind).
Definition ceK (K : Z) (ik : list inline) : bool := negb (isContK K) || match ik with [] => true | _ => false end.
Fixpoint ce (b : block) : bool :=
  match b with Blk K _ _ bk ik _ _ _ _ _ => ceK K ik && forallb ce bk end.
Definition ceL (l : list block) : bool := forallb ce l.

Lemma ceK_sub K ik ik' : (forall x, In x ik' -> In x ik) -> ceK K ik = true -> ceK K ik' = true.
Proof.
  unfold ceK. intros Hs H. destruct (negb (isContK K)); [reflexivity|]. cbn [orb] in *. destruct ik; [|discriminate].
  destruct ik' as [|x r]; [reflexivity|]. destruct (Hs x (or_introl eq_refl)).
Qed.
Lemma ceK_leaf K ik : isContK K = false -> ceK K ik = true.
Proof. unfold ceK. intros ->. reflexivity. Qed.

Lemma ce_eq b : ce b = ceK (bkind b) (bik b) && ceL (bkids b).
Proof. destruct b; reflexivity. Qed.
Lemma ce_parts b : ce b = true -> ceK (bkind b) (bik b) = true /\ ceL (bkids b) = true.
Proof. rewrite ce_eq. apply andb_true_iff. Qed.

Lemma ce_set_bend b v : ce (set_bend b v) = ce b. Proof. destruct b; reflexivity. Qed.
Lemma ce_set_bstart b v : ce (set_bstart b v) = ce b. Proof. destruct b; reflexivity. Qed.
Lemma ce_set_bn b v : ce (set_bn b v) = ce b. Proof. destruct b; reflexivity. Qed.
Lemma ce_set_bchar b v : ce (set_bchar b v) = ce b. Proof. destruct b; reflexivity. Qed.
Lemma ce_set_bindent b v : ce (set_bindent b v) = ce b. Proof. destruct b; reflexivity. Qed.
Lemma ce_set_bloose b v : ce (set_bloose b v) = ce b. Proof. destruct b; reflexivity. Qed.
Lemma ce_set_blast b v : ce (set_blast b v) = ce b. Proof. destruct b; reflexivity. Qed.
Lemma ce_set_bkind b K' : isContK K' = false -> ce b = true -> ce (set_bkind b K') = true.
Proof.
  intros H2 H. apply ce_parts in H. destruct H as [_ Hk]. destruct b as [K s e bk ik a n c l lb].
  unfold ceL in *. cbn [ce set_bkind bkind bik bkids] in *. rewrite Hk, andb_true_r. apply ceK_leaf, H2.
Qed.
Lemma ce_set_bkids b ks : ce b = true -> ceL ks = true -> ce (set_bkids b ks) = true.
Proof. intros H Hk. apply ce_parts in H. destruct H as [H _]. destruct b. unfold ceL in *. cbn [ce set_bkids bik bkids bkind] in *. rewrite H, Hk. reflexivity. Qed.
Lemma ce_set_bik b ik : ce b = true -> ceK (bkind b) ik = true -> ce (set_bik b ik) = true.
Proof. intros H Hk. apply ce_parts in H. destruct H as [_ H]. destruct b. unfold ceL in *. cbn [ce set_bik bik bkids bkind] in *. rewrite H, Hk. reflexivity. Qed.
Lemma ce_add_ik b u : ce b = true -> isContK (bkind b) = false -> ce (set_bik b (bik b ++ [u])) = true.
Proof. intros H Hu. apply ce_set_bik; [assumption|]. apply ceK_leaf, Hu. Qed.
Lemma ce_sub_ik b ik : ce b = true -> (forall x, In x ik -> In x (bik b)) -> ce (set_bik b ik) = true.
Proof. intros H Hs. apply ce_set_bik; [assumption|]. apply ce_parts in H. destruct H as [H _]. exact (ceK_sub _ _ _ Hs H). Qed.

Lemma ceL_app a b : ceL (a ++ b) = ceL a && ceL b. Proof. apply forallb_app. Qed.
Lemma ceL_removelast l : ceL l = true -> ceL (removelast l) = true.
Proof. apply forallb_sub. intros x. apply removelast_In. Qed.
Lemma ce_lastBlock b c : ce b = true -> lastBlock b = Some c -> ce c = true.
Proof.
  intros H Hl. apply ce_parts in H. destruct H as [_ H]. unfold ceL in H. rewrite forallb_forall in H.
  apply H. eapply lastBlock_In. exact Hl.
Qed.
Lemma ce_set_lastBlocks b repl : ce b = true -> ceL repl = true -> ce (set_lastBlocks b repl) = true.
Proof.
  intros H Hr. unfold set_lastBlocks. apply ce_set_bkids; [assumption|].
  rewrite ceL_app, Hr, andb_true_r. apply ceL_removelast. apply ce_parts in H. tauto.
Qed.

Lemma ce_updAt f : (forall b, ce b = true -> ce (f b) = true) ->
  forall d b, ce b = true -> ce (updAt d f b) = true.
Proof.
  intros Hf. induction d as [|d IH]; intros b H; [apply Hf; assumption|]. cbn [updAt].
  destruct (lastBlock b) as [c|] eqn:El; [|assumption].
  apply ce_set_lastBlocks; [assumption|]. unfold ceL. cbn [forallb]. rewrite andb_true_r.
  apply IH. eapply ce_lastBlock; eassumption.
Qed.
Lemma ce_updAt_at f : forall d b, ce b = true ->
  (forall x, getAt d b = Some x -> ce x = true -> ce (f x) = true) -> ce (updAt d f b) = true.
Proof.
  induction d as [|d IH]; intros b H Hf; [apply Hf; [reflexivity|assumption]|]. cbn [updAt].
  destruct (lastBlock b) as [c|] eqn:El; [|assumption].
  apply ce_set_lastBlocks; [assumption|]. unfold ceL. cbn [forallb]. rewrite andb_true_r.
  apply IH; [eapply ce_lastBlock; eassumption|]. intros x Hx. apply Hf. cbn [getAt]. rewrite El. exact Hx.
Qed.

(* ---- onClose handlers ---- *)
Lemma ce_onCloseIndented src b : ce b = true -> ce (onCloseIndented src b) = true.
Proof.
  intros H. unfold onCloseIndented. apply ce_sub_ik; [assumption|]. intros x Hx.
  apply in_rev in Hx. apply trimBlankTail_sub in Hx. apply in_rev in Hx.
  destruct (rev (bik b)) as [|lst [|prev r]] eqn:Er; try exact Hx.
  destruct (_ && _ && _ && _); [|exact Hx].
  apply in_rev in Hx. apply in_rev. rewrite Er. right. exact Hx.
Qed.
Lemma ce_onCloseList b : ce b = true -> ce (onCloseList b) = true.
Proof.
  intros H. unfold onCloseList. cbv zeta. destruct (bloose b || _); [|assumption].
  apply ce_set_bkids; [rewrite ce_set_bloose; assumption|].
  apply ce_parts in H. destruct H as [_ H]. unfold ceL in *. rewrite forallb_forall in *.
  intros x Hx. apply in_map_iff in Hx. destruct Hx as (y & <- & Hy). rewrite ce_set_bloose. apply H, Hy.
Qed.
Lemma ce_refDef s e kids : ce (refDefBlock s e kids) = true.
Proof. reflexivity. Qed.

Lemma ce_ocp : forall fuel rfuel src orig orphan r result,
  ce orig = true -> (match orphan with Some o => ce o = true | None => True end) -> ceL result = true ->
  ceL (ocp_loop fuel rfuel src orig orphan r result) = true.
Proof.
  induction fuel as [|f IH]; intros rfuel src orig orphan r result Ho Hor Hr.
  { cbn [ocp_loop]. rewrite ceL_app, Hr. cbn. rewrite Ho. reflexivity. }
  assert (Hkeep : ceL (result ++ [orig]) = true) by (rewrite ceL_app, Hr; cbn; rewrite Ho; reflexivity).
  assert (Hwo : forall res, ceL res = true -> ceL (match orphan with Some o => res ++ [o] | None => res end) = true).
  { intros res Hres. destruct orphan as [o|]; [|assumption]. rewrite ceL_app, Hres. cbn. rewrite Hor. reflexivity. }
  assert (Hcut : forall pos, ce (set_bik (set_bstart orig pos) (from_ (bik orig) (nodeIndexForPosition (bik orig) pos))) = true).
  { intros pos. apply ce_sub_ik; [rewrite ce_set_bstart; assumption|]. rewrite bik_set_bstart. intros x. apply from_sub. }
  cbn [ocp_loop]. cbv zeta.
  destruct (parseLinkLabel rfuel r) as [[lspan linner] r1].
  destruct (negb (spanValid lspan)); [assumption|].
  destruct (current r1) as [c r2]. destruct (negb (c =? 58)); [assumption|].
  destruct (next r2) as [? r3]. destruct (skipLinkSpace rfuel r3) as [ok r4]. destruct (negb ok); [assumption|].
  destruct (parseLinkDestination rfuel r4) as [[dspan dtext] r5]. destruct (negb (spanValid dspan)); [assumption|].
  destruct (readEOL rfuel r5) as [destEOL r6]. destruct (current r6) as [c6 r7].
  destruct (_ && _ && _); [assumption|].
  set (labelInline := Inl LinkLabelKind _ _ 0 _ _). set (destInline := Inl LinkDestinationKind _ _ 0 [] _).
  assert (H2 : ceL (result ++ [refDefBlock (fst lspan) destEOL [labelInline; destInline]]) = true).
  { rewrite ceL_app, Hr. reflexivity. }
  destruct (skipLinkSpace rfuel r7) as [ok2 r8]. destruct (negb ok2); [apply Hwo; assumption|].
  destruct (parseLinkTitle rfuel r8) as [[tspan ttext] r9].
  destruct (negb (spanValid tspan)).
  { destruct (destEOL <? 0); [assumption|]. destruct (_ <? 0); [apply Hwo; assumption|].
    apply IH; [apply Hcut|assumption|assumption]. }
  destruct (readEOL rfuel r9) as [titleEOL r10].
  destruct (titleEOL <? 0).
  { destruct (destEOL <? 0); [assumption|]. destruct (_ <? 0); [apply Hwo; assumption|].
    rewrite app_assoc, ceL_app, H2. cbn. rewrite Hcut. reflexivity. }
  set (titleInline := Inl LinkTitleKind _ _ 0 [] _).
  assert (H3 : ceL (result ++ [refDefBlock (fst lspan) titleEOL [labelInline; destInline; titleInline]]) = true).
  { rewrite ceL_app, Hr. reflexivity. }
  destruct (_ <? 0); [apply Hwo; assumption|]. apply IH; [apply Hcut|assumption|assumption].
Qed.

Lemma ce_onCloseParagraph src orig : ce orig = true -> ceL (onCloseParagraph src orig) = true.
Proof.
  intros H. unfold onCloseParagraph. destruct (bik orig) as [|first rest] eqn:Eb; [cbn; rewrite H; reflexivity|].
  cbv zeta. rewrite <- Eb. apply ce_ocp; [assumption| |reflexivity].
  destruct (bkind orig =? SetextHeadingKind); [|exact I]. reflexivity.
Qed.

Lemma ce_closeBlock src e : forall fuel b, ce b = true -> ceL (closeBlock fuel src b e) = true.
Proof.
  induction fuel as [|f IH]; intros b H; [cbn; rewrite H; reflexivity|]. cbn [closeBlock].
  destruct (negb (isOpen b)); [cbn; rewrite H; reflexivity|]. cbv zeta.
  assert (Hcl : forall x, ce x = true ->
            ce (match lastBlock x with Some c => set_lastBlocks x (closeBlock f src c e) | None => x end) = true).
  { intros x Hx. destruct (lastBlock x) as [c|] eqn:El; [|assumption].
    apply ce_set_lastBlocks; [assumption|]. apply IH. eapply ce_lastBlock; eassumption. }
  assert (H1 : ce (set_bend b e) = true) by (rewrite ce_set_bend; assumption).
  destruct (bkind (set_bend b e) =? ListKind).
  { cbn [ceL forallb]. rewrite Hcl; [reflexivity|]. apply ce_onCloseList. assumption. }
  destruct (bkind (set_bend b e) =? IndentedCodeBlockKind).
  { cbn [ceL forallb]. rewrite Hcl; [reflexivity|]. apply ce_onCloseIndented. assumption. }
  destruct (_ || _); [apply ce_onCloseParagraph; assumption|].
  cbn [ceL forallb]. rewrite Hcl; [reflexivity|assumption].
Qed.

(* ---- the line parser ---- *)
Definition ceP (p : lp) : Prop := ce (root p) = true.

Lemma ceP_same p p' : same_tree p p' -> ceP p -> ceP p'.
Proof. intros [E1 _]. unfold ceP. rewrite E1. tauto. Qed.
Lemma ceP_advance p n : ceP p -> ceP (advance p n). Proof. apply ceP_same, same_advance. Qed.
Lemma ceP_consumeLine p : ceP p -> ceP (consumeLine p). Proof. apply ceP_same, same_consumeLine. Qed.
Lemma ceP_consumeIndent p n : ceP p -> ceP (consumeIndent p n). Proof. apply ceP_same, same_consumeIndent. Qed.
Lemma ceP_opened p : ceP p -> ceP (if state p =? stOpening then withState p stOpenMatched else p).
Proof. apply ceP_same, same_opened. Qed.

Lemma ceP_updCont p f : ceP p -> (forall b, ce b = true -> ce (f b) = true) -> ceP (updCont p f).
Proof. intros H Hf. unfold ceP, updCont. cbn. apply ce_updAt; assumption. Qed.
Lemma ceP_updCont_at p f : ceP p ->
  (forall b, getAt (cdepth p) (root p) = Some b -> ce b = true -> ce (f b) = true) -> ceP (updCont p f).
Proof. intros H Hf. unfold ceP, updCont. cbn. apply ce_updAt_at; assumption. Qed.

Lemma ceP_closeLastChildAt p d e : ceP p -> ceP (closeLastChildAt p d e).
Proof.
  intros H. unfold ceP, closeLastChildAt. cbn. apply ce_updAt; [|assumption].
  intros b Hb. destruct (lastBlock b) as [c|] eqn:El; [|assumption].
  apply ce_set_lastBlocks; [assumption|]. apply ce_closeBlock. eapply ce_lastBlock; eassumption.
Qed.
Lemma ceP_openBlock_up : forall fuel p kind, ceP p -> ceP (openBlock_up fuel p kind).
Proof.
  induction fuel as [|f IH]; intros p kind H; [assumption|]. cbn [openBlock_up].
  destruct (canContain _ _); [assumption|]. destruct (cdepth p); [assumption|].
  apply IH. apply (ceP_closeLastChildAt p n (lineStart p) H).
Qed.
Lemma ceP_openBlock p kind : ceP p -> ceP (openBlock p kind).
Proof.
  intros H. unfold openBlock. destruct (_ || _); [assumption|]. cbv zeta.
  match goal with |- ceP (withCont ?q _) => change (ceP q) end. apply ceP_updCont.
  - apply ceP_closeLastChildAt, ceP_openBlock_up, ceP_opened, H.
  - intros b Hb. apply ce_set_bkids; [assumption|]. rewrite ceL_app. apply ce_parts in Hb. destruct Hb as [_ Hb]. rewrite Hb.
    unfold newBlock. cbn [ceL forallb ce]. unfold ceK. rewrite orb_true_r. reflexivity.
Qed.
Lemma ceP_endBlock p : ceP p -> ceP (endBlock p).
Proof.
  intros H. unfold endBlock. destruct (_ || _); [assumption|]. cbv zeta.
  destruct (cdepth _) eqn:Ed; [destruct (state p =? stOpening); assumption|].
  match goal with |- ceP (withCont ?q _) => change (ceP q) end. apply ceP_closeLastChildAt, ceP_opened, H.
Qed.

(* CollectInline: only into a container that cannot hold blocks *)
Lemma ceP_collectInline p kind n K : ceP p -> ckind p K -> isContK K = false -> ceP (collectInline p kind n).
Proof.
  intros H Hc Hk. unfold collectInline. destruct (_ =? stDescendTerminated); [assumption|]. cbv zeta.
  set (p0 := if state p =? stOpening then withState p stOpenMatched else p).
  assert (H0 : ceP p0) by (apply ceP_opened, H).
  assert (C0 : ckind p0 K) by (eapply ckind_same; [apply same_opened|exact Hc]).
  set (p1 := if 0 <? indent p0 then _ else p0).
  assert (H1 : ceP p1 /\ ckind p1 K).
  { unfold p1. destruct (0 <? indent p0); [|tauto]. split.
    - apply ceP_updCont_at; [apply ceP_advance, H0|]. intros b Hb Hi. apply ce_add_ik; [assumption|].
      rewrite (ckind_same p0 (advance p0 _) K (same_advance p0 _) C0 b Hb). exact Hk.
    - apply ckind_updCont; [intros b; apply bkind_set_bik|]. eapply ckind_same; [apply same_advance|exact C0]. }
  destruct H1 as [H1 C1].
  apply ceP_updCont_at; [apply ceP_advance, H1|].
  intros b Hb Hi. apply ce_add_ik; [assumption|].
  rewrite (ckind_same p1 (advance p1 n) K (same_advance p1 n) C1 b Hb). exact Hk.
Qed.

(* match rules *)
Lemma ceP_matchRule p : ceP p -> ceP (snd (matchRule p)).
Proof.
  intros H. unfold matchRule. cbv zeta.
  destruct (_ || _); [assumption|].
  destruct (_ =? ListItemKind).
  { unfold matchListItem. destruct (isRestBlank p); [destruct (negb _); [assumption|apply ceP_consumeIndent, H]|].
    destruct (_ <=? _); [apply ceP_consumeIndent, H|assumption]. }
  destruct (_ =? BlockQuoteKind).
  { unfold matchBlockQuote. cbv zeta. destruct (_ <=? _); [assumption|]. destruct (negb _); [assumption|]. cbn [snd].
    unfold eatQuoteMarker. cbv zeta. destruct (0 <? _); repeat first [apply ceP_consumeIndent|apply ceP_advance]; assumption. }
  destruct (_ =? FencedCodeBlockKind).
  { unfold matchFenced. cbv zeta. destruct (if _ <? _ then _ else false); cbn [snd]; [apply ceP_consumeLine|apply ceP_consumeIndent]; assumption. }
  destruct (_ =? IndentedCodeBlockKind).
  { unfold matchIndented. cbv zeta. destruct (_ <? _); [destruct (negb _)|]; cbn [snd]; try apply ceP_consumeIndent; assumption. }
  destruct (containerKind p =? HTMLBlockKind) eqn:Eh.
  { unfold matchHTML. destruct (htmlEnd _ _); [|assumption]. destruct (isRestBlank _); [assumption|]. cbn [snd]. apply ceP_consumeLine.
    eapply ceP_collectInline; [assumption|apply ckind_self|]. apply Z.eqb_eq in Eh. rewrite Eh. reflexivity. }
  assumption.
Qed.

Lemma ceP_descend_loop : forall fuel p d, ceP p -> ceP (snd (descend_loop fuel p d)).
Proof.
  induction fuel as [|f IH]; intros p d H; [assumption|]. cbn [descend_loop]. cbv zeta.
  destruct (getAt (S d) (root p)) as [c|]; [|assumption].
  destruct (negb (isOpen c)); [assumption|]. destruct (negb (hasMatch _)); [assumption|].
  pose proof (ceP_matchRule (withState (withCont p (Some (S d))) stDescending) H) as H2.
  destruct (matchRule _) as [ok p2]. cbn [snd] in H2.
  destruct (state p2 =? stDescendTerminated); [cbn [snd]; apply (ceP_closeLastChildAt p2 d _ H2)|].
  destruct (negb ok); [assumption|]. apply IH. assumption.
Qed.

(* ---- block starts ---- *)
Ltac cchain H :=
  repeat match goal with
  | |- ceP (consumeLine _) => apply ceP_consumeLine
  | |- ceP (endBlock _) => apply ceP_endBlock
  | |- ceP (advance _ _) => apply ceP_advance
  | |- ceP (consumeIndent _ _) => apply ceP_consumeIndent
  | |- ceP (openBlock _ _) => apply ceP_openBlock
  | |- ceP (updCont _ _) => apply ceP_updCont; [|intros ? ?; rewrite ?ce_set_bn, ?ce_set_bchar, ?ce_set_bindent; assumption]
  end;
  try exact H.

Lemma ceP_startBlockQuote p : ceP p -> ceP (startBlockQuote p).
Proof. intros H. unfold startBlockQuote. cbv zeta. destruct (_ <=? _); [assumption|]. destruct (negb _); [assumption|].
       destruct (0 <? _); cchain H. Qed.
Lemma ceP_startATX p : st_open p -> ceP p -> ceP (startATX p).
Proof.
  intros Hs H. unfold startATX. cbv zeta. destruct (_ <=? _); [assumption|].
  destruct (parseATXHeading _) as [[level cs] ce0]. destruct (level <? 1); [assumption|].
  apply ceP_endBlock, ceP_consumeLine.
  eapply (ceP_collectInline _ _ _ ATXHeadingKind); [cchain H| |reflexivity].
  eapply ckind_same; [apply same_advance|]. apply ckind_updCont; [intros b; destruct b; reflexivity|].
  apply ckind_openBlock, st_open_consumeIndent, Hs.
Qed.
Lemma ceP_startFenced p : st_open p -> ceP p -> ceP (startFenced p).
Proof.
  intros Hs H. unfold startFenced. cbv zeta. destruct (_ <=? _); [assumption|].
  destruct (parseCodeFence _) as [[[fc fnn] is_] ie]. destruct (fnn =? 0); [assumption|].
  apply ceP_consumeLine. destruct (spanValid _); [|cchain H].
  eapply (ceP_collectInline _ _ _ FencedCodeBlockKind); [cchain H| |reflexivity].
  eapply ckind_same; [apply same_advance|].
  apply ckind_updCont; [intros b; destruct b; reflexivity|]. apply ckind_updCont; [intros b; destruct b; reflexivity|].
  apply ckind_openBlock, st_open_consumeIndent, Hs.
Qed.
Lemma ceP_startHTML p : st_open p -> ceP p -> ceP (startHTML p).
Proof.
  intros Hs H. unfold startHTML. cbv zeta. destruct (_ <=? _); [assumption|]. destruct (negb _); [assumption|].
  destruct (_ <? 0); [assumption|]. destruct (negb _ && _); [assumption|]. destruct (htmlEnd _ _); [|cchain H].
  apply ceP_endBlock, ceP_consumeLine. eapply (ceP_collectInline _ _ _ HTMLBlockKind); [cchain H| |reflexivity].
  apply ckind_updCont; [intros b; destruct b; reflexivity|]. apply ckind_openBlock, Hs.
Qed.
Lemma ceP_startSetext p : ceP p -> ceP (startSetext p).
Proof.
  intros H. unfold startSetext. cbv zeta. destruct (negb (containerKind p =? ParagraphKind)) eqn:Ek; [assumption|].
  do 3 (match goal with |- ceP (if ?c then _ else _) => destruct c end; [assumption|]).
  apply ceP_endBlock, ceP_consumeLine. apply ceP_updCont; [assumption|].
  intros b Hi. rewrite ce_set_bn. apply ce_set_bkind; [reflexivity|assumption].
Qed.
Lemma ceP_startThematic p : ceP p -> ceP (startThematic p).
Proof. intros H. unfold startThematic. cbv zeta. destruct (_ <=? _); [assumption|]. destruct (_ <? 0); [assumption|]. cchain H. Qed.
Lemma ceP_startListItem p : ceP p -> ceP (startListItem p).
Proof.
  intros H. unfold startListItem. cbv zeta. destruct (_ <=? _); [assumption|].
  destruct (parseListMarker _) as [[delim n] mend]. destruct (_ || _); [assumption|]. destruct (_ && _); [assumption|].
  match goal with |- context [endBlock ?X] => assert (H1 : ceP (endBlock X)) end.
  { destruct (negb _ || negb _); cchain H. }
  match goal with |- context [endBlock ?X] => set (q := endBlock X) in * end.
  destruct (isRestBlank q); [cchain H1|].
  destruct (indent q <? 1); [cchain H1|]. destruct (4 <? indent q); cchain H1.
Qed.
Lemma ceP_startIndented p : ceP p -> ceP (startIndented p).
Proof. intros H. unfold startIndented. destruct (_ || _ || _); [assumption|]. cchain H. Qed.

Definition cstartOK (f : lp -> lp) : Prop := forall p, st_open p -> ceP p -> ceP (f p).
Lemma blockStarts_cok : Forall cstartOK blockStarts.
Proof.
  unfold blockStarts. repeat constructor; intros p Hs H;
    [apply ceP_startBlockQuote|apply ceP_startATX|apply ceP_startFenced|apply ceP_startHTML
    |apply ceP_startSetext|apply ceP_startThematic|apply ceP_startListItem|apply ceP_startIndented]; assumption.
Qed.
Lemma ceP_tryStarts : forall fs p, Forall cstartOK fs -> ceP p -> ceP (snd (tryStarts fs p)).
Proof.
  induction fs as [|f r IH]; intros p Hfs H; [assumption|]. cbn [tryStarts]. cbv zeta. inversion Hfs as [|? ? Hf Hr]; subst.
  assert (H1 : ceP (f (withState p stOpening))) by (apply Hf; [left; reflexivity|assumption]).
  destruct (_ || _); [assumption|]. apply IH; assumption.
Qed.
Lemma ceP_opening_loop : forall fuel p, ceP p -> ceP (snd (opening_loop fuel p)).
Proof.
  induction fuel as [|f IH]; intros p H; [assumption|]. cbn [opening_loop].
  destruct (_ || _); [|assumption].
  pose proof (ceP_tryStarts blockStarts p blockStarts_cok H) as H1. destruct (tryStarts blockStarts p) as [[|] p1]; cbn [snd] in H1.
  - destruct (_ =? stLineConsumed); [assumption|apply IH; assumption].
  - assumption.
Qed.
Lemma ceP_deferredClose p : ceP p -> ceP (deferredClose p).
Proof. intros H. unfold deferredClose. cbv zeta. destruct (_ && _); [assumption|apply ceP_closeLastChildAt, H]. Qed.
Lemma ceP_openNewBlocks p am : ceP p -> ceP (snd (openNewBlocks p am)).
Proof.
  intros H. unfold openNewBlocks. destruct (_ =? 0).
  - cbn [snd]. unfold ceP. cbn.
    pose proof (ce_closeBlock (source p) (lineStart p) (bheight (root p)) (root p) H) as Hc.
    destruct (closeBlock _ _ _ _) as [|b r]; [assumption|]. cbn in Hc. apply andb_true_iff in Hc. tauto.
  - pose proof (ceP_opening_loop (S (length (line p))) p H) as H1. destruct (opening_loop _ p) as [ht p1]. cbn [snd] in H1.
    destruct am; cbn [snd]; [assumption|apply ceP_deferredClose, H1].
Qed.

Lemma ce_setLastBlankUpTo v : forall d rt, ce rt = true -> ce (setLastBlankUpTo d v rt) = true.
Proof.
  induction d as [|d IH]; intros rt H; cbn [setLastBlankUpTo].
  - cbn [updAt]. rewrite ce_set_blast. assumption.
  - apply IH. apply ce_updAt; [intros b Hb; rewrite ce_set_blast; assumption|assumption].
Qed.

Lemma acceptsLines_leaf K : acceptsLines K = true -> isContK K = false.
Proof.
  unfold acceptsLines. intros H. repeat (apply orb_true_iff in H; destruct H as [H|H]); apply Z.eqb_eq in H; subst K; reflexivity.
Qed.

Lemma ceP_go q : ceP q -> isContK (containerKind q) = false ->
  ceP (let k := containerKind q in
        let inlineKind := if isCode k then TextKind else if k =? HTMLBlockKind then RawHTMLKind else UnparsedKind in
        let q' := updCont q (fun b => set_bik b (bik b ++ [mkI inlineKind (lineStart q + li q) (lineStart q + len (line q))])) in
        if isCode k && negb (hasByteSuffixEOL (line q')) then
          updCont q' (fun b => set_bik b (bik b ++ [mkI SoftLineBreakKind (lineStart q' + len (line q')) (lineStart q' + len (line q'))]))
        else q').
Proof.
  intros Hq Nk. cbv zeta.
  set (q' := updCont q _).
  assert (Hq' : ceP q').
  { apply ceP_updCont_at; [assumption|]. intros b Hb Hi. apply ce_add_ik; [assumption|]. rewrite (ckind_self q b Hb). exact Nk. }
  assert (Cq' : ckind q' (containerKind q)) by (apply ckind_updCont; [intros b; apply bkind_set_bik|apply ckind_self]).
  destruct (isCode (containerKind q) && negb _); [|exact Hq'].
  apply ceP_updCont_at; [exact Hq'|]. intros b Hb Hi. apply ce_add_ik; [assumption|]. rewrite (Cq' b Hb). exact Nk.
Qed.

Lemma ceP_addLineText p : ceP p -> (acceptsLines (containerKind p) = false -> st_open p) -> ceP (addLineText p).
Proof.
  intros H Hst. unfold addLineText. cbv zeta.
  set (p1 := if isRestBlank p then _ else p).
  assert (H1 : ceP p1).
  { unfold p1. destruct (isRestBlank p); [|assumption]. apply ceP_updCont; [assumption|].
    intros b Hb. destruct (lastBlock b) as [c|] eqn:El; [|assumption].
    apply ce_set_lastBlocks; [assumption|]. cbn. rewrite ce_set_blast, andb_true_r. eapply ce_lastBlock; eassumption. }
  assert (K1 : containerKind p1 = containerKind p).
  { unfold p1. destruct (isRestBlank p); [|reflexivity]. apply containerKind_updCont.
    intros b. destruct (lastBlock b); [destruct b; reflexivity|reflexivity]. }
  assert (S1 : state p1 = state p) by (unfold p1; destruct (isRestBlank p); reflexivity).
  set (p2 := withRoot p1 _).
  assert (H2 : ceP p2) by (unfold p2, ceP; cbn; apply ce_setLastBlankUpTo; exact H1).
  assert (K2 : containerKind p2 = containerKind p).
  { rewrite <- K1. unfold containerKind, contBlock, p2, cdepth. cbn [root container withRoot setLP]. fold (cdepth p1).
    match goal with |- bkind (match getAt ?k (setLastBlankUpTo ?d ?v ?r) with _ => _ end) = _ =>
      pose proof (kindAt_setLastBlankUpTo v d k r) as E end.
    destruct (getAt (cdepth p1) (setLastBlankUpTo _ _ _)); destruct (getAt (cdepth p1) (root p1)); cbn in E; try congruence; reflexivity. }
  assert (S2 : state p2 = state p) by exact S1.
  change (bkind (contBlock p1)) with (containerKind p1). rewrite K1.
  destruct (acceptsLines (containerKind p)) eqn:Ea.
  - assert (Hleaf : isContK (containerKind p2) = false) by (rewrite K2; apply acceptsLines_leaf, Ea).
    apply ceP_go.
    + match goal with |- ceP (if ?c then _ else _) => destruct c end; [|exact H2].
      apply ceP_consumeIndent. apply ceP_updCont_at; [exact H2|]. intros b Hb Hi. apply ce_add_ik; [assumption|].
      rewrite (ckind_self p2 b Hb). exact Hleaf.
    + match goal with |- isContK (containerKind (if ?c then _ else _)) = false => destruct c end; [|exact Hleaf].
      rewrite (containerKind_same _ _ (same_consumeIndent _ _)), containerKind_updCont; [exact Hleaf|]. intros b. apply bkind_set_bik.
  - match goal with |- ceP (if ?c then _ else _) => destruct c end; [|exact H2].
    assert (So : st_open p2) by (unfold st_open; rewrite S2; exact (Hst eq_refl)).
    apply ceP_go; [apply ceP_consumeIndent, ceP_openBlock, H2|].
    assert (Ck : ckind (consumeIndent (openBlock p2 ParagraphKind) (indent (openBlock p2 ParagraphKind))) ParagraphKind).
    { eapply ckind_same; [apply same_consumeIndent|]. apply ckind_openBlock, So. }
    unfold containerKind, contBlock. destruct (getAt _ _) as [x|] eqn:E; [rewrite (Ck x E); reflexivity|reflexivity].
Qed.

Theorem ce_processLine st children ls src : ceL children = true ->
  ceL (fst (fst (processLine st children ls src))) = true.
Proof.
  intros H. unfold processLine. cbv zeta.
  assert (H0 : ceP (resetLP st children ls src)) by (unfold ceP; cbn; exact H).
  pose proof (ceP_descend_loop (bheight (root (resetLP st children ls src))) _ O H0) as H1.
  fold (descendOpenBlocks (resetLP st children ls src)) in H1.
  destruct (descendOpenBlocks _) as [am p1]. cbn [snd] in H1.
  assert (H2 : ceP (snd (if negb (state p1 =? stDescendTerminated) then openNewBlocks p1 am else (false, p1))) /\
               (fst (if negb (state p1 =? stDescendTerminated) then openNewBlocks p1 am else (false, p1)) = true ->
                goodSt (snd (if negb (state p1 =? stDescendTerminated) then openNewBlocks p1 am else (false, p1))))).
  { destruct (negb _); [split; [apply ceP_openNewBlocks; assumption|apply openNewBlocks_good]|split; [assumption|cbn; discriminate]]. }
  destruct (if negb (state p1 =? stDescendTerminated) then openNewBlocks p1 am else (false, p1)) as [ht p2]. cbn [fst snd] in H2.
  destruct H2 as [H2 G2]. cbn [fst].
  assert (H3 : ceP (if ht then addLineText p2 else p2)).
  { destruct ht; [apply ceP_addLineText; [exact H2|exact (G2 eq_refl)]|exact H2]. }
  unfold ceP in H3. apply ce_parts in H3. tauto.
Qed.

(* ---- the stream layer ---- *)
Lemma ce_shiftB n : forall b, ce (shiftB n b) = ce b.
Proof.
  fix IH 1. intros [k s e bk ik a nn c l lb]. cbn [shiftB ce]. f_equal.
  - unfold ceK. destruct ik; reflexivity.
  - induction bk as [|x r IHr]; [reflexivity|]. cbn [map forallb]. rewrite (IH x), IHr. reflexivity.
Qed.
Lemma ceL_shift n l : ceL (map (shiftB n) l) = ceL l.
Proof. unfold ceL. induction l as [|x r IH]; [reflexivity|]. cbn [map forallb]. rewrite ce_shiftB, IH. reflexivity. Qed.

Lemma ce_makeRoot children s r s' : ceL children = true -> makeRoot children s = Some (r, s') ->
  ce (rb_blk r) = true /\ ceL (pending s') = true.
Proof.
  intros H Hm. unfold makeRoot in Hm. destruct children as [|b rest]; [discriminate|].
  destruct (isOpen b); [discriminate|]. inversion Hm; subst. cbn [rb_blk pending].
  cbn [ceL forallb] in H. apply andb_true_iff in H. destruct H as [Hb Hr]. split; [assumption|].
  rewrite ceL_shift. assumption.
Qed.
Definition cnb_ok (x : nb) : Prop :=
  match x with NBBlock r s' => ce (rb_blk r) = true /\ ceL (pending s') = true | _ => True end.
Lemma ce_lineLoop : forall fuel st children ls s, ceL children = true -> ceL (pending s) = true ->
  cnb_ok (lineLoop fuel st children ls s).
Proof.
  induction fuel as [|f IH]; intros st children ls s Hc Hp; [exact I|]. cbn [lineLoop].
  pose proof (ce_processLine st children ls (upto (buf s) (bi s)) Hc) as H1.
  destruct (processLine st children ls (upto (buf s) (bi s))) as [[children' st'] pn]. cbn [fst] in H1.
  destruct (negb (pn =? 0)); [exact I|].
  destruct (makeRoot children' s) as [[r s']|] eqn:Em.
  - cbn [cnb_ok]. eapply ce_makeRoot; eassumption.
  - apply IH; assumption.
Qed.
Lemma ce_skipLoop : forall fuel s, ceL (pending s) = true -> cnb_ok (skipLoop fuel s).
Proof.
  induction fuel as [|f IH]; intros s Hp; [exact I|]. cbn [skipLoop]. cbv zeta.
  destruct (negb _); [exact I|]. destruct (isBlankLine _); [apply IH; assumption|].
  apply ce_lineLoop; [reflexivity|assumption].
Qed.
Lemma ce_nextBlock fuel s : ceL (pending s) = true -> cnb_ok (nextBlock fuel s).
Proof.
  intros Hp. unfold nextBlock. destruct (makeRoot (pending s) s) as [[r s']|] eqn:Em.
  - cbn [cnb_ok]. eapply ce_makeRoot; eassumption.
  - destruct (pending s) eqn:Ep; [apply ce_skipLoop; reflexivity|].
    rewrite <- Ep in Hp |- *. apply ce_lineLoop; [exact Hp|cbn [pending]; exact Hp].
Qed.
Lemma ce_allBlocks : forall fuel s acc, ceL (pending s) = true -> Forall (fun r => ce (rb_blk r) = true) acc ->
  Forall (fun r => ce (rb_blk r) = true) (fst (allBlocks fuel s acc)).
Proof.
  induction fuel as [|f IH]; intros s acc Hp Ha; [exact Ha|]. cbn [allBlocks].
  pose proof (ce_nextBlock (3 + length (buf s)) s Hp) as Hn.
  destruct (nextBlock _ s) as [r s'| | |]; try exact Ha.
  destruct Hn as [Hr Hp']. apply IH; [assumption|]. apply Forall_app. split; [assumption|]. constructor; [assumption|constructor].
Qed.

(* a block that can hold block children has no inline entries: every block of every root, every input *)
Theorem parseBlocks_noMixed input : Forall (fun r => ce (rb_blk r) = true) (fst (parseBlocks input)).
Proof. unfold parseBlocks. apply ce_allBlocks; [reflexivity|constructor]. Qed.
Print Assumptions parseBlocks_noMixed.
